import Verif.Proofs.HtmlAttr
import Verif.Proofs.HtmlRefs
import Verif.Proofs.HtmlEntTable
import Verif.Gen.C03Tables
/-!
# C03 — HTML minification preserves the parsed document

Property theorems only.  Models: `Verif.Model.HtmlAttr` (byte-level helpers), `Verif.Model.Html` (token loop);
specifications: `Verif.Spec.HtmlAttr` (HTML standard: attribute tokenisation, character references),
`Verif.Spec.HtmlKnown` (guards of the known findings).
-/
namespace Verif.Props.C03
open Verif.Spec.HtmlAttr Verif.Spec.HtmlKnown Verif.Model.HtmlAttr Verif.Proofs.HtmlAttr
open Verif.Proofs.HtmlRefs Verif.Proofs.HtmlEntTable Verif.Gen
set_option maxRecDepth 1000000

/-! ## attributes: quoting and escaping (`html.EscapeAttrVal`) -/

/-- **attr_roundtrip.**  Whatever value `v` (non-empty — `html.go` writes `=value` only then), original quote
    and `mustQuote` flag `EscapeAttrVal` is called with, and however the tag continues (a space before the next
    attribute, or `>`): an HTML-standard tokenizer reads the emitted bytes back as exactly one *conforming*
    attribute value (unquoted only if free of whitespace, quotes, `=`, `<`, `>`, backtick), ends exactly where
    the emitted value ends, and the raw value it finds decodes (attribute context) to the same units as `v`.
    In particular the choice of quotes and the `&#34;`/`&#39;` escapes never change the attribute's value. -/
theorem attr_roundtrip (v : List Char) (q : Quote) (must : Bool) (rest : List Char)
    (hv : v ≠ []) (hrest : tagContinues rest = true) :
    ∃ raw, tokenizeAttr (escapeAttrVal v q must ++ rest) = some (raw, rest) ∧
      decodeAttr raw = decodeAttr v := by
  unfold escapeAttrVal
  simp only
  split
  · next h =>
    -- unquoted
    simp only [Bool.and_eq_true] at h
    exact ⟨v, tokenizeAttr_unquoted v rest hv h.1 hrest, rfl⟩
  · split
    · next _ h =>
      -- original quote, not occurring in the value
      refine ⟨v, ?_, rfl⟩
      have hq : (q.char = '"' ∨ q.char = '\'') ∧ q.char ∉ v := by
        simp only [Bool.or_eq_true, Bool.and_eq_true, decide_eq_true_eq] at h
        rcases h with ⟨hc, ho⟩ | ⟨hc, ho⟩
        · subst ho; exact ⟨Or.inr rfl, List.count_eq_zero.mp hc⟩
        · subst ho; exact ⟨Or.inl rfl, List.count_eq_zero.mp hc⟩
      have := tokenizeAttr_quoted q.char v rest hq.1 hq.2
      simpa using this
    · split
      · -- double quotes, `"` escaped as &#34;
        refine ⟨escapeQuote '"' ['&', '#', '3', '4', ';'] v, ?_, ?_⟩
        · have := tokenizeAttr_quoted '"' (escapeQuote '"' ['&', '#', '3', '4', ';'] v) rest (Or.inl rfl)
            (not_mem_escapeQuote _ _ _ (by decide))
          simpa using this
        · exact dec_escapeQuote true '"' '3' '4' (by decide) (by decide) (matchRef_34 true) _ v (Nat.le_refl _)
      · -- single quotes, `'` escaped as &#39;
        refine ⟨escapeQuote '\'' ['&', '#', '3', '9', ';'] v, ?_, ?_⟩
        · have := tokenizeAttr_quoted '\'' (escapeQuote '\'' ['&', '#', '3', '9', ';'] v) rest (Or.inr rfl)
            (not_mem_escapeQuote _ _ _ (by decide))
          simpa using this
        · exact dec_escapeQuote true '\'' '3' '9' (by decide) (by decide) (matchRef_39 true) _ v (Nat.le_refl _)

/-- non-vacuity: a value with both kinds of quotes, a reference and a space, continued by another attribute -/
example : tokenizeAttr (escapeAttrVal "a\"b'c &amp; d".toList .single true ++ " x>".toList)
    = some ("a\"b&#39;c &amp; d".toList, " x>".toList) := by decide

/-- the unquoted form is chosen exactly when no byte of the value needs quoting (and quotes may be dropped) -/
theorem unquoted_iff (v : List Char) (q : Quote) (must : Bool) :
    (v.all (fun c => !needsQuote c) && (!must || q = .none)) = true → escapeAttrVal v q must = v := by
  intro h; unfold escapeAttrVal; simp only [h, if_true]

/-! ## character references (`parse.ReplaceEntities` with `html.EntitiesMap` / `html.TextRevEntitiesMap`) -/

/-- **entities_table_sound** (whole regenerated tables, linear merge evaluated by the kernel).
    Every row `name ↦ r` of `html.EntitiesMap`: `name;` is a named character reference of the HTML5 table,
    and `r` is either the single ASCII byte it denotes (never CR), or a complete decimal reference `&#N;` to its
    code point, or a complete reference `&name2;` to an alias with the same code points.  Every row
    `b ↦ q` of `html.TextRevEntitiesMap`: `q` is a complete named reference that denotes the byte `b`. -/
theorem entities_table_sound :
    emCheck C03Html5Entities.entities C03Tables.entitiesMap = true ∧
    revCheck C03Tables.textRevEntitiesMap = true := by
  constructor <;> decide +kernel

/-- what `html.go` does to the references of a text token (`attr = false`: both maps) or of an attribute value
    (`attr = true`: `revEntitiesMap = nil`) -/
def replaceEntitiesCtx (attr : Bool) (raw : List Char) : List Char :=
  if attr then replaceEntitiesAttr raw else replaceEntitiesText raw

/-- full statement: replacing character references never changes what the text / attribute value decodes to -/
def entities_preserve_full : Prop :=
  ∀ (attr : Bool) (raw : List Char), decodeRefs attr (replaceEntitiesCtx attr raw) = decodeRefs attr raw

/-- **entities_preserve_partial.**  For every raw text / raw attribute value outside the three narrow guards
    (`glue`: K-C03-1, `ctlRef`/`crLfRef`: K-C03-2, `hexOverflow`: K-C03-3 — see `Spec/HtmlKnown.lean`; `crLfRef` is
    not needed for the equality of units proved here but for reading it as an equality of parsed values, see there),
    the bytes written by
    `parse.ReplaceEntities` decode — in the same context, by the HTML standard's rules, whatever follows — to
    exactly the units the input decodes to.  By induction over the text, for all inputs at once. -/
theorem entities_preserve_partial (attr : Bool) (raw : List Char) (g : refsTrigger raw = false) :
    decodeRefs attr (replaceEntitiesCtx attr raw) = decodeRefs attr raw := by
  have hem : EmOk C03Tables.entitiesMap := emCheck_sound _ entities_table_sound.1
  simp only [refsTrigger, Bool.or_eq_false_iff] at g
  obtain ⟨⟨⟨hg, hc⟩, ho⟩, _⟩ := g
  unfold replaceEntitiesCtx
  cases attr with
  | true =>
    exact replEnt_preserve _ [] hem (fun ch q h => by simp [List.lookup] at h) true _ raw (Nat.le_refl _) hg hc ho
  | false =>
    exact replEnt_preserve _ _ hem (revCheck_sound _ entities_table_sound.2) false _ raw (Nat.le_refl _) hg hc ho

/-- non-vacuity: an ordinary text with five kinds of references is outside the guards and is really rewritten -/
example : refsTrigger "a &amp; b &lt; &#233;&AElig;&quot;".toList = false ∧
    replaceEntitiesCtx false "a &amp; b &lt; &#233;&AElig;&quot;".toList = "a & b &lt; &#233;&#198;\"".toList := by
  decide +kernel

/-- **entities_preserve_counterexample** (K-C03-1): `&amp;&#108;t;` becomes `&lt;`, which denotes `<`, while the
    input denotes the four characters `&lt;`.  The replacements are made one after the other in place, so the
    second one completes a reference that the input did not contain. -/
theorem entities_preserve_counterexample : ¬ entities_preserve_full := by
  intro h
  exact absurd (h false "&amp;&#108;t;".toList) (by decide +kernel)

/-- the guard `ctlRef` is needed (K-C03-2): `a&#13;b` in an attribute value is written with a literal CR byte,
    which the parser's newline normalisation turns into LF; `&#0;` is written as a literal NUL -/
theorem entities_preserve_ctl_counterexample :
    decodeRefs true (replaceEntitiesCtx true "a&#13;b".toList) ≠ decodeRefs true "a&#13;b".toList ∧
    decodeRefs false (replaceEntitiesCtx false "a&#0;b".toList) ≠ decodeRefs false "a&#0;b".toList := by
  decide +kernel

/-- the guard `hexOverflow` is needed (K-C03-3): Go accumulates the hexadecimal value in a wrapping `int` -/
theorem entities_preserve_overflow_counterexample :
    decodeRefs true (replaceEntitiesCtx true "&#x8000000000000041;".toList) = [.lit 'A'] ∧
    decodeRefs true "&#x8000000000000041;".toList = [.cp 0xFFFD] := by
  decide +kernel

end Verif.Props.C03

import Verif.Proofs.HtmlAttr
import Verif.Proofs.HtmlRefs
import Verif.Proofs.HtmlEntTable
import Verif.Gen.C03Tables
import Verif.Proofs.HtmlWs
import Verif.Proofs.HtmlOptional
/-!
# C03 — HTML minification preserves the parsed document

Property theorems only.  Models: `Verif.Model.HtmlAttr` (byte-level helpers), `Verif.Model.Html` (token loop);
specifications: `Verif.Spec.HtmlAttr` (HTML standard: attribute tokenisation, character references),
`Verif.Spec.HtmlKnown` (guards of the known findings).
-/
namespace Verif.Props.C03
open Verif.Spec.HtmlAttr Verif.Spec.HtmlKnown Verif.Model.HtmlAttr Verif.Proofs.HtmlAttr
open Verif.Proofs.HtmlRefs Verif.Proofs.HtmlEntTable Verif.Gen
set_option maxRecDepth 1000000

/-! ## attributes: quoting and escaping (`html.EscapeAttrVal`) -/

/-- **attr_roundtrip.**  Whatever value `v` (non-empty — `html.go` writes `=value` only then), original quote
    and `mustQuote` flag `EscapeAttrVal` is called with, and however the tag continues (a space before the next
    attribute, or `>`): an HTML-standard tokenizer reads the emitted bytes back as exactly one *conforming*
    attribute value (unquoted only if free of whitespace, quotes, `=`, `<`, `>`, backtick), ends exactly where
    the emitted value ends, and the raw value it finds decodes (attribute context) to the same units as `v`.
    In particular the choice of quotes and the `&#34;`/`&#39;` escapes never change the attribute's value. -/
theorem attr_roundtrip (v : List Char) (q : Quote) (must : Bool) (rest : List Char)
    (hv : v ≠ []) (hrest : tagContinues rest = true) :
    ∃ raw, tokenizeAttr (escapeAttrVal v q must ++ rest) = some (raw, rest) ∧
      decodeAttr raw = decodeAttr v := by
  unfold escapeAttrVal
  simp only
  split
  · next h =>
    -- unquoted
    simp only [Bool.and_eq_true] at h
    exact ⟨v, tokenizeAttr_unquoted v rest hv h.1 hrest, rfl⟩
  · split
    · next _ h =>
      -- original quote, not occurring in the value
      refine ⟨v, ?_, rfl⟩
      have hq : (q.char = '"' ∨ q.char = '\'') ∧ q.char ∉ v := by
        simp only [Bool.or_eq_true, Bool.and_eq_true, decide_eq_true_eq] at h
        rcases h with ⟨hc, ho⟩ | ⟨hc, ho⟩
        · subst ho; exact ⟨Or.inr rfl, List.count_eq_zero.mp hc⟩
        · subst ho; exact ⟨Or.inl rfl, List.count_eq_zero.mp hc⟩
      have := tokenizeAttr_quoted q.char v rest hq.1 hq.2
      simpa using this
    · split
      · -- double quotes, `"` escaped as &#34;
        refine ⟨escapeQuote '"' ['&', '#', '3', '4', ';'] v, ?_, ?_⟩
        · have := tokenizeAttr_quoted '"' (escapeQuote '"' ['&', '#', '3', '4', ';'] v) rest (Or.inl rfl)
            (not_mem_escapeQuote _ _ _ (by decide))
          simpa using this
        · exact dec_escapeQuote true '"' '3' '4' (by decide) (by decide) (matchRef_34 true) _ v (Nat.le_refl _)
      · -- single quotes, `'` escaped as &#39;
        refine ⟨escapeQuote '\'' ['&', '#', '3', '9', ';'] v, ?_, ?_⟩
        · have := tokenizeAttr_quoted '\'' (escapeQuote '\'' ['&', '#', '3', '9', ';'] v) rest (Or.inr rfl)
            (not_mem_escapeQuote _ _ _ (by decide))
          simpa using this
        · exact dec_escapeQuote true '\'' '3' '9' (by decide) (by decide) (matchRef_39 true) _ v (Nat.le_refl _)

/-- non-vacuity: a value with both kinds of quotes, a reference and a space, continued by another attribute -/
example : tokenizeAttr (escapeAttrVal "a\"b'c &amp; d".toList .single true ++ " x>".toList)
    = some ("a\"b&#39;c &amp; d".toList, " x>".toList) := by decide

/-- the unquoted form is chosen exactly when no byte of the value needs quoting (and quotes may be dropped) -/
theorem unquoted_iff (v : List Char) (q : Quote) (must : Bool) :
    (v.all (fun c => !needsQuote c) && (!must || q = .none)) = true → escapeAttrVal v q must = v := by
  intro h; unfold escapeAttrVal; simp only [h, if_true]

/-! ## character references (`parse.ReplaceEntities` with `html.EntitiesMap` / `html.TextRevEntitiesMap`) -/

/-- **entities_table_sound** (whole regenerated tables, linear merge evaluated by the kernel).
    Every row `name ↦ r` of `html.EntitiesMap`: `name;` is a named character reference of the HTML5 table,
    and `r` is either the single ASCII byte it denotes (never CR), or a complete decimal reference `&#N;` to its
    code point, or a complete reference `&name2;` to an alias with the same code points.  Every row
    `b ↦ q` of `html.TextRevEntitiesMap`: `q` is a complete named reference that denotes the byte `b`. -/
theorem entities_table_sound :
    emCheck C03Html5Entities.entities C03Tables.entitiesMap = true ∧
    revCheck C03Tables.textRevEntitiesMap = true := by
  constructor <;> decide +kernel

/-- what `html.go` does to the references of a text token (`attr = false`: both maps) or of an attribute value
    (`attr = true`: `revEntitiesMap = nil`) -/
def replaceEntitiesCtx (attr : Bool) (raw : List Char) : List Char :=
  if attr then replaceEntitiesAttr raw else replaceEntitiesText raw

/-- full statement: replacing character references never changes what the text / attribute value decodes to -/
def entities_preserve_full : Prop :=
  ∀ (attr : Bool) (raw : List Char), decodeRefs attr (replaceEntitiesCtx attr raw) = decodeRefs attr raw

/-- **entities_preserve_partial.**  For every raw text / raw attribute value outside the three narrow guards
    (`glue`: K-C03-1, `ctlRef`/`crLfRef`: K-C03-2, `hexOverflow`: K-C03-3 — see `Spec/HtmlKnown.lean`; `crLfRef` is
    not needed for the equality of units proved here but for reading it as an equality of parsed values, see there),
    the bytes written by
    `parse.ReplaceEntities` decode — in the same context, by the HTML standard's rules, whatever follows — to
    exactly the units the input decodes to.  By induction over the text, for all inputs at once. -/
theorem entities_preserve_partial (attr : Bool) (raw : List Char) (g : refsTrigger raw = false) :
    decodeRefs attr (replaceEntitiesCtx attr raw) = decodeRefs attr raw := by
  have hem : EmOk C03Tables.entitiesMap := emCheck_sound _ entities_table_sound.1
  simp only [refsTrigger, Bool.or_eq_false_iff] at g
  obtain ⟨⟨⟨hg, hc⟩, ho⟩, _⟩ := g
  unfold replaceEntitiesCtx
  cases attr with
  | true =>
    exact replEnt_preserve _ [] hem (fun ch q h => by simp [List.lookup] at h) true _ raw (Nat.le_refl _) hg hc ho
  | false =>
    exact replEnt_preserve _ _ hem (revCheck_sound _ entities_table_sound.2) false _ raw (Nat.le_refl _) hg hc ho

/-- non-vacuity: an ordinary text with five kinds of references is outside the guards and is really rewritten -/
example : refsTrigger "a &amp; b &lt; &#233;&AElig;&quot;".toList = false ∧
    replaceEntitiesCtx false "a &amp; b &lt; &#233;&AElig;&quot;".toList = "a & b &lt; &#233;&#198;\"".toList := by
  decide +kernel

/-- **entities_preserve_counterexample** (K-C03-1): `&amp;&#108;t;` becomes `&lt;`, which denotes `<`, while the
    input denotes the four characters `&lt;`.  The replacements are made one after the other in place, so the
    second one completes a reference that the input did not contain. -/
theorem entities_preserve_counterexample : ¬ entities_preserve_full := by
  intro h
  exact absurd (h false "&amp;&#108;t;".toList) (by decide +kernel)

/-- the guard `ctlRef` is needed (K-C03-2): `a&#13;b` in an attribute value is written with a literal CR byte,
    which the parser's newline normalisation turns into LF; `&#0;` is written as a literal NUL -/
theorem entities_preserve_ctl_counterexample :
    decodeRefs true (replaceEntitiesCtx true "a&#13;b".toList) ≠ decodeRefs true "a&#13;b".toList ∧
    decodeRefs false (replaceEntitiesCtx false "a&#0;b".toList) ≠ decodeRefs false "a&#0;b".toList := by
  decide +kernel

/-- the guard `hexOverflow` is needed (K-C03-3): Go accumulates the hexadecimal value in a wrapping `int` -/
theorem entities_preserve_overflow_counterexample :
    decodeRefs true (replaceEntitiesCtx true "&#x8000000000000041;".toList) = [.lit 'A'] ∧
    decodeRefs true "&#x8000000000000041;".toList = [.cp 0xFFFD] := by
  decide +kernel

/-- **attr_value_preserved** (the plain attribute path of html.go: `ReplaceEntities`, then `EscapeAttrVal`).
    Outside the guards, whatever quoting the input used and whatever quoting and references the minifier chooses:
    the written attribute tokenises back to one conforming value that decodes to what the input value decoded to. -/
theorem attr_value_preserved (val : List Char) (q : Quote) (must : Bool) (rest : List Char)
    (hne : replaceEntitiesAttr val ≠ []) (hrest : tagContinues rest = true) (g : refsTrigger val = false) :
    ∃ raw, tokenizeAttr (escapeAttrVal (replaceEntitiesAttr val) q must ++ rest) = some (raw, rest) ∧
      decodeAttr raw = decodeAttr val := by
  obtain ⟨raw, h1, h2⟩ := attr_roundtrip (replaceEntitiesAttr val) q must rest hne hrest
  refine ⟨raw, h1, ?_⟩
  rw [h2]
  exact entities_preserve_partial true val g

/-! ## whitespace (`html.go` text branch and the pending-space flag) -/
section Whitespace
open Verif.Model.Html Verif.Spec.HtmlWs Verif.Proofs.HtmlWs

/-- the items of the input document as the model classifies it (tag classes from html/table.go), and of what the
    model writes -/
def inItems (o : Opts) (ext : Ext) (sub : Sub) (toks : List HTok) : List Item := (inOut o ext sub {} toks).1
def outItems (o : Opts) (ext : Ext) (sub : Sub) (toks : List HTok) : List Item := (inOut o ext sub {} toks).2

/-- decidable side conditions of `ws_refine_partial`, checked along the run (`Proofs/HtmlWs.lean`, `tokGuard`):
    no template delimiters; no `</template>` end tag (it sets the pending-space flag unconditionally: K-C03-9);
    no omitted end tag of an object-like element (`rt`, `rtc`: the flag is then not reset: K-C03-9);
    text dropped inside `select`/`optgroup` is whitespace next to an `option`/`select` boundary;
    `<script></script>`/`<style></style>` pairs are closed by a non-object end tag (lexer contract);
    the text of a raw-text element other than script/style follows an object-like start tag (textarea, iframe). -/
def wsGuard (o : Opts) (ext : Ext) (sub : Sub) (toks : List HTok) : Bool := guard o ext sub {} [] toks

/-- **ws_refine_partial.**  For every token stream, every option set (all `Keep*` combinations incl.
    `KeepWhitespace`), every sub-minifier and external-result table: the document that the model writes is the input
    document with some whitespace runs deleted, and every deleted run was deletable where it stood — to its left
    (through inline boundaries) a block boundary, the document start or whitespace that is kept; or to its right
    (through inline boundaries and further whitespace) a block boundary, the end of an atomic inline box or the end
    of the document.  Everything else — words, element boundaries, preformatted and raw text — is in place
    (`refine_words`), and whitespace between two words / atomic inline boxes is never deleted
    (`refine_no_join`).  Classes are those of html/table.go (`blockTag`, `objectTag`); whether those classes match
    the elements' default rendering is a statement about the table (see `tag_classes_counterexample`).
    Proof: induction over the token list with the invariant "pending-space flag set ⇒ whitespace is deletable on
    its left", plus a look-ahead lemma for the trim-right decision. -/
theorem ws_refine_partial (o : Opts) (ext : Ext) (sub : Sub) (toks : List HTok)
    (g : wsGuard o ext sub toks = true) :
    WsRefine (inItems o ext sub toks) (outItems o ext sub toks) :=
  ws_refine_core o ext sub toks {} [] (fun _ _ => rfl) g

/-- full statement (no side conditions) -/
def ws_refine_full : Prop :=
  ∀ (o : Opts) (ext : Ext) (sub : Sub) (toks : List HTok), WsRefine (inItems o ext sub toks) (outItems o ext sub toks)

/-- corollary: the non-whitespace items of input and output coincide -/
theorem ws_words_preserved (o : Opts) (ext : Ext) (sub : Sub) (toks : List HTok)
    (g : wsGuard o ext sub toks = true) :
    (inItems o ext sub toks).filter (fun i => !isWsItem i) = (outItems o ext sub toks).filter (fun i => !isWsItem i) :=
  refine_words (ws_refine_partial o ext sub toks g)

/-- **pre_untouched.**  A text token inside `pre` is written byte for byte. -/
theorem pre_untouched (o : Opts) (ext : Ext) (sub : Sub) (st : St) (data : List Char) (tmpl : Bool)
    (rest : List HTok) (h1 : st.dropEnd = false) (h2 : textMode st tmpl = 2) :
    ∃ st', step o ext sub st (.text data tmpl) rest = .ok (st', data) := by
  unfold textMode at h2
  unfold step
  simp only [h1, Bool.false_eq_true, if_false]
  split at h2
  · simp at h2
  · next a =>
    split at h2
    · simp at h2
    · next b =>
      split at h2
      · next c => simp only [a, b, c, if_true, Bool.false_eq_true, if_false]; exact ⟨_, rfl⟩
      · simp at h2

/-- **raw_untouched / script_end_stable.**  Without a sub-minifier for its media type, the content of a raw-text
    element (`script`, `style`, `textarea`, `iframe`, …) is written byte for byte: the HTML layer itself never
    creates (or removes) a `</script`, `</style`, `</textarea` or `</title` inside it. -/
theorem raw_untouched (o : Opts) (ext : Ext) (st : St) (data : List Char) (tmpl : Bool)
    (rest : List HTok) (h1 : st.dropEnd = false) (h2 : textMode st tmpl = 1) :
    ∃ st', step o ext none st (.text data tmpl) rest = .ok (st', data) := by
  unfold textMode at h2
  unfold step
  simp only [h1, Bool.false_eq_true, if_false]
  split at h2
  · simp at h2
  · next a =>
    split at h2
    · next b =>
      simp only [a, b, if_true, Bool.false_eq_true, if_false, callSub]
      split <;> exact ⟨_, rfl⟩
    · split at h2 <;> simp at h2

/-- **ws_refine_counterexample** (K-C03-9): `<p>a<template>x</template> b</p>` — the `</template>` end tag sets the
    pending-space flag unconditionally, the space before `b` (between the words `x`… and `b`, both inline) is
    deleted although it is not deletable. -/
theorem ws_refine_counterexample : ¬ ws_refine_full := by
  intro h
  have r := h {} [] none
    [.startTag "p".toList [], .text "a".toList false, .startTag "template".toList [], .text "x".toList false,
     .endTag "template".toList "</template>".toList, .text " b".toList false, .endTag "p".toList "</p>".toList]
  have := refineB_complete r
  revert this
  decide +kernel

/-- non-vacuity of `ws_refine_partial`: a document with block, inline and object-like elements, `pre`, a comment,
    a `select`; the side conditions hold, several whitespace runs are really deleted, one between words is kept -/
example :
    let toks : List HTok :=
      [.startTag "div".toList [], .text " a  b ".toList false, .startTag "b".toList [], .text " c ".toList false,
       .endTag "b".toList "</b>".toList, .comment "<!-- x -->".toList " x ".toList, .text " d ".toList false,
       .startTag "img".toList [], .text " e ".toList false, .endTag "div".toList "</div>".toList,
       .text "\n".toList false, .startTag "pre".toList [], .text " p  q ".toList false, .endTag "pre".toList "</pre>".toList]
    wsGuard {} [] none toks = true ∧
    inItems {} [] none toks =
      [.blk, .ws, .word, .ws, .word, .ws, .inl, .ws, .word, .ws, .inl, .ws, .word, .ws, .objS, .ws, .word, .ws, .blk,
       .ws, .blk, .raw, .blk] ∧
    outItems {} [] none toks =
      [.blk, .word, .ws, .word, .ws, .inl, .word, .ws, .inl, .word, .ws, .objS, .ws, .word, .blk, .blk, .raw, .blk] := by
  decide +kernel

end Whitespace

/-! ## optional tags (`html.go` start/end-tag branch) against HTML §13.1.2.4 -/
section OptionalTags
open Verif.Model.Html Verif.Spec.HtmlOptional Verif.Spec.HtmlKnownDoc Verif.Proofs.HtmlOptional

/-- full statement: whenever the model omits an end tag in a context that the content models allow, the standard
    allows the omission there -/
def omit_allowed_full : Prop :=
  ∀ (o : Opts) (e : List Char) (rest : List HTok), omitEndTag o e rest = true →
    conformingAfter e (nextOf rest) = true → mayOmitEnd e (nextOf rest) = true

/-- **omit_allowed_partial.**  If the model omits the end tag of `e` (for any options and any following tokens),
    and what follows is something the content models allow after `e`, then the HTML standard's optional-tag rule for
    `e` allows the omission before that token — except in the two guarded situations: `trigPEnd` (K-C03-4: `</p>`
    before the end tag of a custom element, of `slot`, or of an element outside html/table.go) and `trigEndOmit`
    (K-C03-5: an unconditionally omitted end tag before a script-supporting element, `</thead>` before `<tr>`,
    `</rt>`/`</rp>` before more ruby text, `</optgroup>` before a comment and `<option>`).
    For `p` this is a theorem about the look-ahead and the regenerated `omitPTag`/`keepPTag` columns of the whole
    table (`p_tables_ok`); for the unconditionally omitted tags it states that `trigEndOmit` is exactly the set
    of allowed-but-not-omissible contexts. -/
theorem omit_allowed_partial (o : Opts) (e : List Char) (rest : List HTok)
    (h : omitEndTag o e rest = true) (hc : conformingAfter e (nextOf rest) = true)
    (g1 : trigPEnd e (nextOf rest) = false) (g2 : trigEndOmit e rest = false) :
    mayOmitEnd e (nextOf rest) = true := by
  simp only [omitEndTag, Bool.and_eq_true, Bool.or_eq_true] at h
  cases hm : mayOmitEnd e (nextOf rest) with
  | true => rfl
  | false =>
    exfalso
    unfold trigEndOmit at g2
    simp only [Bool.or_eq_false_iff] at g2
    have g2a := g2.1
    rw [hc, hm] at g2a
    simp only [Bool.not_false, Bool.and_true] at g2a
    simp only [Bool.or_eq_false_iff, decide_eq_false_iff_not] at g2a
    rcases h.2 with (ha | hp) | hog
    · rw [alwaysOmit_names e ha] at g2a; exact absurd g2a.1 (by decide)
    · have he := hashIs_eq' hp.1
      subst he
      rw [omit_p_allowed rest hp.2 g1] at hm; exact absurd hm (by decide)
    · exact g2a.2 (hashIs_eq' hog.1)

/-- **omit_allowed_counterexample** (K-C03-5): `<li>a</li><script>` — `script` may follow `</li>` in a list, the
    model omits `</li>`, the standard allows that only before another `<li>` or at the end of the list -/
theorem omit_allowed_counterexample : ¬ omit_allowed_full := by
  intro h
  exact absurd (h {} "li".toList [.startTag "script".toList []] (by decide +kernel) (by decide +kernel)) (by decide +kernel)

/-- the same for `p` (K-C03-4): `<my-el><p>x</p></my-el>` -/
theorem omit_p_counterexample :
    omitEndTag {} "p".toList [.endTag "my-el".toList "</my-el>".toList] = true ∧
    mayOmitEnd "p".toList (nextOf [.endTag "my-el".toList "</my-el>".toList]) = false := by
  decide +kernel

/-- non-vacuity: `</p>` before `<div>`, `</li>` before `<li>`, `</td>` at the end of the row -/
example :
    omitEndTag {} "p".toList [.text " ".toList false, .startTag "div".toList []] = true ∧
    trigPEnd "p".toList (nextOf [.text " ".toList false, .startTag "div".toList []]) = false ∧
    trigEndOmit "li".toList [.startTag "li".toList []] = false ∧
    conformingAfter "td".toList (nextOf [.endTag "tr".toList "</tr>".toList]) = true := by
  decide +kernel

/-- **doc_tags_allowed.**  An attribute-less `html`, `head`, `body` or `colgroup` start tag that the model drops
    may be omitted by the standard's rule, given that a `head` is followed by element content (or its own end), and
    outside the guards `colgroup` (K-C03-6) and `bodystart` (K-C03-7), which are exactly the remaining cases; the
    corresponding end tags may always be omitted. -/
theorem doc_tags_allowed (o : Opts) (name : List Char) (prev : Next) (rest : List HTok)
    (h : isDroppedTag o name = true) (g : trigStartDrop prev name rest = none)
    (hhead : name = "head".toList →
      (match nextOf rest with | .start _ => true | .end_ n => n = "head".toList | _ => false) = true) :
    mayOmitStart name prev (nextOf rest) = true ∧ mayOmitEnd name (nextOf rest) = true := by
  simp only [isDroppedTag, Bool.or_eq_true, Bool.and_eq_true] at h
  rcases h with ⟨_, (h | h) | h⟩ | h <;> (have he := hashIs_eq' h; subst he)
  · exact ⟨rfl, rfl⟩
  · refine ⟨?_, rfl⟩
    have := hhead rfl
    simp only [mayOmitStart]
    split at this <;> simp_all
  · refine ⟨?_, rfl⟩
    cases hm : mayOmitStart "body".toList prev (nextOf rest) with
    | true => rfl
    | false =>
      simp [trigStartDrop] at g
      have e : "body".toList = ['b', 'o', 'd', 'y'] := rfl
      rw [e] at hm; rw [hm] at g; cases g
  · refine ⟨?_, rfl⟩
    cases hm : mayOmitStart "colgroup".toList prev (nextOf rest) with
    | true => rfl
    | false =>
      simp [trigStartDrop] at g
      have e : "colgroup".toList = ['c', 'o', 'l', 'g', 'r', 'o', 'u', 'p'] := rfl
      rw [e] at hm; rw [hm] at g; cases g

end OptionalTags

/-! ## the tag classes of html/table.go against the default rendering (K-C03-9) -/

/-- **tag_classes_counterexample.**  `noscript` and `style` carry `blockTag` although they are not rendered as
    blocks (hidden / inline: whitespace next to them is significant for the surrounding text); `embed` and `audio`
    (replaced elements) are neither `objectTag` nor `blockTag`. -/
theorem tag_classes_counterexample :
    Verif.Model.Html.isBlock "noscript".toList = true ∧
    Verif.Model.Html.isBlock "style".toList = true ∧
    Verif.Model.Html.isObject "embed".toList = false ∧ Verif.Model.Html.isObject "audio".toList = false := by
  decide +kernel

end Verif.Props.C03

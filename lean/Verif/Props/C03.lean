import Verif.Proofs.HtmlAttr
import Verif.Proofs.HtmlRefs
import Verif.Proofs.HtmlEntTable
import Verif.Gen.C03Tables
import Verif.Proofs.HtmlWs
import Verif.Proofs.HtmlOptional
import Verif.Proofs.HtmlGlue
import Verif.Proofs.HtmlRawText
/-!
# C03 — HTML minification preserves the parsed document

Property theorems only.  Models: `Verif.Model.HtmlAttr` (byte-level helpers), `Verif.Model.Html` (token loop);
specifications: `Verif.Spec.HtmlAttr` (HTML standard: attribute tokenisation, character references),
`Verif.Spec.HtmlKnown` (guards of the known findings).
-/
namespace Verif.Props.C03
open Verif.Spec.HtmlAttr Verif.Spec.HtmlKnown Verif.Model.HtmlAttr Verif.Proofs.HtmlAttr
open Verif.Proofs.HtmlRefs Verif.Proofs.HtmlEntTable Verif.Gen
set_option maxRecDepth 1000000

/-! ## attributes: quoting and escaping (`html.EscapeAttrVal`) -/

/-- **attr_roundtrip.**  Whatever value `v` (non-empty — `html.go` writes `=value` only then), original quote
    and `mustQuote` flag `EscapeAttrVal` is called with, and however the tag continues (a space before the next
    attribute, or `>`): an HTML-standard tokenizer reads the emitted bytes back as exactly one *conforming*
    attribute value (unquoted only if free of whitespace, quotes, `=`, `<`, `>`, backtick), ends exactly where
    the emitted value ends, and the raw value it finds decodes (attribute context) to the same units as `v`.
    In particular the choice of quotes and the `&#34;`/`&#39;` escapes never change the attribute's value. -/
theorem attr_roundtrip (v : List Char) (q : Quote) (must : Bool) (rest : List Char)
    (hv : v ≠ []) (hrest : tagContinues rest = true) :
    ∃ raw, tokenizeAttr (escapeAttrVal v q must ++ rest) = some (raw, rest) ∧
      decodeAttr raw = decodeAttr v := by
  unfold escapeAttrVal
  simp only
  split
  · next h =>
    -- unquoted
    simp only [Bool.and_eq_true] at h
    exact ⟨v, tokenizeAttr_unquoted v rest hv h.1 hrest, rfl⟩
  · split
    · next _ h =>
      -- original quote, not occurring in the value
      refine ⟨v, ?_, rfl⟩
      have hq : (q.char = '"' ∨ q.char = '\'') ∧ q.char ∉ v := by
        simp only [Bool.or_eq_true, Bool.and_eq_true, decide_eq_true_eq] at h
        rcases h with ⟨hc, ho⟩ | ⟨hc, ho⟩
        · subst ho; exact ⟨Or.inr rfl, List.count_eq_zero.mp hc⟩
        · subst ho; exact ⟨Or.inl rfl, List.count_eq_zero.mp hc⟩
      have := tokenizeAttr_quoted q.char v rest hq.1 hq.2
      simpa using this
    · split
      · -- double quotes, `"` escaped as &#34;
        refine ⟨escapeQuote '"' ['&', '#', '3', '4', ';'] v, ?_, ?_⟩
        · have := tokenizeAttr_quoted '"' (escapeQuote '"' ['&', '#', '3', '4', ';'] v) rest (Or.inl rfl)
            (not_mem_escapeQuote _ _ _ (by decide))
          simpa using this
        · exact dec_escapeQuote true '"' '3' '4' (by decide) (by decide) (matchRef_34 true) _ v (Nat.le_refl _)
      · -- single quotes, `'` escaped as &#39;
        refine ⟨escapeQuote '\'' ['&', '#', '3', '9', ';'] v, ?_, ?_⟩
        · have := tokenizeAttr_quoted '\'' (escapeQuote '\'' ['&', '#', '3', '9', ';'] v) rest (Or.inr rfl)
            (not_mem_escapeQuote _ _ _ (by decide))
          simpa using this
        · exact dec_escapeQuote true '\'' '3' '9' (by decide) (by decide) (matchRef_39 true) _ v (Nat.le_refl _)

/-- non-vacuity: a value with both kinds of quotes, a reference and a space, continued by another attribute -/
example : tokenizeAttr (escapeAttrVal "a\"b'c &amp; d".toList .single true ++ " x>".toList)
    = some ("a\"b&#39;c &amp; d".toList, " x>".toList) := by decide

/-- the unquoted form is chosen exactly when no byte of the value needs quoting (and quotes may be dropped) -/
theorem unquoted_iff (v : List Char) (q : Quote) (must : Bool) :
    (v.all (fun c => !needsQuote c) && (!must || q = .none)) = true → escapeAttrVal v q must = v := by
  intro h; unfold escapeAttrVal; simp only [h, if_true]

/-! ## character references (`parse.ReplaceEntities` with `html.EntitiesMap` and the reverse maps) -/

/-- **entities_table_sound** (whole regenerated tables, linear merge evaluated by the kernel).
    Every row `name ↦ r` of `html.EntitiesMap`: `name;` is a named character reference of the HTML5 table,
    and `r` is either the single ASCII byte it denotes (never NUL), or a complete decimal reference `&#N;` to its
    code point, or a complete reference `&name2;` to an alias with the same code points.  Every row `b ↦ q` of
    `html.TextRevEntitiesMap` and `html.AttrRevEntitiesMap`: `q` is a complete reference that denotes what a
    numeric reference to the byte `b` denotes; both maps have a row for NUL and for CR (the two bytes that must
    not be written literally in place of a reference). -/
theorem entities_table_sound :
    emCheck C03Html5Entities.entities C03Tables.entitiesMap = true ∧
    revCheck C03Tables.textRevEntitiesMap = true ∧ revCheck C03Tables.attrRevEntitiesMap = true ∧
    revCovers C03Tables.textRevEntitiesMap = true ∧ revCovers C03Tables.attrRevEntitiesMap = true := by
  refine ⟨?_, ?_, ?_, ?_, ?_⟩ <;> decide +kernel

/-- `parse.ReplaceEntities` as html.go calls it for a text token (`attr = false`: `TextRevEntitiesMap`) or an
    attribute value (`attr = true`: `AttrRevEntitiesMap`) -/
def replaceEntitiesCtx (attr : Bool) (raw : List Char) : List Char :=
  if attr then replaceEntitiesAttr raw else replaceEntitiesText raw

/-- full statement about the dependency function: replacing character references never changes what the text /
    attribute value decodes to -/
def entities_preserve_full : Prop :=
  ∀ (attr : Bool) (raw : List Char), decodeRefs attr (replaceEntitiesCtx attr raw) = decodeRefs attr raw

/-- **entities_preserve_partial.**  For every raw text / raw attribute value outside the guards (`glue`: the
    in-place replacement of `parse.ReplaceEntities` would complete a reference — html.go now checks this itself, see
    `html_refs_preserved`; `hexOverflow`: K-C03-3; `crLfRef`: K-C03-13, not needed for the equality of units proved
    here but for reading it as an equality of parsed values), the bytes written by `parse.ReplaceEntities` decode —
    in the same context, by the HTML standard's rules, whatever follows — to exactly the units the input decodes
    to.  References to NUL and CR stay references (reverse maps).  By induction over the text. -/
theorem entities_preserve_partial (attr : Bool) (raw : List Char) (g : refsTrigger raw = false) :
    decodeRefs attr (replaceEntitiesCtx attr raw) = decodeRefs attr raw := by
  have hem : EmOk C03Tables.entitiesMap := emCheck_sound _ entities_table_sound.1
  simp only [refsTrigger, Bool.or_eq_false_iff] at g
  obtain ⟨⟨hg, ho⟩, _⟩ := g
  unfold replaceEntitiesCtx
  cases attr with
  | true =>
    exact replEnt_preserve _ _ hem (revCheck_sound _ entities_table_sound.2.2.1)
      (revCovers_sound _ entities_table_sound.2.2.2.2) true _ raw (Nat.le_refl _) hg ho
  | false =>
    exact replEnt_preserve _ _ hem (revCheck_sound _ entities_table_sound.2.1)
      (revCovers_sound _ entities_table_sound.2.2.2.1) false _ raw (Nat.le_refl _) hg ho

/-- non-vacuity: an ordinary text with five kinds of references is outside the guards and is really rewritten -/
example : refsTrigger "a &amp; b &lt; &#233;&AElig;&quot;".toList = false ∧
    replaceEntitiesCtx false "a &amp; b &lt; &#233;&AElig;&quot;".toList = "a & b &lt; &#233;&#198;\"".toList := by
  decide +kernel

/-- **entities_preserve_counterexample** (the dependency function alone): `&amp;&#108;t;` becomes `&lt;`, which
    denotes `<`, while the input denotes the four characters `&lt;`. -/
theorem entities_preserve_counterexample : ¬ entities_preserve_full := by
  intro h
  exact absurd (h false "&amp;&#108;t;".toList) (by decide +kernel)

/-- the guard `hexOverflow` is needed (K-C03-3): Go accumulates the hexadecimal value in a wrapping `int` -/
theorem entities_preserve_overflow_counterexample :
    decodeRefs true (replaceEntitiesCtx true "&#x8000000000000041;".toList) = [.lit 'A'] ∧
    decodeRefs true "&#x8000000000000041;".toList = [.cp 0xFFFD] := by
  decide +kernel

/-- references to NUL and CR are kept as references (regression for K-C03-2) -/
example : replaceEntitiesCtx true "a&#13;b&#x0D;&#0;".toList = "a&#13;b&#13;&#0;".toList ∧
    replaceEntitiesCtx false "a&#0;b".toList = "a&#0;b".toList := by decide +kernel

/-- the guard of the html.go-level statements: K-C03-3 and K-C03-13 only -/
def htmlRefsTrigger (raw : List Char) : Bool := hexOverflow raw || crLfRef raw

/-- **html_refs_preserved.**  What html.go does to the references of an attribute value that is not trimmed
    (`attrVal0 false`: `hasReferenceGlue` guard, else `ReplaceEntities` with `AttrRevEntitiesMap`) never changes what
    the value decodes to — for every value without a hexadecimal reference ≥ 2^63 and without a literal CR directly
    followed by a reference to LF.  The guard of html.go (`hasReferenceGlue`) is proved to cover the specification's
    `glue` predicate (`glue_of_hasReferenceGlue`, using the whole HTML5 table). -/
theorem html_refs_preserved (val : List Char) (g : htmlRefsTrigger val = false) :
    decodeRefs true (Verif.Model.Html.attrVal0 false val) = decodeRefs true val := by
  simp only [htmlRefsTrigger, Bool.or_eq_false_iff] at g
  unfold Verif.Model.Html.attrVal0
  cases hg : Verif.Model.Html.hasReferenceGlue val with
  | true => simp
  | false =>
    simp only [Bool.false_eq_true, if_false]
    have := entities_preserve_partial true val (by
      simp [refsTrigger, Verif.Proofs.HtmlGlue.glue_of_hasReferenceGlue val hg, g.1, g.2])
    exact this

/-- **attr_value_preserved** (the plain attribute path of html.go: reference handling, then `EscapeAttrVal`).
    Whatever quoting the input used and whatever quoting and references the minifier chooses: the written attribute
    tokenises back to one conforming value that decodes to what the input value decoded to. -/
theorem attr_value_preserved (val : List Char) (q : Quote) (must : Bool) (rest : List Char)
    (hne : Verif.Model.Html.attrVal0 false val ≠ []) (hrest : tagContinues rest = true)
    (g : htmlRefsTrigger val = false) :
    ∃ raw, tokenizeAttr (escapeAttrVal (Verif.Model.Html.attrVal0 false val) q must ++ rest) = some (raw, rest) ∧
      decodeAttr raw = decodeAttr val := by
  obtain ⟨raw, h1, h2⟩ := attr_roundtrip (Verif.Model.Html.attrVal0 false val) q must rest hne hrest
  refine ⟨raw, h1, ?_⟩
  rw [h2]
  exact html_refs_preserved val g

/-- regressions for K-C03-1: values with reference glue keep their references -/
example : Verif.Model.Html.attrVal0 false "&amp;&#35;60;".toList = "&amp;&#35;60;".toList ∧
    Verif.Model.Html.textCollapsed "&amp;&#108;t;  x".toList = "&amp;&#108;t; x".toList := by decide +kernel

/-! ## whitespace (`html.go` text branch and the pending-space flag) -/
section Whitespace
open Verif.Model.Html Verif.Spec.HtmlWs Verif.Proofs.HtmlWs

/-- the items of the input document as the model classifies it (tag classes from html/table.go), and of what the
    model writes -/
def inItems (o : Opts) (ext : Ext) (sub : Sub) (toks : List HTok) : List Item := (inOut o ext sub {} toks).1
def outItems (o : Opts) (ext : Ext) (sub : Sub) (toks : List HTok) : List Item := (inOut o ext sub {} toks).2

/-- the domain of `ws_refine` — decidable, checked along the run (`Proofs/HtmlWs.lean`, `tokGuard`); no known
    finding is left in it, only conditions that the lexer guarantees or that conforming content satisfies:
    no template delimiters are configured; text dropped inside `select`/`optgroup` is whitespace next to an
    `option`/`select` boundary (the content model of `select` has no text); a `<script>`/`<style>` start tag that is
    directly followed by an end tag is followed by its own, non-object end tag; the text of a raw-text element other
    than script/style follows an object-like start tag (`textarea`, `iframe`; `svg`/`math` arrive as single tokens);
    an ordinary text token is not empty. -/
def wsDomain (o : Opts) (ext : Ext) (sub : Sub) (toks : List HTok) : Bool := guard o ext sub {} [] toks

/-- **ws_refine.**  For every token stream in `wsDomain`, every option set (all `Keep*` combinations incl.
    `KeepWhitespace`), every sub-minifier and external-result table: the document that the model writes is the input
    document with some whitespace runs deleted, and every deleted run was deletable where it stood — to its left
    (through inline boundaries) a block boundary, the document start or whitespace that is kept; or to its right
    (through inline boundaries and further whitespace) a block boundary, the end of an atomic inline box or the end
    of the document.  Everything else — words, element boundaries, preformatted and raw text — is in place
    (`refine_words`), and whitespace between two words / atomic inline boxes is never deleted
    (`refine_no_join`).  Classes are those of html/table.go (`blockTag`, `objectTag`; see `tag_classes_ok`).
    Proof: induction over the token list with the invariant "pending-space flag set ⇒ whitespace is deletable on
    its left", plus a look-ahead lemma for the trim-right decision. -/
theorem ws_refine (o : Opts) (ext : Ext) (sub : Sub) (toks : List HTok)
    (g : wsDomain o ext sub toks = true) :
    WsRefine (inItems o ext sub toks) (outItems o ext sub toks) :=
  ws_refine_core o ext sub toks {} [] (fun _ _ => rfl) g

/-- the statement without the domain condition -/
def ws_refine_full : Prop :=
  ∀ (o : Opts) (ext : Ext) (sub : Sub) (toks : List HTok), WsRefine (inItems o ext sub toks) (outItems o ext sub toks)

/-- corollary: the non-whitespace items of input and output coincide -/
theorem ws_words_preserved (o : Opts) (ext : Ext) (sub : Sub) (toks : List HTok)
    (g : wsDomain o ext sub toks = true) :
    (inItems o ext sub toks).filter (fun i => !isWsItem i) = (outItems o ext sub toks).filter (fun i => !isWsItem i) :=
  refine_words (ws_refine o ext sub toks g)

/-- **pre_untouched.**  A text token inside `pre` is written byte for byte, except that one newline is put in
    front of it when it starts with a newline, directly follows the `<pre>` start tag and a comment that was between
    them (K-C03-12: without it the parser would drop the text's first newline). -/
theorem pre_untouched (o : Opts) (ext : Ext) (sub : Sub) (st : St) (data : List Char) (tmpl : Bool)
    (rest : List HTok) (h1 : st.dropEnd = false) (h2 : textMode st tmpl = 2) :
    ∃ st', step o ext sub st (.text data tmpl) rest =
      .ok (st', if st.afterPre = 2 && headIs (fun c => c = '\n' || c = '\r') data then '\n' :: data else data) := by
  unfold textMode at h2
  unfold step
  simp only [h1, Bool.false_eq_true, if_false]
  split at h2
  · simp at h2
  · next a =>
    split at h2
    · simp at h2
    · next b =>
      split at h2
      · next c => simp only [a, b, c, if_true, Bool.false_eq_true, if_false]; exact ⟨_, rfl⟩
      · simp at h2

/-- **raw_untouched / script_end_stable.**  Without a sub-minifier for its media type, the content of a raw-text
    element (`script`, `style`, `textarea`, `iframe`, …) is written byte for byte: the HTML layer itself never
    creates (or removes) a `</script`, `</style`, `</textarea` or `</title` inside it. -/
theorem raw_untouched (o : Opts) (ext : Ext) (st : St) (data : List Char) (tmpl : Bool)
    (rest : List HTok) (h1 : st.dropEnd = false) (h2 : textMode st tmpl = 1) :
    ∃ st', step o ext none st (.text data tmpl) rest = .ok (st', data) := by
  unfold textMode at h2
  unfold step
  simp only [h1, Bool.false_eq_true, if_false]
  split at h2
  · simp at h2
  · next a =>
    split at h2
    · next b =>
      simp only [a, b, if_true, Bool.false_eq_true, if_false, callSub]
      split <;> exact ⟨_, rfl⟩
    · split at h2 <;> simp at h2

/-- **ws_refine_counterexample**: the domain condition cannot be dropped — a token stream that the lexer never
    produces (`math` as an ordinary start tag with raw text: it is neither object-like nor hidden) loses the space
    between the raw text and the next word. -/
theorem ws_refine_counterexample : ¬ ws_refine_full := by
  intro h
  have r := h {} [] none
    [.text "a ".toList false, .startTag "math".toList [], .text "x".toList false,
     .endTag "math".toList "</math>".toList, .text " b".toList false]
  have := refineB_complete r
  revert this
  decide +kernel

/-- non-vacuity of `ws_refine`, and regressions for K-C03-9: block, inline and object-like elements, `pre`, a
    comment, `template`, `q`, `embed`; the domain condition holds, several whitespace runs are really deleted, the ones
    between words, after `</template>`, before `</q>` and after `<embed>` are kept -/
example :
    let toks : List HTok :=
      [.startTag "div".toList [], .text " a  b ".toList false, .startTag "b".toList [], .text " c ".toList false,
       .endTag "b".toList "</b>".toList, .comment "<!-- x -->".toList " x ".toList, .text " d ".toList false,
       .startTag "img".toList [], .text " e ".toList false, .endTag "div".toList "</div>".toList,
       .text "\n".toList false, .startTag "pre".toList [], .text " p  q ".toList false, .endTag "pre".toList "</pre>".toList,
       .startTag "p".toList [], .text "a".toList false, .startTag "template".toList [], .text "x".toList false,
       .endTag "template".toList "</template>".toList, .text " b ".toList false, .startTag "q".toList [],
       .text "c ".toList false, .endTag "q".toList "</q>".toList, .startTag "embed".toList [], .text " f".toList false,
       .endTag "p".toList "</p>".toList]
    wsDomain {} [] none toks = true ∧
    inItems {} [] none toks =
      [.blk, .ws, .word, .ws, .word, .ws, .inl, .ws, .word, .ws, .inl, .ws, .word, .ws, .objS, .ws, .word, .ws, .blk,
       .ws, .blk, .raw, .blk,
       .blk, .word, .objS, .word, .objE, .ws, .word, .ws, .objS, .word, .ws, .objE, .objS, .ws, .word, .blk] ∧
    outItems {} [] none toks =
      [.blk, .word, .ws, .word, .ws, .inl, .word, .ws, .inl, .word, .ws, .objS, .ws, .word, .blk, .blk, .raw, .blk,
       .blk, .word, .objS, .word, .objE, .ws, .word, .ws, .objS, .word, .ws, .objE, .objS, .ws, .word, .blk] := by
  decide +kernel

end Whitespace

/-! ## optional tags (`html.go` start/end-tag branch) against HTML §13.1.2.4 -/
section OptionalTags
open Verif.Model.Html Verif.Spec.HtmlOptional Verif.Spec.HtmlKnownDoc Verif.Proofs.HtmlOptional

/-- **omit_allowed** (full).  If the model omits the end tag of `e` — for any options and any following tokens —
    and what follows is something the content models allow after `e`, then the HTML standard's optional-tag rule for
    `e` allows the omission before that token.  For `p` this is a theorem about the look-ahead and the regenerated
    `omitPTag`/`keepPTag` columns of the whole table (`p_tables_ok`: only known, non-custom end tags outside the
    standard's keep list); for `li dt dd rb rt rtc rp option thead tbody tfoot tr td th` about
    `endTagOmittable`/`closesBefore` (`omittable_finite`); for `optgroup` about its look-ahead (end of the select,
    another end tag, or `<optgroup>`). -/
theorem omit_allowed (o : Opts) (e : List Char) (rest : List HTok)
    (h : omitEndTag o e rest = true) (hc : conformingAfter e (nextOf rest) = true) :
    mayOmitEnd e (nextOf rest) = true := by
  simp only [omitEndTag, Bool.and_eq_true, Bool.or_eq_true] at h
  rcases h.2 with (ha | hp) | hog
  · exact omit_always_allowed e rest (alwaysOmit_mem e ha.1) ha.2 hc
  · have he := hashIs_eq' hp.1
    subst he
    exact omit_p_allowed rest hp.2
  · have he := hashIs_eq' hog.1
    subst he
    exact omit_optgroup_allowed rest hog.2 hc

/-- non-vacuity and regressions (K-C03-4, -5, -14): `</p>` omitted before `<div>` but kept before `</my-el>`,
    `</slot>`; `</li>` omitted before `<li>` but kept before `<script>`; `</thead>` kept before `<tr>`; `</rt>` kept
    before text; `</td>` omitted at the end of the row; `</optgroup>` kept before `<script>`, omitted before
    `<optgroup>` -/
example :
    omitEndTag {} "p".toList [.text " ".toList false, .startTag "div".toList []] = true ∧
    omitEndTag {} "p".toList [.endTag "my-el".toList "</my-el>".toList] = false ∧
    omitEndTag {} "p".toList [.endTag "slot".toList "</slot>".toList] = false ∧
    omitEndTag {} "li".toList [.startTag "li".toList []] = true ∧
    omitEndTag {} "li".toList [.startTag "script".toList []] = false ∧
    omitEndTag {} "thead".toList [.text "\n".toList false, .startTag "tr".toList []] = false ∧
    omitEndTag {} "rt".toList [.text "c".toList false] = false ∧
    omitEndTag {} "td".toList [.endTag "tr".toList "</tr>".toList] = true ∧
    omitEndTag {} "optgroup".toList [.startTag "script".toList []] = false ∧
    omitEndTag {} "optgroup".toList [.text " ".toList false, .startTag "optgroup".toList []] = true ∧
    conformingAfter "td".toList (nextOf [.endTag "tr".toList "</tr>".toList]) = true := by
  decide +kernel

/-- the model drops an attribute-less start tag `name` in front of `rest` -/
def dropsStart (o : Opts) (name : List Char) (rest : List HTok) : Bool :=
  !(hashIs name "body" && keepBody rest) && isDroppedTag o name

theorem keepBody_next (rest : List HTok) (h : keepBody rest = false) :
    ∀ n, nextOf rest = .start n → isOneOf n Verif.Spec.HtmlOptional.headBound = false := by
  induction rest with
  | nil => intro n e; simp [nextOf] at e
  | cons t r ih =>
    intro n e
    cases t with
    | text d tm =>
      simp only [keepBody] at h
      simp only [nextOf, ← allWs_eq] at e
      split at h
      · next hw => simp only [hw, if_true] at e; exact ih h n e
      · next hw => simp [hw] at e
    | comment d tx => simp only [keepBody] at h; simp only [nextOf] at e; exact ih h n e
    | startTag m a =>
      simp only [keepBody] at h
      simp only [nextOf, Next.start.injEq] at e
      subst e
      cases hh : isOneOf m Verif.Spec.HtmlOptional.headBound with
      | false => rfl
      | true =>
        exfalso
        simp only [isOneOf, names, Verif.Spec.HtmlOptional.headBound, List.map_cons, List.map_nil, List.contains_cons,
          List.contains_nil, Bool.or_false, Bool.or_eq_true, beq_iff_eq] at hh
        have : Verif.Model.Html.headBound.any (hashIs m) = true := by
          rcases hh with e | e | e | e | e | e <;> (subst e; decide)
        rw [this] at h; exact absurd h (by decide)
    | endTag m d => simp [nextOf] at e
    | doctype => simp [nextOf] at e
    | svg d => simp only [nextOf, Next.start.injEq] at e; subst e; decide
    | math d => simp only [nextOf, Next.start.injEq] at e; subst e; decide
    | template d => simp [nextOf] at e

/-- **doc_tags_allowed.**  An attribute-less `html`, `head`, `body` or `colgroup` start tag that the model drops
    may be omitted by the standard's rule — for `body` because of the look-ahead `keepBody` (K-C03-7), for `head`
    given that element content (or its own end tag) follows, for `colgroup` outside the guard `trigStartDrop`
    (K-C03-6: html.go still drops these tags unconditionally); the corresponding end tags may always be omitted. -/
theorem doc_tags_allowed (o : Opts) (name : List Char) (prev : Next) (rest : List HTok)
    (h : dropsStart o name rest = true) (g : trigStartDrop prev name rest = none)
    (hhead : name = "head".toList →
      (match nextOf rest with | .start _ => true | .end_ n => n = "head".toList | _ => false) = true) :
    mayOmitStart name prev (nextOf rest) = true ∧ mayOmitEnd name (nextOf rest) = true := by
  simp only [dropsStart, Bool.and_eq_true, Bool.not_eq_true', Bool.and_eq_false_iff] at h
  obtain ⟨hkb, h⟩ := h
  simp only [isDroppedTag, Bool.or_eq_true, Bool.and_eq_true] at h
  rcases h with ⟨_, (h | h) | h⟩ | h <;> (have he := hashIs_eq' h; subst he)
  · exact ⟨rfl, rfl⟩
  · refine ⟨?_, rfl⟩
    have := hhead rfl
    simp only [mayOmitStart]
    split at this <;> simp_all [is]
  · refine ⟨?_, rfl⟩
    have hk : keepBody rest = false := by
      rcases hkb with hkb | hkb
      · exact absurd hkb (by decide)
      · exact hkb
    have hn := keepBody_next rest hk
    cases hx : nextOf rest with
    | start n => simp [mayOmitStart, is, hn n hx]
    | end_ n => simp [mayOmitStart, is]
    | eof => simp [mayOmitStart, is]
    | other => simp [mayOmitStart, is]
  · refine ⟨?_, rfl⟩
    cases hm : mayOmitStart "colgroup".toList prev (nextOf rest) with
    | true => rfl
    | false =>
      simp [trigStartDrop] at g
      have e : "colgroup".toList = ['c', 'o', 'l', 'g', 'r', 'o', 'u', 'p'] := rfl
      rw [e] at hm; rw [hm] at g; cases g

/-- regression for K-C03-7: `<body>` is kept in front of `<script>`, dropped in front of `<p>` -/
example : dropsStart {} "body".toList [.text "\n".toList false, .startTag "script".toList []] = false ∧
    dropsStart {} "body".toList [.startTag "p".toList []] = true := by decide +kernel

/-- regression for /repo 44fae7b: with KeepEndTags `</body>` stays (and closes the bookkeeping entry) exactly when
    a written `<body …>` is open; without a written start tag, or without the option, it is dropped as before; a
    written `<body class=a>` is recorded only under KeepEndTags -/
example :
    (endStep { keepEndTags := true } { docOpen := ["body".toList] } "body".toList "</body>".toList []).2 =
      "</body>".toList ∧
    (endStep { keepEndTags := true } { docOpen := ["body".toList] } "body".toList "</body>".toList []).1.docOpen = [] ∧
    (endStep { keepEndTags := true } {} "body".toList "</body>".toList []).2 = [] ∧
    (endStep {} { docOpen := ["body".toList] } "body".toList "</body>".toList []).2 = [] ∧
    (endStep { keepEndTags := true } { docOpen := ["html".toList] } "body".toList "</body>".toList []).2 = [] ∧
    (startPost { keepEndTags := true } {} "body".toList [] none).docOpen = ["body".toList] ∧
    (startPost { keepEndTags := true, keepDocumentTags := true } {} "body".toList [] none).docOpen = [] ∧
    (startPost { keepEndTags := true, keepDocumentTags := true } {} "colgroup".toList [] none).docOpen = ["colgroup".toList] ∧
    (startPost {} {} "body".toList [] none).docOpen = [] := by decide +kernel

end OptionalTags

/-! ## what a sub-minifier returns is only used when it stays inside its element (html.go `rawTextEndsAtEnd`) -/
section RawText
open Verif.Model.Html Verif.Spec.HtmlRawText Verif.Proofs.HtmlRawText

/-- **raw_text_contained.**  The contract "the result of the sub-minifier for the content of a raw text element is
    again content of that element" is enforced by the host, for ANY sub-minifier `sub`: the bytes written for the
    text of a `style` or `iframe` element are either the original bytes, or bytes `out` that the HTML standard's
    RAWTEXT tokenisation reads back as exactly the content of the element — in `out` + `</name>` + anything, the
    first appropriate end tag is the one right behind `out`.  (The decision in html.go is taken with the lexer of
    parse/html; `spec_of_rawEnd` shows that the lexer ends a RAWTEXT element wherever the standard does.) -/
theorem raw_text_contained (o : Opts) (ext : Ext) (sub : Sub) (st st' : St) (data out tail : List Char)
    (rest : List HTok) (hd : st.dropEnd = false) (ht : st.dropText = false)
    (hn : st.rawTag = "style".toList ∨ st.rawTag = "iframe".toList)
    (hs : step o ext sub st (.text data false) rest = .ok (st', out)) :
    out = data ∨
    rawTextEnd st.rawTag 0 (out ++ '<' :: '/' :: (st.rawTag ++ '>' :: tail)) = out.length := by
  have hh : (hashIs st.rawTag "style" || hashIs st.rawTag "script" || hashIs st.rawTag "iframe") = true := by
    rcases hn with e | e <;> (rw [e]; decide)
  have hne : st.rawTag.isEmpty = false := by rcases hn with e | e <;> (rw [e]; rfl)
  have hlow : st.rawTag.all isLower = true := by rcases hn with e | e <;> (rw [e]; decide)
  have hns : st.rawTag ≠ "script".toList := by rcases hn with e | e <;> (rw [e]; decide)
  unfold step at hs
  simp only [hd, ht, hne, hh, Bool.false_eq_true, if_false, Bool.false_and, Bool.not_false, Bool.and_self,
    if_true, Except.ok.injEq, Prod.mk.injEq] at hs
  rw [← hs.2]
  unfold rawTextOut
  cases sub with
  | none => left; rfl
  | some f =>
    simp only
    split
    · next hr =>
      right
      simp only [rawTextEndsAtEnd, beq_iff_eq] at hr
      have := spec_of_rawEnd st.rawTag tail hlow hns _ 0 (by simpa using hr)
      simpa using this
    · left; rfl

/-- the same decision for all three elements whose content goes to a sub-minifier, at the level of the lexer
    (`script` included: the escaped / double escaped script data states are those of the lexer, see K-C03-17) -/
theorem raw_text_relexed (sub : Sub) (name mt data : List Char) :
    rawTextOut sub name mt data = data ∨ rawTextEndsAtEnd name (rawTextOut sub name mt data) = true := by
  unfold rawTextOut
  cases sub with
  | none => left; rfl
  | some f =>
    simp only
    split
    · next hr => right; exact hr
    · left; rfl

/-- a kept conditional comment is either written unchanged or gets a minified inner part that contains neither
    `-->` nor `--!>` (it cannot end the comment early) -/
theorem cond_comment_inner_safe (o : Opts) (ext : Ext) (data text out : List Char)
    (h : commentOut o ext data text = .ok out) :
    out = data ∨ out = [] ∨ ∃ b e inner, out = data.take b ++ inner ++ data.drop e ∧
      bytesContain "-->".toList inner = false ∧ bytesContain "--!>".toList inner = false := by
  have ok : ∀ x, (Except.ok x : Except String (List Char)) = .ok out → out = x := by
    intro x e; cases e; rfl
  unfold commentOut at h
  split at h
  · left; exact ok _ h
  · split at h
    · split at h
      · split at h
        · simp only at h
          split at h
          · simp only [bind, Except.bind] at h
            split at h
            · cases h
            · next inner _ =>
              split at h
              · left; exact ok _ h
              · next hc =>
                right; right
                simp only [Bool.or_eq_true, not_or, Bool.not_eq_true] at hc
                exact ⟨_, _, inner, ok _ h, hc.1, hc.2⟩
          · left; exact ok _ h
        · left; exact ok _ h
      · split at h
        · left; exact ok _ h
        · right; left; exact ok _ h
    · right; left; exact ok _ h

/-- regressions for /repo 1557146, 3c66722, 6635adc -/
example :
    rawTextEndsAtEnd "style".toList "a{b:< /style >}".toList = true ∧
    rawTextEndsAtEnd "style".toList "a{b:</style >}".toList = false ∧
    rawTextEndsAtEnd "style".toList "a{b:<\\/style>}".toList = true ∧
    rawTextEndsAtEnd "script".toList "s='</script>'".toList = false ∧
    rawTextEndsAtEnd "script".toList "<!--<script>x".toList = false ∧
    rawTextEndsAtEnd "script".toList "<!--<script>x</script>-->".toList = true ∧
    rawTextEndsAtEnd "iframe".toList "</IFRAME\n".toList = false ∧
    textCollapsed "<&#115;cript>alert(1)<&#47;script>".toList = "<&#115;cript>alert(1)<&#47;script>".toList ∧
    textCollapsed "a  <&amp; b".toList = "a <&amp; b".toList ∧
    (commentOut { keepSpecialComments := true }
        [("html".toList, "<a title=\"--&gt;\">x</a>".toList, "<a title=\"-->\">x</a>".toList)]
        "<!--[if IE]><a title=\"--&gt;\">x</a><![endif]-->".toList
        "[if IE]><a title=\"--&gt;\">x</a><![endif]".toList).toOption =
      some "<!--[if IE]><a title=\"--&gt;\">x</a><![endif]-->".toList := by decide +kernel

end RawText

/-! ## the tag classes of html/table.go against the default rendering -/

/-- **tag_classes_ok** (regression for K-C03-9, on the regenerated table): `noscript` and `style` are not
    block-like (hidden / inline: whitespace next to them is significant for the surrounding text); the replaced
    elements `embed` and `audio` and the non-rendered `datalist` are object-like; `marquee` (inline-block) is
    object-like; so are the non-rendered `template` and `noscript` (K-C03-16). -/
theorem tag_classes_ok :
    Verif.Model.Html.isBlock "noscript".toList = false ∧ Verif.Model.Html.isBlock "style".toList = false ∧
    Verif.Model.Html.isObject "embed".toList = true ∧ Verif.Model.Html.isObject "audio".toList = true ∧
    Verif.Model.Html.isObject "datalist".toList = true ∧ Verif.Model.Html.isObject "marquee".toList = true ∧
    Verif.Model.Html.isObject "template".toList = true ∧ Verif.Model.Html.isObject "noscript".toList = true := by
  decide +kernel

end Verif.Props.C03

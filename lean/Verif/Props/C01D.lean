import Verif.Proofs.JsHoistCtx
import Verif.Proofs.JsHoistEarly
/-!
# C01D — declaration handling of the JS minifier preserves program behaviour (sub-check of C01)

Semantics: `Spec.JsDeclSem` (`var` hoisting, `let`/`const` with temporal dead zone, closures, early errors; validated
against node by the runner).  Model: `Model.JsHoist` (tied to `/repo/js` by byte equality of `js.Minify` output).
All theorems are about one function body / the program at a time: the Go code transforms every function separately
(`hoistVars`, then `optimizeStmtList`), nested function bodies are untouched by the transformation of the outer one.
"Same behaviour" is literal equality of the outcome (completion, heap of scopes, trace) of calling the function /
running the program, for every host, argument list, state and call depth.
-/
namespace Verif.Props.C01D
open Verif.Spec.JsDeclSem Verif.Model.JsHoist Verif.Proofs.JsDecl

/-! ## the side conditions of the code (read from /repo/js on every run, `Gen/JsHoistFacts.lean`) -/

/-- since 7a74d62 `mergeVarDeclExprStmt` requires the assignment target to be declared in the function of the
    declaration (`declaredInFunc`); a change of that test changes the generated fact and breaks this theorem -/
theorem code_checks_own_function : Verif.Gen.JsHoistFacts.mergeChecksOwnFunction = true := by decide

/-- since 08b5a55 `endsInIf` optimizes a loop body before it looks at its last statement (K-C01D-6) -/
theorem code_optimizes_loops_in_endsInIf : Verif.Gen.JsHoistFacts.endsInIfOptimizesLoops = true := by decide

/-- since 6dcb230 a loop body that is a `var` declaration without items is written as `;` (K-C01D-7) -/
theorem code_writes_empty_decl_body : Verif.Gen.JsHoistFacts.emptyDeclBodyWritesSemicolon = true := by decide

/-! ## the rewrites -/

/-- `k l1; k l2 → k l1,l2` (adjacent `var` / `let` / `const` declarations) -/
def MergeDecls (l l' : List DS) : Prop :=
  ∃ k l1 l2 rest, l = .decl k l1 :: .decl k l2 :: rest ∧ l' = .decl k (l1 ++ l2) :: rest

/-- `var items; x = e → var items', x = e` and `x = e; var items → var x = e, items'` (`addDefinition`) -/
def MergeAssign (x : String) (l l' : List DS) : Prop :=
  ∃ items a e rest,
    (l = .decl .var items :: .expr (.assign x a e) :: rest ∧
      l' = .decl .var (addDefinition .var items (.assign x a e) false) :: rest) ∨
    (l = .expr (.assign x a e) :: .decl .var items :: rest ∧
      l' = .decl .var (addDefinition .var items (.assign x a e) true) :: rest)

/-- the same rewrite with the test that the code performs on the assignment target (`mergeAllowed`; `own` = the `var`
    names of the function whose body is rewritten) -/
def MergeAssignChecked (own : List String) (x : String) (l l' : List DS) : Prop :=
  ∃ items a e rest, mergeAllowed own a x = true ∧
    ((l = .decl .var items :: .expr (.assign x a e) :: rest ∧
      l' = .decl .var (addDefinition .var items (.assign x a e) false) :: rest) ∨
    (l = .expr (.assign x a e) :: .decl .var items :: rest ∧
      l' = .decl .var (addDefinition .var items (.assign x a e) true) :: rest))

/-- a hoisted declaration (a `var` that `hoistVars` turned into an expression) merged back into a `var` declaration
    next to it (`mergeVarDecls`) -/
def MergeHoisted (src : List DE) (l l' : List DS) : Prop :=
  ∃ items rest,
    (l = .decl .var items :: .expr (.hdecl src) :: rest ∧ l' = .decl .var (mergeVarDecls .var items src false) :: rest) ∨
    (l = .expr (.hdecl src) :: .decl .var items :: rest ∧ l' = .decl .var (mergeVarDecls .var items src true) :: rest)

/-- the merges into the head of a `for` that add no `var` name: `var a;for(;…) → for(var a;…)`, `e;for(;…) → for(e;…)`,
    `var a;for(<hoisted head without initialiser>;…) → for(var a;…)`, `x=e;for(<hoisted head>;…) → for(x=e,<head>;…)` -/
def ForInitPlain (l l' : List DS) : Prop :=
  ∃ w c p b rest,
    (∃ items, l = .decl .var items :: .forS w .empty c p b :: rest ∧ l' = .forS w (.decl .var items) c p b :: rest) ∨
    (∃ e, l = .expr e :: .forS w .empty c p b :: rest ∧ l' = .forS w (.expr e) c p b :: rest) ∨
    (∃ items items2, hasDefines items2 = false ∧
      l = .decl .var items :: .forS w (.decl .hoisted items2) c p b :: rest ∧
      l' = .forS w (.decl .var items) c p b :: rest) ∨
    (∃ items x a e, l = .expr (.assign x a e) :: .forS w (.decl .hoisted items) c p b :: rest ∧
      l' = .forS w (.decl .hoisted (addDefinition .hoisted items (.assign x a e) true)) c p b :: rest)

/-- `var items;for(var items2;…) → for(var items ⊕ items2;…)` (the head may be a hoisted declaration) and
    `x = e;for(var items;…) → for(var x = e, items';…)`; `A` = the names that become `var` names of the new head -/
def ForInitMerge (A : List String) (l l' : List DS) : Prop :=
  ∃ w c p b rest,
    (∃ items items2 k2, (k2 = .var ∨ k2 = .hoisted) ∧ A = itemNames items2 ∧
      l = .decl .var items :: .forS w (.decl k2 items2) c p b :: rest ∧
      l' = .forS w (.decl .var (mergeVarDecls .var items items2 false)) c p b :: rest) ∨
    (∃ items x a e, A = [x] ∧ l = .expr (.assign x a e) :: .forS w (.decl .var items) c p b :: rest ∧
      l' = .forS w (.decl .var (addDefinition .var items (.assign x a e) true)) c p b :: rest)

/-- every name of `A` is declared by the function anyway, and the body does not declare it with let / const -/
def Declared (ps : List String) (body : List DS) (A : List String) : Prop :=
  (∀ x, A.contains x = true → declaredIn ps body x = true) ∧ meets (lexNamesL body) A = false

/-! ## (a) adjacent declarations -/

/-- **merge_decls_sound** (full): merging adjacent `var` / `let` / `const` declarations anywhere in the body of a
    function (blocks, `if` branches, loop bodies, `try`/`catch` blocks) does not change the outcome of calling the
    function — in particular the temporal dead zone of `let`/`const` is entered and left at the same points. -/
theorem merge_decls_sound (H : Host) (n : Nat) (ps : List String) (cenv : Env) (args : List Val) (body body' : List DS)
    (h : Within [] MergeDecls body body') :
    callN H (n + 1) (.clo ps body' cenv) args = callN H (n + 1) (.clo ps body cenv) args := by
  have heq : ListEqA [] body body' := h.listEq (by
    rintro l l' ⟨k, l1, l2, rest, rfl, rfl⟩
    exact mergeAdjacent_eq k l1 l2 rest)
  exact (callN_congr H n ps cenv args heq (by simp)).symm

/-- the same for the program (global code), including its early errors -/
theorem merge_decls_sound_prog (H : Host) (d : Nat) (s0 : St) (prog prog' : List DS)
    (h : Within [] MergeDecls prog prog') : runProg H d prog' s0 = runProg H d prog s0 := by
  have heq : ListEqA [] prog prog' := h.listEq (by
    rintro l l' ⟨k, l1, l2, rest, rfl, rfl⟩
    exact mergeAdjacent_eq k l1 l2 rest)
  exact (runProg_congr H d s0 heq (by simp) (by simp [meets])).symm

/-- non-vacuity: `let x=1;let y=x` inside a block -/
example : Within [] MergeDecls
    [.block [.decl .let_ [.assign "x" {} (.num 1)], .decl .let_ [.assign "y" {} (.var "x" {})]]]
    [.block [.decl .let_ ([.assign "x" {} (.num 1)] ++ [.assign "y" {} (.var "x" {})])]] :=
  .block [] [] (.here [] ⟨_, _, _, [], rfl, rfl⟩) (by decide)

/-! ## (b) `var a;a=5 → var a=5` -/

/-- the statement with only the condition that the Go code checked BEFORE 7a74d62: the `Var` object of the assignment
    target has `Decl == VariableDecl` (`a.decl = 1`).  Stated on the observable trace. -/
def traceOf : Result → List Ev
  | .done (.ok _ s) => s.trace
  | .done (.thr _ s) => s.trace
  | _ => []

def merge_assign_unchecked : Prop :=
  ∀ (H : Host) (d : Nat) (s0 : St) (pre rest : List DS) (f : String) (fa : Ann) (ps : List (String × Ann))
    (items : List DE) (x : String) (a : Ann) (e : DE) (brest : List DS), a.decl = 1 →
    traceOf (runProg H d (pre ++ .fn f fa ps
        (.decl .var (addDefinition .var items (.assign x a e) false) :: brest) :: rest) s0)
      = traceOf (runProg H d (pre ++ .fn f fa ps (.decl .var items :: .expr (.assign x a e) :: brest) :: rest) s0)

def cxHost : Host := ⟨fun _ => .ok .undef⟩
def cxState : St := ⟨[fun x => if x == "g" then some ⟨some (.host "g"), false⟩ else none], []⟩

/-- `function f(){var d=0;b=1} f(); var b; g(b)`: the `var b` of the program comes after the function, the parser
    gives the `b` inside `f` the `Var` object of that declaration (`Decl == VariableDecl`) -/
def cxRest : List DS :=
  [.expr (.call (.var "f" {}) []), .decl .var [.var "b" {}], .expr (.call (.var "g" {}) [.var "b" {}])]

/-- **merge_assign_needs_own_function** (K-C01D-4, fixed by 7a74d62): without the test `declaredInFunc` the merge is
    unsound — `function f(){var d=0;b=1}f();var b;g(b)` becomes `function f(){var d=0,b=1}…`: `b` is local to `f`, the
    host sees `undefined` instead of `1`.  (Kept as the reason for the side condition; the current code has it.) -/
theorem merge_assign_needs_own_function : ¬ merge_assign_unchecked := by
  intro h
  have := h cxHost 3 cxState [] cxRest "f" {} [] [.assign "d" {} (.num 0)] "b" { decl := 1 } (.num 1) [] rfl
  revert this
  decide

/-- the merge (both directions, anywhere in the body) preserves the outcome of calling the function when `x` is declared
    by the function itself (`var`, parameter or function) and no block around the place declares `x` with let / const -/
theorem merge_assign_sound_partial (H : Host) (n : Nat) (ps : List String) (cenv : Env) (args : List Val)
    (x : String) (body body' : List DS) (h : Within [x] (MergeAssign x) body body')
    (hx : declaredIn ps body x = true) :
    callN H (n + 1) (.clo ps body' cenv) args = callN H (n + 1) (.clo ps body cenv) args := by
  have heq : ListEqA [x] body body' := h.listEq (by
    rintro l l' ⟨items, a, e, rest, h | h⟩
    · obtain ⟨rfl, rfl⟩ := h
      exact mergeAssignBack_eq items x a e rest
    · obtain ⟨rfl, rfl⟩ := h
      exact mergeAssignFwd_eq items x a e rest)
  refine (callN_congr H n ps cenv args heq ?_).symm
  intro y hy
  have : y = x := by simpa using hy
  subst this
  exact hx

theorem merge_assign_sound_partial_prog (H : Host) (d : Nat) (s0 : St) (x : String) (prog prog' : List DS)
    (h : Within [x] (MergeAssign x) prog prog') (hx : Declared [] prog [x]) :
    runProg H d prog' s0 = runProg H d prog s0 := by
  have heq : ListEqA [x] prog prog' := h.listEq (by
    rintro l l' ⟨items, a, e, rest, h | h⟩
    · obtain ⟨rfl, rfl⟩ := h
      exact mergeAssignBack_eq items x a e rest
    · obtain ⟨rfl, rfl⟩ := h
      exact mergeAssignFwd_eq items x a e rest)
  exact (runProg_congr H d s0 heq hx.1 hx.2).symm

theorem mergeAllowed_own {own : List String} {a : Ann} {x : String} (h : mergeAllowed own a x = true) :
    own.contains x = true := by
  unfold mergeAllowed at h
  rw [code_checks_own_function] at h
  simp only [Bool.not_true, Bool.false_or, Bool.and_eq_true] at h
  exact h.2

/-- **merge_assign_sound** (full for the current code): `var items;x=e → var items',x=e` and `x=e;var items →
    var x=e,items'`, anywhere in the body of a function, under exactly the test that `mergeVarDeclExprStmt` performs
    (`mergeAllowed` with the `var` names of that function: `Decl == VariableDecl` and `declaredInFunc`), preserve the
    outcome of calling the function.  (`Within`: the occurrence is not shadowed by a let / const of a block around it —
    the parser's contract for an occurrence that is the function's own `var`.) -/
theorem merge_assign_sound (H : Host) (n : Nat) (ps : List String) (cenv : Env) (args : List Val)
    (x : String) (body body' : List DS) (h : Within [x] (MergeAssignChecked (varNamesL body) x) body body') :
    callN H (n + 1) (.clo ps body' cenv) args = callN H (n + 1) (.clo ps body cenv) args := by
  obtain ⟨_, _, items, a, e, rest, hal, _⟩ := h.exists
  have hx : declaredIn ps body x = true := by
    simp only [declaredIn, mergeAllowed_own hal, Bool.true_or]
  exact merge_assign_sound_partial H n ps cenv args x body body'
    (h.mono (by
      rintro l l' ⟨items, a, e, rest, _, hh⟩
      exact ⟨items, a, e, rest, hh⟩)) hx

/-- the same for the program -/
theorem merge_assign_sound_prog (H : Host) (d : Nat) (s0 : St) (x : String) (prog prog' : List DS)
    (h : Within [x] (MergeAssignChecked (varNamesL prog) x) prog prog') (hl : meets (lexNamesL prog) [x] = false) :
    runProg H d prog' s0 = runProg H d prog s0 := by
  obtain ⟨_, _, items, a, e, rest, hal, _⟩ := h.exists
  have hx : ∀ y, [x].contains y = true → declaredIn [] prog y = true := by
    intro y hy
    have : y = x := by simpa using hy
    subst this
    simp only [declaredIn, mergeAllowed_own hal, Bool.true_or]
  exact merge_assign_sound_partial_prog H d s0 x prog prog'
    (h.mono (by
      rintro l l' ⟨items, a, e, rest, _, hh⟩
      exact ⟨items, a, e, rest, hh⟩)) ⟨hx, hl⟩

/-- non-vacuity: the test passes for `var a,b;b=5` and fails for the `b` of K-C01D-4 -/
example : mergeAllowed ["a", "b"] { decl := 1 } "b" = true := by decide
example : mergeAllowed ["d"] { decl := 1 } "b" = false := by decide

/-- non-vacuity: `var a,b;b=5` at the top of a body that declares `b` -/
example : Within ["b"] (MergeAssign "b")
    [.decl .var [.var "a" {}, .var "b" {}], .expr (.assign "b" { decl := 1 } (.num 5))]
    [.decl .var (addDefinition .var [.var "a" {}, .var "b" {}] (.assign "b" { decl := 1 } (.num 5)) false)] :=
  .here [] ⟨_, _, _, [], Or.inl ⟨rfl, rfl⟩⟩
example : declaredIn [] [.decl .var [.var "a" {}, .var "b" {}], .expr (.assign "b" { decl := 1 } (.num 5))] "b" = true := by
  decide

/-- **comma_split_sound** (full): `a,b,…;` and `a;b,…;` are the same — `mergeVarDeclExprStmt` takes the assignments off
    one end of a comma list one by one; with this every such merge is a chain of the single merges above
    (`ListEqA.trans`) -/
theorem comma_split_sound (H : Host) (n : Nat) (ps : List String) (cenv : Env) (args : List Val)
    (body body' : List DS)
    (h : Within [] (fun l l' => ∃ a b t rest, l = .expr (.comma (a :: b :: t)) :: rest ∧
      l' = .expr a :: .expr (.comma (b :: t)) :: rest) body body') :
    callN H (n + 1) (.clo ps body' cenv) args = callN H (n + 1) (.clo ps body cenv) args := by
  have heq : ListEqA [] body body' := h.listEq (by
    rintro l l' ⟨a, b, t, rest, rfl, rfl⟩
    exact commaSplit_eq a b t rest)
  exact (callN_congr H n ps cenv args heq (by simp)).symm

/-- a hoisted declaration merged back into a neighbouring `var` declaration: sound when its names are declared by the
    function (they are: `hoistVars` copied them to the best declaration, `hoist_names`) -/
theorem merge_hoisted_sound (H : Host) (n : Nat) (ps : List String) (cenv : Env) (args : List Val)
    (src : List DE) (body body' : List DS) (h : Within (itemNames src) (MergeHoisted src) body body')
    (hx : ∀ x, (itemNames src).contains x = true → declaredIn ps body x = true) :
    callN H (n + 1) (.clo ps body' cenv) args = callN H (n + 1) (.clo ps body cenv) args := by
  have heq : ListEqA (itemNames src) body body' := h.listEq (by
    rintro l l' ⟨items, rest, h | h⟩
    · obtain ⟨rfl, rfl⟩ := h
      exact mergeHoistedBack_eq items src rest
    · obtain ⟨rfl, rfl⟩ := h
      exact mergeHoistedFwd_eq items src rest)
  exact (callN_congr H n ps cenv args heq hx).symm

/-! ## (c) `hoistVars`

`hoistBodyG kw` is the model of `hoistVars`; `kw` says whether `isShadowed` knows that the head of a `while` loop
belongs to the scope around the loop (`Gen.JsHoistFacts.isShadowedKnowsWhile`, read from the source on every run:
`false` for the code without docs/C01D-fix-1.patch); `hoistBody = hoistBodyG isShadowedKnowsWhile`. -/

/-- **hoist_names** (full): `hoistVars` keeps the set of `var` names of the function -/
theorem hoist_names (kw : Bool) (body : List DS) (y : String) :
    y ∈ varNamesL (hoistBodyG kw body) ↔ y ∈ varNamesL body :=
  Verif.Proofs.JsDecl.hoist_names kw body y

theorem hoist_listEq_fields (kw : Bool) (body : List DS) :
    (∀ H K env, execL H K (hoistBodyG kw body) env = execL H K body env) ∧
    lexDeclsL (hoistBodyG kw body) = lexDeclsL body ∧ fnDeclsL (hoistBodyG kw body) = fnDeclsL body ∧
    fragL (hoistBodyG kw body) = fragL body := by
  unfold hoistBodyG
  cases plan (collectL kw [] body) with
  | none => exact ⟨fun _ _ _ => rfl, rfl, rfl, rfl⟩
  | some p =>
    have h := applyL_dyn p body 0
    exact ⟨h.dyn, h.lex, h.fns, h.frag⟩

/-- **hoist_sound** (full, function level): calling a function whose body went through `hoistVars` — `var`
    declarations turned into assignments, their names moved to the best declaration, in whatever block, loop head or
    catch block that one stands — has the same outcome as calling the original, for every host, arguments, state. -/
theorem hoist_sound (kw : Bool) (H : Host) (n : Nat) (ps : List String) (cenv : Env) (args : List Val) (body : List DS) :
    callN H (n + 1) (.clo ps (hoistBodyG kw body) cenv) args = callN H (n + 1) (.clo ps body cenv) args := by
  obtain ⟨hd, hl, hf, _⟩ := hoist_listEq_fields kw body
  have hv : ∀ x, (varNamesL (hoistBodyG kw body)).contains x = (varNamesL body).contains x := by
    intro x
    rw [Bool.eq_iff_iff]
    simp [hoist_names kw body x]
  have hs : ∀ self, fnScope ps args (hoistBodyG kw body) self = fnScope ps args body self := by
    intro self
    funext x
    simp only [fnScope, hf, hl, hv x]
  have hd' : execL H (callN H n) (hoistBodyG kw body) = execL H (callN H n) body := funext (hd H _)
  funext s
  rw [callN_clo, callN_clo, hs, hd']

/-- `hoist_sound` for the program (where early errors are judged): full strength -/
def hoist_sound_prog_full (kw : Bool) : Prop :=
  ∀ (H : Host) (d : Nat) (s0 : St) (prog : List DS), runProg H d (hoistBodyG kw prog) s0 = runProg H d prog s0

/-- `g();var a=1;g();var b=2;g(a,b)` -/
def hoistExD : List DS :=
  [.expr (.call (.var "g" {}) []), .decl .var [.assign "a" {} (.num 1)], .expr (.call (.var "g" {}) []),
   .decl .var [.assign "b" {} (.num 2)], .expr (.call (.var "g" {}) [.var "a" {}, .var "b" {}])]

/-- `{let a=1;while(g(a)){}}var a;g(a)` -/
def d1Prog : List DS :=
  [.block [.decl .let_ [.assign "a" {} (.num 1)],
           .forS true .empty (some (.call (.var "g" {}) [.var "a" {}])) none []],
   .decl .var [.var "a" {}], .expr (.call (.var "g" {}) [.var "a" {}])]

/-- **hoist_sound_counterexample** (K-C01D-1, the code without the repair): `{let a=1;while(g(a)){}}var a;g(a)` →
    `{let a=1;for(var a;g(a););}g(a)`, a SyntaxError: the empty declaration that the parser makes for the `while`
    belongs to the block's scope, and `isShadowed` skips exactly that scope. -/
theorem hoist_sound_counterexample : ¬ hoist_sound_prog_full false := by
  intro h
  have h1 : earlyBody [] (hoistBodyG false d1Prog) = true := by decide
  have h2 : earlyBody [] d1Prog = false := by decide
  have h3 : fragL (hoistBodyG false d1Prog) = true := by decide
  have h4 : fragL d1Prog = true := by decide
  have := h cxHost 1 cxState d1Prog
  simp only [runProg, h1, h2, h3, h4] at this
  cases this

/-- with the repair the example keeps its (absent) early error -/
example : earlyBody [] (hoistBodyG true d1Prog) = false := by decide

/-- **hoist_sound_partial**: for the program the only thing that can go wrong is a new early error (a hoisted name
    landing in a block that declares it with let / const); `isShadowed` is there to prevent it -/
theorem hoist_sound_partial (kw : Bool) (H : Host) (d : Nat) (s0 : St) (prog : List DS)
    (he : earlyBody [] (hoistBodyG kw prog) = earlyBody [] prog) :
    runProg H d (hoistBodyG kw prog) s0 = runProg H d prog s0 := by
  obtain ⟨hd, hl, hf, hfr⟩ := hoist_listEq_fields kw prog
  have hv : ∀ x, (varNamesL (hoistBodyG kw prog)).contains x = (varNamesL prog).contains x := by
    intro x
    rw [Bool.eq_iff_iff]
    simp [hoist_names kw prog x]
  have hg : globalInst (hoistBodyG kw prog) s0.heap.length = globalInst prog s0.heap.length := by
    funext g x
    simp only [globalInst, hf, hv x]
  have hd' : execL H (callN H d) (hoistBodyG kw prog) = execL H (callN H d) prog := funext (hd H _)
  unfold runProg
  simp only [hfr, he, hg, hl, hd']

/-- **hoist_early** : `isShadowed` suffices — a body without early error has none after `hoistVars`, unless the guard of
    K-C01D-1 fires (a hoisted name is declared with let / const in the block that holds the `while` loop whose head
    receives the names) -/
theorem hoist_early (kw : Bool) (ps : List String) (body : List DS) (h0 : earlyBody ps body = false)
    (hg : d1BodyG kw body = false) : earlyBody ps (hoistBodyG kw body) = false :=
  Verif.Proofs.JsDecl.hoist_early kw ps body h0 hg

/-- **hoist_sound_prog_partial**: for a program without early error the run after `hoistVars` is the same, unless the
    guard of K-C01D-1 fires -/
theorem hoist_sound_prog_partial (kw : Bool) (H : Host) (d : Nat) (s0 : St) (prog : List DS)
    (h0 : earlyBody [] prog = false) (hg : d1BodyG kw prog = false) :
    runProg H d (hoistBodyG kw prog) s0 = runProg H d prog s0 :=
  hoist_sound_partial kw H d s0 prog (by rw [hoist_early kw [] prog h0 hg, h0])

/-- **hoist_sound_prog_repaired** (full for valid programs): with `isShadowed` repaired (docs/C01D-fix-1.patch,
    `kw = true`) there is no guard left -/
theorem hoist_sound_prog_repaired (H : Host) (d : Nat) (s0 : St) (prog : List DS) (h0 : earlyBody [] prog = false) :
    runProg H d (hoistBodyG true prog) s0 = runProg H d prog s0 :=
  hoist_sound_prog_partial true H d s0 prog h0 (d1BodyG_true prog)

/-- the guard is satisfiable and fires on the counterexample -/
example : d1BodyG false hoistExD = false := by decide
example : d1BodyG false d1Prog = true := by decide

/-- non-vacuity of the guard: `g();var a=1;g();var b=2;g(a,b)` is really transformed and keeps its early-error status -/
def hoistEx : List DS :=
  [.expr (.call (.var "g" {}) []), .decl .var [.assign "a" {} (.num 1)], .expr (.call (.var "g" {}) []),
   .decl .var [.assign "b" {} (.num 2)], .expr (.call (.var "g" {}) [.var "a" {}, .var "b" {}])]
example : earlyBody [] (hoistBodyG false hoistEx) = earlyBody [] hoistEx := by decide
example : (hoistBodyG false hoistEx).any (fun s => match s with | .decl .hoisted _ => true | _ => false) = true := by
  decide

/-! ## (d) the head of a `for` -/

/-- **for_init_merge_sound** (full for the forms that add no `var` name) -/
theorem for_init_merge_sound (H : Host) (n : Nat) (ps : List String) (cenv : Env) (args : List Val)
    (body body' : List DS) (h : Within [] ForInitPlain body body') :
    callN H (n + 1) (.clo ps body' cenv) args = callN H (n + 1) (.clo ps body cenv) args := by
  have heq : ListEqA [] body body' := h.listEq (by
    rintro l l' ⟨w, c, p, b, rest, h | h | h | h⟩
    · obtain ⟨items, rfl, rfl⟩ := h
      exact forInitDeclEmpty_eq items w c p b rest
    · obtain ⟨e, rfl, rfl⟩ := h
      exact forInitExprEmpty_eq e w c p b rest
    · obtain ⟨items, items2, h2, rfl, rfl⟩ := h
      exact forInitReplace_eq items items2 h2 w c p b rest
    · obtain ⟨items, x, a, e, rfl, rfl⟩ := h
      exact forInitAssignHoisted_eq items x a e w c p b rest)
  exact (callN_congr H n ps cenv args heq (by simp)).symm

/-- **for_init_merge_sound_names**: the forms that make names `var` names of the new head (`A`): sound when the
    function declares them anyway and no block on the way declares them lexically -/
theorem for_init_merge_sound_names (H : Host) (n : Nat) (ps : List String) (cenv : Env) (args : List Val)
    (A : List String) (body body' : List DS) (h : Within A (ForInitMerge A) body body')
    (hx : ∀ x, A.contains x = true → declaredIn ps body x = true) :
    callN H (n + 1) (.clo ps body' cenv) args = callN H (n + 1) (.clo ps body cenv) args := by
  have heq : ListEqA A body body' := h.listEq (by
    rintro l l' ⟨w, c, p, b, rest, h | h⟩
    · obtain ⟨items, items2, k2, hk, rfl, rfl, rfl⟩ := h
      exact forInitMerge_eq items items2 k2 hk w c p b rest
    · obtain ⟨items, x, a, e, rfl, rfl, rfl⟩ := h
      exact forInitAssign_eq items x a e w c p b rest)
  exact (callN_congr H n ps cenv args heq hx).symm

/-- non-vacuity: `var a;for(var b=0;b<3;b++)g(b)` -/
example : Within (itemNames [.assign "b" {} (.num 0)]) (ForInitMerge (itemNames [.assign "b" {} (.num 0)]))
    [.decl .var [.var "a" {}], .forS false (.decl .var [.assign "b" {} (.num 0)]) none none []]
    [.forS false (.decl .var (mergeVarDecls .var [.var "a" {}] [.assign "b" {} (.num 0)] false)) none none []] :=
  .here [] ⟨false, none, none, [], [], Or.inl ⟨_, _, .var, Or.inl rfl, rfl, rfl, rfl⟩⟩

/-! ## (e) what else happens to declarations

`minifyVarDecl` sorts the items of a `var` declaration (items without initialiser first, single letters by frequency).
Destructuring bindings are outside the fragment: the model does not accept them, the node sweep covers them. -/

/-- **sort_decl_sound** (full): printing a `var` declaration with its items sorted by `minifyVarDecl` -/
theorem sort_decl_sound (H : Host) (n : Nat) (ps : List String) (cenv : Env) (args : List Val)
    (body body' : List DS)
    (h : Within [] (fun l l' => ∃ items rest, l = .decl .var items :: rest ∧ l' = .decl .var (sortDecl items) :: rest)
      body body') :
    callN H (n + 1) (.clo ps body' cenv) args = callN H (n + 1) (.clo ps body cenv) args := by
  have heq : ListEqA [] body body' := h.listEq (by
    rintro l l' ⟨items, rest, rfl, rfl⟩
    exact sortDecl_eq items rest)
  exact (callN_congr H n ps cenv args heq (by simp)).symm

example : itemNames (sortDecl [.assign "a" {} (.num 1), .var "z" {}, .assign "c" {} (.num 2), .var "e" {}])
    = ["e", "z", "a", "c"] := by decide

end Verif.Props.C01D

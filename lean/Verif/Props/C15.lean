import Verif.Model.Registry
/-!
# C15 — media type dispatch follows the documented matching rules

Property theorems only (model: `Verif.Model.Registry`).
-/
namespace Verif.Props.C15
open Verif Verif.Model.Registry

/-! invariants of `build` -/

/-- the literal table of the registry built from a history answers `lastLit` -/
theorem lits_lookup (h : List RegOp) (r : Reg) (mt : Bytes) :
    ((h.foldl apply r).lits.lookup mt) =
      (match lastLit h mt with | some id => some id | none => r.lits.lookup mt) := by
  induction h generalizing r with
  | nil => simp [lastLit]
  | cons op h ih =>
    rw [List.foldl_cons, ih]
    cases op with
    | addLit m id =>
      simp only [lastLit, List.reverse_cons, List.findSome?_append, apply]
      cases hl : List.findSome? (fun op => match op with
          | RegOp.addLit m id => if (m == mt) = true then some id else none
          | x => none) h.reverse with
      | some v => simp
      | none =>
        simp only [Option.none_or, List.findSome?_cons, List.findSome?_nil]
        by_cases hm : m = mt
        · subst hm; simp [List.lookup]
        · have h1 : (m == mt) = false := by simpa using hm
          have h2 : (mt == m) = false := by simpa using (fun e => hm e.symm)
          simp only [h1, Bool.false_eq_true, if_false, List.lookup, h2]
          -- lookup in the filtered list equals lookup in the original for a different key
          clear ih hl
          induction r.lits with
          | nil => simp [List.lookup]
          | cons e t iht =>
            simp only [List.filter]
            by_cases he : e.1 = m
            · have : (e.1 != m) = false := by simp [he]
              rw [this]
              have h3 : (mt == e.1) = false := by rw [he]; exact h2
              obtain ⟨a, b⟩ := e
              simp only at h3 he
              simp [List.lookup, h3, iht]
            · have : (e.1 != m) = true := by simp [he]
              rw [this]
              obtain ⟨a, b⟩ := e
              simp only [List.lookup]
              cases (mt == a) <;> simp [iht]
    | addPat p id =>
      simp only [lastLit, List.reverse_cons, List.findSome?_append, apply]
      cases hl : List.findSome? (fun op => match op with
          | RegOp.addLit m id => if (m == mt) = true then some id else none
          | x => none) h.reverse with
      | some v => simp
      | none => simp

/-- the pattern slice of the registry built from a history answers `firstPat` -/
theorem pats_find (h : List RegOp) (r : Reg) (pm : Nat → Bool) :
    ((h.foldl apply r).pats.find? (fun p => pm p.1)).map (·.2) =
      (match (r.pats.find? (fun p => pm p.1)).map (·.2) with
       | some id => some id
       | none => firstPat h pm) := by
  induction h generalizing r with
  | nil => simp [firstPat]; cases (List.find? (fun p => pm p.1) r.pats) <;> simp
  | cons op h ih =>
    rw [List.foldl_cons, ih]
    cases op with
    | addLit m id =>
      simp only [apply, firstPat, List.findSome?_cons]
    | addPat p id =>
      simp only [apply, firstPat, List.findSome?_cons, List.find?_append]
      cases hf : List.find? (fun p => pm p.1) r.pats with
      | some v => simp
      | none =>
        by_cases hp : pm p = true
        · simp [hp]
        · have : pm p = false := by simpa using hp
          simp [this]

/-- **C15 main**: for every registration history, every pattern-match relation and every mimetype,
    the registry's lookup (the body of `MinifyMimetype` and `Match`) is the reference rule
    "latest literal registration, else first-registered matching pattern, else none". -/
theorem dispatch_refines (h : List RegOp) (pm : Nat → Bool) (mt : Bytes) :
    lookup (build h) pm mt = specDispatch h pm mt := by
  unfold lookup specDispatch build
  rw [lits_lookup h Reg.empty mt]
  cases hl : lastLit h mt with
  | some id => simp
  | none =>
    simp only [Reg.empty, List.lookup]
    have := pats_find h Reg.empty pm
    simpa [Reg.empty] using this

/-- the match query answers exactly what a call would use -/
theorem match_agrees (r : Reg) (pm : Nat → Bool) (mt : Bytes) :
    (matchEntry r pm mt).id? = lookup r pm mt := by
  unfold matchEntry lookup
  cases r.lits.lookup mt with
  | some id => rfl
  | none => cases List.find? (fun p => pm p.1) r.pats <;> rfl

theorem matchCall_agrees (r : Reg) (pmOf : List Char → Nat → Bool) (q : List Char) :
    (matchCall r pmOf q).1.id? = (minifyCall r pmOf q).id ∧
    (matchCall r pmOf q).2.2 = (minifyCall r pmOf q).params := by
  unfold matchCall minifyCall
  cases splitMediatype q with
  | mk mt ps => exact ⟨match_agrees _ _ _, rfl⟩

/-- re-registering a literal type replaces the earlier minifier -/
theorem reregister_replaces (h : List RegOp) (pm : Nat → Bool) (mt : Bytes) (id : Nat) :
    lookup (build (h ++ [.addLit mt id])) pm mt = some id := by
  rw [dispatch_refines]
  simp [specDispatch, lastLit]

/-- not-exist: no literal and no matching pattern ⇒ no minifier is selected (nothing is called,
    hence nothing is written) -/
theorem notexist (h : List RegOp) (pm : Nat → Bool) (mt : Bytes)
    (hl : lastLit h mt = none) (hp : firstPat h pm = none) : lookup (build h) pm mt = none := by
  rw [dispatch_refines]; simp [specDispatch, hl, hp]

/-- a literal registration is preferred over every pattern, whatever the order of registration -/
theorem literal_beats_pattern (h : List RegOp) (pm : Nat → Bool) (mt : Bytes) (id : Nat)
    (hl : lastLit h mt = some id) : lookup (build h) pm mt = some id := by
  rw [dispatch_refines]; simp [specDispatch, hl]

/-- parameters: a later duplicate key wins, every key appears once -/
theorem toMap_nodup_keys (l : List (List Char × List Char)) : ((toMap l).map (·.1)).Nodup := by
  induction l with
  | nil => simp [toMap]
  | cons e r ih =>
    obtain ⟨k, v⟩ := e
    simp only [toMap]
    split
    · exact ih
    · rename_i hk
      simp only [List.map_cons, List.nodup_cons]
      refine ⟨?_, ih⟩
      intro hmem
      apply hk
      -- a key of toMap r is a key of r
      have sub : ∀ (l : List (List Char × List Char)) k, k ∈ (toMap l).map (·.1) → k ∈ l.map (·.1) := by
        intro l
        induction l with
        | nil => simp [toMap]
        | cons e r ih2 =>
          obtain ⟨k', v'⟩ := e
          intro k hk2
          simp only [toMap] at hk2
          split at hk2
          · exact List.mem_cons_of_mem _ (ih2 k hk2)
          · simp only [List.map_cons, List.mem_cons] at hk2 ⊢
            rcases hk2 with h | h
            · exact Or.inl h
            · exact Or.inr (ih2 k h)
      have := sub r k hmem
      simp only [List.mem_map] at this
      obtain ⟨e, he, hek⟩ := this
      simp only [List.any_eq_true]
      exact ⟨e, he, by simp [hek]⟩

/-! non-vacuity: concrete histories exercising each clause -/

example : specDispatch [.addPat 0 7, .addLit [1] 3, .addLit [1] 4] (fun _ => true) [1] = some 4 := by decide
example : specDispatch [.addPat 0 7, .addPat 1 8, .addLit [1] 3] (fun p => p == 1) [2] = some 8 := by decide
example : lookup (build [.addPat 0 7, .addLit [1] 3]) (fun _ => false) [2] = none := by decide
example : (splitMediatype "text/html; charset=UTF-8".toList).1 = "text/html".toList := by decide

end Verif.Props.C15

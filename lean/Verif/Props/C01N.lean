import Verif.Proofs.JsNumberDot
/-!
# C01N — numeric literal rewriting of the JS minifier (growth item of C01)

Property theorems only.  Model: `Verif.Model.JsNumber` (`minifyNumLit`: what `js.Minify` prints for one
numeric literal token; `none` = the lexer rejects the lexeme).  Specification: `Verif.Spec.JsNumberSem`
(`isNumericLiteral`, `mathValue`, `isBigIntLit`, `isLegacyLike`) — the ECMAScript grammar of numeric literals
and their *mathematical value* as an exact rational.  IEEE-754 rounding is not modelled: the Number value
of a literal is a function of its mathematical value, so equal mathematical values (and equal
Number/BigInt type) give equal ECMAScript values.
-/
namespace Verif.Props.C01N
open Verif.Spec.JsNumberSem
open Verif.Model.JsNumber
open Verif.Proofs.JsNumber

/-- **value**: every numeric literal the minifier accepts is printed as a lexeme with exactly the same
    mathematical value (decimal shortening, radix conversion, separators, suffix — all of them) -/
theorem number_value_preserved (s t : List Char) (hs : isNumericLiteral s = true)
    (ht : minifyNumLit s = some t) : mathValue t = mathValue s :=
  (lit_main hs ht).2.1

example : isNumericLiteral "0x1_Fn".toList = true ∧ minifyNumLit "0x1_Fn".toList = some "31n".toList := by decide
example : isNumericLiteral "1_000.50e-1_0".toList = true := by decide

/-- **grammar**: the printed lexeme is again a `NumericLiteral` -/
theorem number_is_literal (s t : List Char) (hs : isNumericLiteral s = true)
    (ht : minifyNumLit s = some t) : isNumericLiteral t = true :=
  (lit_main hs ht).1

/-- **type**: a BigInt literal stays a BigInt literal and a Number literal a Number literal (full strength
    since /repo 7c8c916, which restores the suffix of long binary/octal/hexadecimal literals) -/
theorem bigint_stays_bigint (s t : List Char) (hs : isNumericLiteral s = true)
    (ht : minifyNumLit s = some t) : isBigIntLit t = isBigIntLit s :=
  (lit_main hs ht).2.2.1

example : isNumericLiteral "0xFFFFFFFFFFFFFn".toList = true ∧
    minifyNumLit "0xFFFFFFFFFFFFFn".toList = some "0xFFFFFFFFFFFFFn".toList := by decide

/-- **accepted domain**: among the numeric literals exactly the Annex-B legacy forms (`017`, `08`, `09.5`:
    a `0` followed by a digit) are rejected — `js.Minify` returns the lexer's error for them -/
theorem rejected_iff_legacy (s : List Char) (hs : isNumericLiteral s = true) :
    minifyNumLit s = none ↔ isLegacyLike s = true :=
  rejected_iff hs

example : isNumericLiteral "017".toList = true ∧ minifyNumLit "017".toList = none := by decide

/-- **member access after a number** (`case *js.DotExpr` / `*js.IndexExpr`: the `isInteger` test on the chunk
    written last, then one or two dots): for `<literal>.name`, `<literal>["name"]` and the parenthesised forms
    the output is `lit.name` where `lit` is a numeric literal with the value and type of the input literal
    (it ends in a dot when the printed number consists of digits only: `16..toString()`), and the
    specification's tokenizer (maximal munch) reads exactly `lit` and continues with `.name` -/
theorem dot_after_number_ok (s name out : List Char) (hs : isNumericLiteral s = true)
    (h : memberDot s name = some out) :
    ∃ lit, out = lit ++ '.' :: name ∧ lexNumericAt out = some (lit, '.' :: name) ∧
      isNumericLiteral lit = true ∧ mathValue lit = mathValue s ∧ isBigIntLit lit = isBigIntLit s := by
  obtain ⟨lit, h1, h2, h3, h4, h5⟩ := dot_main hs h
  exact ⟨lit, h1, by rw [h1]; exact lexNumericAt_dot h2 h5, h2, h3, h4⟩

example : memberDot "0x10".toList "toString".toList = some "16..toString".toList ∧
    memberDot "1.5e3".toList "a".toList = some "1500..a".toList ∧
    memberDot "1e21".toList "a".toList = some "1e21.a".toList ∧
    memberDot "1_0n".toList "a".toList = some "10n.a".toList := by decide

/-- no numeric literal extends over the dot that precedes the property name, whatever the name is -/
theorem dot_not_absorbed (s name out : List Char) (hs : isNumericLiteral s = true)
    (h : memberDot s name = some out) :
    ∃ lit, out = lit ++ '.' :: name ∧ isNumericLiteral lit = true ∧
      ∀ x, isNumericLiteral (lit ++ '.' :: x) = false := by
  obtain ⟨lit, h1, h2, _, _, h5⟩ := dot_main hs h
  exact ⟨lit, h1, h2, h5⟩

/-- the parenthesised literal `(<literal>).name` is printed like `<literal>.name` (since /repo 518e386 the
    grouped-literal branch is gone), so `dot_after_number_ok` covers it -/
theorem group_dot_is_member_dot (s name : List Char) : groupDot s name = memberDot s name := rfl

end Verif.Props.C01N

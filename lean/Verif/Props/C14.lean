import Verif.Model.IoFail
import Verif.Gen.ExitPaths
import Verif.Props.C12
/-!
# C14 — I/O failures surface as errors, never as silent truncation or deadlock

Property theorems (model: `Verif.Model.IoFail`; regenerated facts: `Verif.Gen.ExitPaths`).
The theorems about exit skeletons hold for **every** skeleton satisfying the decidable `wfExit`
(every write count, every failure point `k`, every oracle); the regenerated skeletons of the six
packages are shown to satisfy `wfExit` by `decide` on every check run.
-/
namespace Verif.Props.C14
open Verif Verif.Skel Verif.Model.IoFail

/-! ### the simple run (writes, then probe) -/

/-- **sticky_surfaces**: for every list of body writes and every `k` up to and including the
    probe call, the run returns the writer's error. -/
theorem sticky_surfaces (ws : List Bytes) (k : Nat) (h : k ≤ ws.length + 1) :
    (simpleRun ws k).1 = some Err.writer := by
  simp [simpleRun, StickyW.write, StickyW.writeN, h]

/-- a healthy enough writer: success, and nothing is lost -/
theorem simple_success (ws : List Bytes) (k : Nat) (h : ws.length + 1 < k) :
    simpleRun ws k = (none, ws) := by
  have h1 : ¬ k ≤ ws.length + 1 := by omega
  have h2 : ws.length ≤ k - 1 := by omega
  simp [simpleRun, StickyW.write, StickyW.writeN, h1, List.take_of_length_le h2]

/-- never silent truncation: whenever the simple run reports success, every chunk was accepted -/
theorem simple_no_truncation (ws : List Bytes) (k : Nat) (h : (simpleRun ws k).1 = none) :
    (simpleRun ws k).2 = ws := by
  by_cases hk : k ≤ ws.length + 1
  · rw [sticky_surfaces ws k hk] at h; cases h
  · rw [simple_success ws k (by omega)]

example : simpleRun [[1], [2, 3], [4]] 2 = (some Err.writer, [[1]]) := by decide
example : simpleRun [[1], [2, 3], [4]] 4 = (some Err.writer, [[1], [2, 3], [4]]) := by decide
example : simpleRun [[1], [2, 3], [4]] 5 = (none, [[1], [2, 3], [4]]) := by decide

/-! ### the failing reader behind `parse.NewInput` -/

theorem pieces_flatten (chunk : Nat) : ∀ (fuel : Nat) (d : Bytes), d.length < fuel →
    (pieces chunk fuel d).flatten = d := by
  intro fuel
  induction fuel with
  | zero => intro d h; omega
  | succ n ih =>
    intro d h
    unfold pieces
    cases d with
    | nil => simp
    | cons a t =>
      simp only [List.isEmpty_cons, Bool.false_eq_true, if_false, List.flatten_cons]
      rw [ih]
      · exact List.take_append_drop _ _
      · simp only [List.length_drop, List.length_cons] at *; omega

theorem readAll_ok (ps : List Bytes) (tl : List ReadRes) :
    readAll ((ps.map fun p => (p, none)) ++ tl) = (ps.flatten ++ (readAll tl).1, (readAll tl).2) := by
  induction ps with
  | nil => simp
  | cons p r ih => simp [readAll, ih, List.append_assoc]

theorem readAll_failReadsOf (d : Bytes) (chunk : Nat) (short : Bool) :
    readAll (failReadsOf d chunk short) = (d, some Err.reader) := by
  have hp := pieces_flatten chunk (d.length + 1) d (by omega)
  unfold failReadsOf
  generalize pieces chunk (d.length + 1) d = ps at hp
  cases short with
  | false =>
    simp only [Bool.false_eq_true, if_false]
    rw [readAll_ok]
    simp [readAll, hp]
  | true =>
    simp only [if_true]
    cases hr : ps.reverse with
    | nil =>
      have : ps = [] := by simpa using hr
      subst this
      simp only [List.flatten_nil] at hp
      simp [readAll, ← hp]
    | cons l r =>
      have hps : ps = r.reverse ++ [l] := by
        have := congrArg List.reverse hr
        simpa using this
      simp only
      rw [readAll_ok]
      subst hps
      simp only [List.flatten_append, List.flatten_cons, List.flatten_nil, List.append_nil] at hp
      simp [readAll, hp]

/-- `io.ReadAll` over the failing reader returns the first `k` bytes and the reader's error,
    for every piece size, with and without a short final read. -/
theorem readAll_failReads (data : Bytes) (k chunk : Nat) (short : Bool) :
    readAll (failReads data k chunk short) = (data.take k, some Err.reader) :=
  readAll_failReadsOf _ _ _

/-- `parse.NewInput` over the failing reader keeps the error (and no data) -/
theorem newInput_failReads (data : Bytes) (k chunk : Nat) (short : Bool) :
    newInput (failReads data k chunk short) = { buf := [], err := some Err.reader } := by
  simp [newInput, readAll_failReads]

example : failReads [1, 2, 3, 4, 5] 3 1 true = [([1, 2], none), ([3], some Err.reader)] := by decide
example : failReads [1, 2, 3, 4, 5] 3 1 false = [([1, 2], none), ([3], none), ([], some Err.reader)] := by decide

/-! ### exit skeletons -/

/-- what the scan knows is true of the state -/
structure ScanOk (env : Env) (sc : Scan) (st : St) : Prop where
  probed : sc.probed = true → st.w.calls < st.w.k
  readOk : sc.readOk = true → env.rerr = none
  probe : sc.prev = some .probeWrite → st.lastW = none → st.w.calls < st.w.k
  parse : sc.prev = some .parse → st.perr = none → env.rerr = none
  noteof : sc.prev = some .returnNilIfEOF → lexNow env ≠ Err.eof

theorem lexNow_eof {env : Env} (hne : env.rerr ≠ some Err.eof) (h : lexNow env = Err.eof) :
    env.rerr = none := by
  unfold lexNow at h
  cases hr : env.rerr with
  | none => rfl
  | some e => rw [hr] at h hne; simp at h; subst h; exact absurd rfl hne

/-- **block soundness**: in a guarded block a success return implies that every `Write` call made
    so far (including the probe) succeeded and that the reader did not fail. -/
theorem exec_success (env : Env) (hne : env.rerr ≠ some Err.eof) :
    ∀ (blk : List XAtom) (sc : Scan) (os : Oracle) (st st' : St),
      guarded sc blk = true → ScanOk env sc st → exec env blk os st = (.ret none, st') →
      st'.w.calls < st'.w.k ∧ env.rerr = none := by
  intro blk
  induction blk with
  | nil => intro sc os st st' _ _ h; simp [exec] at h
  | cons a r ih =>
    intro sc os st st' hg ok h
    cases a with
    | work =>
      simp only [guarded] at hg
      simp only [exec] at h
      refine ih _ _ _ _ hg ?_ h
      exact ⟨by simp, ok.readOk, by simp, by simp, by simp⟩
    | probeWrite =>
      simp only [guarded] at hg
      simp only [exec, StickyW.write] at h
      refine ih _ _ _ _ hg ?_ h
      refine ⟨by simp, ok.readOk, ?_, by simp, by simp⟩
      intro _ hl
      simp only at hl ⊢
      by_cases hk : st.w.k ≤ st.w.calls + 1
      · simp [hk] at hl
      · omega
    | returnIfErr =>
      simp only [guarded, Bool.and_eq_true, beq_iff_eq] at hg
      simp only [exec] at h
      cases hl : st.lastW with
      | some e => rw [hl] at h; simp at h
      | none =>
        rw [hl] at h
        refine ih _ _ _ _ hg.2 ?_ h
        exact ⟨fun _ => ok.probe hg.1 hl, ok.readOk, by simp, by simp, by simp⟩
    | writeReturnIfErr =>
      simp only [guarded] at hg
      simp only [exec, StickyW.write] at h
      by_cases hk : st.w.k ≤ st.w.calls + 1
      · simp [hk] at h
      · simp only [hk, if_false] at h
        refine ih _ _ _ _ hg ?_ h
        refine ⟨fun _ => ?_, ok.readOk, by simp, by simp, by simp⟩
        simp only; omega
    | returnNilIfEOF =>
      simp only [guarded, Bool.and_eq_true] at hg
      simp only [exec] at h
      by_cases he : lexNow env = Err.eof
      · simp only [he, if_true, Prod.mk.injEq, true_and] at h
        subst h
        exact ⟨ok.probed hg.1, lexNow_eof hne he⟩
      · simp only [he, if_false] at h
        refine ih _ _ _ _ hg.2 ?_ h
        exact ⟨ok.probed, ok.readOk, by simp, by simp, fun _ => he⟩
    | returnLexErrIfNotEOF =>
      simp only [guarded] at hg
      simp only [exec] at h
      by_cases he : lexNow env = Err.eof
      · simp only [he, if_true] at h
        refine ih _ _ _ _ hg ?_ h
        exact ⟨ok.probed, fun _ => lexNow_eof hne he, by simp, by simp, by simp⟩
      · simp [he] at h
    | returnLexErr => simp [exec] at h
    | returnNil =>
      simp only [guarded, Bool.and_eq_true] at hg
      simp only [exec, Prod.mk.injEq, true_and] at h
      subst h
      exact ⟨ok.probed hg.1, ok.readOk hg.2⟩
    | parse =>
      simp only [guarded] at hg
      simp only [exec] at h
      refine ih _ _ _ _ hg ?_ h
      refine ⟨ok.probed, ok.readOk, by simp, ?_, by simp⟩
      intro _ hp
      simp only [parseNow] at hp
      cases hr : env.rerr with
      | none => rfl
      | some e => rw [hr] at hp; simp at hp
    | returnIfParseErr =>
      simp only [guarded, Bool.and_eq_true, beq_iff_eq] at hg
      simp only [exec] at h
      cases hl : st.perr with
      | some e => rw [hl] at h; simp at h
      | none =>
        rw [hl] at h
        refine ih _ _ _ _ hg.2 ?_ h
        exact ⟨ok.probed, fun _ => ok.parse hg.1 hl, by simp, by simp, by simp⟩
    | returnSubErr =>
      simp only [guarded] at hg
      simp only [exec] at h
      by_cases hf : (os.head?.getD (0, false)).2 = true
      · simp [hf] at h
      · simp only [hf, Bool.false_eq_true, if_false] at h
        refine ih _ _ _ _ hg ?_ h
        exact ⟨ok.probed, ok.readOk, by simp, by simp, by simp⟩
    | other s => simp [guarded] at hg

theorem scanOk_init (env : Env) (st : St) : ScanOk env {} st :=
  ⟨by simp, by simp, by simp, by simp, by simp⟩

/-- a block whose last statement is an unconditional return never falls off its end -/
theorem exec_main_returns (env : Env) :
    ∀ (blk : List XAtom) (os : Oracle) (st st' : St),
      (blk.getLast? = some .returnNil ∨ blk.getLast? = some .returnLexErr) →
      exec env blk os st ≠ (.fall, st') := by
  intro blk
  induction blk with
  | nil => intro os st st' h; simp at h
  | cons a r ih =>
    intro os st st' hl
    have hr : r ≠ [] → (r.getLast? = some .returnNil ∨ r.getLast? = some .returnLexErr) := by
      intro hne
      cases r with
      | nil => exact absurd rfl hne
      | cons b t => simpa [List.getLast?_cons_cons] using hl
    cases r with
    | nil =>
      simp only [List.getLast?_singleton, Option.some.injEq] at hl
      rcases hl with hl | hl <;> subst hl <;> simp [exec]
    | cons b t =>
      have hr' := hr (by simp)
      cases a <;> simp only [exec] <;> (try split) <;> (try exact ih _ _ _ hr') <;> simp

/-! ### whole packages -/

theorem wf_block (p : ExitPkg) (h : wfExit p = true) (i : Nat) (b : List XAtom)
    (hb : p.exits[i]? = some b) : guarded {} b = true := by
  simp only [wfExit, Bool.and_eq_true, List.all_eq_true] at h
  exact h.1.1 b (List.mem_of_getElem? hb)

/-- `runPkg` never changes the failure point of the writer -/
theorem exec_k (env : Env) : ∀ (blk : List XAtom) (os : Oracle) (st : St),
    (exec env blk os st).2.w.k = st.w.k := by
  intro blk
  induction blk with
  | nil => intro os st; rfl
  | cons a r ih =>
    intro os st
    cases a <;> simp only [exec] <;> (repeat' split) <;>
      simp [ih, StickyW.writeN, StickyW.write]

/-- **C14 for every well-formed skeleton**: whichever blocks a `Minify` call passes through, however
    many writes it makes and whatever the oracles answer — if it reports success then *no* `Write`
    call (body writes and probe) had failed and the reader had not failed. -/
theorem runPkg_success (p : ExitPkg) (hwf : wfExit p = true) (env : Env)
    (hne : env.rerr ≠ some Err.eof) :
    ∀ (segs : List Seg) (st st' : St),
      runPkg env p segs st = (.ret none, st') → st'.w.calls < st'.w.k ∧ env.rerr = none := by
  intro segs
  induction segs with
  | nil => intro st st' h; simp [runPkg] at h
  | cons s r ih =>
    intro st st' h
    simp only [runPkg] at h
    cases hb : p.exits[s.blk]? with
    | none => rw [hb] at h; exact ih _ _ h
    | some b =>
      rw [hb] at h
      simp only at h
      cases he : exec env b s.os { st with w := st.w.writeN s.pre } with
      | mk o st2 =>
        rw [he] at h
        cases o with
        | fall => exact ih _ _ h
        | ret e =>
          simp only [Prod.mk.injEq, Out.ret.injEq] at h
          obtain ⟨rfl, rfl⟩ := h
          exact exec_success env hne b {} s.os _ _ (wf_block p hwf s.blk b hb) (scanOk_init _ _) he

/-- sticky writer: if any `Write` call of the run (the `k`-th, `k ≤` number of calls made incl.
    the probe) failed, the call does not report success -/
theorem sticky_surfaces_pkg (p : ExitPkg) (hwf : wfExit p = true) (env : Env)
    (hne : env.rerr ≠ some Err.eof) (segs : List Seg) (k : Nat) (o : Out) (st' : St)
    (h : runPkg env p segs { w := { k := k } } = (o, st')) (hk : st'.w.k ≤ st'.w.calls) :
    o ≠ .ret none := by
  intro ho; subst ho
  have := (runPkg_success p hwf env hne segs _ _ h).1
  omega

/-- **reader_error_surfaces**: a failed reader never ends in success, for every run -/
theorem reader_error_surfaces (p : ExitPkg) (hwf : wfExit p = true) (env : Env)
    (hr : env.rerr = some Err.reader) (segs : List Seg) (st : St) (o : Out) (st' : St)
    (h : runPkg env p segs st = (o, st')) : o ≠ .ret none := by
  intro ho; subst ho
  have := (runPkg_success p hwf env (by rw [hr]; simp) segs _ _ h).2
  rw [hr] at this; cases this

/-- the regenerated skeletons of all six packages are well-formed (re-checked on every run) -/
theorem all_packages_ok : ∀ p ∈ Verif.Gen.ExitPaths.all, wfExit p = true := by decide

/-- no `recover()` in package minify either (a panic is never turned into a silent success) -/
theorem root_no_recover : Verif.Gen.ExitPaths.rootRecovers = 0 := by decide

/-! ### which error -/

/-- On input that is fine (reader did not fail, lexer ends in `io.EOF`, no parse error, no
    sub-minifier error) the only error a guarded block can return is the writer's, and only after
    a `Write` call really failed. -/
theorem exec_healthy (env : Env) (hr : env.rerr = none) (hl : env.lex = Err.eof)
    (hp : env.parseRes = none) :
    ∀ (blk : List XAtom) (sc : Scan) (os : Oracle) (st st' : St) (e : Err),
      guarded sc blk = true → ScanOk env sc st → (∀ o ∈ os, o.2 = false) →
      (∀ x, st.lastW = some x → x = Err.writer ∧ st.w.k ≤ st.w.calls) → st.perr = none →
      exec env blk os st = (.ret (some e), st') → e = Err.writer ∧ st'.w.k ≤ st'.w.calls := by
  have hlex : lexNow env = Err.eof := by simp [lexNow, hr, hl]
  intro blk
  induction blk with
  | nil => intro sc os st st' e _ _ _ _ _ h; simp [exec] at h
  | cons a r ih =>
    intro sc os st st' e hg ok hos hw hpe h
    have hos' : ∀ o ∈ os.tail, o.2 = false := fun o ho => hos o (List.mem_of_mem_tail ho)
    cases a with
    | work =>
      simp only [guarded] at hg
      simp only [exec] at h
      refine ih _ _ _ _ _ hg ?_ hos' ?_ ?_ h
      · exact ⟨by simp, ok.readOk, by simp, by simp, by simp⟩
      · intro x hx
        have := hw x hx
        simp only [StickyW.writeN]; exact ⟨this.1, by omega⟩
      · exact hpe
    | probeWrite =>
      simp only [guarded] at hg
      simp only [exec, StickyW.write] at h
      refine ih _ _ _ _ _ hg ?_ hos ?_ ?_ h
      · refine ⟨by simp, ok.readOk, ?_, by simp, by simp⟩
        intro _ hl'
        simp only at hl' ⊢
        by_cases hk : st.w.k ≤ st.w.calls + 1
        · simp [hk] at hl'
        · omega
      · intro x hx
        simp only at hx ⊢
        by_cases hk : st.w.k ≤ st.w.calls + 1
        · simp only [hk, if_true, Option.some.injEq] at hx; exact ⟨hx.symm, hk⟩
        · simp [hk] at hx
      · exact hpe
    | returnIfErr =>
      simp only [guarded, Bool.and_eq_true, beq_iff_eq] at hg
      simp only [exec] at h
      cases hl' : st.lastW with
      | some x =>
        rw [hl'] at h
        simp only [Prod.mk.injEq, Out.ret.injEq, Option.some.injEq] at h
        obtain ⟨rfl, rfl⟩ := h
        exact hw x hl'
      | none =>
        rw [hl'] at h
        refine ih _ _ _ _ _ hg.2 ?_ hos hw hpe h
        exact ⟨fun _ => ok.probe hg.1 hl', ok.readOk, by simp, by simp, by simp⟩
    | writeReturnIfErr =>
      simp only [guarded] at hg
      simp only [exec, StickyW.write] at h
      by_cases hk : st.w.k ≤ st.w.calls + 1
      · simp only [hk, if_true, Prod.mk.injEq, Out.ret.injEq, Option.some.injEq] at h
        obtain ⟨rfl, rfl⟩ := h
        exact ⟨rfl, hk⟩
      · simp only [hk, if_false] at h
        refine ih _ _ _ _ _ hg ?_ hos ?_ ?_ h
        · refine ⟨fun _ => ?_, ok.readOk, by simp, by simp, by simp⟩
          simp only; omega
        · intro x hx
          have := hw x hx
          exact ⟨this.1, by simp only; omega⟩
        · exact hpe
    | returnNilIfEOF =>
      simp only [exec, hlex, if_true] at h
      simp at h
    | returnLexErrIfNotEOF =>
      simp only [guarded] at hg
      simp only [exec, hlex, if_true] at h
      refine ih _ _ _ _ _ hg ?_ hos hw hpe h
      exact ⟨ok.probed, fun _ => hr, by simp, by simp, by simp⟩
    | returnLexErr =>
      simp only [guarded, beq_iff_eq] at hg
      exact absurd hlex (ok.noteof hg)
    | returnNil => simp [exec] at h
    | parse =>
      simp only [guarded] at hg
      simp only [exec] at h
      refine ih _ _ _ _ _ hg ?_ hos ?_ ?_ h
      · exact ⟨ok.probed, ok.readOk, by simp, fun _ _ => hr, by simp⟩
      · exact hw
      · simp [parseNow, hr, hp]
    | returnIfParseErr =>
      simp only [guarded, Bool.and_eq_true, beq_iff_eq] at hg
      simp only [exec, hpe] at h
      refine ih _ _ _ _ _ hg.2 ?_ hos hw hpe h
      exact ⟨ok.probed, fun _ => hr, by simp, by simp, by simp⟩
    | returnSubErr =>
      simp only [guarded] at hg
      simp only [exec] at h
      have hf : (os.head?.getD (0, false)).2 = false := by
        cases os with
        | nil => rfl
        | cons o t => exact hos o (by simp)
      simp only [hf, Bool.false_eq_true, if_false] at h
      refine ih _ _ _ _ _ hg ?_ hos' hw hpe h
      exact ⟨ok.probed, ok.readOk, by simp, by simp, by simp⟩
    | other s => simp [guarded] at hg

/-- **main-block verdict**: on fine input, a guarded main block entered after `n` body writes
    against `StickyW k` returns — success with all calls succeeded, or the writer's error after a
    call failed; it never falls through. -/
theorem main_block_verdict (blk : List XAtom) (hg : guarded {} blk = true) (hm : isMain blk = true)
    (os : Oracle) (hos : ∀ o ∈ os, o.2 = false) (n k : Nat) :
    let env : Env := { rerr := none, lex := Err.eof, parseRes := none }
    let r := exec env blk os { w := { k := k, calls := n } }
    (r.1 = .ret none ∧ r.2.w.calls < k) ∨ (r.1 = .ret (some Err.writer) ∧ k ≤ r.2.w.calls) := by
  intro env r
  have hk : r.2.w.k = k := exec_k env blk os _
  have hlast : blk.getLast? = some .returnNil ∨ blk.getLast? = some .returnLexErr := by
    simp only [isMain, Bool.and_eq_true, Bool.or_eq_true, beq_iff_eq] at hm
    exact hm.2
  cases hr : r with
  | mk o st' =>
    have hr' : exec env blk os { w := { k := k, calls := n } } = (o, st') := hr
    rw [hr] at hk
    cases o with
    | fall => exact absurd hr' (exec_main_returns env blk os _ st' hlast)
    | ret e =>
      cases e with
      | none =>
        left
        have := (exec_success env (by simp [env]) blk {} os _ _ hg (scanOk_init _ _) hr').1
        simp only at hk
        exact ⟨rfl, by simp only; omega⟩
      | some e =>
        right
        have := exec_healthy env rfl rfl rfl blk {} os _ _ e hg (scanOk_init _ _) hos
          (by simp) rfl hr'
        simp only at hk
        exact ⟨by rw [this.1], by simp only; omega⟩

/-! ### main theorem -/

/-- **C14_main** (minify call): for every package skeleton satisfying `wfExit`, every sequence of
    blocks/writes/oracle answers, every failure point `k` of a sticky writer and every reader
    (failed with a non-EOF error or not): if a `Write` call made during the run failed, or the
    reader failed, the call does not report success; and success implies that every `Write` call
    (incl. the probe) had succeeded. Instantiated for the six regenerated skeletons. -/
theorem C14_main (p : ExitPkg) (hp : p ∈ Verif.Gen.ExitPaths.all) (env : Env)
    (hne : env.rerr ≠ some Err.eof) (segs : List Seg) (k : Nat) (o : Out) (st' : St)
    (h : runPkg env p segs { w := { k := k } } = (o, st')) :
    (st'.w.k ≤ st'.w.calls ∨ env.rerr ≠ none) → o ≠ .ret none := by
  have hwf := all_packages_ok p hp
  intro hfail ho
  subst ho
  have := runPkg_success p hwf env hne segs _ _ h
  rcases hfail with hf | hf
  · omega
  · exact hf this.2

/-- non-vacuity: the xml skeleton, 3 body writes, writer failing from its 2nd call: the probe reports it -/
example : (runPkg { rerr := none, lex := .eof, parseRes := none } Verif.Gen.ExitPaths.xml
    [{ pre := 3, blk := 0, os := [] }] { w := { k := 2 } }).1 = .ret (some Err.writer) := by decide
/-- … failing exactly at the probe (4th call) -/
example : (runPkg { rerr := none, lex := .eof, parseRes := none } Verif.Gen.ExitPaths.xml
    [{ pre := 3, blk := 0, os := [] }] { w := { k := 4 } }).1 = .ret (some Err.writer) := by decide
/-- … healthy writer: success -/
example : (runPkg { rerr := none, lex := .eof, parseRes := none } Verif.Gen.ExitPaths.xml
    [{ pre := 3, blk := 0, os := [] }] { w := { k := 5 } }).1 = .ret none := by decide
/-- … failed reader: its error comes back -/
example : (runPkg { rerr := some .reader, lex := .eof, parseRes := none } Verif.Gen.ExitPaths.js
    [{ pre := 0, blk := 0, os := [] }] { w := { k := 9 } }).1 = .ret (some Err.reader) := by decide
/-- a skeleton without the probe is rejected -/
example : guarded {} [.returnNilIfEOF, .returnLexErr] = false := by decide
/-- … and so is a write after the probe -/
example : guarded {} [.probeWrite, .returnIfErr, .work, .returnNilIfEOF, .returnLexErr] = false := by decide

/-! ### through the `Writer` wrapper (transition system of C12) -/

/-- error codes of this model as minifier errors of the stream model -/
def errCode : Err → Verif.Model.Stream.Err
  | .writer => .minifier 0 | .reader => .minifier 1 | .syntax => .minifier 2
  | .eof => .minifier 3 | .sub => .minifier 4

section
open Verif.Model.Stream hiding Err
open Verif.Props.C12 Verif.Proofs.Stream

/-- the minifier behind `m.Writer(mediatype, w)` when its run against the (failing) writer `w`
    writes `out` and ends with verdict `o` -/
def asMinFn (out : Bytes) (o : Out) : MinFn :=
  fun _ => (out, match o with | .ret (some e) => some (errCode e) | _ => none)

/-- **C14 through `m.Writer`**: whatever the `Minify` call inside the goroutine returns — in
    particular the sticky writer's error, which by `C14_main` it must return when a write failed —
    is what `Close` returns, under every schedule and every chunking of the producer's writes. -/
theorem writer_close_returns_minifier_error (out : Bytes) (e : Err) (chunks : List Bytes)
    (cs : List Choice) (r : Option Verif.Model.Stream.Err)
    (h : (wrun Verif.Gen.Wrappers.skel (some (asMinFn out (.ret (some e))))
            (winit Verif.Gen.Wrappers.skel.writer chunks) cs).cres = some r) :
    r = some (errCode e) := by
  have := ((writer_safe _ gen_wfWriter (some (asMinFn out (.ret (some e)))) chunks cs).2 r h).2.1
  simpa [plain, asMinFn] using this

/-- **Close always returns**: in every reachable state of the `Writer` system in which `Close` has
    not returned some thread can step (no deadlock — also when no minifier exists and the goroutine
    ends without reading), and every step decreases a measure bounded by the input size (no
    livelock); so every maximal run ends with `Close` returned. -/
theorem writer_close_always_returns (mf : Option MinFn) (chunks : List Bytes) (s : WState)
    (hr : WReach Verif.Gen.Wrappers.skel mf chunks s) :
    (wterminal Verif.Gen.Wrappers.skel s = false → ∃ c, (wstep Verif.Gen.Wrappers.skel mf s c).isSome = true) ∧
    (∀ c s', wstep Verif.Gen.Wrappers.skel mf s c = some s' → wmeasure s' < wmeasure s) :=
  ⟨writer_progress _ gen_wfWriter mf chunks s hr,
   fun c s' h => writer_step_decreases _ gen_wfWriter mf chunks s s' hr c h⟩

end

end Verif.Props.C14

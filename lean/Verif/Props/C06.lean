import Verif.Proofs.Xml
/-!
# C06 — XML minification preserves the infoset up to insignificant white space

Property theorems only.  Model: `Verif.Model.Xml` (loop of `/repo/xml/xml.go` over the token stream of the
dependency lexer, `parse.ReplaceEntities…`, `EscapeAttrVal`, `EscapeCDATAVal`, regenerated tables
`Verif.Gen.XmlTables`).  Specification: `Verif.Spec.Xml` (infoset as an event stream, `wsEquiv`, grammar of
character data and attribute values, triggers of the known findings).  Helper lemmas: `Verif.Proofs.Xml`.

Hypotheses used throughout: `WfTokP` (token contents follow the XML 1.0 grammar: character data and
attribute values are sequences of literal bytes and references) and `lexShape` (contract of the dependency
lexer: `>` and `/>` only follow a start tag and its attributes).
-/
namespace Verif.Props.C06
open Verif.Xml (XTok)
open Verif.Spec.Xml
open Verif.Model.Xml
open Verif.Gen
open Verif.Proofs.Xml

/-! ## the regenerated tables of `/repo/xml/table.go` -/

/-- Every row of `xml.EntitiesMap` maps a name to the single character that XML 1.0 §4.6 predefines for it,
and that character needs no escaping. -/
theorem entities_table_sound : XmlTables.entities.all entRowOk = true := entities_sound

/-- Every row of `xml.TextRevEntitiesMap` escapes a byte by a reference that stands for that byte, and the
table escapes `&` and `<`. -/
theorem textRev_table_sound : RevOk XmlTables.textRev := textRev_sound

/-- The same for `xml.AttrRevEntitiesMap`, which additionally escapes TAB, LF and CR. -/
theorem attrRev_table_sound : RevOk XmlTables.attrRev ∧
    (XmlTables.attrRev.lookup '\t').isSome = true ∧ (XmlTables.attrRev.lookup '\n').isSome = true ∧
    (XmlTables.attrRev.lookup '\r').isSome = true := ⟨attrRev_sound, attrRev_ws⟩

/-! ## per-token theorems -/

/-- The specification decoder agrees with the grammar: a sequence of units decodes to the units' values
(validation of `Spec.decodeGo` against productions [14]/[10]/[66]/[68]). -/
theorem decoder_agrees_with_grammar (attr : Bool) (us : List XUnit) (h : us.all XUnit.ok = true) :
    decodeGo attr 0 (flat us) = us.map (XUnit.val attr) := by
  have := decodeGo_flat attr us h []
  simpa [decodeGo] using this

/-- **attr_roundtrip / xml_attr_value** (full): for every well-formed attribute value literal the attribute
branch (`ReplaceEntities` with `EntitiesMap`/`AttrRevEntitiesMap`, then `EscapeAttrVal`) writes a well-formed
literal (quoted, no `<`, no bare `&`, the chosen quote does not occur inside) with the same XML 1.0 §3.3.3
normalised value. -/
theorem xml_attr_value (v : List Char) (hv : WfAttrVal v) :
    attrValue (attrOut v) = attrValue v ∧ WfAttrVal (attrOut v) := attr_token v hv

example : WfAttrVal "\"x&#60;y &#38; z&#10;&quot;'\"".toList :=
  ⟨'"', [.lit 'x', .dec ['6', '0'], .lit 'y', .lit ' ', .dec ['3', '8'], .lit ' ', .lit 'z', .dec ['1', '0'],
    .named ['q', 'u', 'o', 't'], .lit '\''], Or.inl rfl, by decide, by decide, by decide⟩

/-- `EscapeAttrVal` alone: any sequence of units is wrapped into a well-formed literal with the same value. -/
theorem attr_escape (us : List XUnit) (hok : us.all XUnit.ok = true) :
    attrValue (escapeAttrVal (flat us)) = us.map (XUnit.val true) ∧ WfAttrVal (escapeAttrVal (flat us)) :=
  escapeAttrVal_flat us hok

/-- **cdata_chars**: a CDATA section that is converted to text keeps exactly its characters, the text is
well-formed character data, and it is not longer than the section (12 bytes of delimiters). -/
theorem cdata_chars (t e : List Char) (ht : WfCDataText t) (h : escapeCDATAVal t = some e) :
    decodeText e = t.map lit ∧ e.length ≤ t.length + 12 ∧ (t ≠ [] → WfText e) := cdata_token t e ht h

example : WfCDataText "a <b> & c".toList ∧ (escapeCDATAVal "a <b> & c".toList).isSome = true := by
  refine ⟨?_, by decide⟩
  intro c hc
  revert c
  decide

/-- **text_ws** (per token): `ReplaceMultipleWhitespaceAndEntities` with the XML tables changes the decoded
character data of a text token only by collapsing white space runs — in every context (`p`, `ps`, `E`). -/
theorem text_ws (d : List Char) (hd : WfText d) (keep p ps : Bool) (E : List Ev) :
    canonGo keep p ps ((decodeText (textRepl d)).map .ch ++ E) =
      canonGo keep p ps ((decodeText d).map .ch ++ E) := text_repl_equiv d hd keep p ps E

example : WfText "a  &#60;\n &gt; b&amp;".toList :=
  ⟨[.lit 'a', .lit ' ', .lit ' ', .dec ['6', '0'], .lit '\n', .lit ' ', .named ['g', 't'], .lit ' ', .lit 'b',
    .named ['a', 'm', 'p']], by decide, by decide, by decide⟩

/-! ## the loop -/

/-- **xml_infoset** (partial; guards = triggers of the open known findings K-C06-4 and K-C06-6):
for every token stream whose tokens follow the grammar, the infoset of the emitted tokens equals the infoset
of the input up to insignificant white space: same element starts/ends and names, same attributes with the same
normalised values, same PIs and DOCTYPE, and per text run the same characters where white space runs may be
collapsed and white space next to a tag (`keepWhitespace = false`) or a document boundary may be dropped — no
word is joined, split or dropped.  Proof: induction over the token list with `omitSpace` as invariant. -/
theorem xml_infoset_partial (o : XmlOpts) (ts : List XTok) (hwf : ∀ x ∈ ts, WfTokP x)
    (hshape : lexShape false ts = true) (g4 : trigCdataJoin ts = false)
    (g6 : trigKeepEmpty o.keepWhitespace ts = false) :
    wsEquiv o.keepWhitespace (infoset (emit o true ts)) (infoset ts) :=
  loop_aux o ts.length ts (Nat.le_refl _) hwf true false false true hshape
    (fun h => absurd h (by simp)) (fun _ => Or.inl rfl) g4 g6

/-- the full statement (no guards) -/
def xml_infoset_full : Prop :=
  ∀ (o : XmlOpts) (ts : List XTok), (∀ x ∈ ts, WfTokP x) → lexShape false ts = true →
    wsEquiv o.keepWhitespace (infoset (emit o true ts)) (infoset ts)

/-- tokens of `<a>x <![CDATA[y]]> z</a>` -/
def exJoin : List XTok :=
  [.startTag ['a'], .startTagClose, .text ['x', ' '],
   .cdata ['<', '!', '[', 'C', 'D', 'A', 'T', 'A', '[', 'y', ']', ']', '>'] ['y'], .text [' ', 'z'],
   .endTag ['<', '/', 'a', '>'] ['a']]

theorem exJoin_wf : ∀ x ∈ exJoin, WfTokP x := by
  intro x hx
  simp only [exJoin, List.mem_cons, List.mem_nil_iff, or_false] at hx
  rcases hx with rfl | rfl | rfl | rfl | rfl | rfl
  · trivial
  · trivial
  · exact ⟨[.lit 'x', .lit ' '], by decide, by decide, by decide⟩
  · intro c hc; revert c; decide
  · exact ⟨[.lit ' ', .lit 'z'], by decide, by decide, by decide⟩
  · trivial

/-- K-C06-4: `<a>x <![CDATA[y]]> z</a>` is minified to `<a>x yz</a>` — the words `y` and `z` are joined. -/
theorem xml_infoset_counterexample : ¬ xml_infoset_full := fun h =>
  absurd (h ⟨false⟩ exJoin exJoin_wf (by decide)) (by decide)

/-- tokens of `<b> </b>` -/
def exKeep : List XTok :=
  [.startTag ['b'], .startTagClose, .text [' '], .endTag ['<', '/', 'b', '>'] ['b']]

theorem exKeep_wf : ∀ x ∈ exKeep, WfTokP x := by
  intro x hx
  simp only [exKeep, List.mem_cons, List.mem_nil_iff, or_false] at hx
  rcases hx with rfl | rfl | rfl | rfl
  · trivial
  · trivial
  · exact ⟨[.lit ' '], by decide, by decide, by decide⟩
  · trivial

/-- K-C06-6: with `keepWhitespace` the element `<b> </b>` is collapsed to `<b/>`: the white space next to the
tags is removed entirely. -/
theorem keep_ws_counterexample :
    ¬ wsEquiv true (infoset (emit ⟨true⟩ true exKeep)) (infoset exKeep) := by decide

/-- **keep_ws_never_removed**: with `keepWhitespace` white space next to an element tag is never removed
entirely (`canon true` keeps, for every tag and for every character after a tag, the bit "preceded by white
space"; only the document boundaries are soft).  Guard: K-C06-4, K-C06-6. -/
theorem keep_ws_never_removed (ts : List XTok) (hwf : ∀ x ∈ ts, WfTokP x)
    (hshape : lexShape false ts = true) (g4 : trigCdataJoin ts = false) (g6 : trigKeepEmpty true ts = false) :
    canon true (infoset (emit ⟨true⟩ true ts)) = canon true (infoset ts) :=
  xml_infoset_partial ⟨true⟩ ts hwf hshape g4 g6

/-- tokens of `<a k="v&#9;"> x <b/> y <!--c--> z</a>` -/
def exOk : List XTok :=
  [.startTag ['a'], .attr ['k'] ['"', 'v', '&', '#', '9', ';', '"'], .startTagClose, .text [' ', 'x', ' '],
   .startTag ['b'], .startTagCloseVoid, .text [' ', 'y', ' '], .comment ['<', '!', '-', '-', 'c', '-', '-', '>'],
   .text [' ', 'z'], .endTag ['<', '/', 'a', '>'] ['a']]

/-- the hypotheses of `xml_infoset_partial` / `keep_ws_never_removed` are satisfiable by a document with mixed
content, an attribute with a reference, a comment and white space next to tags -/
example : (∀ x ∈ exOk, WfTokP x) ∧ lexShape false exOk = true ∧ trigCdataJoin exOk = false ∧
    trigKeepEmpty true exOk = false ∧ trigKeepEmpty false exOk = false ∧
    xmlMinify ⟨false⟩ exOk = "<a k=\"v&#9;\">x<b/> y z</a>".toList ∧
    xmlMinify ⟨true⟩ exOk = "<a k=\"v&#9;\"> x <b/> y z</a>".toList := by
  refine ⟨?_, by decide, by decide, by decide, by decide, by decide, by decide⟩
  intro x hx
  simp only [exOk, List.mem_cons, List.mem_nil_iff, or_false] at hx
  rcases hx with rfl | rfl | rfl | rfl | rfl | rfl | rfl | rfl | rfl | rfl
  · trivial
  · exact ⟨'"', [.lit 'v', .dec ['9']], Or.inl rfl, by decide, by decide, by decide⟩
  · trivial
  · exact ⟨[.lit ' ', .lit 'x', .lit ' '], by decide, by decide, by decide⟩
  · trivial
  · trivial
  · exact ⟨[.lit ' ', .lit 'y', .lit ' '], by decide, by decide, by decide⟩
  · trivial
  · exact ⟨[.lit ' ', .lit 'z'], by decide, by decide, by decide⟩
  · trivial

/-- **comments_only_removed** (full, no guard): every item of the infoset other than character data — element
starts and ends, attributes with their normalised values, processing instructions, DOCTYPE — is emitted, in
order and unchanged; comments (which are not part of `infoset`) are the only tokens that disappear without
trace, and nothing is added. -/
theorem comments_only_removed (o : XmlOpts) (om : Bool) (ts : List XTok) (hwf : ∀ x ∈ ts, WfTokP x) :
    marks (infoset (emit o om ts)) = marks (infoset ts) :=
  marks_aux o ts.length ts (Nat.le_refl _) hwf om

/-- **xml_wellformed** (partial: `]]>` is not covered, see the counterexample): every emitted text token is
character data according to the grammar (no `<`, `&` only as the start of a reference to a legal character or
an entity), every emitted attribute value is a quoted literal without `<`, bare `&` or its own quote. -/
theorem xml_wellformed_partial (o : XmlOpts) (om : Bool) (ts : List XTok) (hwf : ∀ x ∈ ts, WfTokP x) :
    ∀ y ∈ emit o om ts, WfOutP y :=
  wfout_aux o ts.length ts (Nat.le_refl _) hwf om

/-- **xml_nesting** (full): element nesting is preserved — if in the input every end tag closes the innermost
open element under its name, `/>` closes the element just opened and nothing stays open, the same holds for the
emitted tokens (in particular after collapsing `<a></a>` to `<a/>`). -/
theorem xml_nesting (o : XmlOpts) (om : Bool) (ts : List XTok) (st : List (List Char))
    (h : nest st ts = true) : nest st (emit o om ts) = true :=
  nest_aux o ts.length ts (Nat.le_refl _) om st h

example : nest [] exOk = true ∧ nest [] exJoin = true := by decide

/-- the full statement: additionally the emitted character data never contains `]]>` -/
def xml_wellformed_full : Prop :=
  ∀ (o : XmlOpts) (ts : List XTok), (∀ x ∈ ts, WfTokP x) → lexShape false ts = true →
    (∀ d, XTok.text d ∈ ts → hasCdEnd d = false) →
    (∀ y ∈ emit o true ts, WfOutP y) ∧ hasCdEndD (infoset (emit o true ts)) = false ∧
      ∀ d, XTok.text d ∈ emit o true ts → hasCdEnd d = false

/-- tokens of `<a>]]&gt;</a>` -/
def exCdEnd : List XTok :=
  [.startTag ['a'], .startTagClose, .text [']', ']', '&', 'g', 't', ';'], .endTag ['<', '/', 'a', '>'] ['a']]

/-- K-C06-3: `<a>]]&gt;</a>` is minified to `<a>]]></a>`, which is not well-formed. -/
theorem xml_wellformed_counterexample : ¬ xml_wellformed_full := fun h => by
  have := h ⟨false⟩ exCdEnd (by
      intro x hx
      simp only [exCdEnd, List.mem_cons, List.mem_nil_iff, or_false] at hx
      rcases hx with rfl | rfl | rfl | rfl
      · trivial
      · trivial
      · exact ⟨[.lit ']', .lit ']', .named ['g', 't']], by decide, by decide, by decide⟩
      · trivial) (by decide) (by
      intro d hd
      simp [exCdEnd] at hd
      subst hd; decide)
  exact absurd (this.2.2 [']', ']', '>'] (by decide)) (by decide)

end Verif.Props.C06

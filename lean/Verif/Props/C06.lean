import Verif.Proofs.Xml
/-!
# C06 — XML minification preserves the infoset up to insignificant white space

Property theorems only.  Model: `Verif.Model.Xml` (loop of `/repo/xml/xml.go` over the token stream of the
dependency lexer, `parse.ReplaceEntities…`, `EscapeAttrVal`, `EscapeCDATAVal`, regenerated tables
`Verif.Gen.XmlTables`).  Specification: `Verif.Spec.Xml` (infoset as an event stream, `wsEquiv`, grammar of
character data and attribute values, triggers of the known findings).  Helper lemmas: `Verif.Proofs.Xml`.

Hypotheses used throughout: `WfTokP` (token contents follow the XML 1.0 grammar: character data and
attribute values are sequences of literal bytes and references) and `lexShape` (contract of the dependency
lexer: `>` and `/>` only follow a start tag and its attributes).  All theorems are at full strength for
/repo ≥ ce8fb25 (the former guards K-C06-3…6 are fixed there).
-/
namespace Verif.Props.C06
open Verif.Xml (XTok)
open Verif.Spec.Xml
open Verif.Model.Xml
open Verif.Gen
open Verif.Proofs.Xml

/-! ## the regenerated tables of `/repo/xml/table.go` -/

/-- Every row of `xml.EntitiesMap` maps a name to the single character that XML 1.0 §4.6 predefines for it,
and that character needs no escaping. -/
theorem entities_table_sound : XmlTables.entities.all entRowOk = true := entities_sound

/-- Every row of `xml.TextRevEntitiesMap` escapes a byte by a reference that stands for that byte, and the
table escapes `&` and `<`. -/
theorem textRev_table_sound : RevOk XmlTables.textRev := textRev_sound

/-- The same for `xml.AttrRevEntitiesMap`, which additionally escapes TAB, LF and CR. -/
theorem attrRev_table_sound : RevOk XmlTables.attrRev ∧
    (XmlTables.attrRev.lookup '\t').isSome = true ∧ (XmlTables.attrRev.lookup '\n').isSome = true ∧
    (XmlTables.attrRev.lookup '\r').isSome = true := ⟨attrRev_sound, attrRev_ws⟩

/-! ## per-token theorems -/

/-- The specification decoder agrees with the grammar: a sequence of units decodes to the units' values
(validation of `Spec.decodeGo` against productions [14]/[10]/[66]/[68]). -/
theorem decoder_agrees_with_grammar (attr : Bool) (us : List XUnit) (h : us.all XUnit.ok = true) :
    decodeGo attr 0 (flat us) = us.map (XUnit.val attr) := by
  have := decodeGo_flat attr us h []
  simpa [decodeGo] using this

/-- **attr_roundtrip / xml_attr_value** (full): for every well-formed attribute value literal the attribute
branch (`ReplaceEntities` with `EntitiesMap`/`AttrRevEntitiesMap`, then `EscapeAttrVal`) writes a well-formed
literal (quoted, no `<`, no bare `&`, the chosen quote does not occur inside) with the same XML 1.0 §3.3.3
normalised value. -/
theorem xml_attr_value (v : List Char) (hv : WfAttrVal v) :
    attrValue (attrOut v) = attrValue v ∧ WfAttrVal (attrOut v) := attr_token v hv

example : WfAttrVal "\"x&#60;y &#38; z&#10;&quot;'\"".toList :=
  ⟨'"', [.lit 'x', .dec ['6', '0'], .lit 'y', .lit ' ', .dec ['3', '8'], .lit ' ', .lit 'z', .dec ['1', '0'],
    .named ['q', 'u', 'o', 't'], .lit '\''], Or.inl rfl, by decide, by decide, by decide⟩

/-- `EscapeAttrVal` alone: any sequence of units is wrapped into a well-formed literal with the same value. -/
theorem attr_escape (us : List XUnit) (hok : us.all XUnit.ok = true) :
    attrValue (escapeAttrVal (flat us)) = us.map (XUnit.val true) ∧ WfAttrVal (escapeAttrVal (flat us)) :=
  escapeAttrVal_flat us hok

/-- **cdata_chars**: a CDATA section that is converted to text keeps exactly its characters, the text is
well-formed character data, and it is not longer than the section (12 bytes of delimiters). -/
theorem cdata_chars (t e : List Char) (ht : WfCDataText t) (h : escapeCDATAVal t = some e) :
    decodeText e = t.map lit ∧ e.length ≤ t.length + 12 ∧ (t ≠ [] → WfText e) := cdata_token t e ht h

example : WfCDataText "a <b> & c".toList ∧ (escapeCDATAVal "a <b> & c".toList).isSome = true := by
  refine ⟨?_, by decide⟩
  intro c hc
  revert c
  decide

/-- **text_ws** (per token): `ReplaceMultipleWhitespaceAndEntities` with the XML tables changes the decoded
character data of a text token only by collapsing white space runs — in every context (`p`, `ps`, `E`). -/
theorem text_ws (d : List Char) (hd : WfText d) (keep p ps : Bool) (E : List Ev) :
    canonGo keep p ps ((decodeText (textRepl d)).map .ch ++ E) =
      canonGo keep p ps ((decodeText d).map .ch ++ E) := text_repl_equiv d hd keep p ps E

example : WfText "a  &#60;\n &gt; b&amp;".toList :=
  ⟨[.lit 'a', .lit ' ', .lit ' ', .dec ['6', '0'], .lit '\n', .lit ' ', .named ['g', 't'], .lit ' ', .lit 'b',
    .named ['a', 'm', 'p']], by decide, by decide, by decide⟩

/-- **cdend_escape**: the `]]>` guard of `xml.go` (`escapeCDEnd`: a `>` after two `]` is written `&gt;`) does not
change the decoded character data and keeps the data well-formed. -/
theorem cdend_escape (n : Nat) (d : List Char) (h : d = [] ∨ WfText d) :
    decodeText (escCD n d) = decodeText d ∧ (escCD n d = [] ∨ WfText (escCD n d)) :=
  ⟨(escCD_text n d h).1, (escCD_text n d h).2.1⟩

/-! ## the loop -/

/-- **xml_infoset** (full): for every token stream whose tokens follow the grammar and whose shape is the
lexer's, the infoset of the emitted tokens equals the infoset of the input up to insignificant white space:
same element starts/ends and names, same attributes with the same normalised values, same PIs and DOCTYPE, and
per text run the same characters where white space runs may be collapsed and white space next to a tag
(`keepWhitespace = false`) or a document boundary may be dropped — no word is joined, split or dropped.
Proof: induction over the token list; invariant: `omitSpace` is set only when white space is pending in the
output or the previous solid is soft. -/
theorem xml_infoset (o : XmlOpts) (ts : List XTok) (hwf : ∀ x ∈ ts, WfTokP x)
    (hshape : lexShape false ts = true) :
    wsEquiv o.keepWhitespace (infoset (emit o true ts)) (infoset ts) :=
  loop_aux o ts.length ts (Nat.le_refl _) hwf true 0 false false false true hshape
    (fun h => absurd h (by simp)) (fun _ => Or.inl rfl)

/-- **keep_ws_never_removed** (full): with `keepWhitespace` white space next to an element tag is never removed
entirely (`canon true` keeps, for every tag and for every character after a tag, the bit "preceded by white
space"; only the document boundaries are soft). -/
theorem keep_ws_never_removed (ts : List XTok) (hwf : ∀ x ∈ ts, WfTokP x)
    (hshape : lexShape false ts = true) :
    canon true (infoset (emit ⟨true⟩ true ts)) = canon true (infoset ts) :=
  xml_infoset ⟨true⟩ ts hwf hshape

/-- tokens of `<a>x <![CDATA[y]]> z</a>` (former finding K-C06-4) -/
def exJoin : List XTok :=
  [.startTag ['a'], .startTagClose, .text ['x', ' '],
   .cdata ['<', '!', '[', 'C', 'D', 'A', 'T', 'A', '[', 'y', ']', ']', '>'] ['y'], .text [' ', 'z'],
   .endTag ['<', '/', 'a', '>'] ['a']]

/-- tokens of `<b> </b>` (former finding K-C06-6) -/
def exKeep : List XTok :=
  [.startTag ['b'], .startTagClose, .text [' '], .endTag ['<', '/', 'b', '>'] ['b']]

/-- tokens of `<a>]]&gt;</a>` (former finding K-C06-3) -/
def exCdEnd : List XTok :=
  [.startTag ['a'], .startTagClose, .text [']', ']', '&', 'g', 't', ';'], .endTag ['<', '/', 'a', '>'] ['a']]

/-- tokens of `<?php echo "x"; ?><a/>` (former finding K-C06-5) -/
def exPi : List XTok :=
  [.startTagPI ['p', 'h', 'p'], .attrBare [' ', 'e', 'c', 'h', 'o'] ['e', 'c', 'h', 'o'],
   .attrBare [' ', '"', 'x', '"', ';'] ['"', 'x', '"', ';'], .startTagClosePI, .startTag ['a'], .startTagCloseVoid]

/-- the inputs of the findings fixed in /repo are minified correctly by the model of the current code -/
example : xmlMinify ⟨false⟩ exJoin = "<a>x y z</a>".toList ∧ xmlMinify ⟨true⟩ exJoin = "<a>x y z</a>".toList ∧
    xmlMinify ⟨true⟩ exKeep = "<b> </b>".toList ∧ xmlMinify ⟨false⟩ exKeep = "<b/>".toList ∧
    xmlMinify ⟨false⟩ exCdEnd = "<a>]]&gt;</a>".toList ∧
    xmlMinify ⟨false⟩ exPi = "<?php echo \"x\";?><a/>".toList := by decide

/-- tokens of `<a k="v&#9;"> x <b/> y <!--c--> z</a>` -/
def exOk : List XTok :=
  [.startTag ['a'], .attr ['k'] ['"', 'v', '&', '#', '9', ';', '"'], .startTagClose, .text [' ', 'x', ' '],
   .startTag ['b'], .startTagCloseVoid, .text [' ', 'y', ' '], .comment ['<', '!', '-', '-', 'c', '-', '-', '>'],
   .text [' ', 'z'], .endTag ['<', '/', 'a', '>'] ['a']]

/-- the hypotheses of `xml_infoset` / `keep_ws_never_removed` / `xml_wellformed` are satisfiable by a document
with mixed content, an attribute with a reference, a comment and white space next to tags -/
example : (∀ x ∈ exOk, WfTokP x) ∧ lexShape false exOk = true ∧ bareInPI false exOk = true ∧
    xmlMinify ⟨false⟩ exOk = "<a k=\"v&#9;\">x<b/> y z</a>".toList ∧
    xmlMinify ⟨true⟩ exOk = "<a k=\"v&#9;\"> x <b/> y z</a>".toList := by
  refine ⟨?_, by decide, by decide, by decide, by decide⟩
  intro x hx
  simp only [exOk, List.mem_cons, List.mem_nil_iff, or_false] at hx
  rcases hx with rfl | rfl | rfl | rfl | rfl | rfl | rfl | rfl | rfl | rfl
  · trivial
  · exact ⟨'"', [.lit 'v', .dec ['9']], Or.inl rfl, by decide, by decide, by decide⟩
  · trivial
  · exact ⟨[.lit ' ', .lit 'x', .lit ' '], by decide, by decide, by decide⟩
  · trivial
  · trivial
  · exact ⟨[.lit ' ', .lit 'y', .lit ' '], by decide, by decide, by decide⟩
  · trivial
  · exact ⟨[.lit ' ', .lit 'z'], by decide, by decide, by decide⟩
  · trivial

/-- **comments_only_removed** (full): every item of the infoset other than character data — element starts and
ends, attributes with their normalised values, processing instructions, DOCTYPE — is emitted, in order and
unchanged; comments (which are not part of `infoset`) are the only tokens that disappear without trace, and
nothing is added. -/
theorem comments_only_removed (o : XmlOpts) (om : Bool) (ts : List XTok) (hwf : ∀ x ∈ ts, WfTokP x) :
    marks (infoset (emit o om ts)) = marks (infoset ts) :=
  marks_aux o ts.length ts (Nat.le_refl _) hwf om 0 false

/-- **xml_wellformed** (full): every emitted text token is character data according to the grammar (no `<`, `&`
only as the start of a reference to a legal character or an entity), every emitted attribute value is a quoted
literal without `<`, bare `&` or its own quote, and no run of emitted character data (consecutive text tokens,
which is how the bytes are read back) contains `]]>`.  `bareInPI`: attributes without value only occur as
words of processing-instruction data (in an element they are not well-formed XML). -/
theorem xml_wellformed (o : XmlOpts) (ts : List XTok) (hwf : ∀ x ∈ ts, WfTokP x)
    (hpi : bareInPI false ts = true) :
    (∀ y ∈ emit o true ts, WfOutP y) ∧ rawCdEnd (emit o true ts) = false := by
  refine ⟨wfout_aux o ts.length ts (Nat.le_refl _) hwf true 0 false hpi, ?_⟩
  have h := rawfree_aux o ts.length ts (Nat.le_refl _) true 0 false [] rfl rfl
  simp only [rawCdEnd, List.any_eq_false]
  intro run hr
  rw [← cdAuto_hasCdEnd]
  simpa using h run hr

example : rawCdEnd [XTok.text [']', ']'], XTok.comment [], XTok.text ['>']] = true ∧
    rawCdEnd (emit ⟨false⟩ true [XTok.text [']', ']'], XTok.comment [], XTok.text ['>']]) = false := by decide

/-- **xml_nesting** (full): element nesting is preserved — if in the input every end tag closes the innermost
open element under its name, `/>` closes the element just opened and nothing stays open, the same holds for the
emitted tokens (in particular after collapsing `<a></a>` to `<a/>`). -/
theorem xml_nesting (o : XmlOpts) (om : Bool) (ts : List XTok) (st : List (List Char))
    (h : nest st ts = true) : nest st (emit o om ts) = true :=
  nest_aux o ts.length ts (Nat.le_refl _) om 0 false st h

example : nest [] exOk = true ∧ nest [] exJoin = true := by decide

end Verif.Props.C06

import Verif.Proofs.Xml
import Verif.Proofs.XmlBoundary
/-!
# C06 — XML minification preserves the infoset up to insignificant white space

Property theorems only.  Model: `Verif.Model.Xml` (loop of `/repo/xml/xml.go` over the token stream of the
dependency lexer, `parse.ReplaceEntities…`, `EscapeAttrVal`, `EscapeCDATAVal`, regenerated tables
`Verif.Gen.XmlTables`).  Specification: `Verif.Spec.Xml` (infoset as an event stream, `wsEquiv`, grammar of
character data and attribute values, triggers of the known findings).  Helper lemmas: `Verif.Proofs.Xml`.

Hypotheses used throughout: `WfTokP` (token contents follow the XML 1.0 grammar: character data and
attribute values are sequences of literal bytes and references) and `lexShape` (contract of the dependency
lexer: `>` and `/>` only follow a start tag and its attributes).  All theorems are at full strength for
/repo ≥ ce8fb25 (the former guards K-C06-3…6 are fixed there).
-/
namespace Verif.Props.C06
open Verif.Xml (XTok)
open Verif.Spec.Xml
open Verif.Model.Xml
open Verif.Gen
open Verif.Proofs.Xml
open Verif.Proofs.XmlBoundary

/-! ## the regenerated tables of `/repo/xml/table.go` -/

/-- Every row of `xml.EntitiesMap` maps a name to the single character that XML 1.0 §4.6 predefines for it,
and that character needs no escaping. -/
theorem entities_table_sound : XmlTables.entities.all entRowOk = true := entities_sound

/-- Every row of `xml.TextRevEntitiesMap` escapes a byte by a reference that stands for that byte, and the
table escapes `&` and `<`. -/
theorem textRev_table_sound : RevOk XmlTables.textRev := textRev_sound

/-- The same for `xml.AttrRevEntitiesMap`, which additionally escapes TAB, LF and CR. -/
theorem attrRev_table_sound : RevOk XmlTables.attrRev ∧
    (XmlTables.attrRev.lookup '\t').isSome = true ∧ (XmlTables.attrRev.lookup '\n').isSome = true ∧
    (XmlTables.attrRev.lookup '\r').isSome = true := ⟨attrRev_sound, attrRev_ws⟩

/-! ## per-token theorems -/

/-- The specification decoder agrees with the grammar: a sequence of units decodes to the units' values
(validation of `Spec.decodeGo` against productions [14]/[10]/[66]/[68]). -/
theorem decoder_agrees_with_grammar (attr : Bool) (us : List XUnit) (h : us.all XUnit.ok = true) :
    decodeGo attr 0 (flat us) = us.map (XUnit.val attr) := by
  have := decodeGo_flat attr us h []
  simpa [decodeGo] using this

/-- **attr_roundtrip / xml_attr_value** (full): for every well-formed attribute value literal the attribute
branch (`ReplaceEntities` with `EntitiesMap`/`AttrRevEntitiesMap`, then `EscapeAttrVal`) writes a well-formed
literal (quoted, no `<`, no bare `&`, the chosen quote does not occur inside) with the same XML 1.0 §3.3.3
normalised value. -/
theorem xml_attr_value (v : List Char) (hv : WfAttrVal v) :
    attrValue (attrOut v) = attrValue v ∧ WfAttrVal (attrOut v) := attr_token v hv

example : WfAttrVal "\"x&#60;y &#38; z&#10;&quot;'\"".toList :=
  ⟨'"', [.lit 'x', .dec ['6', '0'], .lit 'y', .lit ' ', .dec ['3', '8'], .lit ' ', .lit 'z', .dec ['1', '0'],
    .named ['q', 'u', 'o', 't'], .lit '\''], Or.inl rfl, by decide, by decide, by decide⟩

/-- `EscapeAttrVal` alone: any sequence of units is wrapped into a well-formed literal with the same value. -/
theorem attr_escape (us : List XUnit) (hok : us.all XUnit.ok = true) :
    attrValue (escapeAttrVal (flat us)) = us.map (XUnit.val true) ∧ WfAttrVal (escapeAttrVal (flat us)) :=
  escapeAttrVal_flat us hok

/-- **cdata_chars**: a CDATA section that is converted to text keeps exactly its characters, the text is
well-formed character data, and it is not longer than the section (12 bytes of delimiters). -/
theorem cdata_chars (t e : List Char) (ht : WfCDataText t) (h : escapeCDATAVal t = some e) :
    decodeText e = t.map lit ∧ e.length ≤ t.length + 12 ∧ (t ≠ [] → WfText e) := cdata_token t e ht h

example : WfCDataText "a <b> & c".toList ∧ (escapeCDATAVal "a <b> & c".toList).isSome = true := by
  refine ⟨?_, by decide⟩
  intro c hc
  revert c
  decide

/-- **text_ws** (per token): `ReplaceMultipleWhitespaceAndEntities` with the XML tables changes the decoded
character data of a text token only by collapsing white space runs — in every context (`p`, `ps`, `E`). -/
theorem text_ws (d : List Char) (hd : WfText d) (keep p ps : Bool) (E : List Ev) :
    canonGo keep p ps ((decodeText (textRepl d)).map .ch ++ E) =
      canonGo keep p ps ((decodeText d).map .ch ++ E) := text_repl_equiv d hd keep p ps E

example : WfText "a  &#60;\n &gt; b&amp;".toList :=
  ⟨[.lit 'a', .lit ' ', .lit ' ', .dec ['6', '0'], .lit '\n', .lit ' ', .named ['g', 't'], .lit ' ', .lit 'b',
    .named ['a', 'm', 'p']], by decide, by decide, by decide⟩

/-- **cdend_escape**: the `]]>` guard of `xml.go` (`escapeCDEnd`: a `>` after two `]` is written `&gt;`) does not
change the decoded character data and keeps the data well-formed. -/
theorem cdend_escape (n : Nat) (d : List Char) (h : d = [] ∨ WfText d) :
    decodeText (escCD n d) = decodeText d ∧ (escCD n d = [] ∨ WfText (escCD n d)) :=
  ⟨(escCD_text n d h).1, (escCD_text n d h).2.1⟩

/-! ## the loop -/

/-- **xml_infoset** (full): for every token stream whose tokens follow the grammar and whose shape is the
lexer's, the infoset of the emitted tokens equals the infoset of the input up to insignificant white space:
same element starts/ends and names, same attributes with the same normalised values, same PIs and DOCTYPE, and
per text run the same characters where white space runs may be collapsed and white space next to a tag
(`keepWhitespace = false`) or a document boundary may be dropped — no word is joined, split or dropped.
Proof: induction over the token list; invariant: `omitSpace` is set only when white space is pending in the
output or the previous solid is soft. -/
theorem xml_infoset (o : XmlOpts) (ts : List XTok) (hwf : ∀ x ∈ ts, WfTokP x)
    (hshape : lexShape false ts = true) :
    wsEquiv o.keepWhitespace (infoset (emit o true ts)) (infoset ts) :=
  loop_aux o ts.length ts (Nat.le_refl _) hwf true 0 false false false true hshape
    (fun h => absurd h (by simp)) (fun _ => Or.inl rfl)

/-- **keep_ws_never_removed** (full): with `keepWhitespace` white space next to an element tag is never removed
entirely (`canon true` keeps, for every tag and for every character after a tag, the bit "preceded by white
space"; only the document boundaries are soft). -/
theorem keep_ws_never_removed (ts : List XTok) (hwf : ∀ x ∈ ts, WfTokP x)
    (hshape : lexShape false ts = true) :
    canon true (infoset (emit ⟨true⟩ true ts)) = canon true (infoset ts) :=
  xml_infoset ⟨true⟩ ts hwf hshape

/-- tokens of `<a>x <![CDATA[y]]> z</a>` (former finding K-C06-4) -/
def exJoin : List XTok :=
  [.startTag ['a'], .startTagClose, .text ['x', ' '],
   .cdata ['<', '!', '[', 'C', 'D', 'A', 'T', 'A', '[', 'y', ']', ']', '>'] ['y'], .text [' ', 'z'],
   .endTag ['<', '/', 'a', '>'] ['a']]

/-- tokens of `<b> </b>` (former finding K-C06-6) -/
def exKeep : List XTok :=
  [.startTag ['b'], .startTagClose, .text [' '], .endTag ['<', '/', 'b', '>'] ['b']]

/-- tokens of `<a>]]&gt;</a>` (former finding K-C06-3) -/
def exCdEnd : List XTok :=
  [.startTag ['a'], .startTagClose, .text [']', ']', '&', 'g', 't', ';'], .endTag ['<', '/', 'a', '>'] ['a']]

/-- tokens of `<?php echo "x"; ?><a/>` (former finding K-C06-5) -/
def exPi : List XTok :=
  [.startTagPI ['p', 'h', 'p'], .attrBare [' ', 'e', 'c', 'h', 'o'] ['e', 'c', 'h', 'o'],
   .attrBare [' ', '"', 'x', '"', ';'] ['"', 'x', '"', ';'], .startTagClosePI, .startTag ['a'], .startTagCloseVoid]

/-- the inputs of the findings fixed in /repo are minified correctly by the model of the current code -/
example : xmlMinify ⟨false⟩ exJoin = "<a>x y z</a>".toList ∧ xmlMinify ⟨true⟩ exJoin = "<a>x y z</a>".toList ∧
    xmlMinify ⟨true⟩ exKeep = "<b> </b>".toList ∧ xmlMinify ⟨false⟩ exKeep = "<b/>".toList ∧
    xmlMinify ⟨false⟩ exCdEnd = "<a>]]&gt;</a>".toList ∧
    xmlMinify ⟨false⟩ exPi = "<?php echo \"x\";?><a/>".toList := by decide

/-- tokens of `<a k="v&#9;"> x <b/> y <!--c--> z</a>` -/
def exOk : List XTok :=
  [.startTag ['a'], .attr ['k'] ['"', 'v', '&', '#', '9', ';', '"'], .startTagClose, .text [' ', 'x', ' '],
   .startTag ['b'], .startTagCloseVoid, .text [' ', 'y', ' '], .comment ['<', '!', '-', '-', 'c', '-', '-', '>'],
   .text [' ', 'z'], .endTag ['<', '/', 'a', '>'] ['a']]

/-- the hypotheses of `xml_infoset` / `keep_ws_never_removed` / `xml_wellformed` are satisfiable by a document
with mixed content, an attribute with a reference, a comment and white space next to tags -/
example : (∀ x ∈ exOk, WfTokP x) ∧ lexShape false exOk = true ∧ bareInPI false exOk = true ∧
    xmlMinify ⟨false⟩ exOk = "<a k=\"v&#9;\">x<b/> y z</a>".toList ∧
    xmlMinify ⟨true⟩ exOk = "<a k=\"v&#9;\"> x <b/> y z</a>".toList := by
  refine ⟨?_, by decide, by decide, by decide, by decide⟩
  intro x hx
  simp only [exOk, List.mem_cons, List.mem_nil_iff, or_false] at hx
  rcases hx with rfl | rfl | rfl | rfl | rfl | rfl | rfl | rfl | rfl | rfl
  · trivial
  · exact ⟨'"', [.lit 'v', .dec ['9']], Or.inl rfl, by decide, by decide, by decide⟩
  · trivial
  · exact ⟨[.lit ' ', .lit 'x', .lit ' '], by decide, by decide, by decide⟩
  · trivial
  · trivial
  · exact ⟨[.lit ' ', .lit 'y', .lit ' '], by decide, by decide, by decide⟩
  · trivial
  · exact ⟨[.lit ' ', .lit 'z'], by decide, by decide, by decide⟩
  · trivial

/-- **comments_only_removed** (full): every item of the infoset other than character data — element starts and
ends, attributes with their normalised values, processing instructions, DOCTYPE — is emitted, in order and
unchanged; comments (which are not part of `infoset`) are the only tokens that disappear without trace, and
nothing is added. -/
theorem comments_only_removed (o : XmlOpts) (om : Bool) (ts : List XTok) (hwf : ∀ x ∈ ts, WfTokP x) :
    marks (infoset (emit o om ts)) = marks (infoset ts) :=
  marks_aux o ts.length ts (Nat.le_refl _) hwf om 0 false

/-- **xml_wellformed** (full): every emitted text token is character data according to the grammar (no `<`, `&`
only as the start of a reference to a legal character or an entity), every emitted attribute value is a quoted
literal without `<`, bare `&` or its own quote, and no run of emitted character data (consecutive text tokens,
which is how the bytes are read back) contains `]]>`.  `bareInPI`: attributes without value only occur as
words of processing-instruction data (in an element they are not well-formed XML). -/
theorem xml_wellformed (o : XmlOpts) (ts : List XTok) (hwf : ∀ x ∈ ts, WfTokP x)
    (hpi : bareInPI false ts = true) :
    (∀ y ∈ emit o true ts, WfOutP y) ∧ rawCdEnd (emit o true ts) = false := by
  refine ⟨wfout_aux o ts.length ts (Nat.le_refl _) hwf true 0 false hpi, ?_⟩
  have h := rawfree_aux o ts.length ts (Nat.le_refl _) true 0 false [] rfl rfl
  simp only [rawCdEnd, List.any_eq_false]
  intro run hr
  rw [← cdAuto_hasCdEnd]
  simpa using h run hr

example : rawCdEnd [XTok.text [']', ']'], XTok.comment [], XTok.text ['>']] = true ∧
    rawCdEnd (emit ⟨false⟩ true [XTok.text [']', ']'], XTok.comment [], XTok.text ['>']]) = false := by decide

/-! ## token boundaries: the look-ahead over any number of skipped tokens, the `]` count over any split -/

/-- **trailing_space_lookahead** (full): the decision of the text branch about the trailing white space of a text
does not depend on the tokens the look-ahead passes over (comments, DOCTYPE, the tokens of processing
instructions — `skipped`), however many there are: it is the decision for the stream without them, and it is
`trimAt` of the first token that is not passed over (`nextStop`): end of input, character data beginning with
white space, or an element tag unless white space is kept. -/
theorem trailing_space_lookahead (o : XmlOpts) (sk rest : List XTok) (h : sk.all skipped = true) :
    peekTrim o (sk ++ rest) = peekTrim o rest ∧
    peekTrim o (sk ++ rest) = trimAt o.keepWhitespace (nextStop rest) := by
  rw [peekTrim_eq, peekTrim_eq, nextStop_skip sk rest h]
  exact ⟨rfl, rfl⟩

/-- **trailing_space_exact** (full): the data written for a text token, for every state `omitSpace`, every data
and every following stream `sk ++ rest` with `sk` passed over: the rewritten, left-trimmed data `leftTrimmed`;
its last byte is removed exactly when it is white space and `trimAt` holds at the first token of `rest` that is
not passed over.  Nothing else is ever removed. -/
theorem trailing_space_exact (o : XmlOpts) (om : Bool) (d : List Char) (sk rest : List XTok)
    (h : sk.all skipped = true) :
    textStep o om d (sk ++ rest) =
      if (leftTrimmed om d).isEmpty then ([], true)
      else if endsWs (leftTrimmed om d) then
        if trimAt o.keepWhitespace (nextStop rest) then ((leftTrimmed om d).dropLast, false)
        else (leftTrimmed om d, true)
      else (leftTrimmed om d, false) := by
  rw [textStep_eq, nextStop_skip sk rest h]

/-- **trailing_space_only_if** (full): when the written data differs from the left-trimmed data, then the
left-trimmed data ends in white space, exactly that byte is missing, and the look-ahead stopped at the end of the
input, at character data that begins with white space, or at an element tag with `keepWhitespace = false`. -/
theorem trailing_space_only_if (o : XmlOpts) (om : Bool) (d : List Char) (ts : List XTok)
    (hne : (textStep o om d ts).1 ≠ leftTrimmed om d) :
    endsWs (leftTrimmed om d) = true ∧ (textStep o om d ts).1 = (leftTrimmed om d).dropLast ∧
    (nextStop ts = none ∨ (∃ e, nextStop ts = some (.text e) ∧ startsWs e = true) ∨
      (∃ c t, nextStop ts = some (.cdata c t) ∧ startsWs t = true) ∨
      (o.keepWhitespace = false ∧ ((∃ n, nextStop ts = some (.startTag n)) ∨ ∃ e n, nextStop ts = some (.endTag e n)))) := by
  rw [textStep_eq] at hne ⊢
  by_cases h1 : (leftTrimmed om d).isEmpty = true
  · have : leftTrimmed om d = [] := by simpa using h1
    simp [this] at hne
  · simp only [h1, Bool.false_eq_true, if_false] at hne ⊢
    by_cases h2 : endsWs (leftTrimmed om d) = true
    · simp only [h2, if_true] at hne ⊢
      by_cases h3 : trimAt o.keepWhitespace (nextStop ts) = true
      · simp only [h3, if_true, true_and]
        have hs := nextStop_not_skipped ts
        cases hn : nextStop ts with
        | none => exact Or.inl rfl
        | some t =>
          rw [hn] at h3
          have hsk := hs t hn
          cases t with
          | cdata c t' =>
            refine Or.inr (Or.inr (Or.inl ⟨c, t', rfl, ?_⟩))
            simpa [trimAt] using h3
          | _ => simp_all [trimAt, skipped]
      · simp [h3] at hne
    · simp [h2] at hne

/-- **trailing_space_kept** (full): in front of character data that begins with a non-space, and with
`keepWhitespace` in front of an element tag, the text is written with its trailing white space — for any number
of skipped tokens in between (this is the part of `xml_infoset` that a bounded look-ahead violates). -/
theorem trailing_space_kept (o : XmlOpts) (om : Bool) (d : List Char) (sk rest : List XTok) (t : XTok)
    (h : sk.all skipped = true) (hs : skipped t = false) (ht : trimAt o.keepWhitespace (some t) = false) :
    (textStep o om d (sk ++ t :: rest)).1 = leftTrimmed om d ∧
    (textStep o om d (sk ++ t :: rest)).2 = (endsWs (leftTrimmed om d) || (leftTrimmed om d).isEmpty) := by
  have hn : nextStop (t :: rest) = some t := by simp [nextStop, hs]
  rw [trailing_space_exact o om d sk (t :: rest) h, hn, ht]
  by_cases h1 : (leftTrimmed om d).isEmpty = true
  · have : leftTrimmed om d = [] := by simpa using h1
    simp [this]
  · by_cases h2 : endsWs (leftTrimmed om d) = true <;> simp [h1, h2]

/-- nine comments between `price: ` and `10 EUR` -/
def exNine : List XTok :=
  [.startTag ['r'], .startTagClose, .text ['p', 'r', 'i', 'c', 'e', ':', ' ']] ++
  List.replicate 9 (XTok.comment ['<', '!', '-', '-', 'c', '-', '-', '>']) ++
  [.text ['1', '0', ' ', 'E', 'U', 'R'], .endTag ['<', '/', 'r', '>'] ['r']]

/-- a processing instruction with seven pseudo-attributes (nine tokens) between `see ` and `below` -/
def exPi7 : List XTok :=
  [.startTag ['r'], .startTagClose, .text ['s', 'e', 'e', ' '], .startTagPI ['l']] ++
  (List.range 7).map (fun i => XTok.attr [Char.ofNat (97 + i)] ['"', 'v', '"']) ++
  [.startTagClosePI, .text ['b', 'e', 'l', 'o', 'w'], .endTag ['<', '/', 'r', '>'] ['r']]

/-- non-vacuity, with nine and with forty skipped tokens: the hypotheses of `trailing_space_kept` hold, the space
stays; in front of ` 10` (leading space) and of the end tag it goes -/
example : (List.replicate 9 (XTok.comment [])).all skipped = true ∧
    (List.replicate 40 (XTok.comment [])).all skipped = true ∧
    ((XTok.startTagPI ['l'] :: (List.range 7).map (fun i => XTok.attr [Char.ofNat (97 + i)] ['"', 'v', '"'])) ++
      [XTok.startTagClosePI]).all skipped = true ∧
    skipped (.text ['1', '0']) = false ∧ trimAt false (some (.text ['1', '0'])) = false ∧
    xmlMinify ⟨false⟩ exNine = "<r>price: 10 EUR</r>".toList ∧
    xmlMinify ⟨false⟩ exPi7 =
      "<r>see <?l a=\"v\" b=\"v\" c=\"v\" d=\"v\" e=\"v\" f=\"v\" g=\"v\"?>below</r>".toList ∧
    (textStep ⟨false⟩ false ['x', ' '] (List.replicate 40 (XTok.comment []) ++ [.text ['y']])).1 = ['x', ' '] ∧
    (textStep ⟨false⟩ false ['x', ' '] (List.replicate 40 (XTok.comment []) ++ [.text [' ', 'y']])).1 = ['x'] ∧
    (textStep ⟨false⟩ false ['x', ' '] (List.replicate 40 (XTok.comment []) ++ [.endTag [] []])).1 = ['x'] ∧
    (textStep ⟨true⟩ false ['x', ' '] (List.replicate 40 (XTok.comment []) ++ [.endTag [] []])).1 = ['x', ' '] := by
  decide

/-- **cdend_any_split** (full): however character data is cut into pieces (tokens), `escapeCDEnd` with the count
of `]` threaded from piece to piece writes the same bytes as one call on the whole data, ends with the same
count, and what is written — even directly behind `n` closing brackets already in the output — never
contains `]]>`. -/
theorem cdend_any_split (n : Nat) (ps : List (List Char)) :
    (escPieces n ps).flatten = escCD n ps.flatten ∧ brPieces n ps = brAfter n ps.flatten ∧
    hasCdEnd (List.replicate (min n 2) ']' ++ (escPieces n ps).flatten) = false := by
  refine ⟨(escPieces_flatten ps n).1, (escPieces_flatten ps n).2, ?_⟩
  rw [(escPieces_flatten ps n).1]
  exact escCD_no_cdend n _

/-- **cdend_count_carried** (full): a piece that consists of `]` only adds its length to the incoming count (it
does not restart it); behind any other byte the count is the number of `]` that follow it. -/
theorem cdend_count_carried (n k : Nat) :
    brAfter n (List.replicate k ']') = n + k ∧ escCD n (List.replicate k ']') = List.replicate k ']' ∧
    ∀ (c : Char) (a : List Char), c ≠ ']' → brAfter n (a ++ c :: List.replicate k ']') = k := by
  refine ⟨brAfter_replicate k n, ?_, fun c a hc => brAfter_after c hc a k n⟩
  induction k generalizing n with
  | zero => rfl
  | succ k ih => simp [List.replicate_succ, escCD, ih]

/-- `a]`, `]`, `>b` — the `]]>` only exists across three pieces, the middle one is `]` alone -/
example : escPieces 0 [['a', ']'], [']'], ['>', 'b']] = [['a', ']'], [']'], ['&', 'g', 't', ';', 'b']] ∧
    escPieces 0 [[']'], [], [']'], [], ['>']] = [[']'], [], [']'], [], ['&', 'g', 't', ';']] ∧
    brPieces 0 [['a', ']'], [']']] = 2 := by decide

/-- **xml_no_cdend** (full, no hypothesis): for ALL token streams — any contents, any order, any initial
`omitSpace` — no run of character data written by the loop (consecutive text tokens; this is how the bytes
are read back) contains `]]>`. -/
theorem xml_no_cdend (o : XmlOpts) (om : Bool) (ts : List XTok) : rawCdEnd (emit o om ts) = false := by
  have h := rawfree_aux o ts.length ts (Nat.le_refl _) om 0 false [] rfl rfl
  simp only [rawCdEnd, List.any_eq_false]
  intro run hr
  rw [← cdAuto_hasCdEnd]
  simpa using h run hr

/-- tokens of `<r><![CDATA[a]]]><![CDATA[]]]>&gt;b</r>` and of `<r>a]<!--c-->]<!--c-->&gt;b</r>` -/
def exCarry : List XTok :=
  [.startTag ['r'], .startTagClose, .cdata [] ['a', ']'], .cdata [] [']'], .text ['&', 'g', 't', ';', 'b'],
   .endTag ['<', '/', 'r', '>'] ['r']]
def exCarry2 : List XTok :=
  [.startTag ['r'], .startTagClose, .text ['a', ']'], .comment [], .text [']'], .comment [],
   .text ['&', 'g', 't', ';', 'b'], .endTag ['<', '/', 'r', '>'] ['r']]

example : xmlMinify ⟨false⟩ exCarry = "<r>a]]&gt;b</r>".toList ∧ xmlMinify ⟨true⟩ exCarry2 = "<r>a]]&gt;b</r>".toList ∧
    rawCdEnd [XTok.text ['a', ']'], .text [']'], .text ['>', 'b']] = true := by decide

/-! ## processing instructions (/repo ce8fb25, 59fe76b) -/

/-- **pi_attr_verbatim** (full): inside a processing instruction every well-formed pseudo-attribute value is
written byte for byte — references are not decoded (`?&gt;` stays), the quotes stay. -/
theorem pi_attr_verbatim (v : List Char) (hv : WfAttrVal v) : attrOutPI v = v := attrOutPI_id v hv

/-- **pi_tokens_verbatim** (full): the tokens of a processing instruction — pseudo-attributes with well-formed
values and words of free-form data, up to `?>` — are emitted one to one and unchanged, in every state of the loop;
behind `?>` the loop continues outside a processing instruction with the same `omitSpace`. -/
theorem pi_tokens_verbatim (o : XmlOpts) (om : Bool) (body rest : List XTok)
    (hb : ∀ x ∈ body, (∃ n v, x = .attr n v ∧ WfAttrVal v) ∨ ∃ d n, x = .attrBare d n) :
    ∀ br, emitGo o om br true 0 (body ++ .startTagClosePI :: rest) =
      body ++ .startTagClosePI :: emitGo o om 0 false 0 rest := by
  induction body with
  | nil => intro br; simp [emitGo]
  | cons x body ih =>
    intro br
    have hx := hb x (by simp)
    have ih' := ih (fun y hy => hb y (by simp [hy]))
    rcases hx with ⟨n, v, rfl, hv⟩ | ⟨d, n, rfl⟩
    · simp only [List.cons_append, emitGo, if_true, attrOutPI_id v hv, ih']
    · simp only [List.cons_append, emitGo, if_true, ih']

/-- tokens of `<?p x="?&gt;"?>` (a decoded reference would end the instruction early) and of `<?p a>b?>`,
`<?p ?/>?>` (the dependency lexer reads `>` and `/>` in the data like the end of a tag and drops the white space in
front of it; the loop writes a space there, so that the target or a `?` never touches it) -/
def exPiRef : List XTok :=
  [.startTagPI ['p'], .attr ['x'] ['"', '?', '&', 'g', 't', ';', '"'], .startTagClosePI]
def exPiGt : List XTok :=
  [.startTagPI ['p'], .attrBare [' ', 'a'] ['a'], .startTagClose, .text ['b', '?', '>']]
def exPiVoid : List XTok :=
  [.startTagPI ['p'], .attrBare [' ', '?'] ['?'], .startTagCloseVoid, .text ['?', '>']]

example : xmlMinify ⟨false⟩ exPiRef = "<?p x=\"?&gt;\"?>".toList ∧ xmlMinify ⟨false⟩ exPiGt = "<?p a >b?>".toList ∧
    xmlMinify ⟨false⟩ exPiVoid = "<?p ? />?>".toList ∧
    xmlMinify ⟨false⟩ [.startTagPI ['p'], .startTagClose, .text ['?', '>']] = "<?p >?>".toList ∧
    noCloseInPI false exPiRef = true ∧ noCloseInPI false exPiGt = false := by decide

/-- **xml_nesting** (full): element nesting is preserved — if in the input every end tag closes the innermost
open element under its name, `/>` closes the element just opened and nothing stays open, the same holds for the
emitted tokens (in particular after collapsing `<a></a>` to `<a/>`). -/
theorem xml_nesting (o : XmlOpts) (om : Bool) (ts : List XTok) (st : List (List Char))
    (h : nest st ts = true) : nest st (emit o om ts) = true :=
  nest_aux o ts.length ts (Nat.le_refl _) om 0 false st h

example : nest [] exOk = true ∧ nest [] exJoin = true := by decide

end Verif.Props.C06

import Verif.Proofs.NumRoundPVal
set_option linter.unusedSimpArgs false
/-!
# C08 — `Number` with a precision: within half a unit of the last retained digit (no `int` wrap-around)
-/
namespace Verif.Proofs.Num
open Verif.Model.Num
open Verif.Spec.Num (parse Parsed isNumber isDecimal numVal stripZeros leadExp WithinHalfUnit)

theorem trimmed_mlen_le (l : Lex) (hwf : l.WF) :
    mlen (dropZeros l.ip) (dropTrail '0' l.fp) ≤ l.str.length := by
  have h1 := dropZeros_length_le l.ip
  have h2 := dropTrail_length_le '0' l.fp
  have hm := mlen_cases (dropZeros l.ip) (dropTrail '0' l.fp)
  have hs : l.str.length = l.sg.chars.length + (l.ip.length + (l.dotPart.length + l.exPart.length)) := by
    simp [Lex.str]
  have hd : l.fp ≠ [] → l.dotPart.length = 1 + l.fp.length := by
    intro hne
    have : l.dot = true := by
      cases hd : l.dot with
      | true => rfl
      | false => exact absurd (hwf.nodot hd) hne
    simp [Lex.dotPart, this]; omega
  by_cases hf : l.fp = []
  · rw [hf] at hm h2 ⊢
    simp only [dropTrail_nil, List.length_nil] at hm h2 ⊢
    omega
  · have := hd hf
    omega

theorem number_round_lex (l : Lex) (hwf : l.WF) (p : Int) (hp : 0 < p) :
    ∃ w, numVal (number l.str p) = some w ∧ WithinHalfUnit l.str p l.val w := by
  rcases number_lex l hwf p (fun m0 h => rnd_wf h p) with h | ⟨l', h1, h2, _, _, h5, _⟩
  · rw [h]; exact ⟨l.val, numVal_str l hwf, within_refl _ _ _⟩
  · refine ⟨l'.val, by rw [← h2]; exact numVal_str l' h1, ?_⟩
    rcases h5 with ⟨z1, z2, _⟩ | ⟨hm, hgd, hv, _⟩
    · rw [z1, z2]; exact within_refl _ _ _
    · have hml := trimmed_mlen_le l hwf
      have hrnd : rnd p ⟨dropZeros l.ip, dropTrail '0' l.fp, l.expVal⟩ =
          roundP ⟨dropZeros l.ip, dropTrail '0' l.fp, l.expVal⟩ p.toNat := by
        unfold rnd; rw [if_pos hp]
      rw [hrnd] at hv
      have hguard : -9223372036854775808 ≤ (⟨dropZeros l.ip, dropTrail '0' l.fp, l.expVal⟩ : Mant).e ∧
          (⟨dropZeros l.ip, dropTrail '0' l.fp, l.expVal⟩ : Mant).e +
            (mlen (⟨dropZeros l.ip, dropTrail '0' l.fp, l.expVal⟩ : Mant).ip (⟨dropZeros l.ip, dropTrail '0' l.fp, l.expVal⟩ : Mant).fp : Int) <
          9223372036854775808 := noWrap_of_guard hp hgd hml
      have hlen := roundP_len ⟨dropZeros l.ip, dropTrail '0' l.fp, l.expVal⟩ p.toNat (by omega) hguard
      rw [hv hlen]
      have hval : l.val = mantVal l.sg.neg ⟨dropZeros l.ip, dropTrail '0' l.fp, l.expVal⟩ := by
        have : l.val = dval l.sg.neg (natOf (l.ip ++ l.fp)) (l.expVal - (l.fp.length : Int)) := rfl
        rw [this, trim_val]; rfl
      rw [hval]
      rcases roundP_val l.sg.neg ⟨dropZeros l.ip, dropTrail '0' l.fp, l.expVal⟩ hm p.toNat (by omega) hguard with
        he | ⟨hlt, he⟩
      · rw [he]; exact within_refl _ _ _
      · rw [he]
        simp only [] at hlt ⊢
        have hcb := cut_bound l.sg.neg (dropZeros l.ip ++ dropTrail '0' l.fp)
          (cutPos ⟨dropZeros l.ip, dropTrail '0' l.fp, l.expVal⟩ p.toNat)
          (l.expVal - ((dropTrail '0' l.fp).length : Int)) (hm.dip.append hm.dfp) hlt
        unfold WithinHalfUnit
        rw [leadExp_lex l hwf hm]
        simp only []
        have hL : l.expVal + (if (dropZeros l.ip).isEmpty then
              -(((dropTrail '0' l.fp).length - (dropZeros (dropTrail '0' l.fp)).length : Nat) : Int) - 1
            else ((dropZeros l.ip).length : Int) - 1) - p + 1 =
            l.expVal - ((dropTrail '0' l.fp).length : Int) +
              (((dropZeros l.ip ++ dropTrail '0' l.fp).length -
                cutPos ⟨dropZeros l.ip, dropTrail '0' l.fp, l.expVal⟩ p.toNat : Nat) : Int) := by
          unfold cutPos at hlt ⊢
          simp only [] at hlt ⊢
          have hz := dropZeros_length_le (dropTrail '0' l.fp)
          cases hi : dropZeros l.ip with
          | nil =>
            rw [hi] at hlt
            simp only [List.isEmpty_nil, if_true, List.nil_append] at hlt ⊢
            omega
          | cons c t =>
            rw [hi] at hlt
            simp only [List.isEmpty_cons, Bool.false_eq_true, if_false, List.length_append, List.length_cons] at hlt ⊢
            omega
        rw [hL]
        exact hcb

end Verif.Proofs.Num

import Verif.Model.SvgDoc
import Verif.Spec.SvgDocSpec
/-!
# C05B — lemmas for `Props/C05B.lean`: the loop of `svg.go` against the structural clause

Core only (no Mathlib).  `loop_aux` is the induction over the token list; invariant `Inv`: the element the
specification is in (`e`) is the model's `tag`, or neither side can regard an attribute as defaultable.
-/
set_option linter.unnecessarySimpa false
set_option linter.unusedSimpArgs false
namespace Verif.Proofs.SvgDoc
open Verif.SvgDoc Verif.Model.SvgDoc Verif.Spec.SvgDocSpec
open Verif.Model.Xml (escapeAttrVal escapeCDATAVal)

/-! ## the look-ahead counters -/

theorem plan_drop (num : List Char → List Char) (o : SvgOpts) (st : St) :
    ∀ (k : Nat) (ts : List STok), plan num o st k ts = plan num o st 0 (ts.drop k) := by
  intro k
  induction k with
  | zero => intro ts; simp
  | succ k ih =>
    intro ts
    cases ts with
    | nil => simp [plan]
    | cons t r => simp only [plan, List.drop_succ_cons]; exact ih r

theorem essIn_skip (inl : Bool) : ∀ (r : List STok) (d : Nat),
    essIn inl (.skip d) r = essIn inl (.elem []) (r.drop (skipLen d r)) := by
  intro r
  induction r with
  | nil => intro d; simp [essIn, skipLen]
  | cons t r ih =>
    intro d
    have key : (if (d == 0) = true then essIn inl (Mode.elem []) r else essIn inl (Mode.skip (d - 1)) r) =
        essIn inl (Mode.elem []) (List.drop (if (d == 0) = true then 1 else 1 + skipLen (d - 1) r) (t :: r)) := by
      by_cases hd : d = 0
      · subst hd; simp
      · have : (d == 0) = false := by simpa using hd
        simp only [this, Bool.false_eq_true, if_false]
        rw [ih]; simp [Nat.add_comm 1]
    cases t <;> simp only [essIn, skipLen] <;> first | exact key | (rw [ih]; simp [Nat.add_comm 1])

theorem essIn_pi (inl : Bool) (e : List Char) : ∀ (r : List STok),
    essIn inl (.pi e) r = essIn inl (.elem e) (r.drop (piLen r)) := by
  intro r
  induction r with
  | nil => simp [essIn, piLen]
  | cons t r ih =>
    cases t <;> simp only [essIn, piLen] <;> first | (rw [ih]; simp [Nat.add_comm 1]) | simp

/-! ## names -/

theorem prefixOf_eq (n : List Char) : Verif.Model.SvgDoc.prefixOf n = Verif.Spec.SvgDocSpec.prefixOf n := rfl

theorem foreignAttr_eq (n : List Char) : isForeignAttr n = foreignAttr n := rfl

theorem stripSvg_eq (n : List Char) : stripSvg n = localName n := rfl

theorem default_defaultable (o : SvgOpts) (tag mime n val : List Char) (h : isDefaultAttr o tag mime n val = true) :
    defaultable o.inline tag n = true := by
  simp only [isDefaultAttr, defaultable, nSvg, svgP, nStyle, cssMime, Bool.or_eq_true, Bool.and_eq_true,
    beq_iff_eq] at h ⊢
  rcases h with ⟨h1, h2⟩ | ⟨⟨⟨h1, h2⟩, _⟩, _⟩
  · left
    refine ⟨h1, ?_⟩
    rcases h2 with ((((((h | h) | h) | h) | h) | h) | h) | h
    · exact Or.inl (Or.inl (Or.inl (Or.inl (Or.inl (Or.inl (Or.inl h))))))
    · exact Or.inl (Or.inl (Or.inl (Or.inl (Or.inl (Or.inl (Or.inr h.1))))))
    · exact Or.inl (Or.inl (Or.inl (Or.inl (Or.inl (Or.inr h.1)))))
    · exact Or.inl (Or.inl (Or.inl (Or.inl (Or.inr h.1))))
    · exact Or.inl (Or.inl (Or.inl (Or.inr h.1)))
    · exact Or.inl (Or.inl (Or.inr h.1))
    · exact Or.inl (Or.inr h.1)
    · exact Or.inr h.1
  · right; exact ⟨h1, h2⟩

theorem default_needs_tag (o : SvgOpts) (tag mime n val : List Char) (h1 : tag ≠ nSvg) (h2 : tag ≠ nStyle) :
    isDefaultAttr o tag mime n val = false := by
  have a : (tag == nSvg) = false := by simpa using h1
  have b : (tag == nStyle) = false := by simpa using h2
  simp [isDefaultAttr, a, b]

/-- a start tag that `skipTag` removes is never `svg` or `style` -/
theorem skipStart_tag (n : List Char) (r : List STok) (h : skipStart n r = true) : n ≠ nSvg ∧ n ≠ nStyle := by
  constructor
  · intro hn; subst hn; revert h; simp [skipStart, nSvg, nMetadata, nDefs, Verif.Model.SvgDoc.prefixOf]
  · intro hn; subst hn; revert h; simp [skipStart, nStyle, nMetadata, nDefs, Verif.Model.SvgDoc.prefixOf]

/-- without the `defs` quirk the skipped start tags are exactly the removable elements -/
theorem skipStart_removable (n : List Char) (r : List STok)
    (hd : (n == ['d', 'e', 'f', 's'] && r[1]? == some STok.startTagCloseVoid) = false) :
    skipStart n r = removableElem n := by
  simp only [skipStart, removableElem, nMetadata, prefixOf_eq, nSvg, svgP, nDefs]
  by_cases hm : n = ['m', 'e', 't', 'a', 'd', 'a', 't', 'a']
  · simp [hm]
  · have : (n == ['m', 'e', 't', 'a', 'd', 'a', 't', 'a']) = false := by simpa using hm
    simp only [this, Bool.false_eq_true, if_false, Bool.false_or]
    cases hp : Verif.Spec.SvgDocSpec.prefixOf n with
    | some p => simp
    | none => simpa using hd

/-! ## `structRel` -/

theorem structRel_match (R : List Char → Option (List Char) → Option (List Char) → Bool) (i : InEv) (is : List InEv)
    (o : Ev) (os : List Ev) (h1 : matchEv R i.ev o = true) (h2 : structRel R is os = true) :
    structRel R (i :: is) (o :: os) = true := by
  simp [structRel, h1, h2]

theorem structRel_skip (R : List Char → Option (List Char) → Option (List Char) → Bool) (i : InEv) (is : List InEv)
    (os : List Ev) (h1 : i.optional = true) (h2 : structRel R is os = true) :
    structRel R (i :: is) os = true := by
  cases os with
  | nil => simp [structRel, h1, h2]
  | cons o os => simp [structRel, h1, h2]

/-! ## guards are inherited by suffixes -/

theorem hasDefs1_tail (t : STok) (r : List STok) (h : hasDefs1 (t :: r) = false) : hasDefs1 r = false := by
  cases t <;> simp_all [hasDefs1]

theorem hasDefs1_drop (k : Nat) : ∀ ts : List STok, hasDefs1 ts = false → hasDefs1 (ts.drop k) = false := by
  induction k with
  | zero => intro ts h; simpa using h
  | succ k ih =>
    intro ts h
    cases ts with
    | nil => simp [hasDefs1]
    | cons t r => simp only [List.drop_succ_cons]; exact ih r (hasDefs1_tail t r h)

theorem hasFO_tail (t : STok) (r : List STok) (h : hasForeignObject (t :: r) = false) :
    hasForeignObject r = false := by
  cases t <;> simp_all [hasForeignObject]

theorem hasFO_drop (k : Nat) : ∀ ts : List STok, hasForeignObject ts = false →
    hasForeignObject (ts.drop k) = false := by
  induction k with
  | zero => intro ts h; simpa using h
  | succ k ih =>
    intro ts h
    cases ts with
    | nil => simp [hasForeignObject]
    | cons t r => simp only [List.drop_succ_cons]; exact ih r (hasFO_tail t r h)

/-! ## the attribute branch -/

/-- the attribute branch writes nothing or one attribute -/
theorem attrEmit_shape (num : List Char → List Char) (o : SvgOpts) (st : St) (n val : List Char) :
    (attrEmit num o st n val).1 = [] ∨ ∃ p, (attrEmit num o st n val).1 = [p] := by
  unfold attrEmit
  repeat' split
  all_goals first | exact Or.inl rfl | exact Or.inr ⟨_, rfl⟩

/-- **an attribute is dropped only if it is foreign or a default-valued attribute of `svg` / `style`** -/
theorem attrEmit_nil (num : List Char → List Char) (o : SvgOpts) (st : St) (n val : List Char)
    (h : (attrEmit num o st n val).1 = []) :
    isDefaultAttr o st.tag st.mime n val = true ∨ isForeignAttr n = true := by
  unfold attrEmit at h
  by_cases hd : isDefaultAttr o st.tag st.mime n val = true
  · exact Or.inl hd
  · by_cases hf : isForeignAttr n = true
    · exact Or.inr hf
    · exfalso
      simp only [hd, hf, Bool.false_eq_true, if_false] at h
      revert h
      repeat' split
      all_goals simp

/-- a hole or token written by the attribute branch becomes an attribute token of the same name -/
theorem attrEmit_fill (e : Env) (o : SvgOpts) (st : St) (n val : List Char) (p : PTok)
    (h : (attrEmit e.num o st n val).1 = [p]) : ∃ w, fill e p = mkAttr n w := by
  unfold attrEmit at h
  revert h
  repeat' split
  all_goals
    intro h
    first
      | (simp at h; done)
      | (simp only [List.cons.injEq, and_true] at h; subst h; exact ⟨_, rfl⟩)

/-! ## lexer shape along the look-ahead jumps -/

theorem attrShape_skip : ∀ (r : List STok) (tg : Bool) (d : Nat), attrShape tg r = true →
    attrShape false (r.drop (skipLen d r)) = true := by
  intro r
  induction r with
  | nil => intro tg d _; simp [attrShape]
  | cons t r ih =>
    intro tg d h
    cases t with
    | endTag dt n =>
      simp only [attrShape] at h
      simp only [skipLen]
      by_cases hd : d = 0
      · subst hd; simpa using h
      · have : (d == 0) = false := by simpa using hd
        simp only [this, Bool.false_eq_true, if_false, Nat.add_comm 1, List.drop_succ_cons]
        exact ih false _ h
    | startTagCloseVoid =>
      simp only [attrShape] at h
      simp only [skipLen]
      by_cases hd : d = 0
      · subst hd; simpa using h
      · have : (d == 0) = false := by simpa using hd
        simp only [this, Bool.false_eq_true, if_false, Nat.add_comm 1, List.drop_succ_cons]
        exact ih false _ h
    | attr dt n v =>
      simp only [attrShape, Bool.and_eq_true] at h
      simp only [skipLen, Nat.add_comm 1, List.drop_succ_cons]
      exact ih tg _ h.2
    | startTag n =>
      simp only [attrShape] at h
      simp only [skipLen, Nat.add_comm 1, List.drop_succ_cons]
      exact ih true _ h
    | startTagPI n =>
      simp only [attrShape] at h
      simp only [skipLen, Nat.add_comm 1, List.drop_succ_cons]
      exact ih true _ h
    | _ =>
      simp only [attrShape] at h
      simp only [skipLen, Nat.add_comm 1, List.drop_succ_cons]
      exact ih false _ h

theorem attrShape_pi : ∀ (r : List STok) (tg : Bool), attrShape tg r = true →
    attrShape false (r.drop (piLen r)) = true := by
  intro r
  induction r with
  | nil => intro tg _; simp [attrShape]
  | cons t r ih =>
    intro tg h
    cases t with
    | startTagClosePI => simp only [attrShape] at h; simpa [piLen] using h
    | startTagClose => simp only [attrShape] at h; simpa [piLen] using h
    | startTagCloseVoid => simp only [attrShape] at h; simpa [piLen] using h
    | attr dt n v =>
      simp only [attrShape, Bool.and_eq_true] at h
      simp only [piLen, Nat.add_comm 1, List.drop_succ_cons]
      exact ih tg h.2
    | startTag n =>
      simp only [attrShape] at h
      simp only [piLen, Nat.add_comm 1, List.drop_succ_cons]
      exact ih true h
    | startTagPI n =>
      simp only [attrShape] at h
      simp only [piLen, Nat.add_comm 1, List.drop_succ_cons]
      exact ih true h
    | _ =>
      simp only [attrShape] at h
      simp only [piLen, Nat.add_comm 1, List.drop_succ_cons]
      exact ih false h

/-! ## output events -/

theorem evsOut_cdataOut (d t : List Char) (r : List STok) : evsOut false (cdataOut d t :: r) = evsOut false r := by
  unfold cdataOut; split <;> simp [evsOut]

/-- a processing instruction that is kept is copied token by token; the events resume after `?>` (or the `>` that
ended it for the lexer) -/
theorem evsOut_pi (e : Env) (num : List Char → List Char) (o : SvgOpts) (st : St) : ∀ r : List STok,
    evsOut true (List.map (fill e) (((r.take (piLen r)).flatMap piOut).map PTok.tok ++ plan num o st 0 (r.drop (piLen r)))) =
      evsOut false (List.map (fill e) (plan num o st 0 (r.drop (piLen r)))) := by
  intro r
  induction r with
  | nil => simp [piLen, plan, evsOut]
  | cons t r ih =>
    cases t <;>
      first
        | (simp only [piLen, Nat.add_comm 1, List.take_succ_cons, List.drop_succ_cons, List.flatMap_cons, piOut,
            List.map_cons, List.map_nil, List.cons_append, List.nil_append, fill, evsOut]; exact ih)
        | simp [piLen, piOut, fill, evsOut]

/-- the shapes of the empty-element look-ahead -/
theorem collapseSkip_cases (r : List STok) :
    (collapseSkip r = none) ∨
    (∃ d n r', r = STok.endTag d n :: r' ∧ collapseSkip r = some 1) ∨
    (∃ dt d n r', r = STok.text dt :: STok.endTag d n :: r' ∧ collapseSkip r = some 2) := by
  unfold collapseSkip
  split
  · exact Or.inr (Or.inl ⟨_, _, _, rfl, rfl⟩)
  · split
    · exact Or.inr (Or.inr ⟨_, _, _, _, rfl, rfl⟩)
    · exact Or.inl rfl
  · exact Or.inl rfl

/-! ## the `]]>` guard does not touch element and attribute events -/

def isCharTok : STok → Bool
  | .text _ => true
  | .cdata _ _ => true
  | _ => false

theorem evsOut_charTok (m : Bool) (t : STok) (r : List STok) (h : isCharTok t = true) :
    evsOut m (t :: r) = evsOut m r := by
  cases t <;> simp [isCharTok] at h <;> cases m <;> simp [evsOut]

theorem cdataOut_char (d t : List Char) : isCharTok (cdataOut d t) = true := by
  unfold cdataOut; split <;> rfl

theorem cdataOutAt_char (br : Nat) (d t : List Char) : isCharTok (cdataOutAt br d t) = true := by
  unfold cdataOutAt; split <;> rfl

/-- a hole closed with the guard is the token of the shape-only `fill`, or both are character data -/
theorem fillAt_fill (e : Env) (br : Nat) (p : PTok) :
    (fillAt e br p).1 = fill e p ∨ (isCharTok (fillAt e br p).1 = true ∧ isCharTok (fill e p) = true) := by
  cases p with
  | tok t => exact Or.inl rfl
  | textTok d => exact Or.inr ⟨rfl, rfl⟩
  | cdataTok d tx => exact Or.inr ⟨cdataOutAt_char _ _ _, cdataOut_char _ _⟩
  | styleText m pl => exact Or.inr ⟨rfl, rfl⟩
  | styleCData m d tx => exact Or.inr ⟨cdataOutAt_char _ _ _, cdataOut_char _ _⟩
  | styleAttr n m pl => exact Or.inl rfl
  | pathAttr n pl => exact Or.inl rfl

theorem evsOut_fillGo (e : Env) : ∀ (ps : List PTok) (br : Nat) (m : Bool),
    evsOut m ((fillGo e br ps).map (·.1)) = evsOut m (ps.map (fill e)) := by
  intro ps
  induction ps with
  | nil => intro br m; rfl
  | cons p r ih =>
    intro br m
    simp only [fillGo, List.map_cons]
    rcases fillAt_fill e br p with h | ⟨h1, h2⟩
    · rw [h]
      have := ih (brAfter br (fill e p).render)
      cases hp : fill e p <;> cases m <;> simp only [evsOut] <;> (try rw [h] at *) <;> simp [hp, this, ih]
    · rw [evsOut_charTok _ _ _ h1, evsOut_charTok _ _ _ h2]
      exact ih _ m

/-- the element / attribute / PI events of the output are those of the shape-only filling of the plan -/
theorem evsOut_emit (e : Env) (o : SvgOpts) (ts : List STok) :
    evsOut false (emit e o ts) = evsOut false ((plan e.num o st0 0 ts).map (fill e)) :=
  evsOut_fillGo e _ 0 false

/-! ## the bracket count is the number of `]` at the end of the bytes written -/

def bytesOf (l : List (STok × Option Req)) : List Char := (l.map (·.1)).flatMap STok.render

theorem brAfter_append (a b : List Char) : ∀ n, brAfter n (a ++ b) = brAfter (brAfter n a) b := by
  induction a with
  | nil => intro n; rfl
  | cons c r ih =>
    intro n
    simp only [brAfter, Verif.Model.Xml.brAfter, List.cons_append]
    split
    · exact ih _
    · exact ih _

/-- `fillGo` over a concatenation: the second part starts with the bracket count of the bytes of the first -/
theorem fillGo_append (e : Env) : ∀ (a b : List PTok) (br : Nat),
    fillGo e br (a ++ b) = fillGo e br a ++ fillGo e (brAfter br (bytesOf (fillGo e br a))) b := by
  intro a
  induction a with
  | nil => intro b br; simp [fillGo, bytesOf, brAfter, Verif.Model.Xml.brAfter]
  | cons p r ih =>
    intro b br
    simp only [List.cons_append, fillGo, bytesOf, List.map_cons, List.flatMap_cons]
    rw [ih, brAfter_append]
    rfl

/-! ## the loop -/

/-- the induction over the token list (see the file header) -/
theorem loop_aux (e : Env) (o : SvgOpts) (R : List Char → Option (List Char) → Option (List Char) → Bool)
    (P : List Char → Option (List Char) → Prop)
    (hR : ∀ (st : St) (n : List Char) (v : Option (List Char)) (p : PTok) (w : List Char), P n v →
        (attrStep e.num o st n v).1 = [p] → fill e p = mkAttr n w → R n v (some w) = true) :
    ∀ (len : Nat) (ts : List STok), ts.length ≤ len → hasDefs1 ts = false → hasForeignObject ts = false →
    (∀ d n v, STok.attr d n v ∈ ts → P n v) →
    ∀ (st : St) (el : List Char) (tg : Bool), attrShape tg ts = true → (tg = true → el = st.tag) →
      st.tag ≠ nForeignObject →
      structRel R (essIn o.inline (.elem el) ts) (evsOut false ((plan e.num o st 0 ts).map (fill e))) = true := by
  intro len
  induction len with
  | zero =>
    intro ts hl _ _ _ st el tg _ _ _
    have : ts = [] := List.length_eq_zero_iff.mp (by omega)
    subst this
    simp [essIn, plan, evsOut, structRel]
  | succ len ih =>
    intro ts hl hd1 hfo hP st el tg hsh hinv hnfo
    cases ts with
    | nil => simp [essIn, plan, evsOut, structRel]
    | cons t r =>
      have hlr : r.length ≤ len := by simp only [List.length_cons] at hl; omega
      have hd1r := hasDefs1_tail t r hd1
      have hfor := hasFO_tail t r hfo
      have hPr : ∀ d n v, STok.attr d n v ∈ r → P n v := fun d n v h => hP d n v (List.mem_cons_of_mem _ h)
      have dropLen : ∀ k, (r.drop k).length ≤ len := fun k => by
        have := List.length_drop (i := k) (l := r); omega
      cases t with
      | comment d =>
        simp only [attrShape] at hsh
        simp only [essIn, plan]
        have hrest := ih r hlr hd1r hfor hPr st el false hsh (fun h => absurd h (by simp)) hnfo
        by_cases hk : o.keepComments = true
        · simpa [hk, fill, evsOut] using hrest
        · simpa [hk, fill, evsOut] using hrest
      | doctype d tx =>
        simp only [attrShape] at hsh
        simp only [essIn, plan]
        have hrest := ih r hlr hd1r hfor hPr st el false hsh (fun h => absurd h (by simp)) hnfo
        by_cases hk : ((trimWs tx).getLast? == some ']') = true
        · simpa [hk, fill, evsOut] using hrest
        · simpa [hk, fill, evsOut] using hrest
      | text d =>
        simp only [attrShape] at hsh
        simp only [essIn, plan, List.map_cons]
        have hrest := ih r hlr hd1r hfor hPr st el false hsh (fun h => absurd h (by simp)) hnfo
        split <;> simpa [fill, evsOut] using hrest
      | cdata d tx =>
        simp only [attrShape] at hsh
        simp only [essIn, plan, List.map_cons]
        have hrest := ih r hlr hd1r hfor hPr st el false hsh (fun h => absurd h (by simp)) hnfo
        split
        · simp only [fill]; rw [evsOut_cdataOut]; exact hrest
        · simp only [fill]; rw [evsOut_cdataOut]; exact hrest
      | startTagPI n =>
        simp only [attrShape] at hsh
        simp only [essIn, plan]
        rw [essIn_pi]
        have hrest := ih _ (dropLen (piLen r)) (hasDefs1_drop _ r hd1r) (hasFO_drop _ r hfor)
            (fun d n v h => hPr d n v (List.mem_of_mem_drop h)) st el false
          (attrShape_pi r true hsh) (fun h => absurd h (by simp)) hnfo
        by_cases hx : (n == ['x', 'm', 'l']) = true
        · simp only [hx, if_true]
          rw [plan_drop]
          exact structRel_skip _ _ _ _ (by simpa using hx) hrest
        · simp only [hx, Bool.false_eq_true, if_false, List.map_cons, fill, evsOut]
          rw [plan_drop, evsOut_pi]
          apply structRel_match _ _ _ _ _ _ hrest
          simp [matchEv]
      | startTagClosePI =>
        simp only [attrShape] at hsh
        simp only [essIn, plan]
        exact ih r hlr hd1r hfor hPr st el false hsh (fun h => absurd h (by simp)) hnfo
      | startTag n =>
        simp only [attrShape] at hsh
        have hdefs : (n == ['d', 'e', 'f', 's'] && r[1]? == some STok.startTagCloseVoid) = false := by
          simp only [hasDefs1, Bool.or_eq_false_iff] at hd1; exact hd1.1
        have hnfo' : n ≠ nForeignObject := by
          simp only [hasForeignObject, Bool.or_eq_false_iff] at hfo
          have := hfo.1
          simpa [nForeignObject] using this
        simp only [essIn, plan]
        rw [skipStart_removable n r hdefs]
        by_cases hrem : removableElem n = true
        · simp only [hrem, if_true]
          rw [plan_drop, essIn_skip]
          exact ih _ (dropLen _) (hasDefs1_drop _ r hd1r) (hasFO_drop _ r hfor)
            (fun d n v h => hPr d n v (List.mem_of_mem_drop h)) { st with tag := n } [] false
            (attrShape_skip r true 0 hsh) (fun h => absurd h (by simp)) hnfo'
        · simp only [hrem, Bool.false_eq_true, if_false, List.map_cons, fill, evsOut]
          apply structRel_match
          · simp [matchEv, stripSvg_eq]
          · exact ih r hlr hd1r hfor hPr { st with tag := n } n true hsh (fun _ => rfl) hnfo'
      | attr d n v =>
        simp only [attrShape, Bool.and_eq_true] at hsh
        have htag : el = st.tag := hinv hsh.1
        simp only [essIn, plan]
        have hrest := ih r hlr hd1r hfor hPr { st with mime := (attrStep e.num o st n v).2 } el tg hsh.2 hinv hnfo
        rcases attrEmit_shape e.num o st n (attrVal1 e.num n v) with hnil | ⟨p, hp⟩
        · have hnil' : (attrStep e.num o st n v).1 = [] := hnil
          rw [hnil']
          simp only [List.nil_append]
          apply structRel_skip _ _ _ _ _ hrest
          rcases attrEmit_nil e.num o st n _ hnil with hdef | hfor'
          · have := default_defaultable o st.tag st.mime n _ hdef
            simp [htag, this]
          · have : foreignAttr n = true := by rw [← foreignAttr_eq]; exact hfor'
            simp [this]
        · have hp' : (attrStep e.num o st n v).1 = [p] := hp
          obtain ⟨w, hw⟩ := attrEmit_fill e o st n _ p hp
          rw [hp']
          simp only [List.cons_append, List.nil_append, List.map_cons, hw, mkAttr, evsOut]
          apply structRel_match _ _ _ _ _ _ hrest
          have := hR st n v p w (hP d n v (List.mem_cons_self)) hp' hw
          simp [matchEv, this]
      | startTagClose =>
        simp only [attrShape] at hsh
        have hne : (st.tag == nForeignObject) = false := by simpa using hnfo
        simp only [essIn, plan]
        rcases collapseSkip_cases r with hn | ⟨dt, nm, r', hr, hc⟩ | ⟨tx, dt, nm, r', hr, hc⟩
        · simp only [hn, hne, Bool.false_eq_true, if_false, List.map_cons, fill, evsOut]
          exact ih r hlr hd1r hfor hPr st el false hsh (fun h => absurd h (by simp)) hnfo
        · simp only [hc, List.map_cons, fill, evsOut]
          rw [plan_drop]
          subst hr
          simp only [essIn, List.drop_succ_cons, List.drop_zero]
          apply structRel_match
          · simp [matchEv]
          · simp only [attrShape] at hsh
            simp only [List.length_cons] at hlr
            exact ih r' (by omega) (hasDefs1_tail _ _ hd1r) (hasFO_tail _ _ hfor)
              (fun d n v h => hPr d n v (List.mem_cons_of_mem _ h)) { st with tag := [] } [] false hsh
              (fun h => absurd h (by simp)) (by simp [nForeignObject])
        · simp only [hc, List.map_cons, fill, evsOut]
          rw [plan_drop]
          subst hr
          simp only [essIn, List.drop_succ_cons, List.drop_zero]
          apply structRel_match
          · simp [matchEv]
          · simp only [attrShape] at hsh
            simp only [List.length_cons] at hlr
            exact ih r' (by omega) (hasDefs1_tail _ _ (hasDefs1_tail _ _ hd1r)) (hasFO_tail _ _ (hasFO_tail _ _ hfor))
              (fun d n v h => hPr d n v (List.mem_cons_of_mem _ (List.mem_cons_of_mem _ h))) { st with tag := [] } []
              false hsh (fun h => absurd h (by simp)) (by simp [nForeignObject])
      | startTagCloseVoid =>
        simp only [attrShape] at hsh
        simp only [essIn, plan, List.map_cons, fill, evsOut]
        apply structRel_match
        · simp [matchEv]
        · exact ih r hlr hd1r hfor hPr { st with tag := [] } [] false hsh (fun h => absurd h (by simp))
            (by simp [nForeignObject])
      | endTag d n =>
        simp only [attrShape] at hsh
        simp only [essIn, plan, List.map_cons, fill, evsOut]
        apply structRel_match
        · simp [matchEv]
        · exact ih r hlr hd1r hfor hPr { st with tag := [] } [] false hsh (fun h => absurd h (by simp))
            (by simp [nForeignObject])

end Verif.Proofs.SvgDoc

import Verif.Proofs.JsStringHeads
/-!
# C01E proofs, part 5: the simulation, case by case

Every lemma has the shape: the model's output for one piece of the body, read back by the decoder under the output
quote, yields the code units the decoder reads from that piece of the input under the input quote, followed by
what the induction hypothesis gives for the rest.
-/
set_option linter.unusedSimpArgs false
namespace Verif.Proofs.JsString
open Verif.JsStrBase Verif.Spec.JsStringSem Verif.Model.JsString
variable {cf : Bool}

/-- bytes that are ordinary characters for the decoder under every quote and for the model loop -/
def Bland (x : Nat) : Prop := x < 128 ∧ x ≠ 92 ∧ x ≠ 10 ∧ x ≠ 13 ∧ x ≠ 36 ∧ x ≠ 39 ∧ x ≠ 34 ∧ x ≠ 96 ∧ x ≠ 60

theorem dec_bland_run {m : Bool} {q : Nat} (hq : IsQ q) : ∀ (p : List Nat) (t : List Nat), (∀ x ∈ p, Bland x) →
    decBody m q (p ++ t) = (decBody m q t).map (p ++ ·) := by
  intro p
  induction p with
  | nil => intro t _; simp
  | cons x p ih =>
    intro t h
    obtain ⟨h1, h2, h3, h4, h5, h6, h7, h8, h9⟩ := h x (by simp)
    have hxq : x ≠ q := by rcases hq with rfl | rfl | rfl <;> omega
    rw [List.cons_append, dec_plain h1 hxq h2 h3 h4 (by omega), ih t (fun y hy => h y (by simp [hy]))]
    cases decBody m q t <;> simp

theorem inert_of_bland {q x : Nat} (hq : IsQ q) (h : Bland x) : Inert q x := by
  obtain ⟨h1, h2, h3, h4, h5, h6, h7, h8, h9⟩ := h
  rcases hq with rfl | rfl | rfl <;> (unfold Inert; omega)

/-- `parse.EqualFold(s, "/script")`: a slash followed by six letters -/
theorem foldScript_inv {s : List Nat} (h : foldScript s = true) :
    ∃ t, s = 47 :: t ∧ t.length = 6 ∧ ∀ x ∈ t, Bland x := by
  unfold foldScript at h
  split at h
  · rename_i a b c d e f g
    simp only [foldEq, Bool.and_eq_true, Bool.or_eq_true, decide_eq_true_eq] at h
    obtain ⟨⟨⟨⟨⟨⟨ha, hb⟩, hc⟩, hd⟩, he⟩, hf⟩, hg⟩ := h
    have ha' : a = 47 := by omega
    subst ha'
    refine ⟨[b, c, d, e, f, g], rfl, rfl, ?_⟩
    intro x hx
    simp only [List.mem_cons, List.mem_nil_iff, or_false] at hx
    unfold Bland
    rcases hx with rfl | rfl | rfl | rfl | rfl | rfl <;> omega
  · simp at h

theorem guard_append_right {p l : List Nat} (h : Guard cf (p ++ l) = true) : Guard cf l = true := by
  have := guard_drop h p.length; simpa using this

/-- induction hypothesis of the simulation: all bodies of length ≤ n -/
def IH (cf m : Bool) (qi q : Nat) (n : Nat) : Prop :=
  ∀ l, l.length ≤ n → ∀ w, Guard cf l = true → decBody m qi l = some w → decBody m q (repA q false l) = some w

theorem prefix_split {p r : List Nat} (h : p.isPrefixOf r = true) : ∃ r', r = p ++ r' := by
  rw [List.isPrefixOf_iff_prefix] at h
  obtain ⟨t, ht⟩ := h
  exact ⟨t, ht.symm⟩

/-- a raw ASCII byte other than backslash, LF, CR, given that the rest of the body is valid -/
theorem sim_raw {m : Bool} {qi q : Nat} (cx : Ctx m qi q) {an : Bool} {c : Nat} {r v' : List Nat}
    (hc : c ≠ 92) (h128 : c < 128) (h10 : c ≠ 10) (h13 : c ≠ 13)
    (hg : Guard cf r = true) (hv : decBody m qi r = some v') (ih : IH cf m qi q r.length) :
    decBody m q (repA q an (c :: r)) = some (c :: v') := by
  have hq := cx.hq
  have hqi := cx.hqi
  rw [repA_cons]
  simp only [step, if_neg hc]
  split
  · -- escaped: quote or dangerous `$`
    rename_i h1
    have hid : decBody m q (92 :: c :: repA q false r) = (decBody m q (repA q false r)).map ([c] ++ ·) := by
      apply dec_esc_ident hq h128
      · rcases h1 with h1 | ⟨h1, _, _⟩
        · rcases hq with h | h | h <;> (subst h1; subst h; rfl)
        · subst h1; rfl
      · rcases h1 with h1 | ⟨h1, _, _⟩
        · rcases hq with h | h | h <;> omega
        · omega
    simp only [List.cons_append, List.nil_append, List.drop_zero]
    rw [hid, ih r (Nat.le_refl _) v' hg hv]; rfl
  · rename_i h1
    rw [if_neg (by omega)]
    have hplain : ∀ t, (c = 36 ∧ q = 96 → t.head? ≠ some 123) →
        decBody m q (c :: t) = (decBody m q t).map ([c] ++ ·) := by
      intro t ht
      apply dec_plain h128 (fun h => h1 (Or.inl h)) hc h10 h13
      rintro ⟨a, b, d⟩; exact ht ⟨a, b⟩ d
    have hdollar : c = 36 ∧ q = 96 → (repA q false r).head? ≠ some 123 := by
      rintro ⟨a, b⟩
      subst b
      apply head_after_dollar
      cases hd : dollarDanger r with
      | false => rfl
      | true => exact absurd (Or.inr ⟨a, rfl, hd⟩) h1
    have hdefault : decBody m q ([c] ++ repA q false (r.drop 0)) = some (c :: v') := by
      simp only [List.cons_append, List.nil_append, List.drop_zero]
      rw [hplain _ hdollar, ih r (Nat.le_refl _) v' hg hv]; rfl
    split
    · rename_i h60
      obtain ⟨h60, hlen⟩ := h60
      subst h60
      split
      · -- `<\/script` (any letter case) is copied as it is
        rename_i hs
        obtain ⟨hh, hlen8, hp⟩ := hs
        obtain ⟨t, ht, htl, htb⟩ := foldScript_inv hp
        have hr : r = 92 :: 47 :: (t ++ r.drop 8) := by
          cases r with
          | nil => simp at hh
          | cons a r0 =>
            simp only [List.head?_cons, Option.some.injEq] at hh
            subst hh
            simp only [List.drop_succ_cons, List.drop_zero] at ht
            have h1 : r0 = r0.take 7 ++ r0.drop 7 := (List.take_append_drop 7 r0).symm
            rw [ht] at h1
            simp only [List.drop_succ_cons]
            conv => lhs; rw [h1]
            simp
        generalize hr'' : r.drop 8 = r'' at hr
        have htake : List.take 7 (List.drop 1 r) = 47 :: t := ht
        rw [htake]
        subst hr
        have hg' : Guard cf r'' = true := by
          have := guard_drop hg (2 + t.length)
          simpa [Nat.add_comm] using this
        have hin : decBody m qi (92 :: 47 :: (t ++ r'')) = (decBody m qi r'').map ((47 :: t) ++ ·) := by
          rw [dec_esc_ident hqi (by omega) rfl (by omega), dec_bland_run hqi _ _ htb]
          cases decBody m qi r'' <;> simp
        rw [hin] at hv
        cases hv'' : decBody m qi r'' with
        | none => rw [hv''] at hv; simp at hv
        | some v'' =>
          rw [hv''] at hv
          simp only [Option.map_some, Option.some.injEq] at hv
          have hout := ih r'' (by simp; omega) v'' hg' hv''
          have : ((60 :: 92 :: 47 :: t, 8, false) : Res).1 ++ repA q ((60 :: 92 :: 47 :: t, 8, false) : Res).2.2 r'' =
              60 :: 92 :: 47 :: (t ++ repA q false r'') := rfl
          rw [this, hplain _ (by omega), dec_esc_ident hq (by omega) rfl (by omega),
            dec_bland_run hq _ _ htb, hout, ← hv]
          rfl
      · split
        · -- `</script` (any letter case) gets a backslash
          rename_i hp
          obtain ⟨t, ht, htl, htb⟩ := foldScript_inv hp
          have hr : r = 47 :: (t ++ r.drop 7) := by
            have h1 : r = r.take 7 ++ r.drop 7 := (List.take_append_drop 7 r).symm
            rw [ht] at h1
            exact h1
          generalize hr'' : r.drop 7 = r'' at hr
          subst hr
          have hg' : Guard cf (t ++ r'') = true := by
            have := guard_drop hg 1; simpa using this
          have hin : decBody m qi (47 :: (t ++ r'')) = (decBody m qi (t ++ r'')).map ([47] ++ ·) := by
            apply dec_plain (by omega) _ (by omega) (by omega) (by omega) (by omega)
            rcases hqi with h | h | h <;> omega
          rw [hin] at hv
          cases hv'' : decBody m qi (t ++ r'') with
          | none => rw [hv''] at hv; simp at hv
          | some v'' =>
            rw [hv''] at hv
            simp only [Option.map_some, Option.some.injEq] at hv
            have hout := ih (t ++ r'') (by simp) v'' hg' hv''
            have hd1 : List.drop 1 (47 :: (t ++ r'')) = t ++ r'' := rfl
            rw [hd1]
            have : ([60, 92, 47] ++ repA q false (t ++ r'')) = 60 :: 92 :: 47 :: repA q false (t ++ r'') := rfl
            rw [this, hplain _ (by omega), dec_esc_ident hq (by omega) rfl (by omega), hout, ← hv]
            rfl
        · exact hdefault
    · exact hdefault

/-- a raw multi-byte character -/
theorem sim_utf8 {m : Bool} {qi q : Nat} (cx : Ctx m qi q) {an : Bool} {c k : Nat} {r us v' : List Nat}
    (h128 : 128 ≤ c) (hu : utf8Step c r = some (us, k))
    (hg : Guard cf (r.drop k) = true) (hv : decBody m qi (r.drop k) = some v') (ih : IH cf m qi q r.length) :
    decBody m q (repA q an (c :: r)) = some (us ++ v') := by
  obtain ⟨hk, hge, hind⟩ := utf8Step_take hu
  have hsplit : c :: r = (c :: r.take k) ++ r.drop k := by simp
  have hin : ∀ x ∈ c :: r.take k, Inert q x := by
    intro x hx
    simp only [List.mem_cons] at hx
    rcases hx with rfl | hx
    · exact inert_of_ge cx.hq h128
    · exact inert_of_ge cx.hq (hge x hx)
  rw [hsplit, repA_inert_run _ hin (by simp), List.cons_append, decBody_cons, decStep_utf8 cx.hq h128, hind]
  have hd : List.drop k (List.take k r ++ repA q false (List.drop k r)) = repA q false (List.drop k r) := by
    rw [List.drop_append_of_le_length (by simp; omega)]
    simp [List.drop_take_self]
  simp only [hd]
  rw [ih _ (by simp) v' hg hv]
  rfl

theorem ih_mono {m : Bool} {qi q : Nat} {n k : Nat} (h : IH cf m qi q n) (hk : k ≤ n) : IH cf m qi q k :=
  fun l hl w hg hv => h l (Nat.le_trans hl hk) w hg hv

/-- decomposition of a valid non-empty body -/
theorem valid_cons {m : Bool} {q c : Nat} {r w : List Nat} (h : decBody m q (c :: r) = some w) :
    ∃ us k v', decStep m q c r = some (us, k) ∧ decBody m q (r.drop k) = some v' ∧ w = us ++ v' := by
  rw [decBody_cons] at h
  cases hs : decStep m q c r with
  | none => rw [hs] at h; simp at h
  | some p =>
    obtain ⟨us, k⟩ := p
    rw [hs] at h
    simp only at h
    cases hv : decBody m q (r.drop k) with
    | none => rw [hv] at h; simp at h
    | some v' =>
      rw [hv] at h
      simp only [Option.map_some, Option.some.injEq] at h
      exact ⟨us, k, v', rfl, hv, h.symm⟩

/-- line continuations read as nothing -/
theorem esc_lc {lgc : Bool} {e : Nat} {r1 : List Nat} (h : 0 < lcLen e r1) :
    escStep lgc e r1 = some ([], lcLen e r1) := by
  unfold lcLen at h ⊢
  split at h
  · rename_i h10; subst h10; simp [escStep, isDig]
  · split at h
    · rename_i _ h13; subst h13
      by_cases hh : r1.head? = some 10 <;> simp [escStep, isDig, hh]
    · split at h
      · rename_i h10 h13 hE
        obtain ⟨hE, h80, hA⟩ := hE
        subst hE
        rcases hA with hA | hA <;> (simp only [List.head?_drop] at hA; simp [escStep, isDig, h80, hA])
      · omega

/-- a removed line continuation -/
theorem sim_lc {m : Bool} {qi q : Nat} (cx : Ctx m qi q) {e : Nat} {r1 w : List Nat}
    (hk : ¬ (e = q ∨ e = 92 ∨ e = 114 ∨ (q ≠ 96 ∧ e = 110) ∨ (e = 48 ∧ ¬ r1.head?.any isOct)))
    (hl : 0 < lcLen e r1) (hg : Guard cf (92 :: e :: r1) = true)
    (hv : decBody m qi (92 :: e :: r1) = some w) (ih : IH cf m qi q (e :: r1).length) :
    decBody m q (repA q false (92 :: e :: r1)) = some w := by
  rw [dec_of_esc cx.hqi (esc_lc hl)] at hv
  rw [repA_cons]
  have hs : step q false 92 (e :: r1) = ([], lcLen e r1, false) := by
    simp only [step, if_true, escM, if_neg hk]
    simp [hl]
  rw [hs]
  simp only [List.nil_append]
  cases hv' : decBody m qi ((e :: r1).drop (lcLen e r1)) with
  | none => rw [hv'] at hv; simp at hv
  | some v' =>
    rw [hv'] at hv
    simp only [Option.map_some, List.nil_append, Option.some.injEq] at hv
    subst hv
    exact ih _ (by simp) v' (guard_drop (guard_drop hg 1) _) hv'

/-- closing step for an escape sequence of the input that the decoder reads as `us`, consuming `k` bytes;
    the output chunk `o` only has to read as `us` in front of the actual rest of the output -/
theorem finish_esc_at {m : Bool} {qi q : Nat} (cx : Ctx m qi q) {e k : Nat} {r1 us o w : List Nat}
    (hv : decBody m qi (92 :: e :: r1) = some w) (hg : Guard cf (92 :: e :: r1) = true)
    (hin : escStep (lg m qi) e r1 = some (us, k))
    (hout : decBody m q (o ++ repA q false ((e :: r1).drop k)) =
      (decBody m q (repA q false ((e :: r1).drop k))).map (us ++ ·))
    (ih : IH cf m qi q (e :: r1).length) :
    decBody m q (o ++ repA q false ((e :: r1).drop k)) = some w := by
  rw [dec_of_esc cx.hqi hin] at hv
  cases hv' : decBody m qi ((e :: r1).drop k) with
  | none => rw [hv'] at hv; simp at hv
  | some v' =>
    rw [hv'] at hv
    simp only [Option.map_some, Option.some.injEq] at hv
    subst hv
    have hg' : Guard cf ((e :: r1).drop k) = true := guard_drop (l := e :: r1) (by simpa using guard_drop hg 1) k
    rw [hout, ih _ (by simp) v' hg' hv']
    rfl

theorem finish_esc {m : Bool} {qi q : Nat} (cx : Ctx m qi q) {e k : Nat} {r1 us o w : List Nat}
    (hv : decBody m qi (92 :: e :: r1) = some w) (hg : Guard cf (92 :: e :: r1) = true)
    (hin : escStep (lg m qi) e r1 = some (us, k))
    (hout : ∀ t, decBody m q (o ++ t) = (decBody m q t).map (us ++ ·))
    (ih : IH cf m qi q (e :: r1).length) :
    decBody m q (o ++ repA q false ((e :: r1).drop k)) = some w :=
  finish_esc_at cx hv hg hin (hout _) ih

/-- `\q`, `\\`, `\r`, and `\n` under a quote other than the backtick are kept -/
theorem sim_keep {m : Bool} {qi q : Nat} (cx : Ctx m qi q) {e : Nat} {r1 w : List Nat}
    (hk : e = q ∨ e = 92 ∨ e = 114 ∨ (q ≠ 96 ∧ e = 110))
    (hg : Guard cf (92 :: e :: r1) = true)
    (hv : decBody m qi (92 :: e :: r1) = some w) (ih : IH cf m qi q (e :: r1).length) :
    decBody m q (repA q false (92 :: e :: r1)) = some w := by
  have hq := cx.hq
  have h48 : e ≠ 48 := by rcases hk with h | h | h | ⟨_, h⟩ <;> rcases hq with h' | h' | h' <;> omega
  rw [repA_cons]
  have hs : step q false 92 (e :: r1) = ([92, e], 1, false) := by
    have : (e = q ∨ e = 92 ∨ e = 114 ∨ (q ≠ 96 ∧ e = 110) ∨ (e = 48 ∧ ¬ r1.head?.any isOct)) := by
      rcases hk with h | h | h | h
      · exact Or.inl h
      · exact Or.inr (Or.inl h)
      · exact Or.inr (Or.inr (Or.inl h))
      · exact Or.inr (Or.inr (Or.inr (Or.inl h)))
    simp only [step, if_true, escM, if_pos this]
    simp [h48]
  rw [hs]
  have hd1 : List.drop 1 (e :: r1) = (e :: r1).drop 1 := rfl
  rcases hk with h | h | h | ⟨_, h⟩
  · -- the output quote: an identity escape on both sides
    have hid : e < 128 ∧ e ≠ 110 ∧ e ≠ 114 ∧ e ≠ 116 ∧ e ≠ 98 ∧ e ≠ 102 ∧ e ≠ 118 ∧ e ≠ 120 ∧ e ≠ 117 ∧ e ≠ 10 ∧ e ≠ 13 := by
      rcases hq with h' | h' | h' <;> omega
    have hd : isDig e = false := by
      rcases hq with h' | h' | h' <;> (rw [h, h']; rfl)
    exact finish_esc cx hv hg (esc_ident hid.1 hd hid.2) (fun t => dec_esc_ident hq hid.1 hd hid.2) ih
  · subst h
    exact finish_esc cx hv hg (esc_ident (by omega) rfl (by omega)) (fun t => dec_esc_ident hq (by omega) rfl (by omega)) ih
  · subst h
    exact finish_esc cx hv hg (us := [13]) (k := 1) (by simp [escStep]) (fun t => dec_esc_r hq) ih
  · subst h
    exact finish_esc cx hv hg (us := [10]) (k := 1) (by simp [escStep]) (fun t => dec_esc_n hq) ih

/-- shape of a valid `\x` escape -/
theorem esc_hex_inv {lgc : Bool} {r1 us : List Nat} {k : Nat} (h : escStep lgc 120 r1 = some (us, k)) :
    ∃ a b r2, r1 = a :: b :: r2 ∧ isHex a = true ∧ isHex b = true := by
  simp only [escStep] at h
  simp at h
  match r1, h with
  | a :: b :: r2, h =>
    simp only at h
    split at h
    · rename_i hh; exact ⟨a, b, r2, rfl, hh.1, hh.2⟩
    · simp at h
  | [_], h => simp at h
  | [], h => simp at h

theorem hexV_le {a : Nat} (h : isHex a = true) : hexV a ≤ 15 := by
  simp only [isHex, Bool.or_eq_true, Bool.and_eq_true, decide_eq_true_eq] at h
  unfold hexV; split <;> (try split) <;> omega

theorem hexV_lt8 {a : Nat} (h : isHex a = true) (h8 : a < 56) : hexV a = a - 48 ∧ 48 ≤ a := by
  simp only [isHex, Bool.or_eq_true, Bool.and_eq_true, decide_eq_true_eq] at h
  unfold hexV; split <;> omega

/-- `\xHH` -/
theorem sim_hex {m : Bool} {qi q : Nat} (cx : Ctx m qi q) {r1 w : List Nat}
    (hg : Guard cf (92 :: 120 :: r1) = true)
    (hv : decBody m qi (92 :: 120 :: r1) = some w) (ih : IH cf m qi q (120 :: r1).length) :
    decBody m q (repA q false (92 :: 120 :: r1)) = some w := by
  have hq := cx.hq
  obtain ⟨us, k, v', hs, _, _⟩ := valid_cons hv
  rw [decStep_bsl cx.hqi] at hs
  obtain ⟨a, b, r2, rfl, ha, hb⟩ := esc_hex_inv hs
  have hin := esc_hex (lgc := lg m qi) (t := r2) ha hb
  rw [repA_cons]
  have hk : ¬ (120 = q ∨ 120 = 92 ∨ 120 = 114 ∨ (q ≠ 96 ∧ 120 = 110) ∨ (120 = 48 ∧ ¬ (a :: b :: r2).head?.any isOct)) := by
    rcases hq with h | h | h <;> omega
  have hs1 : step q false 92 (120 :: a :: b :: r2) = hexM q false (a :: b :: r2) := by
    simp only [step, if_true, escM, if_neg hk]
    simp [lcLen]
  rw [hs1]
  unfold hexM
  simp only []
  split
  · rename_i hc
    obtain ⟨_, ha8, _, _, _⟩ := hc
    obtain ⟨hva, ha48⟩ := hexV_lt8 ha ha8
    have hvb := hexV_le hb
    split
    · -- written as a two-byte escape
      rename_i he
      have hd3 : List.drop 3 (120 :: a :: b :: r2) = (120 :: a :: b :: r2).drop 3 := rfl
      simp only []
      rw [hd3]
      refine finish_esc cx hv hg hin (fun t => ?_) ih
      rcases he with he | he | he | ⟨_, he⟩ | ⟨_, he⟩
      · rw [he, show escOf 92 = 92 from rfl]; exact dec_esc_ident hq (by omega) rfl (by omega)
      · rw [he]
        have : escOf q = q := by rcases hq with h | h | h <;> (subst h; rfl)
        rw [this]
        apply dec_esc_ident hq
        · rcases hq with h | h | h <;> omega
        · rcases hq with h | h | h <;> (subst h; rfl)
        · rcases hq with h | h | h <;> omega
      · rw [he]; exact dec_esc_r hq
      · rw [he]; exact dec_esc_n hq
      · rw [he, show escOf 36 = 36 from rfl]; exact dec_esc_ident hq (by omega) rfl (by omega)
    · -- written raw
      rename_i he
      have hd3 : List.drop 3 (120 :: a :: b :: r2) = (120 :: a :: b :: r2).drop 3 := rfl
      simp only []
      rw [hd3]
      refine finish_esc cx hv hg hin (fun t => ?_) ih
      by_cases h10 : hexV a * 16 + hexV b = 10
      · have hq96 : q = 96 := by
          by_cases h : q = 96
          · exact h
          · exact absurd (Or.inr (Or.inr (Or.inr (Or.inl ⟨h, h10⟩)))) he
        subst hq96
        rw [h10]; exact dec_lf_tmpl
      · apply dec_plain (by omega) (fun h => he (Or.inr (Or.inl h))) (fun h => he (Or.inl h)) h10
          (fun h => he (Or.inr (Or.inr (Or.inl h))))
        rintro ⟨h1, h2, _⟩
        exact he (Or.inr (Or.inr (Or.inr (Or.inr ⟨h2, h1⟩))))
  · -- kept: `\x` is copied, the two digits are inert
    have hd1 : List.drop 1 (120 :: a :: b :: r2) = [a, b] ++ r2 := rfl
    simp only []
    rw [hd1, repA_inert_run' [a, b] (by
      intro x hx; simp at hx; rcases hx with rfl | rfl
      · exact inert_of_hex hq ha
      · exact inert_of_hex hq hb)]
    have : [92, 120] ++ ([a, b] ++ repA q false r2) = [92, 120, a, b] ++ repA q false ((120 :: a :: b :: r2).drop 3) := rfl
    rw [this]
    exact finish_esc cx hv hg hin (fun t => dec_hex4 hq ha hb) ih

/-- `\t \f \v \b`, and `\n` under a backtick: written as the raw control character -/
theorem sim_ctrl {m : Bool} {qi q : Nat} (cx : Ctx m qi q) {e : Nat} {r1 w : List Nat}
    (he : (q = 96 ∧ e = 110) ∨ e = 116 ∨ e = 102 ∨ e = 118 ∨ e = 98)
    (hg : Guard cf (92 :: e :: r1) = true)
    (hv : decBody m qi (92 :: e :: r1) = some w) (ih : IH cf m qi q (e :: r1).length) :
    decBody m q (repA q false (92 :: e :: r1)) = some w := by
  have hq := cx.hq
  rw [repA_cons]
  have hd1 : ∀ x, (x :: r1).drop 1 = r1 := fun _ => rfl
  have hne : ∀ x, x < 32 → x ≠ q := by intro x hx; rcases hq with h | h | h <;> omega
  rcases he with ⟨h96, he⟩ | he | he | he | he
  · subst he; subst h96
    have hs : step 96 false 92 (110 :: r1) = ([10], 1, false) := by simp [step, escM, lcLen, isOct]
    rw [hs]
    exact finish_esc cx hv hg (us := [10]) (k := 1) (by simp [escStep]) (fun t => dec_lf_tmpl) ih
  · subst he
    have hs : step q false 92 (116 :: r1) = ([9], 1, false) := by
      rcases hq with h | h | h <;> simp [step, escM, lcLen, isOct, h]
    rw [hs]
    exact finish_esc cx hv hg (us := [9]) (k := 1) (by simp [escStep])
      (fun t => dec_plain (by omega) (hne 9 (by omega)) (by omega) (by omega) (by omega) (by omega)) ih
  · subst he
    have hs : step q false 92 (102 :: r1) = ([12], 1, false) := by
      rcases hq with h | h | h <;> simp [step, escM, lcLen, isOct, h]
    rw [hs]
    exact finish_esc cx hv hg (us := [12]) (k := 1) (by simp [escStep])
      (fun t => dec_plain (by omega) (hne 12 (by omega)) (by omega) (by omega) (by omega) (by omega)) ih
  · subst he
    have hs : step q false 92 (118 :: r1) = ([11], 1, false) := by
      rcases hq with h | h | h <;> simp [step, escM, lcLen, isOct, h]
    rw [hs]
    exact finish_esc cx hv hg (us := [11]) (k := 1) (by simp [escStep])
      (fun t => dec_plain (by omega) (hne 11 (by omega)) (by omega) (by omega) (by omega) (by omega)) ih
  · subst he
    have hs : step q false 92 (98 :: r1) = ([8], 1, false) := by
      rcases hq with h | h | h <;> simp [step, escM, lcLen, isOct, h]
    rw [hs]
    exact finish_esc cx hv hg (us := [8]) (k := 1) (by simp [escStep])
      (fun t => dec_plain (by omega) (hne 8 (by omega)) (by omega) (by omega) (by omega) (by omega)) ih

/-- an unnecessary escape `\c`: the backslash is dropped and `c` is scanned as a raw byte -/
theorem sim_ident {m : Bool} {qi q : Nat} (cx : Ctx m qi q) {e : Nat} {r1 w : List Nat}
    (hk : ¬ (e = q ∨ e = 92 ∨ e = 114 ∨ (q ≠ 96 ∧ e = 110) ∨ (e = 48 ∧ ¬ r1.head?.any isOct)))
    (hl : lcLen e r1 = 0)
    (he : e ≠ 120 ∧ e ≠ 110 ∧ e ≠ 116 ∧ e ≠ 102 ∧ e ≠ 118 ∧ e ≠ 98) (h117 : e ≠ 117) (hd : isDig e = false)
    (hg : Guard cf (92 :: e :: r1) = true)
    (hv : decBody m qi (92 :: e :: r1) = some w) (ih : IH cf m qi q (e :: r1).length) :
    decBody m q (repA q false (92 :: e :: r1)) = some w := by
  obtain ⟨e1, e2, e3, e4, e5, e6⟩ := he
  have hoct : isOct e = false := by
    simp only [isDig, Bool.and_eq_false_imp, decide_eq_true_eq, decide_eq_false_iff_not] at hd
    simp only [isOct, Bool.and_eq_false_imp, decide_eq_true_eq, decide_eq_false_iff_not]
    intro h; have := hd h; omega
  have h10 : e ≠ 10 := by intro h; subst h; simp [lcLen] at hl
  have h13 : e ≠ 13 := by
    intro h; subst h
    by_cases hh : r1.head? = some 10 <;> simp [lcLen, hh] at hl
  have h92 : e ≠ 92 := fun h => hk (Or.inr (Or.inl h))
  have h114 : e ≠ 114 := fun h => hk (Or.inr (Or.inr (Or.inl h)))
  have hg1 : Guard cf (e :: r1) = true := by simpa using guard_drop hg 1
  have hg2 : Guard cf r1 = true := by simpa using guard_drop hg 2
  rw [repA_cons]
  have hs : step q false 92 (e :: r1) = ([], 0, false) := by
    simp only [step, if_true, escM, if_neg hk]
    simp [hl, e1, h117, hoct, e2, e3, e4, e5, e6]
  rw [hs]
  simp only [List.nil_append, List.drop_zero]
  obtain ⟨us, k, v', hst, hv', hw⟩ := valid_cons hv
  rw [decStep_bsl cx.hqi] at hst
  by_cases h128 : e < 128
  · rw [esc_ident h128 hd ⟨e2, h114, e3, e6, e4, e5, e1, h117, h10, h13⟩] at hst
    simp only [Option.some.injEq, Prod.mk.injEq] at hst
    obtain ⟨rfl, rfl⟩ := hst
    subst hw
    exact sim_raw cx h92 h128 h10 h13 hg2 hv' (ih_mono ih (by simp))
  · have hE : ¬ (e = 226 ∧ r1.head? = some 128 ∧ (r1.drop 1).head?.any (fun x => x = 168 ∨ x = 169)) := by
      rintro ⟨h1, h2, h3⟩
      subst h1
      simp only [lcLen] at hl
      cases h4 : (r1.drop 1).head? with
      | none => rw [h4] at h3; simp at h3
      | some x =>
        rw [h4] at h3
        simp at h3
        simp only [List.head?_drop] at h4
        rcases h3 with h3 | h3 <;> (subst h3; simp [h2, h4] at hl)
    have hes : escStep (lg m qi) e r1 = (utf8Step e r1).map (fun p => (p.1, p.2 + 1)) := by
      simp only [escStep]
      simp [e2, h114, e3, e6, e4, e5, e1, h117, hd, h10, h13]
      rw [if_neg (by simpa using hE), if_neg (by omega)]
    rw [hes] at hst
    cases hu : utf8Step e r1 with
    | none => rw [hu] at hst; simp at hst
    | some p =>
      obtain ⟨us', k'⟩ := p
      rw [hu] at hst
      simp only [Option.map_some, Option.some.injEq, Prod.mk.injEq] at hst
      obtain ⟨rfl, rfl⟩ := hst
      subst hw
      simp only [List.drop_succ_cons] at hv'
      exact sim_utf8 cx (by omega) hu (guard_drop hg2 _) hv' (ih_mono ih (by simp))

/-! ## `\u` escapes -/

theorem isHex_ne {x : Nat} (h : isHex x = true) : x ≠ 123 ∧ x ≠ 125 := by
  simp only [isHex, Bool.or_eq_true, Bool.and_eq_true, decide_eq_true_eq] at h; omega

theorem takeWhile_hex_append {ds t : List Nat} (h : ∀ x ∈ ds, isHex x = true) :
    (ds ++ 125 :: t).takeWhile isHex = ds := by
  induction ds with
  | nil => simp [isHex]
  | cons x ds ih =>
    have hx := h x (by simp)
    simp only [List.cons_append, List.takeWhile_cons, hx, if_true]
    rw [ih (fun y hy => h y (by simp [hy]))]

theorem mem_takeWhile_true {p : Nat → Bool} : ∀ {l : List Nat} {x : Nat}, x ∈ l.takeWhile p → p x = true := by
  intro l
  induction l with
  | nil => intro x h; simp at h
  | cons a l ih =>
    intro x h
    simp only [List.takeWhile_cons] at h
    split at h
    · rename_i ha
      simp only [List.mem_cons] at h
      rcases h with rfl | h
      · exact ha
      · exact ih h
    · simp at h

theorem split_takeWhile {p : Nat → Bool} (l : List Nat) {y : Nat} (h : l[(l.takeWhile p).length]? = some y) :
    ∃ r, l = l.takeWhile p ++ y :: r := by
  have hsplit := List.takeWhile_append_dropWhile (p := p) (l := l)
  have h' : (l.takeWhile p ++ l.dropWhile p)[(l.takeWhile p).length]? = some y := by rw [hsplit]; exact h
  rw [List.getElem?_append_right (Nat.le_refl _)] at h'
  simp only [Nat.sub_self] at h'
  cases hd : l.dropWhile p with
  | nil => rw [hd] at h'; simp at h'
  | cons z zs =>
    rw [hd] at h'
    simp only [List.getElem?_cons_zero, Option.some.injEq] at h'
    subst h'
    exact ⟨zs, by rw [← hd, hsplit]⟩

/-- `\uHHHH` read by the decoder -/
theorem esc_u4 {lgc : Bool} {a b c d : Nat} {t : List Nat} (ha : isHex a = true) (hb : isHex b = true)
    (hc : isHex c = true) (hd : isHex d = true) :
    escStep lgc 117 (a :: b :: c :: d :: t) = some ([hexNat [a, b, c, d]], 5) := by
  have := (isHex_ne ha).1
  simp [escStep, ha, hb, hc, hd, this]

/-- `\u{H…}` read by the decoder -/
theorem esc_ubrace {lgc : Bool} {ds t : List Nat} (h : ∀ x ∈ ds, isHex x = true) (hne : ds ≠ [])
    (hv : hexNat ds ≤ 0x10FFFF) :
    escStep lgc 117 (123 :: (ds ++ 125 :: t)) = some (units (hexNat ds), 3 + ds.length) := by
  simp only [escStep]
  simp [takeWhile_hex_append h, hne, hv]

/-- shape of a valid `\u` escape -/
theorem esc_u_inv {lgc : Bool} {r1 us : List Nat} {k : Nat} (h : escStep lgc 117 r1 = some (us, k)) :
    (∃ a b c d r2, r1 = a :: b :: c :: d :: r2 ∧ isHex a = true ∧ isHex b = true ∧ isHex c = true ∧ isHex d = true) ∨
    (∃ ds r2, r1 = 123 :: (ds ++ 125 :: r2) ∧ (∀ x ∈ ds, isHex x = true) ∧ ds ≠ [] ∧ hexNat ds ≤ 0x10FFFF) := by
  simp only [escStep] at h
  simp at h
  cases r1 with
  | nil => simp at h
  | cons g r2 =>
    simp only at h
    split at h
    · rename_i hg
      subst hg
      right
      split at h
      · rename_i hc
        obtain ⟨h1, h2, h3⟩ := hc
        obtain ⟨r3, hr3⟩ := split_takeWhile r2 h2
        refine ⟨r2.takeWhile isHex, r3, ?_, ?_, h1, h3⟩
        · rw [← hr3]
        · intro x hx; exact mem_takeWhile_true hx
      · simp at h
    · left
      match r2, h with
      | b :: c :: d :: r3, h =>
        simp only at h
        split at h
        · rename_i hh; exact ⟨g, b, c, d, r3, rfl, hh.1, hh.2.1, hh.2.2.1, hh.2.2.2⟩
        · simp at h
      | [_, _], h => simp at h
      | [_], h => simp at h
      | [], h => simp at h

/-- the part of `uniM` after the digits have been found -/
def uniTail (q : Nat) (an : Bool) (ds : List Nat) (skip : Nat) : Res :=
  if ds = [] ∨ 0x10FFFF ≤ hexNat ds ∨ hexNat ds = 60 ∨ (an ∧ 48 ≤ hexNat ds ∧ hexNat ds ≤ 57) then ([92, 117], 1, false) else
  if hexNat ds = 0 then ([92, 120, 48, 48], skip, false)
  else if hexNat ds = 13 then ([92, 114], skip, false)
  else if hexNat ds = 10 ∧ q ≠ 96 then ([92, 110], skip, false)
  else if 0xD800 ≤ hexNat ds ∧ hexNat ds ≤ 0xDFFF then ([92, 117], 1, false)
  else if hexNat ds = 92 ∨ (hexNat ds < 256 ∧ q = hexNat ds) ∨ (q = 96 ∧ hexNat ds = 36) then (92 :: utf8Enc (hexNat ds), skip, false)
  else (utf8Enc (hexNat ds), skip, false)

theorem uniM_u4 {q : Nat} {an : Bool} {a b c d : Nat} {r2 : List Nat} (ha : isHex a = true) (hb : isHex b = true)
    (hc : isHex c = true) (hd : isHex d = true) :
    uniM q an (a :: b :: c :: d :: r2) = uniTail q an [a, b, c, d] 5 := by
  have := (isHex_ne ha).1
  simp [uniM, uniTail, ha, hb, hc, hd, this]

theorem uniM_brace {q : Nat} {an : Bool} {ds r2 : List Nat} (h : ∀ x ∈ ds, isHex x = true) :
    uniM q an (123 :: (ds ++ 125 :: r2)) =
      if 6 < ds.length then ([92, 117], 1, false) else uniTail q an ds (1 + ds.length + 2) := by
  simp only [uniM, uniTail]
  simp [takeWhile_hex_append h]


theorem hexNat_four {a b c d : Nat} (ha : isHex a = true) (hb : isHex b = true) (hc : isHex c = true)
    (hd : isHex d = true) : hexNat [a, b, c, d] < 65536 := by
  have h1 := hexV_le ha; have h2 := hexV_le hb; have h3 := hexV_le hc; have h4 := hexV_le hd
  simp only [hexNat, List.foldl_cons, List.foldl_nil]
  omega

theorem units_small {n : Nat} (h : n < 65536) : units n = [n] := by simp [units, h]

/-- a `\u` escape that is kept: `\u` is copied, the rest of the escape is inert -/
theorem sim_uni_kept {m : Bool} {qi q : Nat} (cx : Ctx m qi q) {p r2 us w : List Nat}
    (hp : ∀ x ∈ p, Inert q x)
    (hesc : ∀ (lgc : Bool) (t : List Nat), escStep lgc 117 (p ++ t) = some (us, 1 + p.length))
    (hg : Guard cf (92 :: 117 :: (p ++ r2)) = true)
    (hv : decBody m qi (92 :: 117 :: (p ++ r2)) = some w) (ih : IH cf m qi q (117 :: (p ++ r2)).length) :
    decBody m q ([92, 117] ++ repA q false ((117 :: (p ++ r2)).drop 1)) = some w := by
  have hq := cx.hq
  have hdrop : (117 :: (p ++ r2)).drop (1 + p.length) = r2 := by
    rw [Nat.add_comm]; simp
  have : (117 :: (p ++ r2)).drop 1 = p ++ r2 := rfl
  rw [this, repA_inert_run' p hp]
  have h2 : [92, 117] ++ (p ++ repA q false r2) = (92 :: 117 :: p) ++ repA q false ((117 :: (p ++ r2)).drop (1 + p.length)) := by
    rw [hdrop]; simp
  rw [h2]
  refine finish_esc cx hv hg (hesc _ _) (fun t => ?_) ih
  have : (92 :: 117 :: p) ++ t = 92 :: 117 :: (p ++ t) := by simp
  rw [this, dec_of_esc hq (hesc _ t)]
  have : (117 :: (p ++ t)).drop (1 + p.length) = t := by rw [Nat.add_comm]; simp
  rw [this]

/-- the common part of the two `\u` forms: `p` are the bytes of the escape after `\u` -/
theorem sim_uniTail {m : Bool} {qi q : Nat} (cx : Ctx m qi q) {p ds r2 us w : List Nat}
    (hp : ∀ x ∈ p, Inert q x)
    (hesc : ∀ (lgc : Bool) (t : List Nat), escStep lgc 117 (p ++ t) = some (us, 1 + p.length))
    (hus : us = units (hexNat ds)) (hlt : hexNat ds ≤ 0x10FFFF)
    (hg : Guard cf (92 :: 117 :: (p ++ r2)) = true)
    (hv : decBody m qi (92 :: 117 :: (p ++ r2)) = some w) (ih : IH cf m qi q (117 :: (p ++ r2)).length)
    (hstep : step q false 92 (117 :: (p ++ r2)) = uniTail q false ds (1 + p.length)) :
    decBody m q (repA q false (92 :: 117 :: (p ++ r2))) = some w := by
  have hq := cx.hq
  have hkeep := sim_uni_kept cx hp hesc hg hv ih
  rw [repA_cons, hstep]
  unfold uniTail
  split
  · exact hkeep
  · rename_i h1
    simp only [not_or, not_and, Bool.false_eq_true, false_and, not_false_eq_true, and_true] at h1
    obtain ⟨_, h1b, h1c⟩ := h1
    split
    · rename_i h0
      refine finish_esc cx hv hg (hesc _ _) (fun t => ?_) ih
      rw [hus, h0]
      exact dec_hex4 hq rfl rfl
    · split
      · rename_i h13
        refine finish_esc cx hv hg (hesc _ _) (fun t => ?_) ih
        rw [hus, h13]; exact dec_esc_r hq
      · split
        · rename_i h10
          refine finish_esc cx hv hg (hesc _ _) (fun t => ?_) ih
          rw [hus, h10.1]; exact dec_esc_n hq
        · rename_i h13 h10
          split
          · exact hkeep
          · rename_i hsur
            split
            · rename_i hesc'
              -- an ASCII character that must stay escaped
              have hn : hexNat ds < 128 := by
                rcases hesc' with h | ⟨_, h⟩ | ⟨_, h⟩
                · omega
                · rcases hq with h' | h' | h' <;> omega
                · omega
              have henc : utf8Enc (hexNat ds) = [hexNat ds] := by simp [utf8Enc, hn]
              rw [henc]
              refine finish_esc cx hv hg (hesc _ _) (fun t => ?_) ih
              rw [hus, units_small (by omega)]
              apply dec_esc_ident hq hn
              · rcases hesc' with h | ⟨_, h⟩ | ⟨_, h⟩
                · rw [h]; rfl
                · rcases hq with h' | h' | h' <;> (rw [← h, h']; rfl)
                · rw [h]; rfl
              · rcases hesc' with h | ⟨_, h⟩ | ⟨_, h⟩
                · omega
                · rcases hq with h' | h' | h' <;> omega
                · omega
            · rename_i hraw
              refine finish_esc cx hv hg (hesc _ _) (fun t => ?_) ih
              rw [hus]
              by_cases hn : hexNat ds < 128
              · have henc : utf8Enc (hexNat ds) = [hexNat ds] := by simp [utf8Enc, hn]
                rw [henc, units_small (by omega)]
                by_cases h10' : hexNat ds = 10
                · have hq96 : q = 96 := by
                    by_cases h : q = 96
                    · exact h
                    · exact absurd ⟨h10', h⟩ h10
                  subst hq96
                  rw [h10']; exact dec_lf_tmpl
                · apply dec_plain hn (fun h => hraw (Or.inr (Or.inl ⟨by omega, h.symm⟩)))
                    (fun h => hraw (Or.inl h)) h10' h13
                  rintro ⟨a1, a2, _⟩
                  exact hraw (Or.inr (Or.inr ⟨a2, a1⟩))
              · exact dec_utf8Enc hq (by omega) (by omega) hsur

theorem step_uni {q : Nat} {r1 : List Nat} (hq : IsQ q) : step q false 92 (117 :: r1) = uniM q false r1 := by
  have hk : ¬ (117 = q ∨ 117 = 92 ∨ 117 = 114 ∨ (q ≠ 96 ∧ 117 = 110) ∨ (117 = 48 ∧ ¬ r1.head?.any isOct)) := by
    rcases hq with h | h | h <;> omega
  simp only [step, if_true, escM, if_neg hk]
  simp [lcLen]

/-- `\uHHHH` and `\u{H…}` -/
theorem sim_uni {m : Bool} {qi q : Nat} (cx : Ctx m qi q) {r1 w : List Nat}
    (hg : Guard cf (92 :: 117 :: r1) = true)
    (hv : decBody m qi (92 :: 117 :: r1) = some w) (ih : IH cf m qi q (117 :: r1).length) :
    decBody m q (repA q false (92 :: 117 :: r1)) = some w := by
  have hq := cx.hq
  obtain ⟨us, k, v', hs, _, _⟩ := valid_cons hv
  rw [decStep_bsl cx.hqi] at hs
  rcases esc_u_inv hs with ⟨a, b, c, d, r2, rfl, ha, hb, hc, hd⟩ | ⟨ds, r2, rfl, hds, hne, hle⟩
  · have hp : ∀ x ∈ [a, b, c, d], Inert q x := by
      intro x hx; simp at hx
      rcases hx with rfl | rfl | rfl | rfl <;> (apply inert_of_hex hq; assumption)
    have h4 := hexNat_four ha hb hc hd
    exact sim_uniTail (p := [a, b, c, d]) (ds := [a, b, c, d]) (r2 := r2) cx hp
      (fun lgc t => esc_u4 ha hb hc hd) (units_small h4).symm (by omega) hg hv ih
      (by rw [step_uni hq]; exact uniM_u4 ha hb hc hd)
  · have hp : ∀ x ∈ 123 :: (ds ++ [125]), Inert q x := by
      intro x hx
      simp only [List.mem_cons, List.mem_append, List.mem_nil_iff, or_false] at hx
      rcases hx with rfl | hx | rfl
      · rcases hq with h | h | h <;> (unfold Inert; omega)
      · exact inert_of_hex hq (hds x hx)
      · rcases hq with h | h | h <;> (unfold Inert; omega)
    have hassoc : ∀ t : List Nat, (123 :: (ds ++ [125])) ++ t = 123 :: (ds ++ 125 :: t) := by intro t; simp
    have hlen : 1 + (123 :: (ds ++ [125])).length = 3 + ds.length := by simp; omega
    have hesc : ∀ (lgc : Bool) (t : List Nat),
        escStep lgc 117 ((123 :: (ds ++ [125])) ++ t) = some (units (hexNat ds), 1 + (123 :: (ds ++ [125])).length) := by
      intro lgc t; rw [hassoc, hlen]; exact esc_ubrace hds hne hle
    rw [← hassoc] at hg hv ih ⊢
    by_cases h6 : 6 < ds.length
    · rw [repA_cons]
      have : step q false 92 (117 :: ((123 :: (ds ++ [125])) ++ r2)) = ([92, 117], 1, false) := by
        rw [step_uni hq, hassoc, uniM_brace hds, if_pos h6]
      rw [this]
      exact sim_uni_kept cx hp hesc hg hv ih
    · refine sim_uniTail (ds := ds) cx hp hesc rfl hle hg hv ih ?_
      rw [step_uni hq, hassoc, uniM_brace hds, if_neg h6]
      congr 1
      simp; omega


/-! ## legacy octal escapes -/

theorem octStep_eq {e : Nat} {r1 : List Nat} (he : isOct e = true) :
    (octStep e r1).1 = (octParse e r1).1 ∧ (octStep e r1).2 + 1 = (octParse e r1).2 := by
  simp only [isOct, Bool.and_eq_true, decide_eq_true_eq] at he
  unfold octStep octParse
  cases r1 with
  | nil => simp
  | cons d2 r2 =>
    simp only
    by_cases h2 : isOct d2 = true
    · simp only [h2, if_true]
      have h2' := h2
      simp only [isOct, Bool.and_eq_true, decide_eq_true_eq] at h2'
      cases r2 with
      | nil => simp
      | cons d3 r3 =>
        simp only
        by_cases h3 : isOct d3 = true
        · by_cases h51 : e ≤ 51
          · rw [if_pos ⟨h51, h3⟩, if_pos ⟨by omega, h3⟩]
            simp only [isOct, Bool.and_eq_true, decide_eq_true_eq] at h3
            simp only
            refine ⟨?_, trivial⟩
            have : (e - 48) * 64 = (e - 48) * 8 * 8 := by omega
            rw [this, Nat.add_mul]
          · rw [if_neg (fun h => h51 h.1), if_neg (fun h => h51 (by omega))]
            simp
        · rw [if_neg (fun h => h3 h.2), if_neg (fun h => h3 h.2)]
          simp
    · simp [h2]

/-- a legacy octal escape read by the decoder (first digit `1`–`7`) -/
theorem esc_oct {e : Nat} {r1 : List Nat} (he : isOct e = true) (h48 : e ≠ 48) :
    escStep true e r1 = some ([(octParse e r1).1], (octParse e r1).2) := by
  obtain ⟨h1, h2⟩ := octStep_eq (r1 := r1) he
  have he' := he
  simp only [isOct, Bool.and_eq_true, decide_eq_true_eq] at he'
  have hd : isDig e = true := by simp [isDig]; omega
  have hne : e ≠ 110 ∧ e ≠ 114 ∧ e ≠ 116 ∧ e ≠ 98 ∧ e ≠ 102 ∧ e ≠ 118 ∧ e ≠ 120 ∧ e ≠ 117 ∧ ¬ 56 ≤ e := by omega
  obtain ⟨a1, a2, a3, a4, a5, a6, a7, a8, a9⟩ := hne
  simp only [escStep]
  simp [hd, h48, h1, a1, a2, a3, a4, a5, a6, a7, a8, a9]
  omega

theorem esc_oct_strict {e : Nat} {r1 us : List Nat} {k : Nat} (he : isOct e = true) (h48 : e ≠ 48)
    (h : escStep false e r1 = some (us, k)) : False := by
  have he' := he
  simp only [isOct, Bool.and_eq_true, decide_eq_true_eq] at he'
  have hd : isDig e = true := by simp [isDig]; omega
  have hne : e ≠ 110 ∧ e ≠ 114 ∧ e ≠ 116 ∧ e ≠ 98 ∧ e ≠ 102 ∧ e ≠ 118 ∧ e ≠ 120 ∧ e ≠ 117 ∧ ¬ 56 ≤ e := by omega
  obtain ⟨a1, a2, a3, a4, a5, a6, a7, a8, a9⟩ := hne
  simp only [escStep] at h
  simp [hd, h48, a1, a2, a3, a4, a5, a6, a7, a8, a9] at h


theorem step_oct {q : Nat} {e : Nat} {r1 : List Nat} (hq : IsQ q) (he : isOct e = true) (h48 : e ≠ 48) :
    step q false 92 (e :: r1) = octM q false e r1 := by
  have he' := he
  simp only [isOct, Bool.and_eq_true, decide_eq_true_eq] at he'
  have hk : ¬ (e = q ∨ e = 92 ∨ e = 114 ∨ (q ≠ 96 ∧ e = 110) ∨ (e = 48 ∧ ¬ r1.head?.any isOct)) := by
    rcases hq with h | h | h <;> omega
  have hl : lcLen e r1 = 0 := by
    have : e ≠ 10 ∧ e ≠ 13 ∧ e ≠ 226 := by omega
    simp [lcLen, this.1, this.2.1, this.2.2]
  have hne : e ≠ 120 ∧ e ≠ 117 := by omega
  simp only [step, if_true, escM, if_neg hk]
  simp [hl, hne.1, hne.2, he]

/-- legacy octal escapes `\1`…`\377` (first digit not `0`) -/
theorem sim_oct {m : Bool} {qi q : Nat} (cx : Ctx m qi q) (hcf : CaseC m qi q → cf = true) {e : Nat} {r1 w : List Nat}
    (he : isOct e = true) (h48 : e ≠ 48)
    (hg : Guard cf (92 :: e :: r1) = true)
    (hv : decBody m qi (92 :: e :: r1) = some w) (ih : IH cf m qi q (e :: r1).length) :
    decBody m q (repA q false (92 :: e :: r1)) = some w := by
  have hq := cx.hq
  have he' := he
  simp only [isOct, Bool.and_eq_true, decide_eq_true_eq] at he'
  -- the input is only valid in legacy mode
  obtain ⟨us, k, v', hs, _, _⟩ := valid_cons hv
  rw [decStep_bsl cx.hqi] at hs
  have hli : lg m qi = true := by
    cases h : lg m qi with
    | true => rfl
    | false => rw [h] at hs; exact (esc_oct_strict he h48 hs).elim
  have hin : escStep (lg m qi) e r1 = some ([(octParse e r1).1], (octParse e r1).2) := by
    rw [hli]; exact esc_oct he h48
  rw [repA_cons, step_oct hq he h48]
  have hb := octParse_bounds (r1 := r1) he
  have hdropk : ∀ k', List.drop k' (e :: r1) = (e :: r1).drop k' := fun _ => rfl
  unfold octM
  simp only [Bool.false_eq_true, false_and, or_false]
  split
  · -- `\74` is kept: only possible when the output quote allows legacy escapes
    rename_i h74
    obtain ⟨hnum, hk2⟩ := h74
    have hlo : lg m q = true := by
      cases h : lg m q with
      | true => rfl
      | false =>
        exfalso
        have hc := hcf (caseC_of hli h)
        have hgate := (guard_esc hg).2 hc
        rcases hb with ⟨hk1, _⟩ | ⟨_, d2, hd2, ho2, hval⟩ | ⟨hk3, _⟩
        · omega
        · simp only [isOct, Bool.and_eq_true, decide_eq_true_eq] at ho2
          have : e = 55 ∧ d2 = 52 := by omega
          obtain ⟨rfl, rfl⟩ := this
          simp [gate, hd2] at hgate
        · omega
    rcases hb with ⟨hk1, _⟩ | ⟨_, d2, hd2, ho2, hval⟩ | ⟨hk3, _⟩
    · omega
    · cases r1 with
      | nil => simp at hd2
      | cons x r2 =>
        simp only [List.head?_cons, Option.some.injEq] at hd2
        subst hd2
        rw [hk2]
        have : (92 :: e :: List.take (2 - 1) (x :: r2)) = [92, e, x] := by simp
        rw [this]
        refine finish_esc cx hv hg (by rw [hin, hk2]) (fun t => ?_) ih
        have : [92, e, x] ++ t = 92 :: e :: (x :: t) := rfl
        rw [this, dec_of_esc hq (us := [(octParse e (x :: r2)).1]) (k := 2)]
        · rfl
        · rw [hlo, esc_oct he h48]
          simp only [isOct, Bool.and_eq_true, decide_eq_true_eq] at ho2
          have h1 : e = 55 ∧ x = 52 := by omega
          obtain ⟨rfl, rfl⟩ := h1
          have e1 : octParse 55 (52 :: t) = (60, 2) := by
            cases t <;> simp [octParse, isOct]
          have e2 : octParse 55 (52 :: r2) = (60, 2) := by
            cases r2 <;> simp [octParse, isOct]
          rw [e1, e2]
    · omega
  · rename_i h74
    have hnum255 : (octParse e r1).1 ≤ 255 ∧ 1 ≤ (octParse e r1).1 := by
      rcases hb with ⟨_, hval⟩ | ⟨_, d2, _, ho2, hval⟩ | ⟨_, h51, d2, d3, _, _, ho2, ho3, hval⟩
      · omega
      · simp only [isOct, Bool.and_eq_true, decide_eq_true_eq] at ho2; omega
      · simp only [isOct, Bool.and_eq_true, decide_eq_true_eq] at ho2 ho3; omega
    split
    · -- rewritten as `\xHH`
      rename_i hx
      have hk3 : (octParse e r1).2 = 3 := by
        rcases hb with ⟨hk1, hval⟩ | ⟨hk2, d2, _, ho2, hval⟩ | ⟨hk3, _⟩
        · exfalso; rcases hx with h | h | ⟨h, _⟩ <;> omega
        · exfalso
          simp only [isOct, Bool.and_eq_true, decide_eq_true_eq] at ho2
          rcases hx with h | h | ⟨h, _⟩
          · exact h74 ⟨h, hk2⟩
          · omega
          · omega
        · exact hk3
      refine finish_esc cx hv hg (by rw [hin, hk3]) (fun t => ?_) ih
      exact dec_hexOf hq (by omega)
    · rename_i hx
      rw [if_neg (by omega)]
      split
      · -- written as a two-byte escape
        rename_i hesc
        refine finish_esc cx hv hg hin (fun t => ?_) ih
        rcases hesc with h | h | h | ⟨_, h⟩ | ⟨_, h⟩
        · rw [h, show escOf 92 = 92 from rfl]; exact dec_esc_ident hq (by omega) rfl (by omega)
        · rw [h]
          have : escOf q = q := by rcases hq with h' | h' | h' <;> (subst h'; rfl)
          rw [this]
          apply dec_esc_ident hq
          · rcases hq with h' | h' | h' <;> omega
          · rcases hq with h' | h' | h' <;> (subst h'; rfl)
          · rcases hq with h' | h' | h' <;> omega
        · rw [h]; exact dec_esc_r hq
        · rw [h]; exact dec_esc_n hq
        · rw [h, show escOf 36 = 36 from rfl]; exact dec_esc_ident hq (by omega) rfl (by omega)
      · -- written raw
        rename_i hraw
        refine finish_esc cx hv hg hin (fun t => ?_) ih
        by_cases h10 : (octParse e r1).1 = 10
        · have hq96 : q = 96 := by
            by_cases h : q = 96
            · exact h
            · exact absurd (Or.inr (Or.inr (Or.inr (Or.inl ⟨h, h10⟩)))) hraw
          subst hq96
          rw [h10]; exact dec_lf_tmpl
        · apply dec_plain (by omega) (fun h => hraw (Or.inr (Or.inl h))) (fun h => hraw (Or.inl h)) h10
            (fun h => hraw (Or.inr (Or.inr (Or.inl h))))
          rintro ⟨h1, h2, _⟩
          exact hraw (Or.inr (Or.inr (Or.inr (Or.inr ⟨h2, h1⟩))))


/-- `\8` and `\9` (sloppy mode): the backslash is dropped -/
theorem sim_89 {m : Bool} {qi q : Nat} (cx : Ctx m qi q) {e : Nat} {r1 w : List Nat}
    (he : e = 56 ∨ e = 57)
    (hg : Guard cf (92 :: e :: r1) = true)
    (hv : decBody m qi (92 :: e :: r1) = some w) (ih : IH cf m qi q (e :: r1).length) :
    decBody m q (repA q false (92 :: e :: r1)) = some w := by
  have hq := cx.hq
  have hg2 : Guard cf r1 = true := by simpa using guard_drop hg 2
  obtain ⟨us, k, v', hst, hv', hw⟩ := valid_cons hv
  rw [decStep_bsl cx.hqi] at hst
  have hs : step q false 92 (e :: r1) = ([], 0, false) := by
    rcases he with rfl | rfl <;> rcases hq with h | h | h <;> simp [step, escM, lcLen, isOct, h]
  rw [repA_cons, hs]
  simp only [List.nil_append, List.drop_zero]
  have hin : us = [e] ∧ k = 1 := by
    cases hl : lg m qi with
    | false => rw [hl] at hst; rcases he with rfl | rfl <;> simp [escStep, isDig] at hst
    | true =>
      rw [hl] at hst
      rcases he with rfl | rfl <;> (simp [escStep, isDig] at hst; exact ⟨hst.1.symm, hst.2.symm⟩)
  obtain ⟨rfl, rfl⟩ := hin
  subst hw
  exact sim_raw cx (by omega) (by omega) (by omega) (by omega) hg2 hv' (ih_mono ih (by simp))

/-! ## `\0` -/

/-- for a raw byte the after-NUL flag plays no role -/
theorem repA_raw_flag {q : Nat} {an : Bool} {c : Nat} {r : List Nat} (hc : c ≠ 92) :
    repA q an (c :: r) = repA q false (c :: r) := by
  rw [repA_cons, repA_cons]
  simp only [step, if_neg hc]

/-- `\0` at the end of the body or in front of a raw byte that is neither a digit nor a backslash -/
theorem sim_nul {m : Bool} {qi q : Nat} (cx : Ctx m qi q) {r1 w : List Nat}
    (hnext : r1 = [] ∨ ∃ c r', r1 = c :: r' ∧ c ≠ 92 ∧ isDig c = false)
    (hg : Guard cf (92 :: 48 :: r1) = true)
    (hv : decBody m qi (92 :: 48 :: r1) = some w) (ih : IH cf m qi q (48 :: r1).length) :
    decBody m q (repA q false (92 :: 48 :: r1)) = some w := by
  have hq := cx.hq
  have hnd : r1.head?.any isDig = false := by
    rcases hnext with rfl | ⟨c, r', rfl, _, hd⟩ <;> simp [*]
  have hno : r1.head?.any isOct = false := by
    rcases hnext with rfl | ⟨c, r', rfl, _, hd⟩
    · simp
    · simp only [List.head?_cons, Option.any_some]
      simp only [isDig, Bool.and_eq_false_imp, decide_eq_true_eq, decide_eq_false_iff_not] at hd
      simp only [isOct, Bool.and_eq_false_imp, decide_eq_true_eq, decide_eq_false_iff_not]
      intro h; have := hd h; omega
  have hs : step q false 92 (48 :: r1) = ([92, 48], 1, true) := by
    simp [step, escM, hno]
  have hin : escStep (lg m qi) 48 r1 = some ([0], 1) := esc_nul ⟨hno, fun _ => hnd⟩
  rw [repA_cons, hs]
  have hd1 : List.drop 1 (48 :: r1) = r1 := rfl
  simp only [hd1]
  have hflag : repA q true r1 = repA q false r1 := by
    rcases hnext with rfl | ⟨c, r', rfl, hc, _⟩
    · rfl
    · exact repA_raw_flag hc
  rw [hflag]
  have hok : NulOK (lg m q) (repA q false r1) := by
    rcases hnext with rfl | ⟨c, r', rfl, hc, hd⟩
    · exact ⟨by simp, fun _ => by simp⟩
    · have hd' := hd
      simp only [isDig, Bool.and_eq_false_imp, decide_eq_true_eq, decide_eq_false_iff_not] at hd'
      have key : ∀ x, (x = 92 ∨ x = c ∨ (x = 10 ∧ c = 13)) → isDig x = false ∧ isOct x = false := by
        intro x hx
        simp only [isDig, isOct, Bool.and_eq_false_imp, decide_eq_true_eq, decide_eq_false_iff_not]
        rcases hx with rfl | rfl | ⟨rfl, _⟩
        · omega
        · exact ⟨hd', fun h => by have := hd' h; omega⟩
        · omega
      rcases head_raw_cases (q := q) (an := false) (r := r') hc with h | h | ⟨h, h13⟩
      · rw [NulOK, h]; simp only [Option.any_some]; exact ⟨(key 92 (Or.inl rfl)).2, fun _ => (key 92 (Or.inl rfl)).1⟩
      · rw [NulOK, h]; simp only [Option.any_some]; exact ⟨(key c (Or.inr (Or.inl rfl))).2, fun _ => (key c (Or.inr (Or.inl rfl))).1⟩
      · rw [NulOK, h]; simp only [Option.any_some]
        exact ⟨(key 10 (Or.inr (Or.inr ⟨rfl, h13⟩))).2, fun _ => (key 10 (Or.inr (Or.inr ⟨rfl, h13⟩))).1⟩
  exact finish_esc_at (o := [92, 48]) (k := 1) cx hv hg hin (dec_nul hq hok) ih


end Verif.Proofs.JsString

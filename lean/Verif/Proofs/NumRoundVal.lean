import Verif.Proofs.NumRoundLen
set_option linter.unusedSimpArgs false
/-!
# C08 — the value computed by the precision branch (digit arithmetic over `Nat`)
-/
namespace Verif.Proofs.Num
open Verif.Model.Num

def dig (c : Char) : Nat := c.toNat - 48

theorem natOf_cons (c : Char) (l : List Char) : natOf (c :: l) = dig c * 10 ^ l.length + natOf l := by
  have := natOf_append [c] l
  rw [natOf_singleton] at this
  simpa [dig] using this

theorem natOf_snoc (l : List Char) (c : Char) : natOf (l ++ [c]) = natOf l * 10 + dig c := by
  rw [natOf_append, natOf_singleton]; simp [dig]

theorem dig_lt {c : Char} (h : c.isDigit = true) : dig c < 10 := by
  have := (isDigit_iff c).mp h
  unfold dig; omega

theorem dig_incChar {c : Char} (h : c.isDigit = true) (h9 : c ≠ '9') : dig (incChar c) = dig c + 1 := by
  rcases digit_cases h with rfl | rfl | rfl | rfl | rfl | rfl | rfl | rfl | rfl | rfl
  all_goals first | exact absurd rfl h9 | decide

theorem natOf_nines (k : Nat) : natOf (List.replicate k '9') + 1 = 10 ^ k := by
  induction k with
  | zero => rfl
  | succ k ih =>
    rw [List.replicate_succ', natOf_snoc, Nat.pow_succ]
    have : dig '9' = 9 := by decide
    rw [this]; omega

/-- value computed by the backwards loop: without a pending increment the kept digits, padded to the
    original width, are the original digits plus the increment; a pending increment means `99…9 + 1` -/
theorem incStrip_val (t : List Char) (inc : Bool) (ht : AllDig t) :
    ((incStrip t inc).2 = false →
      natOf (incStrip t inc).1 * 10 ^ (t.length - (incStrip t inc).1.length) = natOf t + (if inc then 1 else 0)) ∧
    ((incStrip t inc).2 = true → natOf t + 1 = 10 ^ t.length ∧ inc = true) := by
  unfold incStrip
  cases inc with
  | false =>
    simp only [Bool.false_eq_true, if_false, Nat.add_zero]
    obtain ⟨h1, h2, _⟩ := dropTrail_spec '0' t
    refine ⟨fun _ => ?_, fun h => absurd h (by simp)⟩
    conv => rhs; rw [h1, natOf_append_zeros]
  | true =>
    simp only [if_true]
    obtain ⟨h1, h2, h3⟩ := dropTrail_spec '9' t
    have hd := ht.dropTrail '9'
    generalize dropTrail '9' t = d at h1 h2 h3 hd
    generalize hk : t.length - d.length = k at h1
    have htl : t.length = d.length + k := by omega
    have hnine := natOf_nines k
    cases hr : d.reverse with
    | nil =>
      have hd0 : d = [] := by simpa using hr
      subst hd0
      simp only [List.nil_append] at h1
      refine ⟨fun h => absurd h (by simp), fun _ => ⟨?_, trivial⟩⟩
      rw [h1, List.length_replicate]; exact hnine
    | cons c r =>
      have hdr : d = r.reverse ++ [c] := by
        have := congrArg List.reverse hr
        simpa using this
      have hc9 : c ≠ '9' := by intro h; rw [h] at hdr; exact h3 _ hdr
      have hcd : c.isDigit = true := hd c (by rw [hdr]; simp)
      refine ⟨fun _ => ?_, fun h => absurd h (by simp)⟩
      simp only [List.reverse_cons]
      have hlen : t.length - (r.reverse ++ [incChar c]).length = k := by
        rw [htl, hdr]; simp
      rw [hlen, natOf_snoc, dig_incChar hcd hc9]
      conv => rhs; rw [h1, natOf_append, List.length_replicate, hdr, natOf_snoc]
      generalize natOf r.reverse = a at *
      generalize dig c = b at *
      generalize natOf (List.replicate k '9') = n9 at *
      generalize 10 ^ k = T at *
      subst hnine
      rw [Nat.add_mul, Nat.add_mul, Nat.add_mul]
      omega


theorem incTail_val (l : List Char) (hl : AllDig l) :
    ((incTail l).2 = false → natOf (incTail l).1 = natOf l + 1) ∧
    ((incTail l).2 = true → natOf l + 1 = 10 ^ l.length ∧ natOf (incTail l).1 = 0) := by
  unfold incTail
  simp only []
  have h0 : l.reverse.takeWhile (· == '9') ++ l.reverse.dropWhile (· == '9') = l.reverse :=
    List.takeWhile_append_dropWhile
  have htw := takeWhile_beq_eq_replicate '9' l.reverse
  generalize hk : (l.reverse.takeWhile (· == '9')).length = k at htw
  rw [htw] at h0
  have hl2 : l = (l.reverse.dropWhile (· == '9')).reverse ++ List.replicate k '9' := by
    have := congrArg List.reverse h0
    rw [List.reverse_reverse, List.reverse_append, List.reverse_replicate] at this
    exact this.symm
  have hdd : AllDig (l.reverse.dropWhile (· == '9')) := by
    have : AllDig (List.replicate k '9' ++ l.reverse.dropWhile (· == '9')) := by rw [h0]; exact hl.reverse
    exact this.right
  have hnine := natOf_nines k
  cases hdw : l.reverse.dropWhile (· == '9') with
  | nil =>
    rw [hdw] at hl2
    simp only [List.reverse_nil, List.nil_append] at hl2
    refine ⟨fun h => absurd h (by simp), fun _ => ⟨?_, natOf_replicate_zero k⟩⟩
    rw [hl2, List.length_replicate]; exact hnine
  | cons c r =>
    rw [hdw] at hl2 hdd
    have hne : l.reverse.dropWhile (· == '9') ≠ [] := by rw [hdw]; simp
    have hc9 : c ≠ '9' := by
      have := List.head_dropWhile_not (· == '9') (l := l.reverse) hne
      simp only [hdw, List.head_cons] at this
      simpa using this
    obtain ⟨hcd, _⟩ := hdd.of_cons
    refine ⟨fun _ => ?_, fun h => absurd h (by simp)⟩
    simp only [List.reverse_append, List.reverse_cons, List.reverse_replicate, List.append_assoc] at hl2 ⊢
    rw [hl2]
    have e1 : r.reverse ++ ([incChar c] ++ List.replicate k '0') = (r.reverse ++ [incChar c]) ++ List.replicate k '0' := by simp
    have e2 : r.reverse ++ ([c] ++ List.replicate k '9') = (r.reverse ++ [c]) ++ List.replicate k '9' := by simp
    rw [e1, e2, natOf_append_zeros, natOf_snoc, natOf_append (r.reverse ++ [c]), List.length_replicate, natOf_snoc, dig_incChar hcd hc9]
    generalize natOf r.reverse = a at *
    generalize dig c = b at *
    generalize natOf (List.replicate k '9') = n9 at *
    generalize 10 ^ k = T at *
    subst hnine
    rw [Nat.add_mul, Nat.add_mul, Nat.add_mul]
    omega

theorem incInt_val (ip : List Char) (hip : AllDig ip) : natOf (incInt ip) = natOf ip + 1 := by
  cases ip with
  | nil => decide
  | cons c r =>
    obtain ⟨hcd, hrd⟩ := hip.of_cons
    obtain ⟨v1, v2⟩ := incTail_val r hrd
    have hlen := incTail_length r
    unfold incInt
    generalize hit : incTail r = it at v1 v2 hlen
    obtain ⟨r', pend⟩ := it
    simp only [] at v1 v2 hlen
    cases pend with
    | false =>
      simp only [hit]
      rw [natOf_cons, natOf_cons, v1 rfl, hlen]; omega
    | true =>
      obtain ⟨w1, w2⟩ := v2 rfl
      simp only [hit]
      by_cases h9 : c = '9'
      · simp only [h9, beq_self_eq_true, if_true]
        have e1 : '1' :: r' ++ ['0'] = ('1' :: r') ++ ['0'] := rfl
        rw [e1, natOf_snoc, natOf_cons, natOf_cons, w2, hlen]
        have d1 : dig '1' = 1 := by decide
        have d9 : dig '9' = 9 := by decide
        have d0 : dig '0' = 0 := by decide
        rw [d1, d9, d0]
        generalize 10 ^ r.length = T at *
        omega
      · have : (c == '9') = false := by simpa using h9
        simp only [this, Bool.false_eq_true, if_false]
        rw [natOf_cons, natOf_cons, w2, hlen, dig_incChar hcd h9]
        generalize 10 ^ r.length = T at *
        rw [Nat.add_mul]
        omega

theorem five_le_iff (x : Char) (hx : x.isDigit = true) : '5' ≤ x ↔ 5 ≤ dig x := by
  rcases digit_cases hx with rfl | rfl | rfl | rfl | rfl | rfl | rfl | rfl | rfl | rfl <;> decide

/-- the first dropped digit is at least `5` iff the dropped digits are at least half a unit -/
theorem ge5At_iff (fp : List Char) (k : Nat) (h : AllDig fp) (hk : k < fp.length) :
    (ge5At fp k = true ↔ 5 * 10 ^ (fp.length - k - 1) ≤ natOf (fp.drop k)) ∧
    natOf (fp.drop k) < 10 * 10 ^ (fp.length - k - 1) := by
  unfold ge5At
  have hdl : (fp.drop k).length = fp.length - k := by simp
  have hdd : AllDig (fp.drop k) := h.drop k
  cases hd : fp.drop k with
  | nil => rw [hd] at hdl; simp at hdl; omega
  | cons x B =>
    rw [hd] at hdl hdd
    obtain ⟨hx, hB⟩ := hdd.of_cons
    have hBl : B.length = fp.length - k - 1 := by simp at hdl; omega
    have hlt := natOf_lt hB
    have hdx := dig_lt hx
    rw [natOf_cons, hBl] at *
    simp only [decide_eq_true_eq, five_le_iff x hx]
    generalize 10 ^ (fp.length - k - 1) = T at *
    generalize natOf B = nb at *
    generalize dig x = d at *
    constructor
    · constructor
      · intro h5
        have := Nat.mul_le_mul_right T h5
        omega
      · intro h5
        apply Classical.byContradiction
        intro hn
        have : d * T ≤ 4 * T := Nat.mul_le_mul_right T (by omega)
        omega
    · have : d * T ≤ 9 * T := Nat.mul_le_mul_right T (by omega)
      omega


/-- value of the precision branch of `Decimal`: the kept digits, padded to `k` fraction digits, are the
    first `k` fraction digits plus the increment -/
theorem roundDAt_val (ip fp : List Char) (k : Nat) (hip : AllDig ip) (hfp : AllDig fp) (hk : k < fp.length) :
    (roundDAt ip fp k).2.length ≤ k ∧
    natOf ((roundDAt ip fp k).1 ++ (roundDAt ip fp k).2) * 10 ^ (k - (roundDAt ip fp k).2.length) =
      natOf (ip ++ fp.take k) + (if ge5At fp k then 1 else 0) := by
  unfold roundDAt
  rw [if_pos hk]
  simp only []
  have htl : (fp.take k).length = k := by simp; omega
  obtain ⟨v1, v2⟩ := incStrip_val (fp.take k) (ge5At fp k) (hfp.take k)
  obtain ⟨l1, l2⟩ := incStrip_length (fp.take k) (ge5At fp k)
  rw [htl] at v1 v2 l1
  cases hpend : (incStrip (fp.take k) (ge5At fp k)).2 with
  | true =>
    obtain ⟨w1, w2⟩ := v2 hpend
    simp only [if_true, List.append_nil, List.length_nil, Nat.sub_zero, w2]
    refine ⟨Nat.zero_le _, ?_⟩
    rw [incInt_val ip hip, natOf_append, htl]
    generalize 10 ^ k = T at *
    rw [Nat.add_mul]; omega
  | false =>
    have w := v1 hpend
    simp only [Bool.false_eq_true, if_false]
    refine ⟨l1, ?_⟩
    rw [natOf_append, natOf_append, htl]
    generalize hq : (incStrip (fp.take k) (ge5At fp k)).1 = q at *
    have hpow : 10 ^ k = 10 ^ q.length * 10 ^ (k - q.length) := by
      rw [← Nat.pow_add]; congr 1; omega
    rw [hpow, Nat.add_mul, Nat.mul_assoc, w]
    omega

end Verif.Proofs.Num

import Verif.Proofs.SvgLex
/-!
# C05 helper lemmas: the parser reads the printed tokens back as the intended command groups
-/
namespace Verif.Proofs.SvgParse
open Verif.Spec.SvgPath Verif.Spec.SvgHazard Verif.Model.SvgPath Verif.Proofs.SvgLex

def tokValD (t : PTok) : Rat := (tokVal t).getD 0

/-- numeric arguments a printed item list denotes -/
def itemsVals (st : PState) (items : List PItem) : List Rat := (itemsToks st items).map tokValD

theorem itemTok_val (st : PState) (it : PItem) : tokVal (itemTok st it) = some (tokValD (itemTok st it)) := by
  cases it <;> simp [itemTok, tokVal, tokValD]

theorem takeArgs_items : ∀ (items : List PItem) (st : PState) (more : List PTok),
    takeArgs items.length (itemsToks st items ++ more) = some (itemsVals st items, more) := by
  intro items
  induction items with
  | nil => intro st more; simp [takeArgs, itemsToks, itemsVals]
  | cons it r ih =>
    intro st more
    simp only [List.length_cons, itemsToks, List.cons_append, takeArgs, itemTok_val, ih, itemsVals, List.map_cons]

/-- the command a printed group denotes -/
def groupCmd (st : PState) (g : OutGroup) : Cmd :=
  if g.k == .Z then ⟨.Z, true, []⟩
  else
    let st0 := if g.force then { st with cmd := none } else st
    ⟨g.k, g.rel, itemsVals (emitCmd st0 g.k g.rel).1 g.items⟩

def groupsCmds : PState → List OutGroup → List Cmd
  | _, [] => []
  | st, g :: r => groupCmd st g :: groupsCmds (emitGroup st g).1 r

/-- parser context vs printer state: the command implied for a bare argument group -/
def ParInv (st : PState) (pcur : Option (Kind × Bool)) : Prop :=
  ∀ k rel, st.cmd = some (k, rel) → k ≠ .Z → pcur = some (implicitNext k, rel)

theorem itemsToks_head (st : PState) (items : List PItem) (h : items ≠ []) :
    ∃ t r, itemsToks st items = t :: r ∧ (∀ c, t ≠ .cmd c) := by
  cases items with
  | nil => exact absurd rfl h
  | cons it r =>
    refine ⟨itemTok st it, _, rfl, ?_⟩
    cases it <;> simp [itemTok]

theorem emitGroup_cmd (st : PState) (g : OutGroup) :
    (emitGroup st g).1.cmd =
      if g.k == .Z then some (.Z, true)
      else (emitCmd (if g.force then { st with cmd := none } else st) g.k g.rel).1.cmd := by
  cases hz : (g.k == Kind.Z) with
  | true => simp [emitGroup, hz]
  | false => simp only [emitGroup, hz, Bool.false_eq_true, if_false, emitItems_cmd]

theorem parse_groups : ∀ (gs : List OutGroup) (st : PState) (pcur : Option (Kind × Bool)) (f : Nat),
    WfGroups gs → ParInv st pcur → (groupsToks st gs).length < f →
    parseGo f pcur (groupsToks st gs) = some (groupsCmds st gs) := by
  intro gs
  induction gs with
  | nil =>
    intro st pcur f _ _ hf
    obtain ⟨f0, rfl⟩ : ∃ f0, f = f0 + 1 := ⟨f - 1, by simp [groupsToks] at hf; omega⟩
    simp [groupsToks, groupsCmds, parseGo]
  | cons g r ih =>
    intro st pcur f hwf hinv hf
    have hg := hwf g (by simp)
    have hr : WfGroups r := fun g' h' => hwf g' (by simp [h'])
    simp only [groupsToks, groupsCmds] at hf ⊢
    cases hz : (g.k == Kind.Z) with
    | true =>
      have hgt : groupToks st g = [.cmd 'z'] := by simp [groupToks, hz]
      rw [hgt] at hf ⊢
      simp only [List.cons_append, List.nil_append, List.length_cons] at hf ⊢
      obtain ⟨f0, rfl⟩ : ∃ f0, f = f0 + 1 := ⟨f - 1, by omega⟩
      have hk : kindOf 'z' = some (.Z, true) := by decide
      have hinv' : ParInv (emitGroup st g).1 none := by
        intro k rel h hk'
        rw [emitGroup_cmd, hz] at h
        simp only [if_true, Option.some.injEq, Prod.mk.injEq] at h
        exact absurd h.1.symm hk'
      simp only [parseGo, hk, if_true]
      rw [ih _ none f0 hr hinv' (by omega)]
      simp [groupCmd, hz]
    | false =>
      have hkz : g.k ≠ .Z := by intro e; rw [e] at hz; exact absurd hz (by decide)
      generalize hst0 : (if g.force then { st with cmd := none } else st : PState) = st0
      have hgt : groupToks st g = (if needLetter st0 g.k g.rel then [PTok.cmd (letter g.k g.rel)] else []) ++
          itemsToks (emitCmd st0 g.k g.rel).1 g.items := by
        simp only [groupToks, hz, Bool.false_eq_true, if_false, hst0]
      have hgc : groupCmd st g = ⟨g.k, g.rel, itemsVals (emitCmd st0 g.k g.rel).1 g.items⟩ := by
        simp only [groupCmd, hz, Bool.false_eq_true, if_false, hst0]
      have hcmd' : (emitGroup st g).1.cmd = (emitCmd st0 g.k g.rel).1.cmd := by
        rw [emitGroup_cmd, hz, hst0]; rfl
      have hlen := hg.len hkz
      rw [hgt] at hf
      rw [hgt, hgc]
      cases hnl : needLetter st0 g.k g.rel with
      | true =>
        rw [hnl] at hf
        simp only [if_true, List.cons_append, List.nil_append, List.length_cons, List.append_assoc] at hf ⊢
        obtain ⟨f0, rfl⟩ : ∃ f0, f = f0 + 1 := ⟨f - 1, by omega⟩
        have hk := (letter_facts g.k g.rel).2.2.1
        have hkz' : (g.k = Kind.Z) = False := by simp [hkz]
        have hinv' : ParInv (emitGroup st g).1 (some (implicitNext g.k, g.rel)) := by
          intro k rel h _
          rw [hcmd'] at h
          simp only [emitCmd, hnl, if_true, Option.some.injEq, Prod.mk.injEq] at h
          rw [← h.1, ← h.2]
        simp only [parseGo, hk, hkz', if_false]
        rw [← hlen, takeArgs_items]
        simp only
        rw [ih _ _ f0 hr hinv' (by simp only [List.length_append] at hf; omega)]
        rfl
      | false =>
        rw [hnl] at hf
        simp only [Bool.false_eq_true, if_false, List.nil_append, List.append_assoc] at hf ⊢
        have hec : emitCmd st0 g.k g.rel = (st0, []) := by
          simp only [emitCmd, hnl, Bool.false_eq_true, if_false]
        have hforce : g.force = false := by
          cases hfo : g.force with
          | false => rfl
          | true =>
            rw [hfo] at hst0
            simp only [if_true] at hst0
            rw [← hst0] at hnl
            simp [needLetter] at hnl
        have hst : st0 = st := by rw [← hst0, hforce]; rfl
        subst hst
        have hkM : g.k ≠ .M := by
          intro e; have := hg.force e; rw [hforce] at this; exact absurd this (by decide)
        have hcmd : st0.cmd = some (g.k, g.rel) ∨ (st0.cmd = some (.M, g.rel) ∧ g.k = .L) := by
          unfold needLetter at hnl
          simp only [Bool.and_eq_false_iff, bne_eq_false_iff_eq, Bool.not_eq_false', Bool.and_eq_true, beq_iff_eq] at hnl
          rcases hnl with h | h
          · exact Or.inl h
          · exact Or.inr h
        have hpc : pcur = some (g.k, g.rel) := by
          rcases hcmd with h | ⟨h, hk⟩
          · have := hinv g.k g.rel h hkz
            rw [this]; simp [implicitNext, hkM]
          · have := hinv .M g.rel h (by decide)
            rw [this, hk]; rfl
        have hne : g.items ≠ [] := by
          intro e; rw [e] at hlen; have := arity_pos g.k hkz; simp at hlen; omega
        obtain ⟨t, tr, ht, hnc⟩ := itemsToks_head (emitCmd st0 g.k g.rel).1 g.items hne
        obtain ⟨f0, rfl⟩ : ∃ f0, f = f0 + 1 := ⟨f - 1, by omega⟩
        have hinv' : ParInv (emitGroup st0 g).1 (some (g.k, g.rel)) := by
          intro k rel h hk'
          rw [hcmd', hec] at h
          rcases hcmd with h2 | ⟨h2, hk2⟩
          · rw [h2] at h
            simp only [Option.some.injEq, Prod.mk.injEq] at h
            rw [← h.1, ← h.2]; simp [implicitNext, hkM]
          · rw [h2] at h
            simp only [Option.some.injEq, Prod.mk.injEq] at h
            rw [← h.1, ← h.2, hk2]; rfl
        have hstep : parseGo (f0 + 1) pcur (itemsToks (emitCmd st0 g.k g.rel).1 g.items ++ groupsToks (emitGroup st0 g).1 r) =
            (match takeArgs g.k.arity (itemsToks (emitCmd st0 g.k g.rel).1 g.items ++ groupsToks (emitGroup st0 g).1 r) with
             | some (vs, r') => (parseGo f0 (some (g.k, g.rel)) r').map (Cmd.mk g.k g.rel vs :: ·)
             | none => none) := by
          rw [ht, hpc]
          simp only [List.cons_append]
          cases t with
          | cmd c => exact absurd rfl (hnc c)
          | num s => simp only [parseGo]; rfl
          | flag b => simp only [parseGo]; rfl
        have hl1 : (itemsToks (emitCmd st0 g.k g.rel).1 g.items).length = tr.length + 1 := by rw [ht]; rfl
        rw [hstep, ← hlen, takeArgs_items]
        simp only
        rw [ih _ _ f0 hr hinv' (by simp only [List.length_append] at hf; omega)]
        rfl

end Verif.Proofs.SvgParse

import Verif.Proofs.JsOptSound
set_option linter.unusedSimpArgs false
/-!
# C01-B — purity: `hasSideEffects`, `isUndefined`, `isFalsy` against the semantics
-/
namespace Verif.Proofs.JsPure
open Verif.Spec.JsSyntax Verif.Spec.JsSem Verif.Model.JsAst Verif.Model.JsOpt Verif.Proofs.JsSemLemmas
open Verif.Proofs.JsOptSound
open Verif.Spec.JsSyntax.E

variable {H : Host}

/-- `e` evaluates without touching the state, to a value satisfying `P` -/
def PureVal (H : Host) (e : E) (P : Val → Prop) : Prop := ∀ s, ∃ v, eval H e s = .ok v s ∧ P v

theorem PureVal.mono {e : E} {P Q : Val → Prop} (h : PureVal H e P) (hpq : ∀ v, P v → Q v) : PureVal H e Q := by
  intro s
  obtain ⟨v, hv, hp⟩ := h s
  exact ⟨v, hv, hpq v hp⟩

theorem pure_ret (e : E) (v : Val) (P : Val → Prop) (h : eval H e = retM v) (hp : P v) : PureVal H e P := by
  intro s; exact ⟨v, by rw [h]; rfl, hp⟩

theorem pure_var (n : String) : PureVal H (.var n) (fun _ => True) := by
  intro s; exact ⟨lookup s n, by simp [getVar], trivial⟩

theorem pure_group {x : E} {P : Val → Prop} (h : PureVal H x P) : PureVal H (.group x) P := by
  intro s; simpa using h s

/-- evaluating a pure expression and continuing -/
theorem pure_bind {e : E} {P : Val → Prop} (h : PureVal H e P) {α : Type} (f : Val → M α) (s : St) :
    ∃ v, P v ∧ bindM (eval H e) f s = f v s := by
  obtain ⟨v, hv, hp⟩ := h s
  exact ⟨v, hp, by simp [bindM, hv]⟩

theorem nonAssign_class (op : BOp) (h : (op.prec == opAssign) = false) :
    op = .land ∨ op = .lor ∨ op = .nullish ∨ isStrictOp op = true := by
  have : ∀ o ∈ BOp.all, (o.prec == opAssign) = false →
      (o = .land ∨ o = .lor ∨ o = .nullish ∨ isStrictOp o = true) := by decide
  exact this op (BOp.mem_all op) h

theorem looseEq_pure (a b : Val) (s : St) : ∃ r, looseEq H a b s = .ok r s := by
  unfold looseEq
  split
  · exact ⟨_, rfl⟩
  · split
    · exact ⟨_, rfl⟩
    · exact ⟨_, rfl⟩

theorem strictBin_pure (op : BOp) (a b : Val) (h : isStrictOp op = true) (s : St) :
    ∃ v, strictBin H op a b s = .ok v s := by
  obtain ⟨r, hr⟩ := looseEq_pure (H := H) a b s
  cases op <;> simp [isStrictOp] at h
  all_goals first
    | exact ⟨_, by simp [strictBin, retM]; rfl⟩
    | exact ⟨_, by simp [strictBin, bindM, hr, retM]; rfl⟩
    | exact ⟨_, by simp [strictBin, bindM, hr, retM]⟩
    | exact ⟨_, by simp [strictBin, retM]⟩

/-- what the minifier calls side-effect free is pure in the semantics -/
theorem hse_pure (e : E) (h : hasSideEffects e = false) : PureVal H e (fun _ => True) := by
  induction e using E.ind with
  | hvar n => simp [hasSideEffects] at h
  | hlit l =>
    cases l <;> intro s <;> simp [retM]
  | hun op x ih =>
    simp only [hasSideEffects] at h
    split at h
    · cases h
    · rename_i hop
      have hx := ih h
      intro s
      obtain ⟨v, hv, _⟩ := hx s
      cases op <;> simp at hop <;> simp [eval, bindM, hv, retM]
  | hbin op x y ihx ihy =>
    simp only [hasSideEffects] at h
    split at h
    · cases h
    · rename_i hop
      split at h
      · cases h
      simp only [Bool.or_eq_false_iff, Bool.and_eq_false_iff, Bool.not_eq_false'] at h
      have hx : PureVal H x (fun _ => True) := by
        rcases h.1 with hv | hs
        · cases x <;> simp [E.isVar] at hv
          exact pure_var _
        · exact ihx hs
      have hy : PureVal H y (fun _ => True) := by
        rcases h.2 with hv | hs
        · cases y <;> simp [E.isVar] at hv
          exact pure_var _
        · exact ihy hs
      have hcls := nonAssign_class op (by simpa using hop)
      intro s
      obtain ⟨a, ha, _⟩ := hx s
      rcases hcls with rfl | rfl | rfl | hs
      · simp only [eval_land, bindM, ha]
        by_cases ht : truthy a = true
        · simp only [ht, if_true]; obtain ⟨b, hb, _⟩ := hy s; exact ⟨b, hb, trivial⟩
        · simp [ht, retM]
      · simp only [eval_lor, bindM, ha]
        by_cases ht : truthy a = true
        · simp [ht, retM]
        · simp only [ht]; obtain ⟨b, hb, _⟩ := hy s; exact ⟨b, hb, trivial⟩
      · simp only [eval_nullish, bindM, ha]
        by_cases ht : isNullish a = true
        · simp only [ht, if_true]; obtain ⟨b, hb, _⟩ := hy s; exact ⟨b, hb, trivial⟩
        · simp [ht, retM]
      · obtain ⟨b, hb, _⟩ := hy s
        obtain ⟨v, hv⟩ := strictBin_pure (H := H) op a b hs s
        exact ⟨v, by simp [eval_strict op x y hs, bindM, ha, hb, hv], trivial⟩
  | hcond c x y ihc ihx ihy =>
    simp only [hasSideEffects, Bool.or_eq_false_iff] at h
    intro s
    obtain ⟨v, hv, _⟩ := ihc h.1.1 s
    simp only [eval_cond, bindM, hv]
    by_cases ht : truthy v = true
    · simp only [ht, if_true]; exact ihx h.1.2 s
    · simp only [ht]; exact ihy h.2 s
  | hcomma l _ => simp [hasSideEffects] at h
  | hcall f args _ _ => simp [hasSideEffects] at h
  | hdot x n _ => simp [hasSideEffects] at h
  | hindex x y _ _ => simp [hasSideEffects] at h
  | hopt a e _ => simp [hasSideEffects] at h
  | hgroup x ih =>
    simp only [hasSideEffects] at h
    exact pure_group (ih h)

/-- `isUndefined` -/
theorem isUndefined_pure (i : E) (h : isUndefined i = true) : PureVal H i (fun v => v = .undef) := by
  unfold isUndefined at h
  intro s
  rw [← eval_inner i]
  split at h
  · rename_i n hi
    rw [hi]
    have : n = "undefined" := by simpa using h
    subst this
    exact ⟨.undef, by simp [getVar, lookup], rfl⟩
  · rename_i x hi
    rw [hi]
    obtain ⟨v, hv, _⟩ := hse_pure (H := H) x (by simpa using h) s
    exact ⟨.undef, by simp [bindM, hv, retM], rfl⟩
  · cases h

/-- the truth value claimed by `isFalsy` (with `neg` pending negations): `b = true` means falsy -/
def FalsyIs (neg b : Bool) (v : Val) : Prop := (if neg then !truthy v else truthy v) = !b

theorem undef_falsy (e : E) (neg : Bool) (h : isUndefined e = true) : PureVal H e (FalsyIs neg (!neg)) := by
  apply (isUndefined_pure (H := H) e h).mono
  intro v hv
  subst hv
  cases neg <;> simp [FalsyIs]

theorem falsyCore_sound (e : E) (neg b : Bool) (h : falsyCore e neg = some b) : PureVal H e (FalsyIs neg b) := by
  cases e with
  | var n =>
    simp only [falsyCore] at h
    split at h
    · injection h with h; subst h
      rename_i hn
      intro s
      refine ⟨lookup s n, by simp [getVar], ?_⟩
      simp only [Bool.or_eq_true, beq_iff_eq] at hn
      rcases hn with hn | hn <;> subst hn <;> cases neg <;> simp [FalsyIs, lookup, truthy]
    · cases h
  | lit l =>
    cases l with
    | num n =>
      simp only [falsyCore] at h
      split at h
      · injection h with h; subst h
        rename_i hn
        have : n = 0 := by simpa using hn
        subst this
        exact pure_ret _ (.num 0) _ (by simp) (by cases neg <;> simp [FalsyIs, truthy])
      · injection h with h; subst h
        rename_i hn
        have hn' : n ≠ 0 := by simpa using hn
        refine pure_ret _ (.num n) _ (by simp) ?_
        have : ((n : Int) != 0) = true := by simp; omega
        cases neg <;> simp [FalsyIs, truthy, this]
    | str t =>
      simp only [falsyCore] at h
      split at h
      · injection h with h; subst h
        rename_i hn
        have : t = "" := by simpa using hn
        subst this
        exact pure_ret _ (.str "") _ (by simp) (by cases neg <;> simp [FalsyIs, truthy])
      · injection h with h; subst h
        rename_i hn
        have hn' : t ≠ "" := by simpa using hn
        refine pure_ret _ (.str t) _ (by simp) ?_
        cases neg <;> simp [FalsyIs, truthy, hn']
    | true =>
      simp only [falsyCore] at h
      injection h with h; subst h
      exact pure_ret _ (.bool true) _ (by simp) (by cases neg <;> simp [FalsyIs])
    | false =>
      simp only [falsyCore] at h
      injection h with h; subst h
      exact pure_ret _ (.bool false) _ (by simp) (by cases neg <;> simp [FalsyIs])
    | null =>
      simp only [falsyCore] at h
      injection h with h; subst h
      exact pure_ret _ .null _ (by simp) (by cases neg <;> simp [FalsyIs])
  | _ =>
    simp only [falsyCore] at h
    split at h
    · injection h with h; subst h
      rename_i hu
      exact undef_falsy _ neg hu
    · cases h

theorem isFalsyAux_sound (e : E) (neg b : Bool) (h : isFalsyAux e neg = some b) : PureVal H e (FalsyIs neg b) := by
  induction e using E.ind generalizing neg b with
  | hgroup x ih =>
    simp only [isFalsyAux] at h
    exact pure_group (ih neg b h)
  | hun op x ih =>
    cases op with
    | not =>
      simp only [isFalsyAux] at h
      intro s
      obtain ⟨w, hw, hp⟩ := ih (!neg) b h s
      refine ⟨.bool (!truthy w), by simp [bindM, hw, retM], ?_⟩
      cases neg <;> simp_all [FalsyIs]
    | _ => exact falsyCore_sound _ neg b (by simpa [isFalsyAux] using h)
  | _ => exact falsyCore_sound _ neg b (by simpa [isFalsyAux] using h)

/-- `isFalsy i = some b`: `i` is pure and its value is falsy iff `b` -/
theorem isFalsy_sound (i : E) (b : Bool) (h : isFalsy i = some b) : PureVal H i (fun v => truthy v = !b) := by
  have := isFalsyAux_sound (H := H) i false b h
  exact this.mono (fun v hv => by simpa [FalsyIs] using hv)

theorem isTruthy_sound (i : E) (b : Bool) (h : isTruthy i = some b) : PureVal H i (fun v => truthy v = b) := by
  unfold isTruthy at h
  cases hf : isFalsy i with
  | none => simp [hf] at h
  | some f =>
    simp [hf] at h
    exact (isFalsy_sound (H := H) i f hf).mono (fun v hv => by rw [hv, h]; simp)

end Verif.Proofs.JsPure

import Verif.Proofs.JsSemLemmas
set_option linter.unusedSimpArgs false
/-!
# C01-B — soundness of the expression rewrites of `js/util.go` (helper lemmas)

`eval H (rewrite e) = eval H e` for every host `H`: same final environment, same trace, same completion.
-/
namespace Verif.Proofs.JsOptSound
open Verif.Spec.JsSyntax Verif.Spec.JsSem Verif.Model.JsAst Verif.Model.JsOpt Verif.Proofs.JsSemLemmas
open Verif.Spec.JsSyntax.E

variable {H : Host}

/-! ## groups -/

@[simp] theorem groupExpr_sound (e : E) (p : Prec) : eval H (groupExpr e p) = eval H e := by
  unfold groupExpr
  split <;> simp

theorem eval_inner (e : E) : eval H e.inner = eval H e := by
  induction e using E.ind with
  | hgroup x ih => simp [E.inner, ih]
  | _ => simp [E.inner]

/-! ## boolean view of an expression -/

/-- evaluate `e` and return (the negation of) its truth value as a boolean -/
def bval (H : Host) (neg : Bool) (e : E) : M Val :=
  bindM (eval H e) (fun v => retM (.bool (if neg then !truthy v else truthy v)))

theorem bval_true (e : E) : bval H true e = bindM (eval H e) (fun v => retM (.bool (!truthy v))) := by
  simp [bval]

theorem bval_false (e : E) : bval H false e = bindM (eval H e) (fun v => retM (.bool (truthy v))) := by
  simp [bval]

theorem eval_not_bval (x : E) : eval H (.unary .not x) = bval H true x := by
  simp [bval]

theorem bval_not (neg : Bool) (x : E) : bval H neg (.unary .not x) = bval H (!neg) x := by
  simp only [bval, eval_not, bindM_assoc, retM_bind]
  apply bindM_congr; intro v
  cases neg <;> simp

theorem bval_group (neg : Bool) (x : E) : bval H neg (.group x) = bval H neg x := by
  simp [bval]

/-- the `!`/group stripping loop of `optimizeUnaryExpr` keeps the boolean view -/
theorem stripNots_sound (x : E) (inv : Bool) :
    bval H (stripNots x inv).2 (stripNots x inv).1 = bval H inv x := by
  induction x using E.ind generalizing inv with
  | hun op x ih =>
    cases op <;> simp only [stripNots]
    rw [ih, bval_not]
  | hgroup x ih => simp only [stripNots]; rw [ih, bval_group]
  | _ => simp only [stripNots]

/-- an outcome that, if normal, is a boolean -/
def BoolOut (o : Out Val) : Prop :=
  match o with
  | .ok v _ => ∃ b, v = .bool b
  | .thr _ _ => True

/-- an expression that always yields a boolean -/
def BoolValued (H : Host) (e : E) : Prop := ∀ s, BoolOut (eval H e s)

theorem boolValued_bval (e : E) (h : BoolValued H e) : bval H false e = eval H e := by
  funext s
  have := h s
  simp only [bval, bindM, retM]
  cases he : eval H e s with
  | thr v s' => rfl
  | ok v s' =>
    rw [he] at this
    obtain ⟨b, rfl⟩ := this
    simp

theorem boolOut_bind {α : Type} (m : M α) (f : α → M Val) (s : St) (h : ∀ a s', BoolOut (f a s')) :
    BoolOut (bindM m f s) := by
  simp only [bindM]
  cases m s with
  | ok a s' => exact h a s'
  | thr v s' => trivial

theorem boolOut_ret (b : Bool) (s : St) : BoolOut (retM (Val.bool b) s) := ⟨b, rfl⟩

theorem strictBin_bool (op : BOp) (a b : Val)
    (h : op = .lt ∨ op = .le ∨ op = .gt ∨ op = .ge ∨ op = .inOp ∨ op = .instOf ∨ op = .eq ∨ op = .ne ∨ op = .seq ∨ op = .sne)
    (s : St) : BoolOut (strictBin H op a b s) := by
  rcases h with h | h | h | h | h | h | h | h | h | h <;> subst h <;> simp only [strictBin]
  all_goals first
    | exact boolOut_ret _ s
    | exact boolOut_bind _ _ s (fun r s' => boolOut_ret _ s')

theorem boolValued_of_isBooleanExpr (e : E) (h : isBooleanExpr e = true) : BoolValued H e := by
  induction e using E.ind with
  | hun op x _ =>
    simp only [isBooleanExpr, beq_iff_eq] at h
    subst h
    intro s
    rw [eval_not]
    exact boolOut_bind _ _ s (fun r s' => boolOut_ret _ s')
  | hbin op x y ihx ihy =>
    simp only [isBooleanExpr] at h
    split at h
    · -- `&&` / `||` of booleans
      rename_i hp
      simp only [Bool.and_eq_true] at h
      have hx := ihx h.1
      have hy := ihy h.2
      simp only [Bool.or_eq_true, beq_iff_eq] at hp
      intro s
      rcases hp with hp | hp
      · have := prec_eq_and op hp; subst this
        rw [eval_land]
        simp only [bindM]
        have h1 := hx s
        cases he : eval H x s with
        | thr v s' => trivial
        | ok v s' =>
          rw [he] at h1
          by_cases ht : truthy v = true
          · simp only [ht, if_true]; exact hy s'
          · simp only [ht]; exact h1
      · have := prec_eq_or op hp; subst this
        rw [eval_lor]
        simp only [bindM]
        have h1 := hx s
        cases he : eval H x s with
        | thr v s' => trivial
        | ok v s' =>
          rw [he] at h1
          by_cases ht : truthy v = true
          · simp only [ht, if_true]; exact h1
          · simp only [ht]; exact hy s'
    · -- comparisons and equalities
      simp only [Bool.or_eq_true, beq_iff_eq] at h
      have hop : op = .lt ∨ op = .le ∨ op = .gt ∨ op = .ge ∨ op = .inOp ∨ op = .instOf ∨ op = .eq ∨ op = .ne ∨
          op = .seq ∨ op = .sne := by
        rcases h with h | h
        · rcases prec_eq_compare op h with h | h | h | h | h | h <;> simp [h]
        · rcases prec_eq_equals op h with h | h | h | h <;> simp [h]
      have hs : isStrictOp op = true := by
        rcases hop with h | h | h | h | h | h | h | h | h | h <;> subst h <;> rfl
      intro s
      rw [eval_strict op x y hs]
      exact boolOut_bind _ _ s (fun a s1 => boolOut_bind _ _ s1 (fun b s2 => strictBin_bool op a b hop s2))
  | hlit l =>
    cases l <;> simp [isBooleanExpr] at h
    · intro s; rw [eval_true]; exact boolOut_ret _ s
    · intro s; rw [eval_false]; exact boolOut_ret _ s
  | hgroup x ih =>
    simp only [isBooleanExpr] at h
    intro s; rw [eval_group]; exact ih h s
  | _ => simp [isBooleanExpr] at h

/-! ## inverting an equality operator -/

theorem strictBin_invert (op : BOp) (a b : Val) (h : op = .eq ∨ op = .ne ∨ op = .seq ∨ op = .sne) :
    strictBin H (invertOp op) a b = bindM (strictBin H op a b) (fun v => retM (.bool (!truthy v))) := by
  rcases h with h | h | h | h <;> subst h <;> simp [strictBin, invertOp]

theorem eval_invert (op : BOp) (x y : E) (h : op.prec = opEquals) :
    eval H (.bin (invertOp op) x y) = bval H true (.bin op x y) := by
  have hop := prec_eq_equals op h
  have hs : isStrictOp op = true := by rcases hop with h | h | h | h <;> subst h <;> rfl
  have hs' : isStrictOp (invertOp op) = true := by rcases hop with h | h | h | h <;> subst h <;> rfl
  rw [bval, eval_strict _ _ _ hs, eval_strict _ _ _ hs']
  simp only [bindM_assoc]
  apply bindM_congr; intro a
  apply bindM_congr; intro b
  rw [strictBin_invert op a b hop]
  simp

/-! ## De Morgan -/

theorem demorgan_land (x1 y1 x y : E) (hx : eval H x1 = bval H true x) (hy : eval H y1 = bval H true y) :
    eval H (.bin .lor x1 y1) = bval H true (.bin .land x y) := by
  rw [eval_lor, hx, hy, bval_true, bval_true, bval_true, eval_land]
  funext s
  simp only [bindM, retM]
  cases eval H x s with
  | thr v s' => rfl
  | ok v s' =>
    by_cases ht : truthy v = true
    · simp [ht, retM] <;> rfl
    · simp [ht, retM] <;> rfl

theorem demorgan_lor (x1 y1 x y : E) (hx : eval H x1 = bval H true x) (hy : eval H y1 = bval H true y) :
    eval H (.bin .land x1 y1) = bval H true (.bin .lor x y) := by
  rw [eval_land, hx, hy, bval_true, bval_true, bval_true, eval_lor]
  funext s
  simp only [bindM, retM]
  cases eval H x s with
  | thr v s' => rfl
  | ok v s' =>
    by_cases ht : truthy v = true
    · simp [ht, retM] <;> rfl
    · simp [ht, retM] <;> rfl

/-- the negated operand built by the De Morgan rewrite -/
theorem negOperand_sound (x : E) (g : Bool) : eval H (negOperand x g) = bval H true x := by
  unfold negOperand
  split
  · rename_i h
    cases x <;> simp [isEqOperand] at h
    rename_i o a b
    exact eval_invert o a b h
  · cases g <;> simp [bval_true]

theorem deMorganBuild_sound (bop : BOp) (x y : E) (p : Prec) (hb : bop = .land ∨ bop = .lor) :
    eval H (deMorganBuild bop x y p) = bval H true (.bin bop x y) := by
  unfold deMorganBuild
  simp only
  rcases hb with hb | hb <;> subst hb
  · have key : ∀ gx gy, eval H (.bin .lor (negOperand x gx) (negOperand y gy)) = bval H true (.bin .land x y) :=
      fun gx gy => demorgan_land _ _ x y (negOperand_sound x gx) (negOperand_sound y gy)
    split <;> simp [dualOp, key]
  · have key : ∀ gx gy, eval H (.bin .land (negOperand x gx) (negOperand y gy)) = bval H true (.bin .lor x y) :=
      fun gx gy => demorgan_lor _ _ x y (negOperand_sound x gx) (negOperand_sound y gy)
    split <;> simp [dualOp, key]

theorem deMorgan_sound (bop : BOp) (x y : E) (p : Prec) (r : E) (hb : bop = .land ∨ bop = .lor)
    (h : deMorgan bop x y p = some r) : eval H r = bval H true (.bin bop x y) := by
  unfold deMorgan at h
  split at h
  · injection h with h
    subst h
    exact deMorganBuild_sound bop x y p hb
  · cases h

/-! ## `optimizeUnaryExpr`, `optimizeBooleanExpr` -/

theorem optNotCore_sound (e2 : E) (invert : Bool) (p : Prec) (orig : E)
    (h : eval H orig = bval H invert e2) : eval H (optNotCore e2 invert p orig) = eval H orig := by
  unfold optNotCore
  split
  · rename_i hc
    simp only [Bool.and_eq_true, Bool.not_eq_true'] at hc
    rw [groupExpr_sound, h, hc.1, boolValued_bval e2 (boolValued_of_isBooleanExpr e2 hc.2)]
  · cases e2 with
    | bin bop a b =>
      simp only
      split
      · rename_i hi
        subst hi
        split
        · rename_i hp
          rw [groupExpr_sound, h]
          exact eval_invert bop a b (by simpa using hp)
        · split
          · rename_i hb
            split
            · rename_i r hr
              rw [h]
              exact deMorgan_sound bop a b p r (by simpa using hb) hr
            · rfl
          · rfl
      · rfl
    | _ => rfl

theorem optUnary_sound (op : UOp) (x : E) (p : Prec) : eval H (optUnary op x p) = eval H (.unary op x) := by
  unfold optUnary
  split
  · rename_i h
    have : op = .not := by simpa using h
    subst this
    apply optNotCore_sound
    rw [stripNots_sound, eval_not_bval]
  · rfl

/-- `optimizeBooleanExpr(e, invert, p)` yields the (negated) truth value of `e` as a boolean -/
theorem optBool_sound (e : E) (invert : Bool) (p : Prec) : eval H (optBool e invert p) = bval H invert e := by
  unfold optBool
  split
  · rename_i hi
    subst hi
    split
    · rename_i op a b
      split
      · rename_i hp
        exact eval_invert op a b (by simpa using hp)
      · rw [optUnary_sound, eval_not_bval, bval_true, bval_true, groupExpr_sound]
    · rw [optUnary_sound, eval_not_bval, bval_true, bval_true, groupExpr_sound]
  · rename_i hi
    have : invert = false := by simpa using hi
    subst this
    split
    · rename_i hb
      rw [groupExpr_sound, boolValued_bval e (boolValued_of_isBooleanExpr e hb)]
    · rw [eval_not_bval, bval_not, bval_group_or]
where
  bval_group_or : bval H (!true) (groupExpr e opUnary) = bval H false e := by
    simp [bval]

end Verif.Proofs.JsOptSound

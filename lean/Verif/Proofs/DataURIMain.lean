import Verif.Proofs.DataURIStrip
/-!
# C18: assembly of the preservation theorem for `minify.DataURI`
-/
set_option maxRecDepth 100000
namespace Verif.Proofs.DataURI
open Verif Verif.Model.DataURI

theorem dropWhile_append_stop_all {α} (p : α → Bool) (l : List α) (x : α) (m : List α)
    (hl : ∀ a ∈ l, p a = true) (hx : p x = false) : (l ++ x :: m).dropWhile p = x :: m := by
  induction l with
  | nil => simp [List.dropWhile, hx]
  | cons a r ih =>
    have ha : p a = true := hl a (by simp)
    simp only [List.cons_append, List.dropWhile, ha]
    exact ih (fun b hb => hl b (by simp [hb]))

/-- reading back a URL of the shape the helper writes -/
theorem splitURL_build (h pl : List Char) (hc : ',' ∉ h) :
    S.splitURL (dataPrefix ++ h ++ [','] ++ pl) = some (h, pl) := by
  have e : dataPrefix ++ h ++ [','] ++ pl = dataPrefix ++ (h ++ ',' :: pl) := by simp
  have hall : ∀ a ∈ h, (fun x => decide (x ≠ ',')) a = true := by
    intro a ha
    have : a ≠ ',' := fun e => hc (e ▸ ha)
    simpa using this
  unfold S.splitURL
  rw [e]
  have h5 : (dataPrefix ++ (h ++ ',' :: pl)).take 5 = "data:".toList := by simp [dataPrefix]
  have hd : (dataPrefix ++ (h ++ ',' :: pl)).drop 5 = h ++ ',' :: pl := by simp [dataPrefix]
  rw [if_pos h5]
  simp only [hd]
  rw [dropWhile_append_stop_all _ h ',' pl hall (by simp), takeWhile_append_stop _ h ',' pl hall (by simp)]

/-! ## the `text/plain` step -/

theorem tp_step (y : List Char) :
    stripTextPlain y = y ∨
    ∃ P R, y = P ++ R ∧ P.map toLower = textPlain ∧ (R = [] ∨ ∃ R', R = ';' :: R') ∧ stripTextPlain y = R := by
  unfold stripTextPlain
  split
  · rename_i h
    right
    refine ⟨y.take 10, y.drop 10, (List.take_append_drop 10 y).symm, by simpa [equalFold] using h.2.1, ?_, rfl⟩
    cases hd : y.drop 10 with
    | nil => left; rfl
    | cons d t =>
      right
      have := h.2.2
      rw [hd] at this
      simp only [endOrSemi, decide_eq_true_eq] at this
      exact ⟨t, by rw [this]⟩
  · left; rfl

theorem finish_norm (u head p x : List Char) (hf : HeadFacts head x) (hs : S.splitURL u = some (head, p))
    (hg : S.trigParamNoType u = false) : S.mtNorm (finishMt x) = S.mtNorm (S.splitMarker head).1 := by
  have hk : S.mtNorm x = S.mtNorm (S.splitMarker head).1 := by
    rw [mtNorm_eq, mtNorm_eq, key_of_strip_eq hf.strip]
  unfold S.trigParamNoType at hg
  rw [hs] at hg
  simp only [] at hg
  unfold finishMt
  split
  · rw [← hk]; decide
  · rename_i c r
    split
    · rename_i hc
      subst hc
      have hh : (S.stripWs (S.splitMarker head).1).head? = some ';' := by
        rw [← hf.strip]
        simp [S.stripWs, S.ws]
      rw [hh] at hg
      simp only [decide_true, Bool.true_and, decide_eq_false_iff_not, Decidable.not_not] at hg
      rw [hg]; decide
    · exact hk

/-- both stripping steps keep the normal form, keep later items from looking like the marker, add no comma -/
theorem strip_facts (head x : List Char) (hf : HeadFacts head x) :
    S.mtNorm (stripCharset (stripTextPlain (finishMt x))) = S.mtNorm (finishMt x) ∧
    goodTail (stripCharset (stripTextPlain (finishMt x))) ∧
    ',' ∉ stripCharset (stripTextPlain (finishMt x)) := by
  have hy1 : goodTail (finishMt x) := goodTail_finish x hf.good
  have hy2 : ',' ∉ finishMt x := comma_finish x hf.comma
  -- text/plain step
  have hT : S.mtNorm (stripTextPlain (finishMt x)) = S.mtNorm (finishMt x) ∧
      goodTail (stripTextPlain (finishMt x)) ∧ ',' ∉ stripTextPlain (finishMt x) := by
    rcases tp_step (finishMt x) with h | ⟨P, R, he, hP, hR, hst⟩
    · rw [h]; exact ⟨rfl, hy1, hy2⟩
    · rw [hst]
      refine ⟨?_, ?_, ?_⟩
      · rw [he, norm_textplain P R hP hR]
      · rw [he] at hy1
        exact goodTail_drop P R (fold_no_semi hP (by decide)) hy1
      · intro hm; apply hy2; rw [he]; exact List.mem_append_right _ hm
  generalize stripTextPlain (finishMt x) = T at hT ⊢
  obtain ⟨hn, hgt, hc⟩ := hT
  rcases stripCharset_cases T with h | ⟨a, c, b, he, hcf, hb, hst⟩
  · rw [h]; exact ⟨hn, hgt, hc⟩
  · rw [hst]
    refine ⟨?_, ?_, ?_⟩
    · rw [← hn, he, norm_charset a c b hcf hb]
    · rw [he] at hgt
      exact goodTail_charset a c b hcf hb hgt
    · intro hm
      apply hc
      rw [he]
      rcases List.mem_append.1 hm with h1 | h1
      · simp [h1]
      · simp [h1]

/-- parts of `u` are bytes when `u` is -/
theorem allBytes_payload (u head p : List Char) (hs : S.splitURL u = some (head, p)) (hu : AllBytes u) : AllBytes p := by
  obtain ⟨he, _⟩ := splitURL_spec u head p hs
  intro c hc
  apply hu
  rw [he]
  simp [hc]

/-- **preservation, assembled**: see `Props.C18.dataURI_preserves_partial` -/
theorem preserves_core (sub : List Char → List Char → Option (List Char)) (u mt d : List Char)
    (hu : AllBytes u) (hsub : ∀ m x y, sub m x = some y → AllBytes y)
    (hr : S.rfcParse u = some (mt, d))
    (g1 : S.trigPlus u = false) (g2 : S.trigParamNoType u = false) (g3 : S.trigB64Item u = false) :
    ∃ mtd, parseDataURI u = some (mtd, d) ∧ S.mtNorm mtd = S.mtNorm mt ∧
      (dataURI sub u = u ∨
       ∃ mt', S.rfcParse (dataURI sub u) = some (mt', (sub mtd d).getD d) ∧ S.mtNorm mt' = S.mtNorm mt) := by
  -- the RFC reading of the input
  unfold S.rfcParse at hr
  cases hs : S.splitURL u with
  | none => rw [hs] at hr; cases hr
  | some hp =>
    obtain ⟨head, p⟩ := hp
    rw [hs] at hr
    simp only [] at hr
    obtain ⟨x, hf, hparse⟩ := parse_structure u head p hs g3
    have hmt : (S.splitMarker head).1 = mt ∧
        ((S.splitMarker head).2 = true ∧ S.b64Decode p = some d ∨
         (S.splitMarker head).2 = false ∧ S.pctDecode p = d) := by
      cases hm : S.splitMarker head with
      | mk m b =>
        rw [hm] at hr
        cases b with
        | true =>
          simp only [Option.map_eq_some_iff, Prod.mk.injEq] at hr
          obtain ⟨d0, h1, h2, h3⟩ := hr
          exact ⟨h2, Or.inl ⟨rfl, by rw [h1, h3]⟩⟩
        | false =>
          simp only [Option.some.injEq, Prod.mk.injEq] at hr
          exact ⟨hr.1, Or.inr ⟨rfl, hr.2⟩⟩
    -- the dependency reads the same
    have hmodel : parseDataURI u = some (finishMt x, d) := by
      rw [hparse]
      rcases hmt.2 with ⟨hb, hd⟩ | ⟨hb, hd⟩
      · simp [hb, b64Decode_imp_b64dec p d hd]
      · have hplus : '+' ∉ p := by
          unfold S.trigPlus at g1
          rw [hs] at g1
          simp only [hb, Bool.not_false, Bool.true_and] at g1
          intro hm
          have : p.contains '+' = true := by simpa using hm
          rw [this] at g1; cases g1
        simp [hb, ← pctDecode_eq_decodeURL p hplus, hd]
    have hnorm : S.mtNorm (finishMt x) = S.mtNorm mt := by
      rw [finish_norm u head p x hf hs g2, hmt.1]
    refine ⟨finishMt x, hmodel, hnorm, ?_⟩
    have hdb : AllBytes d := by
      rcases hmt.2 with ⟨_, hd⟩ | ⟨hb, hd⟩
      · exact b64dec_allBytes p d (b64Decode_imp_b64dec p d hd)
      · have hplus : '+' ∉ p := by
          unfold S.trigPlus at g1
          rw [hs] at g1
          simp only [hb, Bool.not_false, Bool.true_and] at g1
          intro hm
          have : p.contains '+' = true := by simpa using hm
          rw [this] at g1; cases g1
        rw [← hd, pctDecode_eq_decodeURL p hplus]
        exact decodeURL_allBytes p (allBytes_payload u head p hs hu)
    have hd' : AllBytes ((sub (finishMt x) d).getD d) := by
      cases hsd : sub (finishMt x) d with
      | none => exact hdb
      | some y => exact hsub _ _ _ hsd
    obtain ⟨hsn, hsg, hsc⟩ := strip_facts head x hf
    unfold dataURI
    simp only [hmodel]
    generalize (sub (finishMt x) d).getD d = d' at hd' ⊢
    split
    · left; rfl
    · right
      by_cases hb : 7 + b64Len d'.length < asciiEst tbl (7 + b64Len d'.length) d'.length d'
      · rw [if_pos hb, if_pos hb, stripTextPlain_append, stripCharset_append]
        refine ⟨stripCharset (stripTextPlain (finishMt x)), ?_, by rw [hsn, hnorm]⟩
        have hc2 : ',' ∉ stripCharset (stripTextPlain (finishMt x)) ++ semiBase64 := by
          intro hm
          rcases List.mem_append.1 hm with h1 | h1
          · exact hsc h1
          · revert h1; decide
        unfold S.rfcParse
        rw [splitURL_build _ _ hc2]
        simp only [marker_b64, b64Decode_b64enc d' hd', Option.map_some]
      · rw [if_neg hb, if_neg hb]
        refine ⟨stripCharset (stripTextPlain (finishMt x)), ?_, by rw [hsn, hnorm]⟩
        unfold S.rfcParse
        rw [splitURL_build _ _ hsc]
        simp only [marker_of_goodTail _ hsg, pctDecode_encodeURL tbl (by decide) d' hd']

end Verif.Proofs.DataURI

import Verif.Proofs.C09HtmlTag
import Verif.Spec.C09HtmlShape
/-!
# C09 / HTML — RCDATA / RAWTEXT / script data: text without an appropriate end tag is read as text, and the end tag
that follows it is found

Invariant proof over the states *text*, *less-than sign*, *end tag open*, *end tag name* (and, for script data, *escape
start* / *escape start dash*): what has been consumed but not yet emitted (`pend`) together with the rest of the text
contains no appropriate end tag, and (script) what decides about `<!--` (`ctx`) together with the rest contains no `<!--`.
-/
namespace Verif.Proofs.C09HtmlRaw
open Verif.Spec.C09HtmlTok Verif.Spec.C09HtmlShape Verif.Spec.HtmlAttr Verif.Proofs.C09HtmlTok Verif.Proofs.C09HtmlTag

theorem textStep_raw (m : M) (c : Char) (hm : rawMode m.mode = true) :
    textStep m c = if c = '<' then (at_ m .rLt, []) else (at_ m .text, [.char c m.mode.refs]) := by
  obtain ⟨sc, md, la, fo, s0⟩ := m
  cases md <;> first | rfl | (simp [rawMode] at hm)

def pend : S → List Char
  | .rLt => ['<']
  | .rEndOpen => ['<', '/']
  | .rEndName buf => '<' :: '/' :: buf
  | _ => []

def ctx : S → List Char
  | .rLt => ['<']
  | .sEscStart => ['<', '!']
  | .sEscStartDash => ['<', '!', '-']
  | _ => []

inductive RawSt (m : M) : S → Prop
  | text : RawSt m .text
  | lt : RawSt m .rLt
  | endOpen : RawSt m .rEndOpen
  | endName (buf : List Char) : RawSt m (.rEndName buf)
  | escStart (h : m.mode = .script) : RawSt m .sEscStart
  | escStartDash (h : m.mode = .script) : RawSt m .sEscStartDash

theorem hasEndTag_drop (tag a b : List Char) (h : hasEndTag tag (a ++ b) = false) : hasEndTag tag b = false := by
  induction a with
  | nil => exact h
  | cons c a ih =>
    simp only [List.cons_append, hasEndTag, Bool.or_eq_false_iff] at h
    exact ih h.2

theorem hasInfix_tail (c : Char) (w : List Char) (h : hasInfix commentOpen (c :: w) = false) :
    hasInfix commentOpen w = false := by
  cases w with
  | nil => rfl
  | cons d w => simp only [hasInfix, Bool.or_eq_false_iff] at h; simpa [hasInfix] using h.2

theorem hasInfix_drop' (a b : List Char) (h : hasInfix commentOpen (a ++ b) = false) :
    hasInfix commentOpen b = false := by
  induction a with
  | nil => exact h
  | cons c a ih => exact ih (hasInfix_tail c _ h)

/-- no `<!--` — required in script data only (the only mode with escaped states) -/
def noOpen (m : M) (l : List Char) : Bool := m.mode != .script || !hasInfix commentOpen l

theorem noOpen_tail (m : M) (c : Char) (w : List Char) (h : noOpen m (c :: w) = true) : noOpen m w = true := by
  unfold noOpen at *
  cases hmd : (m.mode != .script) with
  | true => rfl
  | false =>
    simp only [hmd, Bool.false_or, Bool.not_eq_true'] at h ⊢
    exact hasInfix_tail c w h

theorem noOpen_drop (m : M) (a b : List Char) (h : noOpen m (a ++ b) = true) : noOpen m b = true := by
  induction a with
  | nil => exact h
  | cons c a ih => exact ih (noOpen_tail m c _ h)

theorem hasInfix_lt_slash (l : List Char) :
    hasInfix commentOpen ('<' :: '/' :: l) = hasInfix commentOpen l := by
  cases l <;> simp [hasInfix, commentOpen, List.isPrefixOf]

/-- an appropriate end tag right here -/
theorem hasEndTag_here (tag buf : List Char) (c : Char) (w : List Char) (hb : buf.map lower = tag) (hc : isDelim c = true) :
    hasEndTag tag ('<' :: '/' :: (buf ++ c :: w)) = true := by
  have hl : tag.length = buf.length := by rw [← hb, List.length_map]
  simp only [hasEndTag, startsEndTag, hl, List.take_left', List.drop_left', hb, beq_self_eq_true, hc, Bool.and_self,
    Bool.true_or]

def chs (refs : Bool) (l : List Char) : List Tok := l.map (fun c => .char c refs)

theorem chs_eq (refs : Bool) (l : List Char) : chars refs l = chs refs l := rfl

theorem chs_append (refs : Bool) (a b : List Char) : chs refs (a ++ b) = chs refs a ++ chs refs b := by
  simp [chs]

/-- the common fall-back: `pre` (consumed, not yet emitted) is emitted and `c` is reprocessed in the text state -/
theorem fallback (m : M) (hm : rawMode m.mode = true) (s0 : S) (pre : List Char) (c : Char) (w : List Char)
    (h1 : hasEndTag m.last (pre ++ c :: w) = false) (h2 : noOpen m (c :: w) = true) :
    ∃ s' out, textStep (at_ m s0) c = (at_ m s', out) ∧ RawSt m s' ∧
      chs m.mode.refs pre ++ out ++ chs m.mode.refs (pend s') = chs m.mode.refs (pre ++ [c]) ∧
      hasEndTag m.last (pend s' ++ w) = false ∧ noOpen m (ctx s' ++ w) = true := by
  have hts := textStep_raw (at_ m s0) c (by simpa using hm)
  simp only [at_at, at_mode] at hts
  rw [hts]
  by_cases hc : c = '<'
  · subst hc
    refine ⟨.rLt, [], by simp, .lt, by simp [chs_append, pend], ?_, ?_⟩
    · exact hasEndTag_drop _ pre _ h1
    · exact h2
  · refine ⟨.text, [.char c m.mode.refs], by simp [hc], .text, by simp [pend, chs], ?_, ?_⟩
    · have := hasEndTag_drop m.last (pre ++ [c]) w (by simpa using h1)
      simpa [pend] using this
    · have := noOpen_tail m c w h2
      simpa [ctx] using this

theorem step_text (m : M) (c : Char) : step (at_ m .text) c = textStep (at_ m .text) c := rfl

theorem step_rLt (m : M) (c : Char) : step (at_ m .rLt) c =
    if c = '/' then (at_ m .rEndOpen, [])
    else if (c = '!' && m.mode == .script) = true then (at_ m .sEscStart, [.char '<' false, .char '!' false])
    else ((textStep (at_ m .rLt) c).1, .char '<' m.mode.refs :: (textStep (at_ m .rLt) c).2) := rfl

theorem step_rEndOpen (m : M) (c : Char) : step (at_ m .rEndOpen) c =
    if isAlpha c = true then (at_ m (.rEndName [c]), [])
    else ((textStep (at_ m .rEndOpen) c).1, chars m.mode.refs ['<', '/'] ++ (textStep (at_ m .rEndOpen) c).2) := rfl

theorem step_rEndName (m : M) (buf : List Char) (c : Char) :
    step (at_ m (.rEndName buf)) c = endNameStep (at_ m (.rEndName buf)) false buf c := rfl

theorem step_sEscStart (m : M) (c : Char) : step (at_ m .sEscStart) c =
    if c = '-' then (at_ m .sEscStartDash, [.char c false]) else textStep (at_ m .sEscStart) c := rfl

theorem step_sEscStartDash (m : M) (c : Char) : step (at_ m .sEscStartDash) c =
    if c = '-' then (at_ m .sEscDashDash, [.char c false]) else textStep (at_ m .sEscStartDash) c := rfl

/-- one character -/
theorem raw_step (m : M) (hm : rawMode m.mode = true) (s : S) (hs : RawSt m s) (c : Char) (w : List Char)
    (he : hasEndTag m.last (pend s ++ c :: w) = false) (hi : noOpen m (ctx s ++ c :: w) = true) :
    ∃ s' out, step (at_ m s) c = (at_ m s', out) ∧ RawSt m s' ∧
      out ++ chs m.mode.refs (pend s') = chs m.mode.refs (pend s ++ [c]) ∧
      hasEndTag m.last (pend s' ++ w) = false ∧ noOpen m (ctx s' ++ w) = true := by
  cases hs with
  | text =>
    obtain ⟨s', out, e, r, q, h1, h2⟩ := fallback m hm .text [] c w (by simpa [pend] using he) (by simpa [ctx] using hi)
    exact ⟨s', out, by rw [step_text, e], r, by simpa [chs, pend] using q, h1, h2⟩
  | lt =>
    rw [step_rLt]
    by_cases h1 : c = '/'
    · subst h1
      exact ⟨.rEndOpen, [], by simp, .endOpen, rfl, by simpa [pend] using he,
        noOpen_drop m ['<', '/'] _ (by simpa [ctx] using hi)⟩
    · by_cases h2 : (c = '!' && m.mode == .script) = true
      · have hc : c = '!' := by simp only [Bool.and_eq_true, decide_eq_true_eq] at h2; exact h2.1
        have hsc : m.mode = .script := by simp only [Bool.and_eq_true, beq_iff_eq] at h2; exact h2.2
        subst hc
        refine ⟨.sEscStart, [.char '<' false, .char '!' false], by simp [hsc], .escStart hsc, ?_, ?_, ?_⟩
        · simp [chs, pend, hsc, Mode.refs]
        · have := hasEndTag_drop m.last ['<', '!'] w (by simpa [pend] using he)
          simpa [pend] using this
        · simpa [ctx] using hi
      · obtain ⟨s', out, e, r, q, h3, h4⟩ := fallback m hm .rLt ['<'] c w (by simpa [pend] using he) (noOpen_drop m ['<'] _ (by simpa [ctx] using hi))
        refine ⟨s', .char '<' m.mode.refs :: out, by simp [h1, h2, e], r, ?_, h3, h4⟩
        simpa [chs, pend] using q
  | endOpen =>
    rw [step_rEndOpen]
    by_cases h1 : isAlpha c = true
    · refine ⟨.rEndName [c], [], by simp [h1], .endName _, by simp [pend, chs], by simpa [pend] using he, ?_⟩
      have := noOpen_drop m [c] w (by simpa [ctx] using hi)
      simpa [ctx] using this
    · obtain ⟨s', out, e, r, q, h3, h4⟩ := fallback m hm .rEndOpen ['<', '/'] c w (by simpa [pend] using he)
        (by simpa [ctx] using hi)
      refine ⟨s', chars m.mode.refs ['<', '/'] ++ out, by simp [h1, e], r, ?_, h3, h4⟩
      simpa [chs, chars, pend] using q
  | endName buf =>
    rw [step_rEndName]
    unfold endNameStep
    simp only [at_last, at_mode, Bool.false_eq_true, if_false]
    by_cases h1 : isAlpha c = true
    · refine ⟨.rEndName (buf ++ [c]), [], by simp [h1, at_], .endName _, by simp [pend, chs], ?_, ?_⟩
      · simpa [pend] using he
      · have := noOpen_drop m [c] w (by simpa [ctx] using hi)
        simpa [ctx] using this
    · -- not a letter: either an appropriate end tag (excluded) or the fall-back
      have hno : ¬ ((buf.map lower == m.last) = true ∧ isDelim c = true) := by
        rintro ⟨ha, hd⟩
        have := hasEndTag_here m.last buf c w (by simpa using ha) hd
        simp only [pend, List.cons_append] at he
        rw [this] at he; cases he
      obtain ⟨s', out, e, r, q, h3, h4⟩ := fallback m hm (.rEndName buf) ('<' :: '/' :: buf) c w
        (by simpa [pend] using he) (by simpa [ctx] using hi)
      refine ⟨s', chars m.mode.refs ('<' :: '/' :: buf) ++ out, ?_, r, ?_, h3, h4⟩
      · simp only [isDelim, Bool.or_eq_true, decide_eq_true_eq] at hno
        simp only [h1, Bool.false_eq_true, if_false, e]
        by_cases ha : (buf.map lower == m.last) = true
        · have hw : isWs c = false := by
            cases hh : isWs c with
            | false => rfl
            | true => exact absurd ⟨ha, Or.inl (Or.inl hh)⟩ hno
          have h2 : c ≠ '/' := fun e' => hno ⟨ha, Or.inl (Or.inr e')⟩
          have h3' : c ≠ '>' := fun e' => hno ⟨ha, Or.inr e'⟩
          simp [ha, hw, h2, h3']
        · simp [ha]
      · simpa [chs, chars, pend] using q
  | escStart hsc =>
    rw [step_sEscStart]
    by_cases h1 : c = '-'
    · subst h1
      refine ⟨.sEscStartDash, [.char '-' false], by simp, .escStartDash hsc, ?_, ?_, by simpa [ctx] using hi⟩
      · simp [chs, pend, hsc, Mode.refs]
      · have := hasEndTag_drop m.last ['-'] w (by simpa [pend] using he)
        simpa [pend] using this
    · obtain ⟨s', out, e, r, q, h3, h4⟩ := fallback m hm .sEscStart [] c w (by simpa [pend] using he)
        (noOpen_drop m ['<', '!'] _ (by simpa [ctx] using hi))
      exact ⟨s', out, by simp [h1, e], r, by simpa [chs, pend] using q, h3, h4⟩
  | escStartDash hsc =>
    rw [step_sEscStartDash]
    by_cases h1 : c = '-'
    · subst h1
      exfalso
      simp [noOpen, hsc, ctx, hasInfix, commentOpen, List.isPrefixOf] at hi
    · obtain ⟨s', out, e, r, q, h3, h4⟩ := fallback m hm .sEscStartDash [] c w (by simpa [pend] using he)
        (noOpen_drop m ['<', '!', '-'] _ (by simpa [ctx] using hi))
      exact ⟨s', out, by simp [h1, e], r, by simpa [chs, pend] using q, h3, h4⟩

/-- many characters: everything consumed is emitted as character tokens, except what is still pending -/
theorem raw_scan (m : M) (hm : rawMode m.mode = true) : ∀ (w : List Char) (s : S), RawSt m s →
    hasEndTag m.last (pend s ++ w) = false → noOpen m (ctx s ++ w) = true →
    ∃ s', runS (at_ m s) w = at_ m s' ∧ RawSt m s' ∧
      runO (at_ m s) w ++ chs m.mode.refs (pend s') = chs m.mode.refs (pend s ++ w) := by
  intro w
  induction w with
  | nil => intro s hs _ _; exact ⟨s, rfl, hs, by simp [runO]⟩
  | cons c w ih =>
    intro s hs he hi
    obtain ⟨s1, out, e, r, q, h1, h2⟩ := raw_step m hm s hs c w he hi
    obtain ⟨s', e', r', q'⟩ := ih s1 r h1 h2
    refine ⟨s', by rw [runS_cons, e]; exact e', r', ?_⟩
    rw [runO_cons, e]
    simp only [List.append_assoc, q', chs_append]
    rw [← List.append_assoc, q, chs_append]
    simp [chs, List.append_assoc]

theorem run_rEndName (m : M) (w buf : List Char) (h : w.all isAlpha = true) :
    runS (at_ m (.rEndName buf)) w = at_ m (.rEndName (buf ++ w)) ∧ runO (at_ m (.rEndName buf)) w = [] := by
  induction w generalizing buf with
  | nil => simp [runS, runO]
  | cons c w ih =>
    simp only [List.all_cons, Bool.and_eq_true] at h
    have hstep : step (at_ m (.rEndName buf)) c = (at_ m (.rEndName (buf ++ [c])), []) := by
      rw [step_rEndName]; unfold endNameStep; simp [h.1, at_]
    have := ih (buf ++ [c]) h.2
    simp only [runS, runO, hstep, List.nil_append]
    simpa using this

/-- from every state of the invariant, `</tag>` for the current element is found as its end tag -/
theorem raw_close (m : M) (hm : rawMode m.mode = true) (s : S) (hs : RawSt m s) (tag : List Char)
    (hg : goodRawTag tag = true) (hl : m.last = tag) :
    runO (at_ m s) ('<' :: '/' :: (tag ++ ['>'])) = chs m.mode.refs (pend s) ++ [.endTag tag] ∧
    runS (at_ m s) ('<' :: '/' :: (tag ++ ['>'])) = (emitTag m { isEnd := true, name := tag } false).1 := by
  have hts : ∀ s0, textStep (at_ m s0) '<' = (at_ m .rLt, []) := by
    intro s0; have := textStep_raw (at_ m s0) '<' (by simpa using hm); simpa using this
  -- `<` resets every state to the less-than-sign state and flushes what was pending
  have h0 : step (at_ m s) '<' = (at_ m .rLt, chs m.mode.refs (pend s)) := by
    cases hs with
    | text => rw [step_text, hts]; rfl
    | lt => rw [step_rLt, hts]; simp [chs, pend]
    | endOpen => rw [step_rEndOpen, hts]; simp [chs, chars, pend, isAlpha]
    | endName buf =>
      rw [step_rEndName]; unfold endNameStep
      simp only [hts, at_mode]
      simp [chs, chars, pend, isAlpha, isWs]
    | escStart hsc => rw [step_sEscStart, hts]; simp [chs, pend]
    | escStartDash hsc => rw [step_sEscStartDash, hts]; simp [chs, pend]
  have h1 : step (at_ m .rLt) '/' = (at_ m .rEndOpen, []) := by rw [step_rLt]; simp
  simp only [goodRawTag, Bool.and_eq_true, Bool.not_eq_true', List.isEmpty_eq_false_iff] at hg
  obtain ⟨hne, hall⟩ := hg
  have hall' := List.all_eq_true.mp hall
  have halpha : tag.all isAlpha = true := List.all_eq_true.mpr (fun c hc => by
    have := hall' c hc; simp only [Bool.and_eq_true] at this; exact this.1)
  have hlow : tag.map lower = tag := by
    have : ∀ c ∈ tag, lower c = c := fun c hc => by
      have := hall' c hc; simp only [Bool.and_eq_true, beq_iff_eq] at this; exact this.2
    calc tag.map lower = tag.map id := List.map_congr_left this
      _ = tag := List.map_id _
  cases htag : tag with
  | nil => exact absurd htag hne
  | cons c cs =>
    rw [htag] at halpha hlow
    simp only [List.all_cons, Bool.and_eq_true] at halpha
    have h2 : step (at_ m .rEndOpen) c = (at_ m (.rEndName [c]), []) := by rw [step_rEndOpen]; simp [halpha.1]
    have h3 := run_rEndName m cs [c] halpha.2
    simp only [List.singleton_append] at h3
    have h4 : step (at_ m (.rEndName (c :: cs))) '>' = emitTag m { isEnd := true, name := c :: cs } false := by
      rw [step_rEndName]; unfold endNameStep
      have hlast : m.last = c :: cs := by rw [hl, htag]
      simp only [hlow, at_last, hlast]
      simp [isAlpha, isWs, emitTag_at]
    refine ⟨?_, ?_⟩
    · rw [runO_cons, h0, runO_cons, h1, List.cons_append, runO_cons, h2, runO_append, h3.1, h3.2, runO_cons, h4]
      simp [emitTag, runO]
    · rw [runS_cons, h0, runS_cons, h1, List.cons_append, runS_cons, h2, runS_append, h3.1, runS_cons, h4]
      rfl

/-- **text of a raw-text element, then its end tag**: in the RCDATA, RAWTEXT or script data state for the element
    `tag` (`m.last = tag`), a text `p` that contains no appropriate end tag for `tag` (and, in script data, no `<!--`)
    is emitted as character tokens, byte for byte, and the `</tag>` that follows it is the element's end tag. -/
theorem raw_text_then_end_tag (m : M) (hs : m.s = .text) (hm : rawMode m.mode = true) (tag p more : List Char)
    (hl : m.last = tag) (hg : goodRawTag tag = true) (he : hasEndTag tag p = false) (hi : noOpen m p = true) :
    runO m (p ++ '<' :: '/' :: (tag ++ ['>']) ++ more) =
      chs m.mode.refs p ++ [.endTag tag] ++ runO (emitTag m { isEnd := true, name := tag } false).1 more ∧
    runS m (p ++ '<' :: '/' :: (tag ++ ['>'])) = (emitTag m { isEnd := true, name := tag } false).1 := by
  have hm0 : m = at_ m .text := by obtain ⟨a, b, c, d, e⟩ := m; simp only at hs; subst hs; rfl
  obtain ⟨s', e, r, q⟩ := raw_scan m hm p .text .text (by simpa [pend, hl] using he) (by simpa [ctx] using hi)
  obtain ⟨c1, c2⟩ := raw_close m hm s' r tag hg hl
  rw [← hm0] at e q
  refine ⟨?_, ?_⟩
  · rw [runO_append, runO_append, runS_append, e, c1, c2]
    have : runO m p ++ chs m.mode.refs (pend s') = chs m.mode.refs p := by simpa [pend] using q
    rw [← this]; simp [List.append_assoc]
  · rw [runS_append, e, c2]

end Verif.Proofs.C09HtmlRaw

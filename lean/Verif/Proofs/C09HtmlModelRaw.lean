import Verif.Proofs.C09HtmlRaw
import Verif.Proofs.HtmlWs
import Verif.Proofs.C09HtmlRelex
/-!
# C09 / HTML — the content that the model of html.go writes into a raw-text element does not end the element early
-/
namespace Verif.Proofs.C09HtmlRaw
open Verif.Spec.C09HtmlTok Verif.Spec.C09HtmlShape Verif.Spec.HtmlAttr Verif.Proofs.C09HtmlTok Verif.Proofs.C09HtmlTag
open Verif.Model.Html Verif.Proofs.HtmlWs

/-- the bytes written for a text token inside a raw-text element (`textMode = 1`) -/
def rawOut (sub : Sub) (st : St) (data : List Char) : List Char :=
  if hashIs st.rawTag "style" || hashIs st.rawTag "script" || hashIs st.rawTag "iframe" then
    rawTextOut sub st.rawTag st.rawMediatype data
  else data

theorem step_raw_out (o : Opts) (ext : Ext) (sub : Sub) (st : St) (data : List Char) (tmpl : Bool)
    (rest : List HTok) (h1 : st.dropEnd = false) (h2 : textMode st tmpl = 1) :
    ∃ st', Verif.Model.Html.step o ext sub st (.text data tmpl) rest = .ok (st', rawOut sub st data) := by
  unfold textMode at h2
  unfold Verif.Model.Html.step rawOut
  simp only [h1, Bool.false_eq_true, if_false]
  split at h2
  · simp at h2
  · next a =>
    split at h2
    · next b =>
      simp only [a, b, if_true, Bool.false_eq_true, if_false]
      split <;> exact ⟨_, rfl⟩
    · split at h2 <;> simp at h2

/-- (kept for the JS slice, `Proofs/C09JsEmbed.lean`) a sub-minifier that creates neither an appropriate end tag of the
    embedding element nor `<!--`.  html.go no longer RELIES on this (1557146 re-lexes the result): see
    `html_rawtext_end_stable_partial`; `html_rawtext_end_stable_subkeeps` is the statement in these terms. -/
def SubKeeps (tag : List Char) (sub : Sub) : Prop :=
  ∀ f, sub = some f → ∀ (mime : List Char) (inline : Bool) (p : List Char),
    (hasEndTag tag p = false → hasEndTag tag (f mime inline p) = false) ∧
    (hasInfix commentOpen p = false → hasInfix commentOpen (f mime inline p) = false)

theorem subKeeps_none (tag : List Char) : SubKeeps tag none := by intro f h; cases h

/-- the machine state in which the content of the element `tag` is read -/
def ReadsContentOf (m : M) (tag : List Char) : Prop :=
  m.s = .text ∧ rawMode m.mode = true ∧ m.last = tag ∧ (m.mode = .script → tag = "script".toList)

/-- the full statement: without the `<!--` guard -/
def html_rawtext_end_stable_full : Prop :=
  ∀ (m : M) (tag p : List Char), ReadsContentOf m tag → goodRawTag tag = true → hasEndTag tag p = false →
    runO m (p ++ '<' :: '/' :: (tag ++ ['>'])) = chs m.mode.refs p ++ [.endTag tag]

/-- what the model writes into a raw-text element is read back by the minifier's lexer as exactly that content — whatever
    the sub-minifier returned (html.go 1557146 keeps the original bytes otherwise) -/
theorem rawOut_relex (sub : Sub) (st : St) (data : List Char)
    (hrl : Verif.Model.Html.rawTextEndsAtEnd st.rawTag data = true) :
    Verif.Model.Html.rawTextEndsAtEnd st.rawTag (rawOut sub st data) = true := by
  unfold rawOut
  split
  · unfold rawTextOut
    cases sub with
    | none => exact hrl
    | some f =>
      simp only
      split
      · next h => exact h
      · exact hrl
  · exact hrl

/-- **html_rawtext_end_stable_partial** (after html.go 1557146: NO hypothesis about the sub-minifier).  For every option
    set, external table, EVERY sub-minifier, model state inside a raw-text element `tag = st.rawTag` (script, style, iframe,
    textarea — `textMode = 1`) and text token `data` of the lexer (contract: `rawTextEndsAtEnd tag data` — the lexer itself
    delivered `data` as the text between `<tag>` and `</tag>`): what the model writes, `out`, is again read back by the lexer
    as exactly the content (`rawTextEndsAtEnd tag out`: the second pass sees the same token), and — GUARD for `script` only:
    `out` holds no `<!--` (inside an escaped section the lexer's rules are weaker than the standard's,
    `rawTextEndsAtEnd_script_counterexample`; real-code instance: K-C09-HTML-2, second form) — `out` holds no appropriate end
    tag of the HTML standard, a tokenizer of the standard reading the content of that element emits `out` as character tokens
    byte for byte and takes the `</tag>` that follows as the element's end tag. -/
theorem html_rawtext_end_stable_partial (o : Opts) (ext : Ext) (sub : Sub) (st : St) (data : List Char)
    (rest : List HTok) (h1 : st.dropEnd = false) (h2 : textMode st false = 1)
    (hg : goodRawTag st.rawTag = true)
    (hrl : Verif.Model.Html.rawTextEndsAtEnd st.rawTag data = true)
    (hc : st.rawTag = "script".toList → hasInfix commentOpen (rawOut sub st data) = false) :
    ∃ st' out, Verif.Model.Html.step o ext sub st (.text data false) rest = .ok (st', out) ∧
      Verif.Model.Html.rawTextEndsAtEnd st.rawTag out = true ∧
      hasEndTag st.rawTag out = false ∧
      ∀ (m : M) (more : List Char), ReadsContentOf m st.rawTag →
        runO m (out ++ '<' :: '/' :: (st.rawTag ++ ['>']) ++ more) =
          chs m.mode.refs out ++ [.endTag st.rawTag] ++
            runO (emitTag m { isEnd := true, name := st.rawTag } false).1 more := by
  obtain ⟨st', hstep⟩ := step_raw_out o ext sub st data false rest h1 h2
  have hre := rawOut_relex sub st data hrl
  have hne := Verif.Proofs.C09HtmlRelex.relex_noEndTag st.rawTag _ hg hc hre
  refine ⟨st', _, hstep, hre, hne, ?_⟩
  intro m more ⟨hs, hm, hl, hsc⟩
  have hno : noOpen m (rawOut sub st data) = true := by
    unfold noOpen
    cases hmd : (m.mode != .script) with
    | true => rfl
    | false =>
      have : m.mode = .script := by simpa using hmd
      simp [hc (hsc this)]
  exact (raw_text_then_end_tag m hs hm st.rawTag _ more hl hg hne hno).1

/-- what is written is the token's data or the sub-minifier's result -/
theorem rawOut_cases (sub : Sub) (st : St) (data : List Char) :
    rawOut sub st data = data ∨ ∃ f, sub = some f ∧ rawOut sub st data = f (rawMime st.rawTag st.rawMediatype) false data := by
  unfold rawOut
  split
  · unfold rawTextOut
    cases sub with
    | none => exact Or.inl rfl
    | some f =>
      simp only
      split
      · exact Or.inr ⟨f, rfl, rfl⟩
      · exact Or.inl rfl
  · exact Or.inl rfl

/-- the statement in terms of `SubKeeps` (hypotheses on the token's data in the standard's terms): still true for the
    model with the re-lex — the result of the sub-minifier is used or the data is kept, both are fine -/
theorem html_rawtext_end_stable_subkeeps (o : Opts) (ext : Ext) (sub : Sub) (st : St) (data : List Char)
    (rest : List HTok) (h1 : st.dropEnd = false) (h2 : textMode st false = 1)
    (hg : goodRawTag st.rawTag = true) (hk : SubKeeps st.rawTag sub)
    (hd : hasEndTag st.rawTag data = false)
    (hc : st.rawTag = "script".toList → hasInfix commentOpen data = false) :
    ∃ st' out, Verif.Model.Html.step o ext sub st (.text data false) rest = .ok (st', out) ∧
      hasEndTag st.rawTag out = false ∧
      (st.rawTag = "script".toList → hasInfix commentOpen out = false) ∧
      ∀ (m : M) (more : List Char), ReadsContentOf m st.rawTag →
        runO m (out ++ '<' :: '/' :: (st.rawTag ++ ['>']) ++ more) =
          chs m.mode.refs out ++ [.endTag st.rawTag] ++
            runO (emitTag m { isEnd := true, name := st.rawTag } false).1 more := by
  obtain ⟨st', hstep⟩ := step_raw_out o ext sub st data false rest h1 h2
  have hout : hasEndTag st.rawTag (rawOut sub st data) = false ∧
      (st.rawTag = "script".toList → hasInfix commentOpen (rawOut sub st data) = false) := by
    rcases rawOut_cases sub st data with e | ⟨f, hf, e⟩
    · rw [e]; exact ⟨hd, hc⟩
    · rw [e]
      have := hk f hf (rawMime st.rawTag st.rawMediatype) false data
      exact ⟨this.1 hd, fun e' => this.2 (hc e')⟩
  refine ⟨st', _, hstep, hout.1, hout.2, ?_⟩
  intro m more ⟨hs, hm, hl, hsc⟩
  have hno : noOpen m (rawOut sub st data) = true := by
    unfold noOpen
    cases hmd : (m.mode != .script) with
    | true => rfl
    | false =>
      have : m.mode = .script := by simpa using hmd
      simp [hout.2 (hsc this)]
  exact (raw_text_then_end_tag m hs hm st.rawTag _ more hl hg hout.1 hno).1

/-- **html_rawtext_end_stable_counterexample.**  Without the `<!--` guard the statement is false in script data:
    after `<!--<script>` the tokenizer is in the script-data-double-escaped state, where `</script>` does not end the
    element (it only leaves that state).  The lexer of the minifier implements these states too, so a token with this
    data is always followed by more text in the INPUT, and since 1557146 html.go re-lexes what the sub-minifier returns
    (K-C09-HTML-8 fixed); what remains is the difference between the lexer's and the standard's rules INSIDE an escaped
    section (`rawTextEndsAtEnd_script_counterexample`). -/
theorem html_rawtext_end_stable_counterexample : ¬ html_rawtext_end_stable_full := by
  intro h
  have := h { mode := .script, last := "script".toList } "script".toList "<!--<script>".toList
    ⟨rfl, rfl, rfl, fun _ => rfl⟩ (by decide) (by decide)
  revert this
  decide

/-- non-vacuity: a style element whose content holds `</styl`, `</stylex>` and `</ style>` -/
example :
    let m : M := { mode := .rawtext, last := "style".toList }
    let p := "a{b:\"</styl\"}/*</stylex></ style>*/".toList
    hasEndTag "style".toList p = false ∧
    runO m (p ++ "</style>".toList ++ "x".toList) = chs false p ++ [.endTag "style".toList, .char 'x' true] := by
  decide

end Verif.Proofs.C09HtmlRaw

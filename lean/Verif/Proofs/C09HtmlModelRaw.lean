import Verif.Proofs.C09HtmlRaw
import Verif.Proofs.HtmlWs
/-!
# C09 / HTML — the content that the model of html.go writes into a raw-text element does not end the element early
-/
namespace Verif.Proofs.C09HtmlRaw
open Verif.Spec.C09HtmlTok Verif.Spec.C09HtmlShape Verif.Spec.HtmlAttr Verif.Proofs.C09HtmlTok Verif.Proofs.C09HtmlTag
open Verif.Model.Html Verif.Proofs.HtmlWs

/-- the bytes written for a text token inside a raw-text element (`textMode = 1`) -/
def rawOut (sub : Sub) (st : St) (data : List Char) : List Char :=
  if hashIs st.rawTag "style" || hashIs st.rawTag "script" || hashIs st.rawTag "iframe" then
    callSub sub (rawMime st.rawTag st.rawMediatype) false data
  else data

theorem step_raw_out (o : Opts) (ext : Ext) (sub : Sub) (st : St) (data : List Char) (tmpl : Bool)
    (rest : List HTok) (h1 : st.dropEnd = false) (h2 : textMode st tmpl = 1) :
    ∃ st', Verif.Model.Html.step o ext sub st (.text data tmpl) rest = .ok (st', rawOut sub st data) := by
  unfold textMode at h2
  unfold Verif.Model.Html.step rawOut
  simp only [h1, Bool.false_eq_true, if_false]
  split at h2
  · simp at h2
  · next a =>
    split at h2
    · next b =>
      simp only [a, b, if_true, Bool.false_eq_true, if_false]
      split <;> exact ⟨_, rfl⟩
    · split at h2 <;> simp at h2

/-- **contract on the sub-minifier** (C11 hands the content of `script`/`style`/`iframe` to it): its output contains an
    appropriate end tag of the embedding element only if its input does, and for `script` a `<!--` only if its input
    does.  Discharged for the real minifiers by the harness (`c09-html-raw`: JS `<\/script` escaping of commit 1f79000,
    CSS strings/urls with `</style`), NOT by a theorem; it is FALSE for the real JS minifier in the escaped states
    (K-C09-HTML-8) and for the HTML minifier on iframe content (K-C09-HTML-9) — see `docs/C09-html.md`. -/
def SubKeeps (tag : List Char) (sub : Sub) : Prop :=
  ∀ f, sub = some f → ∀ (mime : List Char) (inline : Bool) (p : List Char),
    (hasEndTag tag p = false → hasEndTag tag (f mime inline p) = false) ∧
    (hasInfix commentOpen p = false → hasInfix commentOpen (f mime inline p) = false)

theorem subKeeps_none (tag : List Char) : SubKeeps tag none := by intro f h; cases h

/-- the machine state in which the content of the element `tag` is read -/
def ReadsContentOf (m : M) (tag : List Char) : Prop :=
  m.s = .text ∧ rawMode m.mode = true ∧ m.last = tag ∧ (m.mode = .script → tag = "script".toList)

/-- the full statement: without the `<!--` guard -/
def html_rawtext_end_stable_full : Prop :=
  ∀ (m : M) (tag p : List Char), ReadsContentOf m tag → goodRawTag tag = true → hasEndTag tag p = false →
    runO m (p ++ '<' :: '/' :: (tag ++ ['>'])) = chs m.mode.refs p ++ [.endTag tag]

/-- **html_rawtext_end_stable_partial.**  For every option set, external table, state of the model inside a raw-text
    element `tag = st.rawTag` (script, style, iframe, textarea — `textMode = 1`), text token `data` and every
    sub-minifier that satisfies `SubKeeps tag` (`none`: the content passes through, this is C03 `raw_untouched`): if the
    token's data contains no appropriate end tag of the element (lexer contract: the lexer ended the token in front of
    the first one) and, for `script`, no `<!--` (GUARD: the script-data-escaped states), then what the model writes,
    `out`, has the same two properties, and a tokenizer of the HTML standard that is reading the content of that element
    (RCDATA, RAWTEXT or script data, last start tag `tag`) emits `out` as character tokens byte for byte and takes the
    `</tag>` that follows as the element's end tag: the element neither ends early nor swallows what follows. -/
theorem html_rawtext_end_stable_partial (o : Opts) (ext : Ext) (sub : Sub) (st : St) (data : List Char)
    (rest : List HTok) (h1 : st.dropEnd = false) (h2 : textMode st false = 1)
    (hg : goodRawTag st.rawTag = true) (hk : SubKeeps st.rawTag sub)
    (hd : hasEndTag st.rawTag data = false)
    (hc : st.rawTag = "script".toList → hasInfix commentOpen data = false) :
    ∃ st' out, Verif.Model.Html.step o ext sub st (.text data false) rest = .ok (st', out) ∧
      hasEndTag st.rawTag out = false ∧
      (st.rawTag = "script".toList → hasInfix commentOpen out = false) ∧
      ∀ (m : M) (more : List Char), ReadsContentOf m st.rawTag →
        runO m (out ++ '<' :: '/' :: (st.rawTag ++ ['>']) ++ more) =
          chs m.mode.refs out ++ [.endTag st.rawTag] ++
            runO (emitTag m { isEnd := true, name := st.rawTag } false).1 more := by
  obtain ⟨st', hstep⟩ := step_raw_out o ext sub st data false rest h1 h2
  have hout : hasEndTag st.rawTag (rawOut sub st data) = false ∧
      (st.rawTag = "script".toList → hasInfix commentOpen (rawOut sub st data) = false) := by
    unfold rawOut
    split
    · cases hsub : sub with
      | none => exact ⟨by simpa [callSub] using hd, by simpa [callSub] using hc⟩
      | some f =>
        have := hk f hsub (rawMime st.rawTag st.rawMediatype) false data
        exact ⟨by simpa [callSub] using this.1 hd, fun e => by simpa [callSub] using this.2 (hc e)⟩
    · exact ⟨hd, hc⟩
  refine ⟨st', _, hstep, hout.1, hout.2, ?_⟩
  intro m more ⟨hs, hm, hl, hsc⟩
  have hno : noOpen m (rawOut sub st data) = true := by
    unfold noOpen
    cases hmd : (m.mode != .script) with
    | true => rfl
    | false =>
      have : m.mode = .script := by simpa using hmd
      simp [hout.2 (hsc this)]
  exact (raw_text_then_end_tag m hs hm st.rawTag _ more hl hg hout.1 hno).1

/-- **html_rawtext_end_stable_counterexample.**  Without the `<!--` guard the statement is false in script data:
    after `<!--<script>` the tokenizer is in the script-data-double-escaped state, where `</script>` does not end the
    element (it only leaves that state).  The lexer of the minifier implements these states too, so a token with this
    data is always followed by more text in the INPUT; the defect K-C09-HTML-8 is that the JS minifier can produce such
    content from content that was balanced. -/
theorem html_rawtext_end_stable_counterexample : ¬ html_rawtext_end_stable_full := by
  intro h
  have := h { mode := .script, last := "script".toList } "script".toList "<!--<script>".toList
    ⟨rfl, rfl, rfl, fun _ => rfl⟩ (by decide) (by decide)
  revert this
  decide

/-- non-vacuity: a style element whose content holds `</styl`, `</stylex>` and `</ style>` -/
example :
    let m : M := { mode := .rawtext, last := "style".toList }
    let p := "a{b:\"</styl\"}/*</stylex></ style>*/".toList
    hasEndTag "style".toList p = false ∧
    runO m (p ++ "</style>".toList ++ "x".toList) = chs false p ++ [.endTag "style".toList, .char 'x' true] := by
  decide

end Verif.Proofs.C09HtmlRaw

import Verif.Proofs.JsNumberSig
/-!
# C01N — the print stage of the private `Number` copy: every branch prints a plain lexeme of the same value
-/
namespace Verif.Proofs.JsNumber
open Verif.Spec.JsNumberSem (natOf10 stripSep isLegacyLike)
open Verif.Model.JsNumber.JsNumberDec

/-- `out` is a plain lexeme, not of the legacy form, with value `m · 10^e` -/
def OutIs (out : List Char) (m : Nat) (e : Int) : Prop :=
  ∃ l' : DLex, l'.Plain ∧ l'.str = out ∧ l'.val = dv m e ∧ isLegacyLike out = false

theorem outIs_of (l' : DLex) (h : l'.Plain) (hnl : isLegacyLike l'.str = false) {m : Nat} {e : Int}
    (hv : dv (natOf (l'.ip ++ l'.fpd)) (l'.expVal - (l'.fpd.length : Int)) = dv m e) : OutIs l'.str m e :=
  ⟨l', h, rfl, by rw [DLex.val_plain l' h, hv], hnl⟩

theorem expVal_pos (c : Char) (ip : List Char) (fp : Option (List Char)) (k : Nat) :
    (DLex.mk ip fp (some (c, [], decStr k))).expVal = (k : Int) := by
  unfold DLex.expVal
  simp only
  rw [if_neg (by simp), stripSep_of_allDig (AllDig.decStr k), natOf10_eq, natOf_decStr]

theorem expVal_neg (c : Char) (ip : List Char) (fp : Option (List Char)) (k : Nat) :
    (DLex.mk ip fp (some (c, ['-'], decStr k))).expVal = -(k : Int) := by
  unfold DLex.expVal
  simp only
  rw [if_pos trivial, stripSep_of_allDig (AllDig.decStr k), natOf10_eq, natOf_decStr]

theorem expVal_none (ip : List Char) (fp : Option (List Char)) : (DLex.mk ip fp none).expVal = 0 := rfl

theorem nonLegacy_head {s : List Char} (h : ∀ r, s ≠ '0' :: r) : isLegacyLike s = false := by
  cases s with
  | nil => rfl
  | cons c r => exact isLegacyLike_cons_ne r (fun e => h r (by rw [e]))

/-- a plain lexeme from digit lists -/
theorem plain_mk {ip : List Char} {fp : Option (List Char)} {ex : Option (Char × List Char × List Char)}
    (hip : AllDig ip) (hfp : ∀ f, fp = some f → AllDig f)
    (hex : ex = none ∨ ∃ k, ex = some ('e', [], decStr k) ∨ ex = some ('e', ['-'], decStr k))
    (hne : ip ≠ [] ∨ ∃ f, fp = some f ∧ f ≠ []) : (DLex.mk ip fp ex).Plain where
  ip := hip
  fp := hfp
  ex := by
    intro c sg d he
    simp only at he
    rcases hex with e | ⟨k, e | e⟩ <;> rw [e] at he
    · cases he
    · injection he with he; injection he with h1 he; injection he with h2 h3
      subst h1; subst h2; subst h3
      exact ⟨Or.inl rfl, Or.inl rfl, AllDig.decStr k, decStr_ne_nil k⟩
    · injection he with he; injection he with h1 he; injection he with h2 h3
      subst h1; subst h2; subst h3
      exact ⟨Or.inl rfl, Or.inr (Or.inr rfl), AllDig.decStr k, decStr_ne_nil k⟩
  ne := hne


theorem str_mk (ip : List Char) (fp : Option (List Char)) (ex : Option (Char × List Char × List Char)) :
    (DLex.mk ip fp ex).str = ip ++ ((match fp with | none => [] | some f => '.' :: f) ++
      (match ex with | none => [] | some (c, sg, d) => c :: (sg ++ d))) := rfl

theorem fpd_mk_none (ip : List Char) (ex : Option (Char × List Char × List Char)) : (DLex.mk ip none ex).fpd = [] := rfl
theorem fpd_mk_some (ip f : List Char) (ex : Option (Char × List Char × List Char)) : (DLex.mk ip (some f) ex).fpd = f := rfl

theorem sig_cons {ds : List Char} (h : SigOK ds) : ∃ c t, ds = c :: t ∧ c ≠ '0' := by
  obtain ⟨_, h2, h3⟩ := h
  cases ds with
  | nil => exact absurd rfl h2
  | cons c t => exact ⟨c, t, rfl, fun e => h3 t (by rw [e])⟩

/-- case 1: `ds e z` or `ds 0…0` -/
theorem out_case1 {ds : List Char} (h : SigOK ds) (z : Nat) :
    OutIs (ds ++ (if 3 ≤ z then 'e' :: decStr z else List.replicate z '0')) (natOf ds) (z : Int) := by
  obtain ⟨c, t, hds, hc⟩ := sig_cons h
  by_cases hz : 3 ≤ z
  · rw [if_pos hz]
    have := outIs_of (DLex.mk ds none (some ('e', [], decStr z)))
      (plain_mk h.1 (by intro f hf; cases hf) (Or.inr ⟨z, Or.inl rfl⟩) (Or.inl h.2.1))
      (by rw [str_mk, hds]; exact isLegacyLike_cons_ne _ hc)
      (m := natOf ds) (e := (z : Int))
      (by rw [fpd_mk_none, expVal_pos]; simp)
    simpa [str_mk] using this
  · rw [if_neg hz]
    have := outIs_of (DLex.mk (ds ++ List.replicate z '0') none none)
      (plain_mk (h.1.append (AllDig.replicate_zero z)) (by intro f hf; cases hf) (Or.inl rfl) (Or.inl (by rw [hds]; simp)))
      (by rw [str_mk, hds]; exact isLegacyLike_cons_ne _ hc)
      (m := natOf ds) (e := (z : Int))
      (by rw [fpd_mk_none, expVal_none, List.append_nil, natOf_append_zeros, dv_shift]; simp)
    simpa [str_mk] using this

/-- case 2: `.ds e-k` -/
theorem out_case2 {ds : List Char} (h : SigOK ds) (k : Nat) :
    OutIs ('.' :: ds ++ 'e' :: '-' :: decStr k) (natOf ds) (-(k : Int) - (ds.length : Int)) := by
  have := outIs_of (DLex.mk [] (some ds) (some ('e', ['-'], decStr k)))
    (plain_mk AllDig.nil (by intro f hf; injection hf with hf; subst hf; exact h.1) (Or.inr ⟨k, Or.inr rfl⟩)
      (Or.inr ⟨ds, rfl, h.2.1⟩))
    (by rw [str_mk]; exact isLegacyLike_cons_ne _ (by decide))
    (m := natOf ds) (e := -(k : Int) - (ds.length : Int))
    (by rw [fpd_mk_some, expVal_neg, List.nil_append])
  simpa [str_mk] using this

/-- case 3, small numbers: `.0…0ds` -/
theorem out_case3a {ds : List Char} (h : SigOK ds) (k : Nat) :
    OutIs ('.' :: List.replicate k '0' ++ ds) (natOf ds) (-(k : Int) - (ds.length : Int)) := by
  have := outIs_of (DLex.mk [] (some (List.replicate k '0' ++ ds)) none)
    (plain_mk AllDig.nil (by intro f hf; injection hf with hf; subst hf; exact (AllDig.replicate_zero k).append h.1)
      (Or.inl rfl) (Or.inr ⟨_, rfl, by obtain ⟨c, t, e, _⟩ := sig_cons h; rw [e]; simp⟩))
    (by rw [str_mk]; exact isLegacyLike_cons_ne _ (by decide))
    (m := natOf ds) (e := -(k : Int) - (ds.length : Int))
    (by
      rw [fpd_mk_some, expVal_none, List.nil_append, natOf_zeros_append]
      apply dv_congr rfl
      simp only [List.length_append, List.length_replicate]; omega)
  simpa [str_mk] using this

/-- case 3, dot inside the digits -/
theorem out_case3b {ds : List Char} (h : SigOK ds) (k : Nat) (hk : k < ds.length) :
    OutIs (ds.take k ++ '.' :: ds.drop k) (natOf ds) ((k : Int) - (ds.length : Int)) := by
  obtain ⟨c, t, hds, hc⟩ := sig_cons h
  have hdrop : ds.drop k ≠ [] := by
    intro e
    have := congrArg List.length e
    simp only [List.length_drop, List.length_nil] at this
    omega
  have := outIs_of (DLex.mk (ds.take k) (some (ds.drop k)) none)
    (plain_mk (h.1.take k) (by intro f hf; injection hf with hf; subst hf; exact h.1.drop k) (Or.inl rfl)
      (Or.inr ⟨_, rfl, hdrop⟩))
    (by
      rw [str_mk]
      cases k with
      | zero => simp only [List.take_zero, List.nil_append]; exact isLegacyLike_cons_ne _ (by decide)
      | succ k' => rw [hds]; simp only [List.take_succ_cons, List.cons_append]; exact isLegacyLike_cons_ne _ hc)
    (m := natOf ds) (e := (k : Int) - (ds.length : Int))
    (by
      rw [fpd_mk_some, expVal_none, List.take_append_drop]
      apply dv_congr rfl
      simp only [List.length_drop]; omega)
  simpa [str_mk] using this

/-- case 4: `ds e-k` -/
theorem out_case4a {ds : List Char} (h : SigOK ds) (k : Nat) :
    OutIs (ds ++ 'e' :: '-' :: decStr k) (natOf ds) (-(k : Int)) := by
  obtain ⟨c, t, hds, hc⟩ := sig_cons h
  have := outIs_of (DLex.mk ds none (some ('e', ['-'], decStr k)))
    (plain_mk h.1 (by intro f hf; cases hf) (Or.inr ⟨k, Or.inr rfl⟩) (Or.inl h.2.1))
    (by rw [str_mk, hds]; exact isLegacyLike_cons_ne _ hc)
    (m := natOf ds) (e := -(k : Int))
    (by rw [fpd_mk_none, expVal_neg]; simp)
  simpa [str_mk] using this

/-- case 4, original mantissa `.0…0ds` with the original exponent -/
theorem out_case4A {ds : List Char} (h : SigOK ds) (lz k : Nat) :
    OutIs (('.' :: List.replicate lz '0' ++ ds) ++ 'e' :: '-' :: decStr k) (natOf ds)
      (-(k : Int) - (lz : Int) - (ds.length : Int)) := by
  have := outIs_of (DLex.mk [] (some (List.replicate lz '0' ++ ds)) (some ('e', ['-'], decStr k)))
    (plain_mk AllDig.nil (by intro f hf; injection hf with hf; subst hf; exact (AllDig.replicate_zero lz).append h.1)
      (Or.inr ⟨k, Or.inr rfl⟩) (Or.inr ⟨_, rfl, by obtain ⟨c, t, e, _⟩ := sig_cons h; rw [e]; simp⟩))
    (by rw [str_mk]; exact isLegacyLike_cons_ne _ (by decide))
    (m := natOf ds) (e := -(k : Int) - (lz : Int) - (ds.length : Int))
    (by
      rw [fpd_mk_some, expVal_neg, List.nil_append, natOf_zeros_append]
      apply dv_congr rfl
      simp only [List.length_append, List.length_replicate]; omega)
  simpa [str_mk] using this

/-- case 4, original mantissa `ip.fp` with the original exponent -/
theorem out_case4C {ip0 fp0 : List Char} (h : Trimmed ip0 fp0) (hi : ip0 ≠ []) (_hf : fp0 ≠ []) (k : Nat) :
    OutIs ((ip0 ++ '.' :: fp0) ++ 'e' :: '-' :: decStr k) (natOf (ip0 ++ fp0))
      (-(k : Int) - (fp0.length : Int)) := by
  have := outIs_of (DLex.mk ip0 (some fp0) (some ('e', ['-'], decStr k)))
    (plain_mk h.ipd (by intro f hf'; injection hf' with hf'; subst hf'; exact h.fpd)
      (Or.inr ⟨k, Or.inr rfl⟩) (Or.inl hi))
    (by
      rw [str_mk]
      cases ip0 with
      | nil => exact absurd rfl hi
      | cons c t => exact isLegacyLike_cons_ne _ (fun e => h.ipz t (by rw [e])))
    (m := natOf (ip0 ++ fp0)) (e := -(k : Int) - (fp0.length : Int))
    (by rw [fpd_mk_some, expVal_neg])
  simpa [str_mk] using this

def mlen (ip0 fp0 : List Char) : Nat := ip0.length + (if fp0.isEmpty then 0 else 1 + fp0.length)

theorem outIs_exp {out : List Char} {m : Nat} {e e' : Int} (h : OutIs out m e) (he : e = e') : OutIs out m e' := he ▸ h

theorem kindA (fp0 : List Char) :
    (sigDigits [] fp0).N0 = -((sigDigits [] fp0).lz : Int) ∧
    (sigDigits [] fp0).lz + (sigDigits [] fp0).ds.length = fp0.length := by
  unfold sigDigits
  simp only [List.isEmpty_nil, if_true]
  have := dropZeros_length_le fp0
  exact ⟨trivial, by omega⟩

theorem kindB {ip0 : List Char} (h : ip0 ≠ []) :
    (sigDigits ip0 []).N0 = (ip0.length : Int) ∧ (sigDigits ip0 []).ds.length ≤ ip0.length := by
  unfold sigDigits
  cases ip0 with
  | nil => exact absurd rfl h
  | cons c t =>
    simp only [List.isEmpty_cons, Bool.false_eq_true, if_false, List.isEmpty_nil, if_true]
    exact ⟨trivial, dropTrailZeros_length_le _⟩

theorem kindC {ip0 fp0 : List Char} (h : ip0 ≠ []) (hf : fp0 ≠ []) :
    (sigDigits ip0 fp0).N0 = (ip0.length : Int) ∧ (sigDigits ip0 fp0).ds = ip0 ++ fp0 := by
  unfold sigDigits
  cases ip0 with
  | nil => exact absurd rfl h
  | cons c t =>
    cases fp0 with
    | nil => exact absurd rfl hf
    | cons d u =>
      simp only [List.isEmpty_cons, Bool.false_eq_true, if_false]
      exact ⟨trivial, trivial⟩

theorem lenInt_le_of_natAbs_le {x y : Int} (h : x.natAbs ≤ y.natAbs) : lenInt x ≤ lenInt y := by
  rw [lenInt_eq, lenInt_eq]; exact lenNat_mono h

theorem printNum_out (orig : List Char) (W start0 : Nat) (ip0 fp0 : List Char) (e : Int)
    (h : Trimmed ip0 fp0)
    (hW : (start0 : Int) + (mlen ip0 fp0 : Int) + (if e < 0 then 2 + (lenInt e : Int) else 0) ≤ (W : Int)) :
    printNum orig W start0 ip0 fp0 e = orig ∨
    OutIs (printNum orig W start0 ip0 fp0 e) (natOf (sigDigits ip0 fp0).ds)
      ((sigDigits ip0 fp0).N0 + e - ((sigDigits ip0 fp0).ds.length : Int)) := by
  have hsig := sigFacts h
  unfold printNum
  simp only
  split
  · left; rfl
  · right
    split
    · rename_i h1
      exact outIs_exp (out_case1 hsig _) (by omega)
    · split
      · rename_i h1 h2
        simp only [Bool.and_eq_true, decide_eq_true_eq] at h2
        exact outIs_exp (out_case2 hsig _) (by omega)
      · rename_i h0 h1 h2
        by_cases h3 : -((lenInt ((sigDigits ip0 fp0).N0 + e - ((sigDigits ip0 fp0).ds.length : Int)) : Nat) : Int) - 1 ≤ (sigDigits ip0 fp0).N0 + e
        · rw [if_pos h3]
          split
          · exact outIs_exp (out_case3a hsig _) (by omega)
          · exact outIs_exp (out_case3b hsig _ (by omega)) (by omega)
        · rw [if_neg h3]
          have hn : 0 < (sigDigits ip0 fp0).ds.length := by
            obtain ⟨c, t, e1, _⟩ := sig_cons hsig; rw [e1]; simp
          cases hip : ip0 with
          | nil =>
            -- kind A
            subst hip
            have hf : fp0 ≠ [] := by
              rcases h.ne with e1 | e1
              · exact absurd rfl e1
              · exact e1
            obtain ⟨k1, k2⟩ := kindA fp0
            have hm : (mlen [] fp0 : Int) = 1 + (fp0.length : Int) := by
              unfold mlen
              cases fp0 with
              | nil => exact absurd rfl hf
              | cons _ _ => simp
            simp only [List.isEmpty_nil, if_true]
            split
            · exact outIs_exp (out_case4a hsig _) (by omega)
            · rename_i h4
              have he : e < 0 := by
                by_cases he : e < 0
                · exact he
                · rw [if_neg he] at hW; omega
              exact outIs_exp (out_case4A hsig _ _) (by omega)
          | cons c t =>
            rw [← hip]
            have hi : ip0 ≠ [] := by rw [hip]; simp
            have hie : ip0.isEmpty = false := by rw [hip]; rfl
            simp only [hie, Bool.false_eq_true, if_false]
            cases hfp : fp0 with
            | nil =>
              -- kind B
              subst hfp
              obtain ⟨k1, k2⟩ := kindB hi
              have hm : (mlen ip0 [] : Int) = (ip0.length : Int) := by unfold mlen; simp
              simp only [List.isEmpty_nil, if_true]
              have he : e < 0 := by omega
              rw [if_pos he] at hW
              have hL : lenInt ((sigDigits ip0 []).N0 + e - ((sigDigits ip0 []).ds.length : Int)) ≤ lenInt e :=
                lenInt_le_of_natAbs_le (by omega)
              rw [if_pos (by omega)]
              exact outIs_exp (out_case4a hsig _) (by omega)
            | cons d u =>
              -- kind C
              rw [← hfp]
              have hf : fp0 ≠ [] := by rw [hfp]; simp
              have hfe : fp0.isEmpty = false := by rw [hfp]; rfl
              obtain ⟨k1, k2⟩ := kindC hi hf
              simp only [hfe, Bool.false_eq_true, if_false]
              split
              · exact outIs_exp (out_case4a hsig _) (by omega)
              · have he : e < 0 := by omega
                have := out_case4C h hi hf e.natAbs
                rw [← k2] at this
                refine outIs_exp this ?_
                have : ((sigDigits ip0 fp0).ds.length : Int) = (ip0.length : Int) + (fp0.length : Int) := by
                  rw [k2]; simp
                omega

end Verif.Proofs.JsNumber

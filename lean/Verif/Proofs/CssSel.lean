import Verif.Model.CssGrammar
import Verif.Spec.CssSelSpec
import Verif.Proofs.Css
/-!
# Lemmas about `minifySelectors` (C04B)

* `skelGo_selGo` — the case-erased skeleton (hence the specificity) of a selector is never changed.
* `normGo_selGo` — joint induction over the model (`selGo`, state `SelSt`) and the specification's normal form
  (`normGo`, state: context stack, previous token, attribute phase): for HTML documents the tokens written have the
  normal form of the tokens read.  The states are tied by `Rel`: `keepLevel` of the code is `keepOf` of the
  specification's context stack.
-/
namespace Verif.Proofs.CssSel
open Verif.Spec.CssValue (TT Tok lower)
open Verif.Spec.CssSel Verif.Model.CssGrammar
open Verif.Proofs.Css (lower_idem)

/-! ## specificity skeleton -/

theorem skelGo_selGo (st : SelSt) (ts : List Tok) :
    skelGo st.inAttr (selGo st ts) = skelGo st.inAttr ts := by
  fun_induction selGo st ts
  all_goals try (simp_all [skelGo, Tok.tt, Tok.data, Verif.Model.CssGrammar.wsTok]; done)
  rename_i st t r pc ps pm hA hI isPrefix ih
  have hA' : st.inAttr = false := by simpa using hA
  have hI' : t.tt = .ident := by simpa using hI
  simp only [hA'] at ih ⊢
  rcases t with ⟨tt, data, args⟩
  simp only [Tok.tt] at hI'
  subst hI'
  simp only [skelGo, Tok.tt, Tok.data, ih]
  simp only [show (TT.ident == TT.leftBracket) = false from rfl, Bool.false_eq_true, if_false, beq_self_eq_true,
    Bool.true_or, if_true]
  congr 2
  split <;> simp [lower_idem]

theorem skel_selToks (ts : List Tok) : skel (selToks ts) = skel ts :=
  skelGo_selGo SelSt.init ts

theorem tt_beq_decide (a b : TT) : (a == b) = decide (a = b) := by
  cases h : decide (a = b) <;> simp_all

/-- outside `[…]` every token written has the kind of the token read (identifiers are only respelled) -/
theorem kindsOutside_selGo (st : SelSt) (ts : List Tok) :
    kindsOutside st.inAttr (selGo st ts) = kindsOutside st.inAttr ts := by
  fun_induction selGo st ts
  case case1 => rfl
  case case2 st t r pc ps pm hA hI isPrefix ih =>
    have hA' : st.inAttr = false := by simpa using hA
    have hI' : t.tt = .ident := by simpa using hI
    simp only [hA'] at ih ⊢
    rcases t with ⟨tt, data, args⟩
    simp only [Tok.tt] at hI'
    subst hI'
    simp only [kindsOutside, kindOf, Tok.tt, show (TT.ident == TT.leftBracket) = false from rfl, ih]
    simp
  case case3 st t r pc ps pm hA hI hD ih =>
    rcases t with ⟨tt, data, args⟩
    cases tt <;> simp_all [kindsOutside, kindOf, Tok.tt, Tok.data, Verif.Model.CssGrammar.wsTok, tt_beq_decide]
  case case4 st t r pc ps pm hA hI hD hB ih =>
    rcases t with ⟨tt, data, args⟩
    cases tt <;> simp_all [kindsOutside, kindOf, Tok.tt, Tok.data, Verif.Model.CssGrammar.wsTok, tt_beq_decide]
  case case5 st t r pc ps pm hA hI hD hB hF keep ih =>
    rcases t with ⟨tt, data, args⟩
    cases tt <;> simp_all [kindsOutside, kindOf, Tok.tt, Tok.data, Verif.Model.CssGrammar.wsTok, tt_beq_decide]
  case case6 st t r pc ps pm hA hI hD hB hF hP ih =>
    rcases t with ⟨tt, data, args⟩
    cases tt <;> simp_all [kindsOutside, kindOf, Tok.tt, Tok.data, Verif.Model.CssGrammar.wsTok, tt_beq_decide]
  case case7 st t r pc ps pm hA hI hD hB hF hP hQ ih =>
    rcases t with ⟨tt, data, args⟩
    cases tt <;> simp_all [kindsOutside, kindOf, Tok.tt, Tok.data, Verif.Model.CssGrammar.wsTok, tt_beq_decide]
  case case8 st t r pc ps pm hA hI hD hB hF hP hQ ih =>
    rcases t with ⟨tt, data, args⟩
    cases tt <;> simp_all [kindsOutside, kindOf, Tok.tt, Tok.data, Verif.Model.CssGrammar.wsTok, tt_beq_decide]
  case case9 st t r pc ps pm hA hU ih =>
    rcases t with ⟨tt, data, args⟩
    cases tt <;> simp_all [kindsOutside, kindOf, Tok.tt, Tok.data, Verif.Model.CssGrammar.wsTok, tt_beq_decide]
  case case10 st t r pc ps pm hA hU hStr ih =>
    rcases t with ⟨tt, data, args⟩
    cases tt <;> simp_all [kindsOutside, kindOf, Tok.tt, Tok.data, Verif.Model.CssGrammar.wsTok, tt_beq_decide]
  case case11 st t r pc ps pm hA hU hStr hRB ih =>
    rcases t with ⟨tt, data, args⟩
    cases tt <;> simp_all [kindsOutside, kindOf, Tok.tt, Tok.data, Verif.Model.CssGrammar.wsTok, tt_beq_decide]
  case case12 st t r pc ps pm hA hU hStr hRB hFlag ih =>
    rcases t with ⟨tt, data, args⟩
    cases tt <;> simp_all [kindsOutside, kindOf, Tok.tt, Tok.data, Verif.Model.CssGrammar.wsTok, tt_beq_decide]
  case case13 st t r pc ps pm hA hU hStr hRB hFlag ih =>
    rcases t with ⟨tt, data, args⟩
    cases tt <;> simp_all [kindsOutside, kindOf, Tok.tt, Tok.data, Verif.Model.CssGrammar.wsTok, tt_beq_decide]

theorem kindsOutside_selToks (ts : List Tok) : kindsOutside false (selToks ts) = kindsOutside false ts :=
  kindsOutside_selGo SelSt.init ts

/-! ## the context stack of the specification and `keepLevel` of the code -/

/-- `keepLevel` as a function of the specification's context stack (innermost first): the depth of the outermost
`keep` context, 0 if there is none -/
def keepOf : List Ctx → Nat
  | [] => 0
  | c :: s => if keepOf s ≠ 0 then keepOf s else if c == .keep then s.length + 1 else 0

theorem keepOf_le : ∀ s : List Ctx, keepOf s ≤ s.length
  | [] => by simp [keepOf]
  | c :: s => by
    have := keepOf_le s
    simp only [keepOf, List.length_cons]
    split
    · omega
    · split <;> omega

/-- inside a `keep` context every context is `keep` -/
def W : List Ctx → Prop
  | [] => True
  | c :: s => W s ∧ (keepOf s ≠ 0 → c = .keep)

theorem head_keep_iff (s : List Ctx) (h : W s) : (s.headD .sel == Ctx.keep) = (keepOf s != 0) := by
  cases s with
  | nil => simp [keepOf]
  | cons c s =>
    simp only [List.headD_cons, keepOf]
    by_cases hk : keepOf s ≠ 0
    · have := h.2 hk
      subst this
      simp [hk]
    · simp only [hk, if_false]
      cases c <;> simp

theorem ci_eq : caseInsensitiveArgs = selListFns ++ nthFns ++ foldFns := by decide

theorem ctxOfFn_keep (n : List Char) : (ctxOfFn n == Ctx.keep) = !caseInsensitiveArgs.contains n := by
  rw [ci_eq]
  unfold ctxOfFn
  simp only [List.contains_eq_mem, List.mem_append, decide_eq_true_eq]
  by_cases h1 : n ∈ selListFns
  · simp [h1]
  · by_cases h2 : n ∈ nthFns
    · simp [h1, h2]
    · by_cases h3 : n ∈ foldFns <;> simp [h1, h2, h3]

/-- the states of model and specification describe the same position in a selector -/
structure Rel (st : SelSt) (stack : List Ctx) (prev : Prev) (attr : Option Nat) : Prop where
  inAttr : st.inAttr = attr.isSome
  attrPrev : attr.isSome = true → prev = .none
  isClass : st.isClass = (prev == .dot)
  colon : st.inAttr = true ∨ st.prevColon = (prev == .colon)
  level : st.level = stack.length
  keep : st.keepLevel = keepOf stack
  wf : W stack

/-- is the next token a `|` (specification's reading) -/
def nextBar (l : List Tok) : Bool := match l with | n :: _ => Verif.Spec.CssSel.isBar n | [] => false

theorem attr_none {st stack prev attr} (hR : Rel st stack prev attr) (h : (!st.inAttr) = true) : attr = none := by
  have := hR.inAttr
  cases attr <;> simp_all

theorem attr_some {st stack prev attr} (hR : Rel st stack prev attr) (h : ¬(!st.inAttr) = true) :
    ∃ ph, attr = some ph ∧ prev = .none := by
  have h1 := hR.inAttr
  have h2 := hR.attrPrev
  cases attr with
  | none => simp_all
  | some ph => exact ⟨ph, rfl, h2 rfl⟩

theorem nextBar_selGo (st : SelSt) (r : List Tok) (h : st.inAttr = false) :
    nextBar (selGo st r) = nextBar r := by
  cases r with
  | nil => simp [selGo, nextBar]
  | cons n r' =>
    rcases n with ⟨tt, d, a⟩
    simp only [selGo, h, Tok.tt, Tok.data, Tok.args]
    by_cases hd : d.head? = some '.' <;>
      cases tt <;> simp [nextBar, Verif.Spec.CssSel.isBar, Tok.tt, Tok.data, hd, show (TT.ident == TT.delim) = false from rfl]

theorem shape_cons_none {pd : Bool} {t : Tok} {r : List Tok} (h : shapeGo pd none (t :: r) = true) :
    (t.tt != .delim || t.data.length == 1) = true ∧ (!pd || t.tt == .ident) = true ∧
    (if t.tt == .leftBracket then shapeGo false (some 0) r else shapeGo (t.tt == .delim && t.data == ['.']) none r) = true := by
  simp only [shapeGo, Bool.and_eq_true] at h
  exact ⟨h.1.1, h.1.2, h.2⟩

/-- one step of the normal form inside `[…]` -/
theorem normGo_attr_step (cfg : Cfg) (stack : List Ctx) (p : Prev) (ph : Nat) (t : Tok) (rest : List Tok)
    (h : (t.tt == .rightBracket) = false) :
    normGo cfg stack p (some ph) (t :: rest) =
      (attrNorm ph t).1.toList ++ normGo cfg stack .none (some (attrNorm ph t).2) rest := by
  simp only [normGo, h, Bool.false_eq_true, if_false]
  rcases hh : attrNorm ph t with ⟨o, ph'⟩
  cases o <;> simp

/-- is `t` one of the tokens for which neither side keeps more state than "the previous token was a colon"? -/
def isOther (t : Tok) : Bool :=
  t.tt != .ident && t.tt != .function && t.tt != .leftParen && t.tt != .rightParen && t.tt != .leftBracket &&
  !(t.tt == .delim && t.data == ['.'])

theorem normGo_other (cfg : Cfg) (stack : List Ctx) (p : Prev) (t : Tok) (rest : List Tok) (h : isOther t = true) :
    normGo cfg stack p none (t :: rest) =
      normGo cfg stack .none none [t] ++ normGo cfg stack (if t.tt == .colon then .colon else .none) none rest := by
  rcases t with ⟨tt, d, a⟩
  simp only [isOther, Tok.tt, Tok.data] at h
  cases tt <;> simp_all [normGo, Tok.tt, Tok.data] <;> (try split) <;> simp_all

theorem shape_cons_some {pd : Bool} {ph : Nat} {t : Tok} {r : List Tok} (h : shapeGo pd (some ph) (t :: r) = true)
    (hb : (t.tt == .rightBracket) = false) :
    (t.tt != .string || ph == 1) = true ∧ shapeGo false (some (attrNorm ph t).2) r = true := by
  simp only [shapeGo, hb, Bool.false_eq_true, if_false, Bool.and_eq_true] at h
  exact ⟨h.1.2, h.2⟩

/-- next state in attribute mode -/
theorem rel_attr {st : SelSt} {stack : List Ctx} {prev : Prev} {ph : Nat} (hR : Rel st stack prev (some ph))
    (pc ps pm : Bool) (ph' : Nat) :
    Rel { st with prevColon := pc, prevIdStr := ps, prevMatcher := pm } stack .none (some ph') := by
  have hp := hR.attrPrev rfl
  have hc := hR.isClass
  have hi := hR.inAttr
  subst hp
  exact ⟨by simpa using hi, by simp, by simpa using hc, Or.inl (by simpa using hi), hR.level, hR.keep, hR.wf⟩

theorem normGo_selGo (st : SelSt) (ts : List Tok) :
    ∀ (stack : List Ctx) (prev : Prev) (attr : Option Nat), Rel st stack prev attr →
      shapeGo (prev == .dot) attr ts = true →
      normGo htmlCfg stack prev attr (selGo st ts) = normGo htmlCfg stack prev attr ts := by
  fun_induction selGo st ts
  all_goals intro stack prev attr hR hS
  case case1 => rfl
  case case2 st t r pc ps pm hA hI isPrefix ih =>
    have hattr := attr_none hR hA
    subst hattr
    have hA' : st.inAttr = false := by simpa using hA
    rcases t with ⟨tt, data, args⟩
    have hI' : tt = .ident := by simpa [Tok.tt] using hI
    subst hI'
    obtain ⟨s1, s2, s3⟩ := shape_cons_none hS
    simp only [Tok.tt, show (TT.ident == TT.leftBracket) = false from rfl, show (TT.ident == TT.delim) = false from rfl,
      Bool.false_and, Bool.false_eq_true, if_false] at s3
    have hRel : Rel { st with isClass := false, prevColon := pc, prevIdStr := ps, prevMatcher := pm } stack .none none :=
      ⟨by simp [hA'], by simp, by simp, Or.inr (by simp [pc, Tok.tt]; rfl), hR.level, hR.keep, hR.wf⟩
    have ih' := ih stack .none none hRel s3
    have hbar : nextBar (selGo { st with isClass := false, prevColon := pc, prevIdStr := ps, prevMatcher := pm } r) = nextBar r :=
      nextBar_selGo _ r (by simp [hA'])
    -- the model's and the specification's reading of "next token is `|`" agree on lexer-shaped tokens
    have hpre : isPrefix = nextBar r := by
      cases r with
      | nil => rfl
      | cons n r' =>
        obtain ⟨n1, _, _⟩ := shape_cons_none s3
        rcases n with ⟨ntt, nd, na⟩
        simp only [isPrefix, nextBar, Verif.Model.CssGrammar.isBar, Verif.Spec.CssSel.isBar, Tok.tt, Tok.data] at n1 ⊢
        cases hntt : (ntt == TT.delim) <;> simp_all
        rcases nd with _ | ⟨c, _ | ⟨c2, rest⟩⟩ <;> simp_all
    simp only [normGo, Tok.tt, Tok.data]
    change (if (prev == Prev.dot || nextBar (selGo _ r)) = true then _ else _) = (if (prev == Prev.dot || nextBar r) = true then _ else _)
    rw [hbar, ih']
    have hc := hR.isClass
    have hk := hR.keep
    have hh := head_keep_iff stack hR.wf
    cases hp : (prev == Prev.dot) <;> cases hb : nextBar r
    · simp only [hc, hp, hpre, hb, hk, Bool.or_self, Bool.false_eq_true, if_false, Bool.not_false, Bool.and_self, Bool.true_and]
      by_cases hk0 : keepOf stack = 0
      · have hne : (stack.headD Ctx.sel == Ctx.keep) = false := by rw [hh]; simp [hk0]
        simp only [hk0, beq_self_eq_true, if_true, lower_idem, htmlCfg]
        cases stack with
        | nil => simp
        | cons c s =>
          cases c
          · simp
          · -- An+B context: `of` switches to a selector list
            have hks : keepOf s = 0 := by
              by_cases h0 : keepOf s = 0
              · exact h0
              · simp [keepOf, h0] at hk0
            have hRelOf : Rel { st with isClass := false, prevColon := pc, prevIdStr := ps, prevMatcher := pm } (Ctx.sel :: s) .none none :=
              ⟨by simp [hA'], by simp, by simp, Or.inr (by simp [pc, Tok.tt]; rfl), by simpa using hR.level,
               by simp [keepOf, hks, hk], ⟨hR.wf.1, by simp [hks]⟩⟩
            have ihOf := ih (Ctx.sel :: s) .none none hRelOf s3
            simp only [hk, hk0, htmlCfg] at ihOf
            simp only [List.headD_cons, List.drop_succ_cons, List.drop_zero]
            split
            · rw [ihOf]
            · rfl
          · simp
          · simp at hne
      · have hke : stack.headD Ctx.sel = Ctx.keep := by
          have : (stack.headD Ctx.sel == Ctx.keep) = true := by rw [hh]; simp [hk0]
          exact eq_of_beq this
        have hke' : stack.head?.getD Ctx.sel = Ctx.keep := by simpa using hke
        simp [hke', hk0, Tok.args]
    · simp [hc, hp, hpre, hb, Tok.args]
    · simp [hc, hp, hpre, hb, Tok.args]
    · simp [hc, hp, hpre, hb, Tok.args]
  case case3 st t r pc ps pm hA hI hD ih =>
    -- `.`: the class name follows
    have hattr := attr_none hR hA
    subst hattr
    have hA' : st.inAttr = false := by simpa using hA
    rcases t with ⟨tt, data, args⟩
    simp only [Tok.tt, Tok.data, Bool.and_eq_true, beq_iff_eq] at hD
    obtain ⟨hd1, hd2⟩ := hD
    subst hd1
    obtain ⟨s1, s2, s3⟩ := shape_cons_none hS
    simp only [Tok.tt, Tok.data, bne_self_eq_false, Bool.false_or, beq_iff_eq] at s1
    have hdata : data = ['.'] := by
      rcases data with _ | ⟨c, _ | ⟨c2, rest⟩⟩ <;> simp_all
    subst hdata
    simp only [Tok.tt, Tok.data, show (TT.delim == TT.leftBracket) = false from rfl, Bool.false_eq_true, if_false,
      beq_self_eq_true, Bool.and_self] at s3
    have hRel : Rel { st with isClass := true, prevColon := pc, prevIdStr := ps, prevMatcher := pm } stack .dot none :=
      ⟨by simp [hA'], by simp, by simp, Or.inr (by simp [pc, Tok.tt]; rfl), hR.level, hR.keep, hR.wf⟩
    simp only [normGo, Tok.tt, Tok.data, beq_self_eq_true, if_true]
    rw [ih stack .dot none hRel s3]
  case case4 st t r pc ps pm hA hI hD hB ih =>
    have hattr := attr_none hR hA
    subst hattr
    have hA' : st.inAttr = false := by simpa using hA
    rcases t with ⟨tt, data, args⟩
    have hB' : tt = .leftBracket := by simpa [Tok.tt] using hB
    subst hB'
    obtain ⟨s1, s2, s3⟩ := shape_cons_none hS
    simp only [Tok.tt, beq_self_eq_true, if_true] at s3
    have hcl : st.isClass = false := by
      have := hR.isClass
      simp only [Tok.tt, show (TT.leftBracket == TT.ident) = false from rfl, Bool.or_false, Bool.not_eq_true'] at s2
      rw [this]; exact s2
    have hRel : Rel { st with inAttr := true, prevColon := pc, prevIdStr := ps, prevMatcher := pm } stack .none (some 0) :=
      ⟨by simp, by simp, by simp [hcl], Or.inl rfl, hR.level, hR.keep, hR.wf⟩
    simp only [normGo, Tok.tt]
    rw [ih stack .none (some 0) hRel s3]
  case case5 st t r pc ps pm hA hI hD hB hF keep ih =>
    have hattr := attr_none hR hA
    subst hattr
    have hA' : st.inAttr = false := by simpa using hA
    rcases t with ⟨tt, data, args⟩
    have hF' : tt = .function := by simpa [Tok.tt] using hF
    subst hF'
    obtain ⟨s1, s2, s3⟩ := shape_cons_none hS
    simp only [Tok.tt, show (TT.function == TT.leftBracket) = false from rfl, show (TT.function == TT.delim) = false from rfl,
      Bool.false_and, Bool.false_eq_true, if_false] at s3
    have hcl : st.isClass = false := by
      have := hR.isClass
      simp only [Tok.tt, show (TT.function == TT.ident) = false from rfl, Bool.or_false, Bool.not_eq_true'] at s2
      rw [this]; exact s2
    have hcol : st.prevColon = (prev == .colon) := by
      rcases hR.colon with h | h
      · simp [hA'] at h
      · exact h
    have hh := head_keep_iff stack hR.wf
    have hk := hR.keep
    simp only [normGo, Tok.tt, Tok.data]
    refine congrArg _ (ih _ .none none ?_ s3)
    refine ⟨by simp [hA'], by simp, by simp [hcl], Or.inr (by simp [pc, Tok.tt]; rfl), by simp [hR.level], ?_, ?_⟩
    · -- keepLevel
      have hh' : (stack.head?.getD Ctx.sel == Ctx.keep) = (keepOf stack != 0) := by simpa using hh
      simp only [keep, Tok.data, keepOf, hk, hcol]
      by_cases hk0 : keepOf stack = 0
      · have hne : (stack.head?.getD Ctx.sel == Ctx.keep) = false := by rw [hh']; simp [hk0]
        cases hp : (prev == Prev.colon)
        · simp [hk0, hne]
        · simp only [hk0, beq_self_eq_true, Bool.true_and, ne_eq, not_true_eq_false, if_false]
          have hc2 := ctxOfFn_keep (lower data.dropLast)
          cases hci : caseInsensitiveArgs.contains (lower data.dropLast) <;> simp_all [hR.level]
      · simp [hk0]
    · -- W
      refine ⟨hR.wf, ?_⟩
      intro hk0
      have : (stack.headD Ctx.sel == Ctx.keep) = true := by rw [hh]; simp [hk0]
      have hke := eq_of_beq this
      have hke' : stack.head?.getD Ctx.sel = Ctx.keep := by simpa using hke
      simp [hke']
  case case6 st t r pc ps pm hA hI hD hB hF hP ih =>
    have hattr := attr_none hR hA
    subst hattr
    have hA' : st.inAttr = false := by simpa using hA
    rcases t with ⟨tt, data, args⟩
    have hP' : tt = .leftParen := by simpa [Tok.tt] using hP
    subst hP'
    obtain ⟨s1, s2, s3⟩ := shape_cons_none hS
    simp only [Tok.tt, show (TT.leftParen == TT.leftBracket) = false from rfl, show (TT.leftParen == TT.delim) = false from rfl,
      Bool.false_and, Bool.false_eq_true, if_false] at s3
    have hcl : st.isClass = false := by
      have := hR.isClass
      simp only [Tok.tt, show (TT.leftParen == TT.ident) = false from rfl, Bool.or_false, Bool.not_eq_true'] at s2
      rw [this]; exact s2
    have hh := head_keep_iff stack hR.wf
    have hh' : (stack.head?.getD Ctx.sel == Ctx.keep) = (keepOf stack != 0) := by simpa using hh
    have hk := hR.keep
    simp only [normGo, Tok.tt]
    refine congrArg _ (ih _ .none none ?_ s3)
    refine ⟨by simp [hA'], by simp, by simp [hcl], Or.inr (by simp [pc, Tok.tt]; rfl), by simp [hR.level], ?_, ?_⟩
    · simp only [keepOf, hk]
      by_cases hk0 : keepOf stack = 0
      · have hne : (stack.head?.getD Ctx.sel == Ctx.keep) = false := by rw [hh']; simp [hk0]
        simp [hk0, hne]
      · simp [hk0]
    · refine ⟨hR.wf, ?_⟩
      intro hk0
      have : (stack.headD Ctx.sel == Ctx.keep) = true := by rw [hh]; simp [hk0]
      exact eq_of_beq this
  case case7 st t r pc ps pm hA hI hD hB hF hP hQ ih =>
    have hattr := attr_none hR hA
    subst hattr
    have hA' : st.inAttr = false := by simpa using hA
    rcases t with ⟨tt, data, args⟩
    have hQ' : tt = .rightParen := by simpa [Tok.tt] using hQ
    subst hQ'
    obtain ⟨s1, s2, s3⟩ := shape_cons_none hS
    simp only [Tok.tt, show (TT.rightParen == TT.leftBracket) = false from rfl, show (TT.rightParen == TT.delim) = false from rfl,
      Bool.false_and, Bool.false_eq_true, if_false] at s3
    have hcl : st.isClass = false := by
      have := hR.isClass
      simp only [Tok.tt, show (TT.rightParen == TT.ident) = false from rfl, Bool.or_false, Bool.not_eq_true'] at s2
      rw [this]; exact s2
    have hk := hR.keep
    have hl := hR.level
    simp only [normGo, Tok.tt]
    refine congrArg _ (ih _ .none none ?_ s3)
    refine ⟨by simp [hA'], by simp, by simp [hcl], Or.inr (by simp [pc, Tok.tt]; rfl), by simp [hl], ?_, ?_⟩
    · cases stack with
      | nil => simp [keepOf] at hk hl ⊢; simp [hk]
      | cons c s =>
        have hle := keepOf_le s
        simp only [keepOf, List.length_cons] at hk hl
        simp only [List.drop_succ_cons, List.drop_zero, hk, hl]
        by_cases hk0 : keepOf s = 0
        · cases c <;> simp [hk0]
        · simp only [hk0, ne_eq, not_false_eq_true, if_true]
          have : ¬ (s.length + 1 = keepOf s) := by omega
          simp [this]
    · cases stack with
      | nil => simp [W]
      | cons c s => exact hR.wf.1
  case case8 st t r pc ps pm hA hI hD hB hF hP hQ ih =>
    have hattr := attr_none hR hA
    subst hattr
    have hA' : st.inAttr = false := by simpa using hA
    obtain ⟨s1, s2, s3⟩ := shape_cons_none hS
    have hoth : isOther t = true := by
      rcases t with ⟨tt, data, args⟩
      simp only [Tok.tt, Tok.data] at hI hD hB hF hP hQ s1 ⊢
      simp only [isOther, Tok.tt, Tok.data]
      cases tt <;> simp_all
      rcases data with _ | ⟨c, _ | ⟨c2, rest⟩⟩ <;> simp_all
    have hnd : (t.tt == .delim && t.data == ['.']) = false := by
      simp only [isOther, Bool.and_eq_true, Bool.not_eq_true'] at hoth
      exact hoth.2
    have hcl : st.isClass = false := by
      have := hR.isClass
      have hni : (t.tt == TT.ident) = false := by simpa using hI
      simp only [hni, Bool.or_false, Bool.not_eq_true'] at s2
      rw [this]; exact s2
    have hnb : (t.tt == TT.leftBracket) = false := by simpa using hB
    simp only [hnb, Bool.false_eq_true, if_false, hnd] at s3
    rw [normGo_other htmlCfg stack prev t r hoth, normGo_other htmlCfg stack prev t (selGo _ r) hoth]
    refine congrArg _ (ih _ _ none ?_ ?_)
    · refine ⟨by simp [hA'], by simp, ?_, Or.inr ?_, hR.level, hR.keep, hR.wf⟩
      · simp only [hcl]; split <;> rfl
      · simp only [pc]; split
        · simp_all
        · rename_i hnc; simp [hnc]
    · split <;> exact s3
  case case9 st t r pc ps pm hA hU ih =>
    -- a string that is written without its quotes
    obtain ⟨ph, hattr, hprev⟩ := attr_some hR hA
    subst hattr hprev
    rcases t with ⟨tt, data, args⟩
    simp only [Tok.tt, Tok.data, Bool.and_eq_true, beq_iff_eq] at hU
    obtain ⟨⟨⟨⟨htt, _⟩, _⟩, _⟩, _⟩ := hU
    subst htt
    obtain ⟨p1, p2⟩ := shape_cons_some hS rfl
    have hph : ph = 1 := by simpa [Tok.tt] using p1
    subst hph
    rw [normGo_attr_step _ _ _ _ _ _ rfl, normGo_attr_step _ _ _ _ _ _ rfl]
    have e1 : attrNorm 1 (Tok.mk TT.ident ((data.drop 1).dropLast) []) = (some (valueTok (unesc ((data.drop 1).dropLast))), 2) := by
      simp [attrNorm, isMatcher, Tok.tt, Tok.data]
    have e2 : attrNorm 1 (Tok.mk TT.string data args) = (some (valueTok (unesc ((data.drop 1).dropLast))), 2) := by
      simp [attrNorm, isMatcher, Tok.tt, Tok.data]
    simp only [Tok.data]
    rw [e1, e2]
    rw [e2] at p2
    exact congrArg _ (ih stack .none (some 2) (rel_attr hR _ _ _ 2) p2)
  case case10 st t r pc ps pm hA hU hStr ih =>
    obtain ⟨ph, hattr, hprev⟩ := attr_some hR hA
    subst hattr hprev
    have hb : (t.tt == TT.rightBracket) = false := by
      simp only [Bool.and_eq_true, beq_iff_eq] at hStr
      rw [hStr.1]; rfl
    obtain ⟨p1, p2⟩ := shape_cons_some hS hb
    rw [normGo_attr_step _ _ _ _ _ _ hb, normGo_attr_step _ _ _ _ _ _ hb]
    exact congrArg _ (ih stack .none _ (rel_attr hR _ _ _ _) p2)
  case case11 st t r pc ps pm hA hU hStr hRB ih =>
    obtain ⟨ph, hattr, hprev⟩ := attr_some hR hA
    subst hattr hprev
    have hb : t.tt = TT.rightBracket := by simpa using hRB
    have hS' : shapeGo false none r = true := by simpa [shapeGo, hb] using hS
    have hi := hR.inAttr
    have hc := hR.isClass
    simp only [normGo, hb, beq_self_eq_true, if_true]
    refine congrArg _ (ih stack .none none ?_ hS')
    exact ⟨by simp, by simp, by simpa using hc, Or.inr (by simp [pc, hb]; rfl), hR.level, hR.keep, hR.wf⟩
  case case12 st t r pc ps pm hA hU hStr hRB hFlag ih =>
    -- an identifier behind the value: a white-space token is written in front of it
    obtain ⟨ph, hattr, hprev⟩ := attr_some hR hA
    subst hattr hprev
    have hb : (t.tt == TT.rightBracket) = false := by simpa using hRB
    obtain ⟨p1, p2⟩ := shape_cons_some hS hb
    have hws : attrNorm ph Verif.Model.CssGrammar.wsTok = (none, ph) := by
      simp [attrNorm, Verif.Model.CssGrammar.wsTok, Tok.tt]
    rw [normGo_attr_step _ _ _ _ Verif.Model.CssGrammar.wsTok _ rfl, hws]
    simp only [Option.toList, List.nil_append]
    rw [normGo_attr_step _ _ _ _ _ _ hb, normGo_attr_step _ _ _ _ _ _ hb]
    exact congrArg _ (ih stack .none _ (rel_attr hR _ _ _ _) p2)
  case case13 st t r pc ps pm hA hU hStr hRB hFlag ih =>
    obtain ⟨ph, hattr, hprev⟩ := attr_some hR hA
    subst hattr hprev
    have hb : (t.tt == TT.rightBracket) = false := by simpa using hRB
    obtain ⟨p1, p2⟩ := shape_cons_some hS hb
    rw [normGo_attr_step _ _ _ _ _ _ hb, normGo_attr_step _ _ _ _ _ _ hb]
    exact congrArg _ (ih stack .none _ (rel_attr hR _ _ _ _) p2)

/-- **the tokens written have the normal form of the tokens read** (HTML documents) -/
theorem selNorm_selToks (ts : List Tok) (h : selShape ts = true) :
    selNorm htmlCfg (selToks ts) = selNorm htmlCfg ts := by
  unfold selNorm selToks
  have hRel : Rel SelSt.init [] .none none :=
    ⟨rfl, by simp, rfl, Or.inr rfl, rfl, rfl, trivial⟩
  rw [normGo_selGo SelSt.init ts [] .none none hRel h]

end Verif.Proofs.CssSel

import Verif.Model.CssGrammar
import Verif.Spec.CssSelSpec
import Verif.Proofs.Css
/-!
# Lemmas about `minifySelectors` (C04B)

* `skelGo_selGo` — the case-erased skeleton (hence the specificity) of a selector is never changed.
* `normGo_selGo` — joint induction over the model (`selGo`, state `SelSt`) and the specification's normal form
  (`normGo`, state: context stack, previous token, attribute phase): for HTML documents the tokens written have the
  normal form of the tokens read.  The states are tied by `Rel`: `keepLevel` of the code is `keepOf` of the
  specification's context stack.
-/
namespace Verif.Proofs.CssSel
open Verif.Spec.CssValue (TT Tok lower)
open Verif.Spec.CssSel Verif.Model.CssGrammar
open Verif.Proofs.Css (lower_idem)

/-! ## specificity skeleton -/

theorem skelGo_selGo : ∀ (ts : List Tok) (st : SelSt),
    skelGo st.inAttr (selGo st ts) = skelGo st.inAttr ts := by
  intro ts
  induction ts with
  | nil => intro st; simp [selGo, skelGo]
  | cons t r ih =>
    intro st
    rcases t with ⟨tt, data, args⟩
    by_cases hA : st.inAttr = true
    · -- inside `[…]`: everything up to `]` is dropped
      simp only [selGo, hA, Bool.not_true, Bool.false_eq_true, if_false, Tok.tt, Tok.data]
      split
      · rename_i h
        have htt : tt = .string := by simp only [Bool.and_eq_true, beq_iff_eq] at h; exact h.1.1.1
        subst htt
        have := ih { st with prevColon := (TT.string == TT.colon) }
        simp only [hA] at this
        simp [skelGo, Tok.tt, this]
      · split
        · have := ih { st with prevColon := (tt == TT.colon) }
          simp only [hA] at this
          rename_i h
          have htt : tt = .string := by simp only [Bool.and_eq_true, beq_iff_eq] at h; exact h.1
          subst htt
          simp [skelGo, Tok.tt, this]
        · split
          · rename_i h
            have htt : tt = .rightBracket := by simpa using h
            subst htt
            have := ih { st with inAttr := false, prevColon := (TT.rightBracket == TT.colon) }
            simp only at this
            simp [skelGo, Tok.tt, this]
          · split
            · rename_i hb h
              have htt : tt = .ident := by simp only [Bool.and_eq_true, beq_iff_eq] at h; exact h.1.1
              subst htt
              have := ih { st with prevColon := (TT.ident == TT.colon) }
              simp only [hA] at this
              simp [skelGo, Tok.tt, wsTok, this]
            · rename_i hb _
              have hne : (tt == TT.rightBracket) = false := by simpa using hb
              have := ih { st with prevColon := (tt == TT.colon) }
              simp only [hA] at this
              simp [skelGo, Tok.tt, hne, this]
    · have hA' : st.inAttr = false := by cases h : st.inAttr <;> simp_all
      simp only [selGo, hA', Bool.not_false, if_true, Tok.tt, Tok.data, Tok.args]
      split
      · rename_i h
        have htt : tt = .ident := by simpa using h
        subst htt
        have := ih { st with isClass := false, prevColon := (TT.ident == TT.colon) }
        simp only [hA'] at this
        simp only [skelGo, Tok.tt, Tok.data]
        simp only [show (TT.ident == TT.leftBracket) = false from rfl, Bool.false_eq_true, if_false,
          beq_self_eq_true, Bool.true_or, if_true, this]
        congr 2
        split <;> simp [lower_idem]
      · split
        · have := ih { st with isClass := true, prevColon := (tt == TT.colon) }
          simp only [hA'] at this
          rename_i h
          have htt : tt = .delim := by simp only [Bool.and_eq_true, beq_iff_eq] at h; exact h.1
          subst htt
          simp [skelGo, Tok.tt, this]
        · split
          · rename_i h
            have htt : tt = .leftBracket := by simpa using h
            subst htt
            have := ih { st with inAttr := true, prevColon := (TT.leftBracket == TT.colon) }
            simp only at this
            simp [skelGo, Tok.tt, this]
          · rename_i hlb
            have hlb' : (tt == TT.leftBracket) = false := by simpa using hlb
            split
            · have := ih { st with level := st.level + 1,
                  keepLevel := if (st.keepLevel == 0 && st.prevColon && !caseInsensitiveArgs.contains (lower data.dropLast)) = true
                    then st.level + 1 else st.keepLevel, prevColon := (tt == TT.colon) }
              simp only [hA'] at this
              simp [skelGo, Tok.tt, hlb', this]
            · split
              · have := ih { st with level := st.level + 1, prevColon := (tt == TT.colon) }
                simp only [hA'] at this
                simp [skelGo, Tok.tt, hlb', this]
              · split
                · have := ih { st with keepLevel := if st.level = st.keepLevel then 0 else st.keepLevel,
                      level := st.level - 1, prevColon := (tt == TT.colon) }
                  simp only [hA'] at this
                  simp [skelGo, Tok.tt, hlb', this]
                · have := ih { st with prevColon := (tt == TT.colon) }
                  simp only [hA'] at this
                  simp [skelGo, Tok.tt, hlb', this]

theorem skel_selToks (ts : List Tok) : skel (selToks ts) = skel ts :=
  skelGo_selGo ts SelSt.init

end Verif.Proofs.CssSel

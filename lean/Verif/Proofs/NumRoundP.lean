import Verif.Proofs.NumDecimal
set_option linter.unusedSimpArgs false
/-!
# C08 — the precision branch of `Number` keeps the trimmed mantissa well formed
-/
namespace Verif.Proofs.Num
open Verif.Model.Num

theorem roundInt_wf {h : Char} {t : List Char} (pend : Bool) (e : Int)
    (hh : h.isDigit = true) (h0 : h ≠ '0') (ht : AllDig t) :
    MantWF (roundInt h t pend e).ip (roundInt h t pend e).fp := by
  unfold roundInt
  have hnil : ∀ x : List Char, ([] : List Char) ≠ x ++ ['0'] := by intro x e; simp at e
  cases pend with
  | true =>
    simp only [if_true]
    by_cases h9 : h = '9'
    · simp only [h9, beq_self_eq_true, if_true]
      exact ⟨AllDig.cons (by decide) AllDig.nil, AllDig.nil, Or.inl (by simp), (by intro t e; cases e), hnil⟩
    · have : (h == '9') = false := by simpa using h9
      simp only [this, Bool.false_eq_true, if_false]
      obtain ⟨i1, i2⟩ := incChar_digit hh h9
      refine ⟨AllDig.cons i1 AllDig.nil, AllDig.nil, Or.inl (by simp), ?_, hnil⟩
      intro t e; injection e with e1 _; exact i2 e1
  | false =>
    simp only [Bool.false_eq_true, if_false]
    refine ⟨AllDig.cons hh ht, AllDig.nil, Or.inl (by simp), ?_, hnil⟩
    intro t e; injection e with e1 _; exact h0 e1

theorem roundIp_wf {h : Char} {tl : List Char} (p : Nat) (inc : Bool) (e : Int)
    (hh : h.isDigit = true) (h0 : h ≠ '0') (ht : AllDig tl) :
    MantWF (roundIp h tl p inc e).ip (roundIp h tl p inc e).fp := by
  unfold roundIp
  have hd : AllDig (((h :: tl).take p).drop 1) := ((AllDig.cons hh ht).take p).drop 1
  obtain ⟨s1, _, _, _⟩ := incStrip_spec _ inc hd
  exact roundInt_wf _ _ hh h0 s1

theorem roundP_wf {m : Mant} (hm : MantWF m.ip m.fp) {p : Nat} (hp : 0 < p) :
    MantWF (roundP m p).ip (roundP m p).fp := by
  unfold roundP
  split
  · -- `.000ddd`
    rename_i hi
    simp only []
    split
    · rename_i hlt
      obtain ⟨s1, s2, s3, s4⟩ := incStrip_spec (m.fp.take (m.fp.length - (dropZeros m.fp).length + p))
        (ge5At (dropZeros m.fp) p) (hm.dfp.take _)
      cases hpend : (incStrip (m.fp.take (m.fp.length - (dropZeros m.fp).length + p)) (ge5At (dropZeros m.fp) p)).2 with
      | true =>
        simp only [if_true]
        exact ⟨AllDig.cons (by decide) AllDig.nil, AllDig.nil, Or.inl (by simp), (by intro t e; cases e),
          (by intro x e; simp at e)⟩
      | false =>
        simp only [Bool.false_eq_true, if_false]
        refine ⟨AllDig.nil, s1, Or.inr ?_, (by intro t e; cases e), s4⟩
        intro hnil
        have hdt := incStrip_nil_of_not_pend hnil hpend
        obtain ⟨z1, z2, z3⟩ := dropZeros_spec m.fp
        have hdz : dropZeros m.fp ≠ [] := by
          intro h; rw [h] at hlt; simp at hlt
        exact take_zeros_nonzero z1 z3 hdz (by omega) hdt
    · exact hm
  · rename_i h tl hi
    have hd := hm.dip
    rw [hi] at hd
    obtain ⟨hh, htl⟩ := hd.of_cons
    have h0 : h ≠ '0' := by
      intro e; have := hm.lead tl; rw [hi, e] at this; exact this rfl
    simp only []
    split
    · split
      · exact roundIp_wf _ _ _ hh h0 htl
      · exact hm
    · split
      · split
        · exact roundIp_wf _ _ _ hh h0 htl
        · obtain ⟨s1, s2, s3, s4⟩ := incStrip_spec (tl ++ m.fp.take (p - (tl.length + 1)))
            (ge5At m.fp (p - (tl.length + 1))) (htl.append (hm.dfp.take _))
          split
          · refine ⟨AllDig.cons hh (s1.take _), s1.drop _, Or.inl (by simp), ?_, ?_⟩
            · intro t e; injection e with e1 _; exact h0 e1
            · intro x e
              simp only [] at e
              have := List.take_append_drop (tl.length + 1 - 1)
                (incStrip (tl ++ m.fp.take (p - (tl.length + 1))) (ge5At m.fp (p - (tl.length + 1)))).1
              rw [e, ← List.append_assoc] at this
              exact s4 _ this.symm
          · exact roundInt_wf _ _ hh h0 s1
      · exact hm

theorem rnd_wf {m : Mant} (hm : MantWF m.ip m.fp) (prec : Int) : MantWF (rnd prec m).ip (rnd prec m).fp := by
  unfold rnd
  split
  · exact roundP_wf hm (by omega)
  · exact hm


/-- first byte of a lexeme without `+` -/
def GoodHead (o : List Char) : Prop := ∃ c t, o = c :: t ∧ (c.isDigit = true ∨ c = '.' ∨ c = '-')

theorem lex_head (l : Lex) (hwf : l.WF) (hsg : l.sg ≠ .plus) : GoodHead l.str := by
  unfold GoodHead Lex.str
  cases hs : l.sg with
  | plus => exact absurd hs hsg
  | minus => exact ⟨'-', _, rfl, Or.inr (Or.inr rfl)⟩
  | none =>
    simp only [Sg.chars, List.nil_append]
    cases hip : l.ip with
    | cons c t => exact ⟨c, _, rfl, Or.inl (hwf.ip c (by rw [hip]; simp))⟩
    | nil =>
      have hfp : l.fp ≠ [] := by rcases hwf.nonempty with h | h; exact absurd hip h; exact h
      have hd : l.dot = true := by
        cases hd : l.dot with
        | true => rfl
        | false => exact absurd (hwf.nodot hd) hfp
      simp only [Lex.dotPart, hd, if_true, List.nil_append, List.cons_append]
      exact ⟨'.', _, rfl, Or.inr (Or.inl rfl)⟩

theorem lex_sg_of_head (l : Lex) (h : l.str.head? ≠ some '+') : l.sg ≠ .plus := by
  intro hs
  apply h
  simp [Lex.str, hs, Sg.chars]

end Verif.Proofs.Num

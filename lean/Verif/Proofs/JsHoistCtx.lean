import Verif.Proofs.JsHoistSound
/-!
# C01D — a rewrite of a statement list anywhere inside a function body (not inside nested functions)

`Within A R a b`: `b` is `a` with one sub-list rewritten by `R`, at the top level of the body or inside blocks, `if`
branches that are blocks, loop bodies, `try` / `catch` blocks.  `A` are the `var` names that the rewrite adds to the
place where it happens; on the way down no enclosing block (loop head, catch parameter excluded: it may be redeclared
by `var`) may declare one of them with let / const.
-/
namespace Verif.Proofs.JsDecl
open Verif.Spec.JsDeclSem Verif.Model.JsHoist

inductive Within (A : List String) (R : List DS → List DS → Prop) : List DS → List DS → Prop
  | here (pre : List DS) {l l' : List DS} : R l l' → Within A R (pre ++ l) (pre ++ l')
  | block (pre rest : List DS) {l l' : List DS} : Within A R l l' → meets (lexNamesL l) A = false →
      Within A R (pre ++ .block l :: rest) (pre ++ .block l' :: rest)
  | ifThen (pre rest : List DS) (c : DE) (e : DS) {l l' : List DS} : Within A R l l' → meets (lexNamesL l) A = false →
      Within A R (pre ++ .ifS c (.block l) e :: rest) (pre ++ .ifS c (.block l') e :: rest)
  | ifElse (pre rest : List DS) (c : DE) (t : DS) {l l' : List DS} : Within A R l l' → meets (lexNamesL l) A = false →
      Within A R (pre ++ .ifS c t (.block l) :: rest) (pre ++ .ifS c t (.block l') :: rest)
  | forBody (pre rest : List DS) (w : Bool) (i : DS) (c p : Option DE) {l l' : List DS} : Within A R l l' →
      meets (lexNamesL l) A = false → meets ((lexDeclsS i).map (·.1)) A = false →
      Within A R (pre ++ .forS w i c p l :: rest) (pre ++ .forS w i c p l' :: rest)
  | tryBody (pre rest : List DS) (x : String) (a : Ann) (cb : List DS) {l l' : List DS} : Within A R l l' →
      meets (lexNamesL l) A = false →
      Within A R (pre ++ .tryS l x a cb :: rest) (pre ++ .tryS l' x a cb :: rest)
  | catchBody (pre rest : List DS) (x : String) (a : Ann) (b : List DS) {l l' : List DS} : Within A R l l' →
      meets (lexNamesL l) A = false →
      Within A R (pre ++ .tryS b x a l :: rest) (pre ++ .tryS b x a l' :: rest)

theorem Within.listEq {A : List String} {R : List DS → List DS → Prop} (hR : ∀ l l', R l l' → ListEqA A l l')
    {a b : List DS} (h : Within A R a b) : ListEqA A a b := by
  induction h with
  | here pre r => exact ListEqA.append_left pre (hR _ _ r)
  | block pre rest _ hm ih => exact ListEqA.replace pre rest (StmtEqA.block ih hm)
  | ifThen pre rest c e _ hm ih => exact ListEqA.replace pre rest (StmtEqA.ifThen c e (StmtEqA.block ih hm))
  | ifElse pre rest c t _ hm ih => exact ListEqA.replace pre rest (StmtEqA.ifElse c t (StmtEqA.block ih hm))
  | forBody pre rest w i c p _ hm hi ih => exact ListEqA.replace pre rest (StmtEqA.forBody w i c p ih hm hi)
  | tryBody pre rest x a cb _ hm ih => exact ListEqA.replace pre rest (StmtEqA.tryBody x a cb ih hm)
  | catchBody pre rest x a b _ hm ih => exact ListEqA.replace pre rest (StmtEqA.catchBody x a b ih hm)

/-- somewhere the rewrite `R` took place -/
theorem Within.exists {A : List String} {R : List DS → List DS → Prop} {a b : List DS} (h : Within A R a b) :
    ∃ l l', R l l' := by
  induction h with
  | here pre r => exact ⟨_, _, r⟩
  | block _ _ _ _ ih => exact ih
  | ifThen _ _ _ _ _ _ ih => exact ih
  | ifElse _ _ _ _ _ _ ih => exact ih
  | forBody _ _ _ _ _ _ _ _ _ ih => exact ih
  | tryBody _ _ _ _ _ _ _ ih => exact ih
  | catchBody _ _ _ _ _ _ _ ih => exact ih

theorem Within.mono {A : List String} {R R' : List DS → List DS → Prop} (hR : ∀ l l', R l l' → R' l l')
    {a b : List DS} (h : Within A R a b) : Within A R' a b := by
  induction h with
  | here pre r => exact .here pre (hR _ _ r)
  | block pre rest _ hm ih => exact .block pre rest ih hm
  | ifThen pre rest c e _ hm ih => exact .ifThen pre rest c e ih hm
  | ifElse pre rest c t _ hm ih => exact .ifElse pre rest c t ih hm
  | forBody pre rest w i c p _ hm hi ih => exact .forBody pre rest w i c p ih hm hi
  | tryBody pre rest x a cb _ hm ih => exact .tryBody pre rest x a cb ih hm
  | catchBody pre rest x a b _ hm ih => exact .catchBody pre rest x a b ih hm

end Verif.Proofs.JsDecl

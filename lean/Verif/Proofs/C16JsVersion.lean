import Verif.Model.JsOpt
import Verif.Model.JsPrint
/-!
# C16 — the ES2020 gate in the model of `optimizeCondExpr` (`Verif.Model.JsOpt.optCond`)

`nn e` = the expression uses neither `??` nor `??=`.  With `ver2020 = false` (`minVersion(2020)` fails) every rewrite of
`optimizeCondExpr` — normalisation of the condition, `c?x:y → c||y`, call merging, boolean bodies, De Morgan, nested
conditionals, comma conditions — maps nullish-free parts to a nullish-free result.  Core Lean only.
-/
namespace Verif.Proofs.C16JsVersion
open Verif.Spec.JsSyntax Verif.Model.JsAst Verif.Model.JsOpt
open Verif.Spec.JsSyntax.E

mutual
/-- the expression contains no `??` / `??=` operator -/
def nn : E → Bool
  | var _ => true
  | lit _ => true
  | unary _ x => nn x
  | bin op x y => op != .nullish && op != .nullishEq && nn x && nn y
  | .cond c x y => nn c && nn x && nn y
  | comma l => nnL l
  | call f a => nn f && nnL a
  | dot x _ => nn x
  | index x y => nn x && nn y
  | group x => nn x
def nnL : List E → Bool
  | [] => true
  | e :: r => nn e && nnL r
end

theorem nnL_append (a b : List E) : nnL (a ++ b) = (nnL a && nnL b) := by
  induction a with
  | nil => simp [nnL]
  | cons e r ih => simp [nnL, ih, Bool.and_assoc]

theorem nnL_dropLast (l : List E) (h : nnL l = true) : nnL l.dropLast = true := by
  induction l with
  | nil => rfl
  | cons e r ih =>
    cases r with
    | nil => rfl
    | cons e2 r2 =>
      simp only [nnL, Bool.and_eq_true] at h
      simp only [List.dropLast_cons_cons, nnL, Bool.and_eq_true]
      exact ⟨h.1, ih (by simp [nnL, h.2.1, h.2.2])⟩

theorem nnL_getLast (l : List E) (d : E) (h : nnL l = true) (hd : nn d = true) : nn (l.getLast?.getD d) = true := by
  induction l with
  | nil => simpa using hd
  | cons e r ih =>
    simp only [nnL, Bool.and_eq_true] at h
    cases r with
    | nil => simpa using h.1
    | cons e2 r2 => simpa [List.getLast?_cons_cons] using ih h.2

theorem nn_groupExpr (i : E) (p : Prec) (h : nn i = true) : nn (groupExpr i p) = true := by
  unfold groupExpr; split <;> simpa [nn] using h

theorem invertOp_ne (o : BOp) (h1 : o ≠ .nullish) (h2 : o ≠ .nullishEq) :
    invertOp o ≠ .nullish ∧ invertOp o ≠ .nullishEq := by
  cases o <;> simp_all [invertOp]

theorem nn_bin {op : BOp} {x y : E} (h : nn (bin op x y) = true) :
    op ≠ .nullish ∧ op ≠ .nullishEq ∧ nn x = true ∧ nn y = true := by
  simp only [nn, Bool.and_eq_true, bne_iff_ne, ne_eq] at h
  exact ⟨h.1.1.1, h.1.1.2, h.1.2, h.2⟩

theorem nn_bin_mk {op : BOp} {x y : E} (h1 : op ≠ .nullish) (h2 : op ≠ .nullishEq) (hx : nn x = true) (hy : nn y = true) :
    nn (bin op x y) = true := by
  simp [nn, h1, h2, hx, hy]

theorem nn_negOperand (x : E) (g : Bool) (h : nn x = true) : nn (negOperand x g) = true := by
  unfold negOperand
  split
  · cases x with
    | bin o a b =>
      obtain ⟨h1, h2, ha, hb⟩ := nn_bin h
      obtain ⟨i1, i2⟩ := invertOp_ne o h1 h2
      exact nn_bin_mk i1 i2 ha hb
    | _ => simpa using h
  · cases g <;> simpa [nn] using h

theorem dualOp_ne (b : BOp) : dualOp b ≠ .nullish ∧ dualOp b ≠ .nullishEq := by
  unfold dualOp; split <;> simp

theorem nn_deMorgan (bop : BOp) (x y : E) (p : Prec) (r : E) (hx : nn x = true) (hy : nn y = true)
    (h : deMorgan bop x y p = some r) : nn r = true := by
  unfold deMorgan at h
  have key : ∀ g1 g2, nn (bin (dualOp bop) (negOperand x g1) (negOperand y g2)) = true := fun g1 g2 =>
    nn_bin_mk (dualOp_ne bop).1 (dualOp_ne bop).2 (nn_negOperand x g1 hx) (nn_negOperand y g2 hy)
  split at h
  · cases h
    unfold deMorganBuild
    simp only
    split
    · simpa [nn] using key _ _
    · exact key _ _
  · cases h

theorem nn_stripNots (e : E) (inv : Bool) (h : nn e = true) : nn (stripNots e inv).1 = true := by
  fun_induction stripNots e inv with
  | case1 x inv ih => exact ih (by simpa [nn] using h)
  | case2 x inv ih => exact ih (by simpa [nn] using h)
  | case3 e inv _ _ => exact h

theorem nn_optNotCore (e2 : E) (inv : Bool) (p : Prec) (orig : E) (h2 : nn e2 = true) (ho : nn orig = true) :
    nn (optNotCore e2 inv p orig) = true := by
  unfold optNotCore
  split
  · exact nn_groupExpr _ _ h2
  · cases e2 with
    | bin bop a b =>
      obtain ⟨h1, h2', ha, hb⟩ := nn_bin h2
      simp only
      split
      · split
        · obtain ⟨i1, i2⟩ := invertOp_ne bop h1 h2'
          exact nn_groupExpr _ _ (nn_bin_mk i1 i2 ha hb)
        · split
          · split
            · next r hr => exact nn_deMorgan bop a b p r ha hb hr
            · exact ho
          · exact ho
      · exact ho
    | _ => exact ho

theorem nn_optUnary (op : UOp) (x : E) (p : Prec) (h : nn x = true) : nn (optUnary op x p) = true := by
  unfold optUnary
  split
  · exact nn_optNotCore _ _ _ _ (nn_stripNots x true h) (by simpa [nn] using h)
  · simpa [nn] using h

theorem nn_optBool (e : E) (inv : Bool) (p : Prec) (h : nn e = true) : nn (optBool e inv p) = true := by
  unfold optBool
  split
  · split
    · next op a b =>
      obtain ⟨h1, h2, ha, hb⟩ := nn_bin h
      split
      · obtain ⟨i1, i2⟩ := invertOp_ne op h1 h2
        exact nn_bin_mk i1 i2 ha hb
      · exact nn_optUnary _ _ _ (nn_groupExpr _ _ h)
    · exact nn_optUnary _ _ _ (nn_groupExpr _ _ h)
  · split
    · exact nn_groupExpr _ _ h
    · simpa [nn] using nn_groupExpr e opUnary h

theorem nn_condNormalize (c x y : E) (hc : nn c = true) (hx : nn x = true) (hy : nn y = true) :
    nn (condNormalize c x y).1 = true ∧ nn (condNormalize c x y).2.1 = true ∧ nn (condNormalize c x y).2.2 = true := by
  unfold condNormalize
  split
  · next z => split <;> simp_all [nn]
  · next z _ => simp_all [nn]
  · exact ⟨hc, hx, hy⟩

theorem nn_callMerge (c x y r : E) (hc : nn c = true) (hx : nn x = true) (hy : nn y = true)
    (h : callMerge c x y = some r) : nn r = true := by
  unfold callMerge at h
  split at h
  · next fx ax fy ay =>
    split at h
    · cases h
      simp only [nn, nnL, Bool.and_eq_true, Bool.and_true] at hx hy ⊢
      exact ⟨hx.1, ⟨hc, hx.2⟩, hy.2⟩
    · cases h
  · cases h

theorem nn_nestedCond (c x y r : E) (hc : nn c = true) (hx : nn x = true) (hy : nn y = true)
    (h : nestedCond c x y = some r) : nn r = true := by
  unfold nestedCond at h
  split at h
  · next c2 x2 y2 =>
    split at h
    · cases h
      simp only [nn, Bool.and_eq_true] at hx
      have := nn_bin_mk (op := .land) (by decide) (by decide) (nn_groupExpr c BOp.land.left hc) (nn_groupExpr c2 BOp.land.right hx.1.1)
      simp only [nn, Bool.and_eq_true] at this ⊢
      exact ⟨⟨this, hx.1.2⟩, hy⟩
    · cases h
  · cases h

theorem nn_commaCond (c x y : E) (p : Prec) (hc : nn c = true) (hx : nn x = true) (hy : nn y = true) :
    nn (commaCond c x y p) = true := by
  have hplain : nn (E.cond c x y) = true := by simp [nn, hc, hx, hy]
  unfold commaCond
  split
  · split
    · next l =>
      have hl : nnL l = true := by simpa [nn] using hc
      split
      · simp only [nn, nnL_append, nnL, Bool.and_true, Bool.and_eq_true]
        exact ⟨nnL_dropLast l hl, ⟨nnL_getLast l _ hl hc, hx⟩, hy⟩
      · exact hplain
    · exact hplain
  · exact hplain

theorem nn_optCondTail (c x y : E) (p : Prec) (hc : nn c = true) (hx : nn x = true) (hy : nn y = true) :
    nn (optCondTail c x y p) = true := by
  unfold optCondTail
  simp only
  split
  · exact nn_optBool _ _ _ hc
  · split
    · refine nn_bin_mk (by decide) (by decide) (nn_optBool _ _ _ hc) (nn_groupExpr _ _ ?_)
      split <;> assumption
    · split
      · refine nn_bin_mk (by decide) (by decide) (nn_optBool _ _ _ hc) (nn_groupExpr _ _ ?_)
        split <;> assumption
      · split
        · next e he => exact nn_nestedCond c x y e hc hx hy he
        · exact nn_commaCond c x y p hc hx hy

/-- with the ES2020 gate closed, `optimizeCondExpr` (after normalisation) introduces no `??` -/
theorem nn_optCondN (g : Bool) (c x y : E) (p : Prec) (r : E) (hc : nn c = true) (hx : nn x = true) (hy : nn y = true)
    (h : optCondN g false c x y p = some r) : nn r = true := by
  unfold optCondN at h
  split at h
  · cases h; exact hx
  · cases h; exact hy
  · split at h
    · cases h; exact nn_bin_mk (by decide) (by decide) (nn_groupExpr _ _ hc) hy
    · split at h
      · cases h; exact nn_bin_mk (by decide) (by decide) (nn_groupExpr _ _ hc) hx
      · split at h
        · cases h
          apply nn_groupExpr
          simp [nn, nnL, hc, hx]
        · simp only [Bool.false_eq_true, if_false] at h
          split at h
          · next e he =>
            split at h
            · cases h
            · cases h; exact nn_callMerge c x y _ hc hx hy he
          · cases h; exact nn_optCondTail c x y p hc hx hy

/-- the same for `optimizeCondExpr` itself -/
theorem nn_optCond (g : Bool) (c x y : E) (p : Prec) (r : E) (hc : nn c = true) (hx : nn x = true) (hy : nn y = true)
    (h : optCond g false c x y p = some r) : nn r = true := by
  unfold optCond at h
  obtain ⟨h1, h2, h3⟩ := nn_condNormalize c x y hc hx hy
  exact nn_optCondN g _ _ _ p r h1 h2 h3 h

/-- the node rewriter applied on entry of `minifyExpr` (`optimizeCondExpr` / `optimizeUnaryExpr`) -/
theorem nn_optNode (g : Bool) (e : E) (p : Prec) (r : E) (he : nn e = true)
    (h : Verif.Model.JsPrint.optNode g false e p = some r) : nn r = true := by
  unfold Verif.Model.JsPrint.optNode at h
  split at h
  · next c x y =>
    simp only [nn, Bool.and_eq_true] at he
    exact nn_optCond g c x y p r he.1.1 he.1.2 he.2 h
  · next op x =>
    cases h
    exact nn_optUnary op x p (by simpa [nn] using he)
  · cases h; exact he

end Verif.Proofs.C16JsVersion

import Verif.Proofs.JsNumberVal
/-!
# C01N — the significant digits of the private `Number` copy and their value
-/
namespace Verif.Proofs.JsNumber
open Verif.Spec.JsNumberSem (natOf10 stripSep)
open Verif.Model.JsNumber.JsNumberDec

/-- `m · 10^e` -/
def dv (m : Nat) (e : Int) : Rat := (m : Rat) * (10 : Rat) ^ e

theorem dv_shift (m k : Nat) (e : Int) : dv (m * 10 ^ k) e = dv m (e + k) := by
  unfold dv
  rw [Rat.zpow_add (by decide : (10 : Rat) ≠ 0), Rat.zpow_natCast]
  have : ((m * 10 ^ k : Nat) : Rat) = (m : Rat) * (10 : Rat) ^ k := by
    simp [Rat.natCast_mul, Rat.natCast_pow]
  rw [this]
  grind

theorem dv_zero (e e' : Int) : dv 0 e = dv 0 e' := by unfold dv; simp

theorem dv_congr {m m' : Nat} {e e' : Int} (hm : m = m') (he : e = e') : dv m e = dv m' e' := by rw [hm, he]

theorem natOf10_eq (l : List Char) : natOf10 l = natOf l := rfl

/-- value of a plain lexeme in terms of the model's digit function -/
theorem DLex.val_plain (l : DLex) (h : l.Plain) :
    l.val = dv (natOf (l.ip ++ l.fpd)) (l.expVal - (l.fpd.length : Int)) := by
  have hf : AllDig l.fpd := by
    unfold DLex.fpd
    cases hfp : l.fp with
    | none => exact AllDig.nil
    | some f => exact h.fp f hfp
  unfold DLex.val DLex.dec dv
  rw [stripSep_of_allDig h.ip, stripSep_of_allDig hf, natOf10_eq]

/-! ## facts about `sigDigits` -/

/-- significant digits: digits only, at least one, the first is not `0` -/
def SigOK (ds : List Char) : Prop := AllDig ds ∧ ds ≠ [] ∧ ∀ r, ds ≠ '0' :: r

theorem replicate_succ_snoc (k : Nat) : List.replicate (k + 1) '0' = List.replicate k '0' ++ ['0'] := by
  rw [List.replicate_succ']

theorem zeros_ne_of_no_trail {l : List Char} (hne : l ≠ []) (h : ∀ t, l ≠ t ++ ['0']) :
    dropZeros l ≠ [] := by
  intro he
  have h1 := (dropZeros_spec l).1
  rw [he, List.append_nil] at h1
  cases hk : l.length - ([] : List Char).length with
  | zero => rw [hk] at h1; simp at h1; exact hne h1
  | succ k => rw [hk, replicate_succ_snoc] at h1; exact h _ h1

theorem dropTrailZeros_head {c : Char} {t : List Char} (hc : c ≠ '0') :
    ∃ t', dropTrailZeros (c :: t) = c :: t' := by
  have h1 := (dropTrailZeros_spec (c :: t)).1
  cases hd : dropTrailZeros (c :: t) with
  | nil =>
    rw [hd, List.nil_append] at h1
    cases hk : (c :: t).length - ([] : List Char).length with
    | zero => rw [hk] at h1; cases h1
    | succ k =>
      rw [hk, List.replicate_succ] at h1
      injection h1 with e _; exact absurd e hc
  | cons x t' =>
    rw [hd, List.cons_append] at h1
    injection h1 with e _
    exact ⟨t', by rw [e]⟩

/-- the trimmed parts: `ip0` has no leading zero, `fp0` no trailing zero, not both empty -/
structure Trimmed (ip0 fp0 : List Char) : Prop where
  ipd : AllDig ip0
  fpd : AllDig fp0
  ipz : ∀ r, ip0 ≠ '0' :: r
  fpz : ∀ t, fp0 ≠ t ++ ['0']
  ne : ip0 ≠ [] ∨ fp0 ≠ []

theorem sigFacts {ip0 fp0 : List Char} (h : Trimmed ip0 fp0) : SigOK (sigDigits ip0 fp0).ds := by
  unfold sigDigits SigOK
  cases hip : ip0 with
  | nil =>
    have hf : fp0 ≠ [] := by
      rcases h.ne with e | e
      · exact absurd hip e
      · exact e
    simp only [List.isEmpty_nil, if_true]
    exact ⟨h.fpd.dropZeros, zeros_ne_of_no_trail hf h.fpz, (dropZeros_spec fp0).2.2⟩
  | cons c t =>
    have hc : c ≠ '0' := fun e => h.ipz t (by rw [hip, e])
    simp only [List.isEmpty_cons, Bool.false_eq_true, if_false]
    cases hfp : fp0 with
    | nil =>
      simp only [List.isEmpty_nil, if_true]
      obtain ⟨t', ht⟩ := dropTrailZeros_head (t := t) hc
      refine ⟨?_, by rw [ht]; simp, ?_⟩
      · rw [← hip]; exact h.ipd.dropTrailZeros
      · intro r e; rw [ht] at e; injection e with e _; exact hc e
    | cons d u =>
      simp only [List.isEmpty_cons, Bool.false_eq_true, if_false]
      refine ⟨?_, by simp, ?_⟩
      · rw [← hip, ← hfp]; exact h.ipd.append h.fpd
      · intro r e; simp only [List.cons_append] at e; injection e with e _; exact hc e

/-- the value of the trimmed mantissa is `ds · 10^(N0 − n)` -/
theorem sig_value (ip0 fp0 : List Char) (e : Int) :
    dv (natOf (ip0 ++ fp0)) (e - (fp0.length : Int)) =
      dv (natOf (sigDigits ip0 fp0).ds) ((sigDigits ip0 fp0).N0 + e - ((sigDigits ip0 fp0).ds.length : Int)) := by
  unfold sigDigits
  cases hip : ip0 with
  | nil =>
    simp only [List.isEmpty_nil, if_true, List.nil_append]
    have hl := dropZeros_length_le fp0
    rw [natOf_dropZeros]
    apply dv_congr rfl
    omega
  | cons c t =>
    simp only [List.isEmpty_cons, Bool.false_eq_true, if_false]
    cases hfp : fp0 with
    | nil =>
      simp only [List.isEmpty_nil, if_true, List.append_nil, List.length_nil]
      have h1 := (dropTrailZeros_spec (c :: t)).1
      have hl := dropTrailZeros_length_le (c :: t)
      conv => lhs; rw [h1, natOf_append_zeros, dv_shift]
      apply dv_congr rfl
      simp only [List.length_cons] at hl ⊢
      omega
    | cons d u =>
      simp only [List.isEmpty_cons, Bool.false_eq_true, if_false]
      apply dv_congr rfl
      simp only [List.length_append, List.length_cons]
      omega

/-- trimming leading zeros of the integer part and trailing zeros of the fraction keeps the value -/
theorem trim_value (ip fp : List Char) (e : Int) :
    dv (natOf (ip ++ fp)) (e - (fp.length : Int)) =
      dv (natOf (dropZeros ip ++ dropTrailZeros fp)) (e - ((dropTrailZeros fp).length : Int)) := by
  have h1 := (dropZeros_spec ip).1
  have h2 := (dropTrailZeros_spec fp).1
  have hl := dropTrailZeros_length_le fp
  conv => lhs; rw [h1, h2, List.append_assoc, natOf_zeros_append, ← List.append_assoc, natOf_append_zeros, dv_shift]
  apply dv_congr rfl
  rw [← h2]
  omega

theorem trimmed_of {ip fp : List Char} (hi : AllDig ip) (hf : AllDig fp)
    (hne : ¬ ((dropZeros ip).isEmpty && (dropTrailZeros fp).isEmpty) = true) :
    Trimmed (dropZeros ip) (dropTrailZeros fp) where
  ipd := hi.dropZeros
  fpd := hf.dropTrailZeros
  ipz := (dropZeros_spec ip).2.2
  fpz := (dropTrailZeros_spec fp).2.2
  ne := by
    cases h1 : dropZeros ip with
    | nil =>
      cases h2 : dropTrailZeros fp with
      | nil => rw [h1, h2] at hne; simp at hne
      | cons _ _ => right; simp
    | cons _ _ => left; simp

/-- if both trimmed parts are empty the value is zero -/
theorem zero_value {ip fp : List Char} (h1 : dropZeros ip = []) (h2 : dropTrailZeros fp = []) : natOf (ip ++ fp) = 0 := by
  have e1 := (dropZeros_spec ip).1
  have e2 := (dropTrailZeros_spec fp).1
  rw [h1, List.append_nil] at e1
  rw [h2, List.nil_append] at e2
  rw [e1, e2, natOf_zeros_append, natOf_replicate_zero]

end Verif.Proofs.JsNumber

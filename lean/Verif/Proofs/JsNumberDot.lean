import Verif.Proofs.JsNumberMain
/-!
# C01N — a dot after a printed number: where the numeric literal ends
-/
namespace Verif.Proofs.JsNumber
open Verif.Spec.JsNumberSem
open Verif.Model.JsNumber

def NoDot (l : List Char) : Prop := ∀ c ∈ l, c ≠ '.'

theorem allDS_noDot {l : List Char} (h : AllDS l) : NoDot l := by
  intro c hc
  rcases h c hc with e | e
  · exact digit_ne e (by decide)
  · rw [e]; decide

theorem noDot_append {a b : List Char} (ha : NoDot a) (hb : NoDot b) : NoDot (a ++ b) := by
  intro c hc
  rcases List.mem_append.mp hc with h | h
  · exact ha c h
  · exact hb c h

def neDot (c : Char) : Bool := c != '.'

/-- the position of the first dot is unique -/
theorem first_dot_unique {a1 a2 z1 z2 : List Char} (h1 : NoDot a1) (h2 : NoDot a2)
    (h : a1 ++ '.' :: z1 = a2 ++ '.' :: z2) : a1 = a2 ∧ z1 = z2 := by
  have t1 : (a1 ++ '.' :: z1).takeWhile neDot = a1 :=
    takeWhile_append_stop (fun x hx => by simp [neDot, h1 x hx]) (by intro c t e; injection e with e _; rw [← e]; rfl)
  have t2 : (a2 ++ '.' :: z2).takeWhile neDot = a2 :=
    takeWhile_append_stop (fun x hx => by simp [neDot, h2 x hx]) (by intro c t e; injection e with e _; rw [← e]; rfl)
  have e : a1 = a2 := by rw [← t1, ← t2, h]
  subst e
  have := List.append_cancel_left h
  injection this with _ e2
  exact ⟨rfl, e2⟩

/-- split a list at its first dot -/
theorem split_first_dot (a : List Char) : NoDot a ∨ ∃ a1 a2, a = a1 ++ '.' :: a2 ∧ NoDot a1 := by
  have h0 : a = a.takeWhile neDot ++ a.dropWhile neDot := (List.takeWhile_append_dropWhile).symm
  have h1 : NoDot (a.takeWhile neDot) := by
    intro c hc; have := mem_takeWhile_imp hc; simpa [neDot] using this
  cases hd : a.dropWhile neDot with
  | nil => left; rw [hd, List.append_nil] at h0; rw [h0]; exact h1
  | cons c t =>
    right
    have hc := dropWhile_head (p := neDot) a c t hd
    have : c = '.' := by simpa [neDot] using hc
    subst this
    exact ⟨_, t, by rw [hd] at h0; exact h0, h1⟩

theorem exPart_noDot (l : DLex) (h : l.Shape) : NoDot l.exPart := by
  intro c hc
  unfold DLex.exPart at hc
  split at hc
  · cases hc
  · rename_i c' sg d hex
    obtain ⟨h1, h2, h3⟩ := h.ex _ _ _ hex
    rcases List.mem_cons.mp hc with e | e
    · rw [e]; rcases h1 with e1 | e1 <;> rw [e1] <;> decide
    · rcases List.mem_append.mp e with e | e
      · rcases h2 with s | s | s <;> subst s
        · cases e
        · simp at e; rw [e]; decide
        · simp at e; rw [e]; decide
      · exact allDS_noDot h3 c e

/-- in a structured lexeme the text before the (only) dot is the integer part -/
theorem lex_dot (l : DLex) (h : l.Shape) {a z : List Char} (ha : NoDot a) (he : l.str = a ++ '.' :: z) :
    AllDS a ∧ NoDot z := by
  have hip := allDS_noDot h.ip
  have hex := exPart_noDot l h
  unfold DLex.str DLex.dotPart at he
  cases hfp : l.fp with
  | none =>
    rw [hfp] at he
    simp only [List.nil_append] at he
    exfalso
    have : '.' ∈ l.ip ++ l.exPart := by rw [he]; simp
    exact noDot_append hip hex '.' this rfl
  | some f =>
    rw [hfp] at he
    simp only [List.cons_append] at he
    obtain ⟨e1, e2⟩ := first_dot_unique hip ha he
    subst e1
    subst e2
    exact ⟨h.ip, noDot_append (allDS_noDot (h.fp f hfp)) hex⟩

/-- a numeric literal either has no dot, or is a decimal literal -/
theorem lit_inv {y : List Char} (hlit : isNumericLiteral y = true) :
    NoDot y ∨ ∃ L : DLex, DecLit L ∧ L.str = y := by
  unfold isNumericLiteral at hlit
  simp only at hlit
  cases hr : radixPrefix (splitSuffix y).1 with
  | some x =>
    obtain ⟨base, r⟩ := x
    rw [hr] at hlit
    simp only at hlit
    left
    obtain ⟨c, hb, hl⟩ := radixPrefix_inv hr
    have hp_ : isDigitOf base '_' = false := by unfold isDigitOf; rfl
    obtain ⟨hall, _⟩ := sepDigits_spec hp_ hlit
    have hb' : NoDot ('0' :: c :: r) := by
      intro x hx
      rcases List.mem_cons.mp hx with e | hx
      · rw [e]; decide
      · rcases List.mem_cons.mp hx with e | hx
        · rw [e]; rcases hl with ⟨e | e, _⟩ | ⟨e | e, _⟩ | ⟨e | e, _⟩ <;> subst e <;> decide
        · rcases hall x hx with e | e
          · intro e'; subst e'; have := (isDigitOf_cases e).1; revert this; decide
          · rw [e]; decide
    cases hbig : (splitSuffix y).2 with
    | true =>
      have hs := splitSuffix_true hbig
      rw [hb] at hs; rw [hs]
      exact noDot_append hb' (by intro x hx; simp at hx; rw [hx]; decide)
    | false =>
      have hs := splitSuffix_false hbig
      rw [hb] at hs; rw [← hs]; exact hb'
  | none =>
    rw [hr] at hlit
    simp only at hlit
    cases hb : (splitSuffix y).2 with
    | true =>
      rw [hb] at hlit
      simp only [if_true] at hlit
      left
      have hs := splitSuffix_true hb
      have hds : AllDS (splitSuffix y).1 := by
        rcases isDecBigInt_spec hlit with e | ⟨c, r, e, _, _, hsd⟩
        · rw [e]; intro c hc; simp at hc; subst hc; left; decide
        · rw [e]; exact (sepDigits_isDigit_spec hsd).1
      rw [hs]
      exact noDot_append (allDS_noDot hds) (by intro x hx; simp at hx; rw [hx]; decide)
    | false =>
      rw [hb] at hlit
      simp only [Bool.false_eq_true, if_false, Bool.or_eq_true] at hlit
      have hs := splitSuffix_false hb
      rw [hs] at hlit
      rcases hlit with hd | ho
      · right
        obtain ⟨L, hL, hdl⟩ := isDecimalLiteral_inv hd
        exact ⟨L, hdl, hL⟩
      · left
        unfold isLegacyOctal at ho
        split at ho
        · rename_i c r
          intro x hx
          rcases List.mem_cons.mp hx with e | hx
          · rw [e]; decide
          · have := List.all_eq_true.mp ho x hx
            intro e; subst e; revert this; decide
        · cases ho

/-- **a numeric literal has at most one dot, and only digits and separators before it** -/
theorem lit_dot {a z : List Char} (hlit : isNumericLiteral (a ++ '.' :: z) = true) :
    AllDS a ∧ NoDot z := by
  rcases lit_inv hlit with hn | ⟨L, hdl, hL⟩
  · exact absurd rfl (hn '.' (by simp))
  · rcases split_first_dot a with ha | ⟨a1, a2, e, ha1⟩
    · exact lex_dot L hdl.shape ha hL
    · exfalso
      subst e
      have he : L.str = a1 ++ '.' :: (a2 ++ '.' :: z) := by rw [hL]; simp
      have := (lex_dot L hdl.shape ha1 he).2
      exact this '.' (by simp) rfl


/-! ## the printer rule -/

theorem digit_range (c : Char) : c.isDigit = true ↔ ('0' ≤ c ∧ c ≤ '9') := by
  rw [isDigit_iff, char_le_iff, char_le_iff]
  have e0 : ('0' : Char).toNat = 48 := by decide
  have e9 : ('9' : Char).toNat = 57 := by decide
  omega

theorem isIntegerChunk_spec (prev : List Char) : isIntegerChunk prev = true ↔ (prev ≠ [] ∧ AllDig prev) := by
  unfold isIntegerChunk
  cases hl : prev.getLast? with
  | none =>
    have : prev = [] := List.getLast?_eq_none_iff.mp hl
    subst this
    simp
  | some last =>
    have hne : prev ≠ [] := by intro e; rw [e] at hl; cases hl
    have hlast : prev.getLast hne = last := by
      rw [List.getLast?_eq_some_getLast hne] at hl; injection hl
    have hsplit : prev = prev.dropLast ++ [last] := by
      have := List.dropLast_concat_getLast hne
      rw [hlast] at this; exact this.symm
    simp only [Bool.and_eq_true, decide_eq_true_eq, List.all_eq_true, Bool.not_eq_true', Bool.or_eq_false_iff,
      decide_eq_false_iff_not]
    constructor
    · rintro ⟨h1, h2⟩
      refine ⟨hne, ?_⟩
      rw [hsplit]
      apply AllDig.append
      · intro c hc
        have := h2 c hc
        rw [digit_range]
        rw [char_lt_iff, char_lt_iff] at this
        rw [char_le_iff, char_le_iff]
        omega
      · intro c hc; simp at hc; subst hc; exact (digit_range _).mpr h1
    · rintro ⟨_, h⟩
      constructor
      · exact (digit_range _).mp (h last (List.mem_of_getLast? hl))
      · intro c hc
        have := (digit_range c).mp (h c (by rw [hsplit]; exact List.mem_append_left _ hc))
        rw [char_le_iff, char_le_iff] at this
        rw [char_lt_iff, char_lt_iff]
        omega

theorem isLegacyLike_snoc_dot {t : List Char} (hne : t ≠ []) (h : isLegacyLike t = false) :
    isLegacyLike (t ++ ['.']) = false := by
  cases t with
  | nil => exact absurd rfl hne
  | cons c r =>
    by_cases hc : c = '0'
    · subst hc
      cases r with
      | nil => rfl
      | cons c2 r2 => exact h
    · exact isLegacyLike_cons_ne _ hc

/-- a printed literal consisting of digits only, followed by a dot, is a literal of the same value -/
theorem digits_dot {t : List Char} (hd : AllDig t) (hne : t ≠ []) (hnl : isLegacyLike t = false) :
    isNumericLiteral (t ++ ['.']) = true ∧ mathValue (t ++ ['.']) = mathValue t ∧
    isBigIntLit (t ++ ['.']) = false ∧ isBigIntLit t = false := by
  have hp1 : (DLex.mk t none none).Plain :=
    { ip := hd, fp := (by intro f hf; cases hf), ex := (by intro c sg d hx; cases hx), ne := Or.inl hne }
  have hp2 : (DLex.mk t (some []) none).Plain :=
    { ip := hd, fp := (by intro f hf; injection hf with hf; subst hf; exact AllDig.nil),
      ex := (by intro c sg d hx; cases hx), ne := Or.inl hne }
  have hs1 : (DLex.mk t none none).str = t := by simp [DLex.str, DLex.dotPart, DLex.exPart]
  have hs2 : (DLex.mk t (some []) none).str = t ++ ['.'] := by simp [DLex.str, DLex.dotPart, DLex.exPart]
  have hn2 : isLegacyLike (DLex.mk t (some []) none).str = false := by rw [hs2]; exact isLegacyLike_snoc_dot hne hnl
  have hn1 : isLegacyLike (DLex.mk t none none).str = false := by rw [hs1]; exact hnl
  have v1 := mathValue_str _ hp1.shape hn1
  have v2 := mathValue_str _ hp2.shape hn2
  have b1 := isBigIntLit_str _ hp1.shape
  have b2 := isBigIntLit_str _ hp2.shape
  have l2 := isNumericLiteral_str _ hp2 hn2
  rw [hs1] at v1 b1
  rw [hs2] at v2 b2 l2
  refine ⟨l2, ?_, b2, b1⟩
  rw [v1, v2]
  rfl

theorem memberDot_some {s name out : List Char} (h : memberDot s name = some out) :
    ∃ t, minifyNumLit s = some t ∧ out = t ++ dotsAfter t ++ name := by
  unfold memberDot at h
  cases ht : minifyNumLit s with
  | none => rw [ht] at h; cases h
  | some t => rw [ht] at h; simp only [Option.map_some] at h; injection h with h; exact ⟨t, rfl, h.symm⟩

/-- **member access after a number**: the output is `lit.name` where `lit` is a numeric literal with the value
    and type of the input literal, and no numeric literal extends over the dot before `name` —
    whatever follows that dot -/
theorem dot_main {s name out : List Char} (hs : isNumericLiteral s = true) (h : memberDot s name = some out) :
    ∃ lit, out = lit ++ '.' :: name ∧ isNumericLiteral lit = true ∧ mathValue lit = mathValue s ∧
      isBigIntLit lit = isBigIntLit s ∧ ∀ x, isNumericLiteral (lit ++ '.' :: x) = false := by
  obtain ⟨t, ht, hout⟩ := memberDot_some h
  obtain ⟨g1, g2, g3, g4, g5⟩ := lit_main hs ht
  have htne : t ≠ [] := by intro e; rw [e] at g1; revert g1; decide
  by_cases hint : isIntegerChunk t = true
  · obtain ⟨_, hd⟩ := (isIntegerChunk_spec t).mp hint
    obtain ⟨d1, d2, d3, d4⟩ := digits_dot hd htne g4
    refine ⟨t ++ ['.'], ?_, d1, by rw [d2, g2], by rw [d3, ← g3, d4], ?_⟩
    · rw [hout]; unfold dotsAfter; rw [if_pos hint]; simp
    · intro x
      cases hx : isNumericLiteral ((t ++ ['.']) ++ '.' :: x) with
      | false => rfl
      | true =>
        exfalso
        have he : (t ++ ['.']) ++ '.' :: x = t ++ '.' :: ('.' :: x) := by simp
        rw [he] at hx
        exact (lit_dot hx).2 '.' (by simp) rfl
  · refine ⟨t, ?_, g1, g2, g3, ?_⟩
    · rw [hout]; unfold dotsAfter; rw [if_neg hint]; simp
    · intro x
      cases hx : isNumericLiteral (t ++ '.' :: x) with
      | false => rfl
      | true =>
        exfalso
        apply hint
        rw [isIntegerChunk_spec]
        refine ⟨htne, ?_⟩
        intro c hc
        rcases (lit_dot hx).1 c hc with e | e
        · exact e
        · exact absurd e (g5 c hc)


/-! ## maximal munch -/

theorem take_length_add (a b : List Char) (m : Nat) : (a ++ b).take (a.length + m) = a ++ b.take m := by
  induction a with
  | nil => simp
  | cons c t ih =>
    have : (c :: t).length + m = (t.length + m) + 1 := by simp; omega
    rw [this, List.cons_append, List.take_succ_cons, ih]; rfl

theorem longestFrom_eq (src : List Char) (k0 : Nat) (hk : 0 < k0)
    (hlit : isNumericLiteral (src.take k0) = true) :
    ∀ n, k0 ≤ n → (∀ j, k0 < j → j ≤ n → isNumericLiteral (src.take j) = false) →
      longestFrom src n = some k0 := by
  intro n
  induction n with
  | zero => intro h; omega
  | succ n ih =>
    intro hle hno
    unfold longestFrom
    by_cases he : k0 = n + 1
    · rw [← he, if_pos hlit]
    · rw [if_neg (by rw [hno (n + 1) (by omega) (Nat.le_refl _)]; simp)]
      exact ih (by omega) (fun j h1 h2 => hno j h1 (by omega))

/-- the tokenizer of the specification on `lit.name`: maximal munch stops after `lit` when no numeric
    literal extends over the dot -/
theorem lexNumericAt_dot {lit name : List Char} (hlit : isNumericLiteral lit = true)
    (hno : ∀ x, isNumericLiteral (lit ++ '.' :: x) = false) :
    lexNumericAt (lit ++ '.' :: name) = some (lit, '.' :: name) := by
  have hne : 0 < lit.length := by
    cases lit with
    | nil => revert hlit; decide
    | cons _ _ => simp
  have htake : (lit ++ '.' :: name).take lit.length = lit := by
    simp
  have hlong : longestLitPrefix (lit ++ '.' :: name) = some lit.length := by
    unfold longestLitPrefix
    apply longestFrom_eq _ _ hne (by rw [htake]; exact hlit) _ (by simp)
    intro j h1 h2
    obtain ⟨m, hm⟩ : ∃ m, j = lit.length + (m + 1) := ⟨j - lit.length - 1, by omega⟩
    rw [hm, take_length_add]
    simp only [List.take_succ_cons]
    exact hno _
  unfold lexNumericAt
  rw [hlong]
  simp only
  have hdrop : (lit ++ '.' :: name).drop lit.length = '.' :: name := by simp
  rw [hdrop, htake]
  rfl

end Verif.Proofs.JsNumber

import Verif.Spec.C09XmlLex
import Verif.Proofs.Xml
/-!
# C09 (XML) — the independent tokeniser reads a serialised token stream back (specification side only)

`lex_roundtrip`: for every token stream in reader's view that follows the grammar `canonOk`, the tokeniser
`xmlTokens` applied to its bytes returns exactly that stream.  Nothing here mentions the model of `xml.go`.
-/
namespace Verif.Proofs.C09XmlLex
open Verif.Xml (XTok)
open Verif.Spec.Xml
open Verif.Spec.C09XmlLex
open Verif.Proofs.Xml (takeWhile_append_stop drop_length_append eq_dropLast_append)

/-! ## lists, prefixes -/

theorem takeWhile_all {α} (p : α → Bool) (l : List α) (hl : ∀ x ∈ l, p x = true) : l.takeWhile p = l := by
  induction l with
  | nil => rfl
  | cons a l ih =>
    simp only [List.takeWhile_cons, hl a (by simp), if_true]
    rw [ih (fun x hx => hl x (by simp [hx]))]

/-- `takeWhile` over `l ++ X` when `X` is empty or starts with a stopping element -/
theorem takeWhile_append_stops {α} (p : α → Bool) (l X : List α) (hl : ∀ x ∈ l, p x = true)
    (hX : ∀ c ∈ X.head?, p c = false) : (l ++ X).takeWhile p = l := by
  cases X with
  | nil => simpa using takeWhile_all p l hl
  | cons c X => exact takeWhile_append_stop p l c X hl (hX c (by simp))

theorem stripPrefix_append (p r : List Char) : stripPrefix p (p ++ r) = some r := by
  simp [stripPrefix]

theorem stripPrefix_some (p s w : List Char) (h : stripPrefix p s = some w) : s = p ++ w := by
  unfold stripPrefix at h
  split at h
  · next hp =>
    simp only [Option.some.injEq] at h
    subst h
    have := List.isPrefixOf_iff_prefix.mp hp
    exact (List.prefix_iff_eq_append.mp this).symm
  · simp at h

/-! ## delimiters -/

theorem split2_cons (a b c : Char) (r : List Char) :
    split2 a b (c :: r) = if starts2 a b (c :: r) then some ([], r.drop 1)
      else (split2 a b r).map (fun p => (c :: p.1, p.2)) := rfl

theorem split2_spec (a b : Char) (body rest : List Char) (h : has2 a b body = false)
    (hab : a ≠ b ∨ body.getLast? ≠ some a) :
    split2 a b (body ++ a :: b :: rest) = some (body, rest) := by
  induction body with
  | nil => simp [split2_cons, starts2]
  | cons c r ih =>
    simp only [has2, Bool.or_eq_false_iff] at h
    cases r with
    | nil =>
      have hs : starts2 a b (c :: a :: b :: rest) = false := by
        simp only [starts2, Bool.and_eq_false_iff, beq_eq_false_iff_ne]
        by_cases hc : c = a
        · right
          rcases hab with h1 | h1
          · exact h1
          · simp [hc] at h1
        · left; exact hc
      have ih' := ih (by simp [has2]) (by
        rcases hab with h1 | _
        · exact Or.inl h1
        · right; simp)
      simp only [List.nil_append] at ih'
      simp only [List.cons_append, List.nil_append]
      rw [split2_cons, hs, ih']
      rfl
    | cons d r' =>
      have hs : starts2 a b (c :: d :: (r' ++ a :: b :: rest)) = false := by
        have := h.1
        simpa [starts2] using this
      have ih' := ih h.2 (by
        rcases hab with h1 | h1
        · exact Or.inl h1
        · right; simpa [List.getLast?_cons_cons] using h1)
      simp only [List.cons_append] at ih' ⊢
      rw [split2_cons, hs, ih']
      rfl

theorem splitCdEnd_cons (c : Char) (r : List Char) :
    splitCdEnd (c :: r) = if startsCdEnd (c :: r) then some ([], r.drop 2)
      else (splitCdEnd r).map (fun p => (c :: p.1, p.2)) := rfl

theorem startsCdEnd3 (c d e : Char) (X Y : List Char) :
    startsCdEnd (c :: d :: e :: X) = startsCdEnd (c :: d :: e :: Y) := by
  by_cases hc : c = ']'
  · subst hc
    by_cases hd : d = ']'
    · subst hd
      by_cases he : e = '>'
      · subst he; rfl
      · rw [Verif.Proofs.Xml.sc3 e _ he, Verif.Proofs.Xml.sc3 e _ he]
    · rw [Verif.Proofs.Xml.sc2 d _ hd, Verif.Proofs.Xml.sc2 d _ hd]
  · rw [Verif.Proofs.Xml.sc1 c _ hc, Verif.Proofs.Xml.sc1 c _ hc]

theorem splitCdEnd_spec (t rest : List Char) (h : hasCdEnd t = false) :
    splitCdEnd (t ++ ']' :: ']' :: '>' :: rest) = some (t, rest) := by
  induction t with
  | nil => simp [splitCdEnd_cons, startsCdEnd]
  | cons c r ih =>
    simp only [hasCdEnd, Bool.or_eq_false_iff] at h
    have ih' := ih h.2
    have hs : startsCdEnd (c :: (r ++ ']' :: ']' :: '>' :: rest)) = false := by
      cases r with
      | nil =>
        by_cases hc : c = ']'
        · subst hc; simp [startsCdEnd]
        · exact Verif.Proofs.Xml.sc1 c _ hc
      | cons d r' =>
        cases r' with
        | nil =>
          by_cases hc : c = ']'
          · subst hc
            by_cases hd : d = ']'
            · subst hd; simp [startsCdEnd]
            · exact Verif.Proofs.Xml.sc2 d _ hd
          · exact Verif.Proofs.Xml.sc1 c _ hc
        | cons e r'' =>
          have := h.1
          simp only [List.cons_append]
          rw [startsCdEnd3 c d e _ r'']
          exact this
    simp only [List.cons_append]
    rw [splitCdEnd_cons, hs, ih']
    rfl

theorem dtScan_append (d rest : List Char) : ∀ st, dtScan st d = some [] → dtScan st (d ++ rest) = some rest := by
  induction d with
  | nil => intro st h; simp [dtScan] at h
  | cons c r ih =>
    intro st h
    simp only [dtScan, List.cons_append] at h ⊢
    cases hs : dtStep st c with
    | none => simp [hs] at h
    | some x =>
      cases x with
      | none =>
        simp only [hs, Option.some.injEq] at h
        subst h
        simp
      | some st' =>
        simp only [hs] at h ⊢
        exact ih st' h

/-! ## names -/

theorem nameStart_nameChar (c : Char) (h : isNameStart c = true) : isNameChar c = true := by
  simp only [isNameStart, Bool.or_eq_true] at h
  simp only [isNameChar, Bool.or_eq_true]
  rcases h with ((h | h) | h) | h
  · exact Or.inl (Or.inl (Or.inl (Or.inl (Or.inl (Or.inl h)))))
  · exact Or.inl (Or.inl (Or.inr h))
  · exact Or.inl (Or.inr h)
  · exact Or.inr h

theorem isName_all (n : List Char) (h : isName n = true) : ∀ c ∈ n, isNameChar c = true := by
  cases n with
  | nil => simp [isName] at h
  | cons c r =>
    simp only [isName, Bool.and_eq_true, List.all_eq_true] at h
    intro x hx
    simp only [List.mem_cons] at hx
    rcases hx with rfl | hx
    · exact nameStart_nameChar _ h.1
    · exact h.2 x hx

/-- a `Name` followed by nothing or by a byte that is not a name character is taken as a whole -/
theorem takeName_append (n X : List Char) (hn : isName n = true) (hX : ∀ c ∈ X.head?, isNameChar c = false) :
    takeName (n ++ X) = some (n, X) := by
  have ht : (n ++ X).takeWhile isNameChar = n := takeWhile_append_stops _ n X (isName_all n hn) hX
  simp only [takeName, ht, hn, if_true, drop_length_append]

theorem nameStart_facts (c : Char) (h : isNameStart c = true) :
    c ≠ '!' ∧ c ≠ '?' ∧ c ≠ '/' ∧ c ≠ '>' ∧ c ≠ '<' ∧ isS c = false := by
  refine ⟨?_, ?_, ?_, ?_, ?_, ?_⟩ <;>
    first
    | (intro hc; subst hc; revert h; decide)
    | (cases hs : isS c with
       | false => rfl
       | true =>
         simp only [isS, Bool.or_eq_true, beq_iff_eq] at hs
         rcases hs with ((rfl | rfl) | rfl) | rfl <;> revert h <;> decide)

theorem isS_not_nameChar (c : Char) (h : isS c = true) : isNameChar c = false := by
  simp only [isS, Bool.or_eq_true, beq_iff_eq] at h
  rcases h with ((rfl | rfl) | rfl) | rfl <;> decide


/-! ## single steps of the tokeniser on serialised tokens -/

theorem wfChars_no_lt (d : List Char) (h : wfChars d = true) : ∀ x ∈ d, (x != '<') = true := by
  simp only [wfChars, Bool.and_eq_true, Bool.not_eq_true', List.contains_eq_mem, decide_eq_false_iff_not] at h
  intro x hx
  simp only [bne_iff_ne, ne_eq]
  intro hc; subst hc; exact h.1.1 hx

theorem contentStep_text (d X : List Char) (hne : d ≠ []) (hw : wfChars d = true)
    (hX : ∀ c ∈ X.head?, c = '<') :
    contentStep (d ++ X) = some ([.text d], false, X) := by
  have hno := wfChars_no_lt d hw
  have ht : (d ++ X).takeWhile (· != '<') = d :=
    takeWhile_append_stops _ d X hno (by intro c hc; rw [hX c hc]; rfl)
  cases d with
  | nil => exact absurd rfl hne
  | cons c d' =>
    have hc : (c == '<') = false := by
      have := hno c (by simp)
      simpa [bne] using this
    simp only [List.cons_append] at ht ⊢
    simp only [contentStep, hc, Bool.false_eq_true, if_false, ht, hw, if_true]
    simp

theorem markupStep_comment (body X : List Char) (hb : commentBodyOk body = true) :
    markupStep ('!' :: '-' :: '-' :: (body ++ '-' :: '-' :: '>' :: X)) =
      some ([.comment (commentOpen ++ body ++ commentClose)], false, X) := by
  simp only [commentBodyOk, Bool.and_eq_true, Bool.not_eq_true', bne_iff_ne, ne_eq] at hb
  have h1 : stripPrefix ['-', '-'] ('-' :: '-' :: (body ++ '-' :: '-' :: '>' :: X)) =
      some (body ++ '-' :: '-' :: '>' :: X) := stripPrefix_append ['-', '-'] _
  have h2 := split2_spec '-' '-' body ('>' :: X) hb.1 (Or.inr hb.2)
  simp only [markupStep, beq_self_eq_true, if_true, h1, h2]

theorem markupStep_cdata (t X : List Char) (h1 : hasCdEnd t = false) (h2 : t.all legalByte = true) :
    markupStep ('!' :: '[' :: 'C' :: 'D' :: 'A' :: 'T' :: 'A' :: '[' :: (t ++ ']' :: ']' :: '>' :: X)) =
      some ([.cdata (cdataOpen ++ t ++ cdataClose) t], false, X) := by
  have s1 : stripPrefix ['-', '-'] ('[' :: 'C' :: 'D' :: 'A' :: 'T' :: 'A' :: '[' :: (t ++ ']' :: ']' :: '>' :: X)) = none := by
    simp [stripPrefix, List.isPrefixOf]
  have s2 : stripPrefix ['[', 'C', 'D', 'A', 'T', 'A', '['] ('[' :: 'C' :: 'D' :: 'A' :: 'T' :: 'A' :: '[' :: (t ++ ']' :: ']' :: '>' :: X)) =
      some (t ++ ']' :: ']' :: '>' :: X) := stripPrefix_append ['[', 'C', 'D', 'A', 'T', 'A', '['] _
  simp only [markupStep, beq_self_eq_true, if_true, s1, s2, splitCdEnd_spec t X h1, h2]

theorem markupStep_doctype (b X : List Char) (h : dtScan .top b = some []) :
    markupStep ('!' :: 'D' :: 'O' :: 'C' :: 'T' :: 'Y' :: 'P' :: 'E' :: (b ++ X)) =
      some ([.doctype (doctypeOpen ++ b)], false, X) := by
  have s1 : stripPrefix ['-', '-'] ('D' :: 'O' :: 'C' :: 'T' :: 'Y' :: 'P' :: 'E' :: (b ++ X)) = none := by
    simp [stripPrefix, List.isPrefixOf]
  have s2 : stripPrefix ['[', 'C', 'D', 'A', 'T', 'A', '['] ('D' :: 'O' :: 'C' :: 'T' :: 'Y' :: 'P' :: 'E' :: (b ++ X)) = none := by
    simp [stripPrefix, List.isPrefixOf]
  have s3 : stripPrefix ['D', 'O', 'C', 'T', 'Y', 'P', 'E'] ('D' :: 'O' :: 'C' :: 'T' :: 'Y' :: 'P' :: 'E' :: (b ++ X)) =
      some (b ++ X) := stripPrefix_append ['D', 'O', 'C', 'T', 'Y', 'P', 'E'] _
  have s4 : (b ++ X).take ((b ++ X).length - X.length) = b := by
    simp
  simp only [markupStep, beq_self_eq_true, if_true, s1, s2, s3, dtScan_append b X .top h, s4]

theorem markupStep_pi (n d X : List Char) (hn : isName n = true) (hd : piDataOk d = true) :
    markupStep ('?' :: (n ++ d ++ '?' :: '>' :: X)) =
      some (.startTagPI n :: (if d.isEmpty then [] else [.attrBare d d]) ++ [.startTagClosePI], false, X) := by
  have hd' := hd
  simp only [piDataOk, Bool.and_eq_true, Bool.not_eq_true'] at hd'
  have h1 : takeName (n ++ (d ++ '?' :: '>' :: X)) = some (n, d ++ '?' :: '>' :: X) := by
    apply takeName_append n _ hn
    intro c hc
    cases d with
    | nil => simp at hc; subst hc; rfl
    | cons e d' =>
      simp at hc; subst hc
      exact isS_not_nameChar _ hd'.1
  have h2 := split2_spec '?' '>' d X hd'.2 (Or.inl (by decide))
  have hq : ('?' == '!') = false := by decide
  simp only [markupStep, hq, Bool.false_eq_true, if_false, beq_self_eq_true, if_true, List.append_assoc, h1, h2, hd]

theorem markupStep_endTag (n ws X : List Char) (hn : isName n = true) (hw : ∀ c ∈ ws, isS c = true) :
    markupStep ('/' :: (n ++ ws ++ '>' :: X)) = some ([.endTag ('<' :: '/' :: (n ++ ws ++ ['>'])) n], false, X) := by
  have h1 : takeName (n ++ (ws ++ '>' :: X)) = some (n, ws ++ '>' :: X) := by
    apply takeName_append n _ hn
    intro c hc
    cases ws with
    | nil => simp at hc; subst hc; rfl
    | cons e w' =>
      simp at hc; subst hc
      exact isS_not_nameChar _ (hw _ (by simp))
  have h2 : (ws ++ '>' :: X).takeWhile isS = ws := takeWhile_append_stop isS ws '>' X hw (by decide)
  have h3 : (ws ++ '>' :: X).drop ws.length = '>' :: X := drop_length_append ws _
  have q1 : ('/' == '!') = false := by decide
  have q2 : ('/' == '?') = false := by decide
  simp only [markupStep, q1, q2, Bool.false_eq_true, if_false, beq_self_eq_true, if_true, List.append_assoc, h1, h2, h3]

theorem markupStep_startTag (n X : List Char) (hn : isName n = true) (hX : ∀ c ∈ X.head?, isNameChar c = false) :
    markupStep (n ++ X) = some ([.startTag n], true, X) := by
  have h1 := takeName_append n X hn hX
  cases n with
  | nil => simp [isName] at hn
  | cons c n' =>
    have hc : isNameStart c = true := by
      simp only [isName, Bool.and_eq_true] at hn; exact hn.1
    obtain ⟨f1, f2, f3, _, _, _⟩ := nameStart_facts c hc
    have q1 : (c == '!') = false := by simpa using f1
    have q2 : (c == '?') = false := by simpa using f2
    have q3 : (c == '/') = false := by simpa using f3
    simp only [List.cons_append] at h1 ⊢
    simp only [markupStep, q1, q2, q3, Bool.false_eq_true, if_false, h1]


theorem skipS_nonS (c : Char) (X : List Char) (h : isS c = false) : skipS (c :: X) = c :: X := by
  simp [skipS, h]

/-- a well-formed attribute value literal is a quote, a body without that quote, the quote -/
theorem wfAttr_shape (v : List Char) (h : wfAttr v = true) :
    ∃ q body, v = q :: (body ++ [q]) ∧ (q = '"' ∨ q = '\'') ∧ (∀ x ∈ body, (x != q) = true) ∧ attBodyOk body = true := by
  unfold wfAttr at h
  cases hu : unquote v with
  | none => simp [hu] at h
  | some p =>
    obtain ⟨q, body⟩ := p
    simp only [hu, Bool.and_eq_true, Bool.not_eq_true', List.contains_eq_mem, decide_eq_false_iff_not] at h
    unfold unquote at hu
    cases v with
    | nil => simp at hu
    | cons q' rest =>
      simp only at hu
      split at hu
      · next hq =>
        simp only [Option.some.injEq, Prod.mk.injEq] at hu
        obtain ⟨rfl, rfl⟩ := hu
        simp only [Bool.and_eq_true, Bool.or_eq_true, beq_iff_eq] at hq
        refine ⟨q', rest.dropLast, ?_, hq.1, ?_, ?_⟩
        · rw [← eq_dropLast_append rest q' hq.2]
        · intro x hx
          simp only [bne_iff_ne, ne_eq]
          intro hc; subst hc; exact h.1.2 hx
        · simp only [attBodyOk, Bool.and_eq_true, Bool.not_eq_true', List.contains_eq_mem, decide_eq_false_iff_not]
          exact ⟨h.1.1, h.2⟩
      · simp at hu

theorem takeAttValue_spec (q : Char) (body X : List Char) (hq : q = '"' ∨ q = '\'')
    (hb : ∀ x ∈ body, (x != q) = true) (hok : attBodyOk body = true) :
    takeAttValue (q :: (body ++ q :: X)) = some (q :: (body ++ [q]), X) := by
  have hq' : (q == '"' || q == '\'') = true := by
    rcases hq with rfl | rfl <;> decide
  have h1 : (body ++ q :: X).takeWhile (· != q) = body := takeWhile_append_stop _ body q X hb (by simp)
  have h2 : (body ++ q :: X).drop body.length = q :: X := drop_length_append body _
  simp only [takeAttValue, hq', if_true, h1, h2, hok]

theorem tagStep_attr_aux (c : Char) (n' : List Char) (q : Char) (body X : List Char) (hn : isName (c :: n') = true)
    (hq : q = '"' ∨ q = '\'') (hb : ∀ x ∈ body, (x != q) = true) (hok : attBodyOk body = true) :
    tagStep (' ' :: c :: (n' ++ '=' :: q :: (body ++ q :: X))) = some (.attr (c :: n') (q :: (body ++ [q])), true, X) := by
  have hc : isNameStart c = true := by
    simp only [isName, Bool.and_eq_true] at hn; exact hn.1
  obtain ⟨_, _, f3, f4, _, f6⟩ := nameStart_facts c hc
  have q3 : (c == '/') = false := by simpa using f3
  have q4 : (c == '>') = false := by simpa using f4
  generalize hZ : n' ++ '=' :: q :: (body ++ q :: X) = Z
  have w1 : (' ' :: c :: Z).takeWhile isS = [' '] := by
    rw [List.takeWhile_cons, List.takeWhile_cons, f6]
    simp only [Bool.false_eq_true, if_false]
    rfl
  have h1 : takeName (c :: Z) = some (c :: n', '=' :: q :: (body ++ q :: X)) := by
    rw [← hZ]
    exact takeName_append (c :: n') _ hn (by intro x hx; simp at hx; subst hx; rfl)
  have h2 : skipS ('=' :: q :: (body ++ q :: X)) = '=' :: q :: (body ++ q :: X) := skipS_nonS _ _ (by decide)
  have hqS : isS q = false := by rcases hq with rfl | rfl <;> decide
  have h3 : skipS (q :: (body ++ q :: X)) = q :: (body ++ q :: X) := skipS_nonS _ _ hqS
  have h4 := takeAttValue_spec q body X hq hb hok
  simp only [tagStep, w1, List.length_singleton, List.drop_succ_cons, List.drop_zero, q3, q4,
    Bool.false_eq_true, if_false, List.isEmpty_cons, h1, h2, beq_self_eq_true, if_true, h3, h4]

theorem tagStep_attr (n v X : List Char) (hn : isName n = true) (hv : wfAttr v = true) :
    tagStep (' ' :: (n ++ '=' :: (v ++ X))) = some (.attr n v, true, X) := by
  obtain ⟨q, body, rfl, hq, hb, hok⟩ := wfAttr_shape v hv
  cases n with
  | nil => simp [isName] at hn
  | cons c n' =>
    have := tagStep_attr_aux c n' q body X hn hq hb hok
    simpa using this

theorem tagStep_close (X : List Char) : tagStep ('>' :: X) = some (.startTagClose, false, X) := by
  have w1 : ('>' :: X).takeWhile isS = [] := by simp [isS]
  simp only [tagStep, w1, List.length_nil, List.drop_zero, beq_self_eq_true, if_true]

theorem tagStep_void (X : List Char) : tagStep ('/' :: '>' :: X) = some (.startTagCloseVoid, false, X) := by
  have w1 : ('/' :: '>' :: X).takeWhile isS = [] := by simp [isS]
  have q : ('/' == '>') = false := by decide
  simp only [tagStep, w1, List.length_nil, List.drop_zero, q, Bool.false_eq_true, if_false, beq_self_eq_true, if_true]


/-! ## what the token contracts say -/

theorem commentOk_shape (d : List Char) (h : commentOk d = true) :
    ∃ body, d = commentOpen ++ body ++ commentClose ∧ commentBodyOk body = true := by
  unfold commentOk at h
  cases hs : stripPrefix commentOpen d with
  | none => simp [hs] at h
  | some b =>
    simp only [hs, Bool.and_eq_true, decide_eq_true_eq, beq_iff_eq] at h
    refine ⟨b.take (b.length - 3), ?_, h.2⟩
    have := stripPrefix_some _ _ _ hs
    rw [this, List.append_assoc, ← h.1.2, List.take_append_drop]

theorem cdataOk_shape (d t : List Char) (h : cdataOk d t = true) :
    d = cdataOpen ++ t ++ cdataClose ∧ hasCdEnd t = false ∧ t.all legalByte = true := by
  simp only [cdataOk, Bool.and_eq_true, beq_iff_eq, Bool.not_eq_true'] at h
  exact ⟨h.1.1, h.1.2, h.2⟩

theorem doctypeOk_shape (d : List Char) (h : doctypeOk d = true) :
    ∃ b, d = doctypeOpen ++ b ∧ dtScan .top b = some [] := by
  unfold doctypeOk at h
  cases hs : stripPrefix doctypeOpen d with
  | none => simp [hs] at h
  | some b =>
    simp only [hs, beq_iff_eq] at h
    exact ⟨b, stripPrefix_some _ _ _ hs, h⟩

theorem endTagOk_shape (d n : List Char) (h : endTagOk d n = true) :
    isName n = true ∧ ∃ ws, d = '<' :: '/' :: (n ++ ws ++ ['>']) ∧ ∀ c ∈ ws, isS c = true := by
  unfold endTagOk at h
  simp only [Bool.and_eq_true] at h
  refine ⟨h.1, ?_⟩
  cases hs : stripPrefix ('<' :: '/' :: n) d with
  | none => simp [hs] at h
  | some w =>
    have h2 := h.2
    simp only [hs, Bool.and_eq_true, beq_iff_eq, List.all_eq_true] at h2
    refine ⟨w.dropLast, ?_, h2.2⟩
    have := stripPrefix_some _ _ _ hs
    rw [this, List.append_assoc, ← eq_dropLast_append w '>' h2.1]
    rfl

theorem bytesOf_cons (t : XTok) (r : List XTok) : bytesOf (t :: r) = tokBytes t ++ bytesOf r := by
  simp [bytesOf]

/-- in content, what follows a run of character data starts with `<` -/
theorem canon_content_head (r : List XTok) (h : canonOk false r = true) (hn : nextIsText r = false) :
    ∀ c ∈ (bytesOf r).head?, c = '<' := by
  cases r with
  | nil => simp [bytesOf]
  | cons t r' =>
    rw [bytesOf_cons]
    cases t with
    | text d => simp [nextIsText] at hn
    | comment d =>
      simp only [canonOk, Bool.and_eq_true] at h
      obtain ⟨body, rfl, _⟩ := commentOk_shape d h.1
      simp [tokBytes, commentOpen]
    | cdata d t =>
      simp only [canonOk, Bool.and_eq_true] at h
      obtain ⟨rfl, _, _⟩ := cdataOk_shape d t h.1
      simp [tokBytes, cdataOpen]
    | doctype d =>
      simp only [canonOk, Bool.and_eq_true] at h
      obtain ⟨b, rfl, _⟩ := doctypeOk_shape d h.1
      simp [tokBytes, doctypeOpen]
    | endTag d n =>
      simp only [canonOk, Bool.and_eq_true] at h
      obtain ⟨_, ws, rfl, _⟩ := endTagOk_shape d n h.1
      simp [tokBytes]
    | startTag n => simp [tokBytes]
    | startTagPI n => simp [tokBytes]
    | attr n v => simp [canonOk] at h
    | attrBare d n => simp [canonOk] at h
    | startTagClose => simp [canonOk] at h
    | startTagCloseVoid => simp [canonOk] at h
    | startTagClosePI => simp [canonOk] at h

/-- inside a start tag, what follows starts with a byte that is not a name character -/
theorem canon_tag_head (r : List XTok) (h : canonOk true r = true) :
    ∀ c ∈ (bytesOf r).head?, isNameChar c = false := by
  cases r with
  | nil => simp [canonOk] at h
  | cons t r' =>
    rw [bytesOf_cons]
    cases t <;> first | (simp [canonOk] at h; done) | (simp [tokBytes]; try decide)


/-! ## the round trip -/

theorem lexGo_content (f : Nat) (s : List Char) (toks : List XTok) (tg : Bool) (rest : List Char)
    (h : contentStep s = some (toks, tg, rest)) :
    lexGo (f + 1) false s = (lexGo f tg rest).map (fun k => toks ++ k) := by
  cases s with
  | nil => simp [contentStep] at h
  | cons c r => simp only [lexGo, h]

theorem lexGo_tag (f : Nat) (s : List Char) (tok : XTok) (tg : Bool) (rest : List Char)
    (h : tagStep s = some (tok, tg, rest)) :
    lexGo (f + 1) true s = (lexGo f tg rest).map (fun k => tok :: k) := by
  cases s with
  | nil => simp [tagStep] at h
  | cons c r => simp only [lexGo, h]

theorem contentStep_markup (r : List Char) : contentStep ('<' :: r) = markupStep r := by
  simp [contentStep]

theorem lexGo_canon : ∀ (f : Nat) (tg : Bool) (vs : List XTok), canonOk tg vs = true → (bytesOf vs).length < f →
    lexGo f tg (bytesOf vs) = some vs := by
  intro f
  induction f with
  | zero => intro tg vs _ hl; omega
  | succ f ih =>
    intro tg vs h hl
    cases vs with
    | nil =>
      cases tg with
      | false => simp [bytesOf, lexGo]
      | true => simp [canonOk] at h
    | cons t r =>
      rw [bytesOf_cons] at hl ⊢
      cases tg with
      | false =>
        cases t with
        | text d =>
          simp only [canonOk, Bool.and_eq_true, Bool.not_eq_true', List.isEmpty_eq_false_iff] at h
          obtain ⟨⟨⟨hne, hw⟩, hnt⟩, hr⟩ := h
          have hs := contentStep_text d (bytesOf r) hne hw (canon_content_head r hr hnt)
          have hlr : (bytesOf r).length < f := by
            have := List.length_pos_iff.mpr hne
            simp only [tokBytes, List.length_append] at hl; omega
          simp only [tokBytes]
          rw [lexGo_content f _ _ _ _ hs, ih false r hr hlr]
          rfl
        | comment d =>
          simp only [canonOk, Bool.and_eq_true] at h
          obtain ⟨body, rfl, hb⟩ := commentOk_shape d h.1
          have hs := markupStep_comment body (bytesOf r) hb
          rw [← contentStep_markup] at hs
          have hbytes : tokBytes (.comment (commentOpen ++ body ++ commentClose)) ++ bytesOf r =
              '<' :: '!' :: '-' :: '-' :: (body ++ '-' :: '-' :: '>' :: bytesOf r) := by
            simp [tokBytes, commentOpen, commentClose]
          have hlr : (bytesOf r).length < f := by
            simp only [hbytes, List.length_cons, List.length_append] at hl; omega
          rw [hbytes, lexGo_content f _ _ _ _ hs, ih false r h.2 hlr]
          rfl
        | cdata d t =>
          simp only [canonOk, Bool.and_eq_true] at h
          obtain ⟨rfl, h1, h2⟩ := cdataOk_shape d t h.1
          have hs := markupStep_cdata t (bytesOf r) h1 h2
          rw [← contentStep_markup] at hs
          have hbytes : tokBytes (.cdata (cdataOpen ++ t ++ cdataClose) t) ++ bytesOf r =
              '<' :: '!' :: '[' :: 'C' :: 'D' :: 'A' :: 'T' :: 'A' :: '[' :: (t ++ ']' :: ']' :: '>' :: bytesOf r) := by
            simp [tokBytes, cdataOpen, cdataClose]
          have hlr : (bytesOf r).length < f := by
            simp only [hbytes, List.length_cons, List.length_append] at hl; omega
          rw [hbytes, lexGo_content f _ _ _ _ hs, ih false r h.2 hlr]
          rfl
        | doctype d =>
          simp only [canonOk, Bool.and_eq_true] at h
          obtain ⟨b, rfl, hb⟩ := doctypeOk_shape d h.1
          have hs := markupStep_doctype b (bytesOf r) hb
          rw [← contentStep_markup] at hs
          have hbytes : tokBytes (.doctype (doctypeOpen ++ b)) ++ bytesOf r =
              '<' :: '!' :: 'D' :: 'O' :: 'C' :: 'T' :: 'Y' :: 'P' :: 'E' :: (b ++ bytesOf r) := by
            simp [tokBytes, doctypeOpen]
          have hlr : (bytesOf r).length < f := by
            simp only [hbytes, List.length_cons, List.length_append] at hl; omega
          rw [hbytes, lexGo_content f _ _ _ _ hs, ih false r h.2 hlr]
          rfl
        | endTag d n =>
          simp only [canonOk, Bool.and_eq_true] at h
          obtain ⟨hn, ws, rfl, hws⟩ := endTagOk_shape d n h.1
          have hs := markupStep_endTag n ws (bytesOf r) hn hws
          rw [← contentStep_markup] at hs
          have hbytes : tokBytes (.endTag ('<' :: '/' :: (n ++ ws ++ ['>'])) n) ++ bytesOf r =
              '<' :: '/' :: (n ++ ws ++ '>' :: bytesOf r) := by
            simp [tokBytes]
          have hlr : (bytesOf r).length < f := by
            simp only [hbytes, List.length_cons, List.length_append] at hl; omega
          rw [hbytes, lexGo_content f _ _ _ _ hs, ih false r h.2 hlr]
          rfl
        | startTag n =>
          simp only [canonOk, Bool.and_eq_true] at h
          have hs := markupStep_startTag n (bytesOf r) h.1 (canon_tag_head r h.2)
          rw [← contentStep_markup] at hs
          have hbytes : tokBytes (.startTag n) ++ bytesOf r = '<' :: (n ++ bytesOf r) := by simp [tokBytes]
          have hlr : (bytesOf r).length < f := by
            simp only [hbytes, List.length_cons, List.length_append] at hl; omega
          rw [hbytes, lexGo_content f _ _ _ _ hs, ih true r h.2 hlr]
          rfl
        | startTagPI n =>
          cases r with
          | nil => simp [canonOk] at h
          | cons t2 r2 =>
            cases t2 with
            | startTagClosePI =>
              simp only [canonOk, Bool.and_eq_true] at h
              have hs := markupStep_pi n [] (bytesOf r2) h.1 (by decide)
              rw [← contentStep_markup] at hs
              have hbytes : tokBytes (.startTagPI n) ++ bytesOf (.startTagClosePI :: r2) =
                  '<' :: '?' :: (n ++ [] ++ '?' :: '>' :: bytesOf r2) := by
                simp [tokBytes, bytesOf_cons]
              have hlr : (bytesOf r2).length < f := by
                simp only [hbytes, List.length_cons, List.length_append] at hl; omega
              rw [hbytes, lexGo_content f _ _ _ _ hs, ih false r2 h.2 hlr]
              rfl
            | attrBare d d' =>
              cases r2 with
              | nil => simp [canonOk] at h
              | cons t3 r3 =>
                cases t3 with
                | startTagClosePI =>
                  simp only [canonOk, Bool.and_eq_true, beq_iff_eq, Bool.not_eq_true'] at h
                  obtain ⟨⟨⟨⟨hn, rfl⟩, hne⟩, hd⟩, hr⟩ := h
                  have hs := markupStep_pi n d (bytesOf r3) hn hd
                  rw [← contentStep_markup] at hs
                  have hbytes : tokBytes (.startTagPI n) ++ bytesOf (.attrBare d d :: .startTagClosePI :: r3) =
                      '<' :: '?' :: (n ++ d ++ '?' :: '>' :: bytesOf r3) := by
                    simp [tokBytes, bytesOf_cons]
                  have hlr : (bytesOf r3).length < f := by
                    simp only [hbytes, List.length_cons, List.length_append] at hl; omega
                  rw [hbytes, lexGo_content f _ _ _ _ hs, ih false r3 hr hlr]
                  simp [hne]
                | _ => simp [canonOk] at h
            | _ => simp [canonOk] at h
        | _ => simp [canonOk] at h
      | true =>
        cases t with
        | attr n v =>
          simp only [canonOk, Bool.and_eq_true] at h
          have hs := tagStep_attr n v (bytesOf r) h.1.1 h.1.2
          have hbytes : tokBytes (.attr n v) ++ bytesOf r = ' ' :: (n ++ '=' :: (v ++ bytesOf r)) := by
            simp [tokBytes]
          have hlr : (bytesOf r).length < f := by
            simp only [hbytes, List.length_cons, List.length_append] at hl; omega
          rw [hbytes, lexGo_tag f _ _ _ _ hs, ih true r h.2 hlr]
          rfl
        | startTagClose =>
          simp only [canonOk] at h
          have hs := tagStep_close (bytesOf r)
          have hbytes : tokBytes .startTagClose ++ bytesOf r = '>' :: bytesOf r := by simp [tokBytes]
          have hlr : (bytesOf r).length < f := by
            simp only [hbytes, List.length_cons] at hl; omega
          rw [hbytes, lexGo_tag f _ _ _ _ hs, ih false r h hlr]
          rfl
        | startTagCloseVoid =>
          simp only [canonOk] at h
          have hs := tagStep_void (bytesOf r)
          have hbytes : tokBytes .startTagCloseVoid ++ bytesOf r = '/' :: '>' :: bytesOf r := by simp [tokBytes]
          have hlr : (bytesOf r).length < f := by
            simp only [hbytes, List.length_cons] at hl; omega
          rw [hbytes, lexGo_tag f _ _ _ _ hs, ih false r h hlr]
          rfl
        | _ => simp [canonOk] at h

/-- **lex_roundtrip**: a token stream in reader's view that follows the grammar `canonOk` is read back from its
bytes exactly (every token ends where it was meant to end, nothing is merged or split). -/
theorem lex_roundtrip (vs : List XTok) (h : canonOk false vs = true) : xmlTokens (bytesOf vs) = some vs :=
  lexGo_canon _ false vs h (Nat.lt_succ_self _)


/-! ## the grammar of C06 (`WfText`, `WfAttrVal`: sequences of units) implies the Boolean checks of the tokeniser -/

open Verif.Proofs.Xml (flat_cons flat_append decodeText_flat normAttr_flat ref_chars_avoid ref_chars_noquote unquote_wrap)

theorem legal_lit (c : Char) (h : litOk c = true) (a : Bool) : legalD ((XUnit.lit c).val a) = true := by
  simp only [litOk, Bool.and_eq_true, Bool.or_eq_true, decide_eq_true_eq] at h
  have hS : ∀ c : Char, isS c = true → legalD (lit c) = true := by
    intro c hc
    simp only [isS, Bool.or_eq_true, beq_iff_eq] at hc
    rcases hc with ((rfl | rfl) | rfl) | rfl <;> decide
  simp only [XUnit.val]
  split
  · decide
  · rcases h.2 with h2 | h2
    · exact hS c h2
    · simp only [lit]
      split
      · next hlt =>
        simp only [legalD, legalChar, Bool.or_eq_true, Bool.and_eq_true, decide_eq_true_eq]
        left; left; right
        exact ⟨h2, by omega⟩
      · rfl

theorem legal_unit (u : XUnit) (hu : u.ok = true) (a : Bool) : legalD (u.val a) = true := by
  cases u with
  | lit c => exact legal_lit c hu a
  | named nm =>
    have hp : ∀ n, predefined nm = some n → legalChar n = true := by
      intro n hp
      simp only [predefined] at hp
      repeat' split at hp
      all_goals first | (simp only [Option.some.injEq] at hp; subst hp; decide) | (simp at hp)
    simp only [XUnit.val]
    cases hq : predefined nm with
    | none => rfl
    | some n => exact hp n hq
  | dec ds =>
    simp only [XUnit.ok, Bool.and_eq_true] at hu
    exact hu.2
  | hex ds =>
    simp only [XUnit.ok, Bool.and_eq_true] at hu
    exact hu.2

theorem legal_units (us : List XUnit) (hok : us.all XUnit.ok = true) (a : Bool) :
    (us.map (XUnit.val a)).all legalD = true := by
  simp only [List.all_eq_true, List.mem_map] at hok ⊢
  rintro d ⟨u, hu, rfl⟩
  exact legal_unit u (hok u hu) a

/-- a byte that no reference contains does not occur in `flat us` unless it is a literal unit -/
theorem flat_avoid (us : List XUnit) (hok : us.all XUnit.ok = true) (q : Char)
    (hq : ∀ u ∈ us, u.ok = true → (∀ c, u ≠ .lit c) → ∀ c ∈ u.chars, c ≠ q) (hl : XUnit.lit q ∉ us) :
    q ∉ flat us := by
  simp only [List.all_eq_true] at hok
  simp only [flat, List.mem_flatMap, not_exists, not_and]
  intro u hu hc
  cases u with
  | lit c =>
    simp only [XUnit.chars, List.mem_singleton] at hc
    subst hc; exact hl hu
  | named nm => exact hq _ hu (hok _ hu) (by intro c h; cases h) q hc rfl
  | dec ds => exact hq _ hu (hok _ hu) (by intro c h; cases h) q hc rfl
  | hex ds => exact hq _ hu (hok _ hu) (by intro c h; cases h) q hc rfl

theorem flat_no_lt (us : List XUnit) (hok : us.all XUnit.ok = true) : '<' ∉ flat us := by
  apply flat_avoid us hok '<'
  · intro u _ huok hr
    exact ref_chars_avoid u huok hr '<' (by decide) (by decide) (by decide)
  · intro hmem
    have := (List.all_eq_true.mp hok) _ hmem
    revert this; decide

theorem flat_no_quote (us : List XUnit) (hok : us.all XUnit.ok = true) (q : Char) (hq : q = '"' ∨ q = '\'')
    (hl : XUnit.lit q ∉ us) : q ∉ flat us := by
  apply flat_avoid us hok q _ hl
  intro u _ huok hr
  exact ref_chars_noquote u huok hr q hq

/-- character data according to the grammar, free of `]]>`, passes the tokeniser's check -/
theorem wfText_wfChars (d : List Char) (h : WfText d) (hc : hasCdEnd d = false) : wfChars d = true := by
  obtain ⟨us, hok, rfl, _⟩ := h
  simp only [wfChars, Bool.and_eq_true, Bool.not_eq_true', List.contains_eq_mem, decide_eq_false_iff_not]
  refine ⟨⟨flat_no_lt us hok, ?_⟩, hc⟩
  rw [decodeText_flat us hok]
  exact legal_units us hok false

theorem wfText_ne_nil (d : List Char) (h : WfText d) : d ≠ [] := by
  obtain ⟨us, _, rfl, hne⟩ := h
  intro h0
  exact hne ((Verif.Proofs.Xml.flat_eq_nil us).mp h0)

theorem wfText_append (a b : List Char) (ha : a = [] ∨ WfText a) (hb : WfText b) : WfText (a ++ b) := by
  rcases ha with rfl | ⟨us, hok, rfl, hne⟩
  · simpa using hb
  · obtain ⟨us2, hok2, rfl, _⟩ := hb
    refine ⟨us ++ us2, ?_, (flat_append us us2).symm, by simp [hne]⟩
    simp only [List.all_append, Bool.and_eq_true]
    exact ⟨hok, hok2⟩

/-- an attribute value literal according to the grammar passes the tokeniser's check -/
theorem wfAttrVal_wfAttr (v : List Char) (h : WfAttrVal v) : wfAttr v = true := by
  obtain ⟨q, us, hq, hok, hl, rfl⟩ := h
  simp only [wfAttr, unquote_wrap q hq (flat us), Bool.and_eq_true, Bool.not_eq_true', List.contains_eq_mem,
    decide_eq_false_iff_not]
  refine ⟨⟨flat_no_lt us hok, flat_no_quote us hok q hq hl⟩, ?_⟩
  rw [normAttr_flat us hok]
  exact legal_units us hok true


/-! ## the reader's view of a token stream -/

theorem bytesOf_flushText (acc : List Char) (k : List XTok) : bytesOf (flushText acc k) = acc ++ bytesOf k := by
  unfold flushText
  split
  · next h => simp [List.isEmpty_iff.mp h]
  · simp [bytesOf_cons, tokBytes]

theorem bytesOf_flushPi (d : List Char) (k : List XTok) : bytesOf (flushPi d k) = d ++ bytesOf k := by
  unfold flushPi
  split
  · next h => simp [List.isEmpty_iff.mp h]
  · simp [bytesOf_cons, tokBytes]

/-- the reader's view has the same bytes -/
theorem bytesOf_viewGo (ts : List XTok) : (∀ acc, bytesOf (viewGo (.txt acc) ts) = acc ++ bytesOf ts) ∧
    (∀ d, bytesOf (viewGo (.pi d) ts) = d ++ bytesOf ts) := by
  induction ts with
  | nil =>
    constructor
    · intro acc; simp [viewGo, bytesOf_flushText]
    · intro d; simp [viewGo, bytesOf_flushPi]
  | cons t r ih =>
    constructor
    · intro acc
      cases t <;>
        simp only [viewGo, bytesOf_flushText, bytesOf_cons, ih.1, ih.2, tokBytes, List.append_assoc, List.nil_append,
          List.cons_append]
    · intro d
      cases t <;>
        simp only [viewGo, bytesOf_flushPi, bytesOf_cons, ih.1, ih.2, tokBytes, List.append_assoc, List.nil_append,
          List.cons_append]

theorem bytesOf_view (ts : List XTok) : bytesOf (view ts) = bytesOf ts := by
  simpa [view] using (bytesOf_viewGo ts).1 []

/-! ### the two-byte delimiter over concatenations -/

theorem has2_append_safe (a b : Char) (x y : List Char) (hx : has2 a b x = false) (hy : has2 a b y = false)
    (hh : ∀ c ∈ y.head?, c ≠ b) : has2 a b (x ++ y) = false := by
  induction x with
  | nil => simpa using hy
  | cons c r ih =>
    simp only [has2, Bool.or_eq_false_iff] at hx
    have ih' := ih hx.2
    simp only [List.cons_append, has2, Bool.or_eq_false_iff]
    refine ⟨?_, ih'⟩
    cases r with
    | nil =>
      cases y with
      | nil => rfl
      | cons e y' =>
        have : e ≠ b := hh e (by simp)
        simp [starts2, this]
    | cons d r' =>
      have := hx.1
      simpa [starts2] using this

theorem has2_none (a b : Char) (x : List Char) (h : ∀ c ∈ x, c ≠ a) : has2 a b x = false := by
  induction x with
  | nil => rfl
  | cons c r ih =>
    simp only [has2, Bool.or_eq_false_iff]
    refine ⟨?_, ih (fun c hc => h c (by simp [hc]))⟩
    have : c ≠ a := h c (by simp)
    cases r with
    | nil => rfl
    | cons d r' => simp [starts2, this]

theorem piDataOk_append (d e : List Char) (hd : piDataOk d = true) (he : piDataOk e = true) (hne : e ≠ []) :
    piDataOk (d ++ e) = true := by
  simp only [piDataOk, Bool.and_eq_true, Bool.not_eq_true'] at hd he ⊢
  cases e with
  | nil => exact absurd rfl hne
  | cons c e' =>
    refine ⟨?_, has2_append_safe _ _ d (c :: e') hd.2 he.2 ?_⟩
    · cases d with
      | nil => exact he.1
      | cons x d' => exact hd.1
    · intro x hx
      simp at hx; subst hx
      intro hc; subst hc
      have := he.1
      simp at this
      revert this; decide

/-- the bytes of a pseudo-attribute as PI data -/
theorem piDataOk_attr (n v : List Char) (hn : isName n = true) (hv : has2 '?' '>' v = false) :
    piDataOk (tokBytes (.attr n v)) = true := by
  simp only [tokBytes, piDataOk, Bool.and_eq_true, Bool.not_eq_true']
  refine ⟨rfl, ?_⟩
  have hnm : has2 '?' '>' n = false := by
    apply has2_none
    intro c hc h; subst h
    have := isName_all n hn _ hc
    revert this; decide
  have h1 : has2 '?' '>' ('=' :: v) = false := by
    simp only [has2, Bool.or_eq_false_iff]
    refine ⟨?_, hv⟩
    cases v <;> simp [starts2]
  have h2 := has2_append_safe '?' '>' n ('=' :: v) hnm h1 (by intro c hc; simp at hc; subst hc; decide)
  simp only [has2, Bool.or_eq_false_iff]
  refine ⟨?_, h2⟩
  cases hh : n ++ '=' :: v <;> simp [starts2]


/-! ### the reader's view of a lexer-shaped stream with well-formed tokens follows the grammar -/

theorem canon_flushText (acc : List Char) (k : List XTok) (ha : acc = [] ∨ WfText acc) (hc : hasCdEnd acc = false)
    (ht : nextIsText k = false) (hk : canonOk false k = true) : canonOk false (flushText acc k) = true := by
  unfold flushText
  split
  · exact hk
  · next hne =>
    rcases ha with rfl | ha
    · simp at hne
    · simp only [canonOk, Bool.and_eq_true, Bool.not_eq_true']
      exact ⟨⟨⟨by simpa using hne, wfText_wfChars acc ha hc⟩, ht⟩, hk⟩

theorem viewGo_canon : ∀ (ts : List XTok), (∀ x ∈ ts, WfOutP x) → (∀ d, XTok.comment d ∉ ts) →
    (∀ acc, (acc = [] ∨ WfText acc) → lexOk .content ts = true → (∀ run ∈ rawRuns acc ts, hasCdEnd run = false) →
        canonOk false (viewGo (.txt acc) ts) = true) ∧
    (lexOk .tag ts = true → (∀ run ∈ rawRuns [] ts, hasCdEnd run = false) →
        canonOk true (viewGo (.txt []) ts) = true) ∧
    (∀ n d, isName n = true → piDataOk d = true → lexOk .pi ts = true →
        (∀ run ∈ rawRuns [] ts, hasCdEnd run = false) →
        canonOk false (.startTagPI n :: viewGo (.pi d) ts) = true) := by
  intro ts
  induction ts with
  | nil =>
    intro _ _
    refine ⟨?_, ?_, ?_⟩
    · intro acc ha _ hr
      simp only [viewGo]
      exact canon_flushText acc [] ha (hr acc (by simp [rawRuns])) rfl rfl
    · intro hl; simp [lexOk] at hl
    · intro n d _ _ hl; simp [lexOk] at hl
  | cons t r ih =>
    intro hw hnc
    have hwr : ∀ x ∈ r, WfOutP x := fun x hx => hw x (by simp [hx])
    have hncr : ∀ d, XTok.comment d ∉ r := fun d hd => hnc d (by simp [hd])
    obtain ⟨ih1, ih2, ih3⟩ := ih hwr hncr
    refine ⟨?_, ?_, ?_⟩
    · intro acc ha hl hr
      cases t with
      | text d =>
        have hd : WfText d := hw (.text d) (by simp)
        simp only [lexOk, Bool.and_eq_true] at hl
        simp only [viewGo]
        exact ih1 (acc ++ d) (Or.inr (wfText_append acc d ha hd)) hl.2 (by simpa [rawRuns] using hr)
      | comment d => exact absurd (by simp) (hnc d)
      | cdata d t' =>
        simp only [lexOk, Bool.and_eq_true] at hl
        simp only [rawRuns, List.mem_cons] at hr
        simp only [viewGo]
        apply canon_flushText acc _ ha (hr acc (Or.inl rfl)) rfl
        simp only [canonOk, hl.1, Bool.true_and]
        exact ih1 [] (Or.inl rfl) hl.2 (fun run h => hr run (Or.inr h))
      | doctype d =>
        simp only [lexOk, Bool.and_eq_true] at hl
        simp only [rawRuns, List.mem_cons] at hr
        simp only [viewGo]
        apply canon_flushText acc _ ha (hr acc (Or.inl rfl)) rfl
        simp only [canonOk, hl.1, Bool.true_and]
        exact ih1 [] (Or.inl rfl) hl.2 (fun run h => hr run (Or.inr h))
      | endTag d n =>
        simp only [lexOk, Bool.and_eq_true] at hl
        simp only [rawRuns, List.mem_cons] at hr
        simp only [viewGo]
        apply canon_flushText acc _ ha (hr acc (Or.inl rfl)) rfl
        simp only [canonOk, hl.1, Bool.true_and]
        exact ih1 [] (Or.inl rfl) hl.2 (fun run h => hr run (Or.inr h))
      | startTag n =>
        simp only [lexOk, Bool.and_eq_true] at hl
        simp only [rawRuns, List.mem_cons] at hr
        simp only [viewGo]
        apply canon_flushText acc _ ha (hr acc (Or.inl rfl)) rfl
        simp only [canonOk, hl.1, Bool.true_and]
        exact ih2 hl.2 (fun run h => hr run (Or.inr h))
      | startTagPI n =>
        simp only [lexOk, Bool.and_eq_true] at hl
        simp only [rawRuns, List.mem_cons] at hr
        simp only [viewGo]
        apply canon_flushText acc _ ha (hr acc (Or.inl rfl)) rfl
        exact ih3 n [] hl.1 (by decide) hl.2 (fun run h => hr run (Or.inr h))
      | attr n v => simp [lexOk] at hl
      | attrBare d n => simp [lexOk] at hl
      | startTagClose => simp [lexOk] at hl
      | startTagCloseVoid => simp [lexOk] at hl
      | startTagClosePI => simp [lexOk] at hl
    · intro hl hr
      cases t with
      | attr n v =>
        have hv : WfAttrVal v := hw (.attr n v) (by simp)
        simp only [lexOk, Bool.and_eq_true] at hl
        simp only [rawRuns, List.mem_cons] at hr
        simp only [viewGo, flushText, List.isEmpty_nil, if_true, canonOk, hl.1, wfAttrVal_wfAttr v hv, Bool.true_and]
        exact ih2 hl.2 (fun run h => hr run (Or.inr h))
      | startTagClose =>
        simp only [lexOk] at hl
        simp only [rawRuns, List.mem_cons] at hr
        simp only [viewGo, flushText, List.isEmpty_nil, if_true, canonOk]
        exact ih1 [] (Or.inl rfl) hl (fun run h => hr run (Or.inr h))
      | startTagCloseVoid =>
        simp only [lexOk] at hl
        simp only [rawRuns, List.mem_cons] at hr
        simp only [viewGo, flushText, List.isEmpty_nil, if_true, canonOk]
        exact ih1 [] (Or.inl rfl) hl (fun run h => hr run (Or.inr h))
      | _ => simp [lexOk] at hl
    · intro n d hn hd hl hr
      cases t with
      | startTagClosePI =>
        simp only [lexOk] at hl
        simp only [rawRuns, List.mem_cons] at hr
        have hrest := ih1 [] (Or.inl rfl) hl (fun run h => hr run (Or.inr h))
        simp only [viewGo, flushPi]
        split
        · simp only [canonOk, hn, hrest, Bool.true_and]
        · next hne =>
          simp only [canonOk, hn, hrest, hd, beq_self_eq_true, Bool.true_and, Bool.and_true, Bool.not_eq_true']
          simpa using hne
      | attr n' v =>
        simp only [lexOk, Bool.and_eq_true, Bool.not_eq_true'] at hl
        simp only [rawRuns, List.mem_cons] at hr
        simp only [viewGo]
        exact ih3 n _ hn (piDataOk_append d _ hd (piDataOk_attr n' v hl.1.1 hl.1.2) (by simp [tokBytes])) hl.2
          (fun run h => hr run (Or.inr h))
      | attrBare d' x =>
        simp only [lexOk, Bool.and_eq_true, Bool.not_eq_true', List.isEmpty_eq_false_iff] at hl
        simp only [rawRuns, List.mem_cons] at hr
        simp only [viewGo, tokBytes]
        exact ih3 n _ hn (piDataOk_append d d' hd hl.1.1 hl.1.2) hl.2 (fun run h => hr run (Or.inr h))
      | _ => simp [lexOk] at hl

/-- **view_canonOk**: the reader's view of a stream that has the lexer's shape, well-formed tokens, no comments and
no `]]>` in a run of character data follows the grammar `canonOk` -/
theorem view_canonOk (ts : List XTok) (hw : ∀ x ∈ ts, WfOutP x) (hnc : ∀ d, XTok.comment d ∉ ts)
    (hl : lexOk .content ts = true) (hr : rawCdEnd ts = false) : canonOk false (view ts) = true := by
  apply (viewGo_canon ts hw hnc).1 [] (Or.inl rfl) hl
  intro run hrun
  simp only [rawCdEnd, List.any_eq_false] at hr
  simpa using hr run hrun


/-! ### the reader's view only regroups character data and PI data -/

def notText : XTok → Bool
  | .text _ => false
  | _ => true

theorem skeleton_flushText (acc : List Char) (k : List XTok) :
    (dropPi false (flushText acc k)).filter notText = (dropPi false k).filter notText := by
  unfold flushText
  split
  · rfl
  · simp [dropPi, notText]

/-- **view_skeleton**: for every stream of the lexer contract the reader's view has the same markup skeleton — the
same start tags, attributes (outside PIs), `>` / `/>`, end tags, CDATA sections, comments, DOCTYPE, PI targets and
`?>`, in the same order; only `text` tokens are merged and the items of a PI are concatenated. -/
theorem viewGo_skeleton : ∀ (ts : List XTok),
    (∀ acc, lexOk .content ts = true →
      (dropPi false (viewGo (.txt acc) ts)).filter notText = (dropPi false ts).filter notText) ∧
    (lexOk .tag ts = true →
      (dropPi false (viewGo (.txt []) ts)).filter notText = (dropPi false ts).filter notText) ∧
    (∀ d, lexOk .pi ts = true →
      (dropPi true (viewGo (.pi d) ts)).filter notText = (dropPi true ts).filter notText) := by
  intro ts
  induction ts with
  | nil =>
    refine ⟨?_, ?_, ?_⟩
    · intro acc _
      simp only [viewGo]
      exact skeleton_flushText acc []
    · intro h; simp [lexOk] at h
    · intro d h; simp [lexOk] at h
  | cons t r ih =>
    obtain ⟨ih1, ih2, ih3⟩ := ih
    refine ⟨?_, ?_, ?_⟩
    · intro acc h
      cases t with
      | text d =>
        simp only [lexOk, Bool.and_eq_true] at h
        simp only [viewGo, dropPi, List.filter_cons, notText, Bool.false_eq_true, if_false]
        exact ih1 _ h.2
      | comment d =>
        simp only [lexOk] at h
        simp only [viewGo, skeleton_flushText, dropPi, List.filter_cons, notText, if_true, ih1 [] h]
      | cdata d t' =>
        simp only [lexOk, Bool.and_eq_true] at h
        simp only [viewGo, skeleton_flushText, dropPi, List.filter_cons, notText, if_true, ih1 [] h.2]
      | doctype d =>
        simp only [lexOk, Bool.and_eq_true] at h
        simp only [viewGo, skeleton_flushText, dropPi, List.filter_cons, notText, if_true, ih1 [] h.2]
      | endTag d n =>
        simp only [lexOk, Bool.and_eq_true] at h
        simp only [viewGo, skeleton_flushText, dropPi, List.filter_cons, notText, if_true, ih1 [] h.2]
      | startTag n =>
        simp only [lexOk, Bool.and_eq_true] at h
        simp only [viewGo, skeleton_flushText, dropPi, List.filter_cons, notText, if_true, ih2 h.2]
      | startTagPI n =>
        simp only [lexOk, Bool.and_eq_true] at h
        simp only [viewGo, skeleton_flushText, dropPi, List.filter_cons, notText, if_true, ih3 [] h.2]
      | attr n v => simp [lexOk] at h
      | attrBare d n => simp [lexOk] at h
      | startTagClose => simp [lexOk] at h
      | startTagCloseVoid => simp [lexOk] at h
      | startTagClosePI => simp [lexOk] at h
    · intro h
      cases t with
      | attr n v =>
        simp only [lexOk, Bool.and_eq_true] at h
        simp only [viewGo, skeleton_flushText, dropPi, List.filter_cons, notText, if_true, ih2 h.2]
      | startTagClose =>
        simp only [lexOk] at h
        simp only [viewGo, skeleton_flushText, dropPi, List.filter_cons, notText, if_true, ih1 [] h]
      | startTagCloseVoid =>
        simp only [lexOk] at h
        simp only [viewGo, skeleton_flushText, dropPi, List.filter_cons, notText, if_true, ih1 [] h]
      | _ => simp [lexOk] at h
    · intro d h
      cases t with
      | attr n v =>
        simp only [lexOk, Bool.and_eq_true] at h
        simp only [viewGo, dropPi]
        exact ih3 _ h.2
      | attrBare d' x =>
        simp only [lexOk, Bool.and_eq_true] at h
        simp only [viewGo, dropPi]
        exact ih3 _ h.2
      | startTagClosePI =>
        simp only [lexOk] at h
        have hf : ∀ k, (dropPi true (flushPi d k)).filter notText = (dropPi true k).filter notText := by
          intro k
          unfold flushPi
          split
          · rfl
          · simp [dropPi]
        simp only [viewGo, hf, dropPi, List.filter_cons, notText, if_true, ih1 [] h]
      | _ => simp [lexOk] at h

theorem view_skeleton (ts : List XTok) (h : lexOk .content ts = true) : skeleton (view ts) = skeleton ts := by
  have := (viewGo_skeleton ts).1 [] h
  simp only [skeleton, view]
  exact this

/-! ## the Boolean checks of the tokeniser imply the grammar of C06 (converse of `wfText_wfChars`, `wfAttrVal_wfAttr`) -/

theorem lit_ok_of_legal (a : Bool) (c : Char) (h1 : c ≠ '<') (h2 : c ≠ '&')
    (h3 : legalD (if a && isS c then DCh.c 32 else lit c) = true) : (XUnit.lit c).ok = true := by
  simp only [XUnit.ok, litOk, Bool.and_eq_true, bne_iff_ne, ne_eq, Bool.or_eq_true, decide_eq_true_eq]
  refine ⟨⟨h1, h2⟩, ?_⟩
  by_cases hs : isS c = true
  · exact Or.inl hs
  · right
    have hs' : isS c = false := by simpa using hs
    simp only [hs', Bool.and_false, Bool.false_eq_true, if_false, lit] at h3
    split at h3
    · next hlt =>
      simp only [legalD, legalChar, Bool.or_eq_true, Bool.and_eq_true, decide_eq_true_eq, beq_iff_eq] at h3
      have key : ∀ k : Nat, c.toNat = k → isS (Char.ofNat k) = true → False := by
        intro k hk hS
        have : c = Char.ofNat k := by rw [← hk]; exact (Char.ofNat_toNat c).symm
        rw [this] at hs'; rw [hs'] at hS; cases hS
      rcases h3 with ((((h | h) | h) | h) | h) | h
      · exact (key 9 h (by decide)).elim
      · exact (key 10 h (by decide)).elim
      · exact (key 13 h (by decide)).elim
      · exact h.1
      · omega
      · omega
    · omega

theorem drop_takeWhile {α} (p : α → Bool) (l : List α) : l.drop (l.takeWhile p).length = l.dropWhile p := by
  induction l with
  | nil => rfl
  | cons a r ih =>
    simp only [List.takeWhile_cons, List.dropWhile_cons]
    split
    · simpa using ih
    · rfl

theorem numRef_hex_some (r2 : List Char) (v n : Nat) (h : numRef ('#' :: 'x' :: r2) = some (v, n)) :
    ∃ ds rest, r2 = ds ++ ';' :: rest ∧ ds ≠ [] ∧ (∀ c ∈ ds, isHex c = true) ∧ v = numVal 16 ds ∧
      n = ds.length + 3 := by
  simp only [numRef] at h
  split at h
  · next rest heq =>
    split at h
    · cases h
    · next hne =>
      simp only [Option.some.injEq, Prod.mk.injEq] at h
      rw [drop_takeWhile] at heq
      refine ⟨r2.takeWhile isHex, rest, ?_, by simpa using hne,
        fun c hc => Verif.Proofs.Xml.mem_takeWhile_imp' _ _ _ hc, h.1.symm, h.2.symm⟩
      conv => lhs; rw [← List.takeWhile_append_dropWhile (p := isHex) (l := r2), heq]
  · cases h

theorem numRef_dec_some (r2 : List Char) (v n : Nat) (hx : ∀ r3, r2 ≠ 'x' :: r3)
    (h : numRef ('#' :: r2) = some (v, n)) :
    ∃ ds rest, r2 = ds ++ ';' :: rest ∧ ds ≠ [] ∧ (∀ c ∈ ds, isDig c = true) ∧ v = numVal 10 ds ∧
      n = ds.length + 2 := by
  have h' : (match r2.drop (r2.takeWhile isDig).length with
      | ';' :: _ => if (r2.takeWhile isDig).isEmpty then none
                    else some (numVal 10 (r2.takeWhile isDig), (r2.takeWhile isDig).length + 2)
      | _ => none) = some (v, n) := by
    rw [← h, numRef.eq_2 r2 (fun r3 h3 => hx r3 h3)]
    rfl
  split at h'
  · next rest heq =>
    split at h'
    · cases h'
    · next hne =>
      simp only [Option.some.injEq, Prod.mk.injEq] at h'
      rw [drop_takeWhile] at heq
      refine ⟨r2.takeWhile isDig, rest, ?_, by simpa using hne,
        fun c hc => Verif.Proofs.Xml.mem_takeWhile_imp' _ _ _ hc, h'.1.symm, h'.2.symm⟩
      conv => lhs; rw [← List.takeWhile_append_dropWhile (p := isDig) (l := r2), heq]
  · cases h'

/-- a reference recognised by the specification decoder is a grammar unit -/
theorem specRef_unit (r : List Char) (d : DCh) (n : Nat) (h : specRef r = some (d, n)) (hl : legalD d = true) :
    ∃ u : XUnit, u.ok = true ∧ (∀ c, u ≠ .lit c) ∧ '&' :: r = u.chars ++ r.drop n := by
  cases r with
  | nil => simp [specRef] at h
  | cons c r' =>
    by_cases hc : c = '#'
    · subst hc
      have h1 : (numRef ('#' :: r')).map (fun p => (DCh.c p.1, p.2)) = some (d, n) := by
        rw [← h]; rfl
      cases hn : numRef ('#' :: r') with
      | none => simp [hn] at h1
      | some p =>
        obtain ⟨v, k⟩ := p
        simp only [hn, Option.map_some, Option.some.injEq, Prod.mk.injEq] at h1
        obtain ⟨rfl, rfl⟩ := h1
        by_cases hx : ∃ r3, r' = 'x' :: r3
        · obtain ⟨r3, rfl⟩ := hx
          obtain ⟨ds, rest, rfl, e2, e2', rfl, rfl⟩ := numRef_hex_some r3 v k hn
          refine ⟨.hex ds, ?_, (by intro c hc; cases hc), ?_⟩
          · simp only [XUnit.ok, Bool.and_eq_true, List.all_eq_true]
            exact ⟨⟨by simpa using e2, e2'⟩, by simpa [legalD] using hl⟩
          · simp [XUnit.chars]
        · have hx' : ∀ r3, r' ≠ 'x' :: r3 := fun r3 h => hx ⟨r3, h⟩
          obtain ⟨ds, rest, rfl, e2, e2', rfl, rfl⟩ := numRef_dec_some r' v k hx' hn
          refine ⟨.dec ds, ?_, (by intro c hc; cases hc), ?_⟩
          · simp only [XUnit.ok, Bool.and_eq_true, List.all_eq_true]
            exact ⟨⟨by simpa using e2, e2'⟩, by simpa [legalD] using hl⟩
          · simp [XUnit.chars]
    · have hno : ∀ x, c :: r' = '#' :: x → False := by
        intro x hx; simp only [List.cons.injEq] at hx; exact hc hx.1
      rw [specRef.eq_2 _ hno] at h
      split at h
      · next rest heq =>
        split at h
        · cases h
        · next hne =>
          rw [drop_takeWhile] at heq
          have hsplit : c :: r' = (c :: r').takeWhile isNameChar ++ ';' :: rest := by
            conv => lhs; rw [← List.takeWhile_append_dropWhile (p := isNameChar) (l := c :: r'), heq]
          have hn : n = ((c :: r').takeWhile isNameChar).length + 1 := by
            split at h <;> (simp only [Option.some.injEq, Prod.mk.injEq] at h; exact h.2.symm)
          generalize hnm : (c :: r').takeWhile isNameChar = nm at *
          have hall : ∀ x ∈ nm, isNameChar x = true := by
            intro x hx; rw [← hnm] at hx; exact Verif.Proofs.Xml.mem_takeWhile_imp' _ _ _ hx
          refine ⟨.named nm, ?_, (by intro c hc; cases hc), ?_⟩
          · simp only [XUnit.ok, Bool.and_eq_true, List.all_eq_true]
            exact ⟨by simpa using hne, hall⟩
          · rw [hsplit, hn]
            simp [XUnit.chars]
      · cases h

/-- bytes without `<` whose decoding contains only legal items are a sequence of grammar units -/
theorem units_of_decode (a : Bool) (n : Nat) : ∀ d : List Char, d.length ≤ n → '<' ∉ d →
    (decodeGo a 0 d).all legalD = true → ∃ us : List XUnit, us.all XUnit.ok = true ∧ d = flat us := by
  induction n with
  | zero =>
    intro d hl _ _
    have : d = [] := List.length_eq_zero_iff.mp (by omega)
    subst this
    exact ⟨[], rfl, rfl⟩
  | succ n ih =>
    intro d hl hlt hleg
    cases d with
    | nil => exact ⟨[], rfl, rfl⟩
    | cons c r =>
      simp only [List.length_cons] at hl
      have hltr : '<' ∉ r := fun h => hlt (by simp [h])
      have hc : c ≠ '<' := fun h => hlt (by simp [h])
      by_cases hamp : c = '&'
      · subst hamp
        simp only [decodeGo, beq_self_eq_true, if_true] at hleg
        cases hs : specRef r with
        | none => simp [hs, legalD] at hleg
        | some p =>
          obtain ⟨dd, k⟩ := p
          simp only [hs, List.all_cons, Bool.and_eq_true] at hleg
          obtain ⟨u, hu, _, hsplit⟩ := specRef_unit r dd k hs hleg.1
          have hrest := hleg.2
          rw [Verif.Proofs.Xml.decodeGo_skip] at hrest
          obtain ⟨us, hok, hflat⟩ := ih (r.drop k) (by simp; omega)
            (fun h => hltr ((List.drop_sublist k r).subset h)) hrest
          refine ⟨u :: us, by simp [hu, hok], ?_⟩
          rw [hsplit, flat_cons, ← hflat]
      · have hne : (c == '&') = false := by simpa using hamp
        simp only [decodeGo, hne, Bool.false_eq_true, if_false, List.all_cons, Bool.and_eq_true] at hleg
        obtain ⟨us, hok, hflat⟩ := ih r (by omega) hltr hleg.2
        have hl1 : legalD (if a && isS c then DCh.c 32 else lit c) = true := by
          have := hleg.1
          simpa [Bool.and_eq_true] using this
        refine ⟨.lit c :: us, by simp [lit_ok_of_legal a c hc hamp hl1, hok], ?_⟩
        rw [flat_cons, ← hflat]; rfl

/-- **wfChars_wfText**: the tokeniser's check of a run of character data implies the grammar -/
theorem wfChars_wfText (d : List Char) (hne : d ≠ []) (h : wfChars d = true) : WfText d := by
  simp only [wfChars, Bool.and_eq_true, Bool.not_eq_true', List.contains_eq_mem, decide_eq_false_iff_not] at h
  obtain ⟨us, hok, rfl⟩ := units_of_decode false d.length d (Nat.le_refl _) h.1.1 h.1.2
  exact ⟨us, hok, rfl, fun h0 => hne (by rw [h0]; rfl)⟩

theorem lit_mem_flat (us : List XUnit) (q : Char) (h : XUnit.lit q ∈ us) : q ∈ flat us := by
  simp only [flat, List.mem_flatMap]
  exact ⟨.lit q, h, by simp [XUnit.chars]⟩

/-- **wfAttr_wfAttrVal**: the tokeniser's check of an attribute value literal implies the grammar -/
theorem wfAttr_wfAttrVal (v : List Char) (h : wfAttr v = true) : WfAttrVal v := by
  obtain ⟨q, body, rfl, hq, hb, hok⟩ := wfAttr_shape v h
  simp only [attBodyOk, Bool.and_eq_true, Bool.not_eq_true', List.contains_eq_mem, decide_eq_false_iff_not] at hok
  obtain ⟨us, huok, rfl⟩ := units_of_decode true body.length body (Nat.le_refl _) hok.1 hok.2
  refine ⟨q, us, hq, huok, ?_, rfl⟩
  intro hmem
  have := hb q (lit_mem_flat us q hmem)
  simp at this

theorem wfCData_of_all (t : List Char) (h : t.all legalByte = true) : WfCDataText t := by
  intro c hc
  have := (List.all_eq_true.mp h) c hc
  simpa [legalByte] using this

end Verif.Proofs.C09XmlLex

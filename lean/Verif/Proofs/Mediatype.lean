import Verif.Proofs.DataURI
/-!
# helper lemmas for C18: `minify.Mediatype`
-/
namespace Verif.Proofs.Mediatype
open Verif Verif.Model.DataURI

theorem lowerRangeRev_length (lo hi : Nat) (l : List Char) (n : Nat) : (lowerRangeRev lo hi n l).length = l.length := by
  induction l generalizing n with
  | nil => rfl
  | cons c r ih => simp [lowerRangeRev, ih]

theorem mtStep_length (s : MtState) (c : Char) : (mtStep s c).v.length ≤ s.v.length + 1 := by
  unfold mtStep
  split
  · simp
  · split
    · simp
    · split
      · split
        · simp only [List.length_cons]
          split <;> simp [lowerRangeRev_length]
        · simp
      · split <;> simp

theorem foldl_length (l : List Char) (s : MtState) : (l.foldl mtStep s).v.length ≤ s.v.length + l.length := by
  induction l generalizing s with
  | nil => simp
  | cons c r ih =>
    simp only [List.foldl_cons, List.length_cons]
    have := ih (mtStep s c)
    have := mtStep_length s c
    omega

theorem mediatype_length (b : List Char) : (mediatype b).length ≤ b.length := by
  unfold mediatype
  simp only [List.length_reverse, lowerRangeRev_length]
  have := foldl_length b {}
  simpa using this

end Verif.Proofs.Mediatype

/-! ## the reference behaviour -/

namespace Verif.Proofs.Mediatype
open Verif Verif.Model.DataURI
namespace S
export Verif.Spec.Rfc2397 (ws lower specMediatypeOK specMediatype quotesClosed quotesClosedAux)
end S

theorem toLower_idem (c : Char) : toLower (toLower c) = toLower c := by
  have hA : 'A'.toNat = 65 := by decide
  have hZ : 'Z'.toNat = 90 := by decide
  unfold toLower
  split
  · rename_i h
    simp only [Verif.Proofs.DataURI.char_le_iff, hA, hZ] at h
    have hn : (Char.ofNat (c.toNat + 32)).toNat = c.toNat + 32 :=
      Verif.Proofs.DataURI.toNat_ofNat_small (by omega)
    have : ¬('A' ≤ Char.ofNat (c.toNat + 32) ∧ Char.ofNat (c.toNat + 32) ≤ 'Z') := by
      simp only [Verif.Proofs.DataURI.char_le_iff, hn, hA, hZ]
      omega
    rw [if_neg this]
  · rfl

/-- positional lower-casing of a reversed list whose head has position `n-1` -/
def lowerSet (P : Nat → Bool) : Nat → List Char → List Char
  | _, [] => []
  | n, c :: r => (if P (n - 1) then toLower c else c) :: lowerSet P (n - 1) r

theorem lowerRangeRev_eq (lo hi : Nat) (l : List Char) (n : Nat) :
    lowerRangeRev lo hi n l = lowerSet (fun i => decide (lo ≤ i ∧ i < hi)) n l := by
  induction l generalizing n with
  | nil => rfl
  | cons c r ih => simp [lowerRangeRev, lowerSet, ih]

theorem lowerSet_comp (P Q : Nat → Bool) (l : List Char) (n : Nat) :
    lowerSet P n (lowerSet Q n l) = lowerSet (fun i => P i || Q i) n l := by
  induction l generalizing n with
  | nil => rfl
  | cons c r ih =>
    simp only [lowerSet, ih]
    by_cases hP : P (n - 1) = true <;> by_cases hQ : Q (n - 1) = true <;> simp [hP, hQ, toLower_idem]

theorem lowerSet_congr (P Q : Nat → Bool) (l : List Char) (n : Nat) (hl : l.length ≤ n)
    (h : ∀ i, i < n → P i = Q i) : lowerSet P n l = lowerSet Q n l := by
  induction l generalizing n with
  | nil => rfl
  | cons c r ih =>
    simp only [List.length_cons] at hl
    simp only [lowerSet, h (n - 1) (by omega)]
    rw [ih (n - 1) (by omega) (fun i hi => h i (by omega))]

theorem lowerSet_none (P : Nat → Bool) (l : List Char) (n : Nat) (hl : l.length ≤ n)
    (h : ∀ i, i < n → P i = false) : lowerSet P n l = l := by
  induction l generalizing n with
  | nil => rfl
  | cons c r ih =>
    simp only [List.length_cons] at hl
    simp only [lowerSet, h (n - 1) (by omega)]
    rw [ih (n - 1) (by omega) (fun i hi => h i (by omega))]
    simp

/-- lower-casing every position from `k` on: exactly the part above the first `k` elements -/
theorem lowerSet_split (t cl : List Char) :
    lowerSet (fun i => decide (cl.length ≤ i)) (cl.length + t.length) (t ++ cl) = t.map toLower ++ cl := by
  induction t with
  | nil =>
    simp only [List.nil_append, List.length_nil, Nat.add_zero, List.map_nil]
    exact lowerSet_none _ _ _ (Nat.le_refl _) (fun i hi => by simp; omega)
  | cons c r ih =>
    simp only [List.cons_append, List.length_cons, lowerSet, List.map_cons]
    have h1 : cl.length ≤ cl.length + (r.length + 1) - 1 := by omega
    have h2 : cl.length + (r.length + 1) - 1 = cl.length + r.length := by omega
    have h3 : cl.length ≤ cl.length + r.length := by omega
    simp only [h2, ih, h3, decide_true, if_true]

end Verif.Proofs.Mediatype

namespace Verif.Proofs.Mediatype
open Verif Verif.Model.DataURI

/-- the reference relation with an explicit end state (0 outside, 1 in a string, 2 after a backslash) -/
def runTo : Nat → List Char → List Char → Option Nat
  | st, [], out => if out = [] then some st else none
  | st, c :: r, out =>
    if st = 0 then
      if S.ws c then runTo 0 r out
      else match out with
        | [] => none
        | d :: o => if c = '"' then (if d = c then runTo 1 r o else none)
                    else (if d = c ∨ d = S.lower c then runTo 0 r o else none)
    else match out with
      | [] => none
      | d :: o =>
        if d = c then
          (if st = 1 then (if c = '"' then runTo 0 r o else if c = '\\' then runTo 2 r o else runTo 1 r o)
           else runTo 1 r o)
        else none

theorem ws_eq : S.ws = isWs := rfl
theorem lower_eq : S.lower = toLower := rfl

theorem ok_of_run (b out : List Char) (st st' : Nat) (h : runTo st b out = some st') :
    S.specMediatypeOK st b out = true := by
  induction b generalizing st out with
  | nil =>
    unfold runTo at h
    by_cases ho : out = []
    · simp [S.specMediatypeOK, ho]
    · rw [if_neg ho] at h; cases h
  | cons c r ih =>
    unfold runTo at h
    unfold S.specMediatypeOK
    by_cases h0 : st = 0
    · rw [if_pos h0] at h ⊢
      by_cases hw : S.ws c = true
      · rw [if_pos hw] at h ⊢; exact ih _ _ h
      · rw [if_neg hw] at h ⊢
        cases out with
        | nil => cases h
        | cons d o =>
          dsimp only at h ⊢
          by_cases hq : c = '"'
          · rw [if_pos hq] at h ⊢
            by_cases hd : d = c
            · rw [if_pos hd] at h; simp [hd, ih _ _ h]
            · rw [if_neg hd] at h; cases h
          · rw [if_neg hq] at h ⊢
            by_cases hd : d = c ∨ d = S.lower c
            · rw [if_pos hd] at h
              have := ih _ _ h
              rcases hd with hd | hd <;> simp [hd, this]
            · rw [if_neg hd] at h; cases h
    · rw [if_neg h0] at h ⊢
      cases out with
      | nil => cases h
      | cons d o =>
        dsimp only at h ⊢
        by_cases hd : d = c
        · rw [if_pos hd] at h
          subst hd
          by_cases h1 : st = 1
          · rw [if_pos h1] at h ⊢
            by_cases hq : d = '"'
            · rw [if_pos hq] at h ⊢; simp [ih _ _ h]
            · rw [if_neg hq] at h ⊢
              by_cases hb : d = '\\'
              · rw [if_pos hb] at h ⊢; simp [ih _ _ h]
              · rw [if_neg hb] at h ⊢; simp [ih _ _ h]
          · rw [if_neg h1] at h ⊢; simp [ih _ _ h]
        · rw [if_neg hd] at h; cases h

theorem run_append (a b oa ob : List Char) (st st1 st2 : Nat) (h1 : runTo st a oa = some st1)
    (h2 : runTo st1 b ob = some st2) : runTo st (a ++ b) (oa ++ ob) = some st2 := by
  induction a generalizing st oa with
  | nil =>
    unfold runTo at h1
    by_cases ho : oa = []
    · rw [if_pos ho] at h1
      simp only [Option.some.injEq] at h1
      subst ho; subst h1
      simpa using h2
    · rw [if_neg ho] at h1; cases h1
  | cons c r ih =>
    unfold runTo at h1
    rw [List.cons_append]
    unfold runTo
    by_cases h0 : st = 0
    · rw [if_pos h0] at h1 ⊢
      by_cases hw : S.ws c = true
      · rw [if_pos hw] at h1 ⊢; exact ih _ _ h1
      · rw [if_neg hw] at h1 ⊢
        cases oa with
        | nil => cases h1
        | cons d o =>
          dsimp only [List.cons_append] at h1 ⊢
          by_cases hq : c = '"'
          · rw [if_pos hq] at h1 ⊢
            by_cases hd : d = c
            · rw [if_pos hd] at h1 ⊢; exact ih _ _ h1
            · rw [if_neg hd] at h1; cases h1
          · rw [if_neg hq] at h1 ⊢
            by_cases hd : d = c ∨ d = S.lower c
            · rw [if_pos hd] at h1 ⊢; exact ih _ _ h1
            · rw [if_neg hd] at h1; cases h1
    · rw [if_neg h0] at h1 ⊢
      cases oa with
      | nil => cases h1
      | cons d o =>
        dsimp only [List.cons_append] at h1 ⊢
        by_cases hd : d = c
        · rw [if_pos hd] at h1 ⊢
          by_cases h1' : st = 1
          · rw [if_pos h1'] at h1 ⊢
            by_cases hq : c = '"'
            · rw [if_pos hq] at h1 ⊢; exact ih _ _ h1
            · rw [if_neg hq] at h1 ⊢
              by_cases hb : c = '\\'
              · rw [if_pos hb] at h1 ⊢; exact ih _ _ h1
              · rw [if_neg hb] at h1 ⊢; exact ih _ _ h1
          · rw [if_neg h1'] at h1 ⊢; exact ih _ _ h1
        · rw [if_neg hd] at h1; cases h1

/-- text outside strings (no quote in it) and an allowed image of it -/
def img : List Char → List Char → Bool
  | [], t => t = []
  | c :: r, t =>
    if isWs c then img r t
    else match t with
      | [] => false
      | d :: t' => c ≠ '"' && (d = c || d = toLower c) && img r t'

theorem img_cons_ws {c : Char} (hw : isWs c = true) (r t : List Char) : img (c :: r) t = img r t := by
  conv => lhs; unfold img
  rw [if_pos hw]

theorem img_cons_nws {c : Char} (hw : isWs c = false) (r : List Char) (d : Char) (t : List Char) :
    img (c :: r) (d :: t) = (decide (c ≠ '"') && (decide (d = c) || decide (d = toLower c)) && img r t) := by
  conv => lhs; unfold img
  rw [if_neg (by simp [hw])]

theorem img_cons_nws_nil {c : Char} (hw : isWs c = false) (r : List Char) : img (c :: r) [] = false := by
  unfold img; rw [if_neg (by simp [hw])]

theorem img_run (o t : List Char) (h : img o t = true) : runTo 0 o t = some 0 := by
  induction o generalizing t with
  | nil => simp only [img, decide_eq_true_eq] at h; simp [runTo, h]
  | cons c r ih =>
    unfold runTo
    rw [if_pos rfl, ws_eq]
    cases hw : isWs c
    · rw [if_neg (by simp)]
      cases t with
      | nil => rw [img_cons_nws_nil hw] at h; cases h
      | cons d t' =>
        rw [img_cons_nws hw] at h
        simp only [Bool.and_eq_true, Bool.or_eq_true, decide_eq_true_eq, ne_eq] at h
        dsimp only
        rw [if_neg h.1.1, lower_eq, if_pos h.1.2]
        exact ih _ h.2
    · rw [img_cons_ws hw] at h
      rw [if_pos rfl]; exact ih _ h

theorem img_lower (o t : List Char) (h : img o t = true) : img o (t.map toLower) = true := by
  induction o generalizing t with
  | nil => simp only [img, decide_eq_true_eq] at h; simp [img, h]
  | cons c r ih =>
    cases hw : isWs c
    · cases t with
      | nil => rw [img_cons_nws_nil hw] at h; cases h
      | cons d t' =>
        rw [img_cons_nws hw] at h
        simp only [Bool.and_eq_true, Bool.or_eq_true, decide_eq_true_eq, ne_eq] at h
        rw [List.map_cons, img_cons_nws hw]
        simp only [Bool.and_eq_true, Bool.or_eq_true, decide_eq_true_eq, ne_eq]
        refine ⟨⟨h.1.1, Or.inr ?_⟩, ih _ h.2⟩
        rcases h.1.2 with e | e
        · rw [e]
        · rw [e, toLower_idem]
    · rw [img_cons_ws hw] at h ⊢; exact ih _ h

theorem img_snoc_ws (o t : List Char) (c : Char) (h : img o t = true) (hc : isWs c = true) :
    img (o ++ [c]) t = true := by
  induction o generalizing t with
  | nil => simp only [img, decide_eq_true_eq] at h; subst h; rw [List.nil_append, img_cons_ws hc]; simp [img]
  | cons x r ih =>
    rw [List.cons_append]
    cases hw : isWs x
    · cases t with
      | nil => rw [img_cons_nws_nil hw] at h; cases h
      | cons d t' =>
        rw [img_cons_nws hw] at h ⊢
        simp only [Bool.and_eq_true] at h ⊢
        exact ⟨h.1, ih _ h.2⟩
    · rw [img_cons_ws hw] at h ⊢; exact ih _ h

theorem img_snoc (o t : List Char) (c : Char) (h : img o t = true) (hc : isWs c = false) (hq : c ≠ '"') :
    img (o ++ [c]) (t ++ [c]) = true := by
  induction o generalizing t with
  | nil =>
    simp only [img, decide_eq_true_eq] at h; subst h
    show img [c] [c] = true
    rw [img_cons_nws hc]
    simp [img, hq]
  | cons x r ih =>
    rw [List.cons_append]
    cases hw : isWs x
    · cases t with
      | nil => rw [img_cons_nws_nil hw] at h; cases h
      | cons d t' =>
        rw [img_cons_nws hw] at h
        rw [List.cons_append, img_cons_nws hw]
        simp only [Bool.and_eq_true] at h ⊢
        exact ⟨h.1, ih _ h.2⟩
    · rw [img_cons_ws hw] at h ⊢; exact ih _ h

end Verif.Proofs.Mediatype

namespace Verif.Proofs.Mediatype
open Verif Verif.Model.DataURI

def stOf (s : MtState) : Nat := if s.esc then 2 else if s.inStr then 1 else 0

/-- invariant of the loop of `minify.Mediatype` after reading `pre` -/
structure Inv (pre : List Char) (s : MtState) : Prop where
  len : s.len = s.v.length
  escIn : s.esc = true → s.inStr = true
  out : s.inStr = false → ∃ pre1 pre2 closed tail, pre = pre1 ++ pre2 ∧ s.v = tail.reverse ++ closed.reverse ∧
      s.last = closed.length ∧ runTo 0 pre1 closed = some 0 ∧ img pre2 tail = true
  ins : s.inStr = true → runTo 0 pre s.v.reverse = some (if s.esc then 2 else 1)

theorem lower_from (v closed tail : List Char) (last len : Nat) (hv : v = tail.reverse ++ closed.reverse)
    (hl : last = closed.length) (hlen : len = v.length) :
    lowerSet (fun i => decide (last ≤ i)) len v = (tail.map toLower).reverse ++ closed.reverse := by
  have h1 : len = closed.reverse.length + tail.reverse.length := by
    rw [hlen, hv]; simp; omega
  have h2 : last = closed.reverse.length := by rw [hl]; simp
  rw [h1, h2, hv, lowerSet_split, List.map_reverse]

theorem lower_final (s : MtState) (closed tail : List Char) (hv : s.v = tail.reverse ++ closed.reverse)
    (hl : s.last = closed.length) (hlen : s.len = s.v.length) :
    lowerRangeRev s.last s.len s.len s.v = (tail.map toLower).reverse ++ closed.reverse := by
  rw [lowerRangeRev_eq, ← lower_from s.v closed tail s.last s.len hv hl hlen]
  apply lowerSet_congr
  · omega
  · intro i hi; simp [hi]

theorem ws_not_quote {c : Char} (h : isWs c = true) : c ≠ '"' := by
  intro e; subst e; revert h; decide

theorem run_snoc_str (pre v : List Char) (c : Char) (h : runTo 0 pre v = some 1) (hq : c ≠ '"') (hb : c ≠ '\\') :
    runTo 0 (pre ++ [c]) (v ++ [c]) = some 1 := by
  apply run_append pre [c] v [c] 0 1 1 h
  simp [runTo, hq, hb]

theorem run_snoc_bs (pre v : List Char) (h : runTo 0 pre v = some 1) :
    runTo 0 (pre ++ ['\\']) (v ++ ['\\']) = some 2 := by
  apply run_append pre ['\\'] v ['\\'] 0 1 2 h
  simp [runTo]

theorem run_snoc_esc (pre v : List Char) (c : Char) (h : runTo 0 pre v = some 2) :
    runTo 0 (pre ++ [c]) (v ++ [c]) = some 1 := by
  apply run_append pre [c] v [c] 0 2 1 h
  simp [runTo]

theorem run_snoc_close (pre v : List Char) (h : runTo 0 pre v = some 1) :
    runTo 0 (pre ++ ['"']) (v ++ ['"']) = some 0 := by
  apply run_append pre ['"'] v ['"'] 0 1 0 h
  simp [runTo]

theorem run_snoc_open (pre v : List Char) (h : runTo 0 pre v = some 0) :
    runTo 0 (pre ++ ['"']) (v ++ ['"']) = some 1 := by
  apply run_append pre ['"'] v ['"'] 0 0 1 h
  have : S.ws '"' = false := by decide
  simp [runTo, this]

theorem step (pre : List Char) (s : MtState) (c : Char) (rest : List Char) (hinv : Inv pre s) :
    Inv (pre ++ [c]) (mtStep s c) ∧
      S.quotesClosedAux (stOf s) (c :: rest) = S.quotesClosedAux (stOf (mtStep s c)) rest := by
  cases hes : s.esc
  case true =>
    -- the byte after a backslash inside a string
    have hin := hinv.escIn hes
    have hrun := hinv.ins hin
    rw [hes] at hrun
    have hm : mtStep s c = { s with v := c :: s.v, len := s.len + 1, esc := false } := by
      unfold mtStep; simp only [hes, if_true]
    rw [hm]
    refine ⟨⟨by simp [hinv.len], (fun h => by cases h), ?_, ?_⟩, ?_⟩
    · intro h; simp only [hin] at h; cases h
    · intro _
      have := run_snoc_esc _ _ c hrun
      simpa using this
    · simp [stOf, hes, hin, S.quotesClosedAux]
  case false =>
  cases hin : s.inStr
  · -- outside a string
    obtain ⟨pre1, pre2, closed, tail, hpre, hv, hl, hrun, himg⟩ := hinv.out hin
    cases hw : isWs c
    · by_cases hq : c = '"'
      · -- opening quote
        subst hq
        have hv1 : ∃ tail', img pre2 tail' = true ∧ tail'.length = tail.length ∧
            mtStep s '"' = { s with v := '"' :: (tail'.reverse ++ closed.reverse), len := s.len + 1, inStr := true } := by
          unfold mtStep
          simp only [hes, hin, hw, Bool.not_false, Bool.and_false, Bool.false_eq_true, if_false, if_true]
          by_cases h1024 : s.len + s.delta - s.last < 1024
          · refine ⟨tail.map toLower, img_lower _ _ himg, by simp, ?_⟩
            simp [h1024, lower_final s closed tail hv hl hinv.len]
          · refine ⟨tail, himg, rfl, ?_⟩
            simp [h1024, hv]
        obtain ⟨tail', himg', htl, hm⟩ := hv1
        rw [hm]
        refine ⟨⟨?_, ?_, ?_, ?_⟩, ?_⟩
        · simp only [List.length_cons, List.length_append, List.length_reverse, htl]
          rw [hinv.len, hv]; simp
        · intro h; simp only [hes] at h; cases h
        · intro h; cases h
        · intro _
          simp only [hes, Bool.false_eq_true, if_false]
          have hr : runTo 0 (pre1 ++ pre2) (closed ++ tail') = some 0 :=
            run_append pre1 pre2 closed tail' 0 0 0 hrun (img_run _ _ himg')
          have := run_snoc_open _ _ hr
          rw [hpre]
          simpa using this
        · simp [stOf, hes, hin, S.quotesClosedAux]
      · -- ordinary byte outside a string
        have hm : mtStep s c = { s with v := c :: s.v, len := s.len + 1 } := by
          unfold mtStep
          simp only [hes, hin, hw, Bool.not_false, Bool.and_false, Bool.false_and, Bool.false_eq_true, if_false, hq]
        rw [hm]
        refine ⟨⟨by simp [hinv.len], ?_, ?_, ?_⟩, ?_⟩
        · intro h; simp only [hes] at h; cases h
        · intro _
          refine ⟨pre1, pre2 ++ [c], closed, tail ++ [c], by rw [hpre]; simp, by simp [hv], hl, hrun,
            img_snoc _ _ _ himg hw hq⟩
        · intro h; simp only [hin] at h; cases h
        · simp [stOf, hes, hin, S.quotesClosedAux, hq]
    · -- whitespace outside a string: dropped
      have hm : mtStep s c = { s with delta := s.delta + 1 } := by
        unfold mtStep
        simp only [hes, hin, hw, Bool.not_false, Bool.and_self, Bool.false_eq_true, if_false, if_true]
      rw [hm]
      refine ⟨⟨hinv.len, ?_, ?_, ?_⟩, ?_⟩
      · intro h; simp only [hes] at h; cases h
      · intro _
        exact ⟨pre1, pre2 ++ [c], closed, tail, by rw [hpre]; simp, hv, hl, hrun, img_snoc_ws _ _ _ himg hw⟩
      · intro h; simp only [hin] at h; cases h
      · simp [stOf, hes, hin, S.quotesClosedAux, ws_not_quote hw]
  · -- inside a string, not escaped
    have hrun := hinv.ins hin
    rw [hes] at hrun
    simp only [Bool.false_eq_true, if_false] at hrun
    by_cases hq : c = '"'
    · subst hq
      have hm : mtStep s '"' = { s with v := '"' :: s.v, len := s.len + 1, inStr := false, last := s.len + 1 } := by
        unfold mtStep
        simp only [hes, hin, Bool.not_true, Bool.false_and, Bool.false_eq_true, if_false, if_true]
      rw [hm]
      refine ⟨⟨by simp [hinv.len], ?_, ?_, ?_⟩, ?_⟩
      · intro h; simp only [hes] at h; cases h
      · intro _
        refine ⟨pre ++ ['"'], [], ('"' :: s.v).reverse, [], by simp, by simp, by simp [hinv.len], ?_, by simp [img]⟩
        have := run_snoc_close _ _ hrun
        simpa using this
      · intro h; cases h
      · simp [stOf, hes, hin, S.quotesClosedAux]
    · by_cases hb : c = '\\'
      · subst hb
        have hm : mtStep s '\\' = { s with v := '\\' :: s.v, len := s.len + 1, esc := true } := by
          unfold mtStep
          simp only [hes, hin, Bool.not_true, Bool.false_and, Bool.false_eq_true, if_false, hq, Bool.true_and,
            decide_true, if_true]
        rw [hm]
        refine ⟨⟨by simp [hinv.len], fun _ => hin, ?_, ?_⟩, ?_⟩
        · intro h; simp only [hin] at h; cases h
        · intro _
          have := run_snoc_bs _ _ hrun
          simpa using this
        · simp [stOf, hes, hin, S.quotesClosedAux]
      · have hm : mtStep s c = { s with v := c :: s.v, len := s.len + 1 } := by
          unfold mtStep
          simp only [hes, hin, Bool.not_true, Bool.false_and, Bool.false_eq_true, if_false, hq, Bool.true_and,
            hb, decide_false]
        rw [hm]
        refine ⟨⟨by simp [hinv.len], ?_, ?_, ?_⟩, ?_⟩
        · intro h; simp only [hes] at h; cases h
        · intro h; simp only [hin] at h; cases h
        · intro _
          simp only [hes, Bool.false_eq_true, if_false]
          have := run_snoc_str _ _ c hrun hq hb
          simpa using this
        · simp [stOf, hes, hin, S.quotesClosedAux, hq, hb]

end Verif.Proofs.Mediatype

namespace Verif.Proofs.Mediatype
open Verif Verif.Model.DataURI

theorem fold_inv (rest pre : List Char) (s : MtState) (hinv : Inv pre s)
    (hq : S.quotesClosedAux (stOf s) rest = true) :
    Inv (pre ++ rest) (rest.foldl mtStep s) ∧ (rest.foldl mtStep s).inStr = false := by
  induction rest generalizing pre s with
  | nil =>
    refine ⟨by simpa using hinv, ?_⟩
    simp only [List.foldl_nil]
    cases h : s.inStr
    · rfl
    · cases he : s.esc <;> simp [S.quotesClosedAux, stOf, h, he] at hq
  | cons c r ih =>
    obtain ⟨hinv', hq'⟩ := step pre s c r hinv
    rw [hq'] at hq
    obtain ⟨h1, h2⟩ := ih (pre ++ [c]) (mtStep s c) hinv' hq
    exact ⟨by simpa using h1, by simpa using h2⟩

theorem inv_init : Inv [] {} where
  len := rfl
  escIn := fun h => by cases h
  out := fun _ => ⟨[], [], [], [], rfl, rfl, rfl, by simp [runTo], by simp [img]⟩
  ins := fun h => by cases h

/-- **the media type helper only lower-cases and strips whitespace outside quoted strings**, for every input
    whose quoted strings are closed -/
theorem mediatype_ok (b : List Char) (hc : S.quotesClosed b = true) :
    S.specMediatypeOK 0 b (mediatype b) = true := by
  obtain ⟨hinv, hin⟩ := fold_inv b [] {} inv_init hc
  obtain ⟨pre1, pre2, closed, tail, hpre, hv, hl, hrun, himg⟩ := hinv.out hin
  unfold mediatype
  simp only []
  rw [lower_final _ closed tail hv hl hinv.len]
  simp only [List.nil_append] at hpre
  have hr : runTo 0 (pre1 ++ pre2) (closed ++ tail.map toLower) = some 0 :=
    run_append pre1 pre2 closed _ 0 0 0 hrun (img_run _ _ (img_lower _ _ himg))
  rw [← hpre] at hr
  have : ((List.map toLower tail).reverse ++ closed.reverse).reverse = closed ++ tail.map toLower := by simp
  rw [this]
  exact ok_of_run b _ 0 0 hr

end Verif.Proofs.Mediatype

import Verif.Model.DataURI
import Verif.Spec.Rfc2397
/-!
# helper lemmas for C18: `minify.Mediatype`
-/
namespace Verif.Proofs.Mediatype
open Verif Verif.Model.DataURI

theorem lowerRangeRev_length (lo hi : Nat) (l : List Char) (n : Nat) : (lowerRangeRev lo hi n l).length = l.length := by
  induction l generalizing n with
  | nil => rfl
  | cons c r ih => simp [lowerRangeRev, ih]

theorem mtStep_length (s : MtState) (c : Char) : (mtStep s c).v.length ≤ s.v.length + 1 := by
  unfold mtStep
  split
  · simp
  · split
    · split
      · simp only [List.length_cons]
        split <;> simp [lowerRangeRev_length]
      · simp
    · simp

theorem foldl_length (l : List Char) (s : MtState) : (l.foldl mtStep s).v.length ≤ s.v.length + l.length := by
  induction l generalizing s with
  | nil => simp
  | cons c r ih =>
    simp only [List.foldl_cons, List.length_cons]
    have := ih (mtStep s c)
    have := mtStep_length s c
    omega

theorem mediatype_length (b : List Char) : (mediatype b).length ≤ b.length := by
  unfold mediatype
  simp only [List.length_reverse, lowerRangeRev_length]
  have := foldl_length b {}
  simpa using this

end Verif.Proofs.Mediatype

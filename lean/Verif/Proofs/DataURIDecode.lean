import Verif.Proofs.DataURIParse
/-!
# helper lemmas for C18: the specification decoders against the dependency models
-/
set_option maxRecDepth 100000
namespace Verif.Proofs.DataURI
open Verif Verif.Model.DataURI

theorem hexv_eq (c : Char) : Verif.Spec.Rfc2397.hexv c = hexVal c := by
  unfold Verif.Spec.Rfc2397.hexv hexVal
  simp only [char_le_iff]
  have h0 : '0'.toNat = 48 := by decide
  have h9 : '9'.toNat = 57 := by decide
  have hA : 'A'.toNat = 65 := by decide
  have hF : 'F'.toNat = 70 := by decide
  have ha : 'a'.toNat = 97 := by decide
  have hf : 'f'.toNat = 102 := by decide
  simp only [h0, h9, hA, hF, ha, hf]
  by_cases h1 : 48 ≤ c.toNat ∧ c.toNat ≤ 57
  · simp [h1]
  · by_cases h2 : 65 ≤ c.toNat ∧ c.toNat ≤ 70
    · have h3 : ¬(97 ≤ c.toNat ∧ c.toNat ≤ 102) := by omega
      simp [h1, h2, h3]
    · simp [h1, h2]

theorem pctDecode_eq_decodeURL (p : List Char) (hp : '+' ∉ p) : S.pctDecode p = decodeURL p := by
  fun_induction decodeURL p with
  | case1 => rfl
  | case2 a b r x y ha hb ih =>
    have hr : '+' ∉ r := fun e => hp (by simp [e])
    simp only [S.pctDecode, if_true, hexv_eq, ha, hb, ih hr, Nat.mul_comm]
  | case3 a b r hn ih =>
    have hr : '+' ∉ a :: b :: r := fun e => hp (by simp [e])
    simp only [S.pctDecode, if_true, hexv_eq]
    rw [ih hr]
  | case4 c a b r hc ih =>
    have hr : '+' ∉ a :: b :: r := fun e => hp (by simp [e])
    have hcp : c ≠ '+' := fun e => hp (by simp [e])
    simp only [S.pctDecode, hc, if_false, hcp, ih hr]
  | case5 c r hshort ih =>
    have hr : '+' ∉ r := fun e => hp (by simp [e])
    have hcp : c ≠ '+' := fun e => hp (by simp [e])
    rw [S.pctDecode]
    · simp [hcp, ih hr]
    · exact hshort

/-! ## base64: the RFC 4648 reader is the padding-strict core of the Go decoder -/

theorem sextet_eq_small : ∀ n, n < 128 → S.sextet (Char.ofNat n) = b64Val (Char.ofNat n) := by decide +kernel

theorem alphabet_small : ∀ x ∈ Verif.Spec.Rfc2397.b64Alphabet, x.toNat < 128 := by decide

theorem sextet_eq (c : Char) : S.sextet c = b64Val c := by
  by_cases h : c.toNat < 128
  · have := sextet_eq_small c.toNat h
    rwa [Char.ofNat_toNat] at this
  · have hnm : c ∉ Verif.Spec.Rfc2397.b64Alphabet := fun hm => h (alphabet_small c hm)
    have h1 : S.sextet c = none := by
      unfold S.sextet
      rw [List.idxOf_eq_length hnm]
      decide
    rw [h1]
    unfold b64Val
    simp only [char_le_iff, char_eq_iff]
    have hA : 'A'.toNat = 65 := by decide
    have hZ : 'Z'.toNat = 90 := by decide
    have ha : 'a'.toNat = 97 := by decide
    have hz : 'z'.toNat = 122 := by decide
    have h0 : '0'.toNat = 48 := by decide
    have h9 : '9'.toNat = 57 := by decide
    have hp : '+'.toNat = 43 := by decide
    have hs : '/'.toNat = 47 := by decide
    simp only [hA, hZ, ha, hz, h0, h9, hp, hs]
    have e1 : ¬(65 ≤ c.toNat ∧ c.toNat ≤ 90) := by omega
    have e2 : ¬(97 ≤ c.toNat ∧ c.toNat ≤ 122) := by omega
    have e3 : ¬(48 ≤ c.toNat ∧ c.toNat ≤ 57) := by omega
    have e4 : ¬(c.toNat = 43) := by omega
    have e5 : ¬(c.toNat = 47) := by omega
    simp [e1, e2, e3, e4, e5]

theorem b64Val_lt {c : Char} {x : Nat} (h : b64Val c = some x) : x < 64 := by
  unfold b64Val at h
  simp only [char_le_iff, char_eq_iff] at h
  have hA : 'A'.toNat = 65 := by decide
  have hZ : 'Z'.toNat = 90 := by decide
  have ha : 'a'.toNat = 97 := by decide
  have hz : 'z'.toNat = 122 := by decide
  have h0 : '0'.toNat = 48 := by decide
  have h9 : '9'.toNat = 57 := by decide
  simp only [hA, hZ, ha, hz, h0, h9] at h
  split at h
  · cases h; omega
  · split at h
    · cases h; omega
    · split at h
      · cases h; omega
      · split at h
        · cases h; omega
        · split at h
          · cases h; omega
          · cases h

theorem b64Val_pad : b64Val '=' = none := by decide

theorem b64Decode_eq_core : ∀ p : List Char, S.b64Decode p = b64decCore p
  | [] => rfl
  | [_] => by simp [S.b64Decode, b64decCore]
  | [_, _] => by simp [S.b64Decode, b64decCore]
  | [_, _, _] => by simp [S.b64Decode, b64decCore]
  | a :: b :: c :: d :: r => by
    have ih := b64Decode_eq_core r
    by_cases hd : d = '='
    · subst hd
      cases r with
      | cons e t =>
        rw [S.b64Decode]
        · simp [b64decCore, sextet_eq, b64Val_pad]
        all_goals simp
      | nil =>
        by_cases hc : c = '='
        · subst hc
          simp only [S.b64Decode, b64decCore, sextet_eq, if_true, ne_eq, not_true_eq_false, if_false]
          cases hx : b64Val a <;> cases hy : b64Val b <;> simp only []
          rename_i x y
          have := b64Val_lt hx; have := b64Val_lt hy
          have : (x * 64 + y) / 16 = x * 4 + y / 16 := by omega
          rw [this]
        · rw [S.b64Decode]
          · simp only [b64decCore, sextet_eq, if_true, ne_eq, not_true_eq_false, if_false, hc]
            cases hx : b64Val a <;> cases hy : b64Val b <;> cases hz : b64Val c <;> simp only []
            rename_i x y z
            have := b64Val_lt hx; have := b64Val_lt hy; have := b64Val_lt hz
            have e1 : ((x * 64 + y) * 64 + z) / 1024 = x * 4 + y / 16 := by omega
            have e2 : ((x * 64 + y) * 64 + z) / 4 % 256 = y % 16 * 16 + z / 4 := by omega
            simp only [e1, e2]
          · intro e; exact absurd e hc
    · rw [S.b64Decode]
      · simp only [b64decCore, hd, if_false, sextet_eq, ih]
        cases hx : b64Val a <;> cases hy : b64Val b <;> cases hz : b64Val c <;> cases hw : b64Val d <;>
          cases ht : b64decCore r <;> simp only []
        rename_i x y z w t
        have := b64Val_lt hx; have := b64Val_lt hy; have := b64Val_lt hz; have := b64Val_lt hw
        have e1 : (((x * 64 + y) * 64 + z) * 64 + w) / 65536 = x * 4 + y / 16 := by omega
        have e2 : (((x * 64 + y) * 64 + z) * 64 + w) / 256 % 256 = y % 16 * 16 + z / 4 := by omega
        have e3 : (((x * 64 + y) * 64 + z) * 64 + w) % 256 = z % 4 * 64 + w := by omega
        simp only [e1, e2, e3]
      all_goals (intros; simp_all)

theorem b64Val_not_crlf {c : Char} {x : Nat} (h : b64Val c = some x) : (!(c = '\n' || c = '\r')) = true := by
  by_cases h1 : c = '\n'
  · subst h1; have : b64Val '\n' = none := by decide
    rw [this] at h; cases h
  · by_cases h2 : c = '\r'
    · subst h2; have : b64Val '\r' = none := by decide
      rw [this] at h; cases h
    · simp [h1, h2]

/-- what the padding-strict core accepts contains no CR/LF, so Go's decoder reads it the same way -/
theorem core_filter : ∀ (p d : List Char), b64decCore p = some d →
    p.filter (fun c => !(c = '\n' || c = '\r')) = p
  | [], _, _ => rfl
  | [_], _, h => by simp [b64decCore] at h
  | [_, _], _, h => by simp [b64decCore] at h
  | [_, _, _], _, h => by simp [b64decCore] at h
  | a :: b :: c :: e :: r, d, h => by
    unfold b64decCore at h
    by_cases he : e = '='
    · subst he
      simp only [if_true] at h
      cases r with
      | cons _ _ => simp at h
      | nil =>
        simp only [ne_eq, not_true_eq_false, if_false] at h
        by_cases hc : c = '='
        · subst hc
          simp only [if_true] at h
          cases hx : b64Val a <;> cases hy : b64Val b <;> simp [hx, hy] at h
          simp [List.filter, b64Val_not_crlf hx, b64Val_not_crlf hy]
        · simp only [hc, if_false] at h
          cases hx : b64Val a <;> cases hy : b64Val b <;> cases hz : b64Val c <;> simp [hx, hy, hz] at h
          simp [List.filter, b64Val_not_crlf hx, b64Val_not_crlf hy, b64Val_not_crlf hz]
    · simp only [he, if_false] at h
      cases hx : b64Val a <;> cases hy : b64Val b <;> cases hz : b64Val c <;> cases hw : b64Val e <;>
        cases ht : b64decCore r <;> simp [hx, hy, hz, hw, ht] at h
      rename_i x y z w t
      have ih := core_filter r t ht
      simp only [List.filter, b64Val_not_crlf hx, b64Val_not_crlf hy, b64Val_not_crlf hz, b64Val_not_crlf hw, ih]

theorem b64Decode_imp_b64dec (p d : List Char) (h : S.b64Decode p = some d) : b64dec p = some d := by
  rw [b64Decode_eq_core] at h
  unfold b64dec
  rw [core_filter p d h, h]

/-- the RFC reader inverts the encoder -/
theorem b64Decode_b64enc (bs : List Char) (hb : AllBytes bs) : S.b64Decode (b64enc bs) = some bs := by
  rw [b64Decode_eq_core, b64decCore_b64enc bs hb]

/-! ## decoded data are bytes -/

theorem ofNat_byte {n : Nat} (h : n < 256) : (Char.ofNat n).toNat < 256 := by
  rw [toNat_ofNat_small (by omega)]; exact h

theorem core_allBytes : ∀ (p d : List Char), b64decCore p = some d → AllBytes d
  | [], d, h => by simp [b64decCore] at h; subst h; exact allBytes_nil
  | [_], _, h => by simp [b64decCore] at h
  | [_, _], _, h => by simp [b64decCore] at h
  | [_, _, _], _, h => by simp [b64decCore] at h
  | a :: b :: c :: e :: r, d, h => by
    unfold b64decCore at h
    by_cases he : e = '='
    · subst he
      simp only [if_true] at h
      cases r with
      | cons _ _ => simp at h
      | nil =>
        simp only [ne_eq, not_true_eq_false, if_false] at h
        by_cases hc : c = '='
        · subst hc
          simp only [if_true] at h
          cases hx : b64Val a <;> cases hy : b64Val b <;> simp [hx, hy] at h
          rename_i x y
          have := b64Val_lt hx; have := b64Val_lt hy
          subst h
          intro ch hch
          simp only [List.mem_singleton] at hch
          subst hch
          exact ofNat_byte (by omega)
        · simp only [hc, if_false] at h
          cases hx : b64Val a <;> cases hy : b64Val b <;> cases hz : b64Val c <;> simp [hx, hy, hz] at h
          rename_i x y z
          have := b64Val_lt hx; have := b64Val_lt hy; have := b64Val_lt hz
          subst h
          intro ch hch
          simp only [List.mem_cons, List.not_mem_nil, or_false] at hch
          rcases hch with e1 | e1 <;> subst e1 <;> exact ofNat_byte (by omega)
    · simp only [he, if_false] at h
      cases hx : b64Val a <;> cases hy : b64Val b <;> cases hz : b64Val c <;> cases hw : b64Val e <;>
        cases ht : b64decCore r <;> simp [hx, hy, hz, hw, ht] at h
      rename_i x y z w t
      have := b64Val_lt hx; have := b64Val_lt hy; have := b64Val_lt hz; have := b64Val_lt hw
      have ih := core_allBytes r t ht
      subst h
      intro ch hch
      simp only [List.mem_cons] at hch
      rcases hch with e1 | e1 | e1 | e1
      · subst e1; exact ofNat_byte (by omega)
      · subst e1; exact ofNat_byte (by omega)
      · subst e1; exact ofNat_byte (by omega)
      · exact ih ch e1

theorem b64dec_allBytes (p d : List Char) (h : b64dec p = some d) : AllBytes d :=
  core_allBytes _ d h

theorem hexVal_lt {c : Char} {x : Nat} (h : hexVal c = some x) : x < 16 := by
  unfold hexVal at h
  simp only [char_le_iff] at h
  have h0 : '0'.toNat = 48 := by decide
  have h9 : '9'.toNat = 57 := by decide
  have hA : 'A'.toNat = 65 := by decide
  have hF : 'F'.toNat = 70 := by decide
  have ha : 'a'.toNat = 97 := by decide
  have hf : 'f'.toNat = 102 := by decide
  simp only [h0, h9, hA, hF, ha, hf] at h
  split at h
  · cases h; omega
  · split at h
    · cases h; omega
    · split at h
      · cases h; omega
      · cases h

theorem decodeURL_allBytes (p : List Char) (hp : AllBytes p) : AllBytes (decodeURL p) := by
  fun_induction decodeURL p with
  | case1 => exact allBytes_nil
  | case2 a b r x y ha hb ih =>
    have hr : AllBytes r := fun c hc => hp c (by simp [hc])
    have := hexVal_lt ha; have := hexVal_lt hb
    exact allBytes_cons.2 ⟨ofNat_byte (by omega), ih hr⟩
  | case3 a b r hn ih =>
    have hr : AllBytes (a :: b :: r) := fun c hc => hp c (List.mem_cons_of_mem _ hc)
    exact allBytes_cons.2 ⟨by decide, ih hr⟩
  | case4 c a b r hc ih =>
    have hr : AllBytes (a :: b :: r) := fun c hc => hp c (List.mem_cons_of_mem _ hc)
    refine allBytes_cons.2 ⟨?_, ih hr⟩
    split
    · decide
    · exact hp c (by simp)
  | case5 c r hshort ih =>
    have hr : AllBytes r := fun c hc => hp c (by simp [hc])
    refine allBytes_cons.2 ⟨?_, ih hr⟩
    split
    · decide
    · exact hp c (by simp)

end Verif.Proofs.DataURI

import Verif.Proofs.JsNumberDecimal
import Verif.Proofs.JsNumberInv
/-!
# C01N — removing the numeric separators of a decimal literal
-/
namespace Verif.Proofs.JsNumber
open Verif.Spec.JsNumberSem
open Verif.Model.JsNumber

/-- the lexeme without separators -/
def DLex.strip (L : DLex) : DLex :=
  { ip := stripSep L.ip, fp := L.fp.map stripSep, ex := L.ex.map (fun x => (x.1, x.2.1, stripSep x.2.2)) }

theorem rus_eq (b : List Char) : removeUnderscoresAndSuffix b = splitSuffix (stripSep b) := rfl

theorem strip_str (L : DLex) (h : L.Shape) : stripSep L.str = L.strip.str := by
  unfold DLex.str DLex.strip DLex.dotPart DLex.exPart
  simp only [stripSep_append]
  congr 1
  congr 1
  · cases L.fp with
    | none => rfl
    | some f => simp only [Option.map_some]; exact stripSep_cons_ne f (by decide)
  · cases hex : L.ex with
    | none => rfl
    | some x =>
      obtain ⟨c, sg, d⟩ := x
      obtain ⟨h1, h2, _⟩ := h.ex c sg d hex
      simp only [Option.map_some]
      have hc : c ≠ '_' := by rcases h1 with e | e <;> subst e <;> decide
      rw [stripSep_cons_ne _ hc, stripSep_append]
      have : stripSep sg = sg := by rcases h2 with e | e | e <;> subst e <;> rfl
      rw [this]

theorem strip_dec (L : DLex) : L.strip.dec = L.dec := by
  unfold DLex.dec DLex.fpd DLex.expVal DLex.strip
  simp only
  have hf : stripSep ((L.fp.map stripSep).getD []) = stripSep (L.fp.getD []) := by
    cases L.fp with
    | none => rfl
    | some f => simp only [Option.map_some, Option.getD_some, stripSep_idem]
  rw [hf, stripSep_idem]
  cases L.ex with
  | none => rfl
  | some x => obtain ⟨c, sg, d⟩ := x; simp only [Option.map_some, stripSep_idem]

theorem strip_val (L : DLex) : L.strip.val = L.val := by
  unfold DLex.val; rw [strip_dec]

theorem rest_head (l : DLex) (h : l.Shape) : ∀ c t, l.dotPart ++ l.exPart = c :: t → c.isDigit = false := by
  intro c t hc
  unfold DLex.dotPart at hc
  split at hc
  · simp only [List.nil_append] at hc
    rcases exPart_head l h c t hc with e | e <;> subst e <;> decide
  · simp only [List.cons_append] at hc
    injection hc with e _; subst e; decide

theorem strip_shape (L : DLex) (h : L.Shape) : L.strip.Shape where
  ip := (stripSep_allDig h.ip).allDS
  fp := by
    intro f hf
    unfold DLex.strip at hf
    simp only at hf
    cases hfp : L.fp with
    | none => rw [hfp] at hf; cases hf
    | some f' =>
      rw [hfp] at hf; simp only [Option.map_some] at hf
      injection hf with hf; subst hf
      exact (stripSep_allDig (h.fp f' hfp)).allDS
  ex := by
    intro c sg d hx
    unfold DLex.strip at hx
    simp only at hx
    cases hex : L.ex with
    | none => rw [hex] at hx; cases hx
    | some x =>
      obtain ⟨c', sg', d'⟩ := x
      rw [hex] at hx; simp only [Option.map_some] at hx
      injection hx with hx; injection hx with e1 hx; injection hx with e2 e3
      subst e1; subst e2; subst e3
      obtain ⟨h1, h2, h3⟩ := h.ex _ _ _ hex
      exact ⟨h1, h2, (stripSep_allDig h3).allDS⟩

/-- a decimal literal that is not of the legacy form, without its separators: a plain lexeme, again
    not of the legacy form -/
theorem strip_plain (L : DLex) (h : DecLit L) (hnl : isLegacyLike L.str = false) :
    L.strip.Plain ∧ isLegacyLike L.strip.str = false := by
  have hsh := h.shape
  have hplain : L.strip.Plain := {
    ip := stripSep_allDig hsh.ip
    fp := (by
      intro f hf
      unfold DLex.strip at hf
      simp only at hf
      cases hfp : L.fp with
      | none => rw [hfp] at hf; cases hf
      | some f' =>
        rw [hfp] at hf; simp only [Option.map_some] at hf
        injection hf with hf; subst hf
        exact stripSep_allDig (hsh.fp f' hfp))
    ex := (by
      intro c sg d hx
      unfold DLex.strip at hx
      simp only at hx
      cases hex : L.ex with
      | none => rw [hex] at hx; cases hx
      | some x =>
        obtain ⟨c', sg', d'⟩ := x
        rw [hex] at hx; simp only [Option.map_some] at hx
        injection hx with hx; injection hx with e1 hx; injection hx with e2 e3
        subst e1; subst e2; subst e3
        obtain ⟨h1, h2, h3⟩ := hsh.ex _ _ _ hex
        exact ⟨h1, h2, stripSep_allDig h3, (sepDigits_isDigit_spec (h.exok _ _ _ hex)).2⟩)
    ne := (by
      rcases h.ne with h1 | ⟨f, h1, h2⟩
      · rcases h.ipok with e | e
        · exact absurd e h1
        · left
          rcases isDecIntLit_spec e with e | ⟨c, r, e, _, _⟩ | ⟨c, r, e, _, _, h4⟩
          · unfold DLex.strip; simp only; rw [e]; decide
          · unfold DLex.strip; simp only; rw [e, stripSep_cons_ne _ (by decide)]; simp
          · unfold DLex.strip; simp only; rw [e]; exact (sepDigits_isDigit_spec h4).2
      · right
        exact ⟨stripSep f, by unfold DLex.strip; simp only; rw [h1]; rfl, (sepDigits_isDigit_spec h2).2⟩) }
  refine ⟨hplain, ?_⟩
  -- not of the legacy form
  have hrest := rest_head L.strip (strip_shape L hsh)
  rcases h.ipok with e | e
  · -- no integer part: the text starts with the dot
    have hip : L.strip.ip = [] := by unfold DLex.strip; simp only; rw [e]; rfl
    unfold DLex.str
    rw [hip, List.nil_append]
    cases hr : L.strip.dotPart ++ L.strip.exPart with
    | nil => rfl
    | cons c t =>
      apply isLegacyLike_cons_ne
      intro e0; have := hrest c t hr; rw [e0] at this; cases this
  · rcases isDecIntLit_spec e with e | ⟨c, r, e, hc, _⟩ | ⟨c, r, e, hc, hc0, _⟩
    · have hip : L.strip.ip = ['0'] := by unfold DLex.strip; simp only; rw [e]; rfl
      unfold DLex.str
      rw [hip]
      cases hr : L.strip.dotPart ++ L.strip.exPart with
      | nil => rfl
      | cons c t =>
        simp only [List.cons_append, List.nil_append]
        unfold isLegacyLike
        exact hrest c t hr
    · exfalso
      have : isLegacyLike L.str = true := by
        unfold DLex.str; rw [e]; simp only [List.cons_append]; unfold isLegacyLike; exact hc
      rw [this] at hnl; cases hnl
    · have hc_ : c ≠ '_' := digit_ne hc (by decide)
      have hip : L.strip.ip = c :: stripSep r := by
        unfold DLex.strip; simp only; rw [e, stripSep_cons_ne _ hc_]
      unfold DLex.str
      rw [hip, List.cons_append]
      exact isLegacyLike_cons_ne _ hc0

end Verif.Proofs.JsNumber

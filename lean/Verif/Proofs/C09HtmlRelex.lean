import Verif.Model.Html
import Verif.Spec.C09HtmlShape
/-!
# C09 / HTML — what the re-lex check of html.go (`rawTextEndsAtEnd`, commit 1557146) guarantees, in the terms of the standard

`Model/Html.lean` (C03) models the check concretely (`rawEnd` = the dependency lexer's `shiftRawText`).  Here: if the
lexer reads `<name>` + b + `</name>` back as start tag, text `b`, end tag, then `b` holds no appropriate end tag of `name` in
the sense of the HTML standard — for `script` provided `b` holds no `<!--` (inside an escaped section the lexer's and the
standard's rules differ: `rawTextEndsAtEnd_script_counterexample`).  Also: `bytesContain` (the model's substring test) in terms
of the Spec-side patterns.
-/
namespace Verif.Proofs.C09HtmlRelex
open Verif.Model.Html Verif.Model.HtmlAttr Verif.Spec.C09HtmlShape Verif.Spec.C09HtmlTok

theorem isAlpha_eq (c : Char) : Verif.Model.Html.rawLetter c = Verif.Spec.HtmlAttr.isAlpha c := by
  simp only [Verif.Model.Html.rawLetter, Verif.Spec.HtmlAttr.isAlpha, Char.le_def, Char.toNat]
  have h1 : ('a' : Char).val.toNat = 97 := rfl
  have h2 : ('z' : Char).val.toNat = 122 := rfl
  have h3 : ('A' : Char).val.toNat = 65 := rfl
  have h4 : ('Z' : Char).val.toNat = 90 := rfl
  simp only [UInt32.le_iff_toNat_le, h1, h2, h3, h4]
  rw [Bool.or_comm]

theorem lowerChar_eq (c : Char) : rawLower c = lower c := by
  simp only [rawLower, lower, Char.le_def, Char.toNat, Bool.and_eq_true, decide_eq_true_eq]
  have h3 : ('A' : Char).val.toNat = 65 := rfl
  have h4 : ('Z' : Char).val.toNat = 90 := rfl
  simp only [UInt32.le_iff_toNat_le, h3, h4]

theorem rawEnd_ge (name : List Char) : ∀ (l : List Char) (mode skip pos : Nat), pos ≤ rawEnd name mode skip pos l := by
  intro l
  induction l with
  | nil => intro mode skip pos; cases mode <;> cases skip <;> simp [rawEnd]
  | cons c r ih =>
    intro mode skip pos
    cases skip with
    | succ k => simp only [rawEnd]; exact Nat.le_trans (Nat.le_succ _) (ih mode k (pos + 1))
    | zero =>
      cases mode with
      | zero =>
        simp only [rawEnd]
        repeat (any_goals split)
        all_goals first | exact Nat.le_refl _ | exact Nat.le_trans (Nat.le_succ _) (ih _ _ _)
      | succ m =>
        simp only [rawEnd]
        repeat (any_goals split)
        all_goals first | exact Nat.le_refl _ | exact Nat.le_trans (Nat.le_succ _) (ih _ _ _)

theorem alpha_of_lower_alpha (c : Char) (h : Verif.Spec.HtmlAttr.isAlpha (lower c) = true) :
    Verif.Spec.HtmlAttr.isAlpha c = true := by
  unfold lower at h
  split at h
  · next hu => simp only [Verif.Spec.HtmlAttr.isAlpha, Bool.or_eq_true, Bool.and_eq_true, decide_eq_true_eq]; exact Or.inl hu
  · exact h

theorem delim_not_alpha (d : Char) (h : isDelim d = true) : Verif.Spec.HtmlAttr.isAlpha d = false := by
  simp only [isDelim, Verif.Spec.HtmlAttr.isWs, Bool.or_eq_true, decide_eq_true_eq] at h
  rcases h with (((((h | h) | h) | h) | h) | h) | h <;> subst h <;> rfl

/-- an appropriate end tag (standard) at the head is an end tag for the lexer too -/
theorem wordIs_of_startsEndTag (name : List Char) (hg : goodRawTag name = true) (r tail : List Char)
    (h : startsEndTag name ('<' :: '/' :: r) = true) : wordIs name (r ++ tail) = true := by
  simp only [startsEndTag, Bool.and_eq_true, beq_iff_eq] at h
  obtain ⟨h1, h2⟩ := h
  cases hd : r.drop name.length with
  | nil => rw [hd] at h2; cases h2
  | cons d r2 =>
    rw [hd] at h2
    have hr : r = r.take name.length ++ d :: r2 := by rw [← hd, List.take_append_drop]
    simp only [goodRawTag, Bool.and_eq_true, Bool.not_eq_true', List.all_eq_true, beq_iff_eq] at hg
    have halpha : ∀ c ∈ r.take name.length, Verif.Model.Html.rawLetter c = true := by
      intro c hc
      rw [isAlpha_eq]
      apply alpha_of_lower_alpha
      have : lower c ∈ name := by rw [← h1]; exact List.mem_map_of_mem hc
      exact (hg.2 _ this).1
    have hdn : Verif.Model.Html.rawLetter d = false := by rw [isAlpha_eq]; exact delim_not_alpha d h2
    unfold wordIs
    rw [hr, List.append_assoc]
    have : ((r.take name.length) ++ (d :: r2 ++ tail)).takeWhile Verif.Model.Html.rawLetter = r.take name.length := by
      have := List.takeWhile_append_of_pos (p := Verif.Model.Html.rawLetter) (l₂ := d :: r2 ++ tail) halpha
      rw [this]; simp [List.takeWhile, hdn]
    rw [this]
    have : (r.take name.length).map rawLower = (r.take name.length).map lower :=
      List.map_congr_left (fun c _ => lowerChar_eq c)
    rw [this, h1]; simp

theorem not_prefix_bang (b rest : List Char) (hr : rest.head? = some '<')
    (h : hasInfix commentOpen ('<' :: b) = false) : (s "!--").isPrefixOf (b ++ rest) = false := by
  simp only [hasInfix, commentOpen, Bool.or_eq_false_iff] at h
  have h1 := h.1
  match b, h1 with
  | [], _ => cases rest <;> simp_all [s, List.isPrefixOf]
  | [x], _ => cases rest with
    | nil => simp [s, List.isPrefixOf]
    | cons y t => simp only [List.head?_cons, Option.some.injEq] at hr; subst hr; simp [s, List.isPrefixOf]
  | [x, y], _ => cases rest with
    | nil => simp [s, List.isPrefixOf]
    | cons z t => simp only [List.head?_cons, Option.some.injEq] at hr; subst hr; simp [s, List.isPrefixOf]
  | x :: y :: z :: t, h1 => simpa [s, List.isPrefixOf] using h1

/-- **what the re-lex check guarantees outside escaped sections**: if the lexer, in its plain raw-text mode, does not stop
    inside `b` (it reaches the `</name>` appended behind it), then `b` holds no appropriate end tag of the HTML standard;
    for `script`: provided `b` holds no `<!--` -/
theorem rawEnd0_noEndTag (name : List Char) (hg : goodRawTag name = true) (rest : List Char)
    (hr : rest.head? = some '<') : ∀ (b : List Char) (pos : Nat),
    (name = s "script" → hasInfix commentOpen b = false) →
    rawEnd name 0 0 pos (b ++ rest) = pos + b.length → hasEndTag name b = false := by
  intro b
  induction b with
  | nil => intro _ _ _; rfl
  | cons c b ih =>
    intro pos hs h
    have hs' : name = s "script" → hasInfix commentOpen b = false := by
      intro e
      have := hs e
      cases b with
      | nil => rfl
      | cons d b' => simp only [hasInfix, Bool.or_eq_false_iff] at this; simpa [hasInfix] using this.2
    simp only [List.cons_append, rawEnd] at h
    have hlen : pos + (c :: b).length = (pos + 1) + b.length := by simp only [List.length_cons]; omega
    simp only [hasEndTag, Bool.or_eq_false_iff]
    by_cases hc : c = '<'
    · subst hc
      simp only [if_true] at h
      split at h
      · next hsl =>
        split at h
        · exact absurd h (by simp only [List.length_cons]; omega)
        · next hw =>
          refine ⟨?_, ih (pos + 1) hs' (by rw [h, hlen])⟩
          cases hse : startsEndTag name ('<' :: b) with
          | false => rfl
          | true =>
            exfalso
            cases b with
            | nil => simp [startsEndTag] at hse
            | cons d b' =>
              have hd : d = '/' := by
                cases b' <;> simp only [startsEndTag] at hse <;> (split at hse <;> simp_all)
              subst hd
              have := wordIs_of_startsEndTag name hg b' rest hse
              simp only [List.cons_append, List.drop_succ_cons, List.drop_zero] at hw
              exact hw this
      · next hsl =>
        have hno : startsEndTag name ('<' :: b) = false := by
          cases b with
          | nil => simp [startsEndTag]
          | cons d b' =>
            have : d ≠ '/' := by
              intro e; subst e; simp [headIs] at hsl
            unfold startsEndTag
            split
            · next heq => simp only [List.cons.injEq] at heq; exact absurd heq.2.1.symm (by intro e; exact this e.symm)
            · rfl
        split at h
        · next hsc =>
          exfalso
          simp only [Bool.and_eq_true, decide_eq_true_eq] at hsc
          have := not_prefix_bang b rest hr (hs hsc.1)
          rw [this] at hsc; exact absurd hsc.2 (by simp)
        · exact ⟨hno, ih (pos + 1) hs' (by rw [h, hlen])⟩
    · simp only [hc, if_false] at h
      refine ⟨?_, ih (pos + 1) hs' (by rw [h, hlen])⟩
      unfold startsEndTag
      split
      · next heq => simp only [List.cons.injEq] at heq; exact absurd heq.1 hc
      · rfl

/-- `rawTextEndsAtEnd` in the terms of the standard -/
theorem relex_noEndTag (name b : List Char) (hg : goodRawTag name = true)
    (hs : name = s "script" → hasInfix commentOpen b = false)
    (h : Verif.Model.Html.rawTextEndsAtEnd name b = true) : hasEndTag name b = false := by
  unfold Verif.Model.Html.rawTextEndsAtEnd at h
  have := rawEnd0_noEndTag name hg ('<' :: '/' :: name ++ ['>']) rfl b 0 hs (by simpa using h)
  exact this

/-- inside an escaped section the lexer's rules are weaker than the standard's: it takes `<script-x>` for the start of a
    nested script (the standard requires white space, `/` or `>` after the name), so it reads the whole of
    `<!--<script-x></script> y` as script text, while the standard ends the element at the first `</script>` -/
theorem rawTextEndsAtEnd_script_counterexample :
    Verif.Model.Html.rawTextEndsAtEnd (s "script") "<!--<script-x></script> y".toList = true ∧
    hasEndTag (s "script") "<!--<script-x></script> y".toList = true ∧
    runO { mode := .script, last := s "script" } "<!--<script-x></script> y</script>".toList =
      ("<!--<script-x>".toList.map (fun c => Tok.char c false)) ++ [.endTag (s "script")] ++
      (" y".toList.map (fun c => Tok.char c true)) ++ [.endTag (s "script")] := by
  decide +kernel

/-! ## the model's substring test -/

theorem bytesContain_eq_hasInfix (p l : List Char) : bytesContain p l = hasInfix p l := by
  induction l with
  | nil => rfl
  | cons c r ih => simp only [bytesContain, hasInfix, ih]

theorem hasClose_of_bytesContain (l : List Char)
    (h : (bytesContain (s "-->") l || bytesContain (s "--!>") l) = false) : hasClose l = false := by
  induction l with
  | nil => rfl
  | cons c r ih =>
    simp only [bytesContain, Bool.or_eq_false_iff] at h
    simp only [hasClose, closesAt, Bool.or_eq_false_iff]
    refine ⟨⟨?_, ?_⟩, ih (by simp only [Bool.or_eq_false_iff]; exact ⟨h.1.2, h.2.2⟩)⟩
    · simpa [s] using h.1.1
    · simpa [s] using h.2.1

end Verif.Proofs.C09HtmlRelex

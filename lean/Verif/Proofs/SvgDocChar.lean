import Verif.Model.SvgDoc
import Verif.Spec.Xml
/-!
# C05B — `isCharData` (/repo d582c28) against the XML 1.0 reading of character data

`isCharData b` ⇒ `b` contains no `<` and every `&` starts a reference in the sense of `Spec.Xml.specRef`
(character reference or entity reference, complete with `;`): the specification decoder produces no `bad` item.
-/
namespace Verif.Proofs.SvgDocChar
open Verif.Model.SvgDoc
open Verif.Spec.Xml (DCh specRef numRef decodeGo decodeText isNameChar isHex isDig)

theorem isHexD_eq : isHexD = isHex := rfl
theorem isNameCh_eq : isNameCh = isNameChar := rfl
theorem isDigit_eq : Verif.Model.Xml.isDigit = isDig := rfl

theorem nameStart_nameCh (c : Char) (h : isNameStart c = true) : isNameCh c = true := by
  simp only [isNameStart, Bool.or_eq_true] at h
  simp only [isNameCh, Bool.or_eq_true]
  rcases h with ((h | h) | h) | h
  · exact Or.inl (Or.inl (Or.inl (Or.inl (Or.inl (Or.inl h)))))
  · exact Or.inl (Or.inl (Or.inr h))
  · exact Or.inl (Or.inr h)
  · exact Or.inr h

theorem nameStart_not_hash (c : Char) (h : isNameStart c = true) : c ≠ '#' := by
  intro hc; subst hc; revert h; decide

/-- a reference accepted by `isCharData` is a reference of the specification, of the same length -/
theorem refLen_spec (r : List Char) (n : Nat) (h : refLen r = some n) :
    ∃ d, specRef r = some (d, n) ∧ d ≠ DCh.bad := by
  unfold refLen at h
  split at h
  · next r2 =>
    simp only at h
    split at h
    · simp at h
    · next hne =>
      split at h
      · next rest hd =>
        simp only [Option.some.injEq] at h
        refine ⟨DCh.c (Verif.Spec.Xml.numVal 16 (r2.takeWhile isHex)), ?_, by simp⟩
        have hd' : List.drop (List.takeWhile isHex r2).length r2 = ';' :: rest := by rw [← isHexD_eq]; exact hd
        have hne' : (List.takeWhile isHex r2).isEmpty = false := by rw [← isHexD_eq]; simpa using hne
        simp only [specRef, numRef, hd', hne', Bool.false_eq_true, if_false, Option.map_some]
        rw [← h, ← isHexD_eq]
      · simp at h
  · next r2 hx =>
    simp only at h
    split at h
    · simp at h
    · next hne =>
      split at h
      · next rest hd =>
        simp only [Option.some.injEq] at h
        refine ⟨DCh.c (Verif.Spec.Xml.numVal 10 (r2.takeWhile isDig)), ?_, by simp⟩
        have hd' : List.drop (List.takeWhile isDig r2).length r2 = ';' :: rest := hd
        have hne' : (List.takeWhile isDig r2).isEmpty = false := by rw [← isDigit_eq]; simpa using hne
        cases r2 with
        | nil => simp at hd
        | cons a r3 =>
          have ha : a ≠ 'x' := fun e => hx r3 (by rw [e])
          simp only [specRef]
          unfold numRef
          split
          · next r4 heq =>
            simp only [List.cons.injEq, true_and] at heq
            exact absurd heq.1 ha
          · next r4 hx2 heq =>
            simp only [List.cons.injEq, true_and] at heq
            subst heq
            simp only [hd', hne', Bool.false_eq_true, if_false, Option.map_some]
            rw [← h]; rfl
          · next h1 h2 => exact absurd rfl (h2 _)
      · simp at h
  · next c r2 h1 h2 =>
    split at h
    · next hs =>
      simp only at h
      split at h
      · next rest hd =>
        simp only [Option.some.injEq] at h
        have hc : c ≠ '#' := nameStart_not_hash c hs
        have htw : (c :: r2).takeWhile isNameChar = c :: r2.takeWhile isNameChar := by
          have : isNameChar c = true := by rw [← isNameCh_eq]; exact nameStart_nameCh c hs
          simp [List.takeWhile, this]
        have hd' : List.drop (c :: r2.takeWhile isNameChar).length (c :: r2) = ';' :: rest := by
          simp only [List.length_cons, List.drop_succ_cons]; rw [← isNameCh_eq]; exact hd
        have key : specRef (c :: r2) =
            some ((match Verif.Spec.Xml.predefined (c :: r2.takeWhile isNameChar) with
              | some v => DCh.c v | none => DCh.ent (c :: r2.takeWhile isNameChar)), (r2.takeWhile isNameChar).length + 2) := by
          unfold specRef
          split
          · next heq => simp only [List.cons.injEq] at heq; exact absurd heq.1 hc
          · simp only [htw, hd', List.isEmpty_cons, Bool.false_eq_true, if_false, List.length_cons]
            have hd2 : List.drop (List.takeWhile isNameChar r2).length r2 = ';' :: rest := by
              rw [← isNameCh_eq]; exact hd
            cases hp : Verif.Spec.Xml.predefined (c :: List.takeWhile isNameChar r2) <;> simp [hp, hd2]
        refine ⟨(match Verif.Spec.Xml.predefined (c :: r2.takeWhile isNameChar) with
              | some v => DCh.c v | none => DCh.ent (c :: r2.takeWhile isNameChar)), ?_, ?_⟩
        · rw [key, ← h, ← isNameCh_eq]
        · split <;> simp
      · simp at h
    · simp at h
  · simp at h

def notBad (d : DCh) : Bool := d != DCh.bad

theorem decode_ok : ∀ (l : List Char) (k : Nat), isCharDataGo k l = true → (decodeGo false k l).all notBad = true := by
  intro l
  induction l with
  | nil => intro k _; cases k <;> simp [decodeGo]
  | cons c r ih =>
    intro k h
    cases k with
    | succ k => simp only [isCharDataGo] at h; simp only [decodeGo]; exact ih k h
    | zero =>
      simp only [isCharDataGo] at h
      simp only [decodeGo]
      split at h
      · simp at h
      · split at h
        · next hamp =>
          have hamp' : c = '&' := by simpa using hamp
          split at h
          · next n hn =>
            obtain ⟨d, hd, hnb⟩ := refLen_spec r n hn
            simp only [hamp', beq_self_eq_true, if_true, hd, List.all_cons, Bool.and_eq_true]
            exact ⟨by simp [notBad, hnb], ih n h⟩
          · simp at h
        · next hamp =>
          simp only [hamp, Bool.false_eq_true, if_false, List.all_cons, Bool.and_eq_true]
          refine ⟨?_, ih 0 h⟩
          by_cases hc : c.toNat < 128 <;> simp [Verif.Spec.Xml.lit, notBad, hc]

/-- **isCharData is sound**: every `&` of an accepted byte string starts a complete reference (the specification
decoder yields no `bad` item) -/
theorem isCharData_refs (b : List Char) (h : isCharData b = true) : (decodeText b).all notBad = true :=
  decode_ok b 0 h

theorem mem_tw {α} (p : α → Bool) (l : List α) (x : α) (h : x ∈ l.takeWhile p) : p x = true := by
  induction l with
  | nil => simp at h
  | cons a l ih =>
    simp only [List.takeWhile_cons] at h
    split at h
    · next hp =>
      simp only [List.mem_cons] at h
      rcases h with h | h
      · rw [h]; exact hp
      · exact ih h
    · simp at h

theorem take_takeWhile_succ (p : Char → Bool) (r2 rest : List Char)
    (hd : r2.drop (r2.takeWhile p).length = ';' :: rest) :
    r2.take ((r2.takeWhile p).length + 1) = r2.takeWhile p ++ [';'] := by
  have hpre : r2.takeWhile p = r2.take (r2.takeWhile p).length :=
    List.prefix_iff_eq_take.mp (List.takeWhile_prefix p)
  rw [List.take_add, hd, ← hpre]
  rfl

theorem mem_tw_nolt (p : Char → Bool) (hp : p '<' = false) (l : List Char) : ∀ c ∈ l.takeWhile p ++ [';'], c ≠ '<' := by
  intro c hc hlt
  subst hlt
  simp only [List.mem_append, List.mem_singleton] at hc
  rcases hc with h | h
  · have := mem_tw p l _ h; rw [hp] at this; exact absurd this (by simp)
  · exact absurd h (by decide)

/-- the bytes of a reference accepted by `isCharData` contain no `<` -/
theorem refLen_nolt (r : List Char) (n : Nat) (h : refLen r = some n) : ∀ c ∈ r.take n, c ≠ '<' := by
  unfold refLen at h
  split at h
  · next r2 =>
    simp only at h
    split at h
    · simp at h
    · split at h
      · next rest hdr =>
        simp only [Option.some.injEq] at h
        subst h
        intro c hc
        have e : (r2.takeWhile isHexD).length + 3 = ((r2.takeWhile isHexD).length + 1) + 1 + 1 := by omega
        rw [e, List.take_succ_cons, List.take_succ_cons, take_takeWhile_succ isHexD r2 rest hdr] at hc
        simp only [List.mem_cons] at hc
        rcases hc with h | h | h
        · rw [h]; decide
        · rw [h]; decide
        · exact mem_tw_nolt isHexD (by decide) r2 c h
      · simp at h
  · next r2 hx =>
    simp only at h
    split at h
    · simp at h
    · split at h
      · next rest hdr =>
        simp only [Option.some.injEq] at h
        subst h
        intro c hc
        have e : (r2.takeWhile Verif.Model.Xml.isDigit).length + 2 = ((r2.takeWhile Verif.Model.Xml.isDigit).length + 1) + 1 := by omega
        rw [e, List.take_succ_cons, take_takeWhile_succ _ r2 rest hdr] at hc
        simp only [List.mem_cons] at hc
        rcases hc with h | h
        · rw [h]; decide
        · exact mem_tw_nolt _ (by decide) r2 c h
      · simp at h
  · next c0 r2 h1 h2 =>
    split at h
    · next hs =>
      simp only at h
      split at h
      · next rest hdr =>
        simp only [Option.some.injEq] at h
        subst h
        intro c hc
        have e : (r2.takeWhile isNameCh).length + 2 = ((r2.takeWhile isNameCh).length + 1) + 1 := by omega
        rw [e, List.take_succ_cons, take_takeWhile_succ _ r2 rest hdr] at hc
        simp only [List.mem_cons] at hc
        rcases hc with h | h
        · rw [h]; intro hlt; subst hlt; revert hs; decide
        · exact mem_tw_nolt _ (by decide) r2 c h
      · simp at h
    · simp at h
  · simp at h

theorem nolt_aux : ∀ (l : List Char) (k : Nat), isCharDataGo k l = true → (∀ c ∈ l.take k, c ≠ '<') →
    ∀ c ∈ l, c ≠ '<' := by
  intro l
  induction l with
  | nil => intro k _ _ c hc; simp at hc
  | cons a r ih =>
    intro k h hk c hc
    cases k with
    | succ k =>
      simp only [isCharDataGo] at h
      simp only [List.take_succ_cons, List.mem_cons] at hk
      simp only [List.mem_cons] at hc
      rcases hc with hc | hc
      · exact hk c (Or.inl hc)
      · exact ih k h (fun x hx => hk x (Or.inr hx)) c hc
    | zero =>
      simp only [isCharDataGo] at h
      simp only [List.mem_cons] at hc
      split at h
      · simp at h
      · next hlt =>
        have ha : a ≠ '<' := by simpa using hlt
        rcases hc with hc | hc
        · rw [hc]; exact ha
        · split at h
          · split at h
            · next n hn => exact ih n h (refLen_nolt r n hn) c hc
            · simp at h
          · exact ih 0 h (by simp) c hc

/-- **isCharData is sound**: an accepted byte string contains no `<` -/
theorem isCharData_nolt (b : List Char) (h : isCharData b = true) : ∀ c ∈ b, c ≠ '<' :=
  nolt_aux b 0 h (by simp)

end Verif.Proofs.SvgDocChar

import Verif.Proofs.C09HtmlTag
import Verif.Spec.C09HtmlShape
/-!
# C09 / HTML — `<!--` body `-->` is read back as one comment token with exactly that body

Invariant over the states *comment*, *comment end dash*, *comment end*, *comment end bang*: the data collected so far
plus the dashes / bang that are pending (`acc`) is what has been consumed, and pending ++ rest contains no `-->` / `--!>`.
-/
namespace Verif.Proofs.C09HtmlComment
open Verif.Spec.C09HtmlTok Verif.Spec.C09HtmlShape Verif.Spec.HtmlAttr Verif.Proofs.C09HtmlTok Verif.Proofs.C09HtmlTag

inductive CSt : S → Prop
  | comment (d : List Char) : CSt (.comment d)
  | endDash (d : List Char) : CSt (.commentEndDash d)
  | end_ (d : List Char) : CSt (.commentEnd d)
  | bang (d : List Char) : CSt (.commentEndBang d)

/-- everything consumed since `<!--` -/
def acc : S → List Char
  | .comment d => d
  | .commentEndDash d => d ++ ['-']
  | .commentEnd d => d ++ ['-', '-']
  | .commentEndBang d => d ++ ['-', '-', '!']
  | _ => []

def cpend : S → List Char
  | .commentEndDash _ => ['-']
  | .commentEnd _ => ['-', '-']
  | .commentEndBang _ => ['-', '-', '!']
  | _ => []

theorem hasClose_tail (c : Char) (w : List Char) (h : hasClose (c :: w) = false) : hasClose w = false := by
  simp only [hasClose, Bool.or_eq_false_iff] at h; exact h.2

theorem hasClose_drop (a b : List Char) (h : hasClose (a ++ b) = false) : hasClose b = false := by
  induction a with
  | nil => exact h
  | cons c a ih => exact ih (hasClose_tail c _ h)

theorem step_comment (m : M) (d : List Char) (c : Char) : step (at_ m (.comment d)) c =
    if c = '-' then (at_ m (.commentEndDash d), []) else (at_ m (.comment (d ++ [c])), []) := rfl

theorem step_endDash (m : M) (d : List Char) (c : Char) : step (at_ m (.commentEndDash d)) c =
    if c = '-' then (at_ m (.commentEnd d), [])
    else if c = '-' then (at_ m (.commentEndDash (d ++ ['-'])), []) else (at_ m (.comment (d ++ ['-'] ++ [c])), []) := rfl

theorem step_end (m : M) (d : List Char) (c : Char) : step (at_ m (.commentEnd d)) c =
    if c = '>' then (at_ m .text, [.comment d])
    else if c = '!' then (at_ m (.commentEndBang d), [])
    else if c = '-' then (at_ m (.commentEnd (d ++ ['-'])), [])
    else if c = '-' then (at_ m (.commentEndDash (d ++ ['-', '-'])), []) else (at_ m (.comment (d ++ ['-', '-'] ++ [c])), []) := rfl

theorem step_bang (m : M) (d : List Char) (c : Char) : step (at_ m (.commentEndBang d)) c =
    if c = '-' then (at_ m (.commentEndDash (d ++ ['-', '-', '!'])), [])
    else if c = '>' then (at_ m .text, [.comment d])
    else if c = '-' then (at_ m (.commentEndDash (d ++ ['-', '-', '!'])), [])
    else (at_ m (.comment (d ++ ['-', '-', '!'] ++ [c])), []) := rfl

/-- one character inside a comment -/
theorem comment_step (m : M) (s : S) (hs : CSt s) (c : Char) (w : List Char)
    (h : hasClose (cpend s ++ c :: w) = false) :
    ∃ s', step (at_ m s) c = (at_ m s', []) ∧ CSt s' ∧ acc s' = acc s ++ [c] ∧ hasClose (cpend s' ++ w) = false := by
  cases hs with
  | comment d =>
    rw [step_comment]
    by_cases h1 : c = '-'
    · subst h1; exact ⟨.commentEndDash d, by simp, .endDash d, rfl, by simpa [cpend] using h⟩
    · exact ⟨.comment (d ++ [c]), by simp [h1], .comment _, rfl, hasClose_tail c w (by simpa [cpend] using h)⟩
  | endDash d =>
    rw [step_endDash]
    by_cases h1 : c = '-'
    · subst h1; exact ⟨.commentEnd d, by simp, .end_ d, by simp [acc], by simpa [cpend] using h⟩
    · exact ⟨.comment (d ++ ['-'] ++ [c]), by simp [h1], .comment _, by simp [acc],
        hasClose_drop ['-', c] w (by simpa [cpend] using h)⟩
  | end_ d =>
    rw [step_end]
    by_cases h1 : c = '>'
    · subst h1; simp [cpend, hasClose, closesAt] at h
    · by_cases h2 : c = '!'
      · subst h2; exact ⟨.commentEndBang d, by simp, .bang d, by simp [acc], by simpa [cpend] using h⟩
      · by_cases h3 : c = '-'
        · subst h3
          exact ⟨.commentEnd (d ++ ['-']), by simp, .end_ _, by simp [acc],
            hasClose_tail '-' _ (by simpa [cpend] using h)⟩
        · exact ⟨.comment (d ++ ['-', '-'] ++ [c]), by simp [h1, h2, h3], .comment _, by simp [acc],
            hasClose_drop ['-', '-', c] w (by simpa [cpend] using h)⟩
  | bang d =>
    rw [step_bang]
    by_cases h1 : c = '-'
    · subst h1
      exact ⟨.commentEndDash (d ++ ['-', '-', '!']), by simp, .endDash _, by simp [acc],
        hasClose_drop ['-', '-', '!'] _ (by simpa [cpend] using h)⟩
    · by_cases h2 : c = '>'
      · subst h2; simp [cpend, hasClose, closesAt] at h
      · exact ⟨.comment (d ++ ['-', '-', '!'] ++ [c]), by simp [h1, h2], .comment _, by simp [acc],
          hasClose_drop ['-', '-', '!', c] w (by simpa [cpend] using h)⟩

theorem comment_scan (m : M) : ∀ (w : List Char) (s : S), CSt s → hasClose (cpend s ++ w) = false →
    ∃ s', runS (at_ m s) w = at_ m s' ∧ runO (at_ m s) w = [] ∧ CSt s' ∧ acc s' = acc s ++ w := by
  intro w
  induction w with
  | nil => intro s hs _; exact ⟨s, rfl, rfl, hs, by simp⟩
  | cons c w ih =>
    intro s hs h
    obtain ⟨s1, e, r, a, h1⟩ := comment_step m s hs c w h
    obtain ⟨s', e', o', r', a'⟩ := ih s1 r h1
    exact ⟨s', by rw [runS_cons, e]; exact e', by rw [runO_cons, e]; simpa using o', r', by rw [a', a]; simp⟩

/-- the two ways to close a comment -/
inductive Closer : List Char → Prop
  | normal : Closer ['-', '-', '>']
  | bang : Closer ['-', '-', '!', '>']

theorem comment_close (m : M) (s : S) (hs : CSt s) (cl : List Char) (hc : Closer cl) :
    runO (at_ m s) cl = [.comment (acc s)] ∧ runS (at_ m s) cl = at_ m .text := by
  cases hs <;> cases hc <;> simp [runO, runS, step_comment, step_endDash, step_end, step_bang, acc]

theorem run_open (m : M) (hs : m.s = .text) (hm : m.mode = .data) :
    runS m ['<', '!', '-', '-'] = at_ m .commentStart ∧ runO m ['<', '!', '-', '-'] = [] := by
  obtain ⟨a, b, c, d, e⟩ := m
  simp only at hs hm; subst hs; subst hm
  exact ⟨rfl, rfl⟩

theorem step_start (m : M) (c : Char) : step (at_ m .commentStart) c =
    if c = '-' then (at_ m .commentStartDash, [])
    else if c = '>' then (at_ m .text, [.comment []])
    else if c = '-' then (at_ m (.commentEndDash []), []) else (at_ m (.comment ([] ++ [c])), []) := rfl

theorem step_startDash (m : M) (c : Char) : step (at_ m .commentStartDash) c =
    if c = '-' then (at_ m (.commentEnd []), [])
    else if c = '>' then (at_ m .text, [.comment []])
    else if c = '-' then (at_ m (.commentEndDash ['-']), []) else (at_ m (.comment (['-'] ++ [c])), []) := rfl

/-- from the comment start state: a body that does not close the comment abruptly and holds no `-->` / `--!>`, then a closer -/
theorem comment_start (m : M) (body : List Char) (ha : abruptStart body = false) (hc : hasClose body = false)
    (cl : List Char) (hcl : Closer cl) :
    runO (at_ m .commentStart) (body ++ cl) = [.comment body] ∧
    runS (at_ m .commentStart) (body ++ cl) = at_ m .text := by
  -- finish from a state of the invariant reached after a prefix `pre` of the body
  have fin : ∀ (pre w : List Char) (s : S), body = pre ++ w → CSt s → acc s = pre →
      runS (at_ m .commentStart) pre = at_ m s → runO (at_ m .commentStart) pre = [] →
      hasClose (cpend s ++ w) = false →
      runO (at_ m .commentStart) (body ++ cl) = [.comment body] ∧
      runS (at_ m .commentStart) (body ++ cl) = at_ m .text := by
    intro pre w s hb hs hacc hS hO hcl'
    obtain ⟨s', e, o, r, a⟩ := comment_scan m w s hs hcl'
    obtain ⟨c1, c2⟩ := comment_close m s' r cl hcl
    rw [hb, List.append_assoc, runO_append, runS_append, hS, hO, runO_append, runS_append, e, o, c1, c2]
    simp [a, hacc]
  cases body with
  | nil => cases hcl <;> exact ⟨rfl, rfl⟩
  | cons c w =>
    by_cases h1 : c = '-'
    · subst h1
      cases w with
      | nil => cases hcl <;> exact ⟨rfl, rfl⟩
      | cons d w =>
        by_cases h2 : d = '-'
        · subst h2
          exact fin ['-', '-'] w (.commentEnd []) rfl (.end_ []) rfl rfl rfl (by simpa [cpend] using hc)
        · have h3 : d ≠ '>' := by intro e; subst e; simp [abruptStart] at ha
          refine fin ['-', d] w (.comment ['-', d]) rfl (.comment _) rfl ?_ ?_ (hasClose_drop ['-', d] w (by simpa [cpend] using hc))
          · simp [runS, step_start, step_startDash, h2, h3]
          · simp [runO, step_start, step_startDash, h2, h3]
    · have h3 : c ≠ '>' := by intro e; subst e; simp [abruptStart] at ha
      refine fin [c] w (.comment [c]) rfl (.comment _) rfl ?_ ?_ (hasClose_tail c w (by simpa [cpend] using hc))
      · simp [runS, step_start, h1, h3]
      · simp [runO, step_start, h1, h3]

/-- **a comment is read back**: in the data state, `<!--` + body + (`-->` | `--!>`), where the body does not start with
    `>` or `->` and holds no `-->` / `--!>`, is exactly one comment token with that body; the tokenizer is back in the
    data state. -/
theorem comment_reads_back (m : M) (hs : m.s = .text) (hm : m.mode = .data) (body cl more : List Char)
    (ha : abruptStart body = false) (hc : hasClose body = false) (hcl : Closer cl) :
    runO m (['<', '!', '-', '-'] ++ body ++ cl ++ more) = [.comment body] ++ runO m more ∧
    runS m (['<', '!', '-', '-'] ++ body ++ cl) = m := by
  have hm0 : at_ m .text = m := by obtain ⟨a, b, c, d, e⟩ := m; simp only at hs; subst hs; rfl
  obtain ⟨o1, o2⟩ := run_open m hs hm
  obtain ⟨c1, c2⟩ := comment_start m body ha hc cl hcl
  refine ⟨?_, ?_⟩
  · rw [List.append_assoc, List.append_assoc, runO_append, o1, o2, ← List.append_assoc, runO_append, c1, c2, hm0]; rfl
  · rw [List.append_assoc, runS_append, o1, c2, hm0]

end Verif.Proofs.C09HtmlComment

import Verif.Spec.SvgPath
import Verif.Spec.SvgHazard
import Verif.Model.SvgPath
/-!
# C05 helper lemmas: geometry of the single rewrites of `copyInstruction` (spec semantics, exact rationals)
-/
namespace Verif.Proofs.SvgGeom
open Verif.Spec.SvgPath Verif.Model.SvgPath

/-- arguments of a group after toggling absolute/relative: argument `i` is shifted by
    `altOffset k i dx dy` (exactly what `shortenAltPosInstruction` adds) -/
def shiftArgs (k : Kind) (dx dy : Rat) : Nat → List Rat → List Rat
  | _, [] => []
  | i, a :: r => (a + altOffset k i dx dy) :: shiftArgs k dx dy (i + 1) r

theorem len0 {α} (a : List α) (h : a.length = 0) : a = [] := by cases a <;> simp_all
theorem len1 {α} (a : List α) (h : a.length = 1) : ∃ x, a = [x] := by
  match a, h with
  | [x], _ => exact ⟨x, rfl⟩
theorem len2 {α} (a : List α) (h : a.length = 2) : ∃ x y, a = [x, y] := by
  match a, h with
  | [x, y], _ => exact ⟨x, y, rfl⟩
theorem len4 {α} (a : List α) (h : a.length = 4) : ∃ x y z w, a = [x, y, z, w] := by
  match a, h with
  | [x, y, z, w], _ => exact ⟨x, y, z, w, rfl⟩
theorem len6 {α} (a : List α) (h : a.length = 6) : ∃ x y z w u v, a = [x, y, z, w, u, v] := by
  match a, h with
  | [x, y, z, w, u, v], _ => exact ⟨x, y, z, w, u, v, rfl⟩
theorem len7 {α} (a : List α) (h : a.length = 7) : ∃ x y z w u v t, a = [x, y, z, w, u, v, t] := by
  match a, h with
  | [x, y, z, w, u, v, t], _ => exact ⟨x, y, z, w, u, v, t, rfl⟩

/-- relative → absolute: same segment, same next state -/
theorem toggle_rel_abs (s : St) (k : Kind) (a : List Rat) (h : a.length = k.arity) :
    stepCmd s ⟨k, true, a⟩ = stepCmd s ⟨k, false, shiftArgs k s.cur.1 s.cur.2 0 a⟩ := by
  cases k <;> simp only [Kind.arity] at h
  case Z => rw [len0 a h]; simp [stepCmd, shiftArgs]
  case H => obtain ⟨x, rfl⟩ := len1 a h; simp [stepCmd, shiftArgs, off, altOffset] <;> grind
  case V => obtain ⟨x, rfl⟩ := len1 a h; simp [stepCmd, shiftArgs, off, altOffset] <;> grind
  case M => obtain ⟨x, y, rfl⟩ := len2 a h; simp [stepCmd, shiftArgs, off, altOffset] <;> grind
  case L => obtain ⟨x, y, rfl⟩ := len2 a h; simp [stepCmd, shiftArgs, off, altOffset] <;> grind
  case T => obtain ⟨x, y, rfl⟩ := len2 a h; simp [stepCmd, shiftArgs, off, altOffset] <;> grind
  case S => obtain ⟨x, y, z, w, rfl⟩ := len4 a h; simp [stepCmd, shiftArgs, off, altOffset] <;> grind
  case Q => obtain ⟨x, y, z, w, rfl⟩ := len4 a h; simp [stepCmd, shiftArgs, off, altOffset] <;> grind
  case C => obtain ⟨x, y, z, w, u, v, rfl⟩ := len6 a h; simp [stepCmd, shiftArgs, off, altOffset] <;> grind
  case A => obtain ⟨x, y, z, w, u, v, t, rfl⟩ := len7 a h; simp [stepCmd, shiftArgs, off, altOffset] <;> grind

/-- absolute → relative: same segment, same next state -/
theorem toggle_abs_rel (s : St) (k : Kind) (a : List Rat) (h : a.length = k.arity) :
    stepCmd s ⟨k, false, a⟩ = stepCmd s ⟨k, true, shiftArgs k (-s.cur.1) (-s.cur.2) 0 a⟩ := by
  cases k <;> simp only [Kind.arity] at h
  case Z => rw [len0 a h]; simp [stepCmd, shiftArgs]
  case H => obtain ⟨x, rfl⟩ := len1 a h; simp [stepCmd, shiftArgs, off, altOffset] <;> grind
  case V => obtain ⟨x, rfl⟩ := len1 a h; simp [stepCmd, shiftArgs, off, altOffset] <;> grind
  case M => obtain ⟨x, y, rfl⟩ := len2 a h; simp [stepCmd, shiftArgs, off, altOffset] <;> grind
  case L => obtain ⟨x, y, rfl⟩ := len2 a h; simp [stepCmd, shiftArgs, off, altOffset] <;> grind
  case T => obtain ⟨x, y, rfl⟩ := len2 a h; simp [stepCmd, shiftArgs, off, altOffset] <;> grind
  case S => obtain ⟨x, y, z, w, rfl⟩ := len4 a h; simp [stepCmd, shiftArgs, off, altOffset] <;> grind
  case Q => obtain ⟨x, y, z, w, rfl⟩ := len4 a h; simp [stepCmd, shiftArgs, off, altOffset] <;> grind
  case C => obtain ⟨x, y, z, w, u, v, rfl⟩ := len6 a h; simp [stepCmd, shiftArgs, off, altOffset] <;> grind
  case A => obtain ⟨x, y, z, w, u, v, t, rfl⟩ := len7 a h; simp [stepCmd, shiftArgs, off, altOffset] <;> grind

theorem filterMap_single (s : Seg) : [s].filterMap simp1 = (simp1 s).toList := by
  simp only [List.filterMap_cons, List.filterMap_nil]; cases simp1 s <;> rfl

theorem simp1_degenerate_quad (a c b : Pt) (h : c = a ∨ c = b) : simp1 (.quad a c b) = simp1 (.line a b) := by
  simp [simp1, h]

theorem simp1_degenerate_cubic (a c1 c2 b : Pt) (h1 : c1 = a ∨ c1 = b) (h2 : c2 = a ∨ c2 = b) :
    simp1 (.cubic a c1 c2 b) = simp1 (.line a b) := by
  simp [simp1, h1, h2]

end Verif.Proofs.SvgGeom

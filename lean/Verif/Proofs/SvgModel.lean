import Verif.Proofs.SvgLex
import Verif.Proofs.SvgParse
import Verif.Proofs.SvgGeom
/-!
# C05 helper lemmas: the groups chosen by the model of `copyInstruction` are well-formed
(arity of the rewritten command, flags exactly at arc flag positions, moveto always printed)
-/
namespace Verif.Proofs.SvgModel
open Verif.Spec.SvgPath Verif.Spec.SvgHazard Verif.Model.SvgPath Verif.Proofs.SvgLex Verif.Proofs.SvgGeom

/-- a command kind with exactly its number of coordinates -/
def Shaped (k : Kind) (cs : List Coord) : Prop := cs.length = k.arity ∧ k ≠ .Z

theorem stageC_shaped (p a pc : Pt) (rx ry : Rat) (single kS : Bool) (k : Kind) (cs : List Coord) (h : Shaped k cs) :
    Shaped (stageC p a pc rx ry single kS k cs).2.1 (stageC p a pc rx ry single kS k cs).2.2 ∧
    ((stageC p a pc rx ry single kS k cs).2.1 = .M → k = .M) := by
  obtain ⟨hl, hz⟩ := h
  cases k <;> simp only [Kind.arity] at hl
  case Z => exact absurd rfl hz
  case C =>
    obtain ⟨a1, b, c, d, e, f, rfl⟩ := len6 cs hl
    simp only [stageC]
    repeat' split
    all_goals simp [Shaped, Kind.arity]
  case S =>
    obtain ⟨a1, b, c, d, rfl⟩ := len4 cs hl
    simp only [stageC]
    repeat' split
    all_goals simp [Shaped, Kind.arity]
  all_goals simp [stageC, Shaped, hl, Kind.arity]

theorem stageQ_shaped (p a pq : Pt) (rx ry : Rat) (single kT : Bool) (k : Kind) (cs : List Coord) (h : Shaped k cs) :
    Shaped (stageQ p a pq rx ry single kT k cs).2.1 (stageQ p a pq rx ry single kT k cs).2.2 ∧
    ((stageQ p a pq rx ry single kT k cs).2.1 = .M → k = .M) := by
  obtain ⟨hl, hz⟩ := h
  cases k <;> simp only [Kind.arity] at hl
  case Z => exact absurd rfl hz
  case Q =>
    obtain ⟨a1, b, c, d, rfl⟩ := len4 cs hl
    simp only [stageQ]
    repeat' split
    all_goals simp [Shaped, Kind.arity]
  case T =>
    obtain ⟨a1, b, rfl⟩ := len2 cs hl
    simp only [stageQ]
    repeat' split
    all_goals simp [Shaped, Kind.arity]
  all_goals simp [stageQ, Shaped, hl, Kind.arity]

theorem stageL_shaped (p a : Pt) (kz : Bool) (k : Kind) (cs : List Coord) (h : Shaped k cs) :
    Shaped (stageL p a kz k cs).1 (stageL p a kz k cs).2.1 ∧ ((stageL p a kz k cs).1 = .M → k = .M) := by
  obtain ⟨hl, hz⟩ := h
  cases k <;> simp only [Kind.arity] at hl
  case Z => exact absurd rfl hz
  case L =>
    obtain ⟨a1, b, rfl⟩ := len2 cs hl
    simp only [stageL]
    repeat' split
    all_goals simp [Shaped, Kind.arity]
  all_goals simp [stageL, Shaped, hl, Kind.arity]

theorem rewrite_shaped (st : MSt) (k : Kind) (rel single : Bool) (cs : List Coord) (ctx : Ctx) (h : Shaped k cs) :
    Shaped (rewrite st k rel single cs ctx).k (rewrite st k rel single cs ctx).cs ∧
    ((rewrite st k rel single cs ctx).k = .M → k = .M) := by
  simp only [rewrite]
  have h1 := stageC_shaped (st.x, st.y) (endPoint st.x st.y (if rel then st.x else 0) (if rel then st.y else 0) k cs)
    (reflPt st.x st.y st.c) (if rel then st.x else 0) (if rel then st.y else 0) single ctx.nextS k cs h
  have h2 := stageQ_shaped (st.x, st.y) (endPoint st.x st.y (if rel then st.x else 0) (if rel then st.y else 0) k cs)
    (reflPt st.x st.y st.q) (if rel then st.x else 0) (if rel then st.y else 0) single ctx.nextT _ _ h1.1
  have h3 := stageL_shaped (st.x, st.y) (endPoint st.x st.y (if rel then st.x else 0) (if rel then st.y else 0) k cs) ctx.keepZero _ _ h2.1
  exact ⟨h3.1, fun e => h1.2 (h2.2 (h3.2 e))⟩

/-! ## candidates -/

theorem curItems_len (P : NumPr) (k : Kind) : ∀ (cs : List Coord) (i : Nat), (curItemsFrom P k i cs).length = cs.length := by
  intro cs; induction cs with
  | nil => intro i; rfl
  | cons c r ih => intro i; simp [curItemsFrom, ih]

theorem altItems_len (P : NumPr) (k : Kind) (dx dy : Rat) :
    ∀ (cs : List Coord) (i : Nat), (altItemsFrom P k dx dy i cs).length = cs.length := by
  intro cs; induction cs with
  | nil => intro i; rfl
  | cons c r ih => intro i; simp [altItemsFrom, ih]

theorem curItems_ok (P : NumPr) (k : Kind) : ∀ (cs : List Coord) (i : Nat), itemsOk k i (curItemsFrom P k i cs) = true := by
  intro cs; induction cs with
  | nil => intro i; rfl
  | cons c r ih =>
    intro i
    simp only [curItemsFrom]
    cases h : isFlagIdx k i <;> simp [itemsOk, h, ih]

theorem altItems_ok (P : NumPr) (k : Kind) (dx dy : Rat) :
    ∀ (cs : List Coord) (i : Nat), itemsOk k i (altItemsFrom P k dx dy i cs) = true := by
  intro cs; induction cs with
  | nil => intro i; rfl
  | cons c r ih =>
    intro i
    simp only [altItemsFrom]
    cases h : isFlagIdx k i <;> simp [itemsOk, h, ih]

/-- structural well-formedness (everything but the shape of the numbers) -/
structure WfG (g : OutGroup) : Prop where
  len : g.k ≠ .Z → g.items.length = g.k.arity
  ok : itemsOk g.k 0 g.items = true
  force : g.k = .M → g.force = true

def AllWfG (out : List OutGroup) : Prop := ∀ g ∈ out, WfG g

theorem zGroup_wf : WfG zGroup := ⟨by simp [zGroup], by simp [zGroup, itemsOk], by simp [zGroup]⟩

theorem choose_cases (ps : PState) (a b : OutGroup) : choose ps a b = a ∨ choose ps a b = b := by
  unfold choose; split
  · exact Or.inr rfl
  · exact Or.inl rfl

theorem groupStep_out (P : NumPr) (st : MSt) (k0 : Kind) (rel first single : Bool) (cs : List Coord) (ctx : Ctx) :
    (groupStep P st k0 rel first single cs ctx).2 =
      if (rewrite st (groupKind k0 first) rel single cs ctx).skip then []
      else [chosen P st k0 rel first (rewrite st (groupKind k0 first) rel single cs ctx)] := by
  unfold groupStep
  generalize (rewrite st (groupKind k0 first) rel single cs ctx) = r
  by_cases h : r.skip = true <;> simp [h]

theorem groupStep_wf (P : NumPr) (st : MSt) (k0 : Kind) (rel first single : Bool) (cs : List Coord) (ctx : Ctx)
    (hs : Shaped (groupKind k0 first) cs) :
    AllWfG (groupStep P st k0 rel first single cs ctx).2 := by
  rw [groupStep_out]
  obtain ⟨⟨hlen, hz⟩, hM⟩ := rewrite_shaped st (groupKind k0 first) rel single cs ctx hs
  generalize (rewrite st (groupKind k0 first) rel single cs ctx) = r at hlen hz hM ⊢
  by_cases h : r.skip = true
  · simp only [h, if_true]; intro g hg; simp at hg
  · simp only [h, Bool.false_eq_true, if_false]
    have hforce : r.k = .M → isMoveFirst k0 first = true := by
      intro e
      have := hM e
      unfold groupKind at this
      unfold isMoveFirst
      cases first <;> cases hk : (k0 == Kind.M) <;> simp_all
    intro g hgm
    simp only [List.mem_cons, List.not_mem_nil, or_false] at hgm
    subst hgm
    unfold chosen
    rcases choose_cases st.ps (candidates P st (isMoveFirst k0 first) rel r).1
      (candidates P st (isMoveFirst k0 first) rel r).2 with e | e
    · rw [e]
      exact ⟨fun _ => by simp only [candidates, curItems_len]; exact hlen, curItems_ok _ _ _ _, hforce⟩
    · rw [e]
      exact ⟨fun _ => by simp only [candidates, altItems_len]; exact hlen, altItems_ok _ _ _ _ _ _, hforce⟩

theorem chunks_len (di : Nat) (hdi : 0 < di) : ∀ (f : Nat) (l : List Coord), l.length % di = 0 →
    ∀ c ∈ chunks di f l, c.length = di := by
  intro f
  induction f with
  | zero => intro l _ c hc; simp [chunks] at hc
  | succ f ih =>
    intro l hl c hc
    cases l with
    | nil => simp [chunks] at hc
    | cons x r =>
      simp only [chunks, List.mem_cons] at hc
      have hge : di ≤ (x :: r).length := by
        have : (x :: r).length ≠ 0 := by simp
        exact Nat.le_of_dvd (by omega) (Nat.dvd_of_mod_eq_zero hl)
      rcases hc with rfl | hc
      · rw [List.length_take]; simp only [List.length_cons] at hge ⊢; omega
      · apply ih ((x :: r).drop di) ?_ c hc
        rw [List.length_drop]
        have := Nat.dvd_of_mod_eq_zero hl
        exact Nat.mod_eq_zero_of_dvd (Nat.dvd_sub this (Nat.dvd_refl di))

theorem allWfG_append {a b : List OutGroup} (ha : AllWfG a) (hb : AllWfG b) : AllWfG (a ++ b) := by
  intro g hg
  rcases List.mem_append.1 hg with h | h
  · exact ha g h
  · exact hb g h

theorem groupKind_shaped (k0 : Kind) (first : Bool) (g : List Coord) (hk0 : k0 ≠ .Z) (hl : g.length = k0.arity) :
    Shaped (groupKind k0 first) g := by
  unfold groupKind
  cases first <;> cases hk : (k0 == Kind.M)
  · simp only [Bool.not_false, Bool.true_and, Bool.false_eq_true, if_false]; exact ⟨hl, hk0⟩
  · have : k0 = .M := by simpa using hk
    simp only [Bool.not_false, Bool.true_and, if_true]
    exact ⟨by rw [hl, this]; rfl, by decide⟩
  · simp only [Bool.not_true, Bool.false_and, Bool.false_eq_true, if_false]; exact ⟨hl, hk0⟩
  · simp only [Bool.not_true, Bool.false_and, Bool.false_eq_true, if_false]; exact ⟨hl, hk0⟩

theorem groupLoop_wf (P : NumPr) (k0 : Kind) (rel single : Bool) (next : Option Kind) (hk0 : k0 ≠ .Z) :
    ∀ (gs : List (List Coord)) (st : MSt) (first : Bool), (∀ c ∈ gs, c.length = k0.arity) →
    AllWfG (groupLoop P k0 rel single next st first gs).2 := by
  intro gs
  induction gs with
  | nil => intro st first _ g h; simp [groupLoop] at h
  | cons g r ih =>
    intro st first hlen
    simp only [groupLoop]
    exact allWfG_append
      (groupStep_wf P st k0 rel first (first && single) g _ (groupKind_shaped k0 first g hk0 (hlen g (by simp))))
      (ih _ _ (fun c hc => hlen c (by simp [hc])))

theorem instrArity_spec (k : Kind) (n di : Nat) (h : instrArity k n = some di) : di = k.arity ∧ n % di = 0 ∧ k ≠ .Z := by
  cases k <;> simp only [instrArity] at h
  all_goals first
    | (split at h <;> simp at h; subst h; refine ⟨rfl, ?_, by decide⟩; simp_all)
    | (simp at h; subst h; exact ⟨rfl, Nat.mod_one _, by decide⟩)
    | simp at h

theorem copyInstr_wf (P : NumPr) (st : MSt) (ins : Instr) (next : Option Kind) :
    AllWfG (copyInstr P st ins next).2 := by
  unfold copyInstr
  simp only
  split
  · split
    · intro g hg
      simp only [List.mem_cons, List.not_mem_nil, or_false] at hg
      subst hg; exact zGroup_wf
    · intro g hg; simp at hg
  · split
    · intro g hg; simp at hg
    · rename_i di hdi
      obtain ⟨h1, h2, h3⟩ := instrArity_spec _ _ _ hdi
      apply groupLoop_wf P ins.k ins.rel _ next h3 _ st true
      rw [← h1]
      exact chunks_len di (by rw [h1]; exact arity_pos _ h3) _ _ h2

theorem runInstrs_wf (P : NumPr) (final : Option Kind) : ∀ (is : List Instr) (st : MSt), AllWfG (runInstrs P final st is).2 := by
  intro is
  induction is with
  | nil => intro st g h; simp [runInstrs] at h
  | cons i r ih =>
    intro st
    simp only [runInstrs]
    exact allWfG_append (copyInstr_wf P st i _) (ih _)

/-- every group the model prints is structurally well-formed -/
theorem groupsOfInstrs_wf (P : NumPr) (is : List Instr) (final : Option Kind) : AllWfG (groupsOfInstrs P is final) :=
  runInstrs_wf P final is {}

/-! ## with a universal shape contract of the number printers every printed number is well-shaped -/

theorem curItems_good (P : NumPr) (hc : ∀ s, goodNum (P.cur s) = true) (k : Kind) :
    ∀ (cs : List Coord) (i : Nat) (s : List Char), PItem.num s ∈ curItemsFrom P k i cs → goodNum s = true := by
  intro cs; induction cs with
  | nil => intro i s h; simp [curItemsFrom] at h
  | cons c r ih =>
    intro i s h
    simp only [curItemsFrom, List.mem_cons] at h
    rcases h with h | h
    · split at h
      · cases h
      · cases h; exact hc _
    · exact ih _ s h

theorem altItems_good (P : NumPr) (ha : ∀ v, goodNum (P.alt v) = true) (k : Kind) (dx dy : Rat) :
    ∀ (cs : List Coord) (i : Nat) (s : List Char), PItem.num s ∈ altItemsFrom P k dx dy i cs → goodNum s = true := by
  intro cs; induction cs with
  | nil => intro i s h; simp [altItemsFrom] at h
  | cons c r ih =>
    intro i s h
    simp only [altItemsFrom, List.mem_cons] at h
    rcases h with h | h
    · split at h
      · cases h
      · cases h; exact ha _
    · exact ih _ s h

def AllGood (out : List OutGroup) : Prop := ∀ g ∈ out, ∀ s, PItem.num s ∈ g.items → goodNum s = true

theorem allGood_append {a b : List OutGroup} (ha : AllGood a) (hb : AllGood b) : AllGood (a ++ b) := by
  intro g hg
  rcases List.mem_append.1 hg with h | h
  · exact ha g h
  · exact hb g h

theorem groupStep_good (P : NumPr) (hc : ∀ s, goodNum (P.cur s) = true) (ha : ∀ v, goodNum (P.alt v) = true)
    (st : MSt) (k0 : Kind) (rel first single : Bool) (cs : List Coord) (ctx : Ctx) :
    AllGood (groupStep P st k0 rel first single cs ctx).2 := by
  rw [groupStep_out]
  generalize (rewrite st (groupKind k0 first) rel single cs ctx) = r
  by_cases h : r.skip = true
  · simp only [h, if_true]; intro g hg; simp at hg
  · simp only [h, Bool.false_eq_true, if_false]
    intro g hgm
    simp only [List.mem_cons, List.not_mem_nil, or_false] at hgm
    subst hgm
    unfold chosen
    rcases choose_cases st.ps (candidates P st (isMoveFirst k0 first) rel r).1
      (candidates P st (isMoveFirst k0 first) rel r).2 with e | e
    · rw [e]; intro s hs; exact curItems_good P hc _ _ _ s hs
    · rw [e]; intro s hs; exact altItems_good P ha _ _ _ _ _ s hs

theorem groupLoop_good (P : NumPr) (hc : ∀ s, goodNum (P.cur s) = true) (ha : ∀ v, goodNum (P.alt v) = true)
    (k0 : Kind) (rel single : Bool) (next : Option Kind) :
    ∀ (gs : List (List Coord)) (st : MSt) (first : Bool), AllGood (groupLoop P k0 rel single next st first gs).2 := by
  intro gs
  induction gs with
  | nil => intro st first g h; simp [groupLoop] at h
  | cons g r ih =>
    intro st first
    simp only [groupLoop]
    exact allGood_append (groupStep_good P hc ha st k0 rel first _ g _) (ih _ _)

theorem copyInstr_good (P : NumPr) (hc : ∀ s, goodNum (P.cur s) = true) (ha : ∀ v, goodNum (P.alt v) = true)
    (st : MSt) (ins : Instr) (next : Option Kind) : AllGood (copyInstr P st ins next).2 := by
  unfold copyInstr
  simp only
  split
  · split
    · intro g hg
      simp only [List.mem_cons, List.not_mem_nil, or_false] at hg
      subst hg; intro s hs; simp [zGroup] at hs
    · intro g hg; simp at hg
  · split
    · intro g hg; simp at hg
    · exact groupLoop_good P hc ha _ _ _ _ _ _ _

theorem printed_good (P : NumPr) (hc : ∀ s, goodNum (P.cur s) = true) (ha : ∀ v, goodNum (P.alt v) = true)
    (is : List Instr) (final : Option Kind) : AllGood (groupsOfInstrs P is final) := by
  have : ∀ (is : List Instr) (st : MSt), AllGood (runInstrs P final st is).2 := by
    intro is
    induction is with
    | nil => intro st g h; simp [runInstrs] at h
    | cons i r ih =>
      intro st
      simp only [runInstrs]
      exact allGood_append (copyInstr_good P hc ha st i _) (ih _)
  exact this is {}

end Verif.Proofs.SvgModel

import Verif.Proofs.NumDecRound
set_option linter.unusedSimpArgs false
/-!
# C08 — cutting a digit string after `P` digits with round-half-up: the half-unit bound, once and for all
-/
namespace Verif.Proofs.Num
open Verif.Model.Num

/-- the integer obtained by keeping the first `P` digits of `D` and rounding half up on the next one -/
def cutVal (D : List Char) (P : Nat) : Nat := natOf (D.take P) + (if ge5At D P then 1 else 0)

/-- `D·10^E0` and its cut `cutVal D P · 10^(E0 + |D| − P)` differ by at most half a unit of the last kept digit -/
theorem cut_bound (neg : Bool) (D : List Char) (P : Nat) (E0 : Int) (hD : AllDig D) (hP : P < D.length) :
    dval neg (natOf D) E0 - (1 / 2) * (10 : Rat) ^ (E0 + ((D.length - P : Nat) : Int)) ≤
      dval neg (cutVal D P) (E0 + ((D.length - P : Nat) : Int)) ∧
    dval neg (cutVal D P) (E0 + ((D.length - P : Nat) : Int)) ≤
      dval neg (natOf D) E0 + (1 / 2) * (10 : Rat) ^ (E0 + ((D.length - P : Nat) : Int)) := by
  obtain ⟨g1, g2⟩ := ge5At_iff D P hD hP
  unfold cutVal
  have hsplit : natOf D = natOf (D.take P) * 10 ^ (D.length - P) + natOf (D.drop P) := by
    have : D = D.take P ++ D.drop P := by simp
    conv => lhs; rw [this, natOf_append]
    simp
  have hpow : 10 ^ (D.length - P) = 10 * 10 ^ (D.length - P - 1) := by
    rw [Nat.mul_comm, ← Nat.pow_succ]; congr 1; omega
  rw [← dval_shift, hsplit, ← half_pow]
  apply dval_close
  · generalize natOf (D.take P) = N at *
    generalize natOf (D.drop P) = R at *
    rw [hpow] at *
    generalize 10 ^ (D.length - P - 1) = T at *
    cases hinc : ge5At D P with
    | true => have := g1.mp hinc; simp only [if_true]; rw [Nat.add_mul]; omega
    | false => simp only [Bool.false_eq_true, if_false, Nat.add_zero]; omega
  · generalize natOf (D.take P) = N at *
    generalize natOf (D.drop P) = R at *
    rw [hpow] at *
    generalize 10 ^ (D.length - P - 1) = T at *
    cases hinc : ge5At D P with
    | true => simp only [if_true]; rw [Nat.add_mul]; omega
    | false =>
      have : ¬ 5 * T ≤ R := fun h => by have := g1.mpr h; rw [hinc] at this; cases this
      simp only [Bool.false_eq_true, if_false, Nat.add_zero]; omega

end Verif.Proofs.Num

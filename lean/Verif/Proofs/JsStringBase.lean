import Verif.Spec.JsStringSem
import Verif.Model.JsString
/-!
# C01E proofs, part 1: unfolding equations of the fuel-driven loops

`decBody` (specification) and `rep` (model) run on fuel = length; every iteration consumes at least one byte, so any
larger fuel gives the same result and both satisfy the expected one-step equations.
-/
namespace Verif.Proofs.JsString
open Verif.JsStrBase Verif.Spec.JsStringSem Verif.Model.JsString

theorem decBodyF_fuel2 (m : Bool) (q : Nat) : ∀ (f g : Nat) (l : List Nat), l.length ≤ f → l.length ≤ g →
    decBodyF m q f l = decBodyF m q g l := by
  intro f
  induction f with
  | zero => intro g l h _; cases l with
    | nil => cases g <;> rfl
    | cons c r => simp at h
  | succ f ih =>
    intro g l h hg
    cases l with
    | nil => cases g <;> rfl
    | cons c r =>
      cases g with
      | zero => simp at hg
      | succ g =>
        simp only [decBodyF]
        cases hs : decStep m q c r with
        | none => rfl
        | some p =>
          obtain ⟨us, k⟩ := p
          simp only
          have h1 : (r.drop k).length ≤ f := by simp at h ⊢; omega
          have h2 : (r.drop k).length ≤ g := by simp at hg ⊢; omega
          rw [ih g _ h1 h2]

theorem decBodyF_fuel (m : Bool) (q : Nat) (f : Nat) (l : List Nat) (h : l.length ≤ f) :
    decBodyF m q f l = decBodyF m q l.length l := decBodyF_fuel2 m q f l.length l h (Nat.le_refl _)

/-- one-step equation of the specification decoder -/
theorem decBody_cons (m : Bool) (q c : Nat) (r : List Nat) :
    decBody m q (c :: r) =
      match decStep m q c r with
      | none => none
      | some (us, k) => (decBody m q (r.drop k)).map (us ++ ·) := by
  unfold decBody
  simp only [List.length_cons, decBodyF]
  cases hs : decStep m q c r with
  | none => rfl
  | some p =>
    obtain ⟨us, k⟩ := p
    simp only
    rw [decBodyF_fuel m q r.length (r.drop k) (by simp)]

@[simp] theorem decBody_nil (m : Bool) (q : Nat) : decBody m q [] = some [] := rfl

/-- the model loop started with an arbitrary after-NUL flag -/
def repA (q : Nat) (an : Bool) (l : List Nat) : List Nat := repF q l.length an l

theorem rep_eq_repA (q : Nat) (l : List Nat) : rep q l = repA q false l := rfl

theorem repF_fuel2 (q : Nat) : ∀ (f g : Nat) (an : Bool) (l : List Nat), l.length ≤ f → l.length ≤ g →
    repF q f an l = repF q g an l := by
  intro f
  induction f with
  | zero => intro g an l h _; cases l with
    | nil => cases g <;> rfl
    | cons c r => simp at h
  | succ f ih =>
    intro g an l h hg
    cases l with
    | nil => cases g <;> rfl
    | cons c r =>
      cases g with
      | zero => simp at hg
      | succ g =>
        simp only [repF]
        have h1 : ∀ k, (r.drop k).length ≤ f := by intro k; simp at h ⊢; omega
        have h2 : ∀ k, (r.drop k).length ≤ g := by intro k; simp at hg ⊢; omega
        rw [ih g _ _ (h1 _) (h2 _)]

theorem repF_fuel (q : Nat) (f : Nat) (an : Bool) (l : List Nat) (h : l.length ≤ f) :
    repF q f an l = repF q l.length an l := repF_fuel2 q f l.length an l h (Nat.le_refl _)

/-- one-step equation of the model loop -/
theorem repA_cons (q : Nat) (an : Bool) (c : Nat) (r : List Nat) :
    repA q an (c :: r) = (step q an c r).1 ++ repA q (step q an c r).2.2 (r.drop (step q an c r).2.1) := by
  unfold repA
  simp only [List.length_cons, repF]
  rw [repF_fuel q r.length _ (r.drop _) (by simp)]

@[simp] theorem repA_nil (q : Nat) (an : Bool) : repA q an [] = [] := rfl

end Verif.Proofs.JsString

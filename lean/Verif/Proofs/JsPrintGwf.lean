import Verif.Model.JsPrint
import Verif.Spec.JsGrammar
import Verif.Proofs.JsSemLemmas
set_option linter.unusedSimpArgs false
set_option linter.unnecessarySimpa false
/-!
# C01-A — the printer's output is a derivation tree of the grammar (helper lemmas)

Input: a tree in which every child is a group or has (Go) precedence ≥ the (Go) precedence required at its position
(`wfGo`, what the parser produces).  Output of the printer `printT` (group dropping, literal lowering, no rewrites):
a tree `t` with `gwfA t` (every node is an instance of a production of the ECMA-262 expression grammar, `&&`/`||`/`??`
read as associative) whose level fits the context — so `yield t`, the tokens written, derive `t`.
-/
namespace Verif.Proofs.JsPrintGwf
open Verif.Spec.JsSyntax Verif.Spec.JsGrammar Verif.Model.JsAst Verif.Model.JsOpt Verif.Model.JsPrint
open Verif.Spec.JsSyntax.E
open Verif.Proofs.JsSemLemmas (E.ind snoc_of_getLast?)

/-- `omega` after unfolding the abbreviation `Prec` -/
macro "pomega" : tactic => `(tactic| ((try simp only [Prec] at *); omega))

/-- the identity node rewriter: the printer alone -/
def idRw : E → Prec → Option E := fun e _ => some e

/-- the child fits a position that requires (Go) precedence `p` -/
def FitsIn (p : Prec) (e : E) : Bool := e.isGroup || p ≤ e.prec || (p == opBitOr && e.prec == opCoalesce)

/-- the left operand fits: either the (Go) precedence the printer uses for that position, or — when the printer
    asks for more than the production (the left operand of `|` is printed at `OpBitXor`) — the production itself -/
def leftFits (op : BOp) (x : E) : Bool := FitsIn op.left x || (!x.isGroup && opLeft op ≤ x.prec)

mutual
/-- the parser's well-formedness rule, with the Go tables -/
def wfGo : E → Bool
  | var _ => true
  | lit _ => true
  | unary op x => FitsIn op.argPrec x && wfGo x
  | bin op x y => leftFits op x && FitsIn op.right y && wfGo x && wfGo y
  | .cond c x y => FitsIn opCoalesce c && FitsIn opAssign x && FitsIn opAssign y && wfGo c && wfGo x && wfGo y
  | comma l => decide (2 ≤ l.length) && wfGoItems l
  | call f args => FitsIn opCall f && wfGo f && wfGoItems args
  | dot x _ => FitsIn opCall x && wfGo x
  | index x y => FitsIn opCall x && wfGo x && wfGo y
  | group x => wfGo x
  | opt a e => (e.chainVar? == some a) && wfGo e
def wfGoItems : List E → Bool
  | [] => true
  | a :: t => FitsIn opAssign a && wfGo a && wfGoItems t
end

/-- nodes no rewrite touches: variables, literals, binary operators -/
def isPlain : E → Bool
  | var _ => true
  | lit _ => true
  | bin _ _ _ => true
  | _ => false

/-- the printer keeps the variable at the root of a call/member chain (needed for `a?.b.c`: the chain written after
    `?.` is still rooted at `a`) -/
def Rv (e t : E) : Prop :=
  ∀ a, a ≠ "undefined" → e.rootVar? = some a → t.rootVar? = some a ∧ (e.isLink = false → t.inner = .var a)

/-- what the printer guarantees of its output `t` for the input `e` in a context of precedence `p` -/
structure Inv (p : Prec) (e t : E) : Prop where
  g : gwfA t = true
  lv : FitsIn p e = true → levelOk p t = true
  tg : assignable e = true → isTarget t = true
  lo : isPlain e = true → p ≠ 0 → min e.prec 14 ≤ lvl t
  rv : Rv e t

/-- the invariant for an operand that fits its position -/
structure InvF (p : Prec) (e t : E) : Prop where
  g : gwfA t = true
  lv : levelOk p t = true
  tg : assignable e = true → isTarget t = true
  lo : isPlain e = true → p ≠ 0 → min e.prec 14 ≤ lvl t
  rv : Rv e t

theorem Inv.toF {p : Prec} {e t : E} (i : Inv p e t) (hf : FitsIn p e = true) : InvF p e t :=
  ⟨i.g, i.lv hf, i.tg, i.lo, i.rv⟩

/-- nodes that are not at the root of a chain on a variable -/
theorem rv_none {e t : E} (h : e.rootVar? = none) : Rv e t := by
  intro a _ ha; rw [h] at ha; cases ha

theorem rootVar_dot (x : E) (n : String) : (E.dot x n).rootVar? = x.rootVar? := rfl
theorem rootVar_index (x y : E) : (E.index x y).rootVar? = x.rootVar? := rfl
theorem rootVar_call (f : E) (args : List E) : (E.call f args).rootVar? = f.rootVar? := rfl

theorem isLink_of_chainVar {e : E} {a : String} (h : e.chainVar? = some a) : e.isLink = true ∧ e.rootVar? = some a := by
  unfold E.chainVar? at h
  split at h
  · rename_i hl; exact ⟨hl, h⟩
  · cases h

theorem inner_var_not_link {x : E} {a : String} (h : x.inner = .var a) : x.isLink = false ∧ x.rootVar? = some a := by
  cases x with
  | var n => exact ⟨rfl, by simp only [E.inner] at h; simp [E.rootVar?, E.chainRoot, E.inner, h]⟩
  | group y => exact ⟨rfl, by simp only [E.rootVar?, E.chainRoot, h]⟩
  | _ => simp [E.inner] at h

/-- the group case: the conditional rewritten inside the group is not a chain root -/
theorem groupInner_rv (rw : E → Prec → Option E) (x x1 t : E) (hx1 : groupInner rw x = some x1) (h : Rv x1 t) :
    Rv (.group x) t ∧ Rv (.group x) (.group t) := by
  have key : ∀ a, a ≠ "undefined" → (E.group x).rootVar? = some a → t.rootVar? = some a ∧ t.inner = .var a := by
    intro a ha hr
    have hi : x.inner = .var a := by
      simp only [E.rootVar?, E.chainRoot, E.inner] at hr
      split at hr
      · rename_i n hn; injection hr with hr; subst hr; exact hn
      · cases hr
    have hxx : x1 = x := by
      unfold groupInner at hx1
      cases x with
      | cond c a b => simp [E.inner] at hi
      | _ => simp at hx1; exact hx1.symm
    subst hxx
    obtain ⟨hnl, hrv⟩ := inner_var_not_link hi
    obtain ⟨h1, h2⟩ := h a ha hrv
    exact ⟨h1, h2 hnl⟩
  constructor
  · intro a ha hr
    exact ⟨(key a ha hr).1, fun _ => (key a ha hr).2⟩
  · intro a ha hr
    have := (key a ha hr).2
    exact ⟨by simp only [E.rootVar?, E.chainRoot, E.inner, this], fun _ => by simp only [E.inner, this]⟩

/-! ## facts about the regenerated tables (whole-table `decide`) -/

theorem consts : opExpr = 0 ∧ opAssign = 1 ∧ opCoalesce = 2 ∧ opBitOr = 5 ∧ opUnary = 14 ∧ opCall = 17 ∧ opMember = 19 ∧
    opAnd = 4 ∧ opOr = 3 := by decide

theorem t_prec (op : BOp) : op.prec = opLevel op := by
  have : ∀ o ∈ BOp.all, o.prec = opLevel o := by decide
  exact this op (BOp.mem_all op)

theorem t_left (op : BOp) : opLeft op ≤ op.left ∧ op.left ≤ 17 ∧ (op.left = 5 → op = .nullish) := by
  have : ∀ o ∈ BOp.all, opLeft o ≤ o.left ∧ o.left ≤ 17 ∧ (o.left = 5 → o = .nullish) := by decide
  exact this op (BOp.mem_all op)

theorem t_right (op : BOp) : op.right ≤ 17 ∧ (op.right = 5 → op = .nullish) ∧
    (opRight op ≤ op.right ∨ ((op = .land ∨ op = .lor) ∧ op.right = opLevel op ∧ opRight op = opLevel op + 1)) := by
  have : ∀ o ∈ BOp.all, o.right ≤ 17 ∧ (o.right = 5 → o = .nullish) ∧
      (opRight o ≤ o.right ∨ ((o = .land ∨ o = .lor) ∧ o.right = opLevel o ∧ opRight o = opLevel o + 1)) := by decide
  exact this op (BOp.mem_all op)

theorem t_assign (op : BOp) : isAssignLike op = isAssignOp op ∧ 1 ≤ op.prec := by
  have : ∀ o ∈ BOp.all, isAssignLike o = isAssignOp o ∧ 1 ≤ o.prec := by decide
  exact this op (BOp.mem_all op)

theorem t_unary (op : UOp) : op.argPrec ≤ 17 ∧ 14 ≤ op.argPrec ∧ op.prec = (if isUpdateOp op then 15 else 14) ∧
    ((op = .postinc ∨ op = .postdec) → op.argPrec = 16) := by
  cases op <;> decide

theorem opLevel_eq (op o : BOp) (h : opLevel o = opLevel op) (ha : op = .land ∨ op = .lor) : o = op := by
  rcases ha with rfl | rfl <;> cases o <;> simp [opLevel, lvAnd, lvOr, lvAssign, lvShort, lvBitOr, lvBitXor, lvBitAnd,
    lvEquality, lvRelational, lvShift, lvAdditive, lvMultiplicative, lvExponent] at h ⊢

/-! ## levels -/

theorem levelOk_of_le {p : Nat} {t : E} (h : p ≤ lvl t) : levelOk p t = true := by
  simp [levelOk, h]

theorem lvl_prim (t : E) (h : t.isGroup = true) : lvl t = 20 := by
  cases t <;> simp [E.isGroup] at h
  rfl

theorem chainLvl_cases (x : E) : chainLvl x = 17 ∨ chainLvl x = 19 := by
  induction x using E.ind with
  | hdot x n ih => simpa [chainLvl] using ih
  | hindex x y ih _ => simpa [chainLvl] using ih
  | hopt a e ih => simpa [chainLvl] using ih
  | hvar n => right; rfl
  | hlit l => right; rfl
  | hgroup x _ => right; rfl
  | _ => left; rfl

theorem memberPrec_eq (x : E) : x.memberPrec = chainLvl x := by
  have c17 : opCall = 17 := by decide
  have c19 : opMember = 19 := by decide
  induction x using E.ind with
  | hdot x n ih => simpa [E.memberPrec, chainLvl] using ih
  | hindex x y ih _ => simpa [E.memberPrec, chainLvl] using ih
  | hopt a e ih => simpa [E.memberPrec, chainLvl] using ih
  | hvar n => simp [E.memberPrec, chainLvl, c19, lvMember]
  | hlit l => simp [E.memberPrec, chainLvl, c19, lvMember]
  | hgroup x _ => simp [E.memberPrec, chainLvl, c19, lvMember]
  | _ => simp [E.memberPrec, chainLvl, c17, lvCall]

/-- Go's `exprPrec` of a call/member link -/
theorem prec_link (e : E) (h : e.isLink = true) : 17 ≤ e.prec := by
  have c17 : opCall = 17 := by decide
  cases e with
  | call f a => simp only [E.prec]; rw [c17]; exact Nat.le_refl _
  | dot x n => simp only [E.prec, memberPrec_eq]; have := chainLvl_cases x; pomega
  | index x y => simp only [E.prec, memberPrec_eq]; have := chainLvl_cases x; pomega
  | _ => simp [E.isLink] at h

/-- a node whose level is the level of `&&` / `||` is such a node -/
theorem node_of_level (op : BOp) (ha : op = .land ∨ op = .lor) (t : E) (h : lvl t = opLevel op) : sameOpNode op t = true := by
  have hl : opLevel op = 4 ∨ opLevel op = 3 := by rcases ha with rfl | rfl <;> simp [opLevel, lvAnd, lvOr]
  cases t with
  | bin o x y =>
    simp only [lvl] at h
    have := opLevel_eq op o h ha
    subst this
    simp [sameOpNode]
  | unary o x =>
    simp only [lvl] at h
    split at h <;> simp [lvUpdate, lvUnary] at h <;> pomega
  | dot x n =>
    simp only [lvl] at h
    have := chainLvl_cases x
    pomega
  | index x y =>
    simp only [lvl] at h
    have := chainLvl_cases x
    pomega
  | var n => simp [lvl, lvPrimary] at h; pomega
  | lit l => simp [lvl, lvPrimary] at h; pomega
  | group x => simp [lvl, lvPrimary] at h; pomega
  | cond c x y => simp [lvl, lvAssign] at h; pomega
  | comma l => simp [lvl, lvExpr] at h; pomega
  | call f a => simp [lvl, lvCall] at h; pomega
  | opt a e => simp [lvl, lvLHS] at h; pomega

/-! ## from the level of the printed operand to the production's demand -/

theorem leftOk_of_levelOk (op : BOp) (x : E) (h : levelOk op.left x = true) : leftOk op x = true := by
  obtain ⟨h1, _, h3⟩ := t_left op
  unfold levelOk at h
  simp only [Bool.or_eq_true, decide_eq_true_eq, Bool.and_eq_true, beq_iff_eq] at h
  by_cases hn : op = .nullish
  · subst hn
    have h5 : BOp.nullish.left = 5 := by decide
    simp only [leftOk, Bool.or_eq_true, decide_eq_true_eq]
    rcases h with h | ⟨_, h⟩
    · left; rw [h5] at h; exact h
    · right
      cases x <;> simp [sameOpNode] at h
      subst h; rfl
  · have hne : op.left ≠ 5 := fun h5 => hn (h3 h5)
    rcases h with h | ⟨h5, _⟩
    · cases op <;> first | exact absurd rfl hn | (simp only [leftOk, decide_eq_true_eq]; pomega)
    · exact absurd h5 (by simpa [lvBitOr] using hne)

theorem rightOkA_of_levelOk (op : BOp) (y : E) (h : levelOk op.right y = true) : rightOkA op y = true := by
  obtain ⟨_, h2, h3⟩ := t_right op
  unfold levelOk at h
  simp only [Bool.or_eq_true, decide_eq_true_eq, Bool.and_eq_true, beq_iff_eq] at h
  unfold rightOkA
  simp only [Bool.or_eq_true, decide_eq_true_eq, Bool.and_eq_true]
  by_cases hn : op = .nullish
  · subst hn
    have h5 : BOp.nullish.right = 5 := by decide
    rcases h with h | ⟨_, h⟩
    · left; rw [h5] at h; simpa [opRight, lvBitOr] using h
    · right; exact ⟨rfl, h⟩
  · have hne : op.right ≠ 5 := fun h5 => hn (h2 h5)
    rcases h with h | ⟨h5, _⟩
    · rcases h3 with h3 | ⟨ha, hr, hr1⟩
      · left; pomega
      · by_cases hlt : opRight op ≤ lvl y
        · left; exact hlt
        · right
          have h4 : lvl y < opLevel op + 1 := by rw [← hr1]; exact Nat.lt_of_not_le hlt
          have h5 : opLevel op ≤ lvl y := by rw [← hr]; exact h
          have : lvl y = opLevel op := Nat.le_antisymm (Nat.le_of_lt_succ h4) h5
          refine ⟨?_, node_of_level op ha y this⟩
          rcases ha with rfl | rfl <;> rfl
    · exact absurd h5 (by simpa [lvBitOr] using hne)

theorem levelOk_mono {p q : Nat} {t : E} (h : levelOk q t = true) (hpq : p ≤ q) (hq : q ≠ 5) : p ≤ lvl t := by
  unfold levelOk at h
  simp only [Bool.or_eq_true, decide_eq_true_eq, Bool.and_eq_true, beq_iff_eq] at h
  rcases h with h | ⟨h5, _⟩
  · pomega
  · exact absurd h5 (by simpa [lvBitOr] using hq)

theorem isTarget_of_levelOk_assignable {p : Prec} {e t : E} (h : Inv p e t) (ha : assignable e = true) : isTarget t = true :=
  h.tg ha

/-! ## lists -/

theorem mapO_items (rec : E → Prec → Option E)
    (hrec : ∀ e p t, p ≤ 17 → wfGo e = true → rec e p = some t → Inv p e t)
    (l l' : List E) (h : mapO (fun a => rec a opAssign) l = some l') (hw : wfGoItems l = true) :
    gwfAItems l' = true ∧ l'.length = l.length := by
  have hrecF : ∀ e p t, p ≤ 17 → wfGo e = true → FitsIn p e = true → rec e p = some t → InvF p e t :=
    fun e p t hp hw hf h => (hrec e p t hp hw h).toF hf
  induction l generalizing l' with
  | nil => simp [mapO] at h; subst h; exact ⟨rfl, rfl⟩
  | cons a t ih =>
    simp only [mapO] at h
    simp only [wfGoItems, Bool.and_eq_true] at hw
    cases ha : rec a opAssign with
    | none => simp [ha] at h
    | some a' =>
      cases ht : mapO (fun a => rec a opAssign) t with
      | none => simp [ha, ht] at h
      | some t' =>
        simp [ha, ht] at h
        subst h
        have hi := hrecF a opAssign a' (by simp [consts.2.1]) hw.1.2 hw.1.1 ha
        obtain ⟨g1, g2⟩ := ih t' ht hw.2
        have hl : lvAssign ≤ lvl a' := by
          have := levelOk_mono hi.lv (Nat.le_refl _) (by simp [consts.2.1])
          simpa [consts.2.1, lvAssign] using this
        simp [gwfAItems, hl, hi.g, g1, g2]

/-! ## the binary node -/

theorem t_eqops : BOp.eq.left = 8 ∧ BOp.ne.left = 8 ∧ BOp.eq.right = 9 ∧ BOp.ne.right = 9 ∧
    BOp.seq.left = 8 ∧ BOp.sne.left = 8 ∧ BOp.seq.right = 9 ∧ BOp.sne.right = 9 := by decide

theorem left_pos (op : BOp) : 0 < op.left ∧ 0 < op.right := by
  have : ∀ o ∈ BOp.all, 0 < o.left ∧ 0 < o.right := by decide
  exact this op (BOp.mem_all op)

theorem fitsIn_prim (p : Prec) (e : E) (h : e.prec = 20) (hp : p ≤ 17) : FitsIn p e = true := by
  simp [FitsIn, h]; pomega

theorem eqne_ok (o : BOp) (ho : o = .eq ∨ o = .ne) (x' y' : E) (lx : 14 ≤ lvl x') (ly : 14 ≤ lvl y') :
    leftOk o x' = true ∧ rightOkA o y' = true := by
  have h8 : 8 ≤ lvl x' := by omega
  have h9 : 9 ≤ lvl y' := by omega
  rcases ho with rfl | rfl <;>
    simp [leftOk, opLeft, isAssignOp, opLevel, lvEquality, rightOkA, opRight, lvRelational, isAssocOp, h8, h9]

/-- result of the binary node proper -/
theorem binCore_gwf (rec : E → Prec → Option E)
    (hrec : ∀ e p t, p ≤ 17 → wfGo e = true → rec e p = some t → Inv p e t)
    (op : BOp) (y x1 t : E) (hwx : wfGo x1 = true) (hfx : leftFits op x1 = true)
    (hwy : wfGo y = true) (hfy : FitsIn op.right y = true)
    (ha : isAssignLike op = true → assignable x1 = true)
    (h : binCore rec op y x1 = some t) :
    gwfA t = true ∧ op.prec ≤ lvl t ∧ (op = .nullish → sameOpNode .nullish t = true) := by
  obtain ⟨hl1, hl2, hl3⟩ := t_left op
  obtain ⟨hr1, hr2, hr3⟩ := t_right op
  obtain ⟨hlp, hrp⟩ := left_pos op
  have hrecF : ∀ e p t, p ≤ 17 → wfGo e = true → FitsIn p e = true → rec e p = some t → InvF p e t :=
    fun e p t hp hw hf h => (hrec e p t hp hw h).toF hf
  -- the printed left operand satisfies the production
  have leftok : ∀ x', rec x1 op.left = some x' → leftOk op x' = true ∧ gwfA x' = true ∧
      (assignable x1 = true → isTarget x' = true) := by
    intro x' hx
    have ix := hrec _ _ _ hl2 hwx hx
    refine ⟨?_, ix.g, ix.tg⟩
    by_cases hfit : FitsIn op.left x1 = true
    · exact leftOk_of_levelOk op x' (ix.lv hfit)
    · have h2 : x1.isGroup = false ∧ opLeft op ≤ x1.prec := by
        simp only [leftFits, hfit, Bool.false_or, Bool.and_eq_true, Bool.not_eq_true', decide_eq_true_eq] at hfx
        exact hfx
      have hlt : x1.prec < op.left := by
        simp only [FitsIn, h2.1, Bool.false_or, Bool.or_eq_true, decide_eq_true_eq, not_or, Nat.not_le] at hfit
        exact hfit.1
      have hbor : ∀ o ∈ BOp.all, opLeft o < o.left → opLeft o = 5 ∧ o.left = 6 := by decide
      have h56 := hbor op (BOp.mem_all op) (by pomega)
      have hp5 : x1.prec = 5 := by pomega
      have hplain : isPlain x1 = true := by
        have c : opUnary = 14 ∧ opUpdate = 15 ∧ opAssign = 1 ∧ opExpr = 0 ∧ opCall = 17 ∧ opMember = 19 ∧ opPrimary = 20 := by decide
        cases x1 with
        | var n => rfl
        | lit l => rfl
        | bin o a b => rfl
        | unary o a =>
          exfalso
          simp only [E.prec] at hp5
          have := (t_unary o).2.2.1
          rw [this] at hp5; split at hp5 <;> pomega
        | cond a b d => exfalso; simp only [E.prec] at hp5; rw [c.2.2.1] at hp5; pomega
        | comma l => exfalso; simp only [E.prec] at hp5; rw [c.2.2.2.1] at hp5; pomega
        | call f a => exfalso; simp only [E.prec] at hp5; rw [c.2.2.2.2.1] at hp5; pomega
        | dot a n => exfalso; simp only [E.prec, memberPrec_eq] at hp5; have := chainLvl_cases a; pomega
        | index a b => exfalso; simp only [E.prec, memberPrec_eq] at hp5; have := chainLvl_cases a; pomega
        | group a => simp [E.isGroup] at h2
        | opt a0 e0 =>
          exfalso
          simp only [wfGo, Bool.and_eq_true, beq_iff_eq] at hwx
          have := prec_link e0 (isLink_of_chainVar hwx.1).1
          simp only [E.prec] at hp5
          pomega
      have hlo := ix.lo hplain (by pomega)
      have h14 : opLeft op ≤ 14 := by
        have : ∀ o ∈ BOp.all, opLeft o ≤ 14 ∨ opLeft o = o.left := by decide
        rcases this op (BOp.mem_all op) with h | h
        · exact h
        · pomega
      have hle : opLeft op ≤ lvl x' := Nat.le_trans (Nat.le_min.mpr ⟨h2.2, h14⟩) hlo
      by_cases hn : op = .nullish
      · subst hn
        have : lvBitOr ≤ lvl x' := by simpa [opLeft] using hle
        simp [leftOk, this]
      · have hform : leftOk op x' = decide (opLeft op ≤ lvl x') := by
          cases op <;> first | exact absurd rfl hn | rfl
        rw [hform]; simpa using hle
  unfold binCore at h
  -- a binary node built from two printed operands
  have build : ∀ (o3 : BOp) (x' y' : E), leftOk o3 x' = true → rightOkA o3 y' = true →
      (isAssignOp o3 = true → isTarget x' = true) → gwfA x' = true → gwfA y' = true → gwfA (.bin o3 x' y') = true := by
    intro o3 x' y' h1 h2 h3 h4 h5
    simp only [gwfA, h1, h2, h4, h5, Bool.and_true, Bool.true_and]
    cases hh : isAssignOp o3
    · simp
    · simp [h3 hh]
  by_cases hio : (op == .inOp || op == .instOf) = true
  · rw [if_pos hio] at h
    cases hx : rec x1 op.left with
    | none => simp [hx] at h
    | some x' =>
      cases hy : rec y op.right with
      | none => simp [hx, hy] at h
      | some y' =>
        simp [hx, hy] at h
        subst h
        obtain ⟨lx, gx, tx⟩ := leftok x' hx
        have iy := hrecF _ _ _ hr1 hwy hfy hy
        refine ⟨build op x' y' lx (rightOkA_of_levelOk op y' iy.lv) ?_ gx iy.g, ?_, ?_⟩
        · intro hh; exact tx (ha (by rw [(t_assign op).1]; exact hh))
        · simp [lvl, t_prec op]
        · intro hn; subst hn; simp at hio
  · rw [if_neg hio] at h
    cases hi : isUndefinedOrNullVar (.bin op x1 y) with
    | some r =>
      obtain ⟨v, neg⟩ := r
      have hprep : binPrep op y x1 = ((if neg then BOp.ne else BOp.eq), .var v, .lit .null) := by
        simp only [binPrep, hi]
        cases neg <;> simp [isTypeof, isStrLit]
      rw [hprep] at h
      simp only [] at h
      -- the operator was || / && / == / !=
      have hop : op = .lor ∨ op = .land ∨ op = .eq ∨ op = .ne := by
        unfold isUndefinedOrNullVar at hi
        simp only [E.inner] at hi
        by_cases h1 : (op == .lor || op == .land) = true
        · simp only [Bool.or_eq_true, beq_iff_eq] at h1; rcases h1 with h1 | h1 <;> simp [h1]
        · by_cases h2 : (op == .eq || op == .ne) = true
          · simp only [Bool.or_eq_true, beq_iff_eq] at h2; rcases h2 with h2 | h2 <;> simp [h2]
          · simp [h1, h2] at hi
      cases hx : rec (.var v) op.left with
      | none => simp [hx] at h
      | some x' =>
        cases hy : rec (.lit .null) (if neg then BOp.ne else BOp.eq).right with
        | none => simp [hx, hy] at h
        | some y' =>
          simp [hx, hy] at h
          subst h
          have hr9 : (if neg then BOp.ne else BOp.eq).right = 9 := by cases neg <;> simp [t_eqops]
          have ix := hrecF _ _ _ hl2 (by rfl) (fitsIn_prim _ _ (by simp only [E.prec]; decide) hl2) hx
          have iy := hrecF (.lit .null) _ y' (by rw [hr9]; pomega) (by rfl) (fitsIn_prim _ _ (by simp only [E.prec]; decide) (by rw [hr9]; pomega)) hy
          have lx : 14 ≤ lvl x' := by
            have := ix.lo (by rfl) (by pomega)
            have h20 : (E.var v).prec = 20 := by simp only [E.prec]; decide
            rw [h20] at this; simpa using this
          have ly : 14 ≤ lvl y' := by
            have := iy.lo (by rfl) (by rw [hr9]; pomega)
            have h20 : (E.lit Lit.null).prec = 20 := by simp only [E.prec]; decide
            rw [h20] at this; simpa using this
          refine ⟨?_, ?_, ?_⟩
          · cases neg
            · have := eqne_ok .eq (Or.inl rfl) x' y' lx ly
              exact build .eq x' y' this.1 this.2 (by simp [isAssignOp]) ix.g iy.g
            · have := eqne_ok .ne (Or.inr rfl) x' y' lx ly
              exact build .ne x' y' this.1 this.2 (by simp [isAssignOp]) ix.g iy.g
          · have h8 : lvl (E.bin (if neg then BOp.ne else BOp.eq) x' y') = 8 := by cases neg <;> rfl
            rw [h8, t_prec op]
            rcases hop with rfl | rfl | rfl | rfl <;> decide
          · intro hn; subst hn; rcases hop with h | h | h | h <;> cases h
    | none =>
      have hprep : binPrep op y x1 =
          ((if (op == .seq || op == .sne) && ((isTypeof x1 && isStrLit y) || (isTypeof y && isStrLit x1)) then
              (if op == .seq then BOp.eq else BOp.ne) else op), x1, y) := by
        simp only [binPrep, hi]
      rw [hprep] at h
      simp only [] at h
      generalize ho3 : (if (op == .seq || op == .sne) && ((isTypeof x1 && isStrLit y) || (isTypeof y && isStrLit x1)) then
              (if op == .seq then BOp.eq else BOp.ne) else op) = o3 at h
      -- the printed operator has the table rows of `op`
      have hsame : o3.left = op.left ∧ o3.right = op.right ∧ opLevel o3 = opLevel op ∧ isAssignOp o3 = isAssignOp op ∧
          (op = .nullish → o3 = .nullish) ∧ opLeft o3 = opLeft op ∧ opRight o3 = opRight op ∧ isAssocOp o3 = isAssocOp op ∧
          (isAssocOp op = true → o3 = op) ∧ (∀ z, leftOk o3 z = leftOk op z) := by
        subst ho3
        split
        · rename_i hc
          simp only [Bool.and_eq_true, Bool.or_eq_true, beq_iff_eq] at hc
          rcases hc.1 with rfl | rfl
          · simp only [beq_self_eq_true, if_true]
            exact ⟨by decide, by decide, by decide, by decide, by simp, by decide, by decide, by decide,
              by simp [isAssocOp], fun z => by simp [leftOk, opLeft, isAssignOp, opLevel]⟩
          · have hne : (BOp.sne == BOp.seq) = false := by decide
            simp only [hne, Bool.false_eq_true, if_false]
            exact ⟨by decide, by decide, by decide, by decide, by simp, by decide, by decide, by decide,
              by simp [isAssocOp], fun z => by simp [leftOk, opLeft, isAssignOp, opLevel]⟩
        · simp
      obtain ⟨s1, s2, s3, s4, s5, s6, s7, s8, s9, s10⟩ := hsame
      cases hx : rec x1 op.left with
      | none => simp [hx] at h
      | some x' =>
        cases hy : rec y o3.right with
        | none => simp [hx, hy] at h
        | some y' =>
          simp [hx, hy] at h
          subst h
          obtain ⟨lx, gx, tx⟩ := leftok x' hx
          have iy := hrecF _ _ _ (by rw [s2]; exact hr1) hwy (by rw [s2]; exact hfy) hy
          have lo3 : leftOk o3 x' = true := by rw [s10]; exact lx
          have ro3 : rightOkA o3 y' = true := rightOkA_of_levelOk o3 y' iy.lv
          refine ⟨build o3 x' y' lo3 ro3 ?_ gx iy.g, ?_, ?_⟩
          · intro hh
            rw [s4] at hh
            exact tx (ha (by rw [(t_assign op).1]; exact hh))
          · simp [lvl, s3, t_prec op]
          · intro hn
            have := s5 hn
            subst this
            simp [sameOpNode]

/-! ## one step of the printer -/

theorem wfGoItems_mem (l : List E) (h : wfGoItems l = true) : ∀ a ∈ l, FitsIn opAssign a = true ∧ wfGo a = true := by
  induction l with
  | nil => intro a ha; cases ha
  | cons b t ih =>
    simp only [wfGoItems, Bool.and_eq_true] at h
    intro a ha
    cases ha with
    | head => exact ⟨h.1.1, h.1.2⟩
    | tail _ h' => exact ih h.2 a h'

theorem wfGoItems_dropLast (l : List E) (h : wfGoItems l = true) : wfGoItems l.dropLast = true := by
  induction l with
  | nil => rfl
  | cons a t ih =>
    cases t with
    | nil => rfl
    | cons b t2 =>
      have h' : (FitsIn opAssign a && wfGo a && wfGoItems (b :: t2)) = true := h
      simp only [Bool.and_eq_true] at h'
      have hd : (a :: b :: t2).dropLast = a :: (b :: t2).dropLast := rfl
      rw [hd]
      show (FitsIn opAssign a && wfGo a && wfGoItems (b :: t2).dropLast) = true
      simp only [Bool.and_eq_true]
      exact ⟨h'.1, ih h'.2⟩

theorem gwfAItems_append (a b : List E) : gwfAItems (a ++ b) = (gwfAItems a && gwfAItems b) := by
  induction a with
  | nil => simp [gwfAItems]
  | cons x t ih => simp [gwfAItems, ih, Bool.and_assoc]

theorem undefIdx_ok : gwfA undefIdx = true ∧ lvl undefIdx = 19 := by decide

theorem assignable_not_undefined (n : String) (h : (n == "undefined") = true) : assignable (.var n) = false := by
  have : n = "undefined" := by simpa using h
  subst this
  decide

/-- what the grammar theorem needs of a node rewriter: it keeps the input condition, the fit into the context, and
    leaves plain nodes and assignment targets alone -/
structure RwOk (rw : E → Prec → Option E) : Prop where
  wf : ∀ e p r, p ≤ 17 → wfGo e = true → rw e p = some r → wfGo r = true
  fit : ∀ e p r, p ≤ 17 → wfGo e = true → FitsIn p e = true → rw e p = some r → FitsIn p r = true
  plain : ∀ e p r, rw e p = some r → (isPlain e = true ∨ assignable e = true) → r = e
  chain : ∀ e p r, e.rootVar?.isSome = true → rw e p = some r → r = e

theorem idRw_ok : RwOk idRw :=
  ⟨fun e p r _ hw h => by simp [idRw] at h; subst h; exact hw,
   fun e p r _ _ hf h => by simp [idRw] at h; subst h; exact hf,
   fun e p r h _ => by simp [idRw] at h; exact h.symm,
   fun e p r _ h => by simp [idRw] at h; exact h.symm⟩

/-- the result of a link case is a link -/
theorem descLink_isLink (rec : E → Prec → Option E) (e : E) (p : Prec) (t : E) (h : descLink rec e p = some t) :
    t.isLink = true := by
  cases e with
  | dot x name =>
    simp only [descLink] at h
    split at h
    · split at h
      · injection h with h; subst h; rfl
      · cases h
    · cases hx : rec x (if opMember ≤ p then opMember else opCall) with
      | none => simp [hx] at h
      | some x' => simp [hx] at h; subst h; rfl
  | index x y =>
    simp only [descLink] at h
    split at h
    · cases h
    · split at h
      · split at h
        · injection h with h; subst h; rfl
        · cases hy : rec y opExpr with
          | none => simp [hy] at h
          | some y' => simp [hy] at h; subst h; rfl
      · cases hy : rec y opExpr with
        | none => simp [hy] at h
        | some y' => simp [hy] at h; subst h; rfl
  | call f args =>
    simp only [descLink] at h
    split at h
    · injection h with h; subst h; rfl
    · cases h
  | _ => simp [descLink] at h

/-- the member / index / call cases of the printer keep the invariant -/
theorem descLink_gwf (rec : E → Prec → Option E)
    (hrec : ∀ e p t, p ≤ 17 → wfGo e = true → rec e p = some t → Inv p e t)
    (e : E) (p : Prec) (t : E) (hp : p ≤ 17) (hw : wfGo e = true)
    (h : descLink rec e p = some t) : Inv p e t := by
  obtain ⟨c0, c1, c2, c5, c14, c17, c19, c4, c3⟩ := consts
  have hrecF : ∀ e p t, p ≤ 17 → wfGo e = true → FitsIn p e = true → rec e p = some t → InvF p e t :=
    fun e p t hp hw hf h => (hrec e p t hp hw h).toF hf
  cases e with
  | dot x name =>
    simp only [wfGo, Bool.and_eq_true] at hw
    obtain ⟨hfx, hwx⟩ := hw
    simp only [descLink] at h
    cases hd : dotNumObj x with
    | some n =>
      simp only [hd] at h
      split at h
      · injection h with h; subst h
        exact ⟨by simp [gwfA, lvl, lvCall, lvPrimary], fun _ => levelOk_of_le (by simp [lvl, chainLvl, lvMember]; pomega),
          fun _ => rfl, fun _ _ => Nat.le_trans (Nat.min_le_right _ _) (by simp [lvl, chainLvl, lvMember]), rv_none (by unfold dotNumObj at hd; split at hd <;> first | rfl | cases hd)⟩
      · cases h
    | none =>
      simp only [hd] at h
      have hpp : (if opMember ≤ p then opMember else opCall) = 17 := by
        rw [c19, c17]; split <;> (try pomega) <;> rfl
      rw [hpp] at h
      cases hx : rec x 17 with
      | none => simp [hx] at h
      | some x' =>
        simp [hx] at h
        subst h
        have ix := hrecF _ _ _ (Nat.le_refl _) hwx (by rw [c17] at hfx; exact hfx) hx
        have l17 : 17 ≤ lvl x' := levelOk_mono ix.lv (Nat.le_refl _) (by decide)
        have := chainLvl_cases x'
        exact ⟨by simp [gwfA, ix.g, lvCall, l17], fun _ => levelOk_of_le (by simp [lvl]; pomega), fun _ => rfl,
          fun _ _ => (by simp [lvl]; pomega), (fun a ha hr => ⟨(ix.rv a ha hr).1, fun hl => by simp [E.isLink] at hl⟩)⟩
  | index x y =>
    simp only [wfGo, Bool.and_eq_true] at hw
    obtain ⟨⟨hfx, hwx⟩, hwy⟩ := hw
    simp only [descLink] at h
    have hpp : (if p < opMember then opCall else opMember) = 17 := by
      rw [c19, c17]; split <;> (try pomega) <;> rfl
    rw [hpp] at h
    cases hx : rec x 17 with
    | none => simp [hx] at h
    | some x' =>
      simp only [hx] at h
      have ix := hrecF _ _ _ (Nat.le_refl _) hwx (by rw [c17] at hfx; exact hfx) hx
      have l17 : 17 ≤ lvl x' := levelOk_mono ix.lv (Nat.le_refl _) (by decide)
      have hc := chainLvl_cases x'
      have dotcase : ∀ s0, Inv p (.index x y) (.dot x' s0) := fun s0 =>
        ⟨by simp [gwfA, ix.g, lvCall, l17], fun _ => levelOk_of_le (by simp [lvl]; pomega), fun _ => rfl,
          fun _ _ => (by simp [lvl]; pomega), (fun a ha hr => ⟨(ix.rv a ha hr).1, fun hl => by simp [E.isLink] at hl⟩)⟩
      have idxcase : ∀ o : Option E, o = rec y opExpr → o.map (E.index x') = some t → Inv p (.index x y) t := by
        intro o ho hm
        cases o with
        | none => simp at hm
        | some y' =>
          simp at hm; subst hm
          have iy := hrecF _ _ _ (by rw [c0]; pomega) hwy (by simp [FitsIn, c0]) ho.symm
          exact ⟨by simp [gwfA, ix.g, iy.g, lvCall, l17], fun _ => levelOk_of_le (by simp [lvl]; pomega), fun _ => rfl,
            fun _ _ => (by simp [lvl]; pomega), (fun a ha hr => ⟨(ix.rv a ha hr).1, fun hl => by simp [E.isLink] at hl⟩)⟩
      cases hs : strLit? y with
      | some s0 =>
        simp only [hs] at h
        split at h
        · injection h with h; subst h; exact dotcase s0
        · exact idxcase _ rfl h
      | none =>
        simp only [hs] at h
        exact idxcase _ rfl h
  | call f args =>
    simp only [wfGo, Bool.and_eq_true] at hw
    obtain ⟨⟨hff, hwf⟩, hwa⟩ := hw
    simp only [descLink] at h
    cases hf' : rec f opCall with
    | none => simp [hf'] at h
    | some f' =>
      cases ha : mapO (fun a => rec a opAssign) args with
      | none => simp [hf', ha] at h
      | some args' =>
        simp [hf', ha] at h
        subst h
        have i1 := hrecF _ _ _ (by rw [c17]; pomega) hwf hff hf'
        have l17 : 17 ≤ lvl f' := by
          have := levelOk_mono i1.lv (Nat.le_refl _) (by rw [c17]; decide)
          rw [c17] at this; exact this
        obtain ⟨ga, _⟩ := mapO_items rec hrec args args' ha hwa
        exact ⟨by simp [gwfA, i1.g, ga, lvCall, l17], fun _ => levelOk_of_le (by simp [lvl, lvCall]; pomega),
          fun ha' => by simp [assignable, E.inner] at ha', fun _ _ => (by simp [lvl, lvCall]; pomega), (fun a ha hr => ⟨(i1.rv a ha hr).1, fun hl => by simp [E.isLink] at hl⟩)⟩
  | _ => simp [descLink] at h

/-- one step of the printer keeps the invariant if the recursive calls do -/
theorem descend_gwf (rw : E → Prec → Option E) (hok : RwOk rw) (rec : E → Prec → Option E)
    (hrec : ∀ e p t, p ≤ 17 → wfGo e = true → rec e p = some t → Inv p e t)
    (e : E) (p : Prec) (t : E) (hp : p ≤ 17) (hw : wfGo e = true)
    (h : descend rw rec e p = some t) : Inv p e t := by
  obtain ⟨c0, c1, c2, c5, c14, c17, c19, c4, c3⟩ := consts
  have hrecF : ∀ e p t, p ≤ 17 → wfGo e = true → FitsIn p e = true → rec e p = some t → InvF p e t :=
    fun e p t hp hw hf h => (hrec e p t hp hw h).toF hf
  cases e with
  | var n =>
    simp only [descend] at h
    by_cases hu : (n == "undefined") = true
    · rw [if_pos hu] at h
      have hlt : ¬ (opMember < p) := (by rw [c19]; pomega)
      rw [if_neg hlt] at h
      injection h with h; subst h
      refine ⟨undefIdx_ok.1, fun _ => levelOk_of_le (by rw [undefIdx_ok.2]; pomega), ?_, ?_, (fun a ha h => by simp only [E.rootVar?, E.chainRoot, E.inner, Option.some.injEq] at h; subst h; exact absurd (by simpa using hu) ha)⟩
      · intro ha; rw [assignable_not_undefined n hu] at ha; cases ha
      · intro _ _; rw [undefIdx_ok.2]; pomega
    · rw [if_neg hu] at h
      split at h
      · cases h
      · injection h with h; subst h
        exact ⟨rfl, fun _ => levelOk_of_le (by simp [lvl, lvPrimary]; pomega), fun _ => rfl,
          fun _ _ => (by simp [lvl, lvPrimary]; pomega), (fun a _ h => ⟨h, fun _ => by simp only [E.rootVar?, E.chainRoot, E.inner, Option.some.injEq] at h; subst h; rfl⟩)⟩
  | lit l =>
    have hna : assignable (.lit l) = false := by simp [assignable, E.inner]
    have prim : ∀ l', Inv p (.lit l) (.lit l') := fun l' =>
      ⟨rfl, fun _ => levelOk_of_le (by simp [lvl, lvPrimary]; pomega), fun ha => (by rw [hna] at ha; cases ha),
        fun _ _ => (by simp [lvl, lvPrimary]; pomega), rv_none rfl⟩
    have notn : ∀ k, descend rw rec (.lit l) p =
        some (if opUnary < p then E.group (.unary .not (.lit (.num k))) else .unary .not (.lit (.num k))) → Inv p (.lit l) t := by
      intro k hk
      rw [hk] at h
      injection h with h; subst h
      split
      · exact ⟨(by simp [gwfA, isUpdateOp, lvl, lvUnary, lvPrimary]), fun _ => levelOk_of_le (by simp [lvl, lvPrimary]; pomega), fun ha => (by rw [hna] at ha; cases ha),
          fun _ _ => (by simp [lvl, lvPrimary]; pomega), rv_none rfl⟩
      · rename_i hlt
        have : p ≤ 14 := by rw [c14] at hlt; pomega
        exact ⟨(by simp [gwfA, isUpdateOp, lvl, lvUnary, lvPrimary]), fun _ => levelOk_of_le (by simp [lvl, isUpdateOp, lvUnary]; pomega),
          fun ha => (by rw [hna] at ha; cases ha), fun _ _ => Nat.le_trans (Nat.min_le_right _ _) (by simp [lvl, isUpdateOp, lvUnary]), rv_none rfl⟩
    cases l with
    | true => exact notn 0 (by simp [descend])
    | false => exact notn 1 (by simp [descend])
    | str s0 =>
      simp only [descend] at h
      split at h
      · injection h with h; subst h; exact prim _
      · cases h
    | num n => simp only [descend] at h; injection h with h; subst h; exact prim _
    | null => simp only [descend] at h; injection h with h; subst h; exact prim _
  | bin op x y =>
    simp only [wfGo, Bool.and_eq_true] at hw
    obtain ⟨⟨⟨hfx, hfy⟩, hwx⟩, hwy⟩ := hw
    have hna : assignable (.bin op x y) = false := by simp [assignable, E.inner]
    have hprec : (E.bin op x y).prec = op.prec := rfl
    simp only [descend] at h
    split at h
    · cases h
    · split at h
      · cases h
      · rename_i hguard
        have ha : isAssignLike op = true → assignable x = true := by
          intro hop
          cases hax : assignable x
          · simp [hop, hax] at hguard
          · rfl
        split at h
        · cases h
        -- level of the result against the context
        have lev : ∀ t', op.prec ≤ lvl t' → (op = .nullish → sameOpNode .nullish t' = true) →
            FitsIn p (.bin op x y) = true → levelOk p t' = true := by
          intro t' h1 h2 hf
          simp only [FitsIn, E.isGroup, Bool.false_or, Bool.or_eq_true, decide_eq_true_eq, Bool.and_eq_true,
            beq_iff_eq, hprec] at hf
          rcases hf with hf | ⟨hf5, hf2⟩
          · exact levelOk_of_le (by pomega)
          · have : op = .nullish := by
              have hh : ∀ o ∈ BOp.all, o.prec = opCoalesce → o = .nullish := by decide
              exact hh op (BOp.mem_all op) hf2
            simp [levelOk, h2 this, hf5, c5, lvBitOr]
        cases hh : hoistList op x p with
        | none =>
          simp only [hh] at h
          obtain ⟨g, l1, l2⟩ := binCore_gwf rec hrec op y x t hwx hfx hwy hfy ha h
          exact ⟨g, lev t l1 l2, fun ha' => (by rw [hna] at ha'; cases ha'),
            fun _ _ => by rw [hprec]; exact Nat.le_trans (Nat.min_le_left _ _) l1, rv_none rfl⟩
        | some l =>
          simp only [hh] at h
          have hp0 : p = 0 := by
            unfold hoistList at hh
            split at hh
            · rename_i h0; rw [c0] at h0; pomega
            · cases hh
          have hxe : x = .group (.comma l) ∧ op.left ≤ (lastD l x).prec := by
            unfold hoistList at hh
            split at hh
            · cases x with
              | group g =>
                cases g with
                | comma l0 =>
                  simp only at hh
                  split at hh
                  · rename_i hpr; injection hh with hh; subst hh; exact ⟨rfl, hpr⟩
                  · cases hh
                | _ => simp at hh
              | _ => simp at hh
            · cases hh
          obtain ⟨hxe, hprec2⟩ := hxe
          subst hxe
          simp only [wfGo, Bool.and_eq_true, decide_eq_true_eq] at hwx
          obtain ⟨hlen, hitems⟩ := hwx
          cases hi : mapO (fun a => rec a opAssign) l.dropLast with
          | none => simp [hi] at h
          | some init' =>
            cases hb : binCore rec op y (lastD l (.group (.comma l))) with
            | none => simp [hi, hb] at h
            | some b' =>
              simp [hi, hb] at h
              subst h
              cases hl : l.getLast? with
              | none =>
                have : l = [] := by simpa using hl
                subst this
                simp at hlen
              | some last =>
                have hlast : lastD l (.group (.comma l)) = last := by simp [lastD, hl]
                rw [hlast] at hb hprec2
                have hmem : last ∈ l := by
                  have := snoc_of_getLast? l last hl
                  rw [this]; simp
                obtain ⟨_, hwl⟩ := wfGoItems_mem l hitems last hmem
                have hfl : leftFits op last = true := by simp [leftFits, FitsIn, hprec2]
                have hnal : isAssignLike op = false := by
                  cases hop : isAssignLike op
                  · rfl
                  · have := ha hop
                    simp [assignable, E.inner] at this
                obtain ⟨gb, l1, _⟩ := binCore_gwf rec hrec op y last b' hwl hfl hwy hfy
                  (by intro hop; rw [hnal] at hop; cases hop) hb
                obtain ⟨gi, hleni⟩ := mapO_items rec hrec l.dropLast init' hi (wfGoItems_dropLast l hitems)
                have h1 : 1 ≤ lvl b' := Nat.le_trans (t_assign op).2 l1
                refine ⟨?_, ?_, fun ha' => (by rw [hna] at ha'; cases ha'), fun _ hne => absurd hp0 hne, rv_none rfl⟩
                · simp only [gwfA, gwfAItems_append, gwfAItems, gi, gb, Bool.and_true, Bool.true_and, Bool.and_eq_true,
                    decide_eq_true_eq, List.length_append, List.length_cons, List.length_nil, hleni,
                    List.length_dropLast]
                  refine ⟨by omega, ?_⟩
                  simpa [lvAssign] using h1
                · intro _; rw [hp0]; simp [levelOk]
  | unary op x =>
    simp only [wfGo, Bool.and_eq_true] at hw
    obtain ⟨hfx, hwx⟩ := hw
    obtain ⟨u1, u2, u3, u4⟩ := t_unary op
    have hna : assignable (.unary op x) = false := by simp [assignable, E.inner]
    have hprec : (E.unary op x).prec = op.prec := rfl
    have hple : FitsIn p (.unary op x) = true → p ≤ op.prec := by
      intro hf
      simp only [FitsIn, E.isGroup, Bool.false_or, Bool.or_eq_true, decide_eq_true_eq, Bool.and_eq_true,
        beq_iff_eq, hprec] at hf
      rcases hf with hf | ⟨_, hf2⟩
      · exact hf
      · rw [u3, c2] at hf2; split at hf2 <;> pomega
    simp only [descend] at h
    split at h
    · cases h
    · rename_i hguard
      have ha : (op == .postinc || op == .postdec || op == .preinc || op == .predec || op == .delete) = true →
          assignable x = true := by
        intro hop
        cases hax : assignable x
        · simp [hop, hax] at hguard
        · rfl
      -- the generic unary node over a printed operand
      have gen : ∀ x', rec x op.argPrec = some x' → Inv p (.unary op x) (.unary op x') := by
        intro x' hx'
        have ix := hrecF _ _ _ u1 hwx hfx hx'
        have l14 : 14 ≤ lvl x' := levelOk_mono ix.lv u2 (by pomega)
        have larg : op.argPrec ≤ lvl x' := levelOk_mono ix.lv (Nat.le_refl _) (by pomega)
        have hlv : lvl (E.unary op x') = op.prec := by simp [lvl, u3, lvUpdate, lvUnary]
        refine ⟨?_, fun hf => levelOk_of_le (by rw [hlv]; exact hple hf), fun ha' => (by rw [hna] at ha'; cases ha'), ?_, rv_none rfl⟩
        · simp only [gwfA, ix.g, Bool.and_true, Bool.and_eq_true, decide_eq_true_eq]
          refine ⟨?_, by simpa [lvUnary] using l14⟩
          split
          · rename_i hup
            have hass : assignable x = true := ha (by cases op <;> simp [isUpdateOp] at hup <;> rfl)
            simp only [ix.tg hass, Bool.true_and, Bool.or_eq_true, beq_iff_eq, decide_eq_true_eq]
            cases op <;> simp [isUpdateOp] at hup
            · left; left; rfl
            · left; right; rfl
            · right; have := u4 (Or.inl rfl); rw [this] at larg; simpa [lvLHS] using larg
            · right; have := u4 (Or.inr rfl); rw [this] at larg; simpa [lvLHS] using larg
          · rfl
        · intro _ _; rw [hlv, hprec]; exact Nat.min_le_left _ _
      have genm : ∀ o : Option E, o = rec x op.argPrec → o.map (E.unary op) = some t → Inv p (.unary op x) t := by
        intro o ho hm
        cases o with
        | none => simp at hm
        | some x' => simp at hm; subst hm; exact gen x' ho.symm
      split at h
      · exact genm _ rfl h
      · split at h
        · injection h with h; subst h
          rename_i hv
          simp only [Bool.and_eq_true, beq_iff_eq] at hv
          have hop : op = .void := hv.1
          subst hop
          exact ⟨undefIdx_ok.1, fun _ => levelOk_of_le (by rw [undefIdx_ok.2]; pomega), fun ha' => (by rw [hna] at ha'; cases ha'),
            fun _ _ => (by rw [undefIdx_ok.2]; pomega), rv_none rfl⟩
        · cases hn : (if op == .not then notLit x else none) with
          | some r =>
            simp only [hn] at h
            injection h with h; subst h
            by_cases hop : (op == .not) = true
            · rw [if_pos hop] at hn
              have : op = .not := by simpa using hop
              subst this
              have hp14 : FitsIn p (.unary .not x) = true → p ≤ 14 := fun hf => by simpa [u3, isUpdateOp] using hple hf
              unfold notLit at hn
              split at hn
              · injection hn with hn; subst hn
                exact ⟨by simp [gwfA, isUpdateOp, lvl, lvUnary, lvPrimary], fun hf => levelOk_of_le (by have := hp14 hf; simp [lvl, isUpdateOp, lvUnary]; pomega),
                  fun ha' => (by rw [hna] at ha'; cases ha'), fun _ _ => Nat.le_trans (Nat.min_le_right _ _) (by simp [lvl, isUpdateOp, lvUnary]), rv_none rfl⟩
              · injection hn with hn; subst hn
                exact ⟨by simp [gwfA, isUpdateOp, lvl, lvUnary, lvPrimary], fun hf => levelOk_of_le (by have := hp14 hf; simp [lvl, isUpdateOp, lvUnary]; pomega),
                  fun ha' => (by rw [hna] at ha'; cases ha'), fun _ _ => Nat.le_trans (Nat.min_le_right _ _) (by simp [lvl, isUpdateOp, lvUnary]), rv_none rfl⟩
              · cases hn
            · rw [if_neg hop] at hn; cases hn
          | none =>
            simp only [hn] at h
            exact genm _ rfl h
  | dot x name => simp only [descend] at h; exact descLink_gwf rec hrec _ p t hp hw h
  | index x y => simp only [descend] at h; exact descLink_gwf rec hrec _ p t hp hw h
  | group x =>
    simp only [wfGo] at hw
    simp only [descend] at h
    -- the conditional directly inside the group is rewritten first (at `OpExpr`)
    have hgi : ∀ x1, groupInner rw x = some x1 → wfGo x1 = true ∧ (assignable x = true → x1 = x) := by
      intro x1 hx1
      unfold groupInner at hx1
      cases x with
      | cond c a b =>
        exact ⟨hok.wf _ _ _ (by rw [c0]; pomega) hw hx1, fun ha => by simp [assignable, E.inner] at ha⟩
      | _ => simp at hx1; subst hx1; exact ⟨hw, fun _ => rfl⟩
    cases hx1 : groupInner rw x with
    | none => simp [hx1] at h
    | some x1 =>
      simp only [hx1] at h
      obtain ⟨hw1, hsame⟩ := hgi x1 hx1
      split at h
      · cases h
      split at h
      · rename_i hdrop
        have hfx : FitsIn p x1 = true := by
          simp only [Bool.or_eq_true, decide_eq_true_eq, Bool.and_eq_true, beq_iff_eq] at hdrop
          simp only [FitsIn, Bool.or_eq_true, decide_eq_true_eq, Bool.and_eq_true, beq_iff_eq]
          rcases hdrop with h1 | ⟨h1, h2⟩
          · left; right; exact h1
          · right; exact ⟨h2, h1⟩
        have ix := hrec _ _ _ hp hw1 h
        refine ⟨ix.g, fun _ => ix.lv hfx, fun ha => ?_, fun hg => by simp [isPlain] at hg, (groupInner_rv rw x x1 t hx1 ix.rv).1⟩
        have hax : assignable x = true := by simpa [assignable, E.inner] using ha
        have := hsame hax
        subst this
        exact ix.tg hax
      · cases hx : rec x1 opExpr with
        | none => simp [hx] at h
        | some t' =>
          simp [hx] at h
          subst h
          have ix := hrecF _ _ _ (by rw [c0]; pomega) hw1 (by simp [FitsIn, c0]) hx
          refine ⟨by simp [gwfA, ix.g], fun _ => levelOk_of_le (by simp [lvl, lvPrimary]; pomega), fun ha => ?_,
            fun hg => by simp [isPlain] at hg, (groupInner_rv rw x x1 t' hx1 ix.rv).2⟩
          have hax : assignable x = true := by simpa [assignable, E.inner] using ha
          have := hsame hax
          subst this
          simp only [isTarget]
          exact ix.tg hax
  | call f args => simp only [descend] at h; exact descLink_gwf rec hrec _ p t hp hw h
  | opt a e0 =>
    simp only [wfGo, Bool.and_eq_true, beq_iff_eq] at hw
    obtain ⟨hcv, hw0⟩ := hw
    simp only [descend] at h
    split at h
    · cases h
    · rename_i hp16
      split at h
      · cases h
      · rename_i hbad
        rw [if_pos (by simpa using hcv)] at h
        cases ht : descLink rec e0 p with
        | none => simp [ht] at h
        | some t' =>
          simp [ht] at h
          subst h
          have i0 := descLink_gwf rec hrec e0 p t' hp hw0 ht
          have hau : a ≠ "undefined" := by
            intro hh; apply hbad; simp [hh]
          have hroot := (i0.rv a hau (isLink_of_chainVar hcv).2).1
          have hlink := descLink_isLink rec e0 p t' ht
          have c16 : opLHS = 16 := by decide
          refine ⟨by simp [gwfA, i0.g, E.chainVar?, hlink, hroot], fun _ => levelOk_of_le (by simp [lvl, lvLHS]; pomega),
            fun ha' => by simp [assignable, E.inner] at ha', fun hg => by simp [isPlain] at hg, rv_none rfl⟩
  | cond c x y =>
    simp only [wfGo, Bool.and_eq_true] at hw
    obtain ⟨⟨⟨⟨⟨hfc, hfx⟩, hfy⟩, hwc⟩, hwx⟩, hwy⟩ := hw
    have hprec : (E.cond c x y).prec = opAssign := rfl
    have hp1 : FitsIn p (.cond c x y) = true → p ≤ 1 := by
      intro hf
      simp only [FitsIn, E.isGroup, Bool.false_or, Bool.or_eq_true, decide_eq_true_eq, Bool.and_eq_true,
        beq_iff_eq, hprec] at hf
      rcases hf with hf | ⟨_, hf2⟩
      · rw [c1] at hf; exact hf
      · rw [c1, c2] at hf2; cases hf2
    simp only [descend] at h
    cases hc : rec c opCoalesce with
    | none => simp [hc] at h
    | some c' =>
      cases hx : rec x opAssign with
      | none => simp [hc, hx] at h
      | some x' =>
        cases hy : rec y opAssign with
        | none => simp [hc, hx, hy] at h
        | some y' =>
          simp [hc, hx, hy] at h
          subst h
          have ic := hrecF _ _ _ (by rw [c2]; pomega) hwc hfc hc
          have ixx := hrecF _ _ _ (by rw [c1]; pomega) hwx hfx hx
          have iy := hrecF _ _ _ (by rw [c1]; pomega) hwy hfy hy
          have lc : 2 ≤ lvl c' := by
            have := levelOk_mono ic.lv (Nat.le_refl _) (by rw [c2]; decide); rw [c2] at this; exact this
          have lx : 1 ≤ lvl x' := by
            have := levelOk_mono ixx.lv (Nat.le_refl _) (by rw [c1]; decide); rw [c1] at this; exact this
          have ly : 1 ≤ lvl y' := by
            have := levelOk_mono iy.lv (Nat.le_refl _) (by rw [c1]; decide); rw [c1] at this; exact this
          exact ⟨by simp [gwfA, ic.g, ixx.g, iy.g, lvShort, lvAssign, lc, lx, ly],
            fun hf => levelOk_of_le (by simp [lvl, lvAssign]; exact hp1 hf),
            fun ha' => by simp [assignable, E.inner] at ha', fun _ _ => by simp [lvl, lvAssign, hprec, c1], rv_none rfl⟩
  | comma l =>
    simp only [wfGo, Bool.and_eq_true, decide_eq_true_eq] at hw
    obtain ⟨hlen, hitems⟩ := hw
    have hprec : (E.comma l).prec = opExpr := rfl
    have hp0 : FitsIn p (.comma l) = true → p = 0 := by
      intro hf
      simp only [FitsIn, E.isGroup, Bool.false_or, Bool.or_eq_true, decide_eq_true_eq, Bool.and_eq_true,
        beq_iff_eq, hprec] at hf
      rcases hf with hf | ⟨_, hf2⟩
      · rw [c0] at hf; pomega
      · rw [c0, c2] at hf2; cases hf2
    simp only [descend] at h
    cases hl : mapO (fun a => rec a opAssign) l with
    | none => simp [hl] at h
    | some l' =>
      simp [hl] at h
      subst h
      obtain ⟨g, hlen'⟩ := mapO_items rec hrec l l' hl hitems
      exact ⟨by simp [gwfA, g, hlen', hlen], fun hf => (by rw [hp0 hf]; simp [levelOk]),
        fun ha' => by simp [assignable, E.inner] at ha', fun _ _ => (by rw [hprec, c0]; simp), rv_none rfl⟩

/-- the output of the traversal with any acceptable node rewriter is a derivation tree that fits its context -/
theorem minGen_gwf (rw : E → Prec → Option E) (hok : RwOk rw) : ∀ (fuel : Nat) (e : E) (p : Prec) (t : E), p ≤ 17 →
    wfGo e = true → minGen rw fuel e p = some t → Inv p e t := by
  intro fuel
  induction fuel with
  | zero => intro e p t _ _ h; simp [minGen] at h
  | succ n ih =>
    intro e p t hp hw h
    simp only [minGen] at h
    cases hr : rw e p with
    | none => simp [hr] at h
    | some e1 =>
      simp only [hr] at h
      have i1 := descend_gwf rw hok (minGen rw n) ih e1 p t hp (hok.wf e p e1 hp hw hr) h
      refine ⟨i1.g, fun hf => i1.lv (hok.fit e p e1 hp hw hf hr), fun ha => ?_, fun hpl hne => ?_, (fun a ha h => by have he := hok.chain e p e1 (by rw [h]; simp) hr; subst he; exact i1.rv a ha h)⟩
      · have := hok.plain e p e1 hr (Or.inr ha)
        subst this; exact i1.tg ha
      · have := hok.plain e p e1 hr (Or.inl hpl)
        subst this; exact i1.lo hpl hne

/-- the printer's output is a derivation tree that fits its context -/
theorem printT_gwf (fuel : Nat) (e : E) (p : Prec) (t : E) (hp : p ≤ 17) (hw : wfGo e = true)
    (h : printT fuel e p = some t) : Inv p e t :=
  minGen_gwf idRw idRw_ok fuel e p t hp hw h

/-! ## the parser's trees: every derivation tree of the (strict) grammar has the shape `wfGo` -/

/-- Go's `exprPrec` of a node that is neither a group nor an optional chain is the level of its production -/
theorem prec_eq_lvl (x : E) (h : x.isGroup = false) (ho : x.isOpt = false) : x.prec = lvl x := by
  cases x with
  | var n => simp only [E.prec, lvl]; decide
  | lit l => simp only [E.prec, lvl]; decide
  | unary op y => simp only [E.prec, lvl, (t_unary op).2.2.1, lvUpdate, lvUnary]
  | bin op y z => simp only [E.prec, lvl, t_prec op]
  | cond c y z => simp only [E.prec, lvl]; decide
  | comma l => simp only [E.prec, lvl]; decide
  | call f a => simp only [E.prec, lvl]; decide
  | dot y n => simp only [E.prec, lvl, memberPrec_eq]
  | index y z => simp only [E.prec, lvl, memberPrec_eq]
  | group y => simp [E.isGroup] at h
  | opt a e => simp [E.isOpt] at ho

/-- … and for an optional chain (a `LeftHandSideExpression`) Go's value is that of the chain (`OpCall`/`OpMember`) -/
theorem lvl_le_prec (x : E) (h : x.isGroup = false) (hg : gwf x = true) : lvl x ≤ x.prec := by
  cases ho : x.isOpt
  · exact Nat.le_of_eq (prec_eq_lvl x h ho).symm
  · cases x with
    | opt a e =>
      simp only [gwf, Bool.and_eq_true, beq_iff_eq] at hg
      have := prec_link e (isLink_of_chainVar hg.1).1
      simp only [lvl, lvLHS, E.prec]
      pomega
    | _ => simp [E.isOpt] at ho

theorem fitsIn_of_lvl (p : Prec) (x : E) (h : p ≤ lvl x) (hg : gwf x = true) : FitsIn p x = true := by
  cases hgr : x.isGroup
  · have := lvl_le_prec x hgr hg
    simp only [FitsIn, hgr, Bool.false_or, Bool.or_eq_true, decide_eq_true_eq]
    left; pomega
  · simp [FitsIn, hgr]

theorem t_right_le (op : BOp) : op.right ≤ opRight op ∧ op.left ≤ 17 := by
  have : ∀ o ∈ BOp.all, o.right ≤ opRight o ∧ o.left ≤ 17 := by decide
  exact this op (BOp.mem_all op)

theorem wfGoItems_of (l : List E) (ih : ∀ a ∈ l, gwf a = true → wfGo a = true) (h : gwfItems l = true) :
    wfGoItems l = true := by
  induction l with
  | nil => rfl
  | cons a t iht =>
    simp only [gwfItems, Bool.and_eq_true, decide_eq_true_eq] at h
    have c1 : opAssign = 1 := by decide
    simp only [wfGoItems, Bool.and_eq_true]
    refine ⟨⟨fitsIn_of_lvl _ _ (by rw [c1]; simpa [lvAssign] using h.1.1) h.1.2, ih a (List.mem_cons_self) h.1.2⟩,
      iht (fun b hb => ih b (List.mem_cons_of_mem _ hb)) h.2⟩

theorem leftOk_nullish (x : E) (h : leftOk .nullish x = true) : lvBitOr ≤ lvl x ∨ ∃ a b, x = .bin .nullish a b := by
  simp only [leftOk, Bool.or_eq_true, decide_eq_true_eq] at h
  rcases h with h | h
  · left; exact h
  · right
    cases x with
    | bin o a b =>
      cases o <;> first | exact ⟨a, b, rfl⟩ | (simp at h)
    | _ => simp at h

/-- a derivation tree of the ECMA-262 expression grammar (strict reading) satisfies the printer's input condition -/
theorem gwf_wfGo (e : E) (h : gwf e = true) : wfGo e = true := by
  obtain ⟨c0, c1, c2, c5, c14, c17, c19, c4, c3⟩ := consts
  induction e using E.ind with
  | hvar n => rfl
  | hlit l => rfl
  | hun op x ih =>
    simp only [gwf, Bool.and_eq_true, decide_eq_true_eq] at h
    obtain ⟨⟨hup, h14⟩, hg⟩ := h
    simp only [wfGo, Bool.and_eq_true]
    refine ⟨?_, ih hg⟩
    obtain ⟨_, _, _, u4⟩ := t_unary op
    by_cases hpost : op = .postinc ∨ op = .postdec
    · have h16 := u4 hpost
      have : lvLHS ≤ lvl x := by
        rcases hpost with rfl | rfl <;> exact (by simpa [isUpdateOp] using hup : _ ∧ lvLHS ≤ lvl x).2
      exact fitsIn_of_lvl _ _ (by rw [h16]; simpa [lvLHS] using this) hg
    · have harg : op.argPrec = 14 := by
        cases op <;> first | (exfalso; exact hpost (Or.inl rfl)) | (exfalso; exact hpost (Or.inr rfl)) | decide
      exact fitsIn_of_lvl _ _ (by rw [harg]; simpa [lvUnary] using h14) hg
  | hbin op x y ihx ihy =>
    simp only [gwf, Bool.and_eq_true, decide_eq_true_eq] at h
    obtain ⟨⟨⟨⟨hl, hr⟩, _⟩, hgx⟩, hgy⟩ := h
    simp only [wfGo, Bool.and_eq_true]
    refine ⟨⟨⟨?_, ?_⟩, ihx hgx⟩, ihy hgy⟩
    · -- left operand
      unfold leftFits
      by_cases hn : op = .nullish
      · subst hn
        have h5 : BOp.nullish.left = 5 := by decide
        rcases leftOk_nullish x hl with hl | ⟨a, b, rfl⟩
        · have := fitsIn_of_lvl BOp.nullish.left x (by rw [h5]; simpa [lvBitOr] using hl) hgx
          simp [this]
        · have hp : (E.bin BOp.nullish a b).prec = 2 := by simp only [E.prec]; decide
          simp [FitsIn, E.isGroup, hp, h5, c5, c2]
      · have hform : leftOk op x = decide (opLeft op ≤ lvl x) := by
          cases op <;> first | exact absurd rfl hn | rfl
        rw [hform] at hl
        have hle : opLeft op ≤ lvl x := by simpa using hl
        cases hg : x.isGroup
        · have := lvl_le_prec x hg hgx
          simp only [FitsIn, hg, Bool.false_or, Bool.not_false, Bool.true_and, Bool.or_eq_true, decide_eq_true_eq]
          right; pomega
        · simp [FitsIn, hg]
    · exact fitsIn_of_lvl _ _ (Nat.le_trans (t_right_le op).1 hr) hgy
  | hcond c x y ihc ihx ihy =>
    simp only [gwf, Bool.and_eq_true, decide_eq_true_eq] at h
    obtain ⟨⟨⟨⟨⟨h1, h2⟩, h3⟩, g1⟩, g2⟩, g3⟩ := h
    simp only [wfGo, Bool.and_eq_true]
    exact ⟨⟨⟨⟨⟨fitsIn_of_lvl _ _ (by rw [c2]; simpa [lvShort] using h1) g1, fitsIn_of_lvl _ _ (by rw [c1]; simpa [lvAssign] using h2) g2⟩,
      fitsIn_of_lvl _ _ (by rw [c1]; simpa [lvAssign] using h3) g3⟩, ihc g1⟩, ihx g2⟩, ihy g3⟩
  | hcomma l ih =>
    simp only [gwf, Bool.and_eq_true, decide_eq_true_eq] at h
    simp only [wfGo, Bool.and_eq_true, decide_eq_true_eq]
    exact ⟨h.1, wfGoItems_of l ih h.2⟩
  | hcall f args ihf iha =>
    simp only [gwf, Bool.and_eq_true, decide_eq_true_eq] at h
    obtain ⟨⟨h1, g1⟩, g2⟩ := h
    simp only [wfGo, Bool.and_eq_true]
    exact ⟨⟨fitsIn_of_lvl _ _ (by rw [c17]; simpa [lvCall] using h1) g1, ihf g1⟩, wfGoItems_of args iha g2⟩
  | hdot x n ih =>
    simp only [gwf, Bool.and_eq_true, decide_eq_true_eq] at h
    simp only [wfGo, Bool.and_eq_true]
    exact ⟨fitsIn_of_lvl _ _ (by rw [c17]; simpa [lvCall] using h.1) h.2, ih h.2⟩
  | hindex x y ihx ihy =>
    simp only [gwf, Bool.and_eq_true, decide_eq_true_eq] at h
    simp only [wfGo, Bool.and_eq_true]
    exact ⟨⟨fitsIn_of_lvl _ _ (by rw [c17]; simpa [lvCall] using h.1.1) h.1.2, ihx h.1.2⟩, ihy h.2⟩
  | hgroup x ih =>
    simp only [gwf] at h
    simp only [wfGo]
    exact ih h
  | hopt a e ih =>
    simp only [gwf, Bool.and_eq_true] at h
    simp only [wfGo, Bool.and_eq_true]
    exact ⟨h.1, ih h.2⟩

end Verif.Proofs.JsPrintGwf

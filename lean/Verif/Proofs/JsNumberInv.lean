import Verif.Proofs.JsNumberVal
/-!
# C01N — inversion of the specification's recogniser: a decimal literal is a structured lexeme
-/
namespace Verif.Proofs.JsNumber
open Verif.Spec.JsNumberSem

theorem notE_false {c : Char} (h : notE c = false) : c = 'e' ∨ c = 'E' := by
  unfold notE at h
  by_cases h1 : c = 'e'
  · exact Or.inl h1
  · by_cases h2 : c = 'E'
    · exact Or.inr h2
    · simp [h1, h2] at h

theorem notDotE_false {c : Char} (h : notDotE c = false) : c = '.' ∨ c = 'e' ∨ c = 'E' := by
  unfold notDotE at h
  by_cases h0 : c = '.'
  · exact Or.inl h0
  · by_cases h1 : c = 'e'
    · exact Or.inr (Or.inl h1)
    · by_cases h2 : c = 'E'
      · exact Or.inr (Or.inr h2)
      · simp [h0, h1, h2] at h

/-- split of the text after the exponent indicator into sign and digits -/
theorem signedInt_inv (x : List Char) :
    ∃ sg d, x = sg ++ d ∧ (sg = [] ∨ sg = ['+'] ∨ sg = ['-']) ∧ signedInt x = (d, decide (sg = ['-'])) := by
  unfold signedInt
  split
  · rename_i r; exact ⟨['+'], r, rfl, Or.inr (Or.inl rfl), rfl⟩
  · rename_i r; exact ⟨['-'], r, rfl, Or.inr (Or.inr rfl), rfl⟩
  · exact ⟨[], _, rfl, Or.inl rfl, by simp⟩

/-- the exponent part of a structured lexeme whose sign/digit split is the specification's -/
def ExOK (ex : Option (Char × List Char × List Char)) : Prop :=
  ∀ c sg d, ex = some (c, sg, d) →
    (c = 'e' ∨ c = 'E') ∧ (sg = [] ∨ sg = ['+'] ∨ sg = ['-']) ∧ signedInt (sg ++ d) = (d, decide (sg = ['-']))

theorem afterE_inv {rest : List Char} (hr : ∀ c t, rest = c :: t → c = 'e' ∨ c = 'E') :
    ∃ ex : Option (Char × List Char × List Char),
      (DLex.mk [] none ex).exPart = rest ∧
      afterE rest = ex.map (fun x => x.2.1 ++ x.2.2) ∧ ExOK ex := by
  cases rest with
  | nil => exact ⟨none, rfl, rfl, by intro c sg d h; cases h⟩
  | cons c x =>
    obtain ⟨sg, d, h1, h2, h3⟩ := signedInt_inv x
    refine ⟨some (c, sg, d), by simp [DLex.exPart, h1], by simp [afterE, h1], ?_⟩
    intro c' sg' d' he
    injection he with he; injection he with e1 he; injection he with e2 e3
    subst e1; subst e2; subst e3
    exact ⟨hr _ _ rfl, h2, by rw [← h1]; exact h3⟩

/-- every string is the text of a structured lexeme on which `decParts` returns the three parts -/
theorem decParts_inv (b : List Char) :
    ∃ L : DLex, L.str = b ∧ decParts b = { ip := L.ip, fp := L.fp, ex := L.exText } ∧ ExOK L.ex := by
  have hb : b = b.takeWhile notDotE ++ b.dropWhile notDotE := (List.takeWhile_append_dropWhile).symm
  have hhead := dropWhile_head (p := notDotE) b
  unfold decParts
  cases hd : b.dropWhile notDotE with
  | nil =>
    refine ⟨DLex.mk (b.takeWhile notDotE) none none, ?_, rfl, by intro c sg d h; cases h⟩
    rw [hd, List.append_nil] at hb
    simp [DLex.str, DLex.dotPart, DLex.exPart, ← hb]
  | cons c t =>
    rw [hd] at hb
    have hc := notDotE_false (hhead c t hd)
    by_cases hdot : c = '.'
    · subst hdot
      have ht : t = t.takeWhile notE ++ t.dropWhile notE := (List.takeWhile_append_dropWhile).symm
      obtain ⟨ex, h1, h2, h3⟩ := afterE_inv (rest := t.dropWhile notE)
        (fun c' t' e => notE_false (dropWhile_head (p := notE) t c' t' e))
      refine ⟨DLex.mk (b.takeWhile notDotE) (some (t.takeWhile notE)) ex, ?_, ?_, h3⟩
      · have hx : (DLex.mk (b.takeWhile notDotE) (some (t.takeWhile notE)) ex).exPart = (DLex.mk [] none ex).exPart := rfl
        unfold DLex.str
        rw [hx, h1]
        unfold DLex.dotPart
        simp only
        rw [List.cons_append, ← ht, ← hb]
      · simp only [DLex.exText]; rw [h2]
    · have hc' : c = 'e' ∨ c = 'E' := by
        rcases hc with e | e
        · exact absurd e hdot
        · exact e
      obtain ⟨ex, h1, h2, h3⟩ := afterE_inv (rest := c :: t)
        (fun c' t' e => by injection e with e _; rw [← e]; exact hc')
      refine ⟨DLex.mk (b.takeWhile notDotE) none ex, ?_, ?_, h3⟩
      · have hx : (DLex.mk (b.takeWhile notDotE) none ex).exPart = (DLex.mk [] none ex).exPart := rfl
        unfold DLex.str
        rw [hx, h1]
        unfold DLex.dotPart
        simp only
        rw [List.nil_append, ← hb]
      · have : (match c :: t with
            | '.' :: t => ({ ip := b.takeWhile notDotE, fp := some (t.takeWhile notE), ex := afterE (t.dropWhile notE) } : DecParts)
            | r => { ip := b.takeWhile notDotE, fp := none, ex := afterE r }) =
            { ip := b.takeWhile notDotE, fp := none, ex := afterE (c :: t) } := by
          split
          · rename_i heq; injection heq with e _; exact absurd e hdot
          · rfl
        simp only [DLex.exText]
        rw [← h2]
        exact this


/-! ## decimal literals -/

theorem isNonZeroDigit_spec {c : Char} (h : isNonZeroDigit c = true) : c.isDigit = true ∧ c ≠ '0' := by
  simp only [isNonZeroDigit, Bool.and_eq_true, decide_eq_true_eq] at h
  obtain ⟨h1, h2⟩ := h
  rw [Char.le_def] at h1 h2
  simp only [UInt32.le_iff_toNat_le] at h1 h2
  have e1 : ('1' : Char).val.toNat = 49 := by decide
  have e2 : ('9' : Char).val.toNat = 57 := by decide
  refine ⟨(isDigit_iff c).mpr (by unfold Char.toNat; omega), ?_⟩
  intro e; subst e
  have : ('0' : Char).val.toNat = 48 := by decide
  omega

theorem isDecIntLit_spec {ip : List Char} (h : isDecIntLit ip = true) :
    ip = ['0'] ∨ (∃ c r, ip = '0' :: c :: r ∧ c.isDigit = true ∧ AllDig ip) ∨
    (∃ c r, ip = c :: r ∧ c.isDigit = true ∧ c ≠ '0' ∧ sepDigits Char.isDigit (c :: r) = true) := by
  unfold isDecIntLit at h
  split at h
  · cases h
  · exact Or.inl rfl
  · rename_i r hne
    right; left
    simp only [Bool.and_eq_true, List.all_eq_true] at h
    cases r with
    | nil => exact absurd rfl hne
    | cons c r' =>
      refine ⟨c, r', rfl, h.1 c (by simp), ?_⟩
      intro x hx
      rcases List.mem_cons.mp hx with e | e
      · subst e; decide
      · exact h.1 x e
  · rename_i c r _ _
    simp only [Bool.and_eq_true] at h
    obtain ⟨h1, h2⟩ := isNonZeroDigit_spec h.1
    exact Or.inr (Or.inr ⟨c, r, rfl, h1, h2, h.2⟩)

theorem isDecIntLit_allDS {ip : List Char} (h : isDecIntLit ip = true) : AllDS ip := by
  rcases isDecIntLit_spec h with e | ⟨c, r, _, _, h3⟩ | ⟨c, r, e, _, _, h4⟩
  · subst e; intro c hc; simp at hc; subst hc; left; decide
  · exact h3.allDS
  · rw [e]; exact (sepDigits_isDigit_spec h4).1

/-- what `isDecimalLiteral` says about the parts of the lexeme -/
structure DecLit (L : DLex) : Prop where
  shape : L.Shape
  ipok : L.ip = [] ∨ isDecIntLit L.ip = true
  fpok : ∀ f, L.fp = some f → f = [] ∨ sepDigits Char.isDigit f = true
  ne : L.ip ≠ [] ∨ ∃ f, L.fp = some f ∧ sepDigits Char.isDigit f = true
  exok : ∀ c sg d, L.ex = some (c, sg, d) → sepDigits Char.isDigit d = true

theorem isDecimalLiteral_inv {b : List Char} (h : isDecimalLiteral b = true) :
    ∃ L : DLex, L.str = b ∧ DecLit L := by
  obtain ⟨L, hs, hp, hex⟩ := decParts_inv b
  unfold isDecimalLiteral at h
  rw [hp] at h
  simp only [Bool.and_eq_true] at h
  obtain ⟨hm, he⟩ := h
  have hexok : ∀ c sg d, L.ex = some (c, sg, d) → sepDigits Char.isDigit d = true := by
    intro c sg d hx
    unfold DLex.exText at he
    rw [hx] at he
    simp only [Option.map_some, exOK] at he
    rw [(hex c sg d hx).2.2] at he
    exact he
  have hexshape : ∀ c sg d, L.ex = some (c, sg, d) →
      (c = 'e' ∨ c = 'E') ∧ (sg = [] ∨ sg = ['+'] ∨ sg = ['-']) ∧ AllDS d := by
    intro c sg d hx
    exact ⟨(hex c sg d hx).1, (hex c sg d hx).2.1, (sepDigits_isDigit_spec (hexok c sg d hx)).1⟩
  refine ⟨L, hs, ?_⟩
  cases hfp : L.fp with
  | none =>
    rw [hfp] at hm
    simp only at hm
    have hfn : ∀ f, L.fp = some f → AllDS f := by intro f hf; rw [hfp] at hf; cases hf
    exact {
      shape := ⟨isDecIntLit_allDS hm, hfn, hexshape⟩
      ipok := Or.inr hm
      fpok := (by intro f hf; rw [hfp] at hf; cases hf)
      ne := Or.inl (by intro e; rw [e] at hm; cases hm)
      exok := hexok }
  | some f =>
    rw [hfp] at hm
    simp only [Bool.or_eq_true, Bool.and_eq_true, List.isEmpty_iff] at hm
    rcases hm with ⟨h1, h2⟩ | ⟨h1, h2⟩
    · have hi : AllDS L.ip := by rw [h1]; intro c hc; cases hc
      have hfn : ∀ f', L.fp = some f' → AllDS f' := by
        intro f' hf; rw [hfp] at hf; injection hf with hf; subst hf; exact (sepDigits_isDigit_spec h2).1
      exact {
        shape := ⟨hi, hfn, hexshape⟩
        ipok := Or.inl h1
        fpok := (by intro f' hf; rw [hfp] at hf; injection hf with hf; subst hf; exact Or.inr h2)
        ne := Or.inr ⟨f, hfp, h2⟩
        exok := hexok }
    · have hfn : ∀ f', L.fp = some f' → AllDS f' := by
        intro f' hf; rw [hfp] at hf; injection hf with hf; subst hf
        rcases h2 with e | e
        · rw [e]; intro c hc; cases hc
        · exact (sepDigits_isDigit_spec e).1
      exact {
        shape := ⟨isDecIntLit_allDS h1, hfn, hexshape⟩
        ipok := Or.inr h1
        fpok := (by intro f' hf; rw [hfp] at hf; injection hf with hf; subst hf; exact h2)
        ne := Or.inl (by intro e; rw [e] at h1; cases h1)
        exok := hexok }

end Verif.Proofs.JsNumber

import Verif.Model.SvgDoc
import Verif.Spec.CssUnits
/-!
# C05B — the colour branch of `svg.go` keeps the sRGB value

`colorVal` consults the regenerated tables `css.ShortenColorHex` / `css.ShortenColorName` (whole-table check by
`decide +kernel` against the independent colour table `Verif.Gen.CssColors`) or compacts `#aabbcc` to `#abc`.
-/
namespace Verif.Proofs.SvgDocColor
open Verif.Model.SvgDoc
open Verif.Spec.CssUnits (color colorCps hexColorCps hexDigitVal)

def rowOk (r : List Char × List Char) : Bool := color r.1 == color r.2 && (color r.1).isSome

theorem hexTable_ok : hexTable.all rowOk = true := by decide +kernel
theorem nameTable_ok : nameTable.all rowOk = true := by decide +kernel

theorem lookup_mem' {β} (l : List (List Char × β)) (k : List Char) (v : β)
    (h : l.lookup k = some v) : (k, v) ∈ l := by
  induction l with
  | nil => simp at h
  | cons p l ih =>
    obtain ⟨a, b⟩ := p
    simp only [List.lookup_cons] at h
    split at h
    · next hk =>
      have : k = a := by simpa using hk
      simp only [Option.some.injEq] at h
      simp [this, h]
    · exact List.mem_cons_of_mem _ (ih h)

theorem table_row (t : List (List Char × List Char)) (ht : t.all rowOk = true) (k v : List Char)
    (h : t.lookup k = some v) : color v = color k ∧ (color k).isSome = true := by
  have hm := lookup_mem' t k v h
  have := List.all_eq_true.mp ht (k, v) hm
  simp only [rowOk, Bool.and_eq_true, beq_iff_eq] at this
  exact ⟨this.1.symm, this.2⟩

/-- `#aabbcc` and `#abc` denote the same colour (or both none) -/
theorem compact_color (a c e : Char) :
    color ['#', a, c, e] = color ['#', a, a, c, c, e, e] := by
  simp only [color, List.map_cons, List.map_nil, colorCps, hexColorCps]
  have h35 : ('#' : Char).toNat = 35 := by decide
  simp only [h35]
  cases hexDigitVal a.toNat <;> cases hexDigitVal c.toNat <;> cases hexDigitVal e.toNat <;> simp <;> omega

/-- **the colour branch keeps the sRGB triple** (`none` = not a keyword / hex colour: then also afterwards) -/
theorem colorVal_color (v : List Char) : color (colorVal v) = color v := by
  unfold colorVal
  split
  · next rest =>
    split
    · next name hl => exact (table_row hexTable hexTable_ok _ _ hl).1
    · split
      · next a b c d e f heq =>
        split
        · next h =>
          simp only [Bool.and_eq_true, beq_iff_eq] at h
          obtain ⟨⟨h1, h2⟩, h3⟩ := h
          rw [heq, ← h1, ← h2, ← h3]
          exact compact_color a c e
        · rfl
      · rfl
  · split
    · next hex hl => exact (table_row nameTable nameTable_ok _ _ hl).1
    · rfl

/-- a keyword or hex colour that the tables rewrite is a colour -/
theorem colorVal_table_is_color (v w : List Char) (h : hexTable.lookup v = some w ∨ nameTable.lookup v = some w) :
    (color v).isSome = true := by
  rcases h with h | h
  · exact (table_row hexTable hexTable_ok _ _ h).2
  · exact (table_row nameTable nameTable_ok _ _ h).2

end Verif.Proofs.SvgDocColor

import Verif.Proofs.HtmlRefs
/-!
# C03 — `html.EntitiesMap` / `html.TextRevEntitiesMap` against the HTML5 table of named character references

A linear, kernel-friendly checker (`emCheck`, `revCheck`) and its soundness (`EmOk`, `RevOk`).  The HTML5 table
is sorted by key (checked: `sortedKeys`), `html.EntitiesMap` is emitted sorted by `name;`, so that one
forward merge finds every entry; alias replacements (`&ApplyFunction;` → `&af;`) are collected, sorted and
merged a second time.
-/
namespace Verif.Proofs.HtmlEntTable
open Verif.Spec.HtmlAttr Verif.Spec.HtmlKnown Verif.Proofs.HtmlAttr Verif.Proofs.HtmlRefs
open Verif.Model.HtmlAttr (EntMap RevMap)

/-! ## sorted association lists -/

def ltNats : List Nat → List Nat → Bool
  | [], [] => false
  | [], _ :: _ => true
  | _ :: _, [] => false
  | a :: as, b :: bs => a < b || (a == b && ltNats as bs)

theorem ltNats_irrefl (a : List Nat) : ltNats a a = false := by
  induction a with
  | nil => rfl
  | cons x a ih => simp [ltNats, ih]

theorem ltNats_trans : ∀ (a b c : List Nat), ltNats a b = true → ltNats b c = true → ltNats a c = true := by
  intro a
  induction a with
  | nil =>
    intro b c h1 h2
    cases b with
    | nil => simp [ltNats] at h1
    | cons y b => cases c with
      | nil => simp [ltNats] at h2
      | cons z c => rfl
  | cons x a ih =>
    intro b c h1 h2
    cases b with
    | nil => simp [ltNats] at h1
    | cons y b =>
      cases c with
      | nil => simp [ltNats] at h2
      | cons z c =>
        simp only [ltNats, Bool.or_eq_true, decide_eq_true_eq, Bool.and_eq_true, beq_iff_eq] at h1 h2 ⊢
        rcases h1 with h1 | ⟨h1, h1'⟩ <;> rcases h2 with h2 | ⟨h2, h2'⟩
        · left; omega
        · left; omega
        · left; omega
        · right; exact ⟨by omega, ih b c h1' h2'⟩

def sortedKeys {β : Type} : List (List Nat × β) → Bool
  | [] => true
  | [_] => true
  | a :: b :: r => ltNats a.1 b.1 && sortedKeys (b :: r)

theorem sorted_head_lt {β : Type} (a : List Nat × β) (l : List (List Nat × β))
    (h : sortedKeys (a :: l) = true) : ∀ x ∈ l, ltNats a.1 x.1 = true := by
  induction l generalizing a with
  | nil => intro x hx; simp at hx
  | cons b l ih =>
    simp only [sortedKeys, Bool.and_eq_true] at h
    intro x hx
    simp only [List.mem_cons] at hx
    rcases hx with rfl | hx
    · exact h.1
    · exact ltNats_trans _ _ _ h.1 (ih b h.2 x hx)

theorem sorted_tail {β : Type} (a : List Nat × β) (l : List (List Nat × β))
    (h : sortedKeys (a :: l) = true) : sortedKeys l = true := by
  cases l with
  | nil => rfl
  | cons b l => simp only [sortedKeys, Bool.and_eq_true] at h; exact h.2

theorem lookup_of_sorted {β : Type} (l : List (List Nat × β)) (hs : sortedKeys l = true)
    (k : List Nat) (v : β) (hm : (k, v) ∈ l) : l.lookup k = some v := by
  induction l with
  | nil => simp at hm
  | cons a l ih =>
    obtain ⟨ka, va⟩ := a
    simp only [List.mem_cons, Prod.mk.injEq] at hm
    rcases hm with ⟨rfl, rfl⟩ | hm
    · simp [List.lookup]
    · have hlt := sorted_head_lt (ka, va) l hs (k, v) hm
      have hne : (k == ka) = false := by
        cases hh : k == ka with
        | false => rfl
        | true =>
          have : k = ka := by simpa using hh
          subst this
          rw [ltNats_irrefl] at hlt; exact absurd hlt (by simp)
      simp only [List.lookup, hne]
      exact ih (sorted_tail _ _ hs) hm

/-! ## stage 1: forward merge of `html.EntitiesMap` (sorted by `name;`) into the HTML5 table -/

abbrev Spec := List (List Nat × List Nat)

def keyOf (n : List Char) : List Nat := (n ++ [';']).map Char.toNat

def annot : Spec → EntMap → Option (List (List Char × List Char × List Nat))
  | _, [] => some []
  | [], _ :: _ => none
  | (k, cps) :: sp, (n, r) :: em =>
    if k == keyOf n then (annot sp em).map ((n, r, cps) :: ·)
    else annot sp ((n, r) :: em)

theorem annot_sound (sp : Spec) : ∀ (em : EntMap) (L : List (List Char × List Char × List Nat)),
    annot sp em = some L →
      (∀ x ∈ L, (keyOf x.1, x.2.2) ∈ sp) ∧ L.map (fun x => (x.1, x.2.1)) = em := by
  induction sp with
  | nil =>
    intro em L h
    cases em with
    | nil => simp [annot] at h; subst h; simp
    | cons e em => simp [annot] at h
  | cons kc sp ih =>
    intro em L h
    obtain ⟨k, cps⟩ := kc
    cases em with
    | nil => simp [annot] at h; subst h; simp
    | cons e em =>
      obtain ⟨n, r⟩ := e
      simp only [annot] at h
      split at h
      · next hk =>
        cases ha : annot sp em with
        | none => simp [ha] at h
        | some L' =>
          simp only [ha, Option.map_some, Option.some.injEq] at h
          subst h
          have := ih em L' ha
          have hk' : k = keyOf n := by simpa using hk
          refine ⟨?_, by simp [this.2]⟩
          intro x hx
          simp only [List.mem_cons] at hx
          rcases hx with rfl | hx
          · simp [hk']
          · exact List.mem_cons_of_mem _ (this.1 x hx)
      · have := ih _ L h
        exact ⟨fun x hx => List.mem_cons_of_mem _ (this.1 x hx), this.2⟩

/-! ## per-entry shape check -/

/-- shape of a replacement `r` for a name denoting `cps` -/
def shapeOk (r : List Char) (cps : List Nat) : Bool :=
  match r with
  | [ch] => (match cps with | [m] => m < 128 && m != 0 && Char.ofNat m == ch | _ => false)
  | c1 :: c2 :: rest =>
    c1 == '&' &&
    (if c2 = '#' then
      let ds := rest.takeWhile isDigit
      rest == ds ++ [';'] && !ds.isEmpty && cps == [numericFix (numVal 10 ds)]
    else
      let nm := (c2 :: rest).takeWhile isAlnum
      (c2 :: rest) == nm ++ [';'])
  | [] => false

/-- the alias key `name2;` of a replacement `&name2;` -/
def aliasKey (r : List Char) : Option (List Nat) :=
  match r with
  | _ :: c2 :: rest => if c2 = '#' then none else some ((c2 :: rest).map Char.toNat)
  | _ => none

def aliasList (L : List (List Char × List Char × List Nat)) : Spec :=
  L.filterMap (fun x => (aliasKey x.2.1).map (fun k => (k, x.2.2)))

/-! ## stage 2: sort the aliases, merge them into the table -/

def insertK (x : List Nat × List Nat) : Spec → Spec
  | [] => [x]
  | y :: ys => if ltNats y.1 x.1 then y :: insertK x ys else x :: y :: ys

def isort : Spec → Spec
  | [] => []
  | x :: xs => insertK x (isort xs)

theorem mem_insertK (x y : List Nat × List Nat) (l : Spec) : y ∈ insertK x l ↔ y = x ∨ y ∈ l := by
  induction l with
  | nil => simp [insertK]
  | cons z l ih =>
    simp only [insertK]
    split
    · simp only [List.mem_cons, ih]; constructor
      · rintro (h | h | h) <;> simp [h]
      · rintro (h | h | h) <;> simp [h]
    · simp

theorem mem_isort (y : List Nat × List Nat) (l : Spec) : y ∈ isort l ↔ y ∈ l := by
  induction l with
  | nil => simp [isort]
  | cons x l ih => simp [isort, mem_insertK, ih]

def subMerge : Nat → Spec → Spec → Bool
  | _, _, [] => true
  | 0, _, _ :: _ => false
  | _ + 1, [], _ :: _ => false
  | f + 1, (k, c) :: sp, (k2, c2) :: xs =>
    if k == k2 then c == c2 && subMerge f ((k, c) :: sp) xs
    else subMerge f sp ((k2, c2) :: xs)

theorem subMerge_sound : ∀ (f : Nat) (sp xs : Spec), subMerge f sp xs = true → ∀ x ∈ xs, x ∈ sp := by
  intro f
  induction f with
  | zero =>
    intro sp xs h
    cases xs with
    | nil => intro x hx; simp at hx
    | cons a xs => simp [subMerge] at h
  | succ f ih =>
    intro sp xs h
    cases xs with
    | nil => intro x hx; simp at hx
    | cons a xs =>
      obtain ⟨k2, c2⟩ := a
      cases sp with
      | nil => simp [subMerge] at h
      | cons b sp =>
        obtain ⟨k, c⟩ := b
        simp only [subMerge] at h
        split at h
        · next hk =>
          simp only [Bool.and_eq_true, beq_iff_eq] at h
          have hk' : k = k2 := by simpa using hk
          intro x hx
          simp only [List.mem_cons] at hx
          rcases hx with rfl | hx
          · simp [hk', h.1]
          · exact ih _ _ h.2 x hx
        · intro x hx
          exact List.mem_cons_of_mem _ (ih _ _ h x hx)

/-! ## the checker -/

def emCheck (sp : Spec) (em : EntMap) : Bool :=
  sortedKeys sp &&
  match annot sp em with
  | none => false
  | some L =>
    L.all (fun x => x.1.all isAlnum && shapeOk x.2.1 x.2.2) &&
    subMerge (sp.length + L.length + 1) sp (isort (aliasList L))

theorem lookup_mem {α β : Type} [BEq α] [LawfulBEq α] (l : List (α × β)) (k : α) (v : β)
    (h : l.lookup k = some v) : (k, v) ∈ l := by
  induction l with
  | nil => simp [List.lookup] at h
  | cons a l ih =>
    obtain ⟨ka, va⟩ := a
    simp only [List.lookup] at h
    split at h
    · next hk =>
      have : k = ka := by simpa using hk
      simp at h; subst h; subst this; simp
    · exact List.mem_cons_of_mem _ (ih h)

theorem dec_complete_ref (attr : Bool) (body t : List Char) (us : List DU)
    (hm : ∀ t, matchRef attr (body ++ t) = some (us, body.length)) :
    dec attr 0 (('&' :: body) ++ t) = us ++ dec attr 0 t := by
  rw [List.cons_append, dec_ref attr _ us _ (hm t), List.drop_left]

theorem shapeOk_sound (r : List Char) (cps : List Nat) (h : shapeOk r cps = true)
    (halias : ∀ k, aliasKey r = some k →
      Verif.Gen.C03Html5Entities.entities.lookup k = some cps) :
    ReplOk r (cps.map mkCp) := by
  unfold shapeOk at h
  split at h
  · next ch =>
    split at h
    · next m =>
      simp only [Bool.and_eq_true, decide_eq_true_eq, bne_iff_ne, ne_eq, beq_iff_eq] at h
      left
      refine ⟨m, h.1.1, by rw [h.2], ?_⟩
      simp [numericFix_small m h.1.1 h.1.2]
    · simp at h
  · next c1 c2 rest =>
    simp only [Bool.and_eq_true, beq_iff_eq] at h
    obtain ⟨hc1, h⟩ := h
    subst hc1
    right
    refine ⟨by simp, rfl, ?_⟩
    split at h
    · next hc2 =>
      subst hc2
      simp only [Bool.and_eq_true, beq_iff_eq, Bool.not_eq_true'] at h
      obtain ⟨⟨hrest, hne⟩, hcps⟩ := h
      intro attr t
      have hne' : rest.takeWhile isDigit ≠ [] := by
        intro e; rw [e] at hne; simp at hne
      have hm := fun t' => matchRef_dec_semi attr (rest.takeWhile isDigit) t' hne' (takeWhile_all isDigit rest)
      rw [hcps]
      have e : ('&' :: '#' :: rest) ++ t = '&' :: ('#' :: (rest.takeWhile isDigit ++ ';' :: t)) := by
        conv => lhs; rw [hrest]
        simp
      rw [e, dec_ref attr _ _ _ (hm t)]
      simp only [List.map_cons, List.map_nil]
      congr 1
      have : (rest.takeWhile isDigit).length + 2 = ('#' :: rest.takeWhile isDigit ++ [';']).length := by simp
      have e2 : '#' :: (rest.takeWhile isDigit ++ ';' :: t) = ('#' :: rest.takeWhile isDigit ++ [';']) ++ t := by simp
      rw [this, e2, List.drop_left]
    · next hc2 =>
      simp only [beq_iff_eq] at h
      intro attr t
      have hk := halias ((c2 :: rest).map Char.toNat) (by simp [aliasKey, hc2])
      have hl : lookupName ((c2 :: rest).takeWhile isAlnum ++ [';']) = some cps := by
        unfold lookupName; rw [← h]; exact hk
      have hm := fun t' => matchRef_named_semi attr ((c2 :: rest).takeWhile isAlnum) t' cps
        (takeWhile_all isAlnum _) hl
      have e : ('&' :: c2 :: rest) ++ t = '&' :: ((c2 :: rest).takeWhile isAlnum ++ ';' :: t) := by
        conv => lhs; rw [h]
        simp
      rw [e, dec_ref attr _ _ _ (hm t)]
      congr 1
      have e2 : (c2 :: rest).takeWhile isAlnum ++ ';' :: t = ((c2 :: rest).takeWhile isAlnum ++ [';']) ++ t := by simp
      have : ((c2 :: rest).takeWhile isAlnum).length + 1 = ((c2 :: rest).takeWhile isAlnum ++ [';']).length := by simp
      rw [e2, this, List.drop_left]
  · simp at h

theorem emCheck_sound (em : EntMap) (h : emCheck Verif.Gen.C03Html5Entities.entities em = true) : EmOk em := by
  unfold emCheck at h
  simp only [Bool.and_eq_true] at h
  obtain ⟨hsorted, h⟩ := h
  cases ha : annot Verif.Gen.C03Html5Entities.entities em with
  | none => simp [ha] at h
  | some L =>
    simp only [ha, Bool.and_eq_true, List.all_eq_true] at h
    obtain ⟨hall, hsub⟩ := h
    obtain ⟨hmem, hmap⟩ := annot_sound _ em L ha
    have hsubm := subMerge_sound _ _ _ hsub
    intro nm r hl _
    have hin : (nm, r) ∈ em := lookup_mem em nm r hl
    rw [← hmap] at hin
    simp only [List.mem_map] at hin
    obtain ⟨x, hx, hxe⟩ := hin
    obtain ⟨xn, xr, xc⟩ := x
    simp only [Prod.mk.injEq] at hxe
    obtain ⟨rfl, rfl⟩ := hxe
    have hkey := hmem _ hx
    have hlk : lookupName (xn ++ [';']) = some xc := by
      unfold lookupName
      exact lookup_of_sorted _ hsorted _ _ hkey
    refine ⟨xc, hlk, ?_⟩
    have hx2 := (hall _ hx).2
    apply shapeOk_sound xr xc hx2
    intro k hk
    have : (k, xc) ∈ aliasList L := by
      simp only [aliasList, List.mem_filterMap]
      exact ⟨(xn, xr, xc), hx, by simp [hk]⟩
    have := hsubm _ ((mem_isort _ _).mpr this)
    exact lookup_of_sorted _ hsorted _ _ this

/-! ## `TextRevEntitiesMap`, `AttrRevEntitiesMap` -/

/-- every row `b ↦ q`: `b` is ASCII and `q` is a complete decimal or named reference that denotes what a numeric
    reference to `b` denotes -/
def revCheck (rev : RevMap) : Bool :=
  rev.all (fun e =>
    decide (e.1.toNat < 128) &&
    match e.2 with
    | c1 :: c2 :: rest =>
      c1 == '&' &&
      (if c2 = '#' then
        rest == rest.takeWhile isDigit ++ [';'] && !(rest.takeWhile isDigit).isEmpty &&
        decide (mkCp (numericFix (numVal 10 (rest.takeWhile isDigit))) = mkCp (numericFix e.1.toNat))
      else
        (c2 :: rest) == (c2 :: rest).takeWhile isAlnum ++ [';'] &&
        (match lookupName ((c2 :: rest).takeWhile isAlnum ++ [';']) with
         | some cps => decide (cps.map mkCp = [mkCp (numericFix e.1.toNat)])
         | none => false))
    | _ => false)

theorem toNat_ofNat_small : ∀ v, v < 128 → (Char.ofNat v).toNat = v := by decide

theorem revCheck_sound (rev : RevMap) (h : revCheck rev = true) : RevOk rev := by
  intro v q hv hl
  have hin := lookup_mem rev (Char.ofNat v) q hl
  have := List.all_eq_true.mp h _ hin
  simp only [toNat_ofNat_small v hv, Bool.and_eq_true, decide_eq_true_eq] at this
  obtain ⟨_, this⟩ := this
  split at this
  · next c1 c2 rest =>
    simp only [Bool.and_eq_true, beq_iff_eq] at this
    obtain ⟨hc1, this⟩ := this
    subst hc1
    refine ⟨rfl, ?_⟩
    intro attr t
    split at this
    · next hc2 =>
      subst hc2
      simp only [Bool.and_eq_true, beq_iff_eq, Bool.not_eq_true', decide_eq_true_eq] at this
      obtain ⟨⟨hrest, hne⟩, hval⟩ := this
      have hne' : rest.takeWhile isDigit ≠ [] := by
        intro e; rw [e] at hne; simp at hne
      have hm := matchRef_dec_semi attr (rest.takeWhile isDigit) t hne' (takeWhile_all isDigit rest)
      have e : ('&' :: '#' :: rest) ++ t = '&' :: ('#' :: (rest.takeWhile isDigit ++ ';' :: t)) := by
        conv => lhs; rw [hrest]
        simp
      rw [e, dec_ref attr _ _ _ hm, hval]
      simp only [List.singleton_append]
      congr 1
      have : (rest.takeWhile isDigit).length + 2 = ('#' :: rest.takeWhile isDigit ++ [';']).length := by simp
      have e2 : '#' :: (rest.takeWhile isDigit ++ ';' :: t) = ('#' :: rest.takeWhile isDigit ++ [';']) ++ t := by simp
      rw [this, e2, List.drop_left]
    · next hc2 =>
      simp only [Bool.and_eq_true, beq_iff_eq] at this
      obtain ⟨hrest, hlk⟩ := this
      cases hl2 : lookupName ((c2 :: rest).takeWhile isAlnum ++ [';']) with
      | none => simp [hl2] at hlk
      | some cps =>
        simp only [hl2, decide_eq_true_eq] at hlk
        have hm := matchRef_named_semi attr ((c2 :: rest).takeWhile isAlnum) t cps (takeWhile_all isAlnum _) hl2
        have e : ('&' :: c2 :: rest) ++ t = '&' :: ((c2 :: rest).takeWhile isAlnum ++ ';' :: t) := by
          conv => lhs; rw [hrest]
          simp
        rw [e, dec_ref attr _ _ _ hm, hlk]
        simp only [List.singleton_append]
        congr 1
        have e2 : (c2 :: rest).takeWhile isAlnum ++ ';' :: t = ((c2 :: rest).takeWhile isAlnum ++ [';']) ++ t := by simp
        have : ((c2 :: rest).takeWhile isAlnum).length + 1 = ((c2 :: rest).takeWhile isAlnum ++ [';']).length := by simp
        rw [e2, this, List.drop_left]
  · simp at this

/-- NUL and CR have a row -/
def revCovers (rev : RevMap) : Bool :=
  (rev.lookup (Char.ofNat 0)).isSome && (rev.lookup (Char.ofNat 13)).isSome

theorem revCovers_sound (rev : RevMap) (h : revCovers rev = true) : RevCovers rev := by
  simpa [revCovers, RevCovers] using h

end Verif.Proofs.HtmlEntTable

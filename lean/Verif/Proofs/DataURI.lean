import Verif.Model.DataURI
import Verif.Spec.Rfc2397
/-!
# helper lemmas for C18 (base64 and percent-coding round trips, the `asciiLen` early exit, lengths)
-/
namespace Verif.Proofs.DataURI
open Verif Verif.Model.DataURI

/-! ## characters -/

theorem toNat_ofNat_small {n : Nat} (h : n < 0xd800) : (Char.ofNat n).toNat = n := by
  have hv : n.isValidChar := Or.inl h
  simp [Char.ofNat, hv, Char.ofNatAux, Char.toNat]

theorem char_le_iff (a b : Char) : a ≤ b ↔ a.toNat ≤ b.toNat := by
  simp [Char.le_def, UInt32.le_iff_toNat_le]

theorem char_eq_iff (a b : Char) : a = b ↔ a.toNat = b.toNat := Char.toNat_inj.symm

/-- a Latin-1 list: every element is a byte -/
def AllBytes (l : List Char) : Prop := ∀ c ∈ l, c.toNat < 256

instance (l : List Char) : Decidable (AllBytes l) := by unfold AllBytes; infer_instance

theorem allBytes_nil : AllBytes [] := by simp [AllBytes]

theorem allBytes_cons {c : Char} {l : List Char} : AllBytes (c :: l) ↔ c.toNat < 256 ∧ AllBytes l := by
  simp [AllBytes]

theorem allBytes_bytesToChars (b : Bytes) : AllBytes (bytesToChars b) := by
  intro c hc
  simp only [bytesToChars, List.mem_map] at hc
  obtain ⟨x, _, rfl⟩ := hc
  have : x.toNat < 256 := x.toNat_lt
  simp only [byteToChar]
  rw [toNat_ofNat_small (by omega)]
  exact this

/-! ## base64 -/

theorem b64Val_b64Char : ∀ n, n < 64 → b64Val (b64Char n) = some n := by decide

theorem b64Char_ne : ∀ n, n < 64 → b64Char n ≠ '=' ∧ b64Char n ≠ '\n' ∧ b64Char n ≠ '\r' := by decide

theorem b64Char_ne_pad {n : Nat} (h : n < 64) : b64Char n ≠ '=' := (b64Char_ne n h).1

/-- the encoder's output contains neither CR nor LF, so `b64dec` filters nothing out of it -/
theorem b64enc_filter (bs : List Char) (hb : AllBytes bs) :
    (b64enc bs).filter (fun c => !(c = '\n' || c = '\r')) = b64enc bs := by
  fun_induction b64enc bs with
  | case1 => rfl
  | case2 a =>
    have ha := (allBytes_cons.1 hb).1
    have h1 := b64Char_ne (a.toNat / 4) (by omega)
    have h2 := b64Char_ne (a.toNat % 4 * 16) (by omega)
    simp [List.filter, h1.2.1, h1.2.2, h2.2.1, h2.2.2]
  | case3 a b =>
    have ha := (allBytes_cons.1 hb).1
    have hb' := (allBytes_cons.1 (allBytes_cons.1 hb).2).1
    have h1 := b64Char_ne (a.toNat / 4) (by omega)
    have h2 := b64Char_ne (a.toNat % 4 * 16 + b.toNat / 16) (by omega)
    have h3 := b64Char_ne (b.toNat % 16 * 4) (by omega)
    simp [List.filter, h1.2.1, h1.2.2, h2.2.1, h2.2.2, h3.2.1, h3.2.2]
  | case4 a b c r ih =>
    have ha := (allBytes_cons.1 hb).1
    have hb' := (allBytes_cons.1 (allBytes_cons.1 hb).2).1
    have hc := (allBytes_cons.1 (allBytes_cons.1 (allBytes_cons.1 hb).2).2).1
    have hr := (allBytes_cons.1 (allBytes_cons.1 (allBytes_cons.1 hb).2).2).2
    have h1 := b64Char_ne (a.toNat / 4) (by omega)
    have h2 := b64Char_ne (a.toNat % 4 * 16 + b.toNat / 16) (by omega)
    have h3 := b64Char_ne (b.toNat % 16 * 4 + c.toNat / 64) (by omega)
    have h4 := b64Char_ne (c.toNat % 64) (by omega)
    simp only [List.filter, h1.2.1, h1.2.2, h2.2.1, h2.2.2, h3.2.1, h3.2.2, h4.2.1, h4.2.2, decide_false,
      Bool.or_self, Bool.not_false, ih hr]

theorem b64decCore_b64enc (bs : List Char) (hb : AllBytes bs) : b64decCore (b64enc bs) = some bs := by
  fun_induction b64enc bs with
  | case1 => rfl
  | case2 a =>
    have ha := (allBytes_cons.1 hb).1
    simp only [b64decCore, if_true, ne_eq, not_true_eq_false, if_false,
      b64Val_b64Char (a.toNat / 4) (by omega), b64Val_b64Char (a.toNat % 4 * 16) (by omega)]
    have : a.toNat / 4 * 4 + a.toNat % 4 * 16 / 16 = a.toNat := by omega
    rw [this, Char.ofNat_toNat]
  | case3 a b =>
    have ha := (allBytes_cons.1 hb).1
    have hb' := (allBytes_cons.1 (allBytes_cons.1 hb).2).1
    have hne := b64Char_ne_pad (n := b.toNat % 16 * 4) (by omega)
    simp only [b64decCore, if_true, ne_eq, not_true_eq_false, if_false, hne,
      b64Val_b64Char (a.toNat / 4) (by omega), b64Val_b64Char (a.toNat % 4 * 16 + b.toNat / 16) (by omega),
      b64Val_b64Char (b.toNat % 16 * 4) (by omega)]
    have e1 : a.toNat / 4 * 4 + (a.toNat % 4 * 16 + b.toNat / 16) / 16 = a.toNat := by omega
    have e2 : (a.toNat % 4 * 16 + b.toNat / 16) % 16 * 16 + b.toNat % 16 * 4 / 4 = b.toNat := by omega
    rw [e1, e2, Char.ofNat_toNat, Char.ofNat_toNat]
  | case4 a b c r ih =>
    have ha := (allBytes_cons.1 hb).1
    have hb' := (allBytes_cons.1 (allBytes_cons.1 hb).2).1
    have hc := (allBytes_cons.1 (allBytes_cons.1 (allBytes_cons.1 hb).2).2).1
    have hr := (allBytes_cons.1 (allBytes_cons.1 (allBytes_cons.1 hb).2).2).2
    have hne := b64Char_ne_pad (n := c.toNat % 64) (by omega)
    simp only [b64decCore, hne, if_false,
      b64Val_b64Char (a.toNat / 4) (by omega), b64Val_b64Char (a.toNat % 4 * 16 + b.toNat / 16) (by omega),
      b64Val_b64Char (b.toNat % 16 * 4 + c.toNat / 64) (by omega), b64Val_b64Char (c.toNat % 64) (by omega), ih hr]
    have e1 : a.toNat / 4 * 4 + (a.toNat % 4 * 16 + b.toNat / 16) / 16 = a.toNat := by omega
    have e2 : (a.toNat % 4 * 16 + b.toNat / 16) % 16 * 16 + (b.toNat % 16 * 4 + c.toNat / 64) / 4 = b.toNat := by omega
    have e3 : (b.toNat % 16 * 4 + c.toNat / 64) % 4 * 64 + c.toNat % 64 = c.toNat := by omega
    rw [e1, e2, e3, Char.ofNat_toNat, Char.ofNat_toNat, Char.ofNat_toNat]

theorem b64enc_length (bs : List Char) : (b64enc bs).length = b64Len bs.length := by
  fun_induction b64enc bs with
  | case1 => rfl
  | case2 a => simp [b64Len]
  | case3 a b => simp [b64Len]
  | case4 a b c r ih => simp only [List.length_cons, ih, b64Len]; omega

/-! ## percent-coding -/

open Verif.Spec.Rfc2397 (pctDecode hexv)

theorem hexv_hexUp : ∀ n, n < 16 → hexv (hexUp n) = some n := by decide

theorem hexVal_hexUp : ∀ n, n < 16 → hexVal (hexUp n) = some n := by decide

theorem pctDecode_cons_ne {c : Char} (h : c ≠ '%') (l : List Char) : pctDecode (c :: l) = c :: pctDecode l := by
  match l with
  | [] => simp [pctDecode]
  | [a] => simp [pctDecode]
  | a :: b :: r => simp [pctDecode, h]

theorem pctDecode_esc {x y : Nat} {a b : Char} (ha : hexv a = some x) (hb : hexv b = some y) (l : List Char) :
    pctDecode ('%' :: a :: b :: l) = Char.ofNat (16 * x + y) :: pctDecode l := by
  simp [pctDecode, ha, hb]

theorem pctDecode_encodeURL (t : Char → Bool) (ht : t '%' = true) (bs : List Char) (hb : AllBytes bs) :
    pctDecode (encodeURL t bs) = bs := by
  induction bs with
  | nil => rfl
  | cons c r ih =>
    have hc := (allBytes_cons.1 hb).1
    have hr := (allBytes_cons.1 hb).2
    simp only [encodeURL]
    split
    · rw [pctDecode_esc (hexv_hexUp _ (by omega)) (hexv_hexUp _ (Nat.mod_lt _ (by decide))), ih hr]
      have : 16 * (c.toNat / 16) + c.toNat % 16 = c.toNat := by omega
      rw [this, Char.ofNat_toNat]
    · rename_i hn
      have : c ≠ '%' := by intro e; subst e; exact hn ht
      rw [pctDecode_cons_ne this, ih hr]

theorem decodeURL_cons_plain {c : Char} (h1 : c ≠ '%') (h2 : c ≠ '+') (l : List Char) :
    decodeURL (c :: l) = c :: decodeURL l := by
  match l with
  | [] => simp [decodeURL, h2]
  | [a] => simp [decodeURL, h2]
  | a :: b :: r => simp [decodeURL, h1, h2]

theorem decodeURL_esc {x y : Nat} {a b : Char} (ha : hexVal a = some x) (hb : hexVal b = some y) (l : List Char) :
    decodeURL ('%' :: a :: b :: l) = Char.ofNat (x * 16 + y) :: decodeURL l := by
  simp [decodeURL, ha, hb]

/-- the dependency's own decoder inverts the encoder only for tables that also escape `+` -/
theorem decodeURL_encodeURL (t : Char → Bool) (ht : t '%' = true) (hp : t '+' = true) (bs : List Char)
    (hb : AllBytes bs) : decodeURL (encodeURL t bs) = bs := by
  induction bs with
  | nil => rfl
  | cons c r ih =>
    have hc := (allBytes_cons.1 hb).1
    have hr := (allBytes_cons.1 hb).2
    simp only [encodeURL]
    split
    · rw [decodeURL_esc (hexVal_hexUp _ (by omega)) (hexVal_hexUp _ (Nat.mod_lt _ (by decide))), ih hr]
      have : c.toNat / 16 * 16 + c.toNat % 16 = c.toNat := by omega
      rw [this, Char.ofNat_toNat]
    · rename_i hn
      have h1 : c ≠ '%' := by intro e; subst e; exact hn ht
      have h2 : c ≠ '+' := by intro e; subst e; exact hn hp
      rw [decodeURL_cons_plain h1 h2, ih hr]

theorem encodeURL_length (t : Char → Bool) (d : List Char) : (encodeURL t d).length = pctLen t d := by
  induction d with
  | nil => rfl
  | cons c r ih =>
    simp only [encodeURL, pctLen, List.filter] at *
    cases h : t c <;> simp [ih] <;> omega

/-! ## the `asciiLen` loop with its early `break` decides like the full length -/

theorem asciiEst_spec (t : Char → Bool) (b : Nat) (d : List Char) (acc : Nat) :
    (acc + 2 * (d.filter t).length ≤ b → asciiEst t b acc d = acc + 2 * (d.filter t).length) ∧
    (b < acc + 2 * (d.filter t).length →
      b < asciiEst t b acc d ∧ asciiEst t b acc d ≤ acc + 2 * (d.filter t).length) := by
  induction d generalizing acc with
  | nil => simp [asciiEst]
  | cons c r ih =>
    simp only [asciiEst, List.filter]
    cases h : t c
    · simp only [Bool.false_eq_true, if_false]
      split
      · constructor <;> intro <;> omega
      · exact ih acc
    · simp only [if_true, List.length_cons]
      split
      · constructor <;> intro <;> omega
      · have := ih (acc + 2)
        constructor
        · intro h1; rw [this.1 (by omega)]; omega
        · intro h1; have := this.2 (by omega); omega

/-- both comparisons `minify.DataURI` makes with the estimate come out as with the exact length -/
theorem asciiEst_decisions (t : Char → Bool) (b n : Nat) (d : List Char) :
    ((n < b ∧ n < asciiEst t b d.length d) ↔ (n < b ∧ n < pctLen t d)) ∧
    (b < asciiEst t b d.length d ↔ b < pctLen t d) := by
  have := asciiEst_spec t b d d.length
  unfold pctLen
  by_cases h : d.length + 2 * (d.filter t).length ≤ b
  · rw [this.1 h]; simp
  · have h' := this.2 (by omega)
    constructor
    · constructor <;> intro ⟨h1, _⟩ <;> exact ⟨h1, by omega⟩
    · constructor <;> intro <;> omega

end Verif.Proofs.DataURI

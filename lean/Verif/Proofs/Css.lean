import Verif.Model.Css
/-!
# Helper lemmas for the C04 property theorems (`Verif.Props.C04`)
-/
set_option maxRecDepth 100000
namespace Verif.Proofs.Css
open Verif.Spec.CssValue Verif.Model.Css Verif.Gen.C04Tables Verif.Model.CssNum

/-! ## zero units -/

theorem unit_len : ∀ dim ∈ cssUnits, dim.length ≤ 5 := by decide

theorem unit_head : ∀ dim ∈ cssUnits, dim.head? ≠ some '0' := by decide
theorem lex_zero : numOfLexeme ['0'] = some (.number 0) := by decide +kernel
theorem lex_zero_unit : ∀ dim ∈ cssUnits, numOfLexeme ('0' :: dim) = some (.dimension 0 dim) := by
  decide +kernel

/-! ## colours -/

theorem hexDigit_lower (c : Char) : hexDigit? (lowerChar c) = hexDigit? c := by
  unfold lowerChar
  split <;> rfl

theorem lowerChar_idem (c : Char) : lowerChar (lowerChar c) = lowerChar c := by
  have h : ∀ d, lowerChar c = d → lowerChar d = d := by
    intro d hd
    unfold lowerChar at hd
    split at hd <;> (subst hd; try rfl)
    unfold lowerChar
    split <;> first | rfl | simp_all
  exact h _ rfl

theorem lower_idem (s : List Char) : lower (lower s) = lower s := by
  simp [lower, List.map_map, Function.comp_def, lowerChar_idem]

theorem isHex_lower (c : Char) : isHexDigit (lowerChar c) = isHexDigit c := by
  simp [isHexDigit, hexDigit_lower]
theorem hexVal_lower (c : Char) : hexDigitVal (lowerChar c) = hexDigitVal c := by
  simp [hexDigitVal, hexDigit_lower]

theorem hexColor_lower (ds : List Char) : hexColor (lower ds) = hexColor ds := by
  unfold hexColor
  have h1 : (lower ds).all isHexDigit = ds.all isHexDigit := by
    simp [lower, List.all_map, Function.comp_def, isHex_lower]
  have h2 : (lower ds).map hexDigitVal = ds.map hexDigitVal := by
    simp [lower, List.map_map, Function.comp_def, hexVal_lower]
  rw [h1, h2]

theorem name_table_ok : ∀ p ∈ shortenColorName, hexColor (p.2.drop 1) = namedColor p.1 ∧ p.1 ≠ [] := by
  decide +kernel
theorem hex_table_ok : ∀ p ∈ shortenColorHex, namedColor p.2 = hexColor (p.1.drop 1) := by
  decide +kernel

theorem lookup_mem {β : Type} (l : List (List Char × β)) (k : List Char) (v : β)
    (h : l.lookup k = some v) : (k, v) ∈ l := by
  induction l with
  | nil => simp [List.lookup] at h
  | cons p r ih =>
    obtain ⟨a, b⟩ := p
    simp only [List.lookup] at h
    split at h
    · rename_i heq
      have : k = a := by simpa using heq
      subst this
      have : b = v := by simpa using h
      subst this
      exact List.mem_cons_self
    · exact List.mem_cons_of_mem _ (ih h)

theorem alpha_ff : (((16 * 15 + 15 : Nat) : Rat) / 255) = 1 := by decide +kernel

theorem hexColor_trimAlpha (data : List Char) (hg : hexAlpha00 data = false) :
    hexColor ((trimAlpha data).drop 1) = hexColor (data.drop 1) := by
  unfold trimAlpha
  split
  · rename_i h a b c d e f x y
    split
    · rename_i hxy
      have hxy' : x = y := by simpa using hxy
      subst hxy'
      split
      · rename_i hf
        have : x = 'f' := by simpa using hf
        subst this
        simp only [List.drop, hexColor, List.all_cons, List.all_nil, List.map]
        have hfhex : isHexDigit 'f' = true := by decide
        have hfv : hexDigitVal 'f' = 15 := by decide
        simp only [hfhex, hfv, Bool.and_true, alpha_ff]
      · split
        · rename_i h0
          have : x = '0' := by simpa using h0
          subst this
          simp only [hexAlpha00, beq_self_eq_true, Bool.true_and, Bool.not_eq_false', List.all_cons, List.all_nil,
            Bool.and_true, Bool.and_eq_true, beq_iff_eq] at hg
          obtain ⟨ha, hb, hc, hd, he, hf⟩ := hg
          subst ha hb hc hd he hf
          show hexColor ['0','0','0','0'] = hexColor ['0','0','0','0','0','0','0','0']
          decide +kernel
        · rfl
    · rfl
  · rfl


theorem hexColor_shortHex (data : List Char) :
    hexColor ((shortHex data).drop 1) = hexColor (data.drop 1) := by
  unfold shortHex
  split
  · rename_i h a a' b b' c c'
    split
    · rename_i hp
      simp only [Bool.and_eq_true, beq_iff_eq] at hp
      obtain ⟨⟨h1, h2⟩, h3⟩ := hp
      subst h1 h2 h3
      simp only [List.drop, hexColor, List.all_cons, List.all_nil, List.map, Bool.and_true, Bool.and_self]
      have e : ∀ x : Nat, 16 * x + x = 17 * x := by intro x; omega
      simp only [e]
      cases isHexDigit a <;> cases isHexDigit b <;> cases isHexDigit c <;> rfl
    · rfl
  · rename_i h a a' b b' c c' d d'
    split
    · rename_i hp
      simp only [Bool.and_eq_true, beq_iff_eq] at hp
      obtain ⟨⟨⟨h1, h2⟩, h3⟩, h4⟩ := hp
      subst h1 h2 h3 h4
      simp only [List.drop, hexColor, List.all_cons, List.all_nil, List.map, Bool.and_true, Bool.and_self]
      have e : ∀ x : Nat, 16 * x + x = 17 * x := by intro x; omega
      simp only [e]
      cases isHexDigit a <;> cases isHexDigit b <;> cases isHexDigit c <;> cases isHexDigit d <;> rfl
    · rfl
  · rfl

theorem known_eq (s : List Char) : known s = s ∨ known s = [] := by
  unfold known; split <;> simp

theorem namedColor_lower (s : List Char) : namedColor (lower s) = namedColor s := by
  simp [namedColor, lower_idem]


/-! ## fonts -/

theorem identOf_eq (t : Tok) (k : List Char) (hk : k ≠ []) (h : identOf t = k) :
    t.tt = .ident ∧ lower t.data = k := by
  unfold identOf at h
  split at h
  · rename_i htt
    refine ⟨by simpa using htt, ?_⟩
    rcases known_eq (lower t.data) with e | e
    · rw [e] at h; exact h
    · rw [e] at h; exact absurd h.symm hk
  · exact absurd h.symm hk

theorem fw400 : fontWeightVal (tNum (S "400")) = some (.abs 400) := by decide +kernel
theorem fw700 : fontWeightVal (tNum (S "700")) = some (.abs 700) := by decide +kernel

theorem fw_kw (t : Tok) (k : List Char) (w : Rat) (h1 : t.tt = .ident) (h2 : lower t.data = k)
    (hk : (if k == "normal".toList then some (Weight.abs 400) else if k == "bold".toList then some (Weight.abs 700)
           else some (Weight.kw k)) = some (Weight.abs w)) : fontWeightVal t = some (.abs w) := by
  obtain ⟨tt, data, args⟩ := t
  simp only [Tok.tt, Tok.data] at h1 h2
  subst h1
  simp only [fontWeightVal, Tok.tt, Tok.data, h2]
  exact hk


theorem splitOn_ne_nil (c : Char) (s : List Char) : splitOn c s ≠ [] := by
  cases s with
  | nil => simp [splitOn]
  | cons x r =>
    simp only [splitOn]
    split
    · simp
    · split <;> simp

theorem splitOn_join (s : List Char) : joinSpace (splitOn ' ' s) = s := by
  induction s with
  | nil => rfl
  | cons x r ih =>
    simp only [splitOn]
    split
    · rename_i h; exact absurd h (splitOn_ne_nil _ _)
    · rename_i h t heq
      rw [heq] at ih
      split
      · rename_i hx
        have : x = ' ' := by simpa using hx
        subst this
        simp only [joinSpace]
        rw [← ih]
        cases t <;> simp [joinSpace]
      · cases t with
        | nil => simp [joinSpace] at ih ⊢; exact ih
        | cons t1 t2 => simp [joinSpace] at ih ⊢; exact ih

theorem lowerChar_space (c : Char) : (lowerChar c == ' ') = (c == ' ') := by
  unfold lowerChar
  split <;> first | rfl | decide

theorem splitOn_lower (s : List Char) : splitOn ' ' (lower s) = (splitOn ' ' s).map lower := by
  induction s with
  | nil => rfl
  | cons x r ih =>
    simp only [lower, List.map_cons, splitOn] at ih ⊢
    rw [ih]
    cases h : splitOn ' ' r with
    | nil => exact absurd h (splitOn_ne_nil _ _)
    | cons a t =>
      simp only [List.map_cons, lowerChar_space]
      split <;> simp [lower]

theorem lower_joinSpace (ws : List (List Char)) : lower (joinSpace ws) = joinSpace (ws.map lower) := by
  induction ws with
  | nil => rfl
  | cons a r ih =>
    cases r with
    | nil => simp [joinSpace]
    | cons b t =>
      simp only [joinSpace, List.map_cons] at ih ⊢
      simp only [lower, List.map_append, List.map_cons] at ih ⊢
      rw [ih]
      rfl

theorem dropEscNl_id (s : List Char) (h : s.contains '\\' = false) : dropEscNl s = s := by
  induction s with
  | nil => rfl
  | cons c r ih =>
    have hc : c ≠ '\\' := by
      intro e; subst e; simp at h
    have hr : r.contains '\\' = false := by
      simp only [List.contains_cons, Bool.or_eq_false_iff] at h
      exact h.2
    have := ih hr
    unfold dropEscNl
    split <;> simp_all

theorem lowerChar_eq_bs (c : Char) : lowerChar c = '\\' ↔ c = '\\' := by
  unfold lowerChar
  split <;> first | exact Iff.rfl | decide

theorem contains_bs_lower (s : List Char) : (lower s).contains '\\' = s.contains '\\' := by
  have : ('\\' ∈ lower s) ↔ ('\\' ∈ s) := by
    simp only [lower, List.mem_map]
    constructor
    · rintro ⟨c, hc, he⟩
      rw [(lowerChar_eq_bs c).mp he] at hc
      exact hc
    · intro h
      exact ⟨'\\', h, by decide⟩
  cases h1 : (lower s).contains '\\' <;> cases h2 : s.contains '\\' <;> simp_all

theorem ident_not_quote (w : List Char) (h : isIdentBytes w = true) :
    w.head? ≠ some '"' ∧ w.head? ≠ some '\'' := by
  cases w with
  | nil => simp
  | cons c r =>
    simp only [List.head?_cons, ne_eq, Option.some.injEq]
    constructor
    · intro e; subst e; simp [isIdentBytes, isLetter] at h
    · intro e; subst e; simp [isIdentBytes, isLetter] at h

theorem family_of_string (q : Char) (body : List Char) (args : List Tok) (hb : body.contains '\\' = false) :
    familyOf [strTok q body args] = some (.name (lower body)) := by
  have e := dropEscNl_id body hb
  have hm : ¬ '\\' ∈ body := by simpa using hb
  simp [familyOf, strTok, Tok.tt, Tok.data, e, hm]

theorem lower_quote (q : Char) (hq : q = '"' ∨ q = '\'') : lowerChar q = q := by
  rcases hq with h | h <;> subst h <;> rfl

theorem words_lower_fixed (lb : List Char) (hl : lower lb = lb) : (splitOn ' ' lb).map lower = splitOn ' ' lb := by
  rw [← splitOn_lower, hl]


/-! ## comma-separated layers -/


def NoComma (seg : List Tok) : Prop := ∀ t ∈ seg, isComma t = false

theorem isComma_iff (t : Tok) : isComma t = (t.tt == .comma) := rfl

theorem splitC_spec (vs : List Tok) :
    splitCommas vs = (splitC vs).1 :: (splitC vs).2.map (·.2) := by
  induction vs with
  | nil => rfl
  | cons t r ih =>
    simp only [splitCommas, splitC]
    rw [ih]
    simp only [isComma_iff]
    by_cases h : (t.tt == TT.comma) = true
    · simp [h]
    · simp [h]

theorem splitC_noComma (vs : List Tok) :
    NoComma (splitC vs).1 ∧ ∀ p ∈ (splitC vs).2, isComma p.1 = true ∧ NoComma p.2 := by
  induction vs with
  | nil => simp [splitC, NoComma]
  | cons t r ih =>
    simp only [splitC]
    by_cases hc : isComma t = true
    · simp only [hc, if_true]
      refine ⟨by simp [NoComma], ?_⟩
      intro p hp
      rcases List.mem_cons.mp hp with e | e
      · subst e; exact ⟨hc, ih.1⟩
      · exact ih.2 p e
    · have hc' : isComma t = false := by simpa using hc
      simp only [hc', Bool.false_eq_true, if_false]
      refine ⟨?_, ih.2⟩
      intro x hx
      rcases List.mem_cons.mp hx with e | e
      · subst e; exact hc'
      · exact ih.1 x e

theorem splitC_append_noComma (s : List Tok) (hs : NoComma s) (r : List Tok) :
    splitC (s ++ r) = (s ++ (splitC r).1, (splitC r).2) := by
  induction s with
  | nil => simp
  | cons t s ih =>
    have ht : isComma t = false := hs t List.mem_cons_self
    have hs' : NoComma s := fun x hx => hs x (List.mem_cons_of_mem _ hx)
    simp only [List.cons_append, splitC, ih hs', ht, Bool.false_eq_true, if_false]

theorem splitC_joinC (s : List Tok) (rest : List (Tok × List Tok)) (hs : NoComma s)
    (hr : ∀ p ∈ rest, isComma p.1 = true ∧ NoComma p.2) : splitC (joinC (s, rest)) = (s, rest) := by
  induction rest generalizing s with
  | nil =>
    have := splitC_append_noComma s hs []
    simpa [joinC, splitC] using this
  | cons p rest ih =>
    obtain ⟨c, seg⟩ := p
    have hp := hr (c, seg) List.mem_cons_self
    have hrest : ∀ p ∈ rest, isComma p.1 = true ∧ NoComma p.2 := fun p hp => hr p (List.mem_cons_of_mem _ hp)
    have := ih seg hp.2 hrest
    simp only [joinC, List.flatMap_cons] at this ⊢
    rw [splitC_append_noComma s hs]
    simp only [List.cons_append, splitC, this, hp.1, if_true, List.append_nil]

/-- layers of `mapSeg f vs` = `f` applied to the non-empty layers of `vs`, provided `f` creates no comma -/
theorem mapSeg_layers (f : List Tok → List Tok) (hf : ∀ seg, NoComma seg → NoComma (f seg)) (vs : List Tok) :
    splitCommas (mapSeg f vs) = (splitCommas vs).map (onLayer f) := by
  have h := splitC_noComma vs
  have hon : ∀ seg, NoComma seg → NoComma (onLayer f seg) := by
    intro seg hs
    unfold onLayer
    split
    · simp [NoComma]
    · exact hf seg hs
  rw [splitC_spec, splitC_spec vs]
  unfold mapSeg
  rw [splitC_joinC]
  · simp [List.map_map, Function.comp_def]
  · exact hon _ h.1
  · intro p hp
    obtain ⟨q, hq, rfl⟩ := List.mem_map.mp hp
    exact ⟨(h.2 q hq).1, hon _ (h.2 q hq).2⟩

theorem layers_congr {α : Type} (d : List Tok → α) (f : List Tok → List Tok)
    (hf : ∀ seg, NoComma seg → NoComma (f seg)) (vs : List Tok)
    (h : ∀ seg ∈ splitCommas vs, d (onLayer f seg) = d seg) :
    (splitCommas (mapSeg f vs)).map d = (splitCommas vs).map d := by
  rw [mapSeg_layers f hf, List.map_map]
  exact List.map_congr_left h

theorem noComma_sub (a b : List Tok) (h : ∀ t ∈ a, t ∈ b) (hb : NoComma b) : NoComma a :=
  fun t ht => hb t (h t ht)

theorem bgSizeSeg_noComma (seg : List Tok) (h : NoComma seg) : NoComma (bgSizeSeg seg) := by
  unfold bgSizeSeg
  split
  · split
    · exact noComma_sub _ _ (by intro t ht; simp at ht; subst ht; simp) h
    · exact h
  · exact h

theorem bgSize_layer (seg : List Tok) : bgSize (onLayer bgSizeSeg seg) = bgSize seg := by
  unfold onLayer
  split
  · rename_i h; simp at h; subst h; rfl
  · unfold bgSizeSeg
    split
    · rename_i x0 a b hne0
      split
      · rename_i hb
        have hb' : identOf b = S "auto" := by simpa using hb
        obtain ⟨h1, h2⟩ := identOf_eq b _ (by decide) hb'
        have hbt : (b.tt == TT.ident) = true := by simp [h1]
        simp only [bgSize, List.map_cons, List.map_nil, hbt, if_true, h2]
        rfl
      · rfl
    · rfl

theorem bgRepeatSeg_noComma (seg : List Tok) (h : NoComma seg) : NoComma (bgRepeatSeg seg) := by
  unfold bgRepeatSeg
  split
  · rename_i a b
    have ha : isComma a = false := h a (by simp)
    split
    · split
      · exact noComma_sub _ _ (by intro t ht; simp at ht; subst ht; simp) h
      · split
        · intro t ht; simp at ht; subst ht; rfl
        · split
          · intro t ht; simp at ht; subst ht; rfl
          · exact h
    · exact h
  · exact h

theorem kwOf_of_ident (t : Tok) (k : List Char) (h1 : t.tt = .ident) (h2 : lower t.data = k) : kwOf t = some k := by
  simp [kwOf, h1, h2]

theorem repeat_not_xy : ∀ k ∈ repeatKeywords, (k == "repeat-x".toList) = false ∧ (k == "repeat-y".toList) = false ∧ known k = k := by
  decide

theorem bgRepeat_single (a : Tok) (k : List Char) (hk : kwOf a = some k) (hin : repeatKeywords.contains k = true) :
    bgRepeat [a] = some (k, k) := by
  obtain ⟨hx, hy, _⟩ := repeat_not_xy k (by simpa using hin)
  simp only [bgRepeat, hk, hx, hy, hin, Bool.false_eq_true, if_false, if_true]

theorem bgRepeat_pair (a b : Tok) (x y : List Char) (hx : kwOf a = some x) (hy : kwOf b = some y) :
    bgRepeat [a, b] = if repeatKeywords.contains x && repeatKeywords.contains y then some (x, y) else none := by
  simp only [bgRepeat, hx, hy]

theorem bgRepeat_x (args : List Tok) : bgRepeat [Tok.mk .ident (S "repeat-x") args] = some (S "repeat", S "no-repeat") := by
  simp only [bgRepeat, kwOf, Tok.tt, Tok.data]; rfl
theorem bgRepeat_y (args : List Tok) : bgRepeat [Tok.mk .ident (S "repeat-y") args] = some (S "no-repeat", S "repeat") := by
  simp only [bgRepeat, kwOf, Tok.tt, Tok.data]; rfl

theorem bgRepeat_layer (seg : List Tok) (d : List Char × List Char) (hv : bgRepeat seg = some d) :
    bgRepeat (onLayer bgRepeatSeg seg) = some d := by
  unfold onLayer
  split
  · rename_i h; simp at h; subst h; exact hv
  · unfold bgRepeatSeg
    split
    · rename_i x0 a b hne0
      split
      · rename_i hid
        simp only [Bool.and_eq_true, beq_iff_eq] at hid
        have ka := kwOf_of_ident a _ hid.1 rfl
        have kb := kwOf_of_ident b _ hid.2 rfl
        rw [bgRepeat_pair a b _ _ ka kb] at hv
        split at hv
        · rename_i hin
          simp only [Bool.and_eq_true] at hin
          have hd := (Option.some.inj hv).symm
          subst hd
          have ia : identOf a = known (lower a.data) := by simp [identOf, hid.1]
          have ib : identOf b = known (lower b.data) := by simp [identOf, hid.2]
          have e1 := (repeat_not_xy _ (by simpa using hin.1)).2.2
          have e2 := (repeat_not_xy _ (by simpa using hin.2)).2.2
          split
          · -- equal hashes: both are repeat keywords the hash table knows, so the lexemes agree
            rename_i he
            have he' : identOf a = identOf b := by simpa using he
            rw [ia, ib, e1, e2] at he'
            rw [bgRepeat_single a _ ka hin.1, he']
          · split
            · rename_i hrn
              simp only [Bool.and_eq_true, beq_iff_eq] at hrn
              obtain ⟨_, ea⟩ := identOf_eq a _ (by decide) hrn.1
              obtain ⟨_, eb⟩ := identOf_eq b _ (by decide) hrn.2
              rw [ea, eb, bgRepeat_x]
            · split
              · rename_i hnr
                simp only [Bool.and_eq_true, beq_iff_eq] at hnr
                obtain ⟨_, ea⟩ := identOf_eq a _ (by decide) hnr.1
                obtain ⟨_, eb⟩ := identOf_eq b _ (by decide) hnr.2
                rw [ea, eb, bgRepeat_y]
              · rw [bgRepeat_pair a b _ _ ka kb, hin.1, hin.2]; rfl
        · exact absurd hv (by simp)
      · exact hv
    · exact hv


/-! ## flex -/


/-- `Token.IsZero` is sound on a token: a numeric lexeme that starts with `0` denotes zero (output shape of the
    number minifier, C08.5, plus the lexer's number/unit split — a contract) -/
def ZeroSound (t : Tok) : Prop := isZero t = true → ∃ n, numOf t = some n ∧ n.isZero = true

theorem isZero_tt (t : Tok) (h : isZero t = true) : t.tt = .dimension ∨ t.tt = .percentage ∨ t.tt = .number := by
  simp only [isZero, Bool.and_eq_true, Bool.or_eq_true, beq_iff_eq] at h
  rcases h.1 with (h1 | h1) | h1
  · exact Or.inl h1
  · exact Or.inr (Or.inl h1)
  · exact Or.inr (Or.inr h1)

theorem isKw_false (t : Tok) (s : String) (h : t.tt ≠ .ident) : isKw t s = false := by
  simp [isKw, kwOf, h]

theorem basisOf_zero (b : Tok) (hz : ZeroSound b) (h : isZero b = true) : basisOf b = some .zero := by
  obtain ⟨n, hn, hn0⟩ := hz h
  have htt := isZero_tt b h
  have hni : b.tt ≠ .ident := by rcases htt with e | e | e <;> simp [e]
  have hnf : (b.tt == TT.function) = false := by rcases htt with e | e | e <;> simp [e]
  simp only [basisOf, isKw_false b _ hni, Bool.false_eq_true, if_false, hnf, hn]
  cases n with
  | number q => simp only [Num.isZero] at hn0; simp [hn0]
  | percentage q => simp only [Num.isZero] at hn0; simp [hn0]
  | dimension q u => simp only [Num.isZero] at hn0; simp [hn0]

theorem numVal0 : numVal ['0'] = some 0 := by decide +kernel
theorem numVal1 : numVal ['1'] = some 1 := by decide +kernel

theorem flexNum_number (a : Tok) (h : a.tt = .number) : flexNum a = numVal a.data := by
  simp [flexNum, h]
theorem flexNum_other (a : Tok) (h : a.tt ≠ .number) : flexNum a = none := by
  simp [flexNum, h]

theorem flexTriple_single (a : Tok) (g : Rat) (h : a.tt = .number) (hg : numVal a.data = some g) :
    flexTriple [a] = some (g, 1, Basis.zero) := by
  have hni : a.tt ≠ .ident := by simp [h]
  simp only [flexTriple, isKw_false a _ hni, Bool.false_eq_true, if_false, flexNum_number a h, hg]

theorem flexTriple_kw (s : String) (args : List Tok) :
    flexTriple [Tok.mk .ident s.toList args] =
      (if lower s.toList == "none".toList then some (0, 0, Basis.auto)
       else if lower s.toList == "auto".toList then some (1, 1, Basis.auto)
       else if lower s.toList == "initial".toList then some (0, 1, Basis.auto)
       else flexTriple [Tok.mk .ident s.toList args]) := by
  simp only [flexTriple, isKw, kwOf, Tok.tt, Tok.data, beq_self_eq_true, if_true]
  split
  · rename_i h; simp at h; simp [h]
  · rename_i h1
    split
    · rename_i h; simp at h; simp [h]
    · rename_i h2
      split
      · rename_i h; simp at h; simp [h]
      · rename_i h3
        simp at h1 h2 h3
        simp [h1, h2, h3]


/-! ## line shorthands -/


theorem filter_map_filter {α β : Type} (f : α → β) (keep : α → Bool) (P : β → Bool) (l : List α)
    (h : ∀ x ∈ l, keep x = false → P (f x) = false) :
    ((l.filter keep).map f).filter P = (l.map f).filter P := by
  induction l with
  | nil => rfl
  | cons a r ih =>
    have ih' := ih (fun x hx => h x (List.mem_cons_of_mem _ hx))
    by_cases hk : keep a = true
    · simp only [List.filter_cons, hk, if_true, List.map_cons]
      split <;> simp [ih']
    · have hk' : keep a = false := by simpa using hk
      have := h a List.mem_cons_self hk'
      simp only [List.filter_cons, hk', Bool.false_eq_true, if_false, List.map_cons, this, ih']

/-- whole-table check: in each shorthand every dropped keyword is the initial value of the component it sets,
    and a lone `none` sets every component to its initial value -/
theorem drop_table_ok : ∀ p ∈ lineDropTable,
    (∀ k ∈ p.2, k ≠ [] ∧ slotInitial p.1 (slotOf p.1 (Tok.mk .ident k [])) = Tok.mk .ident k []) ∧
    (∀ s ∈ [Slot.width, .style, .color, .line], slotVal p.1 [tIdent (S "none")] s = [slotInitial p.1 s]) := by
  decide +kernel

theorem lowerIdent_of_ident (t : Tok) (k : List Char) (h1 : t.tt = .ident) (h2 : lower t.data = k) :
    lowerIdent t = Tok.mk .ident k [] := by
  simp [lowerIdent, h1, h2]

theorem slotVal_drop (prop : List Char) (kws : List (List Char)) (hp : (prop, kws) ∈ lineDropTable)
    (vs : List Tok) (s : Slot) (hs : s ∈ [Slot.width, .style, .color, .line]) :
    slotVal prop (dropOnly kws vs) s = slotVal prop vs s := by
  obtain ⟨hk, hnone⟩ := drop_table_ok _ hp
  simp only at hk hnone
  -- the tokens that are dropped do not contribute to any component
  have hdrop : ∀ x ∈ vs, (!kws.contains (identOf x)) = false →
      (slotOf prop (lowerIdent x) == s && lowerIdent x != slotInitial prop s) = false := by
    intro x _ hx
    have hx' : identOf x ∈ kws := by simpa using hx
    obtain ⟨hne, hinit⟩ := hk _ hx'
    obtain ⟨h1, h2⟩ := identOf_eq x _ hne rfl
    rw [lowerIdent_of_ident x _ h1 h2]
    by_cases hsl : slotOf prop (Tok.mk .ident (identOf x) []) = s
    · subst hsl
      rw [hinit]
      simp
    · have : (slotOf prop (Tok.mk .ident (identOf x) []) == s) = false := by simpa using hsl
      simp [this]
  have hfil := filter_map_filter lowerIdent (fun t => !kws.contains (identOf t))
    (fun t => slotOf prop t == s && t != slotInitial prop s) vs hdrop
  unfold dropOnly
  simp only
  split
  · -- everything was dropped
    rename_i hemp
    have hemp' : vs.filter (fun t => !kws.contains (identOf t)) = [] := by simpa using hemp
    rw [hnone s hs]
    simp only [slotVal]
    rw [← hfil, hemp']
    rfl
  · simp only [slotVal]
    rw [hfil]

theorem minifyColor_none : minifyColor (tIdent (S "none")) = tIdent (S "none") := by decide

/-! ## unicode-range -/

def inR (c : Nat) (r : Nat × Nat) : Bool := r.1 ≤ c && c ≤ r.2

theorem cpm_cons (c : Nat) (r : Nat × Nat) (l : List (Nat × Nat)) :
    codePointMem c (r :: l) = (inR c r || codePointMem c l) := by
  simp [codePointMem, inR]

theorem cpm_nil (c : Nat) : codePointMem c [] = false := rfl

theorem cpm_insert (c : Nat) (x : Nat × Nat) (l : List (Nat × Nat)) :
    codePointMem c (insertRange x l) = (inR c x || codePointMem c l) := by
  induction l with
  | nil => simp [insertRange, cpm_cons]
  | cons y r ih =>
    simp only [insertRange]
    split
    · simp [cpm_cons]
    · simp only [cpm_cons, ih]
      cases inR c x <;> cases inR c y <;> simp

theorem cpm_foldl_insert (c : Nat) (l acc : List (Nat × Nat)) :
    codePointMem c (l.foldl (fun acc x => insertRange x acc) acc) = (codePointMem c l || codePointMem c acc) := by
  induction l generalizing acc with
  | nil => simp [cpm_nil]
  | cons x r ih =>
    simp only [List.foldl_cons, ih, cpm_insert, cpm_cons]
    cases inR c x <;> cases codePointMem c r <;> simp

theorem cpm_sort (c : Nat) (l : List (Nat × Nat)) : codePointMem c (sortRanges l) = codePointMem c l := by
  simp [sortRanges, cpm_foldl_insert, cpm_nil]

/-- starts are non-decreasing -/
def SortedR : List (Nat × Nat) → Prop
  | [] => True
  | a :: r => (∀ b ∈ r, a.1 ≤ b.1) ∧ SortedR r

theorem sorted_insert (x : Nat × Nat) (l : List (Nat × Nat)) (h : SortedR l) : SortedR (insertRange x l) := by
  induction l with
  | nil => simp [insertRange, SortedR]
  | cons y r ih =>
    simp only [insertRange]
    split
    · rename_i hlt
      refine ⟨?_, h⟩
      intro b hb
      rcases List.mem_cons.mp hb with e | e
      · subst e; omega
      · have := h.1 b e; omega
    · rename_i hge
      refine ⟨?_, ih h.2⟩
      intro b hb
      -- members of insertRange x r are x or members of r
      have hmem : ∀ (l : List (Nat × Nat)) b, b ∈ insertRange x l → b = x ∨ b ∈ l := by
        intro l
        induction l with
        | nil => intro b hb; simp [insertRange] at hb; exact Or.inl hb
        | cons z t iht =>
          intro b hb
          simp only [insertRange] at hb
          split at hb
          · rcases List.mem_cons.mp hb with e | e
            · exact Or.inl e
            · exact Or.inr e
          · rcases List.mem_cons.mp hb with e | e
            · exact Or.inr (by rw [e]; exact List.mem_cons_self)
            · rcases iht b e with e' | e'
              · exact Or.inl e'
              · exact Or.inr (List.mem_cons_of_mem _ e')
      rcases hmem r b hb with e | e
      · subst e; omega
      · exact h.1 b e

theorem sorted_foldl (l acc : List (Nat × Nat)) (h : SortedR acc) :
    SortedR (l.foldl (fun acc x => insertRange x acc) acc) := by
  induction l generalizing acc with
  | nil => exact h
  | cons x r ih => exact ih _ (sorted_insert x acc h)

theorem sorted_sort (l : List (Nat × Nat)) : SortedR (sortRanges l) := sorted_foldl l [] trivial

theorem cpm_mergeInto (c : Nat) (a : Nat × Nat) (r : List (Nat × Nat))
    (ha : ∀ b ∈ r, a.1 ≤ b.1) (hs : SortedR r) :
    codePointMem c (mergeInto a r) = (inR c a || codePointMem c r) := by
  induction r generalizing a with
  | nil => simp [mergeInto, cpm_cons, cpm_nil]
  | cons b r ih =>
    have hab := ha b List.mem_cons_self
    simp only [mergeInto]
    split
    · -- b inside a
      rename_i hin
      rw [ih a (fun x hx => ha x (List.mem_cons_of_mem _ hx)) hs.2, cpm_cons]
      have : inR c b = true → inR c a = true := by
        simp only [inR, Bool.and_eq_true, decide_eq_true_eq]; omega
      cases h1 : inR c a <;> cases h2 : inR c b <;> simp_all
    · split
      · -- overlap or adjacency
        rename_i hnin hov
        rw [ih (a.1, b.2) (fun x hx => by have := hs.1 x hx; simp; omega) hs.2, cpm_cons]
        have : inR c (a.1, b.2) = (inR c a || inR c b) := by
          simp only [inR]
          by_cases h1 : a.1 ≤ c <;> by_cases h2 : c ≤ a.2 <;> by_cases h3 : b.1 ≤ c <;> by_cases h4 : c ≤ b.2 <;>
            simp [h1, h2, h3, h4] <;> omega
        rw [this]
        cases inR c a <;> cases inR c b <;> simp
      · rw [cpm_cons, ih b hs.1 hs.2, cpm_cons]


/-! ## writer -/

theorem writeArg_fn_last (t : Tok) (h : t.tt = .function) : (writeArg t).getLast? = some ')' := by
  obtain ⟨tt, data, args⟩ := t
  simp only [Tok.tt] at h
  subst h
  simp [writeArg]

theorem writeArg_data (t : Tok) (h : t.tt ≠ .function) : writeArg t = t.data := by
  obtain ⟨tt, data, args⟩ := t
  simp only [Tok.tt, ne_eq] at h
  simp [writeArg, Tok.data, h]

theorem writeArg_head (t : Tok) (hs : t.data ≠ []) : (writeArg t).head? = t.data.head? := by
  obtain ⟨tt, data, args⟩ := t
  simp only [Tok.data] at hs
  cases data with
  | nil => exact absurd rfl hs
  | cons c r => simp [writeArg, Tok.data]

theorem slash_data (p : Tok) (hp : TokShape p) (h : Verif.Model.Css.isSlash p = true) : p.data = ['/'] := by
  simp only [Verif.Model.Css.isSlash, Bool.and_eq_true, beq_iff_eq] at h
  have hl := hp.2.1 h.1
  cases hd : p.data with
  | nil => rw [hd] at hl; simp at hl
  | cons c r =>
    rw [hd] at hl h
    cases r with
    | nil => simp at h; rw [h.2]
    | cons _ _ => simp at hl

theorem safe_of_sepAfter (p t : Tok) (hp : TokShape p) (ht : TokShape t) (hs : sepAfter p = true)
    (hc : (p.tt == .delim && opensComment p.data t.data) = false) : safeBoundary (writeArg p) (writeArg t) = true := by
  have hth := writeArg_head t ht.2.2.2
  simp only [sepAfter, Bool.or_eq_true, beq_iff_eq] at hs
  rcases hs with ((h | h) | h) | h
  · -- comma
    have hne : p.tt ≠ .function := by simp [h]
    rw [writeArg_data p hne, hp.1 h]
    simp [safeBoundary]
  · -- slash
    have hd := slash_data p hp h
    have htt : p.tt = .delim := by
      simp only [Verif.Model.Css.isSlash, Bool.and_eq_true, beq_iff_eq] at h; exact h.1
    have hne : p.tt ≠ .function := by simp [htt]
    rw [writeArg_data p hne, hd]
    simp only [htt, beq_self_eq_true, Bool.true_and, opensComment, hd] at hc
    simp only [safeBoundary, hth]
    simp at hc ⊢
    exact hc
  · -- function
    simp [safeBoundary, writeArg_fn_last p h]
  · -- url
    have hne : p.tt ≠ .function := by simp [h]
    rw [writeArg_data p hne]
    simp [safeBoundary, hp.2.2.1 h]

theorem safe_of_sep_token (p t : Tok) (ht : TokShape t)
    (h : t.tt = .comma ∨ Verif.Model.Css.isSlash t = true) : safeBoundary (writeArg p) (writeArg t) = true := by
  rcases h with h | h
  · have hne : t.tt ≠ .function := by simp [h]
    rw [writeArg_data t hne, ht.1 h]
    simp [safeBoundary]
  · have hd := slash_data t ht h
    have htt : t.tt = .delim := by
      simp only [Verif.Model.Css.isSlash, Bool.and_eq_true, beq_iff_eq] at h; exact h.1
    have hne : t.tt ≠ .function := by simp [htt]
    rw [writeArg_data t hne, hd]
    simp [safeBoundary]

theorem endsInHexEscape_eq (b : List Char) : endsInHexEscape b = endsHexEsc b := rfl

theorem endsHexEsc_last (l : List Char) (c : Char) (hc : isHexRange c = false) : endsHexEsc (l ++ [c]) = false := by
  simp [endsHexEsc, List.reverse_append, List.takeWhile, hc]

theorem endsHexEsc_of_getLast (l : List Char) (c : Char) (h : l.getLast? = some c) (hc : isHexRange c = false) :
    endsHexEsc l = false := by
  have hne : l ≠ [] := by intro e; subst e; simp at h
  have h1 := List.dropLast_concat_getLast hne
  have h2 : l.getLast hne = c := by
    have := List.getLast?_eq_some_getLast hne
    rw [this] at h; exact Option.some.inj h
  rw [← h1, h2]
  exact endsHexEsc_last _ c hc

/-- the lexeme written for a token ends in a hexadecimal escape exactly when the writer's test says so -/
theorem writeArg_esc (p : Tok) (he : EscShape p) :
    endsHexEsc (writeArg p) = (escTT p.tt && endsInHexEscape p.data) := by
  by_cases hf : p.tt = .function
  · have h1 : endsHexEsc (writeArg p) = false :=
      endsHexEsc_of_getLast _ ')' (writeArg_fn_last p hf) (by decide)
    simp [h1, escTT, hf]
  · rw [writeArg_data p hf, endsInHexEscape_eq]
    cases hx : endsHexEsc p.data with
    | false => simp
    | true =>
      have := he hx
      simp only [escTT, Bool.and_true, Bool.or_eq_true, beq_iff_eq]
      rcases this with h | h | h
      · simp [h]
      · simp [h]
      · simp [h]

theorem writer_joined (p : Tok) (r : List Tok) (hp : TokShape p ∧ EscShape p) (hr : ∀ t ∈ r, TokShape t ∧ EscShape t) :
    Joined (writeArg p :: r.map writeArg) (writeArg p ++ writeVals (some p) (sepAfter p) r) := by
  induction r generalizing p with
  | nil => simpa [writeVals] using Joined.single (writeArg p)
  | cons t r ih =>
    have ht := hr t List.mem_cons_self
    have ih' := ih t ht (fun x hx => hr x (List.mem_cons_of_mem _ hx))
    have hesc := writeArg_esc p hp.2
    simp only [List.map_cons, writeVals]
    split
    · -- a space is written: two behind a hexadecimal escape
      cases hc : (escTT p.tt && endsInHexEscape p.data) with
      | true =>
        simp only [hc, if_true]
        simpa using Joined.space2 (writeArg p) (writeArg t) (r.map writeArg) _ (by rw [hesc, hc]) ih'
      | false =>
        simp only [hc, Bool.false_eq_true, if_false]
        simpa using Joined.space (writeArg p) (writeArg t) (r.map writeArg) _ (by rw [hesc, hc]) ih'
    · rename_i hns
      split
      · -- `/` in front of `*`: kept apart
        rename_i hoc
        have hne : endsHexEsc (writeArg p) = false := by
          simp only [Bool.and_eq_true, beq_iff_eq] at hoc
          have hnf : p.tt ≠ .function := by rw [hoc.1]; decide
          rw [writeArg_data p hnf]
          have : p.data.getLast? = some '/' := by
            have := hoc.2
            simp only [opensComment, Bool.and_eq_true, beq_iff_eq] at this
            exact this.1
          exact endsHexEsc_of_getLast _ '/' this (by decide)
        simpa using Joined.space (writeArg p) (writeArg t) (r.map writeArg) _ hne ih'
      · rename_i hnc
        have hnc' : (p.tt == .delim && opensComment p.data t.data) = false := by simpa using hnc
        have hsafe : safeBoundary (writeArg p) (writeArg t) = true := by
          by_cases hsa : sepAfter p = true
          · exact safe_of_sepAfter p t hp.1 ht.1 hsa hnc'
          · apply safe_of_sep_token p t ht.1
            simp only [Bool.and_eq_true, Bool.not_eq_true', bne_iff_ne, ne_eq, not_and, Bool.not_eq_false] at hns
            have hsa' : sepAfter p = false := by simpa using hsa
            by_cases hcm : t.tt = .comma
            · exact Or.inl hcm
            · right
              exact hns ⟨hsa', hcm⟩
        simpa using Joined.tight (writeArg p) (writeArg t) (r.map writeArg) _ hsafe ih'


/-! ## digits, integer percentages, background-position -/

theorem digitsVal_append (l : List Char) (c : Char) : digitsVal (l ++ [c]) = digitsVal l * 10 + (c.toNat - 48) := by
  simp [digitsVal, List.foldl_append]

theorem digitChar_props : ∀ d, d < 10 → isDigit (Nat.digitChar d) = true ∧ (Nat.digitChar d).toNat - 48 = d ∧
    (Nat.digitChar d = '0' → d = 0) := by
  decide

theorem toDigits_val (n : Nat) : digitsVal (Nat.toDigits 10 n) = n := by
  induction n using Nat.strongRecOn with
  | _ n ih =>
    rw [Nat.toDigits_eq_if (by decide)]
    split
    · rename_i h
      simp [digitsVal, (digitChar_props n h).2.1]
    · rename_i h
      rw [digitsVal_append, ih (n / 10) (by omega), (digitChar_props (n % 10) (by omega)).2.1]
      omega

theorem toDigits_allDigit (n : Nat) : (Nat.toDigits 10 n).all isDigit = true := by
  induction n using Nat.strongRecOn with
  | _ n ih =>
    rw [Nat.toDigits_eq_if (by decide)]
    split
    · rename_i h
      simp [(digitChar_props n h).1]
    · rename_i h
      simp only [List.all_append, ih (n / 10) (by omega), List.all_cons, List.all_nil, Bool.and_true, Bool.true_and]
      exact (digitChar_props (n % 10) (by omega)).1

theorem toDigits_head_zero (n : Nat) (h : (Nat.toDigits 10 n).head? = some '0') : n = 0 := by
  induction n using Nat.strongRecOn with
  | _ n ih =>
    rw [Nat.toDigits_eq_if (by decide)] at h
    split at h
    · rename_i hl
      have h' : Nat.digitChar n = '0' := by simpa using h
      exact (digitChar_props n hl).2.2 h'
    · rename_i hl
      have hne : Nat.toDigits 10 (n / 10) ≠ [] := Nat.toDigits_ne_nil
      have hh : (Nat.toDigits 10 (n / 10) ++ [Nat.digitChar (n % 10)]).head? = (Nat.toDigits 10 (n / 10)).head? := by
        cases hd : Nat.toDigits 10 (n / 10) with
        | nil => exact absurd hd hne
        | cons c r => rfl
      rw [hh] at h
      have := ih (n / 10) (by omega) h
      omega

theorem spanD_digits (ds rest : List Char) (h : ds.all isDigit = true) (hr : rest.head?.all (fun c => !isDigit c) = true) :
    spanD (ds ++ rest) = (ds, rest) := by
  have h1 : ∀ c ∈ ds, isDigit c = true := by simpa using h
  have hrest : rest.takeWhile isDigit = [] ∧ rest.dropWhile isDigit = rest := by
    cases rest with
    | nil => simp
    | cons c r =>
      simp only [List.head?_cons, Option.all_some, Bool.not_eq_true'] at hr
      simp [List.takeWhile, List.dropWhile, hr]
  simp only [spanD]
  rw [List.takeWhile_append_of_pos h1, List.dropWhile_append_of_pos h1, hrest.1, hrest.2, List.append_nil]

theorem pow10_zero : pow10 0 = 1 := by decide +kernel

theorem stripSign_digit (c : Char) (r : List Char) (hc : isDigit c = true) : stripSign (c :: r) = (false, [], c :: r) := by
  have hc1 : c ≠ '-' := by intro e; subst e; simp [isDigit] at hc
  have hc2 : c ≠ '+' := by intro e; subst e; simp [isDigit] at hc
  unfold stripSign
  split
  · rename_i heq; simp at heq; exact absurd heq.1 hc1
  · rename_i heq; simp at heq; exact absurd heq.1 hc2
  · rfl

theorem numVal_digits (neg : Bool) (ds : List Char) (h : ds.all isDigit = true) (hne : ds ≠ []) :
    numVal ((if neg then ['-'] else []) ++ ds) =
      some ((if neg then -1 else 1) * (digitsVal ds : Rat)) := by
  have hsp : spanD ds = (ds, []) := by
    have := spanD_digits ds [] h (by simp)
    simpa using this
  have hemp : ds.isEmpty = false := by simpa using hne
  have hss : stripSign ((if neg then ['-'] else []) ++ ds) = (neg, (if neg then ['-'] else []), ds) := by
    cases neg
    · cases ds with
      | nil => exact absurd rfl hne
      | cons c r =>
        have hc : isDigit c = true := by simp at h; exact h.1
        simpa using stripSign_digit c r hc
    · rfl
  simp only [numVal, splitNumber, hss, hsp, fracPart, expPart, hemp, Bool.false_and, Bool.false_eq_true, if_false,
    List.isEmpty_nil, Bool.not_true, Option.bind_some]
  cases neg <;> simp [NumParts.val, pow10_zero]

theorem spanNumber_digits_pct (neg : Bool) (ds : List Char) (h : ds.all isDigit = true) (hne : ds ≠ []) :
    spanNumber ((if neg then ['-'] else []) ++ ds ++ ['%']) = ((if neg then ['-'] else []) ++ ds, ['%']) := by
  have hsp : spanD (ds ++ ['%']) = (ds, ['%']) := spanD_digits ds ['%'] h (by decide)
  have hss : stripSign ((if neg then ['-'] else []) ++ ds ++ ['%']) = (neg, (if neg then ['-'] else []), ds ++ ['%']) := by
    cases neg
    · cases ds with
      | nil => exact absurd rfl hne
      | cons c r =>
        have hc : isDigit c = true := by simp at h; exact h.1
        simpa using stripSign_digit c (r ++ ['%']) hc
    · rfl
  simp only [spanNumber, hss, hsp, fracPart, expPart]
  simp

theorem intDigits_eq (m : Int) : intDigits m = (if decide (m < 0) then ['-'] else []) ++ Nat.toDigits 10 m.natAbs := by
  unfold intDigits natDigits
  by_cases h : m < 0 <;> simp [h]

theorem lex_int_pct (m : Int) : numOfLexeme (intDigits m ++ ['%']) = some (.percentage (m : Rat)) := by
  have hall := toDigits_allDigit m.natAbs
  have hne : Nat.toDigits 10 m.natAbs ≠ [] := Nat.toDigits_ne_nil
  rw [intDigits_eq]
  simp only [numOfLexeme, spanNumber_digits_pct _ _ hall hne]
  have hv := numVal_digits (decide (m < 0)) _ hall hne
  rw [toDigits_val] at hv
  simp only [List.isEmpty_cons, Bool.false_eq_true, if_false, beq_self_eq_true, if_true, hv, Option.map_some]
  congr 2
  by_cases h : m < 0
  · simp only [h, decide_true, if_true]
    have hm : m = -(m.natAbs : Int) := by omega
    have : (m : Rat) = -((m.natAbs : Nat) : Rat) := by
      conv => lhs; rw [hm]
      push_cast; rfl
    rw [this]; grind
  · simp only [h, decide_false, Bool.false_eq_true, if_false]
    have hm : m = (m.natAbs : Int) := by omega
    have : (m : Rat) = ((m.natAbs : Nat) : Rat) := by
      conv => lhs; rw [hm]
      push_cast; rfl
    rw [this]; grind

/-! ### background-position -/

/-- contracts on an offset token (lexer + number minifier + `ParseInt`): a lexeme that starts with `0` denotes
    zero; a percentage `ParseInt` reads completely has that integer value -/
structure OffSound (o : Tok) : Prop where
  zero : isZero o = true → offOf o = some ⟨0, .zero⟩
  flip : ∀ n, flippable o = some n → offOf o = some ⟨(n : Rat), .zero⟩

theorem flippable_tt (o : Tok) (n : Int) (h : flippable o = some n) : o.tt = .percentage := by
  unfold flippable at h
  split at h
  · rename_i hc; simp only [Bool.and_eq_true, beq_iff_eq] at hc; exact hc.1
  · exact absurd h (by simp)

theorem offOf_pct_lexeme (t : Tok) (q : Rat) (htt : t.tt = .percentage ∨ t.tt = .number ∨ t.tt = .dimension)
    (h : numOfLexeme t.data = some (.percentage q)) : offOf t = some ⟨q, .zero⟩ := by
  have hn : numOf t = some (.percentage q) := by
    rcases htt with e | e | e <;> simp [numOf, e, h]
  rcases htt with e | e | e <;> simp [offOf, e, hn]

theorem offOf_flipTok (o : Tok) (n : Int) (h : flippable o = some n) :
    offOf (flipTok o n) = some ⟨100 - (n : Rat), .zero⟩ := by
  have htt := flippable_tt o n h
  have hl := lex_int_pct (100 - n)
  have h1 : (flipTok o n).tt = .percentage := by
    show (Tok.mk o.tt _ _).tt = _
    exact htt
  have := offOf_pct_lexeme (flipTok o n) _ (Or.inl h1) (by simpa [flipTok, Tok.data] using hl)
  rw [this]

theorem intDigits_head_zero (m : Int) (h : (intDigits m).head? = some '0') : m = 0 := by
  rw [intDigits_eq] at h
  by_cases hm : m < 0
  · simp [hm] at h
  · simp only [hm, decide_false, Bool.false_eq_true, if_false, List.nil_append] at h
    have := toDigits_head_zero _ h
    omega

theorem zok_flipTok (o : Tok) (n : Int) (h : flippable o = some n) (hz : isZero (flipTok o n) = true) :
    offOf (flipTok o n) = some ⟨0, .zero⟩ := by
  rw [offOf_flipTok o n h]
  have hh : (intDigits (100 - n) ++ ['%']).head? = some '0' := by
    simp only [isZero, flipTok, Tok.tt, Tok.data, Bool.and_eq_true, beq_iff_eq] at hz
    exact hz.2
  have hne : intDigits (100 - n) ≠ [] := by
    rw [intDigits_eq]; simp
  have hh' : (intDigits (100 - n)).head? = some '0' := by
    cases hd : intDigits (100 - n) with
    | nil => exact absurd hd hne
    | cons c r => rw [hd] at hh; simpa using hh
  have := intDigits_head_zero _ hh'
  have e : (n : Rat) = 100 := by
    have : n = 100 := by omega
    rw [this]; rfl
  rw [e]
  simp only [Option.some.injEq, Off.mk.injEq, and_true]
  grind

theorem offOf_consts : offOf tZero = some ⟨0, .zero⟩ ∧ offOf t100 = some ⟨100, .zero⟩ ∧ offOf t50 = some ⟨50, .zero⟩ ∧
    offOf tNum50 = some ⟨50, .zero⟩ ∧ pkwOf tZero = none ∧ pkwOf t100 = none ∧ pkwOf t50 = none ∧ pkwOf tNum50 = none := by
  decide +kernel

theorem pkwOf_tt (t : Tok) (k : PKw) (h : pkwOf t = some k) : t.tt = .ident := by
  unfold pkwOf kwOf at h
  by_cases ht : t.tt = .ident
  · exact ht
  · simp [ht] at h

theorem pkwOf_mk_left (tt : TT) (args : List Tok) (h : tt = .ident) : pkwOf (Tok.mk tt (S "left") args) = some .left := by
  subst h; rfl
theorem pkwOf_mk_top (tt : TT) (args : List Tok) (h : tt = .ident) : pkwOf (Tok.mk tt (S "top") args) = some .top := by
  subst h; rfl

theorem pkwOf_none_of_tt (t : Tok) (h : t.tt ≠ .ident) : pkwOf t = none := by
  simp [pkwOf, kwOf, h]

theorem dropZero_some (o t : Tok) (h : dropZero o = some t) : t = o ∧ isZero o = false := by
  unfold dropZero at h
  split at h
  · exact absurd h (by simp)
  · rename_i hz
    exact ⟨(Option.some.inj h).symm, by simpa using hz⟩

theorem dropZero_none (o : Tok) (h : dropZero o = none) : isZero o = true := by
  unfold dropZero at h
  split at h
  · assumption
  · exact absurd h (by simp)

theorem flip_zero : (⟨0, LenPart.zero⟩ : Off).flip = pct 100 := by decide +kernel
theorem flip_pct (n : Rat) : (⟨n, LenPart.zero⟩ : Off).flip = ⟨100 - n, .zero⟩ := rfl

/-- facts about the rewrite of one keyword group -/
structure GroupFacts (k : PKw) (kt : Tok) (o : Option Tok) : Prop where
  val : ∀ t, (resolveAxis k kt (o.bind dropZero)).1 = .val t →
    k ≠ .center ∧ pkwOf t = none ∧ (isZero t = true → offOf t = some ⟨0, .zero⟩) ∧
    (∀ x, axisH k o = some x → offOf t = some x) ∧ (∀ y, axisV k o = some y → offOf t = some y)
  center : (resolveAxis k kt (o.bind dropZero)).1 = .center → k = .center ∧ o = none
  keep : ∃ k' kt' o', (resolveAxis k kt (o.bind dropZero)).2 = kt' :: Option.toList o' ∧ pkwOf kt' = some k' ∧
    (∀ t ∈ o', pkwOf t = none) ∧ axisH k' o' = axisH k o ∧ axisV k' o' = axisV k o

theorem groupFacts (k : PKw) (kt : Tok) (o : Option Tok) (hk : pkwOf kt = some k)
    (ho : ∀ t ∈ o, pkwOf t = none ∧ OffSound t) (hc : k = .center → o = none) : GroupFacts k kt o := by
  have hkt := pkwOf_tt kt k hk
  have hc0 := offOf_consts
  cases o with
  | none =>
    cases k <;>
      refine ⟨?_, ?_, ⟨_, kt, none, rfl, hk, by simp, rfl, rfl⟩⟩ <;>
      simp [resolveAxis, axisH, axisV, horiz, vert, hc0, isZero, tZero, t100, tNum, tPct, Tok.tt, Tok.data] <;>
      (try decide +kernel)
  | some t =>
    obtain ⟨htk, hs⟩ := ho t rfl
    have hkc : k ≠ .center := by intro e; have := hc e; simp at this
    cases hz : dropZero t with
    | none =>
      have hz' := dropZero_none t hz
      have h0 := hs.zero hz'
      cases k <;> first | exact absurd rfl hkc | skip
      all_goals
        refine ⟨?_, ?_, ⟨_, kt, none, by simp [resolveAxis, hz], hk, by simp, ?_, ?_⟩⟩ <;>
        simp [resolveAxis, hz, axisH, axisV, horiz, vert, h0, hc0, flip_zero, isZero, tZero, t100, tNum, tPct, Tok.tt, Tok.data] <;>
        (try decide +kernel)
    | some t' =>
      obtain ⟨e, hnz⟩ := dropZero_some t t' hz
      subst e
      cases k <;> first | exact absurd rfl hkc | skip
      · -- left
        refine ⟨?_, ?_, ⟨_, kt, some t', by simp [resolveAxis, hz], hk, by simp [htk], rfl, rfl⟩⟩
        · intro t0 h0
          simp only [Option.bind_some, hz, resolveAxis] at h0
          have := AxRes.val.inj h0; subst this
          refine ⟨by simp, htk, by simp [hnz], ?_, ?_⟩
          · intro x hx; simp only [axisH] at hx
            cases ho : offOf t' with
            | none => simp [ho] at hx
            | some v => simp [ho, horiz] at hx; rw [hx]
          · intro y hy; simp only [axisV] at hy
            cases ho : offOf t' with
            | none => simp [ho] at hy
            | some v => simp [ho, vert] at hy
        · simp [resolveAxis, hz]
      · -- right
        cases hf : flippable t' with
        | none =>
          refine ⟨?_, ?_, ⟨_, kt, some t', by simp [resolveAxis, hz, hf], hk, by simp [htk], rfl, rfl⟩⟩ <;>
            simp [resolveAxis, hz, hf]
        | some n =>
          have hoff := hs.flip n hf
          have hfo := offOf_flipTok t' n hf
          have hftt : (flipTok t' n).tt ≠ .ident := by
            have e : (flipTok t' n).tt = t'.tt := rfl
            rw [e, flippable_tt t' n hf]; simp
          have hfk := pkwOf_none_of_tt _ hftt
          refine ⟨?_, ?_, ⟨.left, Tok.mk kt.tt (S "left") kt.args, some (flipTok t' n), by simp [resolveAxis, hz, hf],
            pkwOf_mk_left _ _ hkt, by simp [hfk], ?_, ?_⟩⟩
          · intro t0 h0
            simp only [Option.bind_some, hz, resolveAxis, hf] at h0
            have := AxRes.val.inj h0; subst this
            refine ⟨by simp, hfk, zok_flipTok t' n hf, ?_, ?_⟩
            · intro x hx
              simp only [axisH, hoff, Option.bind_some, horiz, flip_pct, Option.some.injEq] at hx
              rw [hfo, hx]
            · intro y hy; simp [axisV, hoff, vert] at hy
          · simp [resolveAxis, hz, hf]
          · simp [axisH, hoff, hfo, horiz, flip_pct]
          · simp [axisV, hoff, hfo, vert]
      · -- top
        refine ⟨?_, ?_, ⟨_, kt, some t', by simp [resolveAxis, hz], hk, by simp [htk], rfl, rfl⟩⟩
        · intro t0 h0
          simp only [Option.bind_some, hz, resolveAxis] at h0
          have := AxRes.val.inj h0; subst this
          refine ⟨by simp, htk, by simp [hnz], ?_, ?_⟩
          · intro x hx; simp only [axisH] at hx
            cases ho : offOf t' with
            | none => simp [ho] at hx
            | some v => simp [ho, horiz] at hx
          · intro y hy; simp only [axisV] at hy
            cases ho : offOf t' with
            | none => simp [ho] at hy
            | some v => simp [ho, vert] at hy; rw [hy]
        · simp [resolveAxis, hz]
      · -- bottom
        cases hf : flippable t' with
        | none =>
          refine ⟨?_, ?_, ⟨_, kt, some t', by simp [resolveAxis, hz, hf], hk, by simp [htk], rfl, rfl⟩⟩ <;>
            simp [resolveAxis, hz, hf]
        | some n =>
          have hoff := hs.flip n hf
          have hfo := offOf_flipTok t' n hf
          have hftt : (flipTok t' n).tt ≠ .ident := by
            have e : (flipTok t' n).tt = t'.tt := rfl
            rw [e, flippable_tt t' n hf]; simp
          have hfk := pkwOf_none_of_tt _ hftt
          refine ⟨?_, ?_, ⟨.top, Tok.mk kt.tt (S "top") kt.args, some (flipTok t' n), by simp [resolveAxis, hz, hf],
            pkwOf_mk_top _ _ hkt, by simp [hfk], ?_, ?_⟩⟩
          · intro t0 h0
            simp only [Option.bind_some, hz, resolveAxis, hf] at h0
            have := AxRes.val.inj h0; subst this
            refine ⟨by simp, hfk, zok_flipTok t' n hf, ?_, ?_⟩
            · intro x hx; simp [axisH, hoff, horiz] at hx
            · intro y hy
              simp only [axisV, hoff, Option.bind_some, vert, flip_pct, Option.some.injEq] at hy
              rw [hfo, hy]
          · simp [resolveAxis, hz, hf]
          · simp [axisH, hoff, hfo, horiz]
          · simp [axisV, hoff, hfo, vert, flip_pct]

theorem offOf_pctZero (t : Tok) (hz : isZero t = true → offOf t = some ⟨0, .zero⟩) : offOf (pctZero t) = offOf t := by
  unfold pctZero
  split
  · rename_i hc
    simp only [Bool.and_eq_true, beq_iff_eq] at hc
    have : isZero t = true := by simp [isZero, hc.1, hc.2]
    rw [hz this, offOf_consts.1]
  · rfl

theorem pkwOf_pctZero (t : Tok) (h : pkwOf t = none) : pkwOf (pctZero t) = none := by
  unfold pctZero
  split
  · exact offOf_consts.2.2.2.2.1
  · exact h

theorem position_vals2 (a b : Tok) (ha : pkwOf a = none) (hb : pkwOf b = none) :
    position [a, b] = both (offOf a) (offOf b) := by
  simp [position, ha, hb]

theorem position_val1 (a : Tok) (ha : pkwOf a = none) : position [a] = (offOf a).map fun o => (o, pct 50) := by
  simp [position, ha]

theorem offOf_50 (y : Tok) (h1 : y.tt = .percentage) (h2 : y.data = S "50%") : offOf y = some (pct 50) := by
  obtain ⟨tt, data, args⟩ := y
  simp only [Tok.tt, Tok.data] at h1 h2
  subst h1 h2
  have : numOfLexeme (S "50%") = some (.percentage 50) := by decide +kernel
  exact offOf_pct_lexeme _ 50 (Or.inl rfl) this

theorem finishVals2 (a b : Tok) (ha : pkwOf a = none) (hb : pkwOf b = none)
    (za : isZero a = true → offOf a = some ⟨0, .zero⟩) (zb : isZero b = true → offOf b = some ⟨0, .zero⟩) :
    position (finishVals [a, b]) = both (offOf a) (offOf b) := by
  simp only [finishVals]
  split
  · rename_i hc
    simp only [Bool.and_eq_true, beq_iff_eq] at hc
    rw [position_val1 _ (pkwOf_pctZero a ha), offOf_pctZero a za, offOf_50 b hc.1 hc.2]
    cases offOf a <;> rfl
  · rw [position_vals2 _ _ (pkwOf_pctZero a ha) (pkwOf_pctZero b hb), offOf_pctZero a za, offOf_pctZero b zb]

theorem finishVals1 (a : Tok) (ha : pkwOf a = none) (za : isZero a = true → offOf a = some ⟨0, .zero⟩) :
    position (finishVals [a]) = both (offOf a) (some (pct 50)) := by
  simp only [finishVals]
  rw [position_val1 _ (pkwOf_pctZero a ha), offOf_pctZero a za]
  cases offOf a <;> rfl

/-- a layer in keyword form denotes what its two groups denote -/
theorem position_groups (k1 k2 : PKw) (kt1 kt2 : Tok) (o1 o2 : Option Tok)
    (h1 : pkwOf kt1 = some k1) (h2 : pkwOf kt2 = some k2)
    (g1 : ∀ t ∈ o1, pkwOf t = none) (g2 : ∀ t ∈ o2, pkwOf t = none) :
    position ((kt1 :: o1.toList) ++ (kt2 :: o2.toList)) = groups2 k1 o1 k2 o2 := by
  cases o1 with
  | none =>
    cases o2 with
    | none => simp [position, h1, h2]
    | some b => simp [position, h1, h2, g2 b rfl]
  | some a =>
    cases o2 with
    | none => simp [position, h1, h2, g1 a rfl]
    | some b => simp [position, h1, h2, g1 a rfl, g2 b rfl]

theorem axisH_vert_none (k : PKw) (o : Option Tok) (h : isVerticalKw k = true) : axisH k o = none := by
  cases k <;> simp [isVerticalKw] at h <;> cases o <;> simp [axisH, horiz] <;>
    (intro a _; cases a; rfl)
theorem axisV_horiz_none (k : PKw) (o : Option Tok) (h : isHorizontalKw k = true) : axisV k o = none := by
  cases k <;> simp [isHorizontalKw] at h <;> cases o <;> simp [axisV, vert] <;>
    (intro a _; cases a; rfl)

theorem not_h_not_center (k : PKw) (h1 : isHorizontalKw k = false) (h2 : k ≠ .center) : isVerticalKw k = true := by
  cases k <;> simp_all [isHorizontalKw, isVerticalKw]
theorem not_v_not_center (k : PKw) (h1 : isVerticalKw k = false) (h2 : k ≠ .center) : isHorizontalKw k = true := by
  cases k <;> simp_all [isHorizontalKw, isVerticalKw]

theorem both_some {x y : Option Off} {p : Off × Off} (h : both x y = some p) : x = some p.1 ∧ y = some p.2 := by
  cases x <;> cases y <;> simp [both] at h
  subst h; exact ⟨rfl, rfl⟩

theorem axis_center_some (t : Tok) : axisH .center (some t) = none ∧ axisV .center (some t) = none := by
  constructor <;> simp [axisH, axisV, horiz, vert]

theorem both_none_right (x : Option Off) : both x none = none := by cases x <;> rfl
theorem both_none_left (y : Option Off) : both none y = none := rfl

theorem center_no_offset (k1 k2 : PKw) (o1 o2 : Option Tok) (p : Off × Off)
    (hv : groups2 k1 o1 k2 o2 = some p) : (k1 = .center → o1 = none) ∧ (k2 = .center → o2 = none) := by
  constructor
  · intro e; subst e
    cases o1 with
    | none => rfl
    | some t =>
      exfalso
      simp [groups2, (axis_center_some t).1, (axis_center_some t).2, both_none_right, both_none_left, orElse'] at hv
  · intro e; subst e
    cases o2 with
    | none => rfl
    | some t =>
      exfalso
      simp [groups2, (axis_center_some t).1, (axis_center_some t).2, both_none_right, both_none_left, orElse'] at hv

/-- the two readings of a pair of groups; `p` comes from the first that is defined -/
theorem groups2_cases (k1 k2 : PKw) (o1 o2 : Option Tok) (p : Off × Off) (hv : groups2 k1 o1 k2 o2 = some p) :
    (axisH k1 o1 = some p.1 ∧ axisV k2 o2 = some p.2) ∨ (axisH k2 o2 = some p.1 ∧ axisV k1 o1 = some p.2) := by
  simp only [groups2, orElse'] at hv
  cases hA : both (axisH k1 o1) (axisV k2 o2) with
  | some q =>
    simp only [hA] at hv
    have := Option.some.inj hv; subst this
    exact Or.inl (both_some hA)
  | none =>
    simp only [hA] at hv
    exact Or.inr (both_some hv)

theorem assemble_ok (k1 k2 : PKw) (kt1 kt2 : Tok) (o1 o2 : Option Tok) (p : Off × Off)
    (h1 : pkwOf kt1 = some k1) (h2 : pkwOf kt2 = some k2)
    (s1 : ∀ t ∈ o1, pkwOf t = none ∧ OffSound t) (s2 : ∀ t ∈ o2, pkwOf t = none ∧ OffSound t)
    (hv : groups2 k1 o1 k2 o2 = some p) :
    position (assemble k1 kt1 (o1.bind dropZero) k2 kt2 (o2.bind dropZero)) = some p := by
  obtain ⟨c1, c2⟩ := center_no_offset k1 k2 o1 o2 p hv
  have G1 := groupFacts k1 kt1 o1 h1 s1 c1
  have G2 := groupFacts k2 kt2 o2 h2 s2 c2
  obtain ⟨k1', kt1', o1', hk1, hp1, hg1, hH1, hV1⟩ := G1.keep
  obtain ⟨k2', kt2', o2', hk2, hp2, hg2, hH2, hV2⟩ := G2.keep
  -- the keyword form always denotes the same position
  have hkeep : position ((resolveAxis k1 kt1 (o1.bind dropZero)).2 ++ (resolveAxis k2 kt2 (o2.bind dropZero)).2) = some p := by
    rw [hk1, hk2, position_groups k1' k2' kt1' kt2' o1' o2' hp1 hp2 hg1 hg2]
    simp only [groups2, hH1, hV1, hH2, hV2]
    exact hv
  have hcase := groups2_cases k1 k2 o1 o2 p hv
  have hcH : axisH .center none = some (pct 50) := rfl
  have hcV : axisV .center none = some (pct 50) := rfl
  simp only [assemble]
  by_cases hf : (isHorizontalKw k1 || isVerticalKw k2) = true
  · -- the first group is the horizontal one
    simp only [hf, if_true]
    have hA : axisH k1 o1 = some p.1 ∧ axisV k2 o2 = some p.2 := by
      rcases hcase with h | h
      · exact h
      · exfalso
        rcases Bool.or_eq_true _ _ ▸ hf with e | e
        · rw [axisV_horiz_none k1 o1 e] at h; exact absurd h.2 (by simp)
        · rw [axisH_vert_none k2 o2 e] at h; exact absurd h.1 (by simp)
    cases r1 : (resolveAxis k1 kt1 (o1.bind dropZero)).1 with
    | stuck => cases r2 : (resolveAxis k2 kt2 (o2.bind dropZero)).1 <;> exact hkeep
    | center =>
      obtain ⟨e1, e1'⟩ := G1.center r1
      subst e1 e1'
      cases r2 : (resolveAxis k2 kt2 (o2.bind dropZero)).1 with
      | stuck => exact hkeep
      | center => exact hkeep
      | val b =>
        obtain ⟨hb1, hb2, hb3, hb4, hb5⟩ := G2.val b r2
        show position (finishVals [tNum50, b]) = some p
        rw [finishVals2 _ _ offOf_consts.2.2.2.2.2.2.2 hb2 (by decide) hb3, offOf_consts.2.2.2.1, hb5 _ hA.2]
        rw [hcH] at hA
        have := Option.some.inj hA.1
        simp only [both]
        rw [show (⟨50, LenPart.zero⟩ : Off) = pct 50 from rfl, this]
    | val a =>
      obtain ⟨ha1, ha2, ha3, ha4, ha5⟩ := G1.val a r1
      cases r2 : (resolveAxis k2 kt2 (o2.bind dropZero)).1 with
      | stuck => exact hkeep
      | center =>
        obtain ⟨e2, e2'⟩ := G2.center r2
        subst e2 e2'
        show position (finishVals [a]) = some p
        rw [finishVals1 _ ha2 ha3, ha4 _ hA.1]
        rw [hcV] at hA
        have := Option.some.inj hA.2
        simp only [both, this]
      | val b =>
        obtain ⟨hb1, hb2, hb3, hb4, hb5⟩ := G2.val b r2
        show position (finishVals [a, b]) = some p
        rw [finishVals2 _ _ ha2 hb2 ha3 hb3, ha4 _ hA.1, hb5 _ hA.2]
        rfl
  · -- the first group is the vertical one (or both are `center`)
    have hf' : (isHorizontalKw k1 || isVerticalKw k2) = false := by simpa using hf
    simp only [hf', Bool.false_eq_true, if_false]
    obtain ⟨nh1, nv2⟩ := Bool.or_eq_false_iff.mp hf'
    cases r1 : (resolveAxis k1 kt1 (o1.bind dropZero)).1 with
    | stuck => cases r2 : (resolveAxis k2 kt2 (o2.bind dropZero)).1 <;> exact hkeep
    | center =>
      obtain ⟨e1, e1'⟩ := G1.center r1
      subst e1 e1'
      cases r2 : (resolveAxis k2 kt2 (o2.bind dropZero)).1 with
      | stuck => exact hkeep
      | center => exact hkeep
      | val b =>
        obtain ⟨hb1, hb2, hb3, hb4, hb5⟩ := G2.val b r2
        have hh2 := not_v_not_center k2 nv2 hb1
        have hB : axisH k2 o2 = some p.1 ∧ axisV .center none = some p.2 := by
          rcases hcase with h | h
          · rw [axisV_horiz_none k2 o2 hh2] at h; exact absurd h.2 (by simp)
          · exact h
        show position (finishVals [b]) = some p
        rw [finishVals1 _ hb2 hb3, hb4 _ hB.1]
        rw [hcV] at hB
        have := Option.some.inj hB.2
        simp only [both, this]
    | val a =>
      obtain ⟨ha1, ha2, ha3, ha4, ha5⟩ := G1.val a r1
      have hv1 := not_h_not_center k1 nh1 ha1
      have hB : axisH k2 o2 = some p.1 ∧ axisV k1 o1 = some p.2 := by
        rcases hcase with h | h
        · rw [axisH_vert_none k1 o1 hv1] at h; exact absurd h.1 (by simp)
        · exact h
      cases r2 : (resolveAxis k2 kt2 (o2.bind dropZero)).1 with
      | stuck => exact hkeep
      | center =>
        obtain ⟨e2, e2'⟩ := G2.center r2
        subst e2 e2'
        show position (finishVals [tNum50, a]) = some p
        rw [finishVals2 _ _ offOf_consts.2.2.2.2.2.2.2 ha2 (by decide) ha3, offOf_consts.2.2.2.1, ha5 _ hB.2]
        rw [hcH] at hB
        have := Option.some.inj hB.1
        simp only [both]
        rw [show (⟨50, LenPart.zero⟩ : Off) = pct 50 from rfl, this]
      | val b =>
        obtain ⟨hb1, hb2, hb3, hb4, hb5⟩ := G2.val b r2
        show position (finishVals [b, a]) = some p
        rw [finishVals2 _ _ hb2 ha2 hb3 ha3, hb4 _ hB.1, ha5 _ hB.2]
        rfl

/-- the second value of a two-value position: `50%` is dropped, a `0%`-like percentage becomes `0` -/
theorem second_lp (x b : Tok) (hx : pkwOf x = none) (hb : pkwOf b = none)
    (zx : isZero x = true → offOf x = some ⟨0, .zero⟩) (zb : isZero b = true → offOf b = some ⟨0, .zero⟩) :
    position ([pctZero x] ++ (if pkwOf b == none && b.tt == .percentage && b.data == S "50%" then none else kwValue false b).toList)
      = both (offOf x) (offOf b) := by
  have hfin := finishVals2 x b hx hb zx zb
  simp only [finishVals] at hfin
  simp only [hb, beq_self_eq_true, Bool.true_and, kwValue]
  split at hfin
  · rename_i hc; simp only [hc, if_true, Option.toList_none, List.append_nil]; exact hfin
  · rename_i hc; simp only [hc, Bool.false_eq_true, if_false, Option.toList_some]; exact hfin


theorem bgPosLayers_noComma (cur vs : List Tok) (h : ∀ t ∈ vs, isComma t = false) :
    bgPosLayers cur vs = if (cur.reverse ++ vs).isEmpty then [] else (bgPosLayer (cur.reverse ++ vs)).1 := by
  induction vs generalizing cur with
  | nil => simp [bgPosLayers]
  | cons t r ih =>
    have ht := h t List.mem_cons_self
    simp only [bgPosLayers, ht, Bool.false_eq_true, if_false]
    rw [ih (t :: cur) (fun x hx => h x (List.mem_cons_of_mem _ hx))]
    simp


/-! ## Decimal -/

theorem dropZeros_sub (l : List Char) : ∀ c ∈ dropZeros l, c ∈ l := by
  induction l with
  | nil => simp [dropZeros]
  | cons a r ih =>
    intro c hc
    unfold dropZeros at hc
    split at hc
    · rename_i heq
      have : r = _ := (List.cons.inj heq).2
      subst this
      exact List.mem_cons_of_mem _ (ih c hc)
    · exact hc

theorem dropTrailZeros_sub (l : List Char) : ∀ c ∈ dropTrailZeros l, c ∈ l := by
  intro c hc
  unfold dropTrailZeros at hc
  have := dropZeros_sub l.reverse c (by simpa using hc)
  simpa using this

theorem mem_takeWhile_sub {p : Char → Bool} (l : List Char) : ∀ c ∈ l.takeWhile p, c ∈ l := by
  induction l with
  | nil => simp
  | cons a r ih =>
    intro c hc
    simp only [List.takeWhile_cons] at hc
    split at hc
    · rcases List.mem_cons.mp hc with e | e
      · exact e ▸ List.mem_cons_self
      · exact List.mem_cons_of_mem _ (ih c e)
    · cases hc

theorem mem_dropWhile_sub {p : Char → Bool} (l : List Char) : ∀ c ∈ l.dropWhile p, c ∈ l := by
  induction l with
  | nil => simp
  | cons a r ih =>
    intro c hc
    simp only [List.dropWhile_cons] at hc
    split at hc
    · exact List.mem_cons_of_mem _ (ih c hc)
    · exact hc

/-- every byte of `minify.Decimal(s, 0)` is a byte of `s`, a `0`, a `-` or a `.` -/
theorem decimal0_chars (s : List Char) : ∀ c ∈ decimal0 s, c ∈ s ∨ c = '0' ∨ c = '-' ∨ c = '.' := by
  intro c hc
  unfold decimal0 at hc
  split at hc
  · exact Or.inl hc
  · simp only at hc
    generalize hb : (if (s.head? == some '-' || s.head? == some '+') = true then s.drop 1 else s) = body at hc
    have hbody : ∀ x ∈ body, x ∈ s := by
      intro x hx
      rw [← hb] at hx
      split at hx
      · exact List.mem_of_mem_drop hx
      · exact hx
    generalize hk : min (countZeros (List.takeWhile (fun x => x != '.') body)) (body.length - 1) = k at hc
    have hip : ∀ x ∈ List.drop k (List.takeWhile (fun x => x != '.') body), x ∈ s :=
      fun x hx => hbody x (mem_takeWhile_sub _ x (List.mem_of_mem_drop hx))
    have hfp : ∀ x ∈ dropTrailZeros (List.drop 1 (List.dropWhile (fun x => x != '.') body)), x ∈ s :=
      fun x hx => hbody x (mem_dropWhile_sub _ x (List.mem_of_mem_drop (dropTrailZeros_sub _ x hx)))
    generalize List.drop k (List.takeWhile (fun x => x != '.') body) = ip at hc hip
    generalize dropTrailZeros (List.drop 1 (List.dropWhile (fun x => x != '.') body)) = fp at hc hfp
    repeat' split at hc
    all_goals
      (try simp only [List.mem_cons, List.mem_append, List.mem_nil_iff, or_false] at hc)
      grind

/-! ## zero units: contexts -/

/-- whole-table check (regenerated `optionalZeroDimension` × every CSS unit × every aliasing offset): the unit
    bytes the zero cut looks at are in the table only if the real unit is a length or an angle, and if they are not
    an angle unit the real unit is a length -/
theorem aliased_small2 : ∀ dim ∈ cssUnits, ∀ d ∈ List.range 6,
    optionalZeroDimension.contains (aliasedDim dim d) = true →
      (lengthUnits.contains dim || angleUnits.contains dim) = true ∧
      (angleDimension.contains (aliasedDim dim d) = false → lengthUnits.contains dim = true) := by
  decide +kernel

theorem known_marker : known zeroAngleFn = [] ∧ argFun [] = [] ∧ typedMathFuncs = typedMathFns ∧
    (∀ n ∈ zeroAngleFuncs, legacyAngleFns.contains n = true ∧ typedMathFns.contains n = false) := by
  decide +kernel

theorem funHash_marker (name : List Char) (h : funHash name = zeroAngleFn) : zeroAngleFuncs.contains (lower name) = true := by
  unfold funHash at h
  simp only at h
  split at h
  · rename_i hk
    rcases known_eq (lower name) with e | e
    · rw [e] at h
      have : known (lower name) = [] := by rw [h]; exact known_marker.1
      rw [e] at this
      rw [this] at h; exact absurd h (by decide)
    · rw [e] at hk; simp at hk
  · split at h
    · assumption
    · exact absurd h (by decide)

theorem argFun_nil (name : List Char) (h : argFun name = []) : typedMathFns.contains (lower name) = false := by
  unfold argFun at h
  split at h
  · exact absurd h (by decide)
  · rename_i hc
    rw [h] at hc
    simp only [beq_self_eq_true, Bool.true_and, Bool.not_eq_true] at hc
    rw [← known_marker.2.2.1]; exact hc

theorem argFun_marker (name : List Char) (h : argFun name = zeroAngleFn) :
    legacyAngleFns.contains (lower name) = true ∧ typedMathFns.contains (lower name) = false := by
  unfold argFun at h
  split at h
  · exact absurd h (by decide)
  · have := funHash_marker name h
    exact known_marker.2.2.2 _ (by simpa using this)

theorem aliased_unit2 (dim : List Char) (d : Nat) (hu : dim ∈ cssUnits)
    (h : optionalZeroDimension.contains (aliasedDim dim d) = true) :
    (lengthUnits.contains dim || angleUnits.contains dim) = true ∧
    (angleDimension.contains (aliasedDim dim d) = false → lengthUnits.contains dim = true) := by
  by_cases hd : d < 6
  · exact aliased_small2 dim hu d (List.mem_range.mpr hd) h
  · have hl := unit_len dim hu
    have : aliasedDim dim d = dim := by
      unfold aliasedDim
      have : (d == 0 || decide (dim.length ≤ d)) = true := by
        simp; omega
      simp [this]
    rw [this] at h ⊢
    have h0 : aliasedDim dim 0 = dim := by simp [aliasedDim]
    have := aliased_small2 dim hu 0 (by decide) (by rw [h0]; exact h)
    rw [h0] at this; exact this

end Verif.Proofs.Css

import Verif.Model.Css
/-!
# Helper lemmas for the C04 property theorems (`Verif.Props.C04`)
-/
set_option maxRecDepth 100000
namespace Verif.Proofs.Css
open Verif.Spec.CssValue Verif.Model.Css Verif.Gen.C04Tables

/-! ## zero units -/

theorem unit_len : ∀ dim ∈ cssUnits, dim.length ≤ 5 := by decide

/-- whole-table check (regenerated `optionalZeroDimension` × every CSS unit × every aliasing offset): the
    unit bytes the zero cut looks at are in the table only if the real unit is a length or an angle -/
theorem aliased_small : ∀ dim ∈ cssUnits, ∀ d ∈ List.range 6,
    optionalZeroDimension.contains (aliasedDim dim d) = true →
      (lengthUnits.contains dim || angleUnits.contains dim) = true := by
  decide +kernel

theorem aliased_unit (dim : List Char) (d : Nat) (hu : dim ∈ cssUnits)
    (h : optionalZeroDimension.contains (aliasedDim dim d) = true) :
    (lengthUnits.contains dim || angleUnits.contains dim) = true := by
  by_cases hd : d < 6
  · exact aliased_small dim hu d (List.mem_range.mpr hd) h
  · have hl := unit_len dim hu
    have : aliasedDim dim d = dim := by
      unfold aliasedDim
      have : (d == 0 || decide (dim.length ≤ d)) = true := by
        simp; omega
      simp [this]
    rw [this] at h
    exact aliased_small dim hu 0 (by decide) (by simpa [aliasedDim] using h)

theorem unit_head : ∀ dim ∈ cssUnits, dim.head? ≠ some '0' := by decide
theorem lex_zero : numOfLexeme ['0'] = some (.number 0) := by decide +kernel
theorem lex_zero_unit : ∀ dim ∈ cssUnits, numOfLexeme ('0' :: dim) = some (.dimension 0 dim) := by
  decide +kernel

/-! ## colours -/

theorem hexDigit_lower (c : Char) : hexDigit? (lowerChar c) = hexDigit? c := by
  unfold lowerChar
  split <;> rfl

theorem lowerChar_idem (c : Char) : lowerChar (lowerChar c) = lowerChar c := by
  have h : ∀ d, lowerChar c = d → lowerChar d = d := by
    intro d hd
    unfold lowerChar at hd
    split at hd <;> (subst hd; try rfl)
    unfold lowerChar
    split <;> first | rfl | simp_all
  exact h _ rfl

theorem lower_idem (s : List Char) : lower (lower s) = lower s := by
  simp [lower, List.map_map, Function.comp_def, lowerChar_idem]

theorem isHex_lower (c : Char) : isHexDigit (lowerChar c) = isHexDigit c := by
  simp [isHexDigit, hexDigit_lower]
theorem hexVal_lower (c : Char) : hexDigitVal (lowerChar c) = hexDigitVal c := by
  simp [hexDigitVal, hexDigit_lower]

theorem hexColor_lower (ds : List Char) : hexColor (lower ds) = hexColor ds := by
  unfold hexColor
  have h1 : (lower ds).all isHexDigit = ds.all isHexDigit := by
    simp [lower, List.all_map, Function.comp_def, isHex_lower]
  have h2 : (lower ds).map hexDigitVal = ds.map hexDigitVal := by
    simp [lower, List.map_map, Function.comp_def, hexVal_lower]
  rw [h1, h2]

theorem name_table_ok : ∀ p ∈ shortenColorName, hexColor (p.2.drop 1) = namedColor p.1 ∧ p.1 ≠ [] := by
  decide +kernel
theorem hex_table_ok : ∀ p ∈ shortenColorHex, namedColor p.2 = hexColor (p.1.drop 1) := by
  decide +kernel

theorem lookup_mem {β : Type} (l : List (List Char × β)) (k : List Char) (v : β)
    (h : l.lookup k = some v) : (k, v) ∈ l := by
  induction l with
  | nil => simp [List.lookup] at h
  | cons p r ih =>
    obtain ⟨a, b⟩ := p
    simp only [List.lookup] at h
    split at h
    · rename_i heq
      have : k = a := by simpa using heq
      subst this
      have : b = v := by simpa using h
      subst this
      exact List.mem_cons_self
    · exact List.mem_cons_of_mem _ (ih h)

theorem alpha_ff : (((16 * 15 + 15 : Nat) : Rat) / 255) = 1 := by decide +kernel

theorem hexColor_trimAlpha (data : List Char) (hg : hexAlpha00 data = false) :
    hexColor ((trimAlpha data).drop 1) = hexColor (data.drop 1) := by
  unfold trimAlpha
  split
  · rename_i h a b c d e f x y
    split
    · rename_i hxy
      have hxy' : x = y := by simpa using hxy
      subst hxy'
      split
      · rename_i hf
        have : x = 'f' := by simpa using hf
        subst this
        simp only [List.drop, hexColor, List.all_cons, List.all_nil, List.map]
        have hfhex : isHexDigit 'f' = true := by decide
        have hfv : hexDigitVal 'f' = 15 := by decide
        simp only [hfhex, hfv, Bool.and_true, alpha_ff]
      · split
        · rename_i h0
          have : x = '0' := by simpa using h0
          subst this
          simp only [hexAlpha00, beq_self_eq_true, Bool.true_and, Bool.not_eq_false', List.all_cons, List.all_nil,
            Bool.and_true, Bool.and_eq_true, beq_iff_eq] at hg
          obtain ⟨ha, hb, hc, hd, he, hf⟩ := hg
          subst ha hb hc hd he hf
          show hexColor ['0','0','0','0'] = hexColor ['0','0','0','0','0','0','0','0']
          decide +kernel
        · rfl
    · rfl
  · rfl


theorem hexColor_shortHex (data : List Char) :
    hexColor ((shortHex data).drop 1) = hexColor (data.drop 1) := by
  unfold shortHex
  split
  · rename_i h a a' b b' c c'
    split
    · rename_i hp
      simp only [Bool.and_eq_true, beq_iff_eq] at hp
      obtain ⟨⟨h1, h2⟩, h3⟩ := hp
      subst h1 h2 h3
      simp only [List.drop, hexColor, List.all_cons, List.all_nil, List.map, Bool.and_true, Bool.and_self]
      have e : ∀ x : Nat, 16 * x + x = 17 * x := by intro x; omega
      simp only [e]
      cases isHexDigit a <;> cases isHexDigit b <;> cases isHexDigit c <;> rfl
    · rfl
  · rename_i h a a' b b' c c' d d'
    split
    · rename_i hp
      simp only [Bool.and_eq_true, beq_iff_eq] at hp
      obtain ⟨⟨⟨h1, h2⟩, h3⟩, h4⟩ := hp
      subst h1 h2 h3 h4
      simp only [List.drop, hexColor, List.all_cons, List.all_nil, List.map, Bool.and_true, Bool.and_self]
      have e : ∀ x : Nat, 16 * x + x = 17 * x := by intro x; omega
      simp only [e]
      cases isHexDigit a <;> cases isHexDigit b <;> cases isHexDigit c <;> cases isHexDigit d <;> rfl
    · rfl
  · rfl

theorem known_eq (s : List Char) : known s = s ∨ known s = [] := by
  unfold known; split <;> simp

theorem namedColor_lower (s : List Char) : namedColor (lower s) = namedColor s := by
  simp [namedColor, lower_idem]


/-! ## fonts -/

theorem identOf_eq (t : Tok) (k : List Char) (hk : k ≠ []) (h : identOf t = k) :
    t.tt = .ident ∧ lower t.data = k := by
  unfold identOf at h
  split at h
  · rename_i htt
    refine ⟨by simpa using htt, ?_⟩
    rcases known_eq (lower t.data) with e | e
    · rw [e] at h; exact h
    · rw [e] at h; exact absurd h.symm hk
  · exact absurd h.symm hk

theorem fw400 : fontWeightVal (tNum (S "400")) = some (.abs 400) := by decide +kernel
theorem fw700 : fontWeightVal (tNum (S "700")) = some (.abs 700) := by decide +kernel

theorem fw_kw (t : Tok) (k : List Char) (w : Rat) (h1 : t.tt = .ident) (h2 : lower t.data = k)
    (hk : (if k == "normal".toList then some (Weight.abs 400) else if k == "bold".toList then some (Weight.abs 700)
           else some (Weight.kw k)) = some (Weight.abs w)) : fontWeightVal t = some (.abs w) := by
  obtain ⟨tt, data, args⟩ := t
  simp only [Tok.tt, Tok.data] at h1 h2
  subst h1
  simp only [fontWeightVal, Tok.tt, Tok.data, h2]
  exact hk


theorem splitOn_ne_nil (c : Char) (s : List Char) : splitOn c s ≠ [] := by
  cases s with
  | nil => simp [splitOn]
  | cons x r =>
    simp only [splitOn]
    split
    · simp
    · split <;> simp

theorem splitOn_join (s : List Char) : joinSpace (splitOn ' ' s) = s := by
  induction s with
  | nil => rfl
  | cons x r ih =>
    simp only [splitOn]
    split
    · rename_i h; exact absurd h (splitOn_ne_nil _ _)
    · rename_i h t heq
      rw [heq] at ih
      split
      · rename_i hx
        have : x = ' ' := by simpa using hx
        subst this
        simp only [joinSpace]
        rw [← ih]
        cases t <;> simp [joinSpace]
      · cases t with
        | nil => simp [joinSpace] at ih ⊢; exact ih
        | cons t1 t2 => simp [joinSpace] at ih ⊢; exact ih

theorem lowerChar_space (c : Char) : (lowerChar c == ' ') = (c == ' ') := by
  unfold lowerChar
  split <;> first | rfl | decide

theorem splitOn_lower (s : List Char) : splitOn ' ' (lower s) = (splitOn ' ' s).map lower := by
  induction s with
  | nil => rfl
  | cons x r ih =>
    simp only [lower, List.map_cons, splitOn] at ih ⊢
    rw [ih]
    cases h : splitOn ' ' r with
    | nil => exact absurd h (splitOn_ne_nil _ _)
    | cons a t =>
      simp only [List.map_cons, lowerChar_space]
      split <;> simp [lower]

theorem lower_joinSpace (ws : List (List Char)) : lower (joinSpace ws) = joinSpace (ws.map lower) := by
  induction ws with
  | nil => rfl
  | cons a r ih =>
    cases r with
    | nil => simp [joinSpace]
    | cons b t =>
      simp only [joinSpace, List.map_cons] at ih ⊢
      simp only [lower, List.map_append, List.map_cons] at ih ⊢
      rw [ih]
      rfl

theorem dropEscNl_id (s : List Char) (h : s.contains '\\' = false) : dropEscNl s = s := by
  induction s with
  | nil => rfl
  | cons c r ih =>
    have hc : c ≠ '\\' := by
      intro e; subst e; simp at h
    have hr : r.contains '\\' = false := by
      simp only [List.contains_cons, Bool.or_eq_false_iff] at h
      exact h.2
    have := ih hr
    unfold dropEscNl
    split <;> simp_all

theorem lowerChar_eq_bs (c : Char) : lowerChar c = '\\' ↔ c = '\\' := by
  unfold lowerChar
  split <;> first | exact Iff.rfl | decide

theorem contains_bs_lower (s : List Char) : (lower s).contains '\\' = s.contains '\\' := by
  have : ('\\' ∈ lower s) ↔ ('\\' ∈ s) := by
    simp only [lower, List.mem_map]
    constructor
    · rintro ⟨c, hc, he⟩
      rw [(lowerChar_eq_bs c).mp he] at hc
      exact hc
    · intro h
      exact ⟨'\\', h, by decide⟩
  cases h1 : (lower s).contains '\\' <;> cases h2 : s.contains '\\' <;> simp_all

theorem ident_not_quote (w : List Char) (h : isIdentBytes w = true) :
    w.head? ≠ some '"' ∧ w.head? ≠ some '\'' := by
  cases w with
  | nil => simp
  | cons c r =>
    simp only [List.head?_cons, ne_eq, Option.some.injEq]
    constructor
    · intro e; subst e; simp [isIdentBytes, isLetter] at h
    · intro e; subst e; simp [isIdentBytes, isLetter] at h

theorem family_of_string (q : Char) (body : List Char) (args : List Tok) (hb : body.contains '\\' = false) :
    familyOf [strTok q body args] = some (.name (lower body)) := by
  have e := dropEscNl_id body hb
  have hm : ¬ '\\' ∈ body := by simpa using hb
  simp [familyOf, strTok, Tok.tt, Tok.data, e, hm]

theorem lower_quote (q : Char) (hq : q = '"' ∨ q = '\'') : lowerChar q = q := by
  rcases hq with h | h <;> subst h <;> rfl

theorem words_lower_fixed (lb : List Char) (hl : lower lb = lb) : (splitOn ' ' lb).map lower = splitOn ' ' lb := by
  rw [← splitOn_lower, hl]


/-! ## comma-separated layers -/


def NoComma (seg : List Tok) : Prop := ∀ t ∈ seg, isComma t = false

theorem isComma_iff (t : Tok) : isComma t = (t.tt == .comma) := rfl

theorem splitC_spec (vs : List Tok) :
    splitCommas vs = (splitC vs).1 :: (splitC vs).2.map (·.2) := by
  induction vs with
  | nil => rfl
  | cons t r ih =>
    simp only [splitCommas, splitC]
    rw [ih]
    simp only [isComma_iff]
    by_cases h : (t.tt == TT.comma) = true
    · simp [h]
    · simp [h]

theorem splitC_noComma (vs : List Tok) :
    NoComma (splitC vs).1 ∧ ∀ p ∈ (splitC vs).2, isComma p.1 = true ∧ NoComma p.2 := by
  induction vs with
  | nil => simp [splitC, NoComma]
  | cons t r ih =>
    simp only [splitC]
    by_cases hc : isComma t = true
    · simp only [hc, if_true]
      refine ⟨by simp [NoComma], ?_⟩
      intro p hp
      rcases List.mem_cons.mp hp with e | e
      · subst e; exact ⟨hc, ih.1⟩
      · exact ih.2 p e
    · have hc' : isComma t = false := by simpa using hc
      simp only [hc', Bool.false_eq_true, if_false]
      refine ⟨?_, ih.2⟩
      intro x hx
      rcases List.mem_cons.mp hx with e | e
      · subst e; exact hc'
      · exact ih.1 x e

theorem splitC_append_noComma (s : List Tok) (hs : NoComma s) (r : List Tok) :
    splitC (s ++ r) = (s ++ (splitC r).1, (splitC r).2) := by
  induction s with
  | nil => simp
  | cons t s ih =>
    have ht : isComma t = false := hs t List.mem_cons_self
    have hs' : NoComma s := fun x hx => hs x (List.mem_cons_of_mem _ hx)
    simp only [List.cons_append, splitC, ih hs', ht, Bool.false_eq_true, if_false]

theorem splitC_joinC (s : List Tok) (rest : List (Tok × List Tok)) (hs : NoComma s)
    (hr : ∀ p ∈ rest, isComma p.1 = true ∧ NoComma p.2) : splitC (joinC (s, rest)) = (s, rest) := by
  induction rest generalizing s with
  | nil =>
    have := splitC_append_noComma s hs []
    simpa [joinC, splitC] using this
  | cons p rest ih =>
    obtain ⟨c, seg⟩ := p
    have hp := hr (c, seg) List.mem_cons_self
    have hrest : ∀ p ∈ rest, isComma p.1 = true ∧ NoComma p.2 := fun p hp => hr p (List.mem_cons_of_mem _ hp)
    have := ih seg hp.2 hrest
    simp only [joinC, List.flatMap_cons] at this ⊢
    rw [splitC_append_noComma s hs]
    simp only [List.cons_append, splitC, this, hp.1, if_true, List.append_nil]

/-- layers of `mapSeg f vs` = `f` applied to the non-empty layers of `vs`, provided `f` creates no comma -/
theorem mapSeg_layers (f : List Tok → List Tok) (hf : ∀ seg, NoComma seg → NoComma (f seg)) (vs : List Tok) :
    splitCommas (mapSeg f vs) = (splitCommas vs).map (onLayer f) := by
  have h := splitC_noComma vs
  have hon : ∀ seg, NoComma seg → NoComma (onLayer f seg) := by
    intro seg hs
    unfold onLayer
    split
    · simp [NoComma]
    · exact hf seg hs
  rw [splitC_spec, splitC_spec vs]
  unfold mapSeg
  rw [splitC_joinC]
  · simp [List.map_map, Function.comp_def]
  · exact hon _ h.1
  · intro p hp
    obtain ⟨q, hq, rfl⟩ := List.mem_map.mp hp
    exact ⟨(h.2 q hq).1, hon _ (h.2 q hq).2⟩

theorem layers_congr {α : Type} (d : List Tok → α) (f : List Tok → List Tok)
    (hf : ∀ seg, NoComma seg → NoComma (f seg)) (vs : List Tok)
    (h : ∀ seg ∈ splitCommas vs, d (onLayer f seg) = d seg) :
    (splitCommas (mapSeg f vs)).map d = (splitCommas vs).map d := by
  rw [mapSeg_layers f hf, List.map_map]
  exact List.map_congr_left h

theorem noComma_sub (a b : List Tok) (h : ∀ t ∈ a, t ∈ b) (hb : NoComma b) : NoComma a :=
  fun t ht => hb t (h t ht)

theorem bgSizeSeg_noComma (seg : List Tok) (h : NoComma seg) : NoComma (bgSizeSeg seg) := by
  unfold bgSizeSeg
  split
  · split
    · exact noComma_sub _ _ (by intro t ht; simp at ht; subst ht; simp) h
    · exact h
  · exact h

theorem bgSize_layer (seg : List Tok) : bgSize (onLayer bgSizeSeg seg) = bgSize seg := by
  unfold onLayer
  split
  · rename_i h; simp at h; subst h; rfl
  · unfold bgSizeSeg
    split
    · rename_i x0 a b hne0
      split
      · rename_i hb
        have hb' : identOf b = S "auto" := by simpa using hb
        obtain ⟨h1, h2⟩ := identOf_eq b _ (by decide) hb'
        have hbt : (b.tt == TT.ident) = true := by simp [h1]
        simp only [bgSize, List.map_cons, List.map_nil, hbt, if_true, h2]
        rfl
      · rfl
    · rfl

theorem bgRepeatSeg_noComma (seg : List Tok) (h : NoComma seg) : NoComma (bgRepeatSeg seg) := by
  unfold bgRepeatSeg
  split
  · rename_i a b
    have ha : isComma a = false := h a (by simp)
    split
    · split
      · exact noComma_sub _ _ (by intro t ht; simp at ht; subst ht; simp) h
      · split
        · intro t ht; simp at ht; subst ht; rfl
        · split
          · intro t ht; simp at ht; subst ht; rfl
          · exact h
    · exact h
  · exact h

theorem kwOf_of_ident (t : Tok) (k : List Char) (h1 : t.tt = .ident) (h2 : lower t.data = k) : kwOf t = some k := by
  simp [kwOf, h1, h2]

theorem repeat_not_xy : ∀ k ∈ repeatKeywords, (k == "repeat-x".toList) = false ∧ (k == "repeat-y".toList) = false ∧ known k = k := by
  decide

theorem bgRepeat_single (a : Tok) (k : List Char) (hk : kwOf a = some k) (hin : repeatKeywords.contains k = true) :
    bgRepeat [a] = some (k, k) := by
  obtain ⟨hx, hy, _⟩ := repeat_not_xy k (by simpa using hin)
  simp only [bgRepeat, hk, hx, hy, hin, Bool.false_eq_true, if_false, if_true]

theorem bgRepeat_pair (a b : Tok) (x y : List Char) (hx : kwOf a = some x) (hy : kwOf b = some y) :
    bgRepeat [a, b] = if repeatKeywords.contains x && repeatKeywords.contains y then some (x, y) else none := by
  simp only [bgRepeat, hx, hy]

theorem bgRepeat_x (args : List Tok) : bgRepeat [Tok.mk .ident (S "repeat-x") args] = some (S "repeat", S "no-repeat") := by
  simp only [bgRepeat, kwOf, Tok.tt, Tok.data]; rfl
theorem bgRepeat_y (args : List Tok) : bgRepeat [Tok.mk .ident (S "repeat-y") args] = some (S "no-repeat", S "repeat") := by
  simp only [bgRepeat, kwOf, Tok.tt, Tok.data]; rfl

theorem bgRepeat_layer (seg : List Tok) (d : List Char × List Char) (hv : bgRepeat seg = some d) :
    bgRepeat (onLayer bgRepeatSeg seg) = some d := by
  unfold onLayer
  split
  · rename_i h; simp at h; subst h; exact hv
  · unfold bgRepeatSeg
    split
    · rename_i x0 a b hne0
      split
      · rename_i hid
        simp only [Bool.and_eq_true, beq_iff_eq] at hid
        have ka := kwOf_of_ident a _ hid.1 rfl
        have kb := kwOf_of_ident b _ hid.2 rfl
        rw [bgRepeat_pair a b _ _ ka kb] at hv
        split at hv
        · rename_i hin
          simp only [Bool.and_eq_true] at hin
          have hd := (Option.some.inj hv).symm
          subst hd
          have ia : identOf a = known (lower a.data) := by simp [identOf, hid.1]
          have ib : identOf b = known (lower b.data) := by simp [identOf, hid.2]
          have e1 := (repeat_not_xy _ (by simpa using hin.1)).2.2
          have e2 := (repeat_not_xy _ (by simpa using hin.2)).2.2
          split
          · -- equal hashes: both are repeat keywords the hash table knows, so the lexemes agree
            rename_i he
            have he' : identOf a = identOf b := by simpa using he
            rw [ia, ib, e1, e2] at he'
            rw [bgRepeat_single a _ ka hin.1, he']
          · split
            · rename_i hrn
              simp only [Bool.and_eq_true, beq_iff_eq] at hrn
              obtain ⟨_, ea⟩ := identOf_eq a _ (by decide) hrn.1
              obtain ⟨_, eb⟩ := identOf_eq b _ (by decide) hrn.2
              rw [ea, eb, bgRepeat_x]
            · split
              · rename_i hnr
                simp only [Bool.and_eq_true, beq_iff_eq] at hnr
                obtain ⟨_, ea⟩ := identOf_eq a _ (by decide) hnr.1
                obtain ⟨_, eb⟩ := identOf_eq b _ (by decide) hnr.2
                rw [ea, eb, bgRepeat_y]
              · rw [bgRepeat_pair a b _ _ ka kb, hin.1, hin.2]; rfl
        · exact absurd hv (by simp)
      · exact hv
    · exact hv


/-! ## flex -/


/-- `Token.IsZero` is sound on a token: a numeric lexeme that starts with `0` denotes zero (output shape of the
    number minifier, C08.5, plus the lexer's number/unit split — a contract) -/
def ZeroSound (t : Tok) : Prop := isZero t = true → ∃ n, numOf t = some n ∧ n.isZero = true

theorem isZero_tt (t : Tok) (h : isZero t = true) : t.tt = .dimension ∨ t.tt = .percentage ∨ t.tt = .number := by
  simp only [isZero, Bool.and_eq_true, Bool.or_eq_true, beq_iff_eq] at h
  rcases h.1 with (h1 | h1) | h1
  · exact Or.inl h1
  · exact Or.inr (Or.inl h1)
  · exact Or.inr (Or.inr h1)

theorem isKw_false (t : Tok) (s : String) (h : t.tt ≠ .ident) : isKw t s = false := by
  simp [isKw, kwOf, h]

theorem basisOf_zero (b : Tok) (hz : ZeroSound b) (h : isZero b = true) : basisOf b = some .zero := by
  obtain ⟨n, hn, hn0⟩ := hz h
  have htt := isZero_tt b h
  have hni : b.tt ≠ .ident := by rcases htt with e | e | e <;> simp [e]
  have hnf : (b.tt == TT.function) = false := by rcases htt with e | e | e <;> simp [e]
  simp only [basisOf, isKw_false b _ hni, Bool.false_eq_true, if_false, hnf, hn]
  cases n with
  | number q => simp only [Num.isZero] at hn0; simp [hn0]
  | percentage q => simp only [Num.isZero] at hn0; simp [hn0]
  | dimension q u => simp only [Num.isZero] at hn0; simp [hn0]

theorem numVal0 : numVal ['0'] = some 0 := by decide +kernel
theorem numVal1 : numVal ['1'] = some 1 := by decide +kernel

theorem flexNum_number (a : Tok) (h : a.tt = .number) : flexNum a = numVal a.data := by
  simp [flexNum, h]
theorem flexNum_other (a : Tok) (h : a.tt ≠ .number) : flexNum a = none := by
  simp [flexNum, h]

theorem flexTriple_single (a : Tok) (g : Rat) (h : a.tt = .number) (hg : numVal a.data = some g) :
    flexTriple [a] = some (g, 1, Basis.zero) := by
  have hni : a.tt ≠ .ident := by simp [h]
  simp only [flexTriple, isKw_false a _ hni, Bool.false_eq_true, if_false, flexNum_number a h, hg]

theorem flexTriple_kw (s : String) (args : List Tok) :
    flexTriple [Tok.mk .ident s.toList args] =
      (if lower s.toList == "none".toList then some (0, 0, Basis.auto)
       else if lower s.toList == "auto".toList then some (1, 1, Basis.auto)
       else if lower s.toList == "initial".toList then some (0, 1, Basis.auto)
       else flexTriple [Tok.mk .ident s.toList args]) := by
  simp only [flexTriple, isKw, kwOf, Tok.tt, Tok.data, beq_self_eq_true, if_true]
  split
  · rename_i h; simp at h; simp [h]
  · rename_i h1
    split
    · rename_i h; simp at h; simp [h]
    · rename_i h2
      split
      · rename_i h; simp at h; simp [h]
      · rename_i h3
        simp at h1 h2 h3
        simp [h1, h2, h3]


/-! ## line shorthands -/


theorem filter_map_filter {α β : Type} (f : α → β) (keep : α → Bool) (P : β → Bool) (l : List α)
    (h : ∀ x ∈ l, keep x = false → P (f x) = false) :
    ((l.filter keep).map f).filter P = (l.map f).filter P := by
  induction l with
  | nil => rfl
  | cons a r ih =>
    have ih' := ih (fun x hx => h x (List.mem_cons_of_mem _ hx))
    by_cases hk : keep a = true
    · simp only [List.filter_cons, hk, if_true, List.map_cons]
      split <;> simp [ih']
    · have hk' : keep a = false := by simpa using hk
      have := h a List.mem_cons_self hk'
      simp only [List.filter_cons, hk', Bool.false_eq_true, if_false, List.map_cons, this, ih']

/-- whole-table check: in each shorthand every dropped keyword is the initial value of the component it sets,
    and a lone `none` sets every component to its initial value -/
theorem drop_table_ok : ∀ p ∈ lineDropTable,
    (∀ k ∈ p.2, k ≠ [] ∧ slotInitial p.1 (slotOf p.1 (Tok.mk .ident k [])) = Tok.mk .ident k []) ∧
    (∀ s ∈ [Slot.width, .style, .color, .line], slotVal p.1 [tIdent (S "none")] s = [slotInitial p.1 s]) := by
  decide +kernel

theorem lowerIdent_of_ident (t : Tok) (k : List Char) (h1 : t.tt = .ident) (h2 : lower t.data = k) :
    lowerIdent t = Tok.mk .ident k [] := by
  simp [lowerIdent, h1, h2]

theorem slotVal_drop (prop : List Char) (kws : List (List Char)) (hp : (prop, kws) ∈ lineDropTable)
    (vs : List Tok) (s : Slot) (hs : s ∈ [Slot.width, .style, .color, .line]) :
    slotVal prop (dropOnly kws vs) s = slotVal prop vs s := by
  obtain ⟨hk, hnone⟩ := drop_table_ok _ hp
  simp only at hk hnone
  -- the tokens that are dropped do not contribute to any component
  have hdrop : ∀ x ∈ vs, (!kws.contains (identOf x)) = false →
      (slotOf prop (lowerIdent x) == s && lowerIdent x != slotInitial prop s) = false := by
    intro x _ hx
    have hx' : identOf x ∈ kws := by simpa using hx
    obtain ⟨hne, hinit⟩ := hk _ hx'
    obtain ⟨h1, h2⟩ := identOf_eq x _ hne rfl
    rw [lowerIdent_of_ident x _ h1 h2]
    by_cases hsl : slotOf prop (Tok.mk .ident (identOf x) []) = s
    · subst hsl
      rw [hinit]
      simp
    · have : (slotOf prop (Tok.mk .ident (identOf x) []) == s) = false := by simpa using hsl
      simp [this]
  have hfil := filter_map_filter lowerIdent (fun t => !kws.contains (identOf t))
    (fun t => slotOf prop t == s && t != slotInitial prop s) vs hdrop
  unfold dropOnly
  simp only
  split
  · -- everything was dropped
    rename_i hemp
    have hemp' : vs.filter (fun t => !kws.contains (identOf t)) = [] := by simpa using hemp
    rw [hnone s hs]
    simp only [slotVal]
    rw [← hfil, hemp']
    rfl
  · simp only [slotVal]
    rw [hfil]

theorem minifyColor_none : minifyColor (tIdent (S "none")) = tIdent (S "none") := by decide

/-! ## unicode-range -/

def inR (c : Nat) (r : Nat × Nat) : Bool := r.1 ≤ c && c ≤ r.2

theorem cpm_cons (c : Nat) (r : Nat × Nat) (l : List (Nat × Nat)) :
    codePointMem c (r :: l) = (inR c r || codePointMem c l) := by
  simp [codePointMem, inR]

theorem cpm_nil (c : Nat) : codePointMem c [] = false := rfl

theorem cpm_insert (c : Nat) (x : Nat × Nat) (l : List (Nat × Nat)) :
    codePointMem c (insertRange x l) = (inR c x || codePointMem c l) := by
  induction l with
  | nil => simp [insertRange, cpm_cons]
  | cons y r ih =>
    simp only [insertRange]
    split
    · simp [cpm_cons]
    · simp only [cpm_cons, ih]
      cases inR c x <;> cases inR c y <;> simp

theorem cpm_foldl_insert (c : Nat) (l acc : List (Nat × Nat)) :
    codePointMem c (l.foldl (fun acc x => insertRange x acc) acc) = (codePointMem c l || codePointMem c acc) := by
  induction l generalizing acc with
  | nil => simp [cpm_nil]
  | cons x r ih =>
    simp only [List.foldl_cons, ih, cpm_insert, cpm_cons]
    cases inR c x <;> cases codePointMem c r <;> simp

theorem cpm_sort (c : Nat) (l : List (Nat × Nat)) : codePointMem c (sortRanges l) = codePointMem c l := by
  simp [sortRanges, cpm_foldl_insert, cpm_nil]

/-- starts are non-decreasing -/
def SortedR : List (Nat × Nat) → Prop
  | [] => True
  | a :: r => (∀ b ∈ r, a.1 ≤ b.1) ∧ SortedR r

theorem sorted_insert (x : Nat × Nat) (l : List (Nat × Nat)) (h : SortedR l) : SortedR (insertRange x l) := by
  induction l with
  | nil => simp [insertRange, SortedR]
  | cons y r ih =>
    simp only [insertRange]
    split
    · rename_i hlt
      refine ⟨?_, h⟩
      intro b hb
      rcases List.mem_cons.mp hb with e | e
      · subst e; omega
      · have := h.1 b e; omega
    · rename_i hge
      refine ⟨?_, ih h.2⟩
      intro b hb
      -- members of insertRange x r are x or members of r
      have hmem : ∀ (l : List (Nat × Nat)) b, b ∈ insertRange x l → b = x ∨ b ∈ l := by
        intro l
        induction l with
        | nil => intro b hb; simp [insertRange] at hb; exact Or.inl hb
        | cons z t iht =>
          intro b hb
          simp only [insertRange] at hb
          split at hb
          · rcases List.mem_cons.mp hb with e | e
            · exact Or.inl e
            · exact Or.inr e
          · rcases List.mem_cons.mp hb with e | e
            · exact Or.inr (by rw [e]; exact List.mem_cons_self)
            · rcases iht b e with e' | e'
              · exact Or.inl e'
              · exact Or.inr (List.mem_cons_of_mem _ e')
      rcases hmem r b hb with e | e
      · subst e; omega
      · exact h.1 b e

theorem sorted_foldl (l acc : List (Nat × Nat)) (h : SortedR acc) :
    SortedR (l.foldl (fun acc x => insertRange x acc) acc) := by
  induction l generalizing acc with
  | nil => exact h
  | cons x r ih => exact ih _ (sorted_insert x acc h)

theorem sorted_sort (l : List (Nat × Nat)) : SortedR (sortRanges l) := sorted_foldl l [] trivial

theorem cpm_mergeInto (c : Nat) (a : Nat × Nat) (r : List (Nat × Nat))
    (ha : ∀ b ∈ r, a.1 ≤ b.1) (hs : SortedR r) :
    codePointMem c (mergeInto a r) = (inR c a || codePointMem c r) := by
  induction r generalizing a with
  | nil => simp [mergeInto, cpm_cons, cpm_nil]
  | cons b r ih =>
    have hab := ha b List.mem_cons_self
    simp only [mergeInto]
    split
    · -- b inside a
      rename_i hin
      rw [ih a (fun x hx => ha x (List.mem_cons_of_mem _ hx)) hs.2, cpm_cons]
      have : inR c b = true → inR c a = true := by
        simp only [inR, Bool.and_eq_true, decide_eq_true_eq]; omega
      cases h1 : inR c a <;> cases h2 : inR c b <;> simp_all
    · split
      · -- overlap or adjacency
        rename_i hnin hov
        rw [ih (a.1, b.2) (fun x hx => by have := hs.1 x hx; simp; omega) hs.2, cpm_cons]
        have : inR c (a.1, b.2) = (inR c a || inR c b) := by
          simp only [inR]
          by_cases h1 : a.1 ≤ c <;> by_cases h2 : c ≤ a.2 <;> by_cases h3 : b.1 ≤ c <;> by_cases h4 : c ≤ b.2 <;>
            simp [h1, h2, h3, h4] <;> omega
        rw [this]
        cases inR c a <;> cases inR c b <;> simp
      · rw [cpm_cons, ih b hs.1 hs.2, cpm_cons]


/-! ## writer -/

theorem writeArg_fn_last (t : Tok) (h : t.tt = .function) : (writeArg t).getLast? = some ')' := by
  obtain ⟨tt, data, args⟩ := t
  simp only [Tok.tt] at h
  subst h
  simp [writeArg]

theorem writeArg_data (t : Tok) (h : t.tt ≠ .function) : writeArg t = t.data := by
  obtain ⟨tt, data, args⟩ := t
  simp only [Tok.tt, ne_eq] at h
  simp [writeArg, Tok.data, h]

theorem writeArg_head (t : Tok) (hs : t.data ≠ []) : (writeArg t).head? = t.data.head? := by
  obtain ⟨tt, data, args⟩ := t
  simp only [Tok.data] at hs
  cases data with
  | nil => exact absurd rfl hs
  | cons c r => simp [writeArg, Tok.data]

theorem slash_data (p : Tok) (hp : TokShape p) (h : Verif.Model.Css.isSlash p = true) : p.data = ['/'] := by
  simp only [Verif.Model.Css.isSlash, Bool.and_eq_true, beq_iff_eq] at h
  have hl := hp.2.1 h.1
  cases hd : p.data with
  | nil => rw [hd] at hl; simp at hl
  | cons c r =>
    rw [hd] at hl h
    cases r with
    | nil => simp at h; rw [h.2]
    | cons _ _ => simp at hl

theorem safe_of_sepAfter (p t : Tok) (hp : TokShape p) (ht : TokShape t) (hs : sepAfter p = true)
    (hc : (p.tt == .delim && opensComment p.data t.data) = false) : safeBoundary (writeArg p) (writeArg t) = true := by
  have hth := writeArg_head t ht.2.2.2
  simp only [sepAfter, Bool.or_eq_true, beq_iff_eq] at hs
  rcases hs with ((h | h) | h) | h
  · -- comma
    have hne : p.tt ≠ .function := by simp [h]
    rw [writeArg_data p hne, hp.1 h]
    simp [safeBoundary]
  · -- slash
    have hd := slash_data p hp h
    have htt : p.tt = .delim := by
      simp only [Verif.Model.Css.isSlash, Bool.and_eq_true, beq_iff_eq] at h; exact h.1
    have hne : p.tt ≠ .function := by simp [htt]
    rw [writeArg_data p hne, hd]
    simp only [htt, beq_self_eq_true, Bool.true_and, opensComment, hd] at hc
    simp only [safeBoundary, hth]
    simp at hc ⊢
    exact hc
  · -- function
    simp [safeBoundary, writeArg_fn_last p h]
  · -- url
    have hne : p.tt ≠ .function := by simp [h]
    rw [writeArg_data p hne]
    simp [safeBoundary, hp.2.2.1 h]

theorem safe_of_sep_token (p t : Tok) (ht : TokShape t)
    (h : t.tt = .comma ∨ Verif.Model.Css.isSlash t = true) : safeBoundary (writeArg p) (writeArg t) = true := by
  rcases h with h | h
  · have hne : t.tt ≠ .function := by simp [h]
    rw [writeArg_data t hne, ht.1 h]
    simp [safeBoundary]
  · have hd := slash_data t ht h
    have htt : t.tt = .delim := by
      simp only [Verif.Model.Css.isSlash, Bool.and_eq_true, beq_iff_eq] at h; exact h.1
    have hne : t.tt ≠ .function := by simp [htt]
    rw [writeArg_data t hne, hd]
    simp [safeBoundary]

theorem writer_joined (p : Tok) (r : List Tok) (hp : TokShape p) (hr : ∀ t ∈ r, TokShape t) :
    Joined (writeArg p :: r.map writeArg) (writeArg p ++ writeVals (some p) (sepAfter p) r) := by
  induction r generalizing p with
  | nil => simpa [writeVals] using Joined.single (writeArg p)
  | cons t r ih =>
    have ht := hr t List.mem_cons_self
    have ih' := ih t ht (fun x hx => hr x (List.mem_cons_of_mem _ hx))
    simp only [List.map_cons, writeVals]
    split
    · -- a space is written
      simpa using Joined.space (writeArg p) (writeArg t) (r.map writeArg) _ ih'
    · rename_i hns
      split
      · simpa using Joined.space (writeArg p) (writeArg t) (r.map writeArg) _ ih'
      · rename_i hnc
        have hnc' : (p.tt == .delim && opensComment p.data t.data) = false := by simpa using hnc
        have hsafe : safeBoundary (writeArg p) (writeArg t) = true := by
          by_cases hsa : sepAfter p = true
          · exact safe_of_sepAfter p t hp ht hsa hnc'
          · apply safe_of_sep_token p t ht
            simp only [Bool.and_eq_true, Bool.not_eq_true', bne_iff_ne, ne_eq, not_and, Bool.not_eq_false] at hns
            have hsa' : sepAfter p = false := by simpa using hsa
            by_cases hcm : t.tt = .comma
            · exact Or.inl hcm
            · right
              exact hns ⟨hsa', hcm⟩
        simpa using Joined.tight (writeArg p) (writeArg t) (r.map writeArg) _ hsafe ih'


end Verif.Proofs.Css

import Verif.Model.Css
/-!
# Helper lemmas for the C04 property theorems (`Verif.Props.C04`)
-/
set_option maxRecDepth 100000
namespace Verif.Proofs.Css
open Verif.Spec.CssValue Verif.Model.Css Verif.Gen.C04Tables

/-! ## zero units -/

theorem unit_len : ∀ dim ∈ cssUnits, dim.length ≤ 5 := by decide

/-- whole-table check (regenerated `optionalZeroDimension` × every CSS unit × every aliasing offset): the
    unit bytes the zero cut looks at are in the table only if the real unit is a length or an angle -/
theorem aliased_small : ∀ dim ∈ cssUnits, ∀ d ∈ List.range 6,
    optionalZeroDimension.contains (aliasedDim dim d) = true →
      (lengthUnits.contains dim || angleUnits.contains dim) = true := by
  decide +kernel

theorem aliased_unit (dim : List Char) (d : Nat) (hu : dim ∈ cssUnits)
    (h : optionalZeroDimension.contains (aliasedDim dim d) = true) :
    (lengthUnits.contains dim || angleUnits.contains dim) = true := by
  by_cases hd : d < 6
  · exact aliased_small dim hu d (List.mem_range.mpr hd) h
  · have hl := unit_len dim hu
    have : aliasedDim dim d = dim := by
      unfold aliasedDim
      have : (d == 0 || decide (dim.length ≤ d)) = true := by
        simp; omega
      simp [this]
    rw [this] at h
    exact aliased_small dim hu 0 (by decide) (by simpa [aliasedDim] using h)

theorem unit_head : ∀ dim ∈ cssUnits, dim.head? ≠ some '0' := by decide
theorem lex_zero : numOfLexeme ['0'] = some (.number 0) := by decide +kernel
theorem lex_zero_unit : ∀ dim ∈ cssUnits, numOfLexeme ('0' :: dim) = some (.dimension 0 dim) := by
  decide +kernel

/-! ## colours -/

theorem hexDigit_lower (c : Char) : hexDigit? (lowerChar c) = hexDigit? c := by
  unfold lowerChar
  split <;> rfl

theorem lowerChar_idem (c : Char) : lowerChar (lowerChar c) = lowerChar c := by
  have h : ∀ d, lowerChar c = d → lowerChar d = d := by
    intro d hd
    unfold lowerChar at hd
    split at hd <;> (subst hd; try rfl)
    unfold lowerChar
    split <;> first | rfl | simp_all
  exact h _ rfl

theorem lower_idem (s : List Char) : lower (lower s) = lower s := by
  simp [lower, List.map_map, Function.comp_def, lowerChar_idem]

theorem isHex_lower (c : Char) : isHexDigit (lowerChar c) = isHexDigit c := by
  simp [isHexDigit, hexDigit_lower]
theorem hexVal_lower (c : Char) : hexDigitVal (lowerChar c) = hexDigitVal c := by
  simp [hexDigitVal, hexDigit_lower]

theorem hexColor_lower (ds : List Char) : hexColor (lower ds) = hexColor ds := by
  unfold hexColor
  have h1 : (lower ds).all isHexDigit = ds.all isHexDigit := by
    simp [lower, List.all_map, Function.comp_def, isHex_lower]
  have h2 : (lower ds).map hexDigitVal = ds.map hexDigitVal := by
    simp [lower, List.map_map, Function.comp_def, hexVal_lower]
  rw [h1, h2]

theorem name_table_ok : ∀ p ∈ shortenColorName, hexColor (p.2.drop 1) = namedColor p.1 ∧ p.1 ≠ [] := by
  decide +kernel
theorem hex_table_ok : ∀ p ∈ shortenColorHex, namedColor p.2 = hexColor (p.1.drop 1) := by
  decide +kernel

theorem lookup_mem {β : Type} (l : List (List Char × β)) (k : List Char) (v : β)
    (h : l.lookup k = some v) : (k, v) ∈ l := by
  induction l with
  | nil => simp [List.lookup] at h
  | cons p r ih =>
    obtain ⟨a, b⟩ := p
    simp only [List.lookup] at h
    split at h
    · rename_i heq
      have : k = a := by simpa using heq
      subst this
      have : b = v := by simpa using h
      subst this
      exact List.mem_cons_self
    · exact List.mem_cons_of_mem _ (ih h)

theorem alpha_ff : (((16 * 15 + 15 : Nat) : Rat) / 255) = 1 := by decide +kernel

theorem hexColor_trimAlpha (data : List Char) (hg : hexAlpha00 data = false) :
    hexColor ((trimAlpha data).drop 1) = hexColor (data.drop 1) := by
  unfold trimAlpha
  split
  · rename_i h a b c d e f x y
    split
    · rename_i hxy
      have hxy' : x = y := by simpa using hxy
      subst hxy'
      split
      · rename_i hf
        have : x = 'f' := by simpa using hf
        subst this
        simp only [List.drop, hexColor, List.all_cons, List.all_nil, List.map]
        have hfhex : isHexDigit 'f' = true := by decide
        have hfv : hexDigitVal 'f' = 15 := by decide
        simp only [hfhex, hfv, Bool.and_true, alpha_ff]
      · split
        · rename_i h0
          have : x = '0' := by simpa using h0
          subst this
          simp only [hexAlpha00, beq_self_eq_true, Bool.true_and, Bool.not_eq_false', List.all_cons, List.all_nil,
            Bool.and_true, Bool.and_eq_true, beq_iff_eq] at hg
          obtain ⟨ha, hb, hc, hd, he, hf⟩ := hg
          subst ha hb hc hd he hf
          show hexColor ['0','0','0','0'] = hexColor ['0','0','0','0','0','0','0','0']
          decide +kernel
        · rfl
    · rfl
  · rfl


theorem hexColor_shortHex (data : List Char) :
    hexColor ((shortHex data).drop 1) = hexColor (data.drop 1) := by
  unfold shortHex
  split
  · rename_i h a a' b b' c c'
    split
    · rename_i hp
      simp only [Bool.and_eq_true, beq_iff_eq] at hp
      obtain ⟨⟨h1, h2⟩, h3⟩ := hp
      subst h1 h2 h3
      simp only [List.drop, hexColor, List.all_cons, List.all_nil, List.map, Bool.and_true, Bool.and_self]
      have e : ∀ x : Nat, 16 * x + x = 17 * x := by intro x; omega
      simp only [e]
      cases isHexDigit a <;> cases isHexDigit b <;> cases isHexDigit c <;> rfl
    · rfl
  · rename_i h a a' b b' c c' d d'
    split
    · rename_i hp
      simp only [Bool.and_eq_true, beq_iff_eq] at hp
      obtain ⟨⟨⟨h1, h2⟩, h3⟩, h4⟩ := hp
      subst h1 h2 h3 h4
      simp only [List.drop, hexColor, List.all_cons, List.all_nil, List.map, Bool.and_true, Bool.and_self]
      have e : ∀ x : Nat, 16 * x + x = 17 * x := by intro x; omega
      simp only [e]
      cases isHexDigit a <;> cases isHexDigit b <;> cases isHexDigit c <;> cases isHexDigit d <;> rfl
    · rfl
  · rfl

theorem known_eq (s : List Char) : known s = s ∨ known s = [] := by
  unfold known; split <;> simp

theorem namedColor_lower (s : List Char) : namedColor (lower s) = namedColor s := by
  simp [namedColor, lower_idem]


/-! ## fonts -/

theorem identOf_eq (t : Tok) (k : List Char) (hk : k ≠ []) (h : identOf t = k) :
    t.tt = .ident ∧ lower t.data = k := by
  unfold identOf at h
  split at h
  · rename_i htt
    refine ⟨by simpa using htt, ?_⟩
    rcases known_eq (lower t.data) with e | e
    · rw [e] at h; exact h
    · rw [e] at h; exact absurd h.symm hk
  · exact absurd h.symm hk

theorem fw400 : fontWeightVal (tNum (S "400")) = some (.abs 400) := by decide +kernel
theorem fw700 : fontWeightVal (tNum (S "700")) = some (.abs 700) := by decide +kernel

theorem fw_kw (t : Tok) (k : List Char) (w : Rat) (h1 : t.tt = .ident) (h2 : lower t.data = k)
    (hk : (if k == "normal".toList then some (Weight.abs 400) else if k == "bold".toList then some (Weight.abs 700)
           else some (Weight.kw k)) = some (Weight.abs w)) : fontWeightVal t = some (.abs w) := by
  obtain ⟨tt, data, args⟩ := t
  simp only [Tok.tt, Tok.data] at h1 h2
  subst h1
  simp only [fontWeightVal, Tok.tt, Tok.data, h2]
  exact hk


theorem splitOn_ne_nil (c : Char) (s : List Char) : splitOn c s ≠ [] := by
  cases s with
  | nil => simp [splitOn]
  | cons x r =>
    simp only [splitOn]
    split
    · simp
    · split <;> simp

theorem splitOn_join (s : List Char) : joinSpace (splitOn ' ' s) = s := by
  induction s with
  | nil => rfl
  | cons x r ih =>
    simp only [splitOn]
    split
    · rename_i h; exact absurd h (splitOn_ne_nil _ _)
    · rename_i h t heq
      rw [heq] at ih
      split
      · rename_i hx
        have : x = ' ' := by simpa using hx
        subst this
        simp only [joinSpace]
        rw [← ih]
        cases t <;> simp [joinSpace]
      · cases t with
        | nil => simp [joinSpace] at ih ⊢; exact ih
        | cons t1 t2 => simp [joinSpace] at ih ⊢; exact ih

theorem lowerChar_space (c : Char) : (lowerChar c == ' ') = (c == ' ') := by
  unfold lowerChar
  split <;> first | rfl | decide

theorem splitOn_lower (s : List Char) : splitOn ' ' (lower s) = (splitOn ' ' s).map lower := by
  induction s with
  | nil => rfl
  | cons x r ih =>
    simp only [lower, List.map_cons, splitOn] at ih ⊢
    rw [ih]
    cases h : splitOn ' ' r with
    | nil => exact absurd h (splitOn_ne_nil _ _)
    | cons a t =>
      simp only [List.map_cons, lowerChar_space]
      split <;> simp [lower]

theorem lower_joinSpace (ws : List (List Char)) : lower (joinSpace ws) = joinSpace (ws.map lower) := by
  induction ws with
  | nil => rfl
  | cons a r ih =>
    cases r with
    | nil => simp [joinSpace]
    | cons b t =>
      simp only [joinSpace, List.map_cons] at ih ⊢
      simp only [lower, List.map_append, List.map_cons] at ih ⊢
      rw [ih]
      rfl

theorem dropEscNl_id (s : List Char) (h : s.contains '\\' = false) : dropEscNl s = s := by
  induction s with
  | nil => rfl
  | cons c r ih =>
    have hc : c ≠ '\\' := by
      intro e; subst e; simp at h
    have hr : r.contains '\\' = false := by
      simp only [List.contains_cons, Bool.or_eq_false_iff] at h
      exact h.2
    have := ih hr
    unfold dropEscNl
    split <;> simp_all

theorem lowerChar_eq_bs (c : Char) : lowerChar c = '\\' ↔ c = '\\' := by
  unfold lowerChar
  split <;> first | exact Iff.rfl | decide

theorem contains_bs_lower (s : List Char) : (lower s).contains '\\' = s.contains '\\' := by
  have : ('\\' ∈ lower s) ↔ ('\\' ∈ s) := by
    simp only [lower, List.mem_map]
    constructor
    · rintro ⟨c, hc, he⟩
      rw [(lowerChar_eq_bs c).mp he] at hc
      exact hc
    · intro h
      exact ⟨'\\', h, by decide⟩
  cases h1 : (lower s).contains '\\' <;> cases h2 : s.contains '\\' <;> simp_all

theorem ident_not_quote (w : List Char) (h : isIdentBytes w = true) :
    w.head? ≠ some '"' ∧ w.head? ≠ some '\'' := by
  cases w with
  | nil => simp
  | cons c r =>
    simp only [List.head?_cons, ne_eq, Option.some.injEq]
    constructor
    · intro e; subst e; simp [isIdentBytes, isLetter] at h
    · intro e; subst e; simp [isIdentBytes, isLetter] at h

theorem family_of_string (q : Char) (body : List Char) (args : List Tok) (hb : body.contains '\\' = false) :
    familyOf [strTok q body args] = some (.name (lower body)) := by
  have e := dropEscNl_id body hb
  have hm : ¬ '\\' ∈ body := by simpa using hb
  simp [familyOf, strTok, Tok.tt, Tok.data, e, hm]

theorem lower_quote (q : Char) (hq : q = '"' ∨ q = '\'') : lowerChar q = q := by
  rcases hq with h | h <;> subst h <;> rfl

theorem words_lower_fixed (lb : List Char) (hl : lower lb = lb) : (splitOn ' ' lb).map lower = splitOn ' ' lb := by
  rw [← splitOn_lower, hl]


end Verif.Proofs.Css

import Verif.Proofs.C09HtmlModelTag
import Verif.Proofs.C09HtmlModelRaw
import Verif.Proofs.C09HtmlModelComment
import Verif.Proofs.C09HtmlPieces
import Verif.Proofs.C09HtmlSecond
import Verif.Proofs.C09HtmlFlagship
import Verif.Proofs.C09HtmlSpecial
import Verif.Proofs.C09HtmlTextLt
import Verif.Props.C03
/-!
# C09 / HTML — property-level theorems

"What html.go writes is read by a tokenizer of the HTML standard (`Spec/C09HtmlTok.lean`) as what it meant, and is
accepted by the minifier again."  Lemmas: `Proofs/C09HtmlTok|Tag|StartTag|ModelTag|Raw|ModelRaw|Comment|ModelComment|
Pieces|Second.lean`.
-/
namespace Verif.Proofs.C09Html
open Verif.Spec.C09HtmlTok Verif.Spec.C09HtmlShape Verif.Spec.HtmlAttr Verif.Model.HtmlAttr Verif.Model.Html
open Verif.Proofs.C09HtmlTag Verif.Proofs.C09HtmlTok

/-! ## attribute values -/

/-- **html_attr_value_roundtrip** (lift of C03 `attr_roundtrip` / `unquoted_iff` into the tokenizer of the standard).
    For every tokenizer context `m`, tag under construction `t`, attribute name `n`, non-empty value `v`, original quote
    and must-quote flag (`KeepQuotes || isXML`): the bytes `EscapeAttrVal` writes are `wrap (raw, form)`; from the *before
    attribute value* state (right after `=`) they take the machine, emitting nothing, to the point `valueDone` where
    exactly the value `raw` has been read in that form; `raw` decodes (attribute-context character references) to what
    `v` decodes to; the form is unquoted exactly when no byte of `v` is white space, `"`, `'`, `=`, `<`, `>` or a backtick
    and quotes may be dropped — so every unquoted value written is a conforming one; and the value ends exactly where the
    emitted bytes end: a following space leads to the *before attribute name* state and a following `>` emits the tag,
    in both cases with the attribute `(n, raw, form)` appended. -/
theorem html_attr_value_roundtrip (m : M) (t : Tag) (n v : List Char) (q : Quote) (must : Bool) (hv : v ≠ []) :
    escapeAttrVal v q must = wrap (rawOf v q must) ∧ decodeAttr (rawOf v q must).1 = decodeAttr v ∧
    ((rawOf v q must).2 = .unquoted ↔ (v.all (fun c => !needsQuote c) && (!must || q = .none)) = true) ∧
    ((rawOf v q must).2 = .unquoted → (rawOf v q must).1 = v ∧ ∀ c ∈ v, isWs c = false ∧ unquotedBad c = false ∧ c ≠ '>') ∧
    runS (at_ m (.beforeAttrValue t n)) (escapeAttrVal v q must) = valueDone m t n (rawOf v q must) ∧
    runO (at_ m (.beforeAttrValue t n)) (escapeAttrVal v q must) = [] ∧
    step (valueDone m t n (rawOf v q must)) ' ' = (at_ m (.beforeAttrName (t.push n (rawOf v q must).1 (rawOf v q must).2)), []) ∧
    step (valueDone m t n (rawOf v q must)) '>' = emitTag m (t.push n (rawOf v q must).1 (rawOf v q must).2) false := by
  obtain ⟨h1, h2⟩ := machine_reads_value m t n v q must hv
  refine ⟨escapeAttrVal_eq v q must, rawOf_decode v q must, rawOf_unquoted_iff v q must, ?_, h1, h2, ?_, ?_⟩
  · intro hu
    rcases rawOf_form v q must with ⟨_, hr, hall⟩ | ⟨hf, _⟩ | ⟨hf, _⟩
    · refine ⟨hr, fun c hc => ?_⟩
      have := (List.all_eq_true.mp hall) c hc
      have hq : needsQuote c = false := by simpa using this
      have := Verif.Proofs.HtmlAttr.needsQuote_false hq
      simp only [needsQuote, Bool.or_eq_false_iff, decide_eq_false_iff_not] at hq
      refine ⟨?_, ?_, hq.1.2⟩
      · simp only [isWs, Bool.or_eq_false_iff, decide_eq_false_iff_not]
        exact ⟨⟨⟨⟨hq.1.1.1.1.1.1.1.1.1.1, hq.1.1.1.1.1.1.1.1.1.2⟩, hq.1.1.1.1.1.1.1.1.2⟩, hq.1.1.1.1.1.1.1.2⟩, hq.1.1.1.1.1.1.2⟩
      · simp only [unquotedBad, Bool.or_eq_false_iff, decide_eq_false_iff_not]
        exact ⟨⟨⟨⟨hq.1.1.1.1.1.2, hq.1.1.1.1.2⟩, hq.1.1.1.2⟩, hq.1.1.2⟩, hq.2⟩
    · rw [hf] at hu; cases hu
    · rw [hf] at hu; cases hu
  · generalize rawOf v q must = r
    obtain ⟨raw, f⟩ := r
    cases f <;> rfl
  · generalize rawOf v q must = r
    obtain ⟨raw, f⟩ := r
    cases f <;> rfl

/-- non-vacuity: a value with both quotes, a reference and a space -/
example : rawOf "a\"b'c &amp; d".toList .single true = ("a\"b&#39;c &amp; d".toList, .single) ∧
    rawOf "x/".toList .double false = ("x/".toList, .unquoted) := by decide

/-- the full statement about the plain attribute path of html.go (reference handling `attrVal0`, then `EscapeAttrVal`):
    the value that the tokenizer reads back decodes to what the INPUT value decoded to -/
def html_attr_written_value_full : Prop :=
  ∀ (val : List Char) (q : Quote) (must : Bool),
    decodeAttr (rawOf (attrVal0 false val) q must).1 = decodeAttr val

/-- **html_attr_written_value_partial** (the `&` ambiguity).  html.go decodes `&amp;` to `&` only where no character
    reference is formed with the text that follows: `parse.ReplaceEntities` keeps `&amp;` in front of an alphanumeric or
    `#`, and html.go's `hasReferenceGlue` leaves a value alone whose references would combine (`&amp;&#108;t;`; K-C03-1,
    fixed by 98b2a40).  With the guard of C03 `html_refs_preserved` — no hexadecimal reference ≥ 2^63 (K-C03-3, open) and no
    literal CR directly followed by a reference to LF (K-C03-13, open) — the raw value that the tokenizer reads from the
    written bytes decodes to the units the input value decoded to.  (C03's findings, referenced here, not new ones.) -/
theorem html_attr_written_value_partial (val : List Char) (q : Quote) (must : Bool)
    (g : Verif.Props.C03.htmlRefsTrigger val = false) :
    decodeAttr (rawOf (attrVal0 false val) q must).1 = decodeAttr val := by
  rw [rawOf_decode]
  exact Verif.Props.C03.html_refs_preserved val g

/-- **html_attr_written_value_counterexample** (K-C03-3): `&#x8000000000000041;` is written as `A` -/
theorem html_attr_written_value_counterexample : ¬ html_attr_written_value_full := by
  intro h
  have := h "&#x8000000000000041;".toList .double false
  rw [rawOf_decode] at this
  revert this
  decide +kernel

/-! ## start tags -/

/-- **html_start_tag_retokenises**: see `Verif.Proofs.C09HtmlTag.html_start_tag_retokenises` -/
theorem html_start_tag_retokenises : type_of% @Verif.Proofs.C09HtmlTag.html_start_tag_retokenises :=
  @Verif.Proofs.C09HtmlTag.html_start_tag_retokenises

/-- **html_start_tag_step**: the same at the level of `step`, with hypotheses on the lexer's token only
    (see `Verif.Proofs.C09HtmlSpecial.html_start_tag_step`) -/
theorem html_start_tag_step : type_of% @Verif.Proofs.C09HtmlSpecial.html_start_tag_step :=
  @Verif.Proofs.C09HtmlSpecial.html_start_tag_step

/-! ## raw-text elements -/

/-- **html_rawtext_end_stable_partial**: see `Verif.Proofs.C09HtmlRaw.html_rawtext_end_stable_partial` — for every
    option set, model state inside script / style / iframe / textarea, text token without an appropriate end tag (lexer contract `rawTextEndsAtEnd`; for script the output
    without `<!--`: the guard) and EVERY sub-minifier (html.go 1557146 re-lexes its result): what the model writes is read as
    character tokens byte for byte and the following `</tag>` ends the element. -/
theorem html_rawtext_end_stable_partial : type_of% @Verif.Proofs.C09HtmlRaw.html_rawtext_end_stable_partial :=
  @Verif.Proofs.C09HtmlRaw.html_rawtext_end_stable_partial

/-- **html_rawtext_end_stable_counterexample**: without the `<!--` guard the statement is false in script data (after
    `<!--<script>` the end tag only leaves the double-escaped state) — the mechanism behind K-C09-HTML-8. -/
theorem html_rawtext_end_stable_counterexample : ¬ Verif.Proofs.C09HtmlRaw.html_rawtext_end_stable_full :=
  Verif.Proofs.C09HtmlRaw.html_rawtext_end_stable_counterexample

/-- the machine-level statement behind it, for every RCDATA / RAWTEXT / script-data context -/
theorem html_rawtext_then_end_tag : type_of% @Verif.Proofs.C09HtmlRaw.raw_text_then_end_tag :=
  @Verif.Proofs.C09HtmlRaw.raw_text_then_end_tag

/-! ## comments -/

/-- **html_comment_closed_partial**: see `Verif.Proofs.C09HtmlComment.html_comment_closed_partial` — every comment the
    model writes for a lexer-shaped comment token (verbatim, or a conditional comment with its inside minified) is one
    comment token; guard: the text does not start with `>` / `->` (K-C09-HTML-1); no contract on the recursive result any more
    (3c66722). -/
theorem html_comment_closed_partial : type_of% @Verif.Proofs.C09HtmlComment.html_comment_closed_partial :=
  @Verif.Proofs.C09HtmlComment.html_comment_closed_partial

/-- **html_comment_closed_counterexample** (K-C09-HTML-1): `<!-->x-->` written verbatim is an empty comment plus text -/
theorem html_comment_closed_counterexample : ¬ Verif.Proofs.C09HtmlComment.html_comment_closed_full :=
  Verif.Proofs.C09HtmlComment.html_comment_closed_counterexample

/-! ## the whole output -/

/-- **html_output_retokenises_partial** (flagship): see `Verif.Proofs.C09HtmlFlagship.html_output_retokenises_partial` — for
    every option set, external-result table, sub-minifier and token stream on which the model returns `out` and the
    decidable guard `walk` holds on every step, `out` is the concatenation of the per-token pieces and the standard's
    tokenizer reads it as `intended` = each piece read on its own (`Spec/C09HtmlIntended.lean`). -/
theorem html_output_retokenises_partial : type_of% @Verif.Proofs.C09HtmlFlagship.html_output_retokenises_partial :=
  @Verif.Proofs.C09HtmlFlagship.html_output_retokenises_partial

/-- **html_output_retokenises_counterexample** (K-C09-HTML-4): `a<`, a removed comment, `b>c` is read as a start tag `b` -/
theorem html_output_retokenises_counterexample : ¬ Verif.Proofs.C09HtmlFlagship.html_output_retokenises_full :=
  Verif.Proofs.C09HtmlFlagship.html_output_retokenises_counterexample

/-- **html_output_retokenises_lexshape_counterexample**: over the lexer grammar (`lexShape`, the decidable statement of the
    lexer contract in `Model/C09HtmlWalk.lean`) the unguarded statement is false (K-C09-HTML-4) -/
theorem html_output_retokenises_lexshape_counterexample :
    ¬ Verif.Proofs.C09HtmlFlagship.html_output_retokenises_lexshape_full :=
  Verif.Proofs.C09HtmlFlagship.html_output_retokenises_lexshape_counterexample

/-- **html_text_lt_stays_escaped**: see `Verif.Proofs.C09HtmlTextLt.html_text_lt_stays_escaped` — an ordinary text token
    without a raw `<` is written without any `<` (every reference to `<`, in whatever spelling, stays `&lt;`), for all
    options; hence its piece satisfies the flagship's `textSafe` guard. -/
theorem html_text_lt_stays_escaped : type_of% @Verif.Proofs.C09HtmlTextLt.html_text_lt_stays_escaped :=
  @Verif.Proofs.C09HtmlTextLt.html_text_lt_stays_escaped

/-- **html_text_safe_preserved** (replaces the K-C09-HTML-10 counterexample): see
    `Verif.Proofs.C09HtmlTextLt.html_text_safe_preserved` — an ordinary text token all of whose `<` open nothing is written so
    that, followed by any byte that opens nothing, all of its `<` still open nothing: a text with `<&` keeps its references
    (6635adc), elsewhere no decoded reference is or follows a `<`. -/
theorem html_text_safe_preserved : type_of% @Verif.Proofs.C09HtmlTextLt.html_text_safe_preserved :=
  @Verif.Proofs.C09HtmlTextLt.html_text_safe_preserved

/-- what the re-lex check of html.go guarantees in the terms of the standard (and where it does not: escaped sections) -/
theorem html_relex_no_end_tag : type_of% @Verif.Proofs.C09HtmlRelex.relex_noEndTag := @Verif.Proofs.C09HtmlRelex.relex_noEndTag

theorem html_relex_script_counterexample : type_of% @Verif.Proofs.C09HtmlRelex.rawTextEndsAtEnd_script_counterexample :=
  @Verif.Proofs.C09HtmlRelex.rawTextEndsAtEnd_script_counterexample

/-- pieces compose: the abstract composition lemma behind the flagship -/
theorem html_pieces_compose : type_of% @Verif.Proofs.C09HtmlPieces.Reads.append := @Verif.Proofs.C09HtmlPieces.Reads.append

/-! ## second pass -/

/-- **html_second_pass_defined**: see `Verif.Proofs.C09HtmlSecond.html_second_pass_defined` — on EVERY token stream the
    model returns bytes or `ext missing: …`; there is no other failure. -/
theorem html_second_pass_defined : type_of% @Verif.Proofs.C09HtmlSecond.html_second_pass_defined :=
  @Verif.Proofs.C09HtmlSecond.html_second_pass_defined

/-- **html_idempotent_counterexample**: minifying the output again does not always give the same bytes
    (`aa</p><!-- -->` → `aa</p>` → `aa`); not a C09 violation. -/
theorem html_idempotent_counterexample : ¬ Verif.Proofs.C09HtmlSecond.html_idempotent_full :=
  Verif.Proofs.C09HtmlSecond.html_idempotent_counterexample

/-- the evaluation used by `spec.c09.html.tokens` is the specification -/
theorem html_driver_eval_is_spec : type_of% @Verif.Proofs.C09HtmlTok.itemsFast_eq := @Verif.Proofs.C09HtmlTok.itemsFast_eq

end Verif.Proofs.C09Html

import Verif.Model.CssShorthand
import Verif.Spec.CssShorthandSpec
import Verif.Props.C04
/-!
# Lemmas about the `font` case (C04B)

`fillPre_fontPre`: the rewrite of the tokens in front of the font size — `normal` removed, `bold` → `700`, `400`
removed — fills the component slots of the specification (`Spec.CssShorthand.fillPre`) with the same values.
Induction over the token list; invariant: as long as no token has set the weight it has its initial value 400.
-/
namespace Verif.Proofs.CssShorthand
open Verif.Spec.CssValue (TT Tok lower Weight fontWeightVal numVal)
open Verif.Model.Css Verif.Model.CssShorthand Verif.Spec.CssShorthand


theorem known_normal : known (Verif.Model.Css.S "normal") = Verif.Model.Css.S "normal" := by decide +kernel
theorem known_bold : known (Verif.Model.Css.S "bold") = Verif.Model.Css.S "bold" := by decide +kernel

theorem identOf_eq {t : Tok} {k : List Char} (h : identOf t = k) (hk : k ≠ []) : t.tt = .ident ∧ lower t.data = k := by
  unfold identOf at h
  by_cases ht : (t.tt == TT.ident) = true
  · simp only [ht, if_true] at h
    unfold known at h
    split at h
    · exact ⟨by simpa using ht, h⟩
    · exact absurd h.symm hk
  · simp only [ht, Bool.false_eq_true, if_false] at h
    exact absurd h.symm hk



theorem preSlot_normal {t : Tok} (h1 : t.tt = .ident) (h2 : lower t.data = Verif.Model.Css.S "normal") :
    preSlot t = some .normal := by
  rcases t with ⟨tt, d, a⟩
  simp only [Tok.tt, Tok.data] at h1 h2
  subst h1
  simp only [preSlot, Tok.tt, Tok.data, h2]
  decide

theorem preSlot_bold {t : Tok} (h1 : t.tt = .ident) (h2 : lower t.data = Verif.Model.Css.S "bold") :
    preSlot t = some .weight ∧ fontWeightVal t = some (.abs 700) := by
  rcases t with ⟨tt, d, a⟩
  simp only [Tok.tt, Tok.data] at h1 h2
  subst h1
  simp only [preSlot, fontWeightVal, Tok.tt, Tok.data, h2]
  decide

theorem preSlot_num (s : String) (a : List Tok) (q : Rat) (hq : numVal s.toList = some q) (h1 : 1 ≤ q) (h2 : q ≤ 1000) :
    preSlot (.mk .number s.toList a) = some .weight ∧ fontWeightVal (.mk .number s.toList a) = some (.abs q) := by
  simp [preSlot, fontWeightVal, Tok.tt, Tok.data, hq, h1, h2]



theorem n400 : numVal "400".toList = some 400 := by decide +kernel
theorem n700 : numVal "700".toList = some 700 := by decide +kernel

theorem fillPre_fontPre : ∀ (pre : List Tok) (d : FontDen) (used used' : List PreSlot) (r : FontDen),
    (∀ s, s ∈ used' → s ∈ used) → used'.length ≤ used.length →
    (PreSlot.weight ∉ used → d.weight = .abs 400) →
    fillPre pre d used = some r → fillPre (pre.filterMap fontPreTok) d used' = some r := by
  intro pre
  induction pre with
  | nil => intro d used used' r _ _ _ h; simpa [fillPre] using h
  | cons t rest ih =>
    intro d used used' r hsub hlen hinv h
    by_cases hn : identOf t = Verif.Model.Css.S "normal"
    · -- `normal`: removed
      obtain ⟨h1, h2⟩ := identOf_eq hn (by decide)
      have hp := preSlot_normal h1 h2
      simp only [fillPre, hp] at h
      split at h
      · simp at h
      · simp only [List.filterMap_cons, fontPreTok, hn]
        refine ih d (.normal :: used) used' r ?_ ?_ ?_ h
        · intro s hs; exact List.mem_cons_of_mem _ (hsub s hs)
        · simp only [List.length_cons]; omega
        · intro hw; apply hinv; intro hm; exact hw (List.mem_cons_of_mem _ hm)
    · by_cases hb : identOf t = Verif.Model.Css.S "bold"
      · -- `bold`: 700
        obtain ⟨h1, h2⟩ := identOf_eq hb (by decide)
        obtain ⟨hp, hw⟩ := preSlot_bold h1 h2
        obtain ⟨hp', hw'⟩ := preSlot_num "700" t.args 700 n700 (by decide) (by decide)
        simp only [fillPre, hp, hw] at h
        split at h
        · simp at h
        · rename_i hc
          have e1 : (Verif.Model.Css.S "bold" == Verif.Model.Css.S "normal") = false := by decide
          simp only [List.filterMap_cons, fontPreTok, hb, e1, Bool.false_eq_true, if_false, beq_self_eq_true, if_true]
          have e700 : Verif.Model.Css.S "700" = "700".toList := rfl
          rw [e700]
          simp only [fillPre, hp', hw']
          simp only [List.contains_eq_mem, Bool.or_eq_true, decide_eq_true_eq, not_or, ge_iff_le, Nat.not_le] at hc
          have hc1 : PreSlot.weight ∉ used' := fun hm => hc.1 (hsub _ hm)
          have hc2 : ¬ (4 ≤ used'.length) := by omega
          simp [hc1, hc2]
          refine ih _ (.weight :: used) (.weight :: used') r ?_ ?_ ?_ h
          · intro s hs
            rcases List.mem_cons.mp hs with hs | hs
            · exact hs ▸ List.mem_cons_self
            · exact List.mem_cons_of_mem _ (hsub s hs)
          · simp only [List.length_cons]; omega
          · intro hw; exact absurd List.mem_cons_self hw
      · have e2 : (identOf t == Verif.Model.Css.S "normal") = false := by simpa using hn
        have e3 : (identOf t == Verif.Model.Css.S "bold") = false := by simpa using hb
        have hmono : ∀ s', s' ∈ used' → s' ∈ used := hsub
        by_cases h4 : (t.tt == TT.number && t.data == Verif.Model.Css.S "400") = true
        · -- `400`: removed, the weight slot keeps its initial value
          rcases t with ⟨tt, data, args⟩
          simp only [Tok.tt, Tok.data, Bool.and_eq_true, beq_iff_eq] at h4
          obtain ⟨h41, h42⟩ := h4
          subst h41 h42
          obtain ⟨hp', hw'⟩ := preSlot_num "400" args 400 n400 (by decide) (by decide)
          have e400 : Verif.Model.Css.S "400" = "400".toList := rfl
          rw [e400] at h e2 e3 ⊢
          simp only [fillPre, hp', hw'] at h
          split at h
          · simp at h
          · rename_i hc
            simp only [List.contains_eq_mem, Bool.or_eq_true, decide_eq_true_eq, not_or, ge_iff_le, Nat.not_le] at hc
            have hd : ({ d with weight := Weight.abs 400 } : FontDen) = d := by
              have := hinv hc.1
              cases d; simp_all
            simp only [Option.map_some, hd] at h
            simp only [List.filterMap_cons, fontPreTok, e2, e3, Bool.false_eq_true, if_false, Tok.tt, Tok.data, e400,
              beq_self_eq_true, Bool.and_self, if_true]
            refine ih d (.weight :: used) used' r ?_ ?_ ?_ h
            · intro s hs; exact List.mem_cons_of_mem _ (hsub s hs)
            · simp only [List.length_cons]; omega
            · intro hw; exact absurd List.mem_cons_self hw
        · -- any other token is kept
          have e4 : (t.tt == TT.number && t.data == Verif.Model.Css.S "400") = false := by simpa using h4
          simp only [List.filterMap_cons, fontPreTok, e2, e3, e4, Bool.false_eq_true, if_false]
          simp only [fillPre] at h ⊢
          cases hps : preSlot t with
          | none => simp [hps] at h
          | some s =>
            simp only [hps] at h ⊢
            cases s
            · -- normal
              simp only at h ⊢
              split at h
              · simp at h
              · rename_i hc
                have hc2 : ¬ used'.length ≥ 4 := by omega
                simp only [hc2, if_false]
                refine ih d (.normal :: used) (.normal :: used') r ?_ ?_ ?_ h
                · intro s hs
                  rcases List.mem_cons.mp hs with hs | hs
                  · exact hs ▸ List.mem_cons_self
                  · exact List.mem_cons_of_mem _ (hsub s hs)
                · simp only [List.length_cons]; omega
                · intro hw; apply hinv; intro hm; exact hw (List.mem_cons_of_mem _ hm)
            all_goals
              simp only at h ⊢
              split at h
              · simp at h
              · rename_i hc
                simp only [List.contains_eq_mem, Bool.or_eq_true, decide_eq_true_eq, not_or, ge_iff_le, Nat.not_le] at hc
                have hc1 : ¬ _ ∈ used' := fun hm => hc.1 (hsub _ hm)
                have hc2 : ¬ (4 ≤ used'.length) := by omega
                simp only [List.contains_eq_mem, hc1, decide_false, Bool.false_or, ge_iff_le, decide_eq_true_eq, hc2, if_false]
                first
                | (refine ih _ (_ :: used) (_ :: used') r ?_ ?_ ?_ h
                   · intro s hs
                     rcases List.mem_cons.mp hs with hs | hs
                     · exact hs ▸ List.mem_cons_self
                     · exact List.mem_cons_of_mem _ (hsub s hs)
                   · simp only [List.length_cons]; omega
                   · intro hw
                     have : PreSlot.weight ∉ used := fun hm => hw (List.mem_cons_of_mem _ hm)
                     exact hinv this)
                | (cases hfw : fontWeightVal t with
                   | none => simp [hfw] at h
                   | some w =>
                     simp only [hfw, Option.map_some] at h ⊢
                     refine ih _ (.weight :: used) (.weight :: used') r ?_ ?_ ?_ h
                     · intro s hs
                       rcases List.mem_cons.mp hs with hs | hs
                       · exact hs ▸ List.mem_cons_self
                       · exact List.mem_cons_of_mem _ (hsub s hs)
                     · simp only [List.length_cons]; omega
                     · intro hw; exact absurd List.mem_cons_self hw)

/-! ## the family part of `font` -/

section Families
open Verif.Spec.CssValue


/-- family tokens the theorem covers: comma, identifier, or a quoted string without backslash whose content is not
a keyword (K-C04-6) -/
def famTokOk (t : Tok) : Bool :=
  t.tt == .comma || t.tt == .ident ||
  (t.tt == .string &&
    (match t.data with
     | q :: r => (q == '"' || q == '\'') && r.getLast? == some q && !r.dropLast.isEmpty &&
        !r.dropLast.contains '\\' && !familyKeywordString (lower r.dropLast)
     | [] => false))

theorem strTok_of_ok (t : Tok) (h : famTokOk t = true) (hs : t.tt = .string) :
    ∃ q body, (q = '"' ∨ q = '\'') ∧ body ≠ [] ∧ body.contains '\\' = false ∧
      familyKeywordString (lower body) = false ∧ t = strTok q body t.args := by
  rcases t with ⟨tt, data, args⟩
  simp only [Tok.tt] at hs
  subst hs
  simp only [famTokOk, Tok.tt, Tok.data, show (TT.string == TT.comma) = false from rfl,
    show (TT.string == TT.ident) = false from rfl, Bool.false_or, beq_self_eq_true, Bool.true_and] at h
  cases data with
  | nil => simp at h
  | cons q r =>
    simp only [Bool.and_eq_true, Bool.or_eq_true, beq_iff_eq, Bool.not_eq_true', List.isEmpty_eq_false_iff] at h
    obtain ⟨⟨⟨⟨hq, hl⟩, hne⟩, hb⟩, hk⟩ := h
    refine ⟨q, r.dropLast, hq, hne, hb, hk, ?_⟩
    have : r = r.dropLast ++ [q] := by
      have hr : r ≠ [] := by intro e; subst e; simp at hl
      have h1 := List.dropLast_concat_getLast hr
      have h2 : r.getLast hr = q := by
        have := List.getLast?_eq_some_getLast hr
        rw [this] at hl; exact Option.some.inj hl
      rw [h2] at h1; exact h1.symm
    simp only [strTok, Tok.args, List.cons_append]
    rw [← this]


/-- what a user agent reads for family token `t` after the `font-family` rewrite -/
def famImg (t : Tok) : List Tok :=
  match minifyFontFamilyTok t with
  | some t' => asWritten t'
  | none => [t]

theorem splitCommas_ne_nil : ∀ l : List Tok, splitCommas l ≠ []
  | [] => by simp [splitCommas]
  | t :: r => by
    have := splitCommas_ne_nil r
    unfold splitCommas
    split
    · simp
    · split <;> simp

theorem splitCommas_append_noComma : ∀ (a l : List Tok), (∀ x ∈ a, (x.tt == TT.comma) = false) →
    splitCommas (a ++ l) = (a ++ (splitCommas l).headD []) :: (splitCommas l).tail
  | [], l, _ => by
    have := splitCommas_ne_nil l
    cases h : splitCommas l with
    | nil => exact absurd h this
    | cons x xs => simp [h]
  | t :: a, l, h => by
    have ht := h t List.mem_cons_self
    have ih := splitCommas_append_noComma a l (fun x hx => h x (List.mem_cons_of_mem _ hx))
    simp only [List.cons_append]
    rw [splitCommas, ih]
    simp [ht]

theorem splitCommas_flatMap (g : Tok → List Tok)
    (hc : ∀ t, (t.tt == TT.comma) = true → g t = [t])
    (hn : ∀ t, (t.tt == TT.comma) = false → ∀ x ∈ g t, (x.tt == TT.comma) = false) :
    ∀ l : List Tok, splitCommas (l.flatMap g) = (splitCommas l).map (fun item => item.flatMap g)
  | [] => by simp [splitCommas]
  | t :: r => by
    have ih := splitCommas_flatMap g hc hn r
    have hne := splitCommas_ne_nil r
    simp only [List.flatMap_cons]
    cases htc : (t.tt == TT.comma)
    · rw [splitCommas_append_noComma _ _ (hn t htc), ih]
      rw [splitCommas]
      cases hs : splitCommas r with
      | nil => exact absurd hs hne
      | cons x xs => simp [htc]
    · rw [hc t htc]
      simp only [List.cons_append, List.nil_append]
      rw [splitCommas, ih, splitCommas]
      cases hs : splitCommas r with
      | nil => exact absurd hs hne
      | cons x xs => simp [htc]


theorem famImg_nonString (t : Tok) (h : (t.tt == TT.string) = false) : famImg t = [t] := by
  simp [famImg, minifyFontFamilyTok, h, asWritten]

theorem asWritten_noComma (t : Tok) (h : (t.tt == TT.comma) = false) : ∀ x ∈ asWritten t, (x.tt == TT.comma) = false := by
  intro x hx
  unfold asWritten at hx
  split at hx
  · simp only [List.mem_map] at hx
    obtain ⟨w, _, rfl⟩ := hx
    rfl
  · simp only [List.mem_singleton] at hx
    subst hx; exact h

theorem minify_tt (t t' : Tok) (h : minifyFontFamilyTok t = some t') : t'.tt = t.tt := by
  unfold minifyFontFamilyTok at h
  split at h
  · rename_i hc
    split at h
    · simp at h
    · simp only [Option.some.injEq] at h
      subst h
      simp only [Bool.and_eq_true, beq_iff_eq] at hc
      rw [hc.1]; rfl
  · simp only [Option.some.injEq] at h
    subst h; rfl

theorem famImg_noComma (t : Tok) (h : (t.tt == TT.comma) = false) : ∀ x ∈ famImg t, (x.tt == TT.comma) = false := by
  intro x hx
  unfold famImg at hx
  split at hx
  · rename_i t' heq
    have := minify_tt t t' heq
    exact asWritten_noComma t' (by rw [this]; exact h) x hx
  · simp only [List.mem_singleton] at hx
    subst hx; exact h

theorem famImg_comma (t : Tok) (h : (t.tt == TT.comma) = true) : famImg t = [t] := by
  have : (t.tt == TT.string) = false := by
    have : t.tt = TT.comma := by simpa using h
    rw [this]; rfl
  exact famImg_nonString t this


theorem flatMap_id_of (item : List Tok) (h : ∀ t ∈ item, famImg t = [t]) : item.flatMap famImg = item := by
  induction item with
  | nil => rfl
  | cons t r ih =>
    simp only [List.flatMap_cons, h t List.mem_cons_self]
    rw [ih (fun x hx => h x (List.mem_cons_of_mem _ hx))]
    rfl

theorem item_ok (item : List Tok) (f : Family)
    (hok : ∀ t ∈ item, famTokOk t = true ∧ (t.tt == TT.comma) = false)
    (h : familyOf item = some f) : familyOf (item.flatMap famImg) = some f := by
  match item, hok, h with
  | [], _, h => simp [familyOf] at h
  | [t], hok, h =>
    obtain ⟨ho, hnc⟩ := hok t List.mem_cons_self
    by_cases hs : (t.tt == TT.string) = true
    · obtain ⟨q, body, hq, hne, hb, hk, ht⟩ := strTok_of_ok t ho (by simpa using hs)
      obtain ⟨t', h1, h2⟩ := Verif.Props.C04.font_family_partial q body t.args hq hne hb hk
      rw [← ht] at h1 h2
      simp only [List.flatMap_cons, List.flatMap_nil, List.append_nil, famImg, h1]
      rw [h2]; exact h
    · have hs' : (t.tt == TT.string) = false := by simpa using hs
      simp only [List.flatMap_cons, List.flatMap_nil, List.append_nil, famImg_nonString t hs']
      exact h
  | t1 :: t2 :: r, hok, h =>
    have hall : (t1 :: t2 :: r).all (fun t => t.tt == .ident && !cssWideKeywords.contains (lower t.data)) = true := by
      simp only [familyOf] at h
      split at h
      · simp at h
      · split at h
        · rename_i hh; exact hh
        · simp at h
    have hid : ∀ t ∈ t1 :: t2 :: r, famImg t = [t] := by
      intro t ht
      have := List.all_eq_true.mp hall t ht
      simp only [Bool.and_eq_true, beq_iff_eq] at this
      exact famImg_nonString t (by rw [this.1]; rfl)
    rw [flatMap_id_of _ hid]; exact h


theorem mapM_congr_some {α β : Type} (f g : α → Option β) : ∀ (l : List α) (ys : List β),
    (∀ x ∈ l, ∀ y, f x = some y → g x = some y) → l.mapM f = some ys → l.mapM g = some ys
  | [], ys, _, h => by simpa using h
  | a :: l, ys, hc, h => by
    simp only [List.mapM_cons, Option.bind_eq_bind] at h ⊢
    cases hfa : f a with
    | none => simp [hfa] at h
    | some b =>
      simp only [hfa, Option.bind_some] at h
      cases hl : l.mapM f with
      | none => simp [hl] at h
      | some bs =>
        simp only [hl, Option.bind_some] at h
        have h1 := hc a List.mem_cons_self b hfa
        have h2 := mapM_congr_some f g l bs (fun x hx => hc x (List.mem_cons_of_mem _ hx)) hl
        simp [h1, h2]
        simpa using h

theorem mem_splitCommas : ∀ (l : List Tok) (item : List Tok), item ∈ splitCommas l →
    ∀ t ∈ item, t ∈ l ∧ (t.tt == TT.comma) = false
  | [], item, hi, t, ht => by
    simp only [splitCommas, List.mem_singleton] at hi
    subst hi; simp at ht
  | a :: l, item, hi, t, ht => by
    have hne := splitCommas_ne_nil l
    rw [splitCommas] at hi
    cases hs : splitCommas l with
    | nil => exact absurd hs hne
    | cons x xs =>
      simp only [hs] at hi
      have ihx := mem_splitCommas l
      by_cases hc : (a.tt == TT.comma) = true
      · simp only [hc, if_true, List.mem_cons] at hi
        rcases hi with rfl | hi
        · simp at ht
        · have := ihx item (by rw [hs]; exact List.mem_cons.mpr hi) t ht
          exact ⟨List.mem_cons_of_mem _ this.1, this.2⟩
      · have hc' : (a.tt == TT.comma) = false := by simpa using hc
        simp only [hc', Bool.false_eq_true, if_false, List.mem_cons] at hi
        rcases hi with rfl | hi
        · rcases List.mem_cons.mp ht with rfl | ht'
          · exact ⟨List.mem_cons_self, hc'⟩
          · have := ihx x (by rw [hs]; exact List.mem_cons_self) t ht'
            exact ⟨List.mem_cons_of_mem _ this.1, this.2⟩
        · have := ihx item (by rw [hs]; exact List.mem_cons_of_mem _ hi) t ht
          exact ⟨List.mem_cons_of_mem _ this.1, this.2⟩

theorem families_ok (fam : List Tok) (fs : List Family) (hok : ∀ t ∈ fam, famTokOk t = true)
    (h : fontFamilies fam = some fs) : fontFamilies (fam.flatMap famImg) = some fs := by
  unfold fontFamilies at h ⊢
  rw [splitCommas_flatMap famImg famImg_comma famImg_noComma, List.mapM_map]
  refine mapM_congr_some familyOf _ (splitCommas fam) fs ?_ h
  intro item hi f hf
  exact item_ok item f (fun t ht => by
    have := mem_splitCommas fam item hi t ht
    exact ⟨hok t this.1, this.2⟩) hf

theorem flatMap_asWritten : ∀ (fam fam0 : List Tok), minifyFontFamily fam = some fam0 →
    fam0.flatMap asWritten = fam.flatMap famImg
  | [], fam0, h => by
    simp [minifyFontFamily] at h; subst h; rfl
  | t :: r, fam0, h => by
    simp only [minifyFontFamily, List.mapM_cons, Option.bind_eq_bind] at h
    cases ht : minifyFontFamilyTok t with
    | none => simp [ht] at h
    | some t' =>
      simp only [ht, Option.bind_some] at h
      cases hr : r.mapM minifyFontFamilyTok with
      | none => simp [hr] at h
      | some r' =>
        simp only [hr, Option.bind_some] at h
        have : fam0 = t' :: r' := by simpa using h.symm
        subst this
        have ih := flatMap_asWritten r r' hr
        simp only [List.flatMap_cons, ih, famImg, ht]

end Families

/-! ## `font`: the whole value -/

section FontWhole
open Verif.Spec.CssValue
def pSlot (t : Tok) : Bool := (preSlot t).isSome

theorem takeWhile_pre (p : Tok → Bool) (a : List Tok) (x : Tok) (b : List Tok) (ha : ∀ t ∈ a, p t = true) (hx : p x = false) :
    (a ++ x :: b).takeWhile p = a ∧ (a ++ x :: b).dropWhile p = x :: b := by
  induction a with
  | nil => simp [hx]
  | cons t r ih =>
    have ht := ha t List.mem_cons_self
    have := ih (fun y hy => ha y (List.mem_cons_of_mem _ hy))
    simp [ht, this]

theorem preSlot_tt (t : Tok) (h : pSlot t = true) : t.tt = .ident ∨ t.tt = .number := by
  rcases t with ⟨tt, d, a⟩
  cases tt <;> simp_all [pSlot, preSlot, Tok.tt]

theorem fontPreTok_pSlot (t t' : Tok) (h : pSlot t = true) (h' : fontPreTok t = some t') : pSlot t' = true := by
  unfold fontPreTok at h'
  split at h'
  · simp at h'
  · split at h'
    · simp only [Option.some.injEq] at h'
      subst h'
      have := (preSlot_num "700" t.args 700 n700 (by decide) (by decide)).1
      have e : Verif.Model.Css.S "700" = "700".toList := rfl
      rw [e]; simp only [pSlot, this, Option.isSome_some]
    · split at h'
      · simp at h'
      · simp only [Option.some.injEq] at h'
        subst h'; exact h

theorem filterMap_pSlot (pre : List Tok) (h : ∀ t ∈ pre, pSlot t = true) :
    ∀ t ∈ pre.filterMap fontPreTok, pSlot t = true := by
  intro t ht
  simp only [List.mem_filterMap] at ht
  obtain ⟨a, ha, hat⟩ := ht
  exact fontPreTok_pSlot a t (h a ha) hat

theorem asWritten_nonString (t : Tok) (h : (t.tt == TT.string) = false) : asWritten t = [t] := by
  simp [asWritten, h]

theorem flatMap_asWritten_id (l : List Tok) (h : ∀ t ∈ l, (t.tt == TT.string) = false) : l.flatMap asWritten = l := by
  induction l with
  | nil => rfl
  | cons t r ih =>
    simp only [List.flatMap_cons, asWritten_nonString t (h t List.mem_cons_self)]
    rw [ih (fun x hx => h x (List.mem_cons_of_mem _ hx))]; rfl

/-- line-height and family part behind the size, as `fontDen` reads them -/
def lhFam (rest : List Tok) : Option (Tok × List Tok) :=
  match rest with
  | sl :: l :: f => if Verif.Spec.CssValue.isSlash sl then (if isLineHeight l then some (compNorm l, f) else none) else some (normalTok, rest)
  | _ => some (normalTok, rest)

theorem fontDen_parts (pre : List Tok) (size : Tok) (rest : List Tok) (hp : ∀ t ∈ pre, pSlot t = true)
    (hs : pSlot size = false) :
    fontDen (pre ++ size :: rest) =
      if !isFontSize size then none else
      match lhFam rest with
      | none => none
      | some (lh, fam) =>
        if fam.isEmpty then none else
        match fontFamilies fam with
        | none => none
        | some fs => fillPre pre ⟨"normal".toList, "normal".toList, .abs 400, "normal".toList, compNorm size, lh, fs⟩ [] := by
  obtain ⟨h1, h2⟩ := takeWhile_pre pSlot pre size rest hp hs
  have e1 : (pre ++ size :: rest).takeWhile (fun t => (preSlot t).isSome) = pre := h1
  have e2 : (pre ++ size :: rest).dropWhile (fun t => (preSlot t).isSome) = size :: rest := h2
  unfold fontDen
  simp only [e1, e2, lhFam]
  rfl

theorem drop_len_add (pre mid l : List Tok) : (pre ++ mid ++ l).drop (pre.length + mid.length) = l := by
  rw [← List.length_append]; simp

theorem take_len_add (pre mid l : List Tok) : (pre ++ mid ++ l).take (pre.length + mid.length) = pre ++ mid := by
  rw [← List.length_append]; exact List.take_left' rfl

theorem take_len (pre l : List Tok) : (pre ++ l).take pre.length = pre := by simp

theorem drop_len (pre l : List Tok) : (pre ++ l).drop pre.length = l := by simp

theorem getD_len_add (pre : List Tok) (mid : List Tok) (k : Nat) (d : Tok) :
    (pre ++ mid).getD (pre.length + k) d = mid.getD k d := by
  simp [List.getD_eq_getElem?_getD, List.getElem?_append_right]

theorem minify_some : ∀ (fam : List Tok), (∀ t ∈ fam, famTokOk t = true) → ∃ fam0, minifyFontFamily fam = some fam0
  | [], _ => ⟨[], rfl⟩
  | t :: r, h => by
    obtain ⟨r0, hr⟩ := minify_some r (fun x hx => h x (List.mem_cons_of_mem _ hx))
    have ht := h t List.mem_cons_self
    have : ∃ t', minifyFontFamilyTok t = some t' := by
      by_cases hs : (t.tt == TT.string) = true
      · obtain ⟨q, body, hq, hne, hb, hk, hte⟩ := strTok_of_ok t ht (by simpa using hs)
        obtain ⟨t', h1, _⟩ := Verif.Props.C04.font_family_partial q body t.args hq hne hb hk
        rw [← hte] at h1
        exact ⟨t', h1⟩
      · exact ⟨t, by simp [minifyFontFamilyTok, hs]⟩
    obtain ⟨t', ht'⟩ := this
    refine ⟨t' :: r0, ?_⟩
    simp only [minifyFontFamily] at hr ⊢
    simp [List.mapM_cons, ht', hr]

theorem pSlot_noSlash (t : Tok) (h : pSlot t = true) : Verif.Model.Css.isSlash t = false := by
  rcases preSlot_tt t h with h1 | h1 <;> simp [Verif.Model.Css.isSlash, h1]

theorem pSlot_nonString (t : Tok) (h : pSlot t = true) : (t.tt == TT.string) = false := by
  rcases preSlot_tt t h with h1 | h1 <;> simp [h1]

theorem isFontSize_nonString (t : Tok) (h : isFontSize t = true) : (t.tt == TT.string) = false := by
  rcases t with ⟨tt, d, a⟩
  cases tt <;> simp_all [isFontSize, isLengthPct, numOf, Tok.tt]

theorem isLineHeight_nonString (t : Tok) (h : isLineHeight t = true) : (t.tt == TT.string) = false := by
  rcases t with ⟨tt, d, a⟩
  cases tt <;> simp_all [isLineHeight, isKw, kwOf, isLengthPct, numOf, Tok.tt]

/-- family tokens as read back are commas, identifiers or strings -/
theorem famImg_kind (t : Tok) (h : famTokOk t = true) :
    ∀ x ∈ famImg t, x.tt = .comma ∨ x.tt = .ident ∨ x.tt = .string := by
  intro x hx
  unfold famImg at hx
  split at hx
  · rename_i t' heq
    have htt := minify_tt t t' heq
    unfold asWritten at hx
    split at hx
    · simp only [List.mem_map] at hx
      obtain ⟨w, _, rfl⟩ := hx
      exact Or.inr (Or.inl rfl)
    · simp only [List.mem_singleton] at hx
      subst hx
      rw [htt]
      simp only [famTokOk, Bool.or_eq_true, beq_iff_eq, Bool.and_eq_true] at h
      rcases h with (h | h) | h
      · exact Or.inl h
      · exact Or.inr (Or.inl h)
      · exact Or.inr (Or.inr h.1)
  · simp only [List.mem_singleton] at hx
    subst hx
    simp only [famTokOk, Bool.or_eq_true, beq_iff_eq, Bool.and_eq_true] at h
    rcases h with (h | h) | h
    · exact Or.inl h
    · exact Or.inr (Or.inl h)
    · exact Or.inr (Or.inr h.1)

theorem lhFam_noDelim (W : List Tok) (h : ∀ x ∈ W, x.tt = .comma ∨ x.tt = .ident ∨ x.tt = .string) :
    lhFam W = some (normalTok, W) := by
  match W, h with
  | [], _ => rfl
  | [a], _ => rfl
  | a :: b :: c, h =>
    have ha := h a List.mem_cons_self
    have : Verif.Spec.CssValue.isSlash a = false := by
      rcases ha with h1 | h1 | h1 <;> simp [Verif.Spec.CssValue.isSlash, h1]
    simp [lhFam, this]

theorem fontFamilies_nil : fontFamilies [] = none := by decide

/-- the specification's reading of the rewritten value -/
theorem fontDen_out (pre : List Tok) (size : Tok) (mid fam fam0 : List Tok) (lh : Tok) (fs : List Family) (d : FontDen)
    (hp : ∀ t ∈ pre, pSlot t = true) (hs : pSlot size = false) (hsz : isFontSize size = true)
    (hfam : ∀ t ∈ fam, famTokOk t = true) (hm : minifyFontFamily fam = some fam0)
    (hff : fontFamilies fam = some fs)
    (hfill : fillPre pre ⟨"normal".toList, "normal".toList, .abs 400, "normal".toList, compNorm size, lh, fs⟩ [] = some d)
    (hmid : (mid = [] ∧ lh = normalTok) ∨
      ∃ sl l, mid = [sl, l] ∧ Verif.Spec.CssValue.isSlash sl = true ∧ isLineHeight l = true ∧ lh = compNorm l) :
    fontDen ((pre.filterMap fontPreTok ++ size :: mid ++ fam0).flatMap asWritten) = some d := by
  have hp' := filterMap_pSlot pre hp
  have hW : fam0.flatMap asWritten = fam.flatMap famImg := flatMap_asWritten fam fam0 hm
  have hWk : ∀ x ∈ fam.flatMap famImg, x.tt = .comma ∨ x.tt = .ident ∨ x.tt = .string := by
    intro x hx
    simp only [List.mem_flatMap] at hx
    obtain ⟨t, ht, hxt⟩ := hx
    exact famImg_kind t (hfam t ht) x hxt
  have hWf := families_ok fam fs hfam hff
  have hWne : (fam.flatMap famImg).isEmpty = false := by
    cases hW0 : fam.flatMap famImg with
    | nil => rw [hW0, fontFamilies_nil] at hWf; simp at hWf
    | cons a b => rfl
  have hmidS : ∀ t ∈ mid, (t.tt == TT.string) = false := by
    rcases hmid with ⟨rfl, _⟩ | ⟨sl, l, rfl, h1, h2, _⟩
    · simp
    · intro t ht
      simp only [List.mem_cons, List.mem_nil_iff, or_false] at ht
      rcases ht with rfl | rfl
      · simp only [Verif.Spec.CssValue.isSlash, Bool.and_eq_true, beq_iff_eq] at h1
        rw [h1.1]; rfl
      · exact isLineHeight_nonString _ h2
  have e : (pre.filterMap fontPreTok ++ size :: mid ++ fam0).flatMap asWritten =
      pre.filterMap fontPreTok ++ size :: (mid ++ fam.flatMap famImg) := by
    simp only [List.flatMap_append, List.flatMap_cons, List.append_assoc, List.cons_append]
    rw [flatMap_asWritten_id _ (fun t ht => pSlot_nonString t (hp' t ht)), asWritten_nonString size (isFontSize_nonString size hsz),
      flatMap_asWritten_id mid hmidS, hW]
    simp
  rw [e, fontDen_parts _ size _ hp' hs]
  simp only [hsz, Bool.not_true, Bool.false_eq_true, if_false]
  have hfill' := fillPre_fontPre pre _ [] [] d (fun _ h => h) (Nat.le_refl _) (fun _ => rfl) hfill
  rcases hmid with ⟨rfl, rfl⟩ | ⟨sl, l, rfl, h1, h2, rfl⟩
  · simp only [List.nil_append, lhFam_noDelim _ hWk, hWne, Bool.false_eq_true, if_false, hWf]
    exact hfill'
  · simp only [List.cons_append, List.nil_append, lhFam, h1, h2, if_true, hWne, Bool.false_eq_true, if_false, hWf]
    exact hfill'

theorem minifyFont_noSlash (pre : List Tok) (size : Tok) (fam fam0 : List Tok) (hp : ∀ t ∈ pre, pSlot t = true)
    (hne : fam ≠ []) (hsplit : fontSplit (pre ++ size :: fam) = pre.length)
    (hm : minifyFontFamily fam = some fam0) (hq : quoteDash fam0 = fam0) :
    minifyFont (pre ++ size :: fam) = some (pre.filterMap fontPreTok ++ size :: fam0) := by
  have hlen : ¬ (pre ++ size :: fam).length ≤ 1 := by
    cases fam with
    | nil => exact absurd rfl hne
    | cons a b => simp; omega
  have hd : (pre ++ size :: fam).drop (pre.length + 1) = fam := by
    simp
  have ht : (pre ++ size :: fam).take (pre.length + 1) = pre ++ [size] := by
    have := take_len_add pre [size] fam
    simpa using this
  unfold minifyFont
  simp only [hlen, if_false, hsplit]
  unfold minifyFontAt
  rw [hd, hm]
  simp only [hq, ht]
  by_cases h0 : pre.length = 0
  · have : pre = [] := List.eq_nil_of_length_eq_zero h0
    subst this
    simp
  · have h0' : (pre.length == 0) = false := by simpa using h0
    simp only [h0', Bool.false_eq_true, if_false]
    have hsl : Verif.Model.Css.isSlash ((pre ++ [size]).getD (pre.length - 1) default) = false := by
      have hlt : pre.length - 1 < pre.length := by omega
      have : (pre ++ [size]).getD (pre.length - 1) default = pre[pre.length - 1] := by
        simp [List.getD_eq_getElem?_getD, List.getElem?_append_left hlt, List.getElem?_eq_getElem hlt]
      rw [this]
      exact pSlot_noSlash _ (hp _ (List.getElem_mem _))
    simp only [hsl, Bool.and_false, Bool.false_eq_true, if_false]
    simp

theorem minifyFont_slash (pre : List Tok) (size sl lh : Tok) (fam fam0 : List Tok)
    (hsl : Verif.Spec.CssValue.isSlash sl = true)
    (hsplit : fontSplit (pre ++ size :: sl :: lh :: fam) = pre.length + 2)
    (hm : minifyFontFamily fam = some fam0) (hq : quoteDash fam0 = fam0) :
    minifyFont (pre ++ size :: sl :: lh :: fam) =
      some (pre.filterMap fontPreTok ++ size ::
        (if identOf lh == Verif.Model.Css.S "normal" then [] else [sl, lh]) ++ fam0) := by
  have hlen : ¬ (pre ++ size :: sl :: lh :: fam).length ≤ 1 := by simp; omega
  have hd : (pre ++ size :: sl :: lh :: fam).drop (pre.length + 2 + 1) = fam := by
    have := drop_len_add pre [size, sl, lh] fam
    simp only [List.length_cons, List.length_nil, List.append_assoc, List.cons_append, List.nil_append] at this
    exact this
  have ht : (pre ++ size :: sl :: lh :: fam).take (pre.length + 2 + 1) = pre ++ [size, sl, lh] := by
    have := take_len_add pre [size, sl, lh] fam
    simp only [List.length_cons, List.length_nil, List.append_assoc, List.cons_append, List.nil_append] at this
    exact this
  have hms : Verif.Model.Css.isSlash sl = true := by
    simp only [Verif.Spec.CssValue.isSlash, Bool.and_eq_true, beq_iff_eq] at hsl
    simp [Verif.Model.Css.isSlash, hsl.1, hsl.2]
  unfold minifyFont
  simp only [hlen, if_false, hsplit]
  unfold minifyFontAt
  rw [hd, hm]
  simp only [hq, ht]
  have g1 : (pre ++ [size, sl, lh]).getD (pre.length + 2 - 1) default = sl := by
    have : pre.length + 2 - 1 = pre.length + 1 := by omega
    rw [this, getD_len_add]; rfl
  have g2 : (pre ++ [size, sl, lh]).getD (pre.length + 2) default = lh := by
    rw [getD_len_add]; rfl
  have g3 : (pre ++ [size, sl, lh]).getD (pre.length + 2 - 2) default = size := by
    have : pre.length + 2 - 2 = pre.length + 0 := by omega
    rw [this, getD_len_add]; rfl
  have g4 : (pre ++ [size, sl, lh]).drop (pre.length + 2 - 2) = [size, sl, lh] := by
    have : pre.length + 2 - 2 = pre.length := by omega
    rw [this]; simp
  have g5 : (pre ++ [size, sl, lh]).take (pre.length + 2 - 2) = pre := by
    have : pre.length + 2 - 2 = pre.length := by omega
    rw [this]; simp
  have h0 : (pre.length + 2 == 0) = false := by simp
  have h1 : decide (1 < pre.length + 2) = true := by simp
  simp only [h0, Bool.false_eq_true, if_false, h1, g1, hms, Bool.and_self, if_true, g2, g3, g4, g5]
  split <;> simp

theorem mem_takeWhile_true (p : Tok → Bool) : ∀ (l : List Tok) (t : Tok), t ∈ l.takeWhile p → p t = true
  | [], t, h => by simp at h
  | a :: l, t, h => by
    by_cases ha : p a = true
    · simp only [List.takeWhile_cons, ha, if_true, List.mem_cons] at h
      rcases h with rfl | h
      · exact ha
      · exact mem_takeWhile_true p l t h
    · simp [List.takeWhile_cons, ha] at h

theorem dropWhile_head_false (p : Tok → Bool) : ∀ (l : List Tok) (x : Tok) (r : List Tok), l.dropWhile p = x :: r → p x = false
  | [], x, r, h => by simp at h
  | a :: l, x, r, h => by
    by_cases ha : p a = true
    · simp only [List.dropWhile_cons, ha, if_true] at h
      exact dropWhile_head_false p l x r h
    · simp only [List.dropWhile_cons, ha, Bool.false_eq_true, if_false, List.cons.injEq] at h
      rw [← h.1]; simpa using ha

/-- guards of `font_ok_partial`: the family search of the code stops where the grammar puts the size (or the
line-height); the family tokens are commas, identifiers and quoted strings without backslash that are no keywords
(K-C04-6); the IE quoting of a leading `-` does not apply -/
def fontGuard (vs : List Tok) : Bool :=
  match vs.dropWhile pSlot with
  | _ :: rest =>
    match lhFam rest with
    | some (_, fam) =>
      fontSplit vs == (vs.takeWhile pSlot).length + (rest.length - fam.length) &&
      fam.all famTokOk &&
      (match minifyFontFamily fam with | some f0 => quoteDash f0 == f0 | none => false)
    | none => false
  | [] => false

theorem font_ok_partial (vs : List Tok) (d : FontDen) (hden : fontDen vs = some d) (hg : fontGuard vs = true) :
    ∃ out, minifyFont vs = some out ∧ fontDen (out.flatMap asWritten) = some d := by
  have hsplit0 : vs = vs.takeWhile pSlot ++ vs.dropWhile pSlot := (List.takeWhile_append_dropWhile).symm
  have hp : ∀ t ∈ vs.takeWhile pSlot, pSlot t = true := mem_takeWhile_true pSlot vs
  generalize hpre : vs.takeWhile pSlot = pre at hsplit0 hp hg
  cases hr0 : vs.dropWhile pSlot with
  | nil => simp [fontGuard, hr0] at hg
  | cons size rest =>
    have hs : pSlot size = false := dropWhile_head_false pSlot vs size rest hr0
    rw [hr0] at hsplit0
    simp only [fontGuard, hr0] at hg
    rw [hsplit0, fontDen_parts pre size rest hp hs] at hden
    cases hsz : isFontSize size with
    | false => simp [hsz] at hden
    | true =>
      simp only [hsz, Bool.not_true, Bool.false_eq_true, if_false] at hden
      cases hlf : lhFam rest with
      | none => simp [hlf] at hden
      | some pr =>
        obtain ⟨lh, fam⟩ := pr
        simp only [hlf] at hden hg
        simp only [Bool.and_eq_true, beq_iff_eq, List.all_eq_true] at hg
        obtain ⟨⟨hsp, hfam⟩, hqd⟩ := hg
        rw [hpre] at hsp
        cases hm : minifyFontFamily fam with
        | none => simp [hm] at hqd
        | some fam0 =>
          simp only [hm, beq_iff_eq] at hqd
          cases hemp : fam.isEmpty with
          | true => simp [hemp] at hden
          | false =>
            simp only [hemp, Bool.false_eq_true, if_false] at hden
            cases hff : fontFamilies fam with
            | none => simp [hff] at hden
            | some fs =>
              simp only [hff] at hden
              have hne : fam ≠ [] := by intro e; subst e; simp at hemp
              -- which shape has the part behind the size?
              unfold lhFam at hlf
              split at hlf
              · rename_i sl l f
                by_cases hsl : Verif.Spec.CssValue.isSlash sl = true
                · simp only [hsl, if_true] at hlf
                  by_cases hl : isLineHeight l = true
                  · simp only [hl, if_true, Option.some.injEq, Prod.mk.injEq] at hlf
                    obtain ⟨rfl, rfl⟩ := hlf
                    have hsp' : fontSplit (pre ++ size :: sl :: l :: f) = pre.length + 2 := by
                      rw [← hsplit0, hsp]; simp only [List.length_cons]; omega
                    refine ⟨_, by rw [hsplit0]; exact minifyFont_slash pre size sl l _ fam0 hsl hsp' hm hqd, ?_⟩
                    by_cases hn : (identOf l == Verif.Model.Css.S "normal") = true
                    · simp only [hn, if_true, List.append_nil]
                      have hcn : compNorm l = normalTok := by
                        obtain ⟨h1, h2⟩ := identOf_eq (by simpa using hn) (by decide)
                        simp [compNorm, h1, h2, normalTok, Verif.Model.Css.S, Verif.Spec.CssShorthand.S]
                      rw [hcn] at hden
                      have := fontDen_out pre size [] _ fam0 normalTok fs d hp hs hsz hfam hm hff hden (Or.inl ⟨rfl, rfl⟩)
                      simpa using this
                    · simp only [hn, Bool.false_eq_true, if_false]
                      have := fontDen_out pre size [sl, l] _ fam0 (compNorm l) fs d hp hs hsz hfam hm hff hden
                        (Or.inr ⟨sl, l, rfl, hsl, hl, rfl⟩)
                      simpa using this
                  · simp [hl] at hlf
                · simp only [hsl, Bool.false_eq_true, if_false, Option.some.injEq, Prod.mk.injEq] at hlf
                  obtain ⟨rfl, rfl⟩ := hlf
                  have hsp' : fontSplit (pre ++ size :: sl :: l :: f) = pre.length := by
                    rw [← hsplit0, hsp]; simp
                  refine ⟨_, by rw [hsplit0]; exact minifyFont_noSlash pre size _ fam0 hp hne hsp' hm hqd, ?_⟩
                  have := fontDen_out pre size [] _ fam0 normalTok fs d hp hs hsz hfam hm hff hden (Or.inl ⟨rfl, rfl⟩)
                  simpa using this
              · simp only [Option.some.injEq, Prod.mk.injEq] at hlf
                obtain ⟨rfl, rfl⟩ := hlf
                have hsp' : fontSplit (pre ++ size :: rest) = pre.length := by
                  rw [← hsplit0, hsp]; simp
                refine ⟨_, by rw [hsplit0]; exact minifyFont_noSlash pre size _ fam0 hp hne hsp' hm hqd, ?_⟩
                have := fontDen_out pre size [] _ fam0 normalTok fs d hp hs hsz hfam hm hff hden (Or.inl ⟨rfl, rfl⟩)
                simpa using this


end FontWhole

end Verif.Proofs.CssShorthand

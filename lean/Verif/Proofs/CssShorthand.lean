import Verif.Model.CssShorthand
import Verif.Spec.CssShorthandSpec
/-!
# Lemmas about the `font` case (C04B)

`fillPre_fontPre`: the rewrite of the tokens in front of the font size — `normal` removed, `bold` → `700`, `400`
removed — fills the component slots of the specification (`Spec.CssShorthand.fillPre`) with the same values.
Induction over the token list; invariant: as long as no token has set the weight it has its initial value 400.
-/
namespace Verif.Proofs.CssShorthand
open Verif.Spec.CssValue (TT Tok lower Weight fontWeightVal numVal)
open Verif.Model.Css Verif.Model.CssShorthand Verif.Spec.CssShorthand


theorem known_normal : known (Verif.Model.Css.S "normal") = Verif.Model.Css.S "normal" := by decide +kernel
theorem known_bold : known (Verif.Model.Css.S "bold") = Verif.Model.Css.S "bold" := by decide +kernel

theorem identOf_eq {t : Tok} {k : List Char} (h : identOf t = k) (hk : k ≠ []) : t.tt = .ident ∧ lower t.data = k := by
  unfold identOf at h
  by_cases ht : (t.tt == TT.ident) = true
  · simp only [ht, if_true] at h
    unfold known at h
    split at h
    · exact ⟨by simpa using ht, h⟩
    · exact absurd h.symm hk
  · simp only [ht, Bool.false_eq_true, if_false] at h
    exact absurd h.symm hk



theorem preSlot_normal {t : Tok} (h1 : t.tt = .ident) (h2 : lower t.data = Verif.Model.Css.S "normal") :
    preSlot t = some .normal := by
  rcases t with ⟨tt, d, a⟩
  simp only [Tok.tt, Tok.data] at h1 h2
  subst h1
  simp only [preSlot, Tok.tt, Tok.data, h2]
  decide

theorem preSlot_bold {t : Tok} (h1 : t.tt = .ident) (h2 : lower t.data = Verif.Model.Css.S "bold") :
    preSlot t = some .weight ∧ fontWeightVal t = some (.abs 700) := by
  rcases t with ⟨tt, d, a⟩
  simp only [Tok.tt, Tok.data] at h1 h2
  subst h1
  simp only [preSlot, fontWeightVal, Tok.tt, Tok.data, h2]
  decide

theorem preSlot_num (s : String) (a : List Tok) (q : Rat) (hq : numVal s.toList = some q) (h1 : 1 ≤ q) (h2 : q ≤ 1000) :
    preSlot (.mk .number s.toList a) = some .weight ∧ fontWeightVal (.mk .number s.toList a) = some (.abs q) := by
  simp [preSlot, fontWeightVal, Tok.tt, Tok.data, hq, h1, h2]



theorem n400 : numVal "400".toList = some 400 := by decide +kernel
theorem n700 : numVal "700".toList = some 700 := by decide +kernel

theorem fillPre_fontPre : ∀ (pre : List Tok) (d : FontDen) (used used' : List PreSlot) (r : FontDen),
    (∀ s, s ∈ used' → s ∈ used) → used'.length ≤ used.length →
    (PreSlot.weight ∉ used → d.weight = .abs 400) →
    fillPre pre d used = some r → fillPre (pre.filterMap fontPreTok) d used' = some r := by
  intro pre
  induction pre with
  | nil => intro d used used' r _ _ _ h; simpa [fillPre] using h
  | cons t rest ih =>
    intro d used used' r hsub hlen hinv h
    by_cases hn : identOf t = Verif.Model.Css.S "normal"
    · -- `normal`: removed
      obtain ⟨h1, h2⟩ := identOf_eq hn (by decide)
      have hp := preSlot_normal h1 h2
      simp only [fillPre, hp] at h
      split at h
      · simp at h
      · simp only [List.filterMap_cons, fontPreTok, hn]
        refine ih d (.normal :: used) used' r ?_ ?_ ?_ h
        · intro s hs; exact List.mem_cons_of_mem _ (hsub s hs)
        · simp only [List.length_cons]; omega
        · intro hw; apply hinv; intro hm; exact hw (List.mem_cons_of_mem _ hm)
    · by_cases hb : identOf t = Verif.Model.Css.S "bold"
      · -- `bold`: 700
        obtain ⟨h1, h2⟩ := identOf_eq hb (by decide)
        obtain ⟨hp, hw⟩ := preSlot_bold h1 h2
        obtain ⟨hp', hw'⟩ := preSlot_num "700" t.args 700 n700 (by decide) (by decide)
        simp only [fillPre, hp, hw] at h
        split at h
        · simp at h
        · rename_i hc
          have e1 : (Verif.Model.Css.S "bold" == Verif.Model.Css.S "normal") = false := by decide
          simp only [List.filterMap_cons, fontPreTok, hb, e1, Bool.false_eq_true, if_false, beq_self_eq_true, if_true]
          have e700 : Verif.Model.Css.S "700" = "700".toList := rfl
          rw [e700]
          simp only [fillPre, hp', hw']
          simp only [List.contains_eq_mem, Bool.or_eq_true, decide_eq_true_eq, not_or, ge_iff_le, Nat.not_le] at hc
          have hc1 : PreSlot.weight ∉ used' := fun hm => hc.1 (hsub _ hm)
          have hc2 : ¬ (4 ≤ used'.length) := by omega
          simp [hc1, hc2]
          refine ih _ (.weight :: used) (.weight :: used') r ?_ ?_ ?_ h
          · intro s hs
            rcases List.mem_cons.mp hs with hs | hs
            · exact hs ▸ List.mem_cons_self
            · exact List.mem_cons_of_mem _ (hsub s hs)
          · simp only [List.length_cons]; omega
          · intro hw; exact absurd List.mem_cons_self hw
      · have e2 : (identOf t == Verif.Model.Css.S "normal") = false := by simpa using hn
        have e3 : (identOf t == Verif.Model.Css.S "bold") = false := by simpa using hb
        have hmono : ∀ s', s' ∈ used' → s' ∈ used := hsub
        by_cases h4 : (t.tt == TT.number && t.data == Verif.Model.Css.S "400") = true
        · -- `400`: removed, the weight slot keeps its initial value
          rcases t with ⟨tt, data, args⟩
          simp only [Tok.tt, Tok.data, Bool.and_eq_true, beq_iff_eq] at h4
          obtain ⟨h41, h42⟩ := h4
          subst h41 h42
          obtain ⟨hp', hw'⟩ := preSlot_num "400" args 400 n400 (by decide) (by decide)
          have e400 : Verif.Model.Css.S "400" = "400".toList := rfl
          rw [e400] at h e2 e3 ⊢
          simp only [fillPre, hp', hw'] at h
          split at h
          · simp at h
          · rename_i hc
            simp only [List.contains_eq_mem, Bool.or_eq_true, decide_eq_true_eq, not_or, ge_iff_le, Nat.not_le] at hc
            have hd : ({ d with weight := Weight.abs 400 } : FontDen) = d := by
              have := hinv hc.1
              cases d; simp_all
            simp only [Option.map_some, hd] at h
            simp only [List.filterMap_cons, fontPreTok, e2, e3, Bool.false_eq_true, if_false, Tok.tt, Tok.data, e400,
              beq_self_eq_true, Bool.and_self, if_true]
            refine ih d (.weight :: used) used' r ?_ ?_ ?_ h
            · intro s hs; exact List.mem_cons_of_mem _ (hsub s hs)
            · simp only [List.length_cons]; omega
            · intro hw; exact absurd List.mem_cons_self hw
        · -- any other token is kept
          have e4 : (t.tt == TT.number && t.data == Verif.Model.Css.S "400") = false := by simpa using h4
          simp only [List.filterMap_cons, fontPreTok, e2, e3, e4, Bool.false_eq_true, if_false]
          simp only [fillPre] at h ⊢
          cases hps : preSlot t with
          | none => simp [hps] at h
          | some s =>
            simp only [hps] at h ⊢
            cases s
            · -- normal
              simp only at h ⊢
              split at h
              · simp at h
              · rename_i hc
                have hc2 : ¬ used'.length ≥ 4 := by omega
                simp only [hc2, if_false]
                refine ih d (.normal :: used) (.normal :: used') r ?_ ?_ ?_ h
                · intro s hs
                  rcases List.mem_cons.mp hs with hs | hs
                  · exact hs ▸ List.mem_cons_self
                  · exact List.mem_cons_of_mem _ (hsub s hs)
                · simp only [List.length_cons]; omega
                · intro hw; apply hinv; intro hm; exact hw (List.mem_cons_of_mem _ hm)
            all_goals
              simp only at h ⊢
              split at h
              · simp at h
              · rename_i hc
                simp only [List.contains_eq_mem, Bool.or_eq_true, decide_eq_true_eq, not_or, ge_iff_le, Nat.not_le] at hc
                have hc1 : ¬ _ ∈ used' := fun hm => hc.1 (hsub _ hm)
                have hc2 : ¬ (4 ≤ used'.length) := by omega
                simp only [List.contains_eq_mem, hc1, decide_false, Bool.false_or, ge_iff_le, decide_eq_true_eq, hc2, if_false]
                first
                | (refine ih _ (_ :: used) (_ :: used') r ?_ ?_ ?_ h
                   · intro s hs
                     rcases List.mem_cons.mp hs with hs | hs
                     · exact hs ▸ List.mem_cons_self
                     · exact List.mem_cons_of_mem _ (hsub s hs)
                   · simp only [List.length_cons]; omega
                   · intro hw
                     have : PreSlot.weight ∉ used := fun hm => hw (List.mem_cons_of_mem _ hm)
                     exact hinv this)
                | (cases hfw : fontWeightVal t with
                   | none => simp [hfw] at h
                   | some w =>
                     simp only [hfw, Option.map_some] at h ⊢
                     refine ih _ (.weight :: used) (.weight :: used') r ?_ ?_ ?_ h
                     · intro s hs
                       rcases List.mem_cons.mp hs with hs | hs
                       · exact hs ▸ List.mem_cons_self
                       · exact List.mem_cons_of_mem _ (hsub s hs)
                     · simp only [List.length_cons]; omega
                     · intro hw; exact absurd List.mem_cons_self hw)

end Verif.Proofs.CssShorthand

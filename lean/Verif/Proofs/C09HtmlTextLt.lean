import Verif.Model.Html
import Verif.Spec.C09HtmlShape
import Verif.Proofs.HtmlWs
/-!
# C09 / HTML — a text without `<` is written without `<`: `&lt;`, `&#60;`, `&LT` … stay escaped

html.go replaces character references in text with `TextRevEntitiesMap`, which maps the byte `<` back to `&lt;`.  Table facts
(whole regenerated tables, checked by the kernel): no replacement of `EntitiesMap` other than the single byte `<` contains `<`,
no replacement of the reverse map contains `<`, and the reverse map has a row for `<`.
-/
namespace Verif.Proofs.C09HtmlTextLt
open Verif.Model.HtmlAttr Verif.Model.Html Verif.Spec.C09HtmlShape Verif.Gen
set_option maxRecDepth 1000000

def NoLt (l : List Char) : Prop := '<' ∉ l

/-- the table facts -/
def tablesNoLt (em : EntMap) (rev : RevMap) : Bool :=
  em.all (fun e => e.2 == ['<'] || !e.2.contains '<') && rev.all (fun e => !e.2.contains '<') && (rev.lookup '<').isSome

theorem text_tables_no_lt : tablesNoLt C03Tables.entitiesMap C03Tables.textRevEntitiesMap = true := by
  decide +kernel

theorem digit_ne_lt (d : Nat) (h : d < 10) : Char.ofNat (48 + d) ≠ '<' := by
  have : d = 0 ∨ d = 1 ∨ d = 2 ∨ d = 3 ∨ d = 4 ∨ d = 5 ∨ d = 6 ∨ d = 7 ∨ d = 8 ∨ d = 9 := by omega
  rcases this with e | e | e | e | e | e | e | e | e | e <;> subst e <;> decide

theorem natDigits_no_lt (n : Nat) : NoLt (natDigits n) := by
  unfold NoLt
  fun_induction natDigits n with
  | case1 n h =>
    simp only [List.mem_singleton]
    exact fun e => digit_ne_lt n h e.symm
  | case2 n h ih =>
    simp only [List.mem_append, List.mem_singleton, not_or]
    exact ⟨ih, fun e => digit_ne_lt (n % 10) (Nat.mod_lt _ (by decide)) e.symm⟩

theorem lookup_mem {α β} [BEq α] [LawfulBEq α] (l : List (α × β)) (a : α) (b : β) (h : l.lookup a = some b) : (a, b) ∈ l := by
  induction l with
  | nil => simp at h
  | cons x l ih =>
    obtain ⟨k, v⟩ := x
    simp only [List.lookup] at h
    split at h
    · next heq => cases h; have := eq_of_beq heq; subst this; exact List.mem_cons_self
    · exact List.mem_cons_of_mem _ (ih h)

/-- what the first stage of `replaceEntities` computes: a single byte, or bytes without `<` -/
theorem refBody_no_lt (em : EntMap) (hem : ∀ e ∈ em, e.2 = ['<'] ∨ NoLt e.2) (s0 : List Char) (r : List Char) (k : Nat)
    (h : refBody em s0 = some (r, k)) : (∃ c, r = [c]) ∨ NoLt r := by
  unfold refBody at h
  split at h
  · next c rest =>
    split at h
    · split at h
      · next x hx =>
        split at h
        · -- hexadecimal
          unfold refBodyHex at h
          simp only at h
          split at h
          · cases h
          · split at h
            · cases h; exact Or.inl ⟨_, rfl⟩
            · cases h
              right
              intro hm
              rcases List.mem_cons.mp hm with e | hm
              · exact absurd e (by decide)
              · rcases List.mem_cons.mp hm with e | hm
                · exact absurd e (by decide)
                · rcases List.mem_append.mp hm with hm | hm
                  · exact natDigits_no_lt _ hm
                  · simp only [List.mem_singleton] at hm; exact absurd hm (by decide)
        · unfold refBodyDec at h
          simp only at h
          split at h
          · cases h
          · cases h; exact Or.inl ⟨_, rfl⟩
      · cases h
    · unfold refBodyNamed at h
      simp only at h
      split at h
      · cases h
      · split at h
        · next r' hl =>
          cases h
          have hmem : ((c :: rest).takeWhile isAlnum, r) ∈ em := lookup_mem _ _ _ hl
          rcases hem _ hmem with e | e
          · exact Or.inl ⟨_, e⟩
          · exact Or.inr e
        · cases h
  · cases h

structure Tables (em : EntMap) (rev : RevMap) : Prop where
  emOk : ∀ e ∈ em, e.2 = ['<'] ∨ NoLt e.2
  revOk : ∀ e ∈ rev, NoLt e.2
  ltRow : (List.lookup '<' rev).isSome = true

theorem tables_of_check (em : EntMap) (rev : RevMap) (h : tablesNoLt em rev = true) : Tables em rev := by
  simp only [tablesNoLt, Bool.and_eq_true, List.all_eq_true, Bool.or_eq_true, beq_iff_eq, Bool.not_eq_true',
    List.contains_eq_mem, decide_eq_false_iff_not] at h
  exact ⟨fun e he => h.1.1 e he, fun e he => h.1.2 e he, h.2⟩

theorem text_tables : Tables C03Tables.entitiesMap C03Tables.textRevEntitiesMap :=
  tables_of_check _ _ text_tables_no_lt

/-- a replacement never contains `<` -/
theorem replAt_no_lt (em : EntMap) (rev : RevMap) (ht : Tables em rev) (s0 r : List Char) (k : Nat)
    (h : replAt em rev s0 = some (r, k)) : NoLt r := by
  unfold replAt at h
  split at h
  · cases h
  · next r0 k0 hb =>
    have hr0 := refBody_no_lt em ht.emOk s0 r0 k0 hb
    split at h
    · split at h
      · next c =>
        split at h
        · next q hq =>
          split at h
          · cases h
          · cases h; exact ht.revOk _ (lookup_mem _ _ _ hq)
        · next hq =>
          split at h
          · cases h
          · cases h
            intro hm
            simp only [List.mem_singleton] at hm
            subst hm
            have := ht.ltRow
            rw [hq] at this; cases this
      · next hns =>
        cases h
        rcases hr0 with ⟨c, e⟩ | e
        · exact absurd e (hns c)
        · exact e
    · cases h

theorem replWsEnt_no_lt (em : EntMap) (rev : RevMap) (ht : Tables em rev) :
    ∀ (b : List Char) (k : Nat) (inWs : Bool), NoLt b → NoLt (replWsEnt em rev k inWs b) := by
  intro b
  induction b with
  | nil => intro k inWs _; cases k <;> simp [replWsEnt, NoLt]
  | cons c b ih =>
    intro k inWs hb
    have hb' : NoLt b := fun hm => hb (List.mem_cons_of_mem _ hm)
    have hc : c ≠ '<' := fun e => hb (e ▸ List.mem_cons_self)
    cases k with
    | succ k => simp only [replWsEnt]; exact ih k false hb'
    | zero =>
      simp only [replWsEnt]
      split
      · split
        · exact ih 0 true hb'
        · intro hm
          rcases List.mem_cons.mp hm with e | hm
          · split at e <;> exact absurd e (by decide)
          · exact ih 0 true hb' hm
      · split
        · split
          · next r k' hr =>
            intro hm
            rcases List.mem_append.mp hm with hm | hm
            · exact replAt_no_lt em rev ht _ _ _ hr hm
            · exact ih k' false hb' hm
          · intro hm
            rcases List.mem_cons.mp hm with e | hm
            · exact absurd e (by decide)
            · exact ih 0 false hb' hm
        · intro hm
          rcases List.mem_cons.mp hm with e | hm
          · exact hc e.symm
          · exact ih 0 false hb' hm

theorem collapseWs_no_lt : ∀ (b : List Char) (inWs : Bool), NoLt b → NoLt (collapseWs inWs b) := by
  intro b
  induction b with
  | nil => intro _ _; simp [collapseWs, NoLt]
  | cons c b ih =>
    intro inWs hb
    have hb' : NoLt b := fun hm => hb (List.mem_cons_of_mem _ hm)
    have hc : c ≠ '<' := fun e => hb (e ▸ List.mem_cons_self)
    simp only [collapseWs]
    split
    · split
      · exact ih true hb'
      · intro hm
        rcases List.mem_cons.mp hm with e | hm
        · split at e <;> exact absurd e (by decide)
        · exact ih true hb' hm
    · intro hm
      rcases List.mem_cons.mp hm with e | hm
      · exact hc e.symm
      · exact ih false hb' hm

theorem textCollapsed_no_lt (data : List Char) (h : NoLt data) : NoLt (textCollapsed data) := by
  unfold textCollapsed
  split
  · exact collapseWs_no_lt data false h
  · exact replWsEnt_no_lt _ _ text_tables data 0 false h

theorem textNormal_no_lt (keepWs omitSpace : Bool) (data : List Char) (rest : List HTok) (h : NoLt data) :
    NoLt (textNormal keepWs omitSpace data rest).2 := by
  have h0 := textCollapsed_no_lt data h
  unfold textNormal
  simp only
  have h1 : NoLt (if omitSpace && headIs isWhitespace (textCollapsed data) then (textCollapsed data).drop 1 else textCollapsed data) := by
    split
    · exact fun hm => h0 (List.mem_of_mem_drop hm)
    · exact h0
  generalize (if omitSpace && headIs isWhitespace (textCollapsed data) then (textCollapsed data).drop 1 else textCollapsed data) = d1 at h1
  split
  · simp [NoLt]
  · split
    · split
      · exact fun hm => h1 ((List.dropLast_sublist d1).subset hm)
      · exact h1
    · exact h1

theorem textSafe_of_no_lt (l : List Char) (h : NoLt l) : textSafe l = true := by
  induction l with
  | nil => rfl
  | cons c l ih =>
    have hc : c ≠ '<' := fun e => h (e ▸ List.mem_cons_self)
    simp only [textSafe, Bool.and_eq_true, Bool.or_eq_true, bne_iff_ne, ne_eq]
    exact ⟨Or.inl hc, ih (fun hm => h (List.mem_cons_of_mem _ hm))⟩

/-- **html_text_lt_stays_escaped.**  For every option set, model state in which an ordinary text token is processed
    (`textMode = 3`: not dropped, not inside a raw-text element, not in `pre`) and text token WITHOUT a raw `<` — whatever
    references it holds (`&lt;`, `&#60;`, `&#x3C;`, `&LT`, references to other bytes), with or without reference glue,
    whatever white space is collapsed or trimmed —: the bytes written contain no `<` at all, so they are `textSafe`: every
    reference to `<` stays a reference, no tag can appear.  (With a raw `<` in the input this is false: K-C09-HTML-10.)
    Uses the whole regenerated `EntitiesMap` / `TextRevEntitiesMap` (kernel-checked: no replacement contains `<` except the
    byte itself, which the reverse map turns back into `&lt;`). -/
theorem html_text_lt_stays_escaped (o : Opts) (ext : Ext) (sub : Sub) (st : St) (data : List Char) (tmpl : Bool)
    (rest : List HTok) (h1 : st.dropEnd = false) (h2 : Verif.Proofs.HtmlWs.textMode st tmpl = 3) (hd : NoLt data) :
    ∃ st' out, step o ext sub st (.text data tmpl) rest = .ok (st', out) ∧ NoLt out ∧ textSafe out = true := by
  obtain ⟨st', out, hs, _, _, _, _, _, h3⟩ := Verif.Proofs.HtmlWs.step_text_mode o ext sub st data tmpl rest h1
  have := (h3 h2).2
  refine ⟨st', out, hs, ?_, ?_⟩
  · rw [this]; exact textNormal_no_lt _ _ data rest hd
  · exact textSafe_of_no_lt _ (by rw [this]; exact textNormal_no_lt _ _ data rest hd)

/-! ## `textSafe` is preserved (after 6635adc: a text containing `<&` keeps its references) -/

theorem textSafe_tail (c : Char) (l : List Char) (h : textSafe (c :: l) = true) : textSafe l = true := by
  simp only [textSafe, Bool.and_eq_true] at h; exact h.2

theorem textSafe_cons_ne' {c : Char} (h : c ≠ '<') (w : List Char) : textSafe (c :: w) = textSafe w := by
  simp [textSafe, h]

/-- head condition: the byte that follows a `<` -/
def headOK : List Char → Bool
  | d :: _ => !opensMarkup d
  | [] => false

theorem textSafe_lt (Y : List Char) : textSafe ('<' :: Y) = (headOK Y && textSafe Y) := by
  cases Y <;> simp [textSafe, headOK]

theorem textSafe_append_noLt (r Y : List Char) (h : NoLt r) (hr : r ≠ [] → True) : textSafe (r ++ Y) = textSafe Y := by
  induction r with
  | nil => rfl
  | cons c r ih =>
    have hc : c ≠ '<' := fun e => h (e ▸ List.mem_cons_self)
    rw [List.cons_append, textSafe_cons_ne' hc]
    exact ih (fun hm => h (List.mem_cons_of_mem _ hm)) (fun _ => trivial)

theorem contain_tail (p : List Char) (c : Char) (r : List Char) (h : bytesContain p (c :: r) = false) :
    bytesContain p r = false := by
  simp only [bytesContain, Bool.or_eq_false_iff] at h; exact h.2

theorem sp_ok (b : Bool) : opensMarkup (if b then '\n' else ' ') = false := by cases b <;> decide

theorem replWsEnt_textSafe (em : EntMap) (rev : RevMap) (ht : Tables em rev) :
    ∀ (b : List Char) (k : Nat) (inWs : Bool), textSafe b = true → bytesContain ['<', '&'] b = false →
      textSafe (replWsEnt em rev k inWs b) = true := by
  intro b
  induction b with
  | nil => intro k inWs _ _; cases k <;> rfl
  | cons c b ih =>
    intro k inWs hb hn
    have hb' := textSafe_tail c b hb
    have hn' := contain_tail _ c b hn
    cases k with
    | succ k => simp only [replWsEnt]; exact ih k false hb' hn'
    | zero =>
      simp only [replWsEnt]
      split
      · next hws =>
        split
        · exact ih 0 true hb' hn'
        · rw [textSafe_cons_ne' (by split <;> decide)]; exact ih 0 true hb' hn'
      · next hws =>
        split
        · split
          · next r k' hr =>
            rw [textSafe_append_noLt r _ (replAt_no_lt em rev ht _ _ _ hr) (fun _ => trivial)]
            exact ih k' false hb' hn'
          · rw [textSafe_cons_ne' (by decide)]; exact ih 0 false hb' hn'
        · next hamp =>
          by_cases hc : c = '<'
          · subst hc
            rw [textSafe_lt, Bool.and_eq_true]
            refine ⟨?_, ih 0 false hb' hn'⟩
            rw [textSafe_lt, Bool.and_eq_true] at hb
            cases b with
            | nil => simp [headOK] at hb
            | cons d b'' =>
              have hd : opensMarkup d = false := by simpa [headOK] using hb.1
              have hda : d ≠ '&' := by
                intro e; subst e
                simp [bytesContain, List.isPrefixOf] at hn
              simp only [replWsEnt]
              split
              · simp only [Bool.false_eq_true, if_false, headOK, sp_ok, Bool.not_false]
              · simp only [hda, decide_false, Bool.false_and, Bool.false_eq_true, if_false, headOK, hd, Bool.not_false]
          · rw [textSafe_cons_ne' hc]; exact ih 0 false hb' hn'

theorem collapseWs_textSafe : ∀ (b : List Char) (inWs : Bool), textSafe b = true → textSafe (collapseWs inWs b) = true := by
  intro b
  induction b with
  | nil => intro _ _; rfl
  | cons c b ih =>
    intro inWs hb
    have hb' := textSafe_tail c b hb
    simp only [collapseWs]
    split
    · split
      · exact ih true hb'
      · rw [textSafe_cons_ne' (by split <;> decide)]; exact ih true hb'
    · next hws =>
      by_cases hc : c = '<'
      · subst hc
        rw [textSafe_lt, Bool.and_eq_true]
        refine ⟨?_, ih false hb'⟩
        rw [textSafe_lt, Bool.and_eq_true] at hb
        cases b with
        | nil => simp [headOK] at hb
        | cons d b'' =>
          have hd : opensMarkup d = false := by simpa [headOK] using hb.1
          simp only [collapseWs]
          split
          · simp only [Bool.false_eq_true, if_false, headOK, sp_ok, Bool.not_false]
          · simp only [headOK, hd, Bool.not_false]
      · rw [textSafe_cons_ne' hc]; exact ih false hb'

/-- **the reference / white-space stage never creates markup**: `textSafe` data stays `textSafe` — a text with `<&` keeps
    its references (6635adc), elsewhere a decoded reference never lands directly behind a `<` and never is a `<` -/
theorem textCollapsed_textSafe (data : List Char) (h : textSafe data = true) : textSafe (textCollapsed data) = true := by
  unfold textCollapsed
  split
  · exact collapseWs_textSafe data false h
  · next hc =>
    simp only [Bool.or_eq_true, not_or, Bool.not_eq_true] at hc
    exact replWsEnt_textSafe _ _ text_tables data 0 false h hc.2

theorem textSafe_snoc (l : List Char) (y : Char) (hy : opensMarkup y = false) (hy2 : y ≠ '<') :
    ∀ x, textSafe (l ++ [x]) = true → textSafe (l ++ [y]) = true := by
  induction l with
  | nil => intro x _; simp [textSafe, hy2]
  | cons c l ih =>
    intro x h
    by_cases hc : c = '<'
    · subst hc
      rw [List.cons_append, textSafe_lt, Bool.and_eq_true] at h ⊢
      refine ⟨?_, ih x h.2⟩
      cases l with
      | nil => simp [headOK, hy]
      | cons d l' => simpa [headOK] using h.1
    · rw [List.cons_append, textSafe_cons_ne' hc] at h ⊢; exact ih x h

theorem textSafe_snoc_space (l : List Char) (h : textSafe l = true) : textSafe (l ++ [' ']) = true := by
  induction l with
  | nil => rfl
  | cons c l ih =>
    by_cases hc : c = '<'
    · subst hc
      rw [textSafe_lt, Bool.and_eq_true] at h
      rw [List.cons_append, textSafe_lt, Bool.and_eq_true]
      refine ⟨?_, ih h.2⟩
      cases l with
      | nil => simp [headOK] at h
      | cons d l' => simpa [headOK] using h.1
    · rw [textSafe_cons_ne' hc] at h; rw [List.cons_append, textSafe_cons_ne' hc]; exact ih h

theorem ws_not_opener (x : Char) (h : isWhitespace x = true) : opensMarkup x = false ∧ x ≠ '<' := by
  simp only [isWhitespace, Bool.or_eq_true, decide_eq_true_eq] at h
  rcases h with (((h | h) | h) | h) | h <;> subst h <;> exact ⟨by decide, by decide⟩

theorem textNormal_textSafe (keepWs omitSpace : Bool) (data : List Char) (rest : List HTok) (h : textSafe data = true) :
    textSafe ((textNormal keepWs omitSpace data rest).2 ++ [' ']) = true := by
  have h0 := textCollapsed_textSafe data h
  unfold textNormal
  simp only
  have h1 : textSafe (if omitSpace && headIs isWhitespace (textCollapsed data) then (textCollapsed data).drop 1 else textCollapsed data) = true := by
    split
    · cases hd : textCollapsed data with
      | nil => rfl
      | cons c r => rw [hd] at h0; exact textSafe_tail c r h0
    · exact h0
  generalize (if omitSpace && headIs isWhitespace (textCollapsed data) then (textCollapsed data).drop 1 else textCollapsed data) = d1 at h1
  split
  · rfl
  · next l hl =>
    split
    · next hws =>
      split
      · -- the trailing white space is removed: `d1 = dropLast ++ [l]`
        have hd : d1 = d1.dropLast ++ [l] := by
          have hne : d1 ≠ [] := by intro e; rw [e] at hl; cases hl
          have h5 := List.dropLast_concat_getLast hne
          have h6 : d1.getLast hne = l := by
            have := List.getLast?_eq_some_getLast hne
            rw [hl] at this; exact (Option.some.inj this).symm
          rw [h6] at h5; exact h5.symm
        have hx := ws_not_opener l hws
        have : textSafe (d1.dropLast ++ [l]) = true := by rw [← hd]; exact h1
        exact textSafe_snoc d1.dropLast ' ' (by decide) (by decide) l this
      · exact textSafe_snoc_space d1 h1
    · exact textSafe_snoc_space d1 h1

/-- **html_text_safe_preserved** (replaces the K-C09-HTML-10 counterexample; html.go 6635adc).  For every option set, model
    state in which an ordinary text token is processed (`textMode = 3`) and text token all of whose `<` are followed by a
    byte that opens no markup (lexer contract: `textSafe`; the `&` of `<&#98;>` is such a byte): the bytes written, followed
    by any byte that opens no markup, are `textSafe` again — no tag, end tag, comment or processing instruction is created
    inside the piece: a text with `<&` keeps its references, elsewhere no decoded reference is or follows a `<`.  (Only the
    LAST byte can be a bare `<` — when the white space behind it was trimmed; what follows the piece then decides:
    K-C09-HTML-4.) -/
theorem html_text_safe_preserved (o : Opts) (ext : Ext) (sub : Sub) (st : St) (data : List Char) (tmpl : Bool)
    (rest : List HTok) (h1 : st.dropEnd = false) (h2 : Verif.Proofs.HtmlWs.textMode st tmpl = 3)
    (hd : textSafe data = true) :
    ∃ st' out, step o ext sub st (.text data tmpl) rest = .ok (st', out) ∧ textSafe (out ++ [' ']) = true := by
  obtain ⟨st', out, hs, _, _, _, _, _, h3⟩ := Verif.Proofs.HtmlWs.step_text_mode o ext sub st data tmpl rest h1
  have := (h3 h2).2
  exact ⟨st', out, hs, by rw [this]; exact textNormal_textSafe _ _ data rest hd⟩

/-- the former counterexample: `<&#98;>x` stays as it is -/
example : textSafe "<&#98;>x".toList = true ∧ textCollapsed "<&#98;>x".toList = "<&#98;>x".toList ∧
    textCollapsed "a  <&#47;b>  &amp; c".toList = "a <&#47;b> &amp; c".toList := by
  decide +kernel

/-- non-vacuity: references to `<` in three spellings are all written as `&lt;`, `&amp;` is decoded, white space collapsed -/
example : NoLt "x &#60;b  y &amp; z &#x3C;/p &LT;!".toList ∧
    textCollapsed "x &#60;b  y &amp; z &#x3C;/p &LT;!".toList = "x &lt;b y & z &lt;/p &lt;!".toList := by
  refine ⟨by unfold NoLt; decide, by decide +kernel⟩

end Verif.Proofs.C09HtmlTextLt

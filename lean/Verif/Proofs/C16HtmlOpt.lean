import Verif.Proofs.C16Html
/-!
# C16 — per-option lemmas about `Verif.Model.Html` (one step of the token loop / one attribute)

The property theorems in `Props/C16.lean` are these lemmas and their whole-document forms (through
`Proofs.C16Html.trace`).  Core Lean only.
-/
namespace Verif.Proofs.C16HtmlOpt
open Verif.Model.Html Verif.Model.HtmlAttr Verif.Proofs.C16Html Verif.Gen

/-! ## comments -/

theorem keep_comments_step (o : Opts) (ext : Ext) (sub : Sub) (st : St) (data text : List Char) (rest : List HTok)
    (hk : o.keepComments = true) (hd : st.dropEnd = false) :
    ∃ st', step o ext sub st (.comment data text) rest = .ok (st', data) := by
  simp only [step, hd, Bool.false_eq_true, if_false, commentOut, hk, if_true, bind, Except.bind]
  exact ⟨_, rfl⟩

/-- a server-side include: `<!--#…-->` with at least one more byte -/
def isSSI (text : List Char) : Bool := 1 < text.length && text.head? = some '#'

/-- what `KeepSpecialComments` keeps of a special comment: the comment itself, or — for a complete
    downlevel-hidden conditional comment `<!--[if …]>inner<![endif]-->` — the comment with `inner` minified as HTML
    (`inner'` is the result of the recursive call, an `ext` entry) -/
def SpecialKept (ext : Ext) (data out : List Char) : Prop :=
  out = data ∨
  ∃ pre inner suf inner', data = pre ++ inner ++ suf ∧ callExt ext "html" inner = .ok inner' ∧
    out = pre ++ inner' ++ suf ∧ (s "<!--[if ").isPrefixOf pre = true ∧ suf = s "<![endif]-->"

theorem take_drop_split (data : List Char) (b e : Nat) (h : b < e) :
    data = data.take b ++ (data.take e).drop b ++ data.drop e := by
  have h1 : data.take b = (data.take e).take b := by
    rw [List.take_take]; congr 1; omega
  rw [h1, List.take_append_drop, List.take_append_drop]

theorem isSuffixOf_drop (suf data : List Char) (h : suf.isSuffixOf data = true) :
    data.drop (data.length - suf.length) = suf := by
  rw [List.isSuffixOf_iff_suffix] at h
  obtain ⟨t, rfl⟩ := h
  simp

theorem keep_special_commentOut (o : Opts) (ext : Ext) (data text out : List Char)
    (hk : o.keepSpecialComments = true) (hs : isSpecialComment text = true ∨ isSSI text = true)
    (h : commentOut o ext data text = .ok out) : SpecialKept ext data out := by
  unfold commentOut at h
  by_cases hkc : o.keepComments = true
  · rw [if_pos hkc] at h; cases h; exact Or.inl rfl
  · rw [if_neg hkc, if_pos hk] at h
    by_cases hsp : isSpecialComment text = true
    · rw [if_pos hsp] at h
      split at h
      · next hc =>
        simp only at h
        split at h
        · next hlt =>
          simp only [bind, Except.bind] at h
          split at h
          · cases h
          · next inner' hi =>
            -- the original stays when the minified content would end the comment (a80add2)
            by_cases hend : (bytesContain (s "-->") inner' || bytesContain (s "--!>") inner') = true
            · simp only [hend, if_true] at h; cases h; exact Or.inl rfl
            simp only [hend, Bool.false_eq_true, if_false] at h
            cases h
            simp only [Bool.and_eq_true] at hc
            have hsuf := isSuffixOf_drop _ _ hc.2
            have hlen : (s "<![endif]-->").length = 12 := by decide
            rw [hlen] at hsuf
            refine Or.inr ⟨_, _, _, inner', take_drop_split data _ _ hlt, hi, rfl, ?_, hsuf⟩
            have hp := hc.1
            rw [List.isPrefixOf_iff_prefix] at hp ⊢
            obtain ⟨t, ht⟩ := hp
            have h8 : (s "<!--[if ").length = 8 := by decide
            have htw : List.takeWhile (fun x => x != '>') (s "<!--[if " ++ t) =
                s "<!--[if " ++ List.takeWhile (fun x => x != '>') t := by
              rw [List.takeWhile_append_of_pos]
              decide
            refine ⟨(t.take ((List.takeWhile (fun x => x != '>') data).length + 1 - 8)), ?_⟩
            rw [← ht, List.take_append, h8]
            congr 1
        · cases h; exact Or.inl rfl
      · cases h; exact Or.inl rfl
    · rw [if_neg hsp] at h
      split at h
      · cases h; exact Or.inl rfl
      · next hnssi =>
        exfalso
        rcases hs with hs | hs
        · exact hsp hs
        · apply hnssi
          simpa [isSSI] using hs

/-! ## end tags, document tags -/

theorem keep_end_tags_omit (o : Opts) (name : List Char) (rest : List HTok) (hk : o.keepEndTags = true) :
    omitEndTag o name rest = false := by
  simp [omitEndTag, hk]

theorem end_step_written (o : Opts) (ext : Ext) (sub : Sub) (st : St) (name data : List Char) (rest : List HTok)
    (hd : st.dropEnd = false) (h1 : isDroppedTag o name = false) (h2 : omitEndTag o name rest = false) :
    ∃ st', step o ext sub st (.endTag name data) rest = .ok (st', endTagBytes name data) := by
  simp only [step, hd, Bool.false_eq_true, if_false, endStep, h1, h2]
  exact ⟨_, rfl⟩

theorem doc_names (name : List Char) (h : name = s "html" ∨ name = s "head" ∨ name = s "body") :
    hashIs name "colgroup" = false ∧ alwaysOmitEnd.any (hashIs name) = false ∧ hashIs name "p" = false ∧
    hashIs name "optgroup" = false ∧ hashIs name "script" = false ∧ hashIs name "style" = false := by
  rcases h with h | h | h <;> subst h <;> decide

theorem keep_document_tags_dropped (o : Opts) (name : List Char) (hk : o.keepDocumentTags = true) :
    isDroppedTag o name = hashIs name "colgroup" := by
  simp [isDroppedTag, hk]

/-! ## quotes -/

def isQuoteChar (c : Char) : Bool := c = '"' || c = '\''

theorem keep_quotes_escape (b : List Char) (q : Quote) (hq : q ≠ .none) :
    ∃ c body, isQuoteChar c = true ∧ escapeAttrVal b q true = c :: body ++ [c] ∧
      (b.count q.char = 0 → c = q.char ∧ body = b) := by
  unfold escapeAttrVal
  simp only
  have hnq : ¬ (b.all (fun c => !needsQuote c) && (!true || q = .none)) = true := by
    simp [hq]
  rw [if_neg hnq]
  split
  · next h =>
    refine ⟨q.char, b, ?_, rfl, fun _ => ⟨rfl, rfl⟩⟩
    cases q <;> simp_all [isQuoteChar, Quote.char]
  · next h =>
    have hcount : ¬ b.count q.char = 0 := by
      intro hc
      apply h
      cases q with
      | none => exact absurd rfl hq
      | single => simp [Quote.char] at hc; simp [hc]
      | double => simp [Quote.char] at hc; simp [hc]
    split
    · exact ⟨'"', _, by decide, rfl, fun hc => absurd hc hcount⟩
    · exact ⟨'\'', _, by decide, rfl, fun hc => absurd hc hcount⟩

/-! ## whitespace -/

/-- nothing but all-whitespace text, comments and the doctype up to the end of the document -/
def onlyWsToEnd : List HTok → Bool
  | [] => true
  | .text d _ :: r => isAllWhitespace d && onlyWsToEnd r
  | .comment _ _ :: r => onlyWsToEnd r
  | .doctype :: r => onlyWsToEnd r
  | _ :: _ => false

theorem keepws_trimRight (rest : List HTok) (h : trimRight true rest = true) : onlyWsToEnd rest = true := by
  induction rest with
  | nil => rfl
  | cons t r ih =>
    cases t with
    | text d tm =>
      simp only [trimRight] at h
      split at h
      · next hw => simp only [onlyWsToEnd, hw, Bool.true_and]; exact ih h
      · cases h
    | template d => simp [trimRight] at h
    | startTag n a => simp [trimRight] at h
    | svg d => simp [trimRight] at h
    | math d => simp [trimRight] at h
    | endTag n d =>
      simp only [trimRight] at h
      split at h
      · cases h
      · simp at h
    | comment d t => simp only [trimRight] at h; simp only [onlyWsToEnd]; exact ih h
    | doctype => simp only [trimRight] at h; simp only [onlyWsToEnd]; exact ih h

theorem keepws_updOmitSpace (o : Opts) (name : List Char) (cur : Bool) (hk : o.keepWhitespace = true) :
    updOmitSpace o name cur = false := by
  simp [updOmitSpace, hk]

theorem getLast?_dropLast_append (l : List Char) (c : Char) (h : l.getLast? = some c) : l = l.dropLast ++ [c] := by
  have hne : l ≠ [] := by intro e; subst e; simp at h
  have := List.dropLast_concat_getLast hne
  rw [List.getLast?_eq_some_getLast hne] at h
  cases h
  exact this.symm

/-- the text branch with `KeepWhitespace`: the collapsed text is written, except that one leading whitespace byte
    is dropped only if the pending-space flag is set, and one trailing whitespace byte only if nothing but
    whitespace and comments follow up to the end of the document -/
theorem keepws_textNormal (om : Bool) (data : List Char) (rest : List HTok) :
    ∃ lead trail, textCollapsed data = lead ++ (textNormal true om data rest).2 ++ trail ∧
      lead.length ≤ 1 ∧ trail.length ≤ 1 ∧ lead.all isWhitespace = true ∧ trail.all isWhitespace = true ∧
      (lead ≠ [] → om = true) ∧ (trail ≠ [] → onlyWsToEnd rest = true ∨ (textNormal true om data rest).2 = []) := by
  unfold textNormal
  simp only
  by_cases hc : (om && headIs isWhitespace (textCollapsed data)) = true
  · -- leading byte dropped
    simp only [hc, if_true]
    simp only [Bool.and_eq_true] at hc
    obtain ⟨ho, hh⟩ := hc
    cases hd : textCollapsed data with
    | nil => rw [hd] at hh; simp [headIs] at hh
    | cons c r =>
      rw [hd] at hh
      simp only [headIs] at hh
      simp only [List.drop_succ_cons, List.drop_zero]
      cases hl : r.getLast? with
      | none => exact ⟨[c], [], by simp_all, by simp, by simp, by simp [hh], by simp, fun _ => ho, fun h => absurd rfl h⟩
      | some l =>
        simp only
        have hr := getLast?_dropLast_append r l hl
        split
        · next hw =>
          split
          · next htr =>
            refine ⟨[c], [l], ?_, by simp, by simp, by simp [hh], by simp [hw], fun _ => ho, fun _ => Or.inl (keepws_trimRight rest htr)⟩
            simp only [List.cons_append, List.nil_append]
            rw [← hr]
          · exact ⟨[c], [], by simp, by simp, by simp, by simp [hh], by simp, fun _ => ho, fun h => absurd rfl h⟩
        · exact ⟨[c], [], by simp, by simp, by simp, by simp [hh], by simp, fun _ => ho, fun h => absurd rfl h⟩
  · simp only [hc, Bool.false_eq_true, if_false]
    cases hl : (textCollapsed data).getLast? with
    | none =>
      have : textCollapsed data = [] := by simpa using hl
      exact ⟨[], [], by simp [this], by simp, by simp, by simp, by simp, fun h => absurd rfl h, fun h => absurd rfl h⟩
    | some l =>
      simp only
      have hr := getLast?_dropLast_append _ l hl
      split
      · next hw =>
        split
        · next htr =>
          refine ⟨[], [l], ?_, by simp, by simp, by simp, by simp [hw], fun h => absurd rfl h, fun _ => Or.inl (keepws_trimRight rest htr)⟩
          simp only [List.nil_append]
          exact hr
        · exact ⟨[], [], by simp, by simp, by simp, by simp, by simp, fun h => absurd rfl h, fun h => absurd rfl h⟩
      · exact ⟨[], [], by simp, by simp, by simp, by simp, by simp, fun h => absurd rfl h, fun h => absurd rfl h⟩

/-- the pending-space flag after the text branch is set only if the bytes written end with whitespace (or
    nothing was written) -/
theorem keepws_textNormal_flag (keep om : Bool) (data : List Char) (rest : List HTok)
    (h : (textNormal keep om data rest).1 = true) :
    (textNormal keep om data rest).2 = [] ∨
      ∃ l, (textNormal keep om data rest).2.getLast? = some l ∧ isWhitespace l = true := by
  unfold textNormal at h ⊢
  simp only at h ⊢
  split
  · exact Or.inl rfl
  · next l hl =>
    rw [hl] at h
    simp only at h
    split
    · next hw =>
      split
      · next htr => simp [hw, htr] at h
      · exact Or.inr ⟨l, hl, hw⟩
    · next hw => simp [hw] at h


/-! ## attributes -/

/-- what the write loop can write for one attribute: nothing, or ` name` followed — for a non-empty value of a
    non-boolean attribute — by `=` and the value as `EscapeAttrVal` renders it with `mustQuote = KeepQuotes ∨ isXML` -/
def AttrShape (o : Opts) (x : AttrSt) (out : List Char) : Prop :=
  out = [] ∨ ∃ val, out = ' ' :: x.name ++
    (if !val.isEmpty && !has (attrTraits x.a.name) C03Tables.booleanAttr then
      '=' :: escapeAttrVal val (origQuote x.a.data) (o.keepQuotes || isXmlAttr x.hash) else [])

/-- the reasons other than a default value for which the write loop drops an attribute of a known element: an
    empty `class`/`dir`/`id`/`name`/form-`action`, a `style` or event-handler attribute (dropped when its
    minified content is empty) -/
def nonDefaultDrop (tag : List Char) (x : AttrSt) : Bool :=
  tagTraits tag != 0 &&
  (((attrVal0 (has (attrTraits x.a.name) C03Tables.trimAttr) x.val).isEmpty &&
      (hashIs x.hash "class" || hashIs x.hash "dir" || hashIs x.hash "id" || hashIs x.hash "name" ||
        (hashIs x.hash "action" && hashIs tag "form"))) ||
   hashIs x.hash "style" || (2 < x.name.length && x.name.take 2 == s "on"))

theorem ite_bind_ok {α β : Type} (c : Prop) [Decidable c] (m1 m2 : Except String α) (k : α → Except String β)
    (r : β) (h : (if c then m1 >>= k else m2 >>= k) = .ok r) : ∃ a, k a = .ok r := by
  split at h
  · cases m1 with
    | error e => cases h
    | ok a => exact ⟨a, h⟩
  · cases m2 with
    | error e => cases h
    | ok a => exact ⟨a, h⟩

theorem bind_ok {α β : Type} (m : Except String α) (k : α → Except String β)
    (r : β) (h : (m >>= k) = .ok r) : ∃ a, k a = .ok r := by
  cases m with
  | error e => cases h
  | ok a => exact ⟨a, h⟩

theorem writeAttr_shape (o : Opts) (ext : Ext) (sub : Sub) (tag rawTag : List Char) (x : AttrSt)
    (out : List Char) (mt : Option (List Char)) (hx : x.keep = true) (ht : x.a.tmpl = false)
    (h : writeAttr o ext sub tag rawTag x = .ok (out, mt)) :
    AttrShape o x out ∧ (o.keepDefaultAttrVals = true → out = [] → nonDefaultDrop tag x = true) := by
  unfold writeAttr at h
  rw [if_neg (by simp [hx]), if_neg (by simp [ht])] at h
  simp only [] at h
  unfold AttrShape nonDefaultDrop
  by_cases htt : tagTraits tag = 0
  · rw [if_pos htt] at h
    cases h
    exact ⟨Or.inr ⟨_, rfl⟩, fun _ h => by simp at h⟩
  · rw [if_neg htt] at h
    have htt' : (tagTraits tag != 0) = true := by simpa using htt
    split at h
    · next he =>
      cases h
      refine ⟨Or.inl rfl, fun _ _ => ?_⟩
      simp only [htt', Bool.true_and]
      simp only [Bool.and_eq_true] at he
      simp [he.1, he.2]
    · obtain ⟨val1, hK⟩ := ite_bind_ok _ _ _ _ _ h
      clear h
      split at hK
      · next hdef =>
        cases hK
        refine ⟨Or.inl rfl, fun hk _ => ?_⟩
        simp [hk] at hdef
      · split at hK
        · next hst =>
          split at hK
          · cases hK; exact ⟨Or.inl rfl, fun _ _ => by simp [htt', hst]⟩
          · cases hK; exact ⟨Or.inr ⟨_, rfl⟩, fun _ h => by simp at h⟩
        · split at hK
          · next hon =>
            have hnd : (decide (tagTraits tag = 0) = false) ∧
                (decide (2 < x.name.length) && List.take 2 x.name == s "on") = true := ⟨by simpa using htt, hon⟩
            split at hK <;> split at hK <;>
              first
              | (cases hK; exact ⟨Or.inl rfl, fun _ _ => by simp [htt', hnd.2]⟩)
              | (cases hK; exact ⟨Or.inr ⟨_, rfl⟩, fun _ h => by simp at h⟩)
          · split at hK
            · obtain ⟨v, hv⟩ := bind_ok _ _ _ hK
              cases hv; exact ⟨Or.inr ⟨_, rfl⟩, fun _ h => by simp at h⟩
            · cases hK; exact ⟨Or.inr ⟨_, rfl⟩, fun _ h => by simp at h⟩

/-- an attribute that carries a template expression is written byte for byte, whatever the options -/
theorem writeAttr_template (o : Opts) (ext : Ext) (sub : Sub) (tag rawTag : List Char) (x : AttrSt)
    (hx : x.keep = true) (ht : x.a.tmpl = true) :
    writeAttr o ext sub tag rawTag x = .ok (x.a.data, none) := by
  simp [writeAttr, hx, ht]

/-! ## `KeepDefaultAttrVals` and the special cases before the write loop -/

/-- with the option the special case for `input` (removal of a default `value`) is switched off -/
theorem specialAttrsOpt_input (o : Opts) (ext : Ext) (as : List AttrSt) (hk : o.keepDefaultAttrVals = true) :
    specialAttrsOpt o ext (s "input") as = .ok as := by
  have h3 : hashIs (s "input") "input" = true := by decide
  simp [specialAttrsOpt, h3, hk]

/-- for every other element the option plays no role before the write loop -/
theorem specialAttrsOpt_other (o : Opts) (ext : Ext) (tag : List Char) (as : List AttrSt) (h : hashIs tag "input" = false) :
    specialAttrsOpt o ext tag as = specialAttrs ext tag as := by
  simp [specialAttrsOpt, h]

/-! ## `KeepEndTags`: the record of written html/head/body/colgroup start tags (`docOpen`) -/

theorem endStep_docOpen (o : Opts) (st0 : St) (name data : List Char) (rest : List HTok) :
    (endStep o st0 name data rest).1.docOpen =
      if (o.keepEndTags && isDroppedTag o name && st0.docOpen.contains name) = true then st0.docOpen.erase name
      else st0.docOpen := by
  unfold endStep
  by_cases hp : hashIs name "pre" = true
  · simp only [hp, if_true]; split <;> (try split) <;> rfl
  · simp only [hp]; split <;> (try split) <;> rfl

theorem startPre_docOpen (st0 : St) (name : List Char) (attrs : List Attr) :
    (startPre st0 name attrs).docOpen = st0.docOpen := by
  unfold startPre; simp only; split <;> rfl

theorem startPost_docOpen (o : Opts) (st3 : St) (name : List Char) (rest : List HTok) (mt : Option (List Char)) :
    (startPost o st3 name rest mt).docOpen =
      if (o.keepEndTags && isDroppedTag o name) = true then name :: st3.docOpen else st3.docOpen := by
  cases mt <;> simp only [startPost, apply_ite St.docOpen, ite_self]

/-- with `KeepEndTags` an end tag is written unless it belongs to a pair that is dropped as a whole (its start tag was
    not written) -/
theorem end_step_kept (o : Opts) (ext : Ext) (sub : Sub) (st : St) (name data : List Char) (rest : List HTok)
    (hd : st.dropEnd = false) (hk : o.keepEndTags = true)
    (hopen : isDroppedTag o name = false ∨ st.docOpen.contains name = true) :
    ∃ st', step o ext sub st (.endTag name data) rest = .ok (st', endTagBytes name data) := by
  have h2 := keep_end_tags_omit o name rest hk
  rcases hopen with h1 | h1
  · exact end_step_written o ext sub st name data rest hd h1 h2
  · cases hdr : isDroppedTag o name with
    | false => exact end_step_written o ext sub st name data rest hd hdr h2
    | true =>
      simp only [step, hd, Bool.false_eq_true, if_false, endStep, hk, hdr, h1, h2, Bool.and_self, Bool.not_true, Bool.and_false]
      exact ⟨_, rfl⟩

/-- a written html/head/body/colgroup start tag is recorded -/
theorem step_start_open (o : Opts) (ext : Ext) (sub : Sub) (st st' : St) (name : List Char) (attrs : List Attr)
    (rest : List HTok) (out : List Char) (hk : o.keepEndTags = true) (hdoc : isDroppedTag o name = true)
    (h : step o ext sub st (.startTag name attrs) rest = .ok (st', out)) (hout : out ≠ []) :
    name ∈ st'.docOpen := by
  unfold step at h
  split at h
  · cases h; exact absurd rfl hout
  · simp only at h
    split at h
    · cases h; exact absurd rfl hout
    · split at h
      · cases h; exact absurd rfl hout
      · simp only [bind, Except.bind] at h
        split at h
        · cases h
        · split at h
          · cases h
          · cases h
            rw [startPost_docOpen]
            simp [hk, hdoc]

/-- a recorded name stays recorded until an end tag of that name is met -/
theorem step_docOpen_mem (o : Opts) (ext : Ext) (sub : Sub) (st st' : St) (t : HTok) (rest : List HTok)
    (out : List Char) (h : step o ext sub st t rest = .ok (st', out)) (n : List Char) (hm : n ∈ st.docOpen)
    (hne : ∀ d, t ≠ .endTag n d) : n ∈ st'.docOpen := by
  unfold step at h
  split at h
  · cases h; exact hm
  · cases t with
    | doctype => simp only at h; cases h; exact hm
    | comment data text =>
      simp only [bind, Except.bind] at h
      split at h
      · cases h
      · cases h; exact hm
    | svg data => simp only at h; cases h; exact hm
    | math data => simp only at h; cases h; exact hm
    | template data => simp only at h; cases h; exact hm
    | text data tmpl =>
      simp only at h
      split at h
      · cases h; exact hm
      · split at h
        · split at h <;> (cases h; exact hm)
        · split at h <;> (cases h; exact hm)
    | endTag name data =>
      simp only [Except.ok.injEq] at h
      have e := congrArg Prod.fst h
      simp only at e
      rw [← e, endStep_docOpen]
      split
      · have hn : n ≠ name := fun e => hne data (by rw [e])
        exact (List.mem_erase_of_ne hn).mpr hm
      · exact hm
    | startTag name attrs =>
      simp only at h
      split at h
      · cases h; exact hm
      · split at h
        · cases h; rw [startPre_docOpen]; exact hm
        · simp only [bind, Except.bind] at h
          split at h
          · cases h
          · split at h
            · cases h
            · cases h
              rw [startPost_docOpen, startPre_docOpen]
              split
              · exact List.mem_cons_of_mem _ hm
              · exact hm

/-- along a trace: a name recorded in the state in front of the pieces `pre ++ q :: post` is still recorded in front of
    `q` if no piece of `pre` is an end tag of that name -/
theorem trace_docOpen_mem (o : Opts) (ext : Ext) (sub : Sub) (n : List Char) :
    ∀ (pre : List Piece) (st : St) (toks : List HTok) (q : Piece) (post : List Piece),
      trace o ext sub st toks = .ok (pre ++ q :: post) → n ∈ st.docOpen →
      (∀ x ∈ pre, ∀ d, x.tok ≠ .endTag n d) → n ∈ q.st.docOpen := by
  intro pre
  induction pre with
  | nil =>
    intro st toks q post h hm _
    cases toks with
    | nil => simp [trace] at h
    | cons t rest =>
      obtain ⟨st', out, ps', _, _, e⟩ := trace_cons o ext sub st t rest _ h
      simp only [List.nil_append, List.cons.injEq] at e
      rw [e.1]; exact hm
  | cons x pre ih =>
    intro st toks q post h hm hne
    cases toks with
    | nil => simp [trace] at h
    | cons t rest =>
      obtain ⟨st', out, ps', hs, ht, e⟩ := trace_cons o ext sub st t rest _ h
      simp only [List.cons_append, List.cons.injEq] at e
      have hx : x.tok = t := by rw [e.1]
      have hm' := step_docOpen_mem o ext sub st st' t rest out hs n hm (fun d => hx ▸ hne x (List.mem_cons_self) d)
      rw [← e.2] at ht
      exact ih st' rest q post ht hm' (fun y hy d => hne y (List.mem_cons_of_mem _ hy) d)

end Verif.Proofs.C16HtmlOpt

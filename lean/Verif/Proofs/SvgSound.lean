import Verif.Proofs.SvgModel
import Verif.Model.SvgGuard
/-!
# C05 helper lemmas: the rewriting stages of `copyInstruction` preserve the absolute segments
(one spec state `S` in step with the model state; exact rationals)
-/
namespace Verif.Proofs.SvgSound
open Verif.Spec.SvgPath Verif.Spec.SvgHazard Verif.Model.SvgPath Verif.Proofs.SvgLex Verif.Proofs.SvgGeom
open Verif.Proofs.SvgModel Verif.Model.SvgGuard

theorem reflPt_eq (x y : Rat) (o : Option Pt) : reflPt x y o = refl (x, y) o := by
  cases o <;> rfl

/-- what one stage preserves: segments up to `simp1`, end point, subpath start -/
structure StageOK (S : St) (rel : Bool) (k : Kind) (cs : List Coord) (k1 : Kind) (cs1 : List Coord) : Prop where
  segs : (stepCmd S ⟨k1, rel, vals cs1⟩).2.filterMap simp1 = (stepCmd S ⟨k, rel, vals cs⟩).2.filterMap simp1
  cur : (stepCmd S ⟨k1, rel, vals cs1⟩).1.cur = (stepCmd S ⟨k, rel, vals cs⟩).1.cur
  start : (stepCmd S ⟨k1, rel, vals cs1⟩).1.start = (stepCmd S ⟨k, rel, vals cs⟩).1.start

theorem StageOK.refl' (S : St) (rel : Bool) (k : Kind) (cs : List Coord) : StageOK S rel k cs k cs := ⟨rfl, rfl, rfl⟩

theorem StageOK.trans {S : St} {rel : Bool} {k k1 k2 : Kind} {cs cs1 cs2 : List Coord}
    (h1 : StageOK S rel k cs k1 cs1) (h2 : StageOK S rel k1 cs1 k2 cs2) : StageOK S rel k cs k2 cs2 :=
  ⟨h2.segs.trans h1.segs, h2.cur.trans h1.cur, h2.start.trans h1.start⟩

/-- offsets of the model (`rx`,`ry`) are the spec's `off` when the states agree on the current point -/
theorem off_eq (S : St) (rel : Bool) (x y : Rat) (h : S.cur = (x, y)) :
    off S rel = ((if rel then x else 0), (if rel then y else 0)) := by
  unfold off; cases rel <;> simp [h]

theorem beq_pt {a b : Pt} : (a == b) = true ↔ a = b := by simp

/-- the model's end point is the spec's new current point -/
theorem endPoint_eq (S : St) (rel : Bool) (x y : Rat) (h : S.cur = (x, y)) (k : Kind) (cs : List Coord)
    (hs : Shaped k cs) :
    endPoint x y (if rel then x else 0) (if rel then y else 0) k cs = (stepCmd S ⟨k, rel, vals cs⟩).1.cur ∨ k = .Z := by
  obtain ⟨hl, hz⟩ := hs
  have ho := off_eq S rel x y h
  have e1 : S.cur.1 = x := by rw [h]
  have e2 : S.cur.2 = y := by rw [h]
  left
  cases k <;> simp only [Kind.arity] at hl
  case Z => exact absurd rfl hz
  case H => obtain ⟨a, rfl⟩ := len1 cs hl; simp [endPoint, stepCmd, vals, ho, e2]
  case V => obtain ⟨a, rfl⟩ := len1 cs hl; simp [endPoint, stepCmd, vals, ho, e1]
  case M => obtain ⟨a, b, rfl⟩ := len2 cs hl; simp [endPoint, stepCmd, vals, ho]
  case L => obtain ⟨a, b, rfl⟩ := len2 cs hl; simp [endPoint, stepCmd, vals, ho]
  case T => obtain ⟨a, b, rfl⟩ := len2 cs hl; simp [endPoint, stepCmd, vals, ho]
  case S => obtain ⟨a, b, c, d, rfl⟩ := len4 cs hl; simp [endPoint, stepCmd, vals, ho]
  case Q => obtain ⟨a, b, c, d, rfl⟩ := len4 cs hl; simp [endPoint, stepCmd, vals, ho]
  case C => obtain ⟨a, b, c, d, e, f, rfl⟩ := len6 cs hl; simp [endPoint, stepCmd, vals, ho]
  case A => obtain ⟨a, b, c, d, e, f, g, rfl⟩ := len7 cs hl; simp [endPoint, stepCmd, vals, ho]

theorem onEnds_iff (p a c : Pt) : onEnds p a c = true ↔ (c = p ∨ c = a) := by
  simp [onEnds]

/-- post-state `lc` of a non-cubic command is `none` -/
theorem lc_noncubic (S : St) (rel : Bool) (k : Kind) (cs : List Coord) (hs : Shaped k cs) (hk : isCubic k = false) :
    (stepCmd S ⟨k, rel, vals cs⟩).1.lc = none := by
  obtain ⟨hl, hz⟩ := hs
  cases k <;> simp only [Kind.arity] at hl <;> simp [isCubic] at hk
  case Z => exact absurd rfl hz
  case H => obtain ⟨a, rfl⟩ := len1 cs hl; simp [stepCmd, vals]
  case V => obtain ⟨a, rfl⟩ := len1 cs hl; simp [stepCmd, vals]
  case M => obtain ⟨a, b, rfl⟩ := len2 cs hl; simp [stepCmd, vals]
  case L => obtain ⟨a, b, rfl⟩ := len2 cs hl; simp [stepCmd, vals]
  case T => obtain ⟨a, b, rfl⟩ := len2 cs hl; simp [stepCmd, vals]
  case Q => obtain ⟨a, b, c, d, rfl⟩ := len4 cs hl; simp [stepCmd, vals]
  case A => obtain ⟨a, b, c, d, e, f, g, rfl⟩ := len7 cs hl; simp [stepCmd, vals]

theorem lq_nonquad (S : St) (rel : Bool) (k : Kind) (cs : List Coord) (hs : Shaped k cs) (hk : isQuad k = false) :
    (stepCmd S ⟨k, rel, vals cs⟩).1.lq = none := by
  obtain ⟨hl, hz⟩ := hs
  cases k <;> simp only [Kind.arity] at hl <;> simp [isQuad] at hk
  case Z => exact absurd rfl hz
  case H => obtain ⟨a, rfl⟩ := len1 cs hl; simp [stepCmd, vals]
  case V => obtain ⟨a, rfl⟩ := len1 cs hl; simp [stepCmd, vals]
  case M => obtain ⟨a, b, rfl⟩ := len2 cs hl; simp [stepCmd, vals]
  case L => obtain ⟨a, b, rfl⟩ := len2 cs hl; simp [stepCmd, vals]
  case S => obtain ⟨a, b, c, d, rfl⟩ := len4 cs hl; simp [stepCmd, vals]
  case C => obtain ⟨a, b, c, d, e, f, rfl⟩ := len6 cs hl; simp [stepCmd, vals]
  case A => obtain ⟨a, b, c, d, e, f, g, rfl⟩ := len7 cs hl; simp [stepCmd, vals]

/-- a degenerate cubic and the line to its end point: same `simp1` image, same end point, same start -/
theorem stage_cubic_to_line (S : St) (rel : Bool) (k : Kind) (hk : k = .C ∨ k = .S) (cs : List Coord)
    (ex ey : Coord) (a c1 c2 : Pt)
    (hseg : (stepCmd S ⟨k, rel, vals cs⟩).2 = [.cubic S.cur c1 c2 a])
    (hcur : (stepCmd S ⟨k, rel, vals cs⟩).1.cur = a)
    (hstart : (stepCmd S ⟨k, rel, vals cs⟩).1.start = S.start)
    (hL : (stepCmd S ⟨.L, rel, vals [ex, ey]⟩).1.cur = a)
    (d1 : c1 = S.cur ∨ c1 = a) (d2 : c2 = S.cur ∨ c2 = a) :
    StageOK S rel k cs .L [ex, ey] := by
  have hLs : (stepCmd S ⟨.L, rel, vals [ex, ey]⟩).2 = [.line S.cur a] := by
    simp only [stepCmd, vals, List.map] at hL ⊢
    rw [hL]
  refine ⟨?_, ?_, ?_⟩
  · rw [hLs, hseg, filterMap_single, filterMap_single, simp1_degenerate_cubic _ _ _ _ d1 d2]
  · rw [hL, hcur]
  · rw [hstart]; simp [stepCmd, vals]

/-- the C/S block on a spec state that agrees with the model on the current point and on `lc` -/
theorem stageC_sound (S : St) (rel single kS : Bool) (x y : Rat) (hcur : S.cur = (x, y)) (k : Kind) (cs : List Coord)
    (hs : Shaped k cs) :
    StageOK S rel k cs
      (stageC (x, y) (endPoint x y (if rel then x else 0) (if rel then y else 0) k cs) (refl (x, y) S.lc)
        (if rel then x else 0) (if rel then y else 0) single kS k cs).2.1
      (stageC (x, y) (endPoint x y (if rel then x else 0) (if rel then y else 0) k cs) (refl (x, y) S.lc)
        (if rel then x else 0) (if rel then y else 0) single kS k cs).2.2 ∧
    (stepCmd S ⟨(stageC (x, y) (endPoint x y (if rel then x else 0) (if rel then y else 0) k cs) (refl (x, y) S.lc)
        (if rel then x else 0) (if rel then y else 0) single kS k cs).2.1, rel,
      vals (stageC (x, y) (endPoint x y (if rel then x else 0) (if rel then y else 0) k cs) (refl (x, y) S.lc)
        (if rel then x else 0) (if rel then y else 0) single kS k cs).2.2⟩).1.lc =
      (stageC (x, y) (endPoint x y (if rel then x else 0) (if rel then y else 0) k cs) (refl (x, y) S.lc)
        (if rel then x else 0) (if rel then y else 0) single kS k cs).1 ∧
    (isCubic k = false →
      stageC (x, y) (endPoint x y (if rel then x else 0) (if rel then y else 0) k cs) (refl (x, y) S.lc)
        (if rel then x else 0) (if rel then y else 0) single kS k cs = (none, k, cs)) := by
  obtain ⟨hl, hz⟩ := hs
  have ho := off_eq S rel x y hcur
  generalize hrx : (if rel then x else 0 : Rat) = rx at ho ⊢
  generalize hry : (if rel then y else 0 : Rat) = ry at ho ⊢
  cases k <;> simp only [Kind.arity] at hl
  case Z => exact absurd rfl hz
  case C =>
    obtain ⟨c1, c2, c3, c4, c5, c6, rfl⟩ := len6 cs hl
    have hseg : (stepCmd S ⟨.C, rel, vals [c1, c2, c3, c4, c5, c6]⟩).2 =
        [.cubic S.cur (c1.v + rx, c2.v + ry) (c3.v + rx, c4.v + ry) (c5.v + rx, c6.v + ry)] := by
      simp [stepCmd, vals, ho]
    have hc : (stepCmd S ⟨.C, rel, vals [c1, c2, c3, c4, c5, c6]⟩).1.cur = (c5.v + rx, c6.v + ry) := by
      simp [stepCmd, vals, ho]
    have hst : (stepCmd S ⟨.C, rel, vals [c1, c2, c3, c4, c5, c6]⟩).1.start = S.start := by
      simp [stepCmd, vals]
    have hL : (stepCmd S ⟨.L, rel, vals [c5, c6]⟩).1.cur = (c5.v + rx, c6.v + ry) := by
      simp [stepCmd, vals, ho]
    have hLlc : (stepCmd S ⟨.L, rel, vals [c5, c6]⟩).1.lc = none := by simp [stepCmd, vals]
    simp only [stageC, endPoint]
    by_cases h1 : ((c1.v + rx, c2.v + ry) == refl (x, y) S.lc) = true
    · have h1' := beq_pt.1 h1
      simp only [h1, if_true]
      rcases (Bool.eq_false_or_eq_true (!(kS && (c3.v + rx, c4.v + ry) != (c5.v + rx, c6.v + ry)) && single &&
          onEnds (x, y) (c5.v + rx, c6.v + ry) (c1.v + rx, c2.v + ry) &&
          onEnds (x, y) (c5.v + rx, c6.v + ry) (c3.v + rx, c4.v + ry))).symm with hcnd | hcnd
      · simp only [hcnd, Bool.false_eq_true, if_false]
        have : stepCmd S ⟨.S, rel, vals [c3, c4, c5, c6]⟩ = stepCmd S ⟨.C, rel, vals [c1, c2, c3, c4, c5, c6]⟩ := by
          simp only [stepCmd, vals, List.map, ho]
          rw [hcur, ← h1']
        exact ⟨⟨by rw [this], by rw [this], by rw [this]⟩, by simp [stepCmd, vals, ho], fun h => by simp [isCubic] at h⟩
      · simp only [hcnd, if_true]
        simp only [Bool.and_eq_true, onEnds_iff] at hcnd
        exact ⟨stage_cubic_to_line S rel .C (Or.inl rfl) _ c5 c6 _ _ _ hseg hc hst hL
          (by rw [hcur]; exact hcnd.1.2) (by rw [hcur]; exact hcnd.2), hLlc, fun h => by simp [isCubic] at h⟩
    · simp only [h1, if_false]
      rcases (Bool.eq_false_or_eq_true (!(kS && (c3.v + rx, c4.v + ry) != (c5.v + rx, c6.v + ry)) &&
          onEnds (x, y) (c5.v + rx, c6.v + ry) (c1.v + rx, c2.v + ry) &&
          onEnds (x, y) (c5.v + rx, c6.v + ry) (c3.v + rx, c4.v + ry))).symm with hcnd | hcnd
      · simp only [hcnd, Bool.false_eq_true, if_false]
        exact ⟨StageOK.refl' _ _ _ _, by simp [stepCmd, vals, ho], fun h => by simp [isCubic] at h⟩
      · simp only [hcnd, if_true]
        simp only [Bool.and_eq_true, onEnds_iff] at hcnd
        exact ⟨stage_cubic_to_line S rel .C (Or.inl rfl) _ c5 c6 _ _ _ hseg hc hst hL
          (by rw [hcur]; exact hcnd.1.2) (by rw [hcur]; exact hcnd.2), hLlc, fun h => by simp [isCubic] at h⟩
  case S =>
    obtain ⟨c3, c4, c5, c6, rfl⟩ := len4 cs hl
    have hseg : (stepCmd S ⟨.S, rel, vals [c3, c4, c5, c6]⟩).2 =
        [.cubic S.cur (refl (x, y) S.lc) (c3.v + rx, c4.v + ry) (c5.v + rx, c6.v + ry)] := by
      simp [stepCmd, vals, ho, hcur]
    have hc : (stepCmd S ⟨.S, rel, vals [c3, c4, c5, c6]⟩).1.cur = (c5.v + rx, c6.v + ry) := by
      simp [stepCmd, vals, ho]
    have hst : (stepCmd S ⟨.S, rel, vals [c3, c4, c5, c6]⟩).1.start = S.start := by
      simp [stepCmd, vals]
    have hL : (stepCmd S ⟨.L, rel, vals [c5, c6]⟩).1.cur = (c5.v + rx, c6.v + ry) := by
      simp [stepCmd, vals, ho]
    have hLlc : (stepCmd S ⟨.L, rel, vals [c5, c6]⟩).1.lc = none := by simp [stepCmd, vals]
    simp only [stageC, endPoint]
    rcases (Bool.eq_false_or_eq_true (!(kS && (c3.v + rx, c4.v + ry) != (c5.v + rx, c6.v + ry)) && single &&
        onEnds (x, y) (c5.v + rx, c6.v + ry) (refl (x, y) S.lc) &&
        onEnds (x, y) (c5.v + rx, c6.v + ry) (c3.v + rx, c4.v + ry))).symm with hcnd | hcnd
    · simp only [hcnd, Bool.false_eq_true, if_false]
      exact ⟨StageOK.refl' _ _ _ _, by simp [stepCmd, vals, ho], fun h => by simp [isCubic] at h⟩
    · simp only [hcnd, if_true]
      simp only [Bool.and_eq_true, onEnds_iff] at hcnd
      exact ⟨stage_cubic_to_line S rel .S (Or.inr rfl) _ c5 c6 _ _ _ hseg hc hst hL
        (by rw [hcur]; exact hcnd.1.2) (by rw [hcur]; exact hcnd.2), hLlc, fun h => by simp [isCubic] at h⟩
  all_goals
    refine ⟨by simp only [stageC]; exact StageOK.refl' _ _ _ _, ?_, fun _ => by simp only [stageC]⟩
    simp only [stageC]
    exact lc_noncubic S rel _ cs ⟨by simp [Kind.arity, hl], by decide⟩ (by decide)

theorem stage_quad_to_line (S : St) (rel : Bool) (k : Kind) (cs : List Coord)
    (ex ey : Coord) (a c1 : Pt)
    (hseg : (stepCmd S ⟨k, rel, vals cs⟩).2 = [.quad S.cur c1 a])
    (hcur : (stepCmd S ⟨k, rel, vals cs⟩).1.cur = a)
    (hstart : (stepCmd S ⟨k, rel, vals cs⟩).1.start = S.start)
    (hL : (stepCmd S ⟨.L, rel, vals [ex, ey]⟩).1.cur = a)
    (d1 : c1 = S.cur ∨ c1 = a) :
    StageOK S rel k cs .L [ex, ey] := by
  have hLs : (stepCmd S ⟨.L, rel, vals [ex, ey]⟩).2 = [.line S.cur a] := by
    simp only [stepCmd, vals, List.map] at hL ⊢
    rw [hL]
  refine ⟨?_, ?_, ?_⟩
  · rw [hLs, hseg, filterMap_single, filterMap_single, simp1_degenerate_quad _ _ _ d1]
  · rw [hL, hcur]
  · rw [hstart]; simp [stepCmd, vals]

/-- the Q/T block on a spec state that agrees with the model on the current point and on `lq` -/
theorem stageQ_sound (S : St) (rel single kT : Bool) (x y : Rat) (hcur : S.cur = (x, y)) (k : Kind) (cs : List Coord)
    (hs : Shaped k cs) :
    StageOK S rel k cs
      (stageQ (x, y) (endPoint x y (if rel then x else 0) (if rel then y else 0) k cs) (refl (x, y) S.lq)
        (if rel then x else 0) (if rel then y else 0) single kT k cs).2.1
      (stageQ (x, y) (endPoint x y (if rel then x else 0) (if rel then y else 0) k cs) (refl (x, y) S.lq)
        (if rel then x else 0) (if rel then y else 0) single kT k cs).2.2 ∧
    (stepCmd S ⟨(stageQ (x, y) (endPoint x y (if rel then x else 0) (if rel then y else 0) k cs) (refl (x, y) S.lq)
        (if rel then x else 0) (if rel then y else 0) single kT k cs).2.1, rel,
      vals (stageQ (x, y) (endPoint x y (if rel then x else 0) (if rel then y else 0) k cs) (refl (x, y) S.lq)
        (if rel then x else 0) (if rel then y else 0) single kT k cs).2.2⟩).1.lq =
      (stageQ (x, y) (endPoint x y (if rel then x else 0) (if rel then y else 0) k cs) (refl (x, y) S.lq)
        (if rel then x else 0) (if rel then y else 0) single kT k cs).1 ∧
    (isQuad k = false →
      stageQ (x, y) (endPoint x y (if rel then x else 0) (if rel then y else 0) k cs) (refl (x, y) S.lq)
        (if rel then x else 0) (if rel then y else 0) single kT k cs = (none, k, cs)) := by
  obtain ⟨hl, hz⟩ := hs
  have ho := off_eq S rel x y hcur
  generalize hrx : (if rel then x else 0 : Rat) = rx at ho ⊢
  generalize hry : (if rel then y else 0 : Rat) = ry at ho ⊢
  cases k <;> simp only [Kind.arity] at hl
  case Z => exact absurd rfl hz
  case Q =>
    obtain ⟨c1, c2, c5, c6, rfl⟩ := len4 cs hl
    have hseg : (stepCmd S ⟨.Q, rel, vals [c1, c2, c5, c6]⟩).2 =
        [.quad S.cur (c1.v + rx, c2.v + ry) (c5.v + rx, c6.v + ry)] := by
      simp [stepCmd, vals, ho]
    have hc : (stepCmd S ⟨.Q, rel, vals [c1, c2, c5, c6]⟩).1.cur = (c5.v + rx, c6.v + ry) := by
      simp [stepCmd, vals, ho]
    have hst : (stepCmd S ⟨.Q, rel, vals [c1, c2, c5, c6]⟩).1.start = S.start := by
      simp [stepCmd, vals]
    have hL : (stepCmd S ⟨.L, rel, vals [c5, c6]⟩).1.cur = (c5.v + rx, c6.v + ry) := by
      simp [stepCmd, vals, ho]
    have hLlq : (stepCmd S ⟨.L, rel, vals [c5, c6]⟩).1.lq = none := by simp [stepCmd, vals]
    simp only [stageQ, endPoint]
    by_cases h1 : ((c1.v + rx, c2.v + ry) == refl (x, y) S.lq) = true
    · have h1' := beq_pt.1 h1
      simp only [h1, if_true]
      rcases (Bool.eq_false_or_eq_true (!(kT && (c1.v + rx, c2.v + ry) != (c5.v + rx, c6.v + ry)) && single &&
          onEnds (x, y) (c5.v + rx, c6.v + ry) (c1.v + rx, c2.v + ry))).symm with hcnd | hcnd
      · simp only [hcnd, Bool.false_eq_true, if_false]
        have : stepCmd S ⟨.T, rel, vals [c5, c6]⟩ = stepCmd S ⟨.Q, rel, vals [c1, c2, c5, c6]⟩ := by
          simp only [stepCmd, vals, List.map, ho]
          rw [hcur, ← h1']
        refine ⟨⟨by rw [this], by rw [this], by rw [this]⟩, ?_, fun h => by simp [isQuad] at h⟩
        simp only [stepCmd, vals, List.map, ho]
        rw [hcur, ← h1']
      · simp only [hcnd, if_true]
        simp only [Bool.and_eq_true, onEnds_iff] at hcnd
        exact ⟨stage_quad_to_line S rel .Q _ c5 c6 _ _ hseg hc hst hL (by rw [hcur]; exact hcnd.2), hLlq,
          fun h => by simp [isQuad] at h⟩
    · simp only [h1, if_false]
      rcases (Bool.eq_false_or_eq_true (!(kT && (c1.v + rx, c2.v + ry) != (c5.v + rx, c6.v + ry)) &&
          onEnds (x, y) (c5.v + rx, c6.v + ry) (c1.v + rx, c2.v + ry))).symm with hcnd | hcnd
      · simp only [hcnd, Bool.false_eq_true, if_false]
        exact ⟨StageOK.refl' _ _ _ _, by simp [stepCmd, vals, ho], fun h => by simp [isQuad] at h⟩
      · simp only [hcnd, if_true]
        simp only [Bool.and_eq_true, onEnds_iff] at hcnd
        exact ⟨stage_quad_to_line S rel .Q _ c5 c6 _ _ hseg hc hst hL (by rw [hcur]; exact hcnd.2), hLlq,
          fun h => by simp [isQuad] at h⟩
  case T =>
    obtain ⟨c5, c6, rfl⟩ := len2 cs hl
    have hseg : (stepCmd S ⟨.T, rel, vals [c5, c6]⟩).2 =
        [.quad S.cur (refl (x, y) S.lq) (c5.v + rx, c6.v + ry)] := by
      simp [stepCmd, vals, ho, hcur]
    have hc : (stepCmd S ⟨.T, rel, vals [c5, c6]⟩).1.cur = (c5.v + rx, c6.v + ry) := by
      simp [stepCmd, vals, ho]
    have hst : (stepCmd S ⟨.T, rel, vals [c5, c6]⟩).1.start = S.start := by
      simp [stepCmd, vals]
    have hL : (stepCmd S ⟨.L, rel, vals [c5, c6]⟩).1.cur = (c5.v + rx, c6.v + ry) := by
      simp [stepCmd, vals, ho]
    have hLlq : (stepCmd S ⟨.L, rel, vals [c5, c6]⟩).1.lq = none := by simp [stepCmd, vals]
    simp only [stageQ, endPoint]
    rcases (Bool.eq_false_or_eq_true (!(kT && refl (x, y) S.lq != (c5.v + rx, c6.v + ry)) && single &&
        onEnds (x, y) (c5.v + rx, c6.v + ry) (refl (x, y) S.lq))).symm with hcnd | hcnd
    · simp only [hcnd, Bool.false_eq_true, if_false]
      exact ⟨StageOK.refl' _ _ _ _, by simp [stepCmd, vals, hcur], fun h => by simp [isQuad] at h⟩
    · simp only [hcnd, if_true]
      simp only [Bool.and_eq_true, onEnds_iff] at hcnd
      exact ⟨stage_quad_to_line S rel .T _ c5 c6 _ _ hseg hc hst hL (by rw [hcur]; exact hcnd.2), hLlq,
        fun h => by simp [isQuad] at h⟩
  all_goals
    refine ⟨by simp only [stageQ]; exact StageOK.refl' _ _ _ _, ?_, fun _ => by simp only [stageQ]⟩
    simp only [stageQ]
    exact lq_nonquad S rel _ cs ⟨by simp [Kind.arity, hl], by decide⟩ (by decide)

/-- the L block -/
theorem stageL_sound (S : St) (rel kz : Bool) (x y : Rat) (hcur : S.cur = (x, y)) (k : Kind) (cs : List Coord)
    (hs : Shaped k cs) :
    ((stageL (x, y) (endPoint x y (if rel then x else 0) (if rel then y else 0) k cs) kz k cs).2.2 = false →
      stepCmd S ⟨(stageL (x, y) (endPoint x y (if rel then x else 0) (if rel then y else 0) k cs) kz k cs).1, rel,
        vals (stageL (x, y) (endPoint x y (if rel then x else 0) (if rel then y else 0) k cs) kz k cs).2.1⟩ =
      stepCmd S ⟨k, rel, vals cs⟩) ∧
    ((stageL (x, y) (endPoint x y (if rel then x else 0) (if rel then y else 0) k cs) kz k cs).2.2 = true →
      (stepCmd S ⟨k, rel, vals cs⟩).2.filterMap simp1 = [] ∧ (stepCmd S ⟨k, rel, vals cs⟩).1.cur = S.cur ∧ k = .L) := by
  obtain ⟨hl, hz⟩ := hs
  have ho := off_eq S rel x y hcur
  have e1 : S.cur.1 = x := by rw [hcur]
  have e2 : S.cur.2 = y := by rw [hcur]
  generalize hrx : (if rel then x else 0 : Rat) = rx at ho ⊢
  generalize hry : (if rel then y else 0 : Rat) = ry at ho ⊢
  cases k <;> simp only [Kind.arity] at hl
  case Z => exact absurd rfl hz
  case L =>
    obtain ⟨c5, c6, rfl⟩ := len2 cs hl
    simp only [stageL, endPoint]
    by_cases hx : c5.v + rx = x <;> by_cases hy : c6.v + ry = y <;> cases kz <;>
      simp [hx, hy, stepCmd, vals, ho, e1, e2, filterMap_single, simp1, hcur]
  all_goals simp [stageL]

/-- class of a degenerate cubic -/
theorem classify_cubic_deg (S : St) (rel : Bool) (k : Kind) (hk : k = .C ∨ k = .S) (cs : List Coord) (a c1 c2 : Pt)
    (hseg : (stepCmd S ⟨k, rel, vals cs⟩).2 = [.cubic S.cur c1 c2 a])
    (d1 : c1 = S.cur ∨ c1 = a) (d2 : c2 = S.cur ∨ c2 = a) :
    classify S ⟨k, rel, vals cs⟩ = .dropped ∨ classify S ⟨k, rel, vals cs⟩ = .degC := by
  have hs1 := simp1_degenerate_cubic S.cur c1 c2 a d1 d2
  rcases hk with rfl | rfl <;>
  · simp only [classify, hseg]
    rw [hs1]
    simp only [simp1]
    by_cases h : S.cur = a <;> simp [h]

theorem classify_quad_deg (S : St) (rel : Bool) (k : Kind) (hk : k = .Q ∨ k = .T) (cs : List Coord) (a c1 : Pt)
    (hseg : (stepCmd S ⟨k, rel, vals cs⟩).2 = [.quad S.cur c1 a])
    (d1 : c1 = S.cur ∨ c1 = a) :
    classify S ⟨k, rel, vals cs⟩ = .dropped ∨ classify S ⟨k, rel, vals cs⟩ = .degQ := by
  have hs1 := simp1_degenerate_quad S.cur c1 a d1
  rcases hk with rfl | rfl <;>
  · simp only [classify, hseg]
    rw [hs1]
    simp only [simp1]
    by_cases h : S.cur = a <;> simp [h]

/-- how the C/S block changed the command: not at all as far as the spec can see, or a degenerate curve became a line -/
theorem stageC_how (S : St) (rel single kS : Bool) (x y : Rat) (hcur : S.cur = (x, y)) (k : Kind) (cs : List Coord)
    (hs : Shaped k cs) :
    stepCmd S ⟨(stageC (x, y) (endPoint x y (if rel then x else 0) (if rel then y else 0) k cs) (refl (x, y) S.lc)
        (if rel then x else 0) (if rel then y else 0) single kS k cs).2.1, rel,
      vals (stageC (x, y) (endPoint x y (if rel then x else 0) (if rel then y else 0) k cs) (refl (x, y) S.lc)
        (if rel then x else 0) (if rel then y else 0) single kS k cs).2.2⟩ = stepCmd S ⟨k, rel, vals cs⟩ ∨
    ((stageC (x, y) (endPoint x y (if rel then x else 0) (if rel then y else 0) k cs) (refl (x, y) S.lc)
        (if rel then x else 0) (if rel then y else 0) single kS k cs).2.1 = .L ∧ isCubic k = true ∧
      (classify S ⟨k, rel, vals cs⟩ = .dropped ∨ classify S ⟨k, rel, vals cs⟩ = .degC)) := by
  obtain ⟨hl, hz⟩ := hs
  have ho := off_eq S rel x y hcur
  generalize hrx : (if rel then x else 0 : Rat) = rx at ho ⊢
  generalize hry : (if rel then y else 0 : Rat) = ry at ho ⊢
  cases k <;> simp only [Kind.arity] at hl
  case Z => exact absurd rfl hz
  case C =>
    obtain ⟨c1, c2, c3, c4, c5, c6, rfl⟩ := len6 cs hl
    have hseg : (stepCmd S ⟨.C, rel, vals [c1, c2, c3, c4, c5, c6]⟩).2 =
        [.cubic S.cur (c1.v + rx, c2.v + ry) (c3.v + rx, c4.v + ry) (c5.v + rx, c6.v + ry)] := by
      simp [stepCmd, vals, ho]
    simp only [stageC, endPoint]
    by_cases h1 : ((c1.v + rx, c2.v + ry) == refl (x, y) S.lc) = true
    · have h1' := beq_pt.1 h1
      simp only [h1, if_true]
      rcases (Bool.eq_false_or_eq_true (!(kS && (c3.v + rx, c4.v + ry) != (c5.v + rx, c6.v + ry)) && single &&
          onEnds (x, y) (c5.v + rx, c6.v + ry) (c1.v + rx, c2.v + ry) &&
          onEnds (x, y) (c5.v + rx, c6.v + ry) (c3.v + rx, c4.v + ry))).symm with hcnd | hcnd
      · simp only [hcnd, Bool.false_eq_true, if_false]
        left
        simp only [stepCmd, vals, List.map, ho]
        rw [hcur, ← h1']
      · simp only [hcnd, if_true]
        simp only [Bool.and_eq_true, onEnds_iff] at hcnd
        exact Or.inr ⟨by first | rfl | trivial, by first | rfl | trivial, classify_cubic_deg S rel .C (Or.inl rfl) _ _ _ _ hseg
          (by rw [hcur]; exact hcnd.1.2) (by rw [hcur]; exact hcnd.2)⟩
    · simp only [h1, if_false]
      rcases (Bool.eq_false_or_eq_true (!(kS && (c3.v + rx, c4.v + ry) != (c5.v + rx, c6.v + ry)) &&
          onEnds (x, y) (c5.v + rx, c6.v + ry) (c1.v + rx, c2.v + ry) &&
          onEnds (x, y) (c5.v + rx, c6.v + ry) (c3.v + rx, c4.v + ry))).symm with hcnd | hcnd
      · simp only [hcnd, Bool.false_eq_true, if_false]; exact Or.inl (by first | rfl | trivial)
      · simp only [hcnd, if_true]
        simp only [Bool.and_eq_true, onEnds_iff] at hcnd
        exact Or.inr ⟨by first | rfl | trivial, by first | rfl | trivial, classify_cubic_deg S rel .C (Or.inl rfl) _ _ _ _ hseg
          (by rw [hcur]; exact hcnd.1.2) (by rw [hcur]; exact hcnd.2)⟩
  case S =>
    obtain ⟨c3, c4, c5, c6, rfl⟩ := len4 cs hl
    have hseg : (stepCmd S ⟨.S, rel, vals [c3, c4, c5, c6]⟩).2 =
        [.cubic S.cur (refl (x, y) S.lc) (c3.v + rx, c4.v + ry) (c5.v + rx, c6.v + ry)] := by
      simp [stepCmd, vals, ho, hcur]
    simp only [stageC, endPoint]
    rcases (Bool.eq_false_or_eq_true (!(kS && (c3.v + rx, c4.v + ry) != (c5.v + rx, c6.v + ry)) && single &&
        onEnds (x, y) (c5.v + rx, c6.v + ry) (refl (x, y) S.lc) &&
        onEnds (x, y) (c5.v + rx, c6.v + ry) (c3.v + rx, c4.v + ry))).symm with hcnd | hcnd
    · simp only [hcnd, Bool.false_eq_true, if_false]; exact Or.inl (by first | rfl | trivial)
    · simp only [hcnd, if_true]
      simp only [Bool.and_eq_true, onEnds_iff] at hcnd
      exact Or.inr ⟨by first | rfl | trivial, by first | rfl | trivial, classify_cubic_deg S rel .S (Or.inr rfl) _ _ _ _ hseg
        (by rw [hcur]; exact hcnd.1.2) (by rw [hcur]; exact hcnd.2)⟩
  all_goals (left; simp only [stageC])

theorem stageQ_how (S : St) (rel single kT : Bool) (x y : Rat) (hcur : S.cur = (x, y)) (k : Kind) (cs : List Coord)
    (hs : Shaped k cs) :
    stepCmd S ⟨(stageQ (x, y) (endPoint x y (if rel then x else 0) (if rel then y else 0) k cs) (refl (x, y) S.lq)
        (if rel then x else 0) (if rel then y else 0) single kT k cs).2.1, rel,
      vals (stageQ (x, y) (endPoint x y (if rel then x else 0) (if rel then y else 0) k cs) (refl (x, y) S.lq)
        (if rel then x else 0) (if rel then y else 0) single kT k cs).2.2⟩ = stepCmd S ⟨k, rel, vals cs⟩ ∨
    ((stageQ (x, y) (endPoint x y (if rel then x else 0) (if rel then y else 0) k cs) (refl (x, y) S.lq)
        (if rel then x else 0) (if rel then y else 0) single kT k cs).2.1 = .L ∧ isQuad k = true ∧
      (classify S ⟨k, rel, vals cs⟩ = .dropped ∨ classify S ⟨k, rel, vals cs⟩ = .degQ)) := by
  obtain ⟨hl, hz⟩ := hs
  have ho := off_eq S rel x y hcur
  generalize hrx : (if rel then x else 0 : Rat) = rx at ho ⊢
  generalize hry : (if rel then y else 0 : Rat) = ry at ho ⊢
  cases k <;> simp only [Kind.arity] at hl
  case Z => exact absurd rfl hz
  case Q =>
    obtain ⟨c1, c2, c5, c6, rfl⟩ := len4 cs hl
    have hseg : (stepCmd S ⟨.Q, rel, vals [c1, c2, c5, c6]⟩).2 =
        [.quad S.cur (c1.v + rx, c2.v + ry) (c5.v + rx, c6.v + ry)] := by
      simp [stepCmd, vals, ho]
    simp only [stageQ, endPoint]
    by_cases h1 : ((c1.v + rx, c2.v + ry) == refl (x, y) S.lq) = true
    · have h1' := beq_pt.1 h1
      simp only [h1, if_true]
      rcases (Bool.eq_false_or_eq_true (!(kT && (c1.v + rx, c2.v + ry) != (c5.v + rx, c6.v + ry)) && single &&
          onEnds (x, y) (c5.v + rx, c6.v + ry) (c1.v + rx, c2.v + ry))).symm with hcnd | hcnd
      · simp only [hcnd, Bool.false_eq_true, if_false]
        left
        simp only [stepCmd, vals, List.map, ho]
        rw [hcur, ← h1']
      · simp only [hcnd, if_true]
        simp only [Bool.and_eq_true, onEnds_iff] at hcnd
        exact Or.inr ⟨by first | rfl | trivial, by first | rfl | trivial, classify_quad_deg S rel .Q (Or.inl rfl) _ _ _ hseg (by rw [hcur]; exact hcnd.2)⟩
    · simp only [h1, if_false]
      rcases (Bool.eq_false_or_eq_true (!(kT && (c1.v + rx, c2.v + ry) != (c5.v + rx, c6.v + ry)) &&
          onEnds (x, y) (c5.v + rx, c6.v + ry) (c1.v + rx, c2.v + ry))).symm with hcnd | hcnd
      · simp only [hcnd, Bool.false_eq_true, if_false]; exact Or.inl (by first | rfl | trivial)
      · simp only [hcnd, if_true]
        simp only [Bool.and_eq_true, onEnds_iff] at hcnd
        exact Or.inr ⟨by first | rfl | trivial, by first | rfl | trivial, classify_quad_deg S rel .Q (Or.inl rfl) _ _ _ hseg (by rw [hcur]; exact hcnd.2)⟩
  case T =>
    obtain ⟨c5, c6, rfl⟩ := len2 cs hl
    have hseg : (stepCmd S ⟨.T, rel, vals [c5, c6]⟩).2 =
        [.quad S.cur (refl (x, y) S.lq) (c5.v + rx, c6.v + ry)] := by
      simp [stepCmd, vals, ho, hcur]
    simp only [stageQ, endPoint]
    rcases (Bool.eq_false_or_eq_true (!(kT && refl (x, y) S.lq != (c5.v + rx, c6.v + ry)) && single &&
        onEnds (x, y) (c5.v + rx, c6.v + ry) (refl (x, y) S.lq))).symm with hcnd | hcnd
    · simp only [hcnd, Bool.false_eq_true, if_false]; exact Or.inl (by first | rfl | trivial)
    · simp only [hcnd, if_true]
      simp only [Bool.and_eq_true, onEnds_iff] at hcnd
      exact Or.inr ⟨by first | rfl | trivial, by first | rfl | trivial, classify_quad_deg S rel .T (Or.inr rfl) _ _ _ hseg (by rw [hcur]; exact hcnd.2)⟩
  all_goals (left; simp only [stageQ])

theorem stageC_kinds (p a pc : Pt) (rx ry : Rat) (single kS : Bool) (k : Kind) (cs : List Coord) (hs : Shaped k cs) :
    isQuad (stageC p a pc rx ry single kS k cs).2.1 = isQuad k ∧
    (isCubic k = false → stageC p a pc rx ry single kS k cs = (none, k, cs)) := by
  obtain ⟨hl, hz⟩ := hs
  cases k <;> simp only [Kind.arity] at hl
  case Z => exact absurd rfl hz
  case C =>
    obtain ⟨a1, b, c, d, e, f, rfl⟩ := len6 cs hl
    simp only [stageC]
    refine ⟨?_, fun h => by simp [isCubic] at h⟩
    repeat' split
    all_goals first | (simp only [isQuad]; done) | (simp only [isQuad]; decide)
  case S =>
    obtain ⟨a1, b, c, d, rfl⟩ := len4 cs hl
    simp only [stageC]
    refine ⟨?_, fun h => by simp [isCubic] at h⟩
    repeat' split
    all_goals first | (simp only [isQuad]; done) | (simp only [isQuad]; decide)
  all_goals simp [stageC]

theorem stageQ_kinds (p a pq : Pt) (rx ry : Rat) (single kT : Bool) (k : Kind) (cs : List Coord) (hs : Shaped k cs) :
    isCubic (stageQ p a pq rx ry single kT k cs).2.1 = isCubic k ∧
    (isQuad k = false → stageQ p a pq rx ry single kT k cs = (none, k, cs)) := by
  obtain ⟨hl, hz⟩ := hs
  cases k <;> simp only [Kind.arity] at hl
  case Z => exact absurd rfl hz
  case Q =>
    obtain ⟨a1, b, c, d, rfl⟩ := len4 cs hl
    simp only [stageQ]
    refine ⟨?_, fun h => by simp [isQuad] at h⟩
    repeat' split
    all_goals first | (simp only [isCubic]; done) | (simp only [isCubic]; decide)
  case T =>
    obtain ⟨a1, b, rfl⟩ := len2 cs hl
    simp only [stageQ]
    refine ⟨?_, fun h => by simp [isQuad] at h⟩
    repeat' split
    all_goals first | (simp only [isCubic]; done) | (simp only [isCubic]; decide)
  all_goals simp [stageQ]

theorem start_nonM (S : St) (rel : Bool) (k : Kind) (cs : List Coord) (hk : k ≠ .M) :
    (stepCmd S ⟨k, rel, vals cs⟩).1.start = S.start := by
  unfold stepCmd
  split <;> simp_all

theorem classify_dropped_of_empty (S : St) (rel : Bool) (k : Kind) (cs : List Coord) (hs : Shaped k cs)
    (hk : k = .L ∨ isCubic k = true ∨ isQuad k = true)
    (h : (stepCmd S ⟨k, rel, vals cs⟩).2.filterMap simp1 = []) : classify S ⟨k, rel, vals cs⟩ = .dropped := by
  obtain ⟨hl, hz⟩ := hs
  cases k <;> simp only [Kind.arity] at hl <;> simp [isCubic, isQuad] at hk
  case L =>
    obtain ⟨a, b, rfl⟩ := len2 cs hl
    simp only [stepCmd, vals, List.map, filterMap_single] at h
    simp only [classify, stepCmd, vals, List.map]
    cases hh : simp1 (Seg.line S.cur (a.v + (off S rel).1, b.v + (off S rel).2)) with
    | none => simp
    | some x => rw [hh] at h; simp at h
  case T =>
    obtain ⟨a, b, rfl⟩ := len2 cs hl
    simp only [stepCmd, vals, List.map, filterMap_single] at h
    simp only [classify, stepCmd, vals, List.map]
    cases hh : simp1 (Seg.quad S.cur (refl S.cur S.lq) (a.v + (off S rel).1, b.v + (off S rel).2)) with
    | none => simp
    | some x => rw [hh] at h; simp at h
  case Q =>
    obtain ⟨a, b, c, d, rfl⟩ := len4 cs hl
    simp only [stepCmd, vals, List.map, filterMap_single] at h
    simp only [classify, stepCmd, vals, List.map]
    cases hh : simp1 (Seg.quad S.cur (a.v + (off S rel).1, b.v + (off S rel).2) (c.v + (off S rel).1, d.v + (off S rel).2)) with
    | none => simp
    | some x => rw [hh] at h; simp at h
  case S =>
    obtain ⟨a, b, c, d, rfl⟩ := len4 cs hl
    simp only [stepCmd, vals, List.map, filterMap_single] at h
    simp only [classify, stepCmd, vals, List.map]
    cases hh : simp1 (Seg.cubic S.cur (refl S.cur S.lc) (a.v + (off S rel).1, b.v + (off S rel).2) (c.v + (off S rel).1, d.v + (off S rel).2)) with
    | none => simp
    | some x => rw [hh] at h; simp at h
  case C =>
    obtain ⟨a, b, c, d, e, f, rfl⟩ := len6 cs hl
    simp only [stepCmd, vals, List.map, filterMap_single] at h
    simp only [classify, stepCmd, vals, List.map]
    cases hh : simp1 (Seg.cubic S.cur (a.v + (off S rel).1, b.v + (off S rel).2) (c.v + (off S rel).1, d.v + (off S rel).2)
        (e.v + (off S rel).1, f.v + (off S rel).2)) with
    | none => simp
    | some x => rw [hh] at h; simp at h

theorem stageL_kinds (p a : Pt) (kz : Bool) (k : Kind) (cs : List Coord) (hs : Shaped k cs) :
    ((stageL p a kz k cs).2.2 = true → k = .L) ∧
    (isCubic (stageL p a kz k cs).1 = isCubic k) ∧ (isQuad (stageL p a kz k cs).1 = isQuad k) := by
  obtain ⟨hl, hz⟩ := hs
  cases k <;> simp only [Kind.arity] at hl
  case Z => exact absurd rfl hz
  case L =>
    obtain ⟨a1, b, rfl⟩ := len2 cs hl
    simp only [stageL]
    refine ⟨fun _ => by trivial, ?_, ?_⟩ <;> (repeat' split) <;> first | rfl | decide
  all_goals simp [stageL]

/-- result of the three stages on one spec state in step with the model -/
structure RewriteOK (st : MSt) (S : St) (k : Kind) (rel : Bool) (cs : List Coord) (r : Rewritten) : Prop where
  cur : (stepCmd S ⟨k, rel, vals cs⟩).1.cur = (r.ax, r.ay)
  shaped : Shaped r.k r.cs
  skip : r.skip = true → (stepCmd S ⟨k, rel, vals cs⟩).2.filterMap simp1 = [] ∧ (r.ax, r.ay) = S.cur
  emit : r.skip = false → StageOK S rel k cs r.k r.cs ∧ (stepCmd S ⟨r.k, rel, vals r.cs⟩).1.lc = r.c ∧
    (stepCmd S ⟨r.k, rel, vals r.cs⟩).1.lq = r.q
  how : r.skip = false → stepCmd S ⟨r.k, rel, vals r.cs⟩ = stepCmd S ⟨k, rel, vals cs⟩ ∨
    (isCubic r.k = false ∧ isQuad r.k = false ∧
      ((isCubic k = true ∧ (classify S ⟨k, rel, vals cs⟩ = .dropped ∨ classify S ⟨k, rel, vals cs⟩ = .degC)) ∨
       (isQuad k = true ∧ (classify S ⟨k, rel, vals cs⟩ = .dropped ∨ classify S ⟨k, rel, vals cs⟩ = .degQ))))
  skipClass : r.skip = true → classify S ⟨k, rel, vals cs⟩ = .dropped

theorem rewrite_sound (st : MSt) (S : St) (k : Kind) (rel single : Bool) (cs : List Coord) (ctx : Ctx)
    (hs : Shaped k cs) (hcur : S.cur = (st.x, st.y))
    (hc : isCubic k = true → S.lc = st.c) (hq : isQuad k = true → S.lq = st.q) :
    RewriteOK st S k rel cs (rewrite st k rel single cs ctx) := by
  have hz : k ≠ .Z := hs.2
  have ha : endPoint st.x st.y (if rel then st.x else 0) (if rel then st.y else 0) k cs =
      (stepCmd S ⟨k, rel, vals cs⟩).1.cur := by
    rcases endPoint_eq S rel st.x st.y hcur k cs hs with h | h
    · exact h
    · exact absurd h hz
  -- stage C
  have hC := stageC_sound S rel single ctx.nextS st.x st.y hcur k cs hs
  have hCk := stageC_kinds (st.x, st.y) (endPoint st.x st.y (if rel then st.x else 0) (if rel then st.y else 0) k cs)
    (reflPt st.x st.y st.c) (if rel then st.x else 0) (if rel then st.y else 0) single ctx.nextS k cs hs
  have hCs := stageC_shaped (st.x, st.y) (endPoint st.x st.y (if rel then st.x else 0) (if rel then st.y else 0) k cs)
    (reflPt st.x st.y st.c) (if rel then st.x else 0) (if rel then st.y else 0) single ctx.nextS k cs hs
  have epc : stageC (st.x, st.y) (endPoint st.x st.y (if rel then st.x else 0) (if rel then st.y else 0) k cs)
      (reflPt st.x st.y st.c) (if rel then st.x else 0) (if rel then st.y else 0) single ctx.nextS k cs =
      stageC (st.x, st.y) (endPoint st.x st.y (if rel then st.x else 0) (if rel then st.y else 0) k cs)
      (refl (st.x, st.y) S.lc) (if rel then st.x else 0) (if rel then st.y else 0) single ctx.nextS k cs := by
    cases hck : isCubic k with
    | true => rw [reflPt_eq, hc hck]
    | false => rw [hCk.2 hck, hC.2.2 hck]
  have hCh := stageC_how S rel single ctx.nextS st.x st.y hcur k cs hs
  rw [← epc] at hC hCh
  generalize hcr : stageC (st.x, st.y) (endPoint st.x st.y (if rel then st.x else 0) (if rel then st.y else 0) k cs)
      (reflPt st.x st.y st.c) (if rel then st.x else 0) (if rel then st.y else 0) single ctx.nextS k cs = cr at hC hCk hCs hCh
  obtain ⟨c', k1, cs1⟩ := cr
  simp only at hC hCk hCs hCh
  -- the end point is unchanged by stage C
  have ha1 : endPoint st.x st.y (if rel then st.x else 0) (if rel then st.y else 0) k cs =
      (stepCmd S ⟨k1, rel, vals cs1⟩).1.cur := by rw [ha, hC.1.cur]
  -- stage Q
  have hQ := stageQ_sound S rel single ctx.nextT st.x st.y hcur k1 cs1 hCs.1
  have hQk := stageQ_kinds (st.x, st.y) (endPoint st.x st.y (if rel then st.x else 0) (if rel then st.y else 0) k cs)
    (reflPt st.x st.y st.q) (if rel then st.x else 0) (if rel then st.y else 0) single ctx.nextT k1 cs1 hCs.1
  have hQs := stageQ_shaped (st.x, st.y) (endPoint st.x st.y (if rel then st.x else 0) (if rel then st.y else 0) k cs)
    (reflPt st.x st.y st.q) (if rel then st.x else 0) (if rel then st.y else 0) single ctx.nextT k1 cs1 hCs.1
  have hae : endPoint st.x st.y (if rel then st.x else 0) (if rel then st.y else 0) k1 cs1 =
      endPoint st.x st.y (if rel then st.x else 0) (if rel then st.y else 0) k cs := by
    rcases endPoint_eq S rel st.x st.y hcur k1 cs1 hCs.1 with h | h
    · rw [h, ha1]
    · exact absurd h hCs.1.2
  have hQh := stageQ_how S rel single ctx.nextT st.x st.y hcur k1 cs1 hCs.1
  rw [hae] at hQ hQh
  have hqk1 : isQuad k1 = isQuad k := hCk.1
  have epq : stageQ (st.x, st.y) (endPoint st.x st.y (if rel then st.x else 0) (if rel then st.y else 0) k cs)
      (reflPt st.x st.y st.q) (if rel then st.x else 0) (if rel then st.y else 0) single ctx.nextT k1 cs1 =
      stageQ (st.x, st.y) (endPoint st.x st.y (if rel then st.x else 0) (if rel then st.y else 0) k cs)
      (refl (st.x, st.y) S.lq) (if rel then st.x else 0) (if rel then st.y else 0) single ctx.nextT k1 cs1 := by
    cases hqq : isQuad k1 with
    | true => rw [reflPt_eq, hq (by rw [← hqk1]; exact hqq)]
    | false => rw [hQk.2 hqq, hQ.2.2 hqq]
  rw [← epq] at hQ hQh
  -- lc after stage Q is still c'
  have hlc2 : (stepCmd S ⟨(stageQ (st.x, st.y) (endPoint st.x st.y (if rel then st.x else 0) (if rel then st.y else 0) k cs)
      (reflPt st.x st.y st.q) (if rel then st.x else 0) (if rel then st.y else 0) single ctx.nextT k1 cs1).2.1, rel,
      vals (stageQ (st.x, st.y) (endPoint st.x st.y (if rel then st.x else 0) (if rel then st.y else 0) k cs)
      (reflPt st.x st.y st.q) (if rel then st.x else 0) (if rel then st.y else 0) single ctx.nextT k1 cs1).2.2⟩).1.lc = c' := by
    cases hqq : isQuad k1 with
    | false => rw [hQk.2 hqq]; exact hC.2.1
    | true =>
      have hkc : isCubic k = false := by
        rw [hqk1] at hqq
        cases k <;> simp_all [isQuad, isCubic]
      have hcnone : c' = none := by
        have := hCk.2 hkc
        simp only [Prod.mk.injEq] at this
        exact this.1
      rw [hcnone]
      apply lc_noncubic S rel _ _ hQs.1
      rw [hQk.1]
      have := hCk.2 hkc
      simp only [Prod.mk.injEq] at this
      rw [this.2.1]; exact hkc
  generalize hqr : stageQ (st.x, st.y) (endPoint st.x st.y (if rel then st.x else 0) (if rel then st.y else 0) k cs)
      (reflPt st.x st.y st.q) (if rel then st.x else 0) (if rel then st.y else 0) single ctx.nextT k1 cs1 = qr at hQ hQk hQs hlc2 hQh
  obtain ⟨q', k2, cs2⟩ := qr
  simp only at hQ hQk hQs hlc2 hQh
  have h02 : StageOK S rel k cs k2 cs2 := hC.1.trans hQ.1
  have hae2 : endPoint st.x st.y (if rel then st.x else 0) (if rel then st.y else 0) k2 cs2 =
      endPoint st.x st.y (if rel then st.x else 0) (if rel then st.y else 0) k cs := by
    rcases endPoint_eq S rel st.x st.y hcur k2 cs2 hQs.1 with h | h
    · rw [h, ha, h02.cur]
    · exact absurd h hQs.1.2
  have hL := stageL_sound S rel ctx.keepZero st.x st.y hcur k2 cs2 hQs.1
  rw [hae2] at hL
  have hLs := stageL_shaped (st.x, st.y) (endPoint st.x st.y (if rel then st.x else 0) (if rel then st.y else 0) k cs)
    ctx.keepZero k2 cs2 hQs.1
  have hrw : rewrite st k rel single cs ctx =
      { c := c', q := q',
        k := (stageL (st.x, st.y) (endPoint st.x st.y (if rel then st.x else 0) (if rel then st.y else 0) k cs) ctx.keepZero k2 cs2).1,
        cs := (stageL (st.x, st.y) (endPoint st.x st.y (if rel then st.x else 0) (if rel then st.y else 0) k cs) ctx.keepZero k2 cs2).2.1,
        skip := (stageL (st.x, st.y) (endPoint st.x st.y (if rel then st.x else 0) (if rel then st.y else 0) k cs) ctx.keepZero k2 cs2).2.2,
        ax := (endPoint st.x st.y (if rel then st.x else 0) (if rel then st.y else 0) k cs).1,
        ay := (endPoint st.x st.y (if rel then st.x else 0) (if rel then st.y else 0) k cs).2 } := by
    simp only [rewrite, hcr, hqr]
  have hLk := stageL_kinds (st.x, st.y) (endPoint st.x st.y (if rel then st.x else 0) (if rel then st.y else 0) k cs)
    ctx.keepZero k2 cs2 hQs.1
  rw [hrw]
  refine ⟨by simp only; rw [← ha], hLs.1, ?_, ?_, ?_, ?_⟩
  rotate_left 2
  · -- how
    intro hsk
    simp only at hsk ⊢
    have h3 := hL.1 hsk
    rw [h3]
    rcases hCh with hc1 | ⟨hk1L, hkc, hcls⟩
    · -- stage C invisible
      rcases hQh with hq1 | ⟨hk2L, hkq, hcls⟩
      · left; rw [hq1, hc1]
      · right
        have hkq' : isQuad k = true := by rw [← hqk1]; exact hkq
        have hkc' : isCubic k = false := by
          clear hC hCk hCs hQ hQk hQs hlc2 hL hLs hLk h02 hcls hrw ha ha1 hae hae2 epc epq
          revert hkq'; cases k <;> decide
        have e1 := hCk.2 hkc'
        simp only [Prod.mk.injEq] at e1
        refine ⟨by rw [hLk.2.1, hk2L]; rfl, by rw [hLk.2.2, hk2L]; rfl, Or.inr ⟨hkq', ?_⟩⟩
        rw [e1.2.1, e1.2.2] at hcls; exact hcls
    · right
      have hq0 : isQuad k1 = false := by rw [hk1L]; rfl
      have e2 := hQk.2 hq0
      simp only [Prod.mk.injEq] at e2
      refine ⟨by rw [hLk.2.1, e2.2.1, hk1L]; rfl, by rw [hLk.2.2, e2.2.1, hk1L]; rfl, Or.inl ⟨hkc, hcls⟩⟩
  · -- class of a removed segment
    intro hsk
    simp only at hsk
    obtain ⟨h1, _, h3⟩ := hL.2 hsk
    have hseg0 : (stepCmd S ⟨k, rel, vals cs⟩).2.filterMap simp1 = [] := by rw [← h02.segs]; exact h1
    apply classify_dropped_of_empty S rel k cs hs _ hseg0
    -- k2 = L: the command was a lineto or a curve
    by_cases hkc : isCubic k = true
    · exact Or.inr (Or.inl hkc)
    · by_cases hkq : isQuad k = true
      · exact Or.inr (Or.inr hkq)
      · left
        have hkc' : isCubic k = false := by simpa using hkc
        have hkq' : isQuad k = false := by simpa using hkq
        have e1 := hCk.2 hkc'
        simp only [Prod.mk.injEq] at e1
        have e2 := hQk.2 (by rw [hqk1]; exact hkq')
        simp only [Prod.mk.injEq] at e2
        rw [← e1.2.1, ← e2.2.1]; exact h3
  · intro hsk
    simp only at hsk
    obtain ⟨h1, h2, _⟩ := hL.2 hsk
    refine ⟨by rw [← h02.segs]; exact h1, ?_⟩
    simp only
    show ((endPoint st.x st.y (if rel then st.x else 0) (if rel then st.y else 0) k cs).1,
      (endPoint st.x st.y (if rel then st.x else 0) (if rel then st.y else 0) k cs).2) = S.cur
    rw [ha, ← h02.cur, h2]
  · intro hsk
    simp only at hsk ⊢
    have h3 := hL.1 hsk
    refine ⟨⟨by rw [h3]; exact h02.segs, by rw [h3]; exact h02.cur, by rw [h3]; exact h02.start⟩, ?_, ?_⟩
    · rw [h3]; exact hlc2
    · rw [h3]; exact hQ.2.1

end Verif.Proofs.SvgSound

import Verif.Proofs.C09HtmlPieces
import Verif.Proofs.C09HtmlModelTag
import Verif.Spec.C09HtmlIntended
import Verif.Model.C09HtmlWalk
import Verif.Proofs.C09HtmlModelComment
import Verif.Proofs.C09HtmlModelRaw
/-!
# C09 / HTML — the flagship: the output of the model re-tokenises to the intended token stream

`walk` follows `run` of `Model/Html.lean`, cuts the output into the pieces of `Spec/C09HtmlIntended.lean` (one per input
token; the content of a raw-text element together with its end tag) and evaluates the decidable guard of the theorem.
-/
namespace Verif.Proofs.C09HtmlFlagship
open Verif.Spec.C09HtmlTok Verif.Spec.C09HtmlShape Verif.Spec.C09HtmlIntended Verif.Spec.HtmlAttr
open Verif.Proofs.C09HtmlTok Verif.Proofs.C09HtmlTag Verif.Proofs.C09HtmlPieces Verif.Proofs.C09HtmlRaw
open Verif.Proofs.C09HtmlComment Verif.Model.Html Verif.Model.C09HtmlWalk

/-! ## the bytes of one comment -/

theorem commentBody_spec (out b cl : List Char) (h : commentBody out = some (b, cl)) :
    out = Verif.Spec.C09HtmlIntended.opener ++ b ++ cl ∧ Closer cl := by
  unfold commentBody at h
  split at h
  · next hp =>
    obtain ⟨r, hr⟩ := List.isPrefixOf_iff_prefix.mp hp
    have hd : out.drop 4 = r := by rw [← hr]; rfl
    simp only [hd] at h
    split at h
    · next hs =>
      obtain ⟨t, ht⟩ := List.isSuffixOf_iff_suffix.mp hs
      simp only [Option.some.injEq, Prod.mk.injEq] at h
      obtain ⟨h1, h2⟩ := h
      subst h2
      have : r.take (r.length - 4) = t := by
        rw [← ht]; simp [closeBang]
      rw [this] at h1; subst h1
      exact ⟨by rw [← hr, ← ht, List.append_assoc], .bang⟩
    · split at h
      · next hs =>
        obtain ⟨t, ht⟩ := List.isSuffixOf_iff_suffix.mp hs
        simp only [Option.some.injEq, Prod.mk.injEq] at h
        obtain ⟨h1, h2⟩ := h
        subst h2
        have : r.take (r.length - 3) = t := by
          rw [← ht]; simp [closeNormal]
        rw [this] at h1; subst h1
        exact ⟨by rw [← hr, ← ht, List.append_assoc], .normal⟩
      · cases h
  · cases h

theorem goodComment_spec (out : List Char) (h : goodComment out = true) :
    out = [] ∨ ∃ b cl, Closer cl ∧ out = ['<', '!', '-', '-'] ++ b ++ cl ∧ abruptStart b = false ∧ hasClose b = false := by
  unfold goodComment at h
  simp only [Bool.or_eq_true, List.isEmpty_iff] at h
  rcases h with h | h
  · exact Or.inl h
  · right
    split at h
    · next b cl heq =>
      obtain ⟨e, c⟩ := commentBody_spec out b cl heq
      simp only [Bool.and_eq_true, Bool.not_eq_true'] at h
      exact ⟨b, cl, c, e, h.1, h.2⟩
    · cases h

/-! ## what `step` writes for a start tag -/

theorem step_startTag_shape (o : Opts) (ext : Ext) (sub : Sub) (st : St) (name : List Char) (attrs : List Attr)
    (rest : List HTok) (st' : St) (out : List Char)
    (h : Verif.Model.Html.step o ext sub st (.startTag name attrs) rest = .ok (st', out)) :
    out = [] ∨ ∃ as0 rawTag aout mt, specialAttrsOpt o ext name (attrs.map AttrSt.ofAttr) = .ok as0 ∧
      writeAttrs o ext sub name rawTag as0 none = .ok (aout, mt) ∧ out = '<' :: name ++ aout ++ ['>'] := by
  unfold Verif.Model.Html.step at h
  split at h
  · left; exact (Prod.mk.inj (ok_inj h)).2.symm
  · simp only [bind, Except.bind] at h
    split at h
    · left; exact (Prod.mk.inj (ok_inj h)).2.symm
    · split at h
      · left; exact (Prod.mk.inj (ok_inj h)).2.symm
      · split at h
        · cases h
        · next as0 has0 =>
          split at h
          · cases h
          · next r hr =>
            obtain ⟨aout, mt⟩ := r
            right
            exact ⟨as0, _, aout, mt, has0, hr, (Prod.mk.inj (ok_inj h)).2.symm⟩

/-! ## machine states of the phases -/

def DataM0 (m : M) : Prop := DataM m ∧ m.scripting = false

def RawM0 (tag : List Char) (m : M) : Prop :=
  m.s = .text ∧ m.mode = contentMode false tag ∧ rawMode (contentMode false tag) = true ∧ goodRawTag tag = true ∧
  isForeignRoot tag = false ∧ m.last = tag ∧ m.foreign = 0 ∧ m.scripting = false

def PhaseM : Phase → M → Prop
  | .data, m => DataM0 m
  | .rawStart tag, m => RawM0 tag m
  | .rawBody tag c, m => RawM0 tag m ∧ rawContentOK tag c = true

def pendC : Phase → List Char
  | .rawBody _ c => c
  | _ => []

theorem dataM0_init : DataM0 {} := ⟨⟨rfl, rfl, rfl⟩, rfl⟩

theorem rawM0_rawM (tag : List Char) (h1 : rawMode (contentMode false tag) = true) (h2 : goodRawTag tag = true)
    (h3 : isForeignRoot tag = false) : RawM0 tag (rawM tag) :=
  ⟨rfl, rfl, h1, h2, h3, rfl, rfl, rfl⟩

/-- reading is always a `Reads` with the tokens and the state it produces -/
theorem reads_self (m : M) (p : List Char) : Reads p (runO m p) m (runS m p) :=
  ⟨fun more => runO_append m p more, rfl⟩

theorem intended_append (a b : List Piece) : intended (a ++ b) = intended a ++ intended b := by
  simp [intended]

/-- the content of a raw-text element and its end tag, from the state behind the start tag -/
theorem reads_raw_body (tag content : List Char) (hc : rawContentOK tag content = true) (m : M) (hm : RawM0 tag m) :
    runO m (content ++ endTagBytesOf tag) = chs (contentMode false tag).refs content ++ [.endTag tag] ∧
    DataM0 (runS m (content ++ endTagBytesOf tag)) := by
  obtain ⟨hs, hmd, hraw, hg, hf, hl, hfo, hsc⟩ := hm
  simp only [rawContentOK, Bool.and_eq_true, Bool.not_eq_true', Bool.or_eq_true, beq_eq_false_iff_ne, ne_eq] at hc
  have hno : noOpen m content = true := by
    unfold noOpen
    cases hmd1 : (m.mode != .script) with
    | true => rfl
    | false =>
      have e : m.mode = .script := by simpa using hmd1
      rw [hmd] at e
      rcases hc.2 with h | h
      · simp [e] at h
      · simp [h]
  have hmraw : rawMode m.mode = true := by rw [hmd]; exact hraw
  have r := raw_text_then_end_tag m hs hmraw tag content [] hl hg hc.1 hno
  have he2 : (emitTag m { isEnd := true, name := tag } false).1 = { m with mode := .data } := by
    obtain ⟨sc, md, la, fo, s0⟩ := m
    simp only at hs; subst hs
    simp [emitTag, hf]
  refine ⟨?_, ?_⟩
  · have := r.1
    simp only [List.append_nil, runO_nil] at this
    rw [hmd] at this
    simpa [endTagBytesOf] using this
  · have := r.2
    rw [he2] at this
    simp only [endTagBytesOf]
    rw [this]
    exact ⟨⟨hs, rfl, hfo⟩, hsc⟩

/-- a data piece: read from every data state as what it is on its own, leaving the machine in the state of the next phase -/
def DataPieceOK (b : List Char) (next : Phase) : Prop :=
  ∀ m, DataM0 m → runO m b = runO {} b ∧ PhaseM next (runS m b)

theorem dataPiece_of_reads (b : List Char) (t : List Tok) (next : Phase)
    (h : ∀ m, DataM0 m → runO m b = t ∧ PhaseM next (runS m b)) : DataPieceOK b next := by
  intro m hm
  exact ⟨by rw [(h m hm).1, (h {} dataM0_init).1], (h m hm).2⟩

theorem dataPiece_nil : DataPieceOK [] .data := fun m hm => ⟨rfl, hm⟩

theorem dataPiece_text (d : List Char) (h : textSafe d = true) : DataPieceOK d .data :=
  dataPiece_of_reads d (chs true d) .data (fun m hm => by
    have r := reads_text m hm.1 d h
    have := r.1 []
    simp only [List.append_nil, runO_nil] at this
    exact ⟨this, by rw [r.2]; exact hm⟩)

theorem dataPiece_comment (out : List Char) (h : goodComment out = true) : DataPieceOK out .data := by
  rcases goodComment_spec out h with e | ⟨b, cl, hcl, e, ha, hc⟩
  · subst e; exact dataPiece_nil
  · subst e
    exact dataPiece_of_reads _ [.comment b] .data (fun m hm => by
      have r := reads_comment m hm.1 b cl ha hc hcl
      have := r.1 []
      simp only [List.append_nil, runO_nil] at this
      exact ⟨this, by rw [r.2]; exact hm⟩)

theorem dataPiece_doctype : DataPieceOK "<!doctype html>".toList .data :=
  dataPiece_of_reads _ [.doctype " html".toList] .data (fun m hm => by
    have r := reads_doctype m hm.1
    have := r.1 []
    simp only [List.append_nil, runO_nil] at this
    exact ⟨this, by rw [r.2]; exact hm⟩)

theorem dataPiece_endTag (name : List Char) (hn : goodTag name = true) (hf : isForeignRoot name = false) :
    DataPieceOK (endTagBytesOf name) .data :=
  dataPiece_of_reads _ [.endTag name] .data (fun m hm => by
    have r := reads_end_tag m hm.1 name hn hf
    have := r.1 []
    simp only [List.append_nil, runO_nil] at this
    exact ⟨this, by unfold endTagBytesOf; rw [r.2]; exact hm⟩)

theorem dataPiece_startTag (o : Opts) (ext : Ext) (sub : Sub) (name rawTag : List Char) (as0 : List AttrSt)
    (aout : List Char) (mt : Option (List Char))
    (hw : writeAttrs o ext sub name rawTag as0 none = .ok (aout, mt))
    (ht : goodTag name = true) (hf : isForeignRoot name = false)
    (hmode : contentMode false name = .data ∨ (rawMode (contentMode false name) = true ∧ goodRawTag name = true))
    (hall : as0.all (fun x => (!x.keep || !x.a.tmpl) && goodName x.name) = true) :
    DataPieceOK ('<' :: name ++ aout ++ ['>'])
      (if rawMode (contentMode false name) then .rawStart name else .data) := by
  have hall' := List.all_eq_true.mp hall
  have ha : ∀ x ∈ as0, x.keep = true → x.a.tmpl = false := by
    intro x hx hk
    have := hall' x hx
    simp only [Bool.and_eq_true, Bool.or_eq_true, Bool.not_eq_true'] at this
    rcases this.1 with h | h
    · rw [hk] at h; cases h
    · exact h
  have hn : ∀ x ∈ as0, goodName x.name = true := fun x hx => by
    have := hall' x hx; simp only [Bool.and_eq_true] at this; exact this.2
  obtain ⟨ws, h1, _, h3⟩ := writeAttrs_shape o ext sub name rawTag as0 none aout mt ha hw
  have hgn : ∀ a ∈ ws, goodName a.name = true := by
    intro a hw'
    obtain ⟨x, hx, v, e⟩ := h3 a hw'
    rw [e]; exact hn x hx
  subst h1
  refine dataPiece_of_reads _ [.startTag name (dedup [] (ws.map WAttr.read)) false] _ (fun m hm => ?_)
  obtain ⟨⟨hs, hmd, hfo⟩, hsc⟩ := hm
  obtain ⟨o1, o2⟩ := start_tag_reads_back m hs hmd name ws ht hgn
  have he : (emitTag m { isEnd := false, name := name, attrs := ws.map WAttr.read } false).1 =
      { m with last := name, mode := contentMode false name } := by
    obtain ⟨sc, md, la, fo, s0⟩ := m
    simp only at hs hmd hfo hsc; subst hs; subst hmd; subst hfo; subst hsc
    simp [emitTag, hf]
  have e1 : '<' :: name ++ ws.flatMap WAttr.bytes ++ ['>'] = '<' :: (name ++ ws.flatMap WAttr.bytes ++ ['>']) := by simp
  rw [e1]
  refine ⟨o1, ?_⟩
  rw [o2, he]
  rcases hmode with hd | ⟨hr, hg⟩
  · have : rawMode (contentMode false name) = false := by rw [hd]; rfl
    simp only [this, Bool.false_eq_true, if_false, PhaseM]
    exact ⟨⟨hs, hd, hfo⟩, hsc⟩
  · simp only [hr, if_true, PhaseM]
    exact ⟨hs, rfl, hr, hg, hf, rfl, hfo, hsc⟩

theorem run_cons_ok (o : Opts) (ext : Ext) (sub : Sub) (st : St) (t : HTok) (rest : List HTok) (out : List Char)
    (h : Verif.Model.Html.run o ext sub st (t :: rest) = .ok out) :
    ∃ st' o1 o2, Verif.Model.Html.step o ext sub st t rest = .ok (st', o1) ∧ Verif.Model.Html.run o ext sub st' rest = .ok o2 ∧ out = o1 ++ o2 := by
  simp only [Verif.Model.Html.run, bind, Except.bind] at h
  split at h
  · cases h
  · next r hr =>
    obtain ⟨st', o1⟩ := r
    simp only at h
    split at h
    · cases h
    · next o2 h2 => exact ⟨st', o1, o2, hr, h2, (ok_inj h).symm⟩

/-- a comment token of the lexer's shape that does not close abruptly: whatever the model writes for it is one data piece -/
theorem dataPiece_comment_shape (o : Opts) (ext : Ext) (sub : Sub) (st st' : St) (d tx : List Char) (rest : List HTok)
    (o1 : List Char) (hstep : Verif.Model.Html.step o ext sub st (.comment d tx) rest = .ok (st', o1))
    (h : (!st.dropEnd && commentShape d tx && !abruptStart tx) = true) : DataPieceOK o1 .data := by
  simp only [Bool.and_eq_true, Bool.not_eq_true'] at h
  obtain ⟨⟨hde, hsh⟩, hab⟩ := h
  have hco : commentOut o ext d tx = .ok o1 := by
    unfold Verif.Model.Html.step at hstep
    simp only [hde, Bool.false_eq_true, if_false, bind, Except.bind] at hstep
    split at hstep
    · cases hstep
    · next out hout => rw [hout]; exact congrArg Except.ok (Prod.mk.inj (ok_inj hstep)).2
  by_cases hne : o1 = []
  · rw [hne]; exact dataPiece_nil
  · simp only [commentShape, Bool.and_eq_true, Bool.or_eq_true, beq_iff_eq, Bool.not_eq_true'] at hsh
    obtain ⟨hd, hcl⟩ := hsh
    have key : ∃ cl, Closer cl ∧ d = Verif.Proofs.C09HtmlComment.opener ++ tx ++ cl := by
      rcases hd with e | e
      · exact ⟨_, .normal, e⟩
      · exact ⟨_, .bang, e⟩
    obtain ⟨cl, hcl', hd'⟩ := key
    obtain ⟨body, hb⟩ := html_comment_closed_uniform o ext d tx o1 cl hcl' hd' hcl hco hne hab
    exact dataPiece_of_reads o1 [.comment body] .data (fun m hm => by
      have := hb m [] hm.1.1 hm.1.2.1
      simp only [List.append_nil, runO_nil] at this
      exact ⟨this.1, by rw [this.2]; exact hm⟩)

/-- the content written into a raw-text element satisfies `rawContentOK` under the guard of `classify` -/
theorem rawContent_of_guard (o : Opts) (ext : Ext) (sub : Sub) (st st' : St) (tag d : List Char) (tm : Bool)
    (rest : List HTok) (o1 : List Char)
    (hstep : Verif.Model.Html.step o ext sub st (.text d tm) rest = .ok (st', o1)) (hg : goodRawTag tag = true)
    (h : (scriptGuard tag o1 &&
      ((st.rawTag == tag && !tm && !st.dropEnd && Verif.Model.Html.rawTextEndsAtEnd tag d) || !hasEndTag tag o1)) = true) :
    rawContentOK tag o1 = true := by
  simp only [Bool.and_eq_true, Bool.or_eq_true, Bool.not_eq_true', beq_iff_eq] at h
  obtain ⟨hsg, hrest⟩ := h
  have hsg' : scriptGuard tag o1 = true := hsg
  unfold rawContentOK
  simp only [Bool.and_eq_true, Bool.not_eq_true']
  refine ⟨?_, by simpa [scriptGuard] using hsg'⟩
  rcases hrest with ⟨⟨⟨hrt, htm⟩, hde⟩, hrl⟩ | hne
  · subst hrt; subst htm
    have hscript : st.rawTag = s "script" → hasInfix commentOpen o1 = false := by
      intro e
      simp only [scriptGuard, Bool.or_eq_true, Bool.not_eq_true', beq_eq_false_iff_ne, ne_eq] at hsg'
      rcases hsg' with hn | hn
      · exact absurd (by rw [e]; rfl) hn
      · exact hn
    have hne0 : st.rawTag ≠ [] := by
      intro e; rw [e] at hg; exact absurd hg (by decide)
    -- what the text branch writes in a raw-text element
    have hcases : o1 = [] ∨ Verif.Model.Html.rawTextEndsAtEnd st.rawTag o1 = true := by
      by_cases hdt : st.dropText = true
      · left
        unfold Verif.Model.Html.step at hstep
        simp only [hde, Bool.false_eq_true, if_false, hdt, Bool.not_false, Bool.and_self, if_true] at hstep
        exact (Prod.mk.inj (ok_inj hstep)).2.symm
      · right
        have hmode : Verif.Proofs.HtmlWs.textMode st false = 1 := by
          unfold Verif.Proofs.HtmlWs.textMode
          simp [hdt, hne0]
        obtain ⟨st2, hs2⟩ := step_raw_out o ext sub st d false rest hde hmode
        rw [hs2] at hstep
        have : o1 = rawOut sub st d := (Prod.mk.inj (ok_inj hstep)).2.symm
        rw [this]; exact rawOut_relex sub st d hrl
    rcases hcases with e | e
    · rw [e]; rfl
    · exact Verif.Proofs.C09HtmlRelex.relex_noEndTag st.rawTag o1 hg hscript e
  · exact hne

/-- one step: the pieces it completes are read, from every machine state of the current phase, as what they are on their
    own, and lead to a machine state of the next phase -/
theorem classify_sound (o : Opts) (ext : Ext) (sub : Sub) (st st' : St) (ph : Phase) (t : HTok) (rest : List HTok)
    (o1 : List Char) (hstep : Verif.Model.Html.step o ext sub st t rest = .ok (st', o1))
    (hg : (classify o ext st ph t o1).1 = true) :
    pendC ph ++ o1 = (((classify o ext st ph t o1).2.2).map Piece.bytes).flatten ++ pendC (classify o ext st ph t o1).2.1 ∧
    ∀ m, PhaseM ph m → ∃ m', PhaseM (classify o ext st ph t o1).2.1 m' ∧
      Reads ((((classify o ext st ph t o1).2.2).map Piece.bytes).flatten) (intended (classify o ext st ph t o1).2.2) m m' := by
  -- a data piece in the data phase
  have dataCase : ∀ (next : Phase), DataPieceOK o1 next →
      (pendC .data ++ o1 = (([Piece.data o1]).map Piece.bytes).flatten ++ pendC next ∨ True) →
      ∀ m, PhaseM .data m → ∃ m', PhaseM next m' ∧
        Reads ((([Piece.data o1]).map Piece.bytes).flatten) (intended [Piece.data o1]) m m' := by
    intro next hok _ m hm
    obtain ⟨e, hp⟩ := hok m hm
    refine ⟨runS m o1, hp, ?_⟩
    have := reads_self m o1
    simpa [intended, Piece.alone, Piece.bytes, e] using this
  cases ph with
  | data =>
    cases t with
    | text d tm =>
      simp only [classify] at hg ⊢
      exact ⟨by simp [pendC, Piece.bytes], dataCase .data (dataPiece_text o1 hg) (Or.inr trivial)⟩
    | comment d tx =>
      simp only [classify] at hg ⊢
      refine ⟨by simp [pendC, Piece.bytes], dataCase .data ?_ (Or.inr trivial)⟩
      simp only [Bool.or_eq_true] at hg
      rcases hg with hsh | hgc
      · exact dataPiece_comment_shape o ext sub st st' d tx rest o1 hstep hsh
      · exact dataPiece_comment o1 hgc
    | doctype =>
      simp only [classify, beq_iff_eq] at hg ⊢
      exact ⟨by simp [pendC, Piece.bytes], dataCase .data (by rw [hg]; exact dataPiece_doctype) (Or.inr trivial)⟩
    | endTag name d =>
      simp only [classify] at hg ⊢
      refine ⟨by simp [pendC, Piece.bytes], dataCase .data ?_ (Or.inr trivial)⟩
      simp only [Bool.or_eq_true, List.isEmpty_iff, Bool.and_eq_true, Bool.not_eq_true', beq_iff_eq] at hg
      rcases hg with e | ⟨⟨h1, h2⟩, h3⟩
      · rw [e]; exact dataPiece_nil
      · rw [h3]; exact dataPiece_endTag name h1 h2
    | startTag name attrs =>
      simp only [classify] at hg ⊢
      by_cases he : o1.isEmpty = true
      · simp only [he, if_true] at hg ⊢
        have e : o1 = [] := List.isEmpty_iff.mp he
        exact ⟨by simp [pendC, Piece.bytes], dataCase .data (by rw [e]; exact dataPiece_nil) (Or.inr trivial)⟩
      · simp only [he, Bool.false_eq_true, if_false] at hg ⊢
        refine ⟨by cases rawMode (contentMode false name) <;> simp [pendC, Piece.bytes], ?_⟩
        apply dataCase _ _ (Or.inr trivial)
        rcases step_startTag_shape o ext sub st name attrs rest st' o1 hstep with e | ⟨as0, rawTag, aout, mt, hsp, hw, e⟩
        · rw [e] at he; simp at he
        · simp only [startGuard, Bool.and_eq_true, Bool.not_eq_true', Bool.or_eq_true, beq_iff_eq, hsp] at hg
          obtain ⟨⟨⟨h1, h2⟩, h3⟩, h4⟩ := hg
          rw [e]
          exact dataPiece_startTag o ext sub name rawTag as0 aout mt hw h1 h2 h3 h4
    | svg d => simp [classify] at hg
    | math d => simp [classify] at hg
    | template d => simp [classify] at hg
  | rawStart tag =>
    cases t with
    | text d tm =>
      simp only [classify] at hg ⊢
      refine ⟨by simp [pendC], fun m hm => ⟨m, ⟨hm, ?_⟩, ?_⟩⟩
      · exact rawContent_of_guard o ext sub st st' tag d tm rest o1 hstep hm.2.2.2.1 hg
      · simpa [intended] using Reads.nil m
    | endTag name d =>
      simp only [classify, beq_iff_eq] at hg ⊢
      refine ⟨by simp [pendC, Piece.bytes], fun m hm => ?_⟩
      have hc : rawContentOK tag [] = true := by simp [rawContentOK, hasEndTag, hasInfix, commentOpen]
      obtain ⟨hs, hmd, hraw, hgr, hf, hl, hfo, hsc⟩ := hm
      have r := reads_raw_body tag [] hc m ⟨hs, hmd, hraw, hgr, hf, hl, hfo, hsc⟩
      have r0 := reads_raw_body tag [] hc (rawM tag) (rawM0_rawM tag hraw hgr hf)
      simp only [List.nil_append] at r r0
      refine ⟨runS m o1, by rw [hg]; exact r.2, ?_⟩
      have := reads_self m o1
      simpa [intended, Piece.alone, Piece.bytes, hg, r.1, r0.1] using this
    | doctype => simp [classify] at hg
    | comment d tx => simp [classify] at hg
    | startTag n a => simp [classify] at hg
    | svg d => simp [classify] at hg
    | math d => simp [classify] at hg
    | template d => simp [classify] at hg
  | rawBody tag c =>
    cases t with
    | endTag name d =>
      simp only [classify, beq_iff_eq] at hg ⊢
      refine ⟨by simp [pendC, Piece.bytes], fun m hm => ?_⟩
      obtain ⟨⟨hs, hmd, hraw, hgr, hf, hl, hfo, hsc⟩, hc⟩ := hm
      have r := reads_raw_body tag c hc m ⟨hs, hmd, hraw, hgr, hf, hl, hfo, hsc⟩
      have r0 := reads_raw_body tag c hc (rawM tag) (rawM0_rawM tag hraw hgr hf)
      refine ⟨runS m (c ++ o1), by rw [hg]; exact r.2, ?_⟩
      have := reads_self m (c ++ o1)
      simpa [intended, Piece.alone, Piece.bytes, hg, r.1, r0.1] using this
    | text d tm => simp [classify] at hg
    | doctype => simp [classify] at hg
    | comment d tx => simp [classify] at hg
    | startTag n a => simp [classify] at hg
    | svg d => simp [classify] at hg
    | math d => simp [classify] at hg
    | template d => simp [classify] at hg

theorem walk_cons_ok (o : Opts) (ext : Ext) (sub : Sub) (st st' : St) (ph : Phase) (t : HTok) (rest : List HTok)
    (o1 : List Char) (ps : List Piece) (hstep : Verif.Model.Html.step o ext sub st t rest = .ok (st', o1))
    (h : walk o ext sub st ph (t :: rest) = .ok (true, ps)) :
    (classify o ext st ph t o1).1 = true ∧ ∃ ps', walk o ext sub st' (classify o ext st ph t o1).2.1 rest = .ok (true, ps') ∧
      ps = (classify o ext st ph t o1).2.2 ++ ps' := by
  simp only [walk, hstep] at h
  split at h
  · cases h
  · next ok ps' hw =>
    have := Prod.mk.inj (ok_inj h)
    simp only [Bool.and_eq_true] at this
    obtain ⟨⟨g, hok⟩, e⟩ := this
    subst hok
    exact ⟨g, ps', hw, e.symm⟩

/-- the simulation: whatever `run` writes from a model state is, piece by piece, read by the tokenizer from every machine
    state of the current phase as the intended tokens, and the tokenizer ends in a data state -/
theorem walk_sound (o : Opts) (ext : Ext) (sub : Sub) : ∀ (toks : List HTok) (st : St) (ph : Phase) (out : List Char)
    (ps : List Piece), Verif.Model.Html.run o ext sub st toks = .ok out → walk o ext sub st ph toks = .ok (true, ps) →
    pendC ph ++ out = (ps.map Piece.bytes).flatten ∧
    ∀ m, PhaseM ph m → ∃ mf, DataM0 mf ∧ Reads (pendC ph ++ out) (intended ps) m mf := by
  intro toks
  induction toks with
  | nil =>
    intro st ph out ps hr hw
    simp only [Verif.Model.Html.run] at hr
    have eo := ok_inj hr
    subst eo
    cases ph with
    | data =>
      simp only [walk] at hw
      have := (Prod.mk.inj (ok_inj hw)).2
      subst this
      exact ⟨rfl, fun m hm => ⟨m, hm, by simpa [pendC, intended] using Reads.nil m⟩⟩
    | rawStart tag => simp [walk] at hw
    | rawBody tag c => simp [walk] at hw
  | cons t rest ih =>
    intro st ph out ps hr hw
    obtain ⟨st', o1, o2, hstep, hr2, eo⟩ := run_cons_ok o ext sub st t rest out hr
    obtain ⟨hg, ps', hw2, eps⟩ := walk_cons_ok o ext sub st st' ph t rest o1 ps hstep hw
    obtain ⟨c1, c2⟩ := classify_sound o ext sub st st' ph t rest o1 hstep hg
    obtain ⟨i1, i2⟩ := ih st' _ o2 ps' hr2 hw2
    subst eo; subst eps
    refine ⟨?_, fun m hm => ?_⟩
    · rw [← List.append_assoc, c1, List.append_assoc, i1]; simp
    · obtain ⟨m', hp', r1⟩ := c2 m hm
      obtain ⟨mf, hf, r2⟩ := i2 m' hp'
      refine ⟨mf, hf, ?_⟩
      have := r1.append r2
      rw [← List.append_assoc, c1, List.append_assoc, intended_append]
      exact this

/-- the full statement: for every token stream, options, sub-minifier and external results, the output re-tokenises to the
    intended token stream (here: whenever the pieces can be formed at all) -/
def html_output_retokenises_full : Prop :=
  ∀ (o : Opts) (ext : Ext) (sub : Sub) (toks : List HTok) (out : List Char) (g : Bool) (ps : List Piece),
    htmlMinify o ext sub toks = .ok out → walk o ext sub {} .data toks = .ok (g, ps) →
    tokens false out = intended ps

/-- **html_output_retokenises_partial** (the flagship).  For every option set, external-result table, sub-minifier and
    token stream on which the model of html.go returns `out` and the decidable guard evaluated by `walk` holds on every
    step —
    * text written in the data state is `textSafe` (every `<` is followed by a byte that does not open markup: html.go
      keeps `&lt;` escaped, a raw `<` before a digit / space / end of… is text for the standard too; NOT the case when a
      removed comment or tag leaves `<` + `b>` adjacent: K-C09-HTML-4);
    * a comment written is `goodComment` (see `html_comment_closed_partial` for when that holds);
    * an end tag written is `</name>` with a good name; the doctype is `<!doctype html>`;
    * a start tag written has a good name, no template attribute, good attribute names (after the special cases), and
      its content model is data, RCDATA, RAWTEXT or script data (not `plaintext`, `svg`, `math`);
    * what is written into a raw-text element contains no appropriate end tag of it and, in a script, no `<!--`
      (`html_rawtext_end_stable_partial` for when that holds), and the element's end tag is written;
    * no `svg`, `math`, template token (their bytes come from other minifiers) —
    the bytes `out` are exactly the concatenation of the pieces, and the HTML standard's tokenizer reads `out` as exactly
    `intended ps`: the concatenation of what each piece is on its own.  In particular omitted end tags and dropped
    html/head/body tags (empty pieces) and comments removed between two texts do not disturb tokenisation (character
    tokens carry no boundaries). -/
theorem html_output_retokenises_partial (o : Opts) (ext : Ext) (sub : Sub) (toks : List HTok) (out : List Char)
    (ps : List Piece) (h : htmlMinify o ext sub toks = .ok out) (hw : walk o ext sub {} .data toks = .ok (true, ps)) :
    out = (ps.map Piece.bytes).flatten ∧ tokens false out = intended ps := by
  obtain ⟨h1, h2⟩ := walk_sound o ext sub toks {} .data out ps h hw
  obtain ⟨mf, hf, r⟩ := h2 {} dataM0_init
  simp only [pendC, List.nil_append] at h1 r
  exact ⟨h1, r.tokens hf.1.finish⟩

/-- **html_output_retokenises_counterexample** (K-C09-HTML-4): text `a<`, a comment that is removed, text `b>c`: the
    pieces are `a<`, nothing, `b>c`, the output `a<b>c` is read as `a`, a start tag `b`, `c`. -/
theorem html_output_retokenises_counterexample : ¬ html_output_retokenises_full := by
  intro h
  have h1 : htmlMinify {} [] none [.text "a<".toList false, .comment "<!-- -->".toList " ".toList, .text "b>c".toList false]
      = .ok "a<b>c".toList := by decide +kernel
  have h2 : walk {} [] none {} .data [.text "a<".toList false, .comment "<!-- -->".toList " ".toList, .text "b>c".toList false]
      = .ok (false, [.data "a<".toList, .data [], .data "b>c".toList]) := by decide +kernel
  have := h {} [] none _ _ _ _ h1 h2
  revert this
  decide

/-- regression for K-C09-HTML-10 (fixed by 6635adc): the text `<&#98;>x` — a `<` that opens nothing, a reference, `>` — is
    written unchanged and read back as the same characters; before the fix it was written as `<b>x`, a start tag.  The general
    statement is `html_text_safe_preserved` (`Proofs/C09HtmlTextLt.lean`). -/
theorem html_lt_amp_kept :
    htmlMinify {} [] none [.text "<&#98;>x".toList false] = .ok "<&#98;>x".toList ∧
    tokens false "<&#98;>x".toList = chs true "<&#98;>x".toList ∧
    (match walk {} [] none {} .data [.text "<&#98;>x".toList false] with | .ok (g, _) => g | .error _ => false) = true := by
  decide +kernel

/-- the statement over the lexer grammar: every token stream of the lexer's shape, all options, no sub-minifier -/
def html_output_retokenises_lexshape_full : Prop :=
  ∀ (o : Opts) (toks : List HTok) (out : List Char) (g : Bool) (ps : List Piece), lexShape toks = true →
    htmlMinify o [] none toks = .ok out → walk o [] none {} .data toks = .ok (g, ps) → tokens false out = intended ps

/-- **html_output_retokenises_lexshape_counterexample**: the statement is FALSE over the lexer grammar (K-C09-HTML-4):
    `a<`, a comment that is removed, `b>c` — all three tokens have the lexer's shape.  What is true is the guarded
    statement `html_output_retokenises_partial`. -/
theorem html_output_retokenises_lexshape_counterexample : ¬ html_output_retokenises_lexshape_full := by
  intro h
  have h0 : lexShape [.text "a<".toList false, .comment "<!-- -->".toList " ".toList, .text "b>c".toList false] = true := by
    decide
  have h1 : htmlMinify {} [] none [.text "a<".toList false, .comment "<!-- -->".toList " ".toList, .text "b>c".toList false]
      = .ok "a<b>c".toList := by decide +kernel
  have h2 : walk {} [] none {} .data [.text "a<".toList false, .comment "<!-- -->".toList " ".toList, .text "b>c".toList false]
      = .ok (false, [.data "a<".toList, .data [], .data "b>c".toList]) := by decide +kernel
  have := h {} _ _ _ _ h0 h1 h2
  revert this
  decide

/-- the single text token `<&#98;>x` has the lexer's shape too -/
example : lexShape [.text "<&#98;>x".toList false] = true := by decide

/-- a document with a doctype, attributes in all three forms, an omitted end tag, a removed comment between texts, a raw
    `<` before a digit, a script whose content holds `</scr` and `<\/script>`, and a textarea -/
def exampleToks : List HTok :=
  [.doctype, .startTag "p".toList [⟨"title".toList, "a\"b".toList, " title='a\"b'".toList, false⟩,
      ⟨"id".toList, "x/".toList, " id=\"x/\"".toList, false⟩, ⟨"hidden".toList, [], " hidden".toList, false⟩],
   .text "1 <2 &amp; y".toList false, .comment "<!-- c -->".toList " c ".toList, .text "z &lt;b".toList false,
   .endTag "p".toList "</p>".toList,
   .startTag "script".toList [⟨"async".toList, [], " async".toList, false⟩],
   .text "var s=\"</scr\"+\"<\\/script>\";".toList false, .endTag "script".toList "</script>".toList,
   .startTag "textarea".toList [], .text " a  </b> ".toList false, .endTag "textarea".toList "</textarea>".toList]

/-- non-vacuity: the guard holds on it and the output is what html.go writes -/
example : htmlMinify {} [] none exampleToks =
    .ok "<!doctype html><p title='a\"b' id=x/ hidden>1 <2 & yz &lt;b</p><script async>var s=\"</scr\"+\"<\\/script>\";</script><textarea> a  </b> </textarea>".toList := by
  decide +kernel

example : (match walk {} [] none {} .data exampleToks with | .ok (g, _) => g | .error _ => false) = true ∧
    lexShape exampleToks = true := by
  decide +kernel

end Verif.Proofs.C09HtmlFlagship

import Verif.Proofs.JsStringBase
/-!
# C01E proofs, part 2: single iterations of model and decoder
-/
namespace Verif.Proofs.JsString
open Verif.JsStrBase Verif.Spec.JsStringSem Verif.Model.JsString

/-- the three quote characters -/
def IsQ (q : Nat) : Prop := q = 39 ∨ q = 34 ∨ q = 96

/-- bytes on which the model loop does nothing but copy, whatever follows -/
def Inert (q x : Nat) : Prop := x ≠ 92 ∧ x ≠ q ∧ x ≠ 36 ∧ x ≠ 13 ∧ x ≠ 60

theorem step_inert {q : Nat} {an : Bool} {x : Nat} {r : List Nat} (h : Inert q x) :
    step q an x r = ([x], 0, false) := by
  obtain ⟨h1, h2, h3, h4, h5⟩ := h
  simp [step, h1, h2, h3, h4, h5]

theorem repA_inert {q : Nat} {an : Bool} {x : Nat} {l : List Nat} (h : Inert q x) :
    repA q an (x :: l) = x :: repA q false l := by
  rw [repA_cons, step_inert h]; rfl

/-- a run of inert bytes is copied -/
theorem repA_inert_run {q : Nat} : ∀ (p : List Nat) {an : Bool} {l : List Nat}, (∀ x ∈ p, Inert q x) → p ≠ [] →
    repA q an (p ++ l) = p ++ repA q false l := by
  intro p
  induction p with
  | nil => intro an l _ h; exact absurd rfl h
  | cons x p ih =>
    intro an l h _
    have hx := h x (by simp)
    rw [List.cons_append, repA_inert hx]
    cases p with
    | nil => rfl
    | cons y p' =>
      rw [ih (fun z hz => h z (by simp [hz])) (by simp)]
      rfl

theorem repA_inert_run' {q : Nat} (p : List Nat) {l : List Nat} (h : ∀ x ∈ p, Inert q x) :
    repA q false (p ++ l) = p ++ repA q false l := by
  cases p with
  | nil => rfl
  | cons x p' => exact repA_inert_run (x :: p') h (by simp)

theorem inert_of_hex {q x : Nat} (hq : IsQ q) (h : isHex x = true) : Inert q x := by
  simp only [isHex, Bool.or_eq_true, Bool.and_eq_true, decide_eq_true_eq] at h
  rcases hq with rfl | rfl | rfl <;> (unfold Inert; omega)

theorem inert_of_ge {q x : Nat} (hq : IsQ q) (h : 128 ≤ x) : Inert q x := by
  rcases hq with rfl | rfl | rfl <;> (unfold Inert; omega)

end Verif.Proofs.JsString

import Verif.Proofs.C09Svg
/-!
# C09 (SVG) — property-level theorems about the writers of `svg.go`

`svg_bracket_count`, `svg_text_wellformed`, `svg_cdata_wellformed`, `svg_attr_wellformed`, with the contracts on the
CSS sub-minifier stated explicitly (`SubTextOk`, `LegalOut`, `NoCdEndOut`, "the rewritten value is a sequence of
units") and counterexamples showing that a sub-minifier which only removes white space violates them
(K-C09-Xml-2, K-C09-Xml-3 on the real code).
-/
namespace Verif.Proofs.C09Xml
open Verif.Xml (XTok)
open Verif.Spec.Xml
open Verif.Spec.C09XmlLex
open Verif.Model.Xml
open Verif.Model.C09SvgText
open Verif.Proofs.Xml
open Verif.Proofs.C09XmlLex
open Verif.Proofs.C09Svg
open Verif.Gen

/-- character data that may be written behind `n` closing brackets: empty or character data according to the
grammar (no `<`, `&` only in references, legal characters), and no `]]>` is completed -/
def TextSafe (n : Nat) (t : List Char) : Prop := (t = [] ∨ WfText t) ∧ cdAuto n t = false

/-- **svg_bracket_count** (full): for EVERY sequence of writes (tags, attributes, text, sub-minifier output, verbatim
copies — everything goes through `bracketWriter.Write`), `bw.n` is the number of `]` at the end of all bytes written,
i.e. exactly the argument `escapeCDEnd` needs. -/
theorem svg_bracket_count (n : Nat) (ws : List (List Char)) : bwTotal n ws = brAfter n ws.flatten :=
  bwTotal_eq ws n

example : bwTotal 0 ["<text>".toList, "]".toList, "]".toList, [], "]".toList] = 3 ∧
    bwTotal 0 ["a]]".toList, "<b/>".toList] = 0 := by decide

/-- text that is safe behind the brackets at the end of `out` does not create `]]>` when appended to `out` -/
theorem append_safe (out t : List Char) (n : Nat) (hn : brAfter 0 out = n) (ho : hasCdEnd out = false)
    (ht : cdAuto n t = false) : hasCdEnd (out ++ t) = false := by
  rw [← cdAuto_hasCdEnd, cdAuto_append, cdAuto_hasCdEnd, ho, cdState_eq_brAfter, hn, ht]
  rfl

theorem textSafe_escCD (n : Nat) (x : List Char) (hx : x = [] ∨ WfText x) : TextSafe n (escCD n x) :=
  ⟨(escCD_text n x hx).2.1, (escCD_free x n).1⟩

/-- **svg_text_wellformed** (full for text outside `style` and whenever no CSS minifier is registered): for EVERY
`bw.n` and EVERY text token whose data is character data according to the grammar, the bytes written by the
`TextToken` branch (`ReplaceMultipleWhitespaceAndEntities` with the XML tables, `TrimWhitespace`, `escapeCDEnd`)
are empty or well-formed character data, complete no `]]>` behind the `n` brackets already written, and appended
to any `]]>`-free output ending in `n` brackets leave it `]]>`-free.  Inside `style` exactly these bytes are what
the sub-minifier is given. -/
theorem svg_text_wellformed (n : Nat) (d : List Char) (hd : WfText d) :
    TextSafe n (svgTextData n d) ∧
    (∀ f, svgText false f n d = svgTextData n d) ∧ (∀ st, svgText st (fun _ => none) n d = svgTextData n d) ∧
    ∀ out, brAfter 0 out = n → hasCdEnd out = false → hasCdEnd (out ++ svgTextData n d) = false := by
  obtain ⟨us, hok, rfl, _⟩ := hd
  obtain ⟨us1, e1, ok1, _, _⟩ := scan_text us hok
  obtain ⟨us2, e2, ok2⟩ := trimWs_flat us1 ok1
  have hs : TextSafe n (svgTextData n (flat us)) := by
    unfold svgTextData
    rw [e1, e2]
    exact textSafe_escCD n _ (units_text us2 ok2)
  refine ⟨hs, fun f => by simp [svgText], fun st => ?_, fun out hn ho => append_safe out _ n hn ho hs.2⟩
  simp only [svgText]
  split <;> rfl

example : svgTextData 2 " a  &lt;\n&gt; ]]&gt; ".toList = "a &lt;\n> ]]&gt;".toList ∧
    svgTextData 2 ">x".toList = "&gt;x".toList := by decide

/-- contract for a sub-minifier whose output is written as character data: safe input gives safe output -/
def SubTextOk (f : List Char → Option (List Char)) : Prop :=
  ∀ n x m, f x = some m → TextSafe n x → TextSafe n m

/-- **svg_text_wellformed_sub** (by contract): inside `style` the written bytes are the sub-minifier's output for
the safe data of `svg_text_wellformed`; they are safe for EVERY sub-minifier that satisfies `SubTextOk`. -/
theorem svg_text_wellformed_sub (style : Bool) (f : List Char → Option (List Char)) (hf : SubTextOk f) (n : Nat)
    (d : List Char) (hd : WfText d) : TextSafe n (svgText style f n d) := by
  have hs := (svg_text_wellformed n d hd).1
  simp only [svgText]
  split
  · cases hm : f (svgTextData n d) with
    | none => exact hs
    | some m => exact hf n _ m hm hs
  · exact hs

/-- full statement without a contract: whatever the sub-minifier does, the text written inside `style` is safe -/
def svg_style_text_full : Prop :=
  ∀ (f : List Char → Option (List Char)) (n : Nat) (d : List Char), WfText d → TextSafe n (svgText true f n d)

/-- a sub-minifier that only removes spaces (what the CSS minifier does around `]` and `>`) -/
def dropSpaces (x : List Char) : Option (List Char) := some (x.filter (· != ' '))

/-- **svg_style_text_counterexample**: the contract is needed and the real CSS minifier violates it — a sub-minifier
that only removes spaces turns the well-formed `a[b]] > c` into `a[b]]>c` (on the real code:
`<svg><style>a[b]] > c{d:e}</style></svg>` → `<svg><style>a[b]]>c{d:e}</style></svg>`, K-C09-Xml-2; the `;` of
`&amp;` removed as a redundant semicolon, K-C09-Xml-3). -/
theorem svg_style_text_counterexample : ¬ svg_style_text_full := by
  intro h
  have hd : WfText "a[b]] > c".toList :=
    ⟨[.lit 'a', .lit '[', .lit 'b', .lit ']', .lit ']', .lit ' ', .lit '>', .lit ' ', .lit 'c'], by decide, by decide,
      by decide⟩
  have := (h dropSpaces 0 _ hd).2
  revert this
  decide

/-- contract: the sub-minifier writes legal characters only -/
def LegalOut (f : List Char → Option (List Char)) : Prop :=
  ∀ x m, f x = some m → x.all legalByte = true → m.all legalByte = true
/-- contract: the output of the sub-minifier does not contain `]]>` -/
def NoCdEndOut (f : List Char → Option (List Char)) : Prop := ∀ x m, f x = some m → hasCdEnd m = false

theorem cdataText_safe (n : Nat) (t e : List Char) (ht : t.all legalByte = true)
    (he : escapeCDATAVal t = some e) : TextSafe n (svgCDataText n e) := by
  have hE : e = escCData t := by
    unfold escapeCDATAVal at he
    split at he
    · cases he
    · exact (Option.some.inj he).symm
  have hokU : (t.map cdU).all XUnit.ok = true := by
    simp only [List.all_map, List.all_eq_true]
    intro c hc
    exact (cdU_ok c (wfCData_of_all t ht c hc)).1
  subst hE
  rw [escCData_flat]
  obtain ⟨us1, e1, ok1⟩ := collapse_flat _ hokU false
  obtain ⟨us2, e2, ok2⟩ := trimWs_flat us1 ok1
  unfold svgCDataText
  rw [e1, e2]
  exact textSafe_escCD n _ (units_text us2 ok2)

/-- **svg_cdata_wellformed**: for EVERY `bw.n`, EVERY CDATA token of the lexer contract (`cdataOk`: own delimiters,
text without `]]>`, legal characters), inside or outside `style`, and EVERY sub-minifier `f` that writes legal
characters (`LegalOut`):
* when `EscapeCDATAVal` chooses text (at most 12 bytes of escapes), the written bytes (`&lt;`/`&amp;` escapes,
  white space collapsed and trimmed, `escapeCDEnd`) are empty or well-formed character data and complete no `]]>` —
  no further contract on `f`: a `]]>` in its output is escaped on this path;
* when the section is kept, the written bytes are a well-formed CDATA section (`cdataOk`) around the text — outside
  `style` unconditionally, inside `style` for every `f` whose output contains no `]]>` (`NoCdEndOut`). -/
theorem svg_cdata_wellformed (style : Bool) (f : List Char → Option (List Char)) (hf : LegalOut f) (n : Nat)
    (data txt : List Char) (hc : cdataOk data txt = true) :
    ((escapeCDATAVal (svgCDataSub style f data txt).2).isSome = true → TextSafe n (svgCData style f n data txt)) ∧
    (escapeCDATAVal (svgCDataSub style f data txt).2 = none → (style = false ∨ NoCdEndOut f) →
      cdataOk (svgCData style f n data txt) (svgCDataSub style f data txt).2 = true) := by
  obtain ⟨hd, hne, hleg⟩ := cdataOk_shape data txt hc
  have hsub : (svgCDataSub style f data txt).2.all legalByte = true ∧
      ((style = false ∨ NoCdEndOut f) → cdataOk (svgCDataSub style f data txt).1 (svgCDataSub style f data txt).2 = true) := by
    unfold svgCDataSub
    cases style with
    | false => exact ⟨hleg, fun _ => hc⟩
    | true =>
      simp only [if_true]
      cases hm : f txt with
      | none => exact ⟨hleg, fun _ => hc⟩
      | some m =>
        refine ⟨hf txt m hm hleg, fun h => ?_⟩
        rcases h with h | h
        · cases h
        · simp [cdataOk, cdOpen, cdClose, cdataOpen, cdataClose, h txt m hm, hf txt m hm hleg]
  constructor
  · intro hsome
    cases he : escapeCDATAVal (svgCDataSub style f data txt).2 with
    | none => rw [he] at hsome; cases hsome
    | some e =>
      unfold svgCData
      simp only [he]
      exact cdataText_safe n _ e hsub.1 he
  · intro hnone hcon
    unfold svgCData
    simp only [hnone]
    exact hsub.2 hcon

example : cdataOk "<![CDATA[ a <b> ]]>".toList " a <b> ".toList = true ∧
    svgCData false dropSpaces 2 "<![CDATA[ a <b> ]]>".toList " a <b> ".toList = "a &lt;b>".toList ∧
    svgCData true dropSpaces 0 "<![CDATA[a{b:\"<<<<<\"} ]]>".toList "a{b:\"<<<<<\"} ".toList =
      "<![CDATA[a{b:\"<<<<<\"}]]>".toList := by decide

/-- full statement without `NoCdEndOut`: a kept section is a well-formed CDATA section whatever the sub-minifier does -/
def svg_cdata_kept_full : Prop :=
  ∀ (f : List Char → Option (List Char)), LegalOut f → ∀ (n : Nat) (data txt : List Char), cdataOk data txt = true →
    escapeCDATAVal (svgCDataSub true f data txt).2 = none →
    cdataOk (svgCData true f n data txt) (svgCDataSub true f data txt).2 = true

theorem dropSpaces_legal : LegalOut dropSpaces := by
  intro x m h hx
  simp only [dropSpaces, Option.some.injEq] at h
  subst h
  simp only [List.all_eq_true, List.mem_filter] at hx ⊢
  intro c hc
  exact hx c hc.1

/-- **svg_cdata_kept_counterexample**: `NoCdEndOut` is needed and the real CSS minifier violates it — inside `style`
a sub-minifier that only removes spaces turns `a[b]] > c{d:"<<<<<"}` (15 bytes of escapes: the section is kept) into a
"section" whose text contains `]]>`: the section ends early and the rest, with its `<`, is character data; the
independent tokeniser rejects `<style>…</style>` around it.  On the real code:
`<svg><style><![CDATA[a[b]] > c{d:"<<<<<"}]]></style></svg>` → `…<![CDATA[a[b]]>c{d:"<<<<<"}]]>…` (K-C09-Xml-2). -/
theorem svg_cdata_kept_counterexample : ¬ svg_cdata_kept_full := by
  intro h
  have := h dropSpaces dropSpaces_legal 0 "<![CDATA[a[b]] > c{d:\"<<<<<\"}]]>".toList "a[b]] > c{d:\"<<<<<\"}".toList
    (by decide) (by decide)
  revert this
  decide

example : xmlTokens ("<style>".toList ++ svgCData true dropSpaces 0 "<![CDATA[a[b]] > c{d:\"<<<<<\"}]]>".toList
    "a[b]] > c{d:\"<<<<<\"}".toList ++ "</style>".toList) = none := by decide

/-- **svg_attr_wellformed**: (1) for EVERY well-formed quoted attribute value literal, the value as preprocessed by
`TokenBuffer.read` (`ReplaceMultipleWhitespaceAndEntities` with `EntitiesMap`/`AttrRevEntitiesMap`, `TrimWhitespace`)
is a sequence of grammar units (literal bytes other than `<`/`&`, references); (2) for EVERY value `v` that is a
sequence of units — the preprocessed value of (1) for attributes that are written as they are, and by contract the
result of the value rewrites (`style` through the CSS sub-minifier, `d`, `viewBox`, colours, lengths) — the bytes
written by `xml.EscapeAttrVal` are a well-formed attribute value literal (quoted, no `<`, no bare `&`, the chosen
quote does not occur inside) whose XML 1.0 §3.3.3 normalised value is the value of `v`. -/
theorem svg_attr_wellformed :
    (∀ v : List Char, WfAttrVal v → ∃ q body us, v = q :: (body ++ [q]) ∧ svgAttrPre body = flat us ∧
      us.all XUnit.ok = true) ∧
    (∀ us : List XUnit, us.all XUnit.ok = true →
      WfAttrVal (svgAttrWrite (flat us)) ∧ attrValue (svgAttrWrite (flat us)) = us.map (XUnit.val true)) := by
  constructor
  · rintro v ⟨q, us, _, hok, _, rfl⟩
    obtain ⟨us1, e1, ok1⟩ := scan_ws_units XmlTables.attrRev attrRev_sound us.length us (Nat.le_refl _) hok
    obtain ⟨us2, e2, ok2⟩ := trimWs_flat us1 ok1
    refine ⟨q, flat us, us2, rfl, ?_, ok2⟩
    unfold svgAttrPre replWsEnt
    rw [e1, e2]
  · intro us hok
    have := escapeAttrVal_flat us hok
    exact ⟨this.2, this.1⟩

example : svgAttrPre "  a &#60;  &quot;b&apos; &#10; ".toList = "a &lt; \"b' &#10;".toList ∧
    svgAttrWrite (svgAttrPre "  a &#60;  &quot;b&apos;\" &#10; ".toList) = "'a &lt; \"b&#39;\" &#10;'".toList := by decide

/-- `EscapeAttrVal` only escapes the chosen quote: a rewritten value that is not a sequence of units (here the CSS
sub-minifier's `a:&lt` for `a:&lt;`, K-C09-Xml-3 on the real code: `<svg style="a:&lt;"/>` → `<svg style="a:&lt"/>`)
is written as an ill-formed literal — the contract of (2) is needed -/
theorem svg_attr_contract_needed : wfAttr (svgAttrWrite "a:&lt".toList) = false ∧
    wfAttr (svgAttrWrite "a<b".toList) = false := by decide

end Verif.Proofs.C09Xml

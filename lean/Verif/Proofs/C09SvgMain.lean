import Verif.Proofs.C09Svg
/-!
# C09 (SVG) — property-level theorems about the writers of `svg.go`

`svg_bracket_count`, `svg_text_wellformed`, `svg_cdata_wellformed`, `svg_attr_wellformed` for EVERY sub-minifier
function: since /repo d582c28 the host checks the sub-minifier's result (`isCharData`, no `]]>` in a kept section)
and escapes `]]>` after it, so the former contracts `SubTextOk`, `NoCdEndOut`, "the rewritten `style` value is a
sequence of units" are gone (K-C09-Xml-2, K-C09-Xml-3 fixed).  What the host does not check is the legality of the
characters a sub-minifier writes (control characters, references to illegal code points): for sub-minifier output the
theorems give `CharData` (no `<`, no `&` that does not start a reference) instead of the full grammar `WfText`.
-/
namespace Verif.Proofs.C09Xml
open Verif.Xml (XTok)
open Verif.Spec.Xml
open Verif.Spec.C09XmlLex
open Verif.Model.Xml
open Verif.Model.C09SvgText
open Verif.Proofs.Xml
open Verif.Proofs.C09XmlLex
open Verif.Proofs.C09Svg
open Verif.Gen

/-- character data that may be written behind `n` closing brackets: empty or character data according to the
grammar (no `<`, `&` only in references, legal characters), and no `]]>` is completed -/
def TextSafe (n : Nat) (t : List Char) : Prop := (t = [] ∨ WfText t) ∧ cdAuto n t = false

/-- **svg_bracket_count** (full): for EVERY sequence of writes (tags, attributes, text, sub-minifier output, verbatim
copies — everything goes through `bracketWriter.Write`), `bw.n` is the number of `]` at the end of all bytes written,
i.e. exactly the argument `escapeCDEnd` needs. -/
theorem svg_bracket_count (n : Nat) (ws : List (List Char)) : bwTotal n ws = brAfter n ws.flatten :=
  bwTotal_eq ws n

example : bwTotal 0 ["<text>".toList, "]".toList, "]".toList, [], "]".toList] = 3 ∧
    bwTotal 0 ["a]]".toList, "<b/>".toList] = 0 := by decide

/-- text that is safe behind the brackets at the end of `out` does not create `]]>` when appended to `out` -/
theorem append_safe (out t : List Char) (n : Nat) (hn : brAfter 0 out = n) (ho : hasCdEnd out = false)
    (ht : cdAuto n t = false) : hasCdEnd (out ++ t) = false := by
  rw [← cdAuto_hasCdEnd, cdAuto_append, cdAuto_hasCdEnd, ho, cdState_eq_brAfter, hn, ht]
  rfl

theorem textSafe_escCD (n : Nat) (x : List Char) (hx : x = [] ∨ WfText x) : TextSafe n (escCD n x) :=
  ⟨(escCD_text n x hx).2.1, (escCD_free x n).1⟩

/-- character data in the sense the host can enforce: no `<`, and the specification decoder finds no `&` that does
not start a reference -/
def CharData (t : List Char) : Prop := '<' ∉ t ∧ DCh.bad ∉ decodeText t

theorem legalD_ne_bad (l : List DCh) (h : l.all legalD = true) : DCh.bad ∉ l := by
  intro hb
  have := (List.all_eq_true.mp h) _ hb
  simp [legalD] at this

theorem wfText_charData (t : List Char) (h : t = [] ∨ WfText t) : CharData t := by
  rcases h with rfl | ⟨us, hok, rfl, _⟩
  · simp [CharData, decodeText, decodeGo]
  · refine ⟨flat_no_lt us hok, ?_⟩
    rw [decodeText_flat us hok]
    exact legalD_ne_bad _ (legal_units us hok false)

theorem charData_escCD (n : Nat) (x : List Char) (h : isCharData x = true) : CharData (escCD n x) :=
  isCD_spec false _ _ (Nat.le_refl _) (isCD_escCD _ x (Nat.le_refl _) h n)

/-- the data the `TextToken` branch hands on is character data according to the grammar -/
theorem svgTextPre_wf (d : List Char) (hd : WfText d) : svgTextPre d = [] ∨ WfText (svgTextPre d) := by
  obtain ⟨us, hok, rfl, _⟩ := hd
  obtain ⟨us1, e1, ok1, _, _⟩ := scan_text us hok
  obtain ⟨us2, e2, ok2⟩ := trimWs_flat us1 ok1
  unfold svgTextPre
  rw [e1, e2]
  exact units_text us2 ok2

/-- **svg_text_wellformed** (full, EVERY sub-minifier function `f`, inside and outside `style`): for every `bw.n` and
every text token whose data is character data according to the grammar, the bytes written by the `TextToken` branch of
`svg.go` (`ReplaceMultipleWhitespaceAndEntities`, `TrimWhitespace`, inside `style` the sub-minifier on a copy whose
result is used only if `isCharData` accepts it, then `escapeCDEnd(·, bw.n)`) contain no `<`, no `&` that does not start
a reference, complete no `]]>` behind the `n` brackets already written, and appended to any `]]>`-free output ending in
`n` brackets leave it `]]>`-free.  Whenever the bytes do not come from the sub-minifier (outside `style`, no CSS
minifier, result rejected) they are moreover empty or well-formed character data with legal characters (`TextSafe`). -/
theorem svg_text_wellformed (style : Bool) (f : List Char → Option (List Char)) (n : Nat) (d : List Char)
    (hd : WfText d) :
    CharData (svgText style f n d) ∧ cdAuto n (svgText style f n d) = false ∧
    (∀ out, brAfter 0 out = n → hasCdEnd out = false → hasCdEnd (out ++ svgText style f n d) = false) ∧
    ((style = false ∨ subChecked f (svgTextPre d) = svgTextPre d) → TextSafe n (svgText style f n d)) ∧
    svgText false f n d = svgTextData n d := by
  have hpre := svgTextPre_wf d hd
  have hfree : cdAuto n (svgText style f n d) = false := by
    simp only [svgText]; exact (escCD_free _ n).1
  have hcd : CharData (svgText style f n d) := by
    simp only [svgText]
    split
    · unfold subChecked
      cases hm : f (svgTextPre d) with
      | none => exact wfText_charData _ (textSafe_escCD n _ hpre).1
      | some m =>
        simp only
        split
        · next hok => exact charData_escCD n m hok
        · exact wfText_charData _ (textSafe_escCD n _ hpre).1
    · exact wfText_charData _ (textSafe_escCD n _ hpre).1
  refine ⟨hcd, hfree, fun out hn ho => append_safe out _ n hn ho hfree, ?_, by simp [svgText, svgTextData]⟩
  intro h
  simp only [svgText]
  rcases h with rfl | h
  · simpa using textSafe_escCD n _ hpre
  · split
    · rw [h]; exact textSafe_escCD n _ hpre
    · exact textSafe_escCD n _ hpre

example : svgTextData 2 " a  &lt;\n&gt; ]]&gt; ".toList = "a &lt;\n> ]]&gt;".toList ∧
    svgTextData 2 ">x".toList = "&gt;x".toList := by decide

/-- a sub-minifier that only removes spaces (what the CSS minifier does around `]` and `>`) -/
def dropSpaces (x : List Char) : Option (List Char) := some (x.filter (· != ' '))

/-- a sub-minifier that drops a `;` in front of `}` and at the end (the CSS minifier's redundant semicolon) -/
def dropSemi : List Char → Option (List Char)
  | x => some (go x)
where
  go : List Char → List Char
    | [] => []
    | [';'] => []
    | ';' :: '}' :: r => '}' :: go r
    | c :: r => c :: go r

/-- regression of K-C09-Xml-2 / K-C09-Xml-3 (fixed in d582c28): what is written now.  A sub-minifier that removes the
spaces of `a[b]] > c` no longer creates `]]>` (the `>` is escaped after it ran); one that cuts the `;` of `&amp;` is
overruled (its result is not character data, the data it was given is written). -/
example : svgText true dropSpaces 0 "a[b]] > c".toList = "a[b]]&gt;c".toList ∧
    svgText true dropSemi 0 "a{b:c&amp;}".toList = "a{b:c&amp;}".toList ∧
    isCharData "a{b:c&amp}".toList = false ∧ isCharData "a{b:c&amp;}&#x3c;&#60;".toList = true := by decide

/-- contract that remains: the sub-minifier writes legal characters when it is given legal characters (the host does
not check this) -/
def LegalOut (f : List Char → Option (List Char)) : Prop :=
  ∀ x m, f x = some m → x.all legalByte = true → m.all legalByte = true

theorem cdataText_safe (n : Nat) (t e : List Char) (ht : t.all legalByte = true)
    (he : escapeCDATAVal t = some e) : TextSafe n (svgCDataText n e) := by
  have hE : e = escCData t := by
    unfold escapeCDATAVal at he
    split at he
    · cases he
    · exact (Option.some.inj he).symm
  have hokU : (t.map cdU).all XUnit.ok = true := by
    simp only [List.all_map, List.all_eq_true]
    intro c hc
    exact (cdU_ok c (wfCData_of_all t ht c hc)).1
  subst hE
  rw [escCData_flat]
  obtain ⟨us1, e1, ok1⟩ := collapse_flat _ hokU false
  obtain ⟨us2, e2, ok2⟩ := trimWs_flat us1 ok1
  unfold svgCDataText
  rw [e1, e2]
  exact textSafe_escCD n _ (units_text us2 ok2)

/-- **svg_cdata_wellformed** (full; no contract about `]]>` any more): for EVERY `bw.n`, EVERY CDATA token of the lexer
contract (`cdataOk`: own delimiters, text without `]]>`, legal characters), inside or outside `style`, and EVERY
sub-minifier `f` that writes legal characters (`LegalOut`, the one thing the host does not check):
* when `EscapeCDATAVal` chooses text, the written bytes (`&lt;`/`&amp;` escapes, white space collapsed and trimmed,
  `escapeCDEnd`) are empty or well-formed character data and complete no `]]>`;
* when the section is kept, the written bytes are a well-formed CDATA section (`cdataOk`) around the text that was
  chosen — a sub-minifier result containing `]]>` is not used (d582c28), so the section ends at its own `]]>`. -/
theorem svg_cdata_wellformed (style : Bool) (f : List Char → Option (List Char)) (hf : LegalOut f) (n : Nat)
    (data txt : List Char) (hc : cdataOk data txt = true) :
    ((escapeCDATAVal (svgCDataSub style f data txt).2).isSome = true → TextSafe n (svgCData style f n data txt)) ∧
    (escapeCDATAVal (svgCDataSub style f data txt).2 = none →
      cdataOk (svgCData style f n data txt) (svgCDataSub style f data txt).2 = true) := by
  obtain ⟨hd, hne, hleg⟩ := cdataOk_shape data txt hc
  have hsub : (svgCDataSub style f data txt).2.all legalByte = true ∧
      cdataOk (svgCDataSub style f data txt).1 (svgCDataSub style f data txt).2 = true := by
    unfold svgCDataSub
    cases style with
    | false => exact ⟨hleg, hc⟩
    | true =>
      simp only [if_true]
      cases hm : f txt with
      | none => exact ⟨hleg, hc⟩
      | some m =>
        simp only
        split
        · exact ⟨hleg, hc⟩
        · next hno =>
          have hno' : hasCdEnd m = false := by rw [← hasCdEndB_eq]; simpa using hno
          exact ⟨hf txt m hm hleg, by simp [cdataOk, cdOpen, cdClose, cdataOpen, cdataClose, hno', hf txt m hm hleg]⟩
  constructor
  · intro hsome
    cases he : escapeCDATAVal (svgCDataSub style f data txt).2 with
    | none => rw [he] at hsome; cases hsome
    | some e =>
      unfold svgCData
      simp only [he]
      exact cdataText_safe n _ e hsub.1 he
  · intro hnone
    unfold svgCData
    simp only [hnone]
    exact hsub.2

theorem dropSpaces_legal : LegalOut dropSpaces := by
  intro x m h hx
  simp only [dropSpaces, Option.some.injEq] at h
  subst h
  simp only [List.all_eq_true, List.mem_filter] at hx ⊢
  intro c hc
  exact hx c hc.1

/-- regression of K-C09-Xml-2, kept section (fixed in d582c28): the space-removing sub-minifier's `a[b]]>c{d:"<<<<<"}`
contains `]]>` and is not used — the section is written as it was and the independent tokeniser reads
`<style>…</style>` around it; a harmless result is still used. -/
example : cdataOk "<![CDATA[ a <b> ]]>".toList " a <b> ".toList = true ∧
    svgCData false dropSpaces 2 "<![CDATA[ a <b> ]]>".toList " a <b> ".toList = "a &lt;b>".toList ∧
    svgCData true dropSpaces 0 "<![CDATA[a{b:\"<<<<<\"} ]]>".toList "a{b:\"<<<<<\"} ".toList =
      "<![CDATA[a{b:\"<<<<<\"}]]>".toList ∧
    svgCData true dropSpaces 0 "<![CDATA[a[b]] > c{d:\"<<<<<\"}]]>".toList "a[b]] > c{d:\"<<<<<\"}".toList =
      "<![CDATA[a[b]] > c{d:\"<<<<<\"}]]>".toList ∧
    (xmlTokens ("<style>".toList ++ svgCData true dropSpaces 0 "<![CDATA[a[b]] > c{d:\"<<<<<\"}]]>".toList
      "a[b]] > c{d:\"<<<<<\"}".toList ++ "</style>".toList)).isSome = true := by decide

/-- an attribute value literal as far as the host can enforce it: quoted, the quote does not occur inside, no `<`, no
`&` that does not start a reference -/
def AttrLit (w : List Char) : Prop :=
  ∃ q b, w = q :: (b ++ [q]) ∧ (q = '"' ∨ q = '\'') ∧ q ∉ b ∧ '<' ∉ b ∧ DCh.bad ∉ normAttr b

theorem wfAttrVal_attrLit (w : List Char) (h : WfAttrVal w) : AttrLit w := by
  obtain ⟨q, us, hq, hok, hl, rfl⟩ := h
  refine ⟨q, flat us, rfl, hq, flat_no_quote us hok q hq hl, flat_no_lt us hok, ?_⟩
  rw [normAttr_flat us hok]
  exact legalD_ne_bad _ (legal_units us hok true)

theorem attrLit_of_isCD (m : List Char) (h : isCharData m = true) : AttrLit (svgAttrWrite m) := by
  have e39 : ∀ Y, isCharDataGo 0 (['&', '#', '3', '9', ';'] ++ Y) = isCharDataGo 0 Y := by
    intro Y; simp [isCharDataGo, refLen, isDigit]
  have e34 : ∀ Y, isCharDataGo 0 (['&', '#', '3', '4', ';'] ++ Y) = isCharDataGo 0 Y := by
    intro Y; simp [isCharDataGo, refLen, isDigit]
  unfold svgAttrWrite escapeAttrVal
  simp only
  split
  · have hc := isCD_escQuote '\'' ['&', '#', '3', '9', ';'] (Or.inr rfl) e39 _ m (Nat.le_refl _) h
    obtain ⟨s1, s2⟩ := isCD_spec true _ _ (Nat.le_refl _) hc
    exact ⟨'\'', _, rfl, Or.inr rfl, escQuote_noq _ _ (by decide) m, s1, s2⟩
  · have hc := isCD_escQuote '"' ['&', '#', '3', '4', ';'] (Or.inl rfl) e34 _ m (Nat.le_refl _) h
    obtain ⟨s1, s2⟩ := isCD_spec true _ _ (Nat.le_refl _) hc
    exact ⟨'"', _, rfl, Or.inl rfl, escQuote_noq _ _ (by decide) m, s1, s2⟩

/-- **svg_attr_wellformed** (full): (1) for EVERY well-formed quoted attribute value literal, the value as preprocessed
by `TokenBuffer.read` (`ReplaceMultipleWhitespaceAndEntities` with `EntitiesMap`/`AttrRevEntitiesMap`,
`TrimWhitespace`) is a sequence of grammar units; (2) for EVERY value that is a sequence of units the bytes written by
`xml.EscapeAttrVal` are a well-formed attribute value literal whose XML 1.0 §3.3.3 normalised value is that of the
units; (3) the `style` attribute, EVERY inline sub-minifier function `f`: the written bytes are a quoted literal in
which the chosen quote does not occur, without `<` and without a `&` that does not start a reference (`AttrLit`; since
d582c28 a result that `isCharData` rejects is not used), and the full `WfAttrVal` whenever the bytes do not come from
the sub-minifier.  The other value rewrites (`d`, `viewBox`, colours, lengths) remain by contract (2). -/
theorem svg_attr_wellformed :
    (∀ v : List Char, WfAttrVal v → ∃ q body us, v = q :: (body ++ [q]) ∧ svgAttrPre body = flat us ∧
      us.all XUnit.ok = true) ∧
    (∀ us : List XUnit, us.all XUnit.ok = true →
      WfAttrVal (svgAttrWrite (flat us)) ∧ attrValue (svgAttrWrite (flat us)) = us.map (XUnit.val true)) ∧
    (∀ (f : List Char → Option (List Char)) (us : List XUnit), us.all XUnit.ok = true →
      AttrLit (svgStyleAttr f (flat us)) ∧
      (subChecked f (svgAttrPre (flat us)) = svgAttrPre (flat us) → WfAttrVal (svgStyleAttr f (flat us)))) := by
  have pre : ∀ us : List XUnit, us.all XUnit.ok = true → ∃ us2, svgAttrPre (flat us) = flat us2 ∧
      us2.all XUnit.ok = true := by
    intro us hok
    obtain ⟨us1, e1, ok1⟩ := scan_ws_units XmlTables.attrRev attrRev_sound us.length us (Nat.le_refl _) hok
    obtain ⟨us2, e2, ok2⟩ := trimWs_flat us1 ok1
    refine ⟨us2, ?_, ok2⟩
    unfold svgAttrPre replWsEnt
    rw [e1, e2]
  refine ⟨?_, ?_, ?_⟩
  · rintro v ⟨q, us, _, hok, _, rfl⟩
    obtain ⟨us2, e, ok2⟩ := pre us hok
    exact ⟨q, flat us, us2, rfl, e, ok2⟩
  · intro us hok
    have := escapeAttrVal_flat us hok
    exact ⟨this.2, this.1⟩
  · intro f us hok
    obtain ⟨us2, e, ok2⟩ := pre us hok
    have hplain : WfAttrVal (svgAttrWrite (svgAttrPre (flat us))) := by
      rw [e]; exact (escapeAttrVal_flat us2 ok2).2
    constructor
    · unfold svgStyleAttr subChecked
      cases hm : f (svgAttrPre (flat us)) with
      | none => exact wfAttrVal_attrLit _ hplain
      | some m =>
        simp only
        split
        · next hok2 => exact attrLit_of_isCD m hok2
        · exact wfAttrVal_attrLit _ hplain
    · intro h
      unfold svgStyleAttr
      rw [h]; exact hplain

example : svgAttrPre "  a &#60;  &quot;b&apos; &#10; ".toList = "a &lt; \"b' &#10;".toList ∧
    svgAttrWrite (svgAttrPre "  a &#60;  &quot;b&apos;\" &#10; ".toList) = "'a &lt; \"b&#39;\" &#10;'".toList := by decide

/-- regression of K-C09-Xml-3, `style` attribute (fixed in d582c28): a sub-minifier that cuts the `;` of `a:&lt;` is
overruled, one whose result has quotes is used and the chosen quote escaped -/
example : svgStyleAttr dropSemi "a:&lt;".toList = "\"a:&lt;\"".toList ∧
    svgStyleAttr dropSpaces "a : 'b \"c\" d'".toList = "\"a:'b&#34;c&#34;d'\"".toList := by decide

end Verif.Proofs.C09Xml

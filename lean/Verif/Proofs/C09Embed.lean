import Verif.Model.Css
import Verif.Spec.C09HtmlShape
/-!
# C09 — embedded languages: a guest payload that minifies to the end tag of its host element (K-C09-3)

The HTML slice proves that a raw-text element is read back intact PROVIDED the sub-minifier creates no appropriate end tag
of the host (`SubKeeps`, `Proofs/C09HtmlModelRaw.lean`).  For the CSS declaration writer that contract is false: the value
tokens `<` `/` `style` `>` — none of which contains `</style` — are written `</style >` (the writer puts `/` tight against
both neighbours), which the HTML tokeniser reads as the end tag of the enclosing `style` element.  Reproduced on the real
code (before /repo 1557146): `<style>a{b:< /style >}</style><p>x</p>` ↦ `<style>a{b:</style >}</style><p>x`.

Since 1557146 the HOST enforces the contract: html.go re-reads `<tag>` + result + `</tag>` with its own lexer and keeps the
original payload unless the result is read back as exactly one text token.  The CSS writer still behaves as stated here (the
statement is about the writer); the defect K-C09-3 is repaired on the host side, its inputs are regression documents of the sweep.
-/
namespace Verif.Proofs.C09Embed
open Verif.Spec.CssValue Verif.Model.Css Verif.Spec.C09HtmlShape

/-- the value tokens of `b:< /style >` as the dependency parser delivers them (white space tokens are not delivered) -/
def styleEndTokens : List Tok :=
  [.mk .delim "<".toList [], .mk .delim "/".toList [], .mk .ident "style".toList [], .mk .delim ">".toList []]

/-- **K-C09-3 on the model of the CSS writer**: no token of the value contains an end tag of `style`, the written value
    does — the `SubKeeps` contract of `html_rawtext_end_stable_partial` does not hold for the CSS declaration writer -/
theorem css_writer_creates_style_end_tag :
    (∀ t ∈ styleEndTokens, hasEndTag "style".toList t.data = false) ∧
    writeDeclaration styleEndTokens false = "</style >".toList ∧
    hasEndTag "style".toList (writeDeclaration styleEndTokens false) = true := by
  decide

end Verif.Proofs.C09Embed

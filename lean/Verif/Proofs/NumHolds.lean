import Verif.Proofs.NumValue
set_option linter.unusedSimpArgs false
/-!
# C08 — the executable checker (`decOf`, normalised decimals) is sound for the rational value `numVal`
-/
namespace Verif.Proofs.Num
open Verif.Spec.Num

theorem Dec.val_eq_dval (d : Dec) : d.val = dval d.neg d.m d.e := rfl

theorem stripTens_val (neg : Bool) (fuel m : Nat) (e : Int) :
    dval neg (stripTens fuel m e).1 (stripTens fuel m e).2 = dval neg m e := by
  induction fuel generalizing m e with
  | zero => rfl
  | succ k ih =>
    unfold stripTens
    split
    · rename_i hc
      simp only [Bool.and_eq_true, beq_iff_eq] at hc
      rw [ih]
      have hm : m = m / 10 * 10 ^ 1 := by omega
      conv => rhs; rw [hm, dval_shift]
      rfl
    · rfl

theorem Dec.norm_val (d : Dec) : d.norm.val = d.val := by
  unfold Dec.norm
  split
  · rename_i h
    have : d.m = 0 := by simpa using h
    simp only [Dec.val_eq_dval, this, dval_zero]
  · simp only [Dec.val_eq_dval]
    exact stripTens_val d.neg d.m d.m d.e

theorem Parsed.dec_val (p : Parsed) : p.dec.val = p.val := by
  unfold Parsed.dec
  rw [Dec.norm_val]
  rfl

/-- soundness of the exact clause of `holds`: equal normalised decimals denote equal rationals -/
theorem decOf_sound {a b : List Char} (h : decOf a = decOf b) : numVal a = numVal b := by
  unfold decOf at h
  unfold numVal
  cases ha : parse a with
  | none =>
    cases hb : parse b with
    | none => rfl
    | some q => rw [ha, hb] at h; cases h
  | some p =>
    cases hb : parse b with
    | none => rw [ha, hb] at h; cases h
    | some q =>
      rw [ha, hb] at h
      simp only [Option.map_some, Option.some.injEq] at h ⊢
      rw [← Parsed.dec_val p, ← Parsed.dec_val q, h]

end Verif.Proofs.Num

namespace Verif.Proofs.Num
open Verif.Spec.Num

theorem mask_zero (gin gout : Bool) (x : Nat) (L : Prop) [Decidable L]
    (h : ((if (!gin) = true then 1 else (if gout = true then 0 else 2) + x + (if L then 0 else 8)) == 0) = true) :
    gout = true ∧ x = 0 ∧ L := by
  cases gin with
  | false => simp at h
  | true =>
    simp only [Bool.not_true, Bool.false_eq_true, if_false, beq_iff_eq] at h
    cases gout with
    | false => simp at h
    | true =>
      by_cases hl : L
      · simp [hl] at h; exact ⟨rfl, h, hl⟩
      · simp [hl] at h

/-- what the checker `holds` establishes at precision ≤ 0 -/
theorem holds_exact_sound (dm : Bool) (s : List Char) (p : Int) (out : List Char)
    (h : holds dm s p out = true) (hp : p ≤ 0) :
    (if dm then isDecimal out else isNumber out) = true ∧ numVal out = numVal s ∧ out.length ≤ s.length := by
  unfold holds failMask at h
  obtain ⟨h1, h2, h3⟩ := mask_zero _ _ _ _ h
  refine ⟨h1, ?_, h3⟩
  split at h2
  · rename_i a b ha hb
    rw [if_pos hp] at h2
    split at h2
    · rename_i hab
      have : decOf s = decOf out := by rw [ha, hb]; simpa using hab
      exact (decOf_sound this).symm
    · cases h2
  · cases h2

end Verif.Proofs.Num

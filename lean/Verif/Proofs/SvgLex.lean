import Verif.Spec.SvgPath
import Verif.Spec.SvgHazard
import Verif.Model.SvgPath
/-!
# C05 helper lemmas: the lexer reads back what the separator-eliding printer writes
-/
namespace Verif.Proofs.SvgLex
open Verif.Spec.SvgPath Verif.Spec.SvgHazard Verif.Model.SvgPath

/-! ## `lexNumber` on a rendered number followed by a harmless character -/

/-- the rest of the output cannot extend a number lexeme: it does not start with a digit or `e`/`E`,
    nor — after a plain integer — with a dot -/
def Stop (isInt : Bool) (rest : List Char) : Prop :=
  ∀ c r, rest = c :: r → isDigit c = false ∧ isExpChar c = false ∧ (isInt = true → c ≠ '.')

theorem span_digits_stop (ds rest : List Char) (hd : ∀ c ∈ ds, isDigit c = true)
    (hs : ∀ c r, rest = c :: r → isDigit c = false) :
    spanD (ds ++ rest) = (ds, rest) := by
  unfold spanD
  induction ds with
  | nil =>
    cases rest with
    | nil => simp
    | cons c r => simp [List.takeWhile_cons, List.dropWhile_cons, hs c r rfl]
  | cons d ds ih =>
    have hd1 : isDigit d = true := hd d (by simp)
    have ih' := ih (fun c hc => hd c (by simp [hc]))
    simp only [List.cons_append, List.takeWhile_cons, List.dropWhile_cons, hd1, if_true]
    simp only [Prod.mk.injEq] at ih' ⊢
    exact ⟨by rw [ih'.1], ih'.2⟩

theorem takeSign_nosign (c : Char) (r : List Char) (h1 : c ≠ '+') (h2 : c ≠ '-') :
    takeSign (c :: r) = ([], c :: r) := by
  unfold takeSign
  split
  · rename_i heq; cases heq; exact absurd rfl h1
  · rename_i heq; cases heq; exact absurd rfl h2
  · rfl

theorem digit_not_sign (c : Char) (h : isDigit c = true) : c ≠ '+' ∧ c ≠ '-' ∧ c ≠ '.' ∧ isExpChar c = false := by
  refine ⟨?_, ?_, ?_, ?_⟩ <;> (try intro e; subst e; revert h; decide)
  simp only [isExpChar]
  by_cases h1 : c = 'e'
  · subst h1; revert h; decide
  · by_cases h2 : c = 'E'
    · subst h2; revert h; decide
    · simp [h1, h2]

theorem lexExp_stop (acc rest : List Char) (hs : ∀ c r, rest = c :: r → isExpChar c = false) :
    lexExp acc rest = (acc, rest) := by
  cases rest with
  | nil => rfl
  | cons c r => simp [lexExp, hs c r rfl]

theorem lexExp_exp (acc ds rest : List Char) (n : Bool) (hd : ∀ c ∈ ds, isDigit c = true) (hne : ds ≠ [])
    (hs : ∀ c r, rest = c :: r → isDigit c = false) :
    lexExp acc ('e' :: ((if n then ['-'] else []) ++ ds) ++ rest) =
      (acc ++ 'e' :: ((if n then ['-'] else []) ++ ds), rest) := by
  have hsp := span_digits_stop ds rest hd hs
  cases ds with
  | nil => exact absurd rfl hne
  | cons d ds' =>
    have hd1 : isDigit d = true := hd d (by simp)
    obtain ⟨h1, h2, _, _⟩ := digit_not_sign d hd1
    cases n
    · simp only [Bool.false_eq_true, if_false, List.nil_append, List.cons_append]
      simp only [List.cons_append] at hsp
      simp [lexExp, isExpChar, takeSign_nosign d (ds' ++ rest) h1 h2, hsp]
    · simp only [if_true, List.cons_append, List.nil_append]
      simp only [List.cons_append] at hsp
      simp [lexExp, isExpChar, takeSign, hsp]

/-- the part of `lexNumber` after the sign -/
def lexU (sg r0 : List Char) : Option (List Char × List Char) :=
  let ip := spanD r0
  match ip.2 with
  | '.' :: r =>
    let fp := spanD r
    if ip.1.isEmpty && fp.1.isEmpty then none
    else some (lexExp (sg ++ ip.1 ++ '.' :: fp.1) fp.2)
  | r1 => if ip.1.isEmpty then none else some (lexExp (sg ++ ip.1) r1)

theorem lexNumber_eq (s : List Char) : lexNumber s = lexU (takeSign s).1 (takeSign s).2 := rfl

def exStr : Option (Bool × List Char) → List Char
  | none => []
  | some (n, ds) => 'e' :: ((if n then ['-'] else []) ++ ds)

theorem render_eq (v : NumView) :
    v.render = (if v.neg then ['-'] else []) ++ (v.ip ++ ((if v.dot then '.' :: v.fp else []) ++ exStr v.ex)) := by
  unfold NumView.render exStr
  cases v.ex with
  | none => rfl
  | some p => rfl

/-- exponent part followed by a harmless rest -/
theorem lexExp_ex (acc rest : List Char) (ex : Option (Bool × List Char))
    (hex : match ex with | none => True | some (_, ds) => (∀ c ∈ ds, isDigit c = true) ∧ ds ≠ [])
    (hs : ∀ c r, rest = c :: r → isDigit c = false ∧ isExpChar c = false) :
    lexExp acc (exStr ex ++ rest) = (acc ++ exStr ex, rest) := by
  cases ex with
  | none => simp [exStr, lexExp_stop acc rest (fun c r h => (hs c r h).2)]
  | some p =>
    obtain ⟨n, ds⟩ := p
    simp only [exStr]
    exact lexExp_exp acc ds rest n hex.1 hex.2 (fun c r h => (hs c r h).1)

theorem exStr_head (ex : Option (Bool × List Char)) (rest : List Char) (isInt : Bool)
    (hs : Stop isInt rest) (hi : isInt = ex.isNone) :
    ∀ c r, exStr ex ++ rest = c :: r → isDigit c = false ∧ (ex.isNone = true → c ≠ '.') := by
  intro c r h
  cases ex with
  | none =>
    simp only [exStr, List.nil_append] at h
    have := hs c r h
    simp only [Option.isNone_none] at hi
    exact ⟨this.1, fun _ => this.2.2 hi⟩
  | some p =>
    obtain ⟨n, ds⟩ := p
    simp only [exStr, List.cons_append, List.cons.injEq] at h
    rw [← h.1]
    exact ⟨by decide, by simp⟩

def fracStr (dot : Bool) (fp : List Char) : List Char := if dot then '.' :: fp else []

theorem lexU_body (sg ip fp : List Char) (dot : Bool) (ex : Option (Bool × List Char)) (rest : List Char)
    (hip : ∀ c ∈ ip, isDigit c = true) (hfp : ∀ c ∈ fp, isDigit c = true)
    (hdf : dot = false → fp = []) (hne : ip ≠ [] ∨ fp ≠ [])
    (hex : match ex with | none => True | some (_, ds) => (∀ c ∈ ds, isDigit c = true) ∧ ds ≠ [])
    (hs : Stop (!dot && ex.isNone) rest) :
    lexU sg (ip ++ ((fracStr dot fp ++ exStr ex) ++ rest)) = some (sg ++ (ip ++ (fracStr dot fp ++ exStr ex)), rest) := by
  have hs2 : ∀ c r, rest = c :: r → isDigit c = false ∧ isExpChar c = false :=
    fun c r h => ⟨(hs c r h).1, (hs c r h).2.1⟩
  cases dot with
  | true =>
    have hhead := exStr_head ex rest false (by
      intro c r h; exact ⟨(hs c r h).1, (hs c r h).2.1, by simp⟩) 
    simp only [fracStr, if_true, List.cons_append, List.append_assoc]
    have h1 : spanD (ip ++ '.' :: (fp ++ (exStr ex ++ rest))) = (ip, '.' :: (fp ++ (exStr ex ++ rest))) :=
      span_digits_stop ip _ hip (by intro c r h; cases h; decide)
    have h2 : spanD (fp ++ (exStr ex ++ rest)) = (fp, exStr ex ++ rest) := by
      apply span_digits_stop fp _ hfp
      intro c r h
      cases ex with
      | none => simp only [exStr, List.nil_append] at h; exact (hs c r h).1
      | some p =>
        obtain ⟨n, ds⟩ := p
        simp only [exStr, List.cons_append, List.cons.injEq] at h
        rw [← h.1]; decide
    have hne' : (ip.isEmpty && fp.isEmpty) = false := by
      cases hne with
      | inl h => cases ip with | nil => exact absurd rfl h | cons _ _ => rfl
      | inr h => cases fp with | nil => exact absurd rfl h | cons _ _ => simp
    simp only [lexU, h1, h2, hne', Bool.false_eq_true, if_false]
    rw [lexExp_ex _ rest ex hex hs2]
    simp [List.append_assoc]
  | false =>
    have hfp0 : fp = [] := hdf rfl
    subst hfp0
    simp only [fracStr, Bool.false_eq_true, if_false, List.nil_append]
    have hhd : ∀ c r, exStr ex ++ rest = c :: r → isDigit c = false ∧ c ≠ '.' := by
      intro c r h
      cases ex with
      | none =>
        simp only [exStr, List.nil_append] at h
        exact ⟨(hs c r h).1, (hs c r h).2.2 (by simp)⟩
      | some p =>
        obtain ⟨n, ds⟩ := p
        simp only [exStr, List.cons_append, List.cons.injEq] at h
        rw [← h.1]; exact ⟨by decide, by decide⟩
    have h1 : spanD (ip ++ (exStr ex ++ rest)) = (ip, exStr ex ++ rest) :=
      span_digits_stop ip _ hip (fun c r h => (hhd c r h).1)
    have hipne : ip.isEmpty = false := by
      cases hne with
      | inl h => cases ip with | nil => exact absurd rfl h | cons _ _ => rfl
      | inr h => exact absurd rfl h
    simp only [lexU, h1]
    cases hr : exStr ex ++ rest with
    | nil =>
      simp only [hipne, Bool.false_eq_true, if_false]
      have := lexExp_ex (sg ++ ip) rest ex hex hs2
      rw [hr] at this
      rw [this]; simp [List.append_assoc]
    | cons c r =>
      have hc := (hhd c r hr).2
      have := lexExp_ex (sg ++ ip) rest ex hex hs2
      rw [hr] at this
      split
      · rename_i heq; cases heq; exact absurd rfl hc
      · simp only [hipne, Bool.false_eq_true, if_false]
        rw [this]; simp [List.append_assoc]

structure WfView (v : NumView) : Prop where
  hip : ∀ c ∈ v.ip, isDigit c = true
  hfp : ∀ c ∈ v.fp, isDigit c = true
  hdf : v.dot = false → v.fp = []
  hne : v.ip ≠ [] ∨ v.fp ≠ []
  hex : match v.ex with | none => True | some (_, ds) => (∀ c ∈ ds, isDigit c = true) ∧ ds ≠ []

theorem wf_of_bool (v : NumView) (h : v.wf = true) : WfView v := by
  unfold NumView.wf at h
  simp only [Bool.and_eq_true, List.all_eq_true, Bool.or_eq_true, Bool.not_eq_true', List.isEmpty_eq_false_iff,
    List.isEmpty_iff] at h
  obtain ⟨⟨⟨⟨h1, h2⟩, h3⟩, h4⟩, h5⟩ := h
  refine ⟨h1, h2, ?_, ?_, ?_⟩
  · intro hd; cases h3 with
    | inl h => rw [hd] at h; exact absurd h (by decide)
    | inr h => exact h
  · exact h4
  · cases hx : v.ex with
    | none => trivial
    | some p =>
      obtain ⟨n, ds⟩ := p
      rw [hx] at h5
      simp only [Bool.and_eq_true, List.all_eq_true, Bool.not_eq_true', List.isEmpty_eq_false_iff] at h5
      exact h5

theorem body_eq (v : NumView) :
    v.render = (if v.neg then ['-'] else []) ++ (v.ip ++ (fracStr v.dot v.fp ++ exStr v.ex)) := by
  rw [render_eq]; rfl

/-- the lexer's number scanner reads back exactly a rendered number when what follows cannot extend it -/
theorem lexNumber_render (v : NumView) (rest : List Char) (hwf : WfView v) (hs : Stop v.isInt rest) :
    lexNumber (v.render ++ rest) = some (v.render, rest) := by
  have hb := lexU_body (if v.neg then ['-'] else []) v.ip v.fp v.dot v.ex rest hwf.hip hwf.hfp hwf.hdf hwf.hne hwf.hex
    (by simpa [NumView.isInt] using hs)
  rw [lexNumber_eq, body_eq]
  cases hn : v.neg with
  | true =>
    rw [hn] at hb
    simp only [if_true, List.cons_append, List.nil_append, takeSign] at hb ⊢
    simpa [List.append_assoc] using hb
  | false =>
    rw [hn] at hb
    simp only [Bool.false_eq_true, if_false, List.nil_append] at hb ⊢
    -- the first character is a digit or the dot
    have hts : takeSign (v.ip ++ (fracStr v.dot v.fp ++ exStr v.ex) ++ rest) =
        ([], v.ip ++ (fracStr v.dot v.fp ++ exStr v.ex) ++ rest) := by
      cases hip : v.ip with
      | cons d t =>
        have hd := hwf.hip d (by rw [hip]; simp)
        obtain ⟨h1, h2, _, _⟩ := digit_not_sign d hd
        simpa using takeSign_nosign d _ h1 h2
      | nil =>
        have hfpne : v.fp ≠ [] := by
          cases hwf.hne with
          | inl h => exact absurd hip h
          | inr h => exact h
        have hdot : v.dot = true := by
          cases hd : v.dot with
          | true => rfl
          | false => exact absurd (hwf.hdf hd) hfpne
        simp only [hdot, fracStr, if_true, List.nil_append, List.cons_append]
        exact takeSign_nosign '.' _ (by decide) (by decide)
    rw [hts]
    simpa [List.append_assoc] using hb

end Verif.Proofs.SvgLex
